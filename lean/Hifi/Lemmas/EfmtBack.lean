import Hifi.Lemmas.Efmt
/-
  Part D of the lemmas for C19: parse-back.  `Format::parse` applied to the formatter's own output
  returns the epoch, for UTC epochs and formats of the seven numeric tokens with non-numeric
  separators (the core of the class `backOk`).
-/
namespace Hifi.Efmt
open Hifi Hifi.Spec

/-! ### digits -/

def isDigitC (c : Nat) : Prop := 48 ≤ c ∧ c ≤ 57

theorem digit_cases (c : Nat) (h : isDigitC c) :
    c = 48 ∨ c = 49 ∨ c = 50 ∨ c = 51 ∨ c = 52 ∨ c = 53 ∨ c = 54 ∨ c = 55 ∨ c = 56 ∨ c = 57 := by
  unfold isDigitC at h; omega

theorem digit_isNum (c : Nat) (h : isDigitC c) : isNum c = true := by
  rcases digit_cases c h with h | h | h | h | h | h | h | h | h | h <;> subst h <;> decide +kernel

theorem digit_not_ws (c : Nat) (h : isDigitC c) : isWs c = false := by
  rcases digit_cases c h with h | h | h | h | h | h | h | h | h | h <;> subst h <;> decide +kernel

theorem digitsVal_append : ∀ (a b : List Nat) (acc : Int),
    digitsVal (a ++ b) acc = (match digitsVal a acc with | some v => digitsVal b v | none => none)
  | [], b, acc => by simp [digitsVal]
  | c :: a, b, acc => by
    simp only [List.cons_append, digitsVal]
    split
    · exact digitsVal_append a b _
    · rfl

/-- `{:0w}` of a number below 10^w: exactly w ASCII digits whose value is the number -/
theorem fmtNat_digits : ∀ (w n : Nat), n < 10 ^ w →
    (Cal.fmtNat w n).length = w ∧ (∀ c ∈ Cal.fmtNat w n, isDigitC c) ∧
    ∀ acc : Int, digitsVal (Cal.fmtNat w n) acc = some (acc * 10 ^ w + n)
  | 0, n, h => by
    have : n = 0 := by simpa using h
    subst this
    simp [Cal.fmtNat, digitsVal]
  | w + 1, n, h => by
    have hq : n / 10 < 10 ^ w := by
      rw [Nat.pow_succ] at h; omega
    obtain ⟨h1, h2, h3⟩ := fmtNat_digits w (n / 10) hq
    unfold Cal.fmtNat
    refine ⟨by simp [h1], ?_, ?_⟩
    · intro c hc
      rcases List.mem_append.mp hc with hc | hc
      · exact h2 c hc
      · simp at hc; subst hc; unfold isDigitC; omega
    · intro acc
      rw [digitsVal_append, h3 acc]
      simp only [digitsVal]
      have hd : 48 ≤ 48 + n % 10 ∧ 48 + n % 10 ≤ 57 := by omega
      rw [if_pos hd]
      simp only [Option.some.injEq]
      have e1 : ((48 + n % 10 : Nat) : Int) - 48 = ((n % 10 : Nat) : Int) := by omega
      rw [e1, Int.pow_succ]
      have e2 : (n : Int) = ((n / 10 : Nat) : Int) * 10 + ((n % 10 : Nat) : Int) := by omega
      rw [e2]
      simp only [Int.add_mul, Int.mul_assoc]
      omega

theorem lexI32_digits (ds : List Nat) (v : Int) (hne : ds ≠ []) (hd : ∀ c ∈ ds, isDigitC c)
    (hv : digitsVal ds 0 = some v) (hr : v ≤ 2147483647) : lexI32 ds = some v := by
  cases ds with
  | nil => exact absurd rfl hne
  | cons c tl =>
    have hc := hd c (by simp)
    unfold isDigitC at hc
    unfold lexI32
    split
    · rename_i h; simp at h
    · rename_i ds' h; simp at h; omega
    · rename_i ds' h; simp at h; omega
    · rw [hv]; simp [hr]

/-! ### ASCII text: byte offsets are character offsets -/

def Ascii (s : List Nat) : Prop := ∀ c ∈ s, c < 128

theorem utf8Size_ascii (c : Nat) (h : c < 128) : utf8Size c = 1 := by unfold utf8Size; simp [h]

theorem byteLen_ascii : ∀ (s : List Nat), Ascii s → byteLen s = s.length
  | [], _ => rfl
  | c :: cs, h => by
    have hc : c < 128 := h c (by simp)
    simp only [byteLen, utf8Size_ascii c hc, List.length_cons,
      byteLen_ascii cs (fun x hx => h x (by simp [hx]))]
    omega

theorem dropBytes_ascii : ∀ (pre x : List Nat), Ascii pre → dropBytes (pre ++ x) pre.length = some x
  | [], x, _ => by cases x <;> simp [dropBytes]
  | c :: pre, x, h => by
    have hc : c < 128 := h c (by simp)
    simp only [List.cons_append, List.length_cons, dropBytes, utf8Size_ascii c hc]
    rw [if_neg (by omega), if_pos (by omega)]
    have : pre.length + 1 - 1 = pre.length := by omega
    rw [this]
    exact dropBytes_ascii pre x (fun y hy => h y (by simp [hy]))

theorem takeBytes_ascii : ∀ (mid post : List Nat), Ascii mid → takeBytes (mid ++ post) mid.length = some mid
  | [], post, _ => by cases post <;> simp [takeBytes]
  | c :: mid, post, h => by
    have hc : c < 128 := h c (by simp)
    simp only [List.cons_append, List.length_cons, takeBytes, utf8Size_ascii c hc]
    rw [if_neg (by omega), if_pos (by omega)]
    have : mid.length + 1 - 1 = mid.length := by omega
    rw [this, takeBytes_ascii mid post (fun y hy => h y (by simp [hy]))]

/-- `&s[a..b]` of ASCII text cut at character positions -/
theorem slice_ascii (pre mid post : List Nat) (h1 : Ascii pre) (h2 : Ascii mid) :
    slice (pre ++ (mid ++ post)) pre.length (pre.length + mid.length) = some mid := by
  unfold slice
  rw [if_pos (by omega), dropBytes_ascii pre _ h1]
  simp only
  have : pre.length + mid.length - pre.length = mid.length := by omega
  rw [this]
  exact takeBytes_ascii mid post h2

theorem trimStart_id (s : List Nat) (h : ∀ c, s.head? = some c → isWs c = false) : trimStart s = s := by
  cases s with
  | nil => rfl
  | cons c cs => unfold trimStart; rw [h c rfl]; simp

/-- text that begins and ends with a non-white-space character is not changed by `trim` -/
theorem trim_id (s : List Nat) (h1 : ∀ c, s.head? = some c → isWs c = false)
    (h2 : ∀ c, s.reverse.head? = some c → isWs c = false) : trim s = s := by
  unfold trim
  rw [trimStart_id s h1, trimStart_id s.reverse h2, List.reverse_reverse]

/-! ### the seven numeric tokens -/

structure Flds where
  y : Int
  mo : Int
  d : Int
  h : Int
  mi : Int
  s : Int
  ns : Int

/-- the fields `Format::parse` stores: a four-digit year and every other field within `Token::value_ok`
    (month 0..13, day 0..31, hour 0..23, minute 0..59, second 0..60) — NOT yet a valid date or time -/
def Flds.InRange (F : Flds) : Prop :=
  0 ≤ F.y ∧ F.y ≤ 9999 ∧ 0 ≤ F.mo ∧ F.mo ≤ 13 ∧ 0 ≤ F.d ∧ F.d ≤ 31 ∧ 0 ≤ F.h ∧ F.h < 24 ∧
  0 ≤ F.mi ∧ F.mi < 60 ∧ 0 ≤ F.s ∧ F.s ≤ 60 ∧ 0 ≤ F.ns ∧ F.ns < 1000000000

def isNum7 : Token → Bool
  | .Year | .Month | .Day | .Hour | .Minute | .Second | .Subsecond => true
  | _ => false

/-- what the formatter prints for an item with one of the seven numeric tokens -/
def numText (F : Flds) (it : Item) : List Nat :=
  tokBytes it.token F.y F.mo F.d F.h F.mi F.s F.ns ⟨Dur.ZERO, TS.UTC⟩ [] 0

/-- the state after `Format::parse` has stored the field of a numeric token -/
def storeFld (t : Token) (F : Flds) (st : St) : St :=
  match t with
  | .Year => { st with y := F.y }
  | .Month => { st with mo := F.mo }
  | .Day => { st with d := F.d }
  | .Hour => { st with h := F.h }
  | .Minute => { st with mi := F.mi }
  | .Second => { st with s := F.s }
  | .Subsecond => { st with ns := F.ns }
  | _ => st

theorem fmtInt_digits (w : Nat) (v : Int) (h0 : 0 ≤ v) (hv : v < 10 ^ w) (hw : 1 ≤ w) (hr : v ≤ 2147483647) :
    (Cal.fmtInt w v).length = w ∧ (∀ c ∈ Cal.fmtInt w v, isDigitC c) ∧ lexI32 (Cal.fmtInt w v) = some v := by
  unfold Cal.fmtInt
  rw [if_neg (by omega)]
  have hlt : v.toNat < 10 ^ w := by
    have : ((v.toNat : Nat) : Int) < ((10 ^ w : Nat) : Int) := by
      rw [Int.toNat_of_nonneg h0]; simpa using hv
    exact Int.ofNat_lt.mp this
  obtain ⟨h1, h2, h3⟩ := fmtNat_digits w v.toNat hlt
  refine ⟨h1, h2, ?_⟩
  apply lexI32_digits _ _ _ h2 _ hr
  · intro h; rw [h] at h1; simp at h1; omega
  · rw [h3 0]; simp [Int.toNat_of_nonneg h0]

/-- the text of a numeric token: at least two ASCII digits (nine for `%f`), read back as the field,
    which passes `value_ok` -/
theorem numText_spec (F : Flds) (hF : F.InRange) (it : Item) (h7 : isNum7 it.token = true) :
    2 ≤ (numText F it).length ∧ (∀ c ∈ numText F it, isDigitC c) ∧
    (it.token = .Subsecond → (numText F it).length = 9) ∧
    ∀ (O : Oracles) (st : St), store O it.token (numText F it) (numText F it).length st = .cont (storeFld it.token F st) := by
  unfold Flds.InRange at hF
  unfold numText
  cases ht : it.token <;> simp [isNum7, ht] at h7
  case Year =>
    obtain ⟨a, b, c⟩ := fmtInt_digits 4 F.y (by omega) (by simp; omega) (by omega) (by omega)
    refine ⟨by simp [tokBytes, a], by simpa [tokBytes] using b, by simp, ?_⟩
    intro O st
    simp [tokBytes, store, c, Token.valueOk, Token.gregorianPosition, St.setPos, storeFld]
  case Month =>
    obtain ⟨a, b, c⟩ := fmtInt_digits 2 F.mo (by omega) (by simp; omega) (by omega) (by omega)
    refine ⟨by simp [tokBytes, a], by simpa [tokBytes] using b, by simp, ?_⟩
    intro O st
    have : 0 ≤ F.mo ∧ F.mo ≤ 13 := by omega
    simp [tokBytes, store, c, Token.valueOk, Token.gregorianPosition, St.setPos, storeFld, this]
  case Day =>
    obtain ⟨a, b, c⟩ := fmtInt_digits 2 F.d (by omega) (by simp; omega) (by omega) (by omega)
    refine ⟨by simp [tokBytes, a], by simpa [tokBytes] using b, by simp, ?_⟩
    intro O st
    have : 0 ≤ F.d ∧ F.d ≤ 31 := by omega
    simp [tokBytes, store, c, Token.valueOk, Token.gregorianPosition, St.setPos, storeFld, this]
  case Hour =>
    obtain ⟨a, b, c⟩ := fmtInt_digits 2 F.h (by omega) (by simp; omega) (by omega) (by omega)
    refine ⟨by simp [tokBytes, a], by simpa [tokBytes] using b, by simp, ?_⟩
    intro O st
    have : 0 ≤ F.h ∧ F.h ≤ 23 := by omega
    simp [tokBytes, store, c, Token.valueOk, Token.gregorianPosition, St.setPos, storeFld, this]
  case Minute =>
    obtain ⟨a, b, c⟩ := fmtInt_digits 2 F.mi (by omega) (by simp; omega) (by omega) (by omega)
    refine ⟨by simp [tokBytes, a], by simpa [tokBytes] using b, by simp, ?_⟩
    intro O st
    have : 0 ≤ F.mi ∧ F.mi ≤ 59 := by omega
    simp [tokBytes, store, c, Token.valueOk, Token.gregorianPosition, St.setPos, storeFld, this]
  case Second =>
    obtain ⟨a, b, c⟩ := fmtInt_digits 2 F.s (by omega) (by simp; omega) (by omega) (by omega)
    refine ⟨by simp [tokBytes, a], by simpa [tokBytes] using b, by simp, ?_⟩
    intro O st
    have : 0 ≤ F.s ∧ F.s ≤ 60 := by omega
    simp [tokBytes, store, c, Token.valueOk, Token.gregorianPosition, St.setPos, storeFld, this]
  case Subsecond =>
    obtain ⟨a, b, c⟩ := fmtInt_digits 9 F.ns (by omega) (by simp; omega) (by omega) (by omega)
    refine ⟨by simp [tokBytes, a], by simpa [tokBytes] using b, by simp [tokBytes, a], ?_⟩
    intro O st
    have : 0 ≤ F.ns := by omega
    simp [tokBytes, store, c, a, Token.valueOk, storeFld, this]

/-- fields the formatter's widths hold: a four-digit year, two digits for month … second, nine for the
    nanoseconds — ANY such values, valid or not -/
def Flds.Printable (F : Flds) : Prop :=
  0 ≤ F.y ∧ F.y ≤ 9999 ∧ 0 ≤ F.mo ∧ F.mo ≤ 99 ∧ 0 ≤ F.d ∧ F.d ≤ 99 ∧ 0 ≤ F.h ∧ F.h ≤ 99 ∧
  0 ≤ F.mi ∧ F.mi ≤ 99 ∧ 0 ≤ F.s ∧ F.s ≤ 99 ∧ 0 ≤ F.ns ∧ F.ns < 1000000000

theorem Flds.InRange.printable {F : Flds} (h : F.InRange) : F.Printable := by
  unfold Flds.InRange at h; unfold Flds.Printable; omega

/-- the field of the token fails `Token::value_ok` (month > 13, day > 31, hour > 23, minute > 59, second > 60) -/
def Flds.bad (F : Flds) : Token → Bool
  | .Month => decide (F.mo > 13)
  | .Day => decide (F.d > 31)
  | .Hour => decide (F.h > 23)
  | .Minute => decide (F.mi > 59)
  | .Second => decide (F.s > 60)
  | _ => false

/-- the text of a numeric token for ANY printable field: at least two ASCII digits -/
theorem numText_digits (F : Flds) (hP : F.Printable) (it : Item) (h7 : isNum7 it.token = true) :
    2 ≤ (numText F it).length ∧ (∀ c ∈ numText F it, isDigitC c) := by
  unfold Flds.Printable at hP
  unfold numText
  cases ht : it.token <;> simp [isNum7, ht] at h7
  case Year =>
    obtain ⟨a, b, _⟩ := fmtInt_digits 4 F.y (by omega) (by simp; omega) (by omega) (by omega)
    exact ⟨by simp [tokBytes, a], by simpa [tokBytes] using b⟩
  case Month =>
    obtain ⟨a, b, _⟩ := fmtInt_digits 2 F.mo (by omega) (by simp; omega) (by omega) (by omega)
    exact ⟨by simp [tokBytes, a], by simpa [tokBytes] using b⟩
  case Day =>
    obtain ⟨a, b, _⟩ := fmtInt_digits 2 F.d (by omega) (by simp; omega) (by omega) (by omega)
    exact ⟨by simp [tokBytes, a], by simpa [tokBytes] using b⟩
  case Hour =>
    obtain ⟨a, b, _⟩ := fmtInt_digits 2 F.h (by omega) (by simp; omega) (by omega) (by omega)
    exact ⟨by simp [tokBytes, a], by simpa [tokBytes] using b⟩
  case Minute =>
    obtain ⟨a, b, _⟩ := fmtInt_digits 2 F.mi (by omega) (by simp; omega) (by omega) (by omega)
    exact ⟨by simp [tokBytes, a], by simpa [tokBytes] using b⟩
  case Second =>
    obtain ⟨a, b, _⟩ := fmtInt_digits 2 F.s (by omega) (by simp; omega) (by omega) (by omega)
    exact ⟨by simp [tokBytes, a], by simpa [tokBytes] using b⟩
  case Subsecond =>
    obtain ⟨a, b, _⟩ := fmtInt_digits 9 F.ns (by omega) (by simp; omega) (by omega) (by omega)
    exact ⟨by simp [tokBytes, a], by simpa [tokBytes] using b⟩

/-- a field beyond `value_ok` is read back as its number and refused by `store` -/
theorem store_bad (F : Flds) (hP : F.Printable) (it : Item) (hb : F.bad it.token = true) (O : Oracles) (st : St) :
    store O it.token (numText F it) (numText F it).length st = .err := by
  unfold Flds.Printable at hP
  unfold numText
  cases ht : it.token <;> simp [Flds.bad, ht] at hb
  case Month =>
    obtain ⟨_, _, c⟩ := fmtInt_digits 2 F.mo (by omega) (by simp; omega) (by omega) (by omega)
    have : ¬ (0 ≤ F.mo ∧ F.mo ≤ 13) := by omega
    simp [tokBytes, store, c, Token.valueOk, this]
  case Day =>
    obtain ⟨_, _, c⟩ := fmtInt_digits 2 F.d (by omega) (by simp; omega) (by omega) (by omega)
    have : ¬ (0 ≤ F.d ∧ F.d ≤ 31) := by omega
    simp [tokBytes, store, c, Token.valueOk, this]
  case Hour =>
    obtain ⟨_, _, c⟩ := fmtInt_digits 2 F.h (by omega) (by simp; omega) (by omega) (by omega)
    have : ¬ (0 ≤ F.h ∧ F.h ≤ 23) := by omega
    simp [tokBytes, store, c, Token.valueOk, this]
  case Minute =>
    obtain ⟨_, _, c⟩ := fmtInt_digits 2 F.mi (by omega) (by simp; omega) (by omega) (by omega)
    have : ¬ (0 ≤ F.mi ∧ F.mi ≤ 59) := by omega
    simp [tokBytes, store, c, Token.valueOk, this]
  case Second =>
    obtain ⟨_, _, c⟩ := fmtInt_digits 2 F.s (by omega) (by simp; omega) (by omega) (by omega)
    have : ¬ (0 ≤ F.s ∧ F.s ≤ 60) := by omega
    simp [tokBytes, store, c, Token.valueOk, this]

theorem bad_num7 (F : Flds) (t : Token) (h : F.bad t = true) : isNum7 t = true := by
  cases t <;> simp [Flds.bad] at h <;> rfl

/-! ### single steps of the loop on the formatter's text -/

theorem num7_facts (t : Token) (h : isNum7 t = true) :
    t.isNumeric = true ∧ t ≠ .OffsetHours ∧ t ≠ .Timescale := by
  cases t <;> simp [isNum7] at h <;> simp [Token.isNumeric]

/-- digits inside the text (not its last character) do nothing while a numeric token is read -/
theorem scan_digits (O : Oracles) (f : Format) (s : List Nat) (len : Nat) :
    ∀ (ds tl : List Nat) (idx : Nat) (st : St),
      st.tok.isNumeric = true → (∀ c ∈ ds, isDigitC c) → idx + ds.length < len →
      parseLoop O f s len (ds ++ tl) idx st = parseLoop O f s len tl (idx + ds.length) st
  | [], tl, idx, st, _, _, _ => by simp
  | c :: ds, tl, idx, st, hn, hd, hl => by
    have hc := digit_isNum c (hd c (by simp))
    simp only [List.length_cons] at hl
    have htr : trigger len c idx st = false := by
      unfold trigger
      have : ¬ (idx + 1 = len) := by omega
      simp [this, hn, hc]
    simp only [List.cons_append, parseLoop, stepChar, htr, Bool.false_eq_true, if_false]
    rw [scan_digits O f s len ds tl (idx + 1) st hn (fun x hx => hd x (by simp [hx])) (by omega)]
    simp only [List.length_cons]
    have : idx + 1 + ds.length = idx + (ds.length + 1) := by omega
    rw [this]

/-- the second separator of the previous item is skipped -/
theorem step_sep2 (O : Oracles) (f : Format) (s : List Nat) (len b idx : Nat) (st : St)
    (hn : st.tok.isNumeric = true) (hoh : st.tok ≠ .OffsetHours) (hb : isNum b = false)
    (hidx : idx = st.prevIdx) (hp : st.prev.sep2 = some b) :
    stepChar O f s len b idx st = .cont { st with prevIdx := st.prevIdx + 1 } := by
  have htr : trigger len b idx st = true := by unfold trigger; simp [hn, hb]
  unfold stepChar
  rw [if_pos htr]
  unfold stepBody
  rw [if_neg (by intro h; exact hoh h.1), if_pos ⟨hidx, (by
    intro h
    rcases h.2 with h' | h'
    · rw [hb] at h'; exact absurd h' (by decide)
    · exact h' (Or.inl hn)), Or.inr hp⟩]

theorem storeFld_frame (t : Token) (F : Flds) (st : St) :
    (storeFld t F st).tok = st.tok ∧ (storeFld t F st).cur = st.cur ∧ (storeFld t F st).prev = st.prev ∧
    (storeFld t F st).curIdx = st.curIdx ∧ (storeFld t F st).prevIdx = st.prevIdx := by
  cases t <;> simp [storeFld]

theorem storeFld_offNeg (t : Token) (F : Flds) (st : St) : (storeFld t F st).offNeg = st.offNeg := by
  cases t <;> rfl

/-- the end of a numeric field at its first separator: the field is stored, the next item becomes current -/
theorem step_sep1 (O : Oracles) (f : Format) (s : List Nat) (len a idx : Nat) (st : St) (F : Flds)
    (it it2 : Item) (pre post : List Nat)
    (hs : s = pre ++ (numText F it ++ post)) (hpre : Ascii pre) (hF : F.InRange)
    (h7 : isNum7 it.token = true) (hoh2 : it2.token ≠ .OffsetHours)
    (hcur : st.cur = it) (htok : st.tok = it.token) (hprev : st.prevIdx = pre.length)
    (hidx : idx = pre.length + (numText F it).length)
    (hsep : it.sep1 = some a) (ha : isNum a = false)
    (hnext : f.items[st.curIdx + 1]? = some it2) (hlen : st.curIdx + 1 < f.items.length)
    (h16 : f.items.length ≤ 16) :
    stepChar O f s len a idx st =
      .cont { storeFld it.token F { st with prev := it, curIdx := st.curIdx + 1, cur := it2, tok := it2.token }
              with prevIdx := idx + 1 } := by
  obtain ⟨hl2, hdig, _, hstore⟩ := numText_spec F hF it h7
  obtain ⟨hnum, hoh, hts⟩ := num7_facts it.token h7
  have hasc : Ascii (numText F it) := fun c hc => by have := hdig c hc; unfold isDigitC at this; omega
  have htr : trigger len a idx st = true := by unfold trigger; simp [htok, hnum, ha]
  unfold stepChar
  rw [if_pos htr]
  unfold stepBody
  rw [if_neg (by intro h; exact hoh (htok ▸ h.1)), if_neg (by intro h; omega), if_neg (by rw [htok]; exact hts),
    if_neg (by intro h; exact h.2 (by rw [hcur, hsep])), if_neg (by intro h; exact hoh (htok ▸ h.1))]
  unfold stepField
  rw [if_pos (Or.inr ⟨ha, Or.inl (by rw [htok]; exact hnum)⟩)]
  have hsn : (st.cur.sepIsNot a && (st.cur.sep2.isNone || st.cur.sep2IsNot a)) = false := by
    unfold Item.sepIsNot; rw [hcur, hsep]; simp
  rw [hsn]
  simp only [Bool.false_eq_true, if_false]
  rw [if_neg (by omega), if_neg (by have : MAX_TOKENS = 16 := rfl; omega), hnext]
  simp only
  unfold afterEnd
  simp only
  rw [hprev, hidx, hs, slice_ascii pre (numText F it) post hpre hasc]
  simp only
  have hn : pre.length + (numText F it).length - pre.length = (numText F it).length := by omega
  rw [hn, htok, hstore]
  simp only [Bool.false_eq_true, if_false]
  rw [if_neg (by rw [(storeFld_frame _ _ _).1]; exact hoh2),
    if_neg (by intro h; rw [(storeFld_frame _ _ _).2.2.1] at h; simp only at h; rw [hcur, hsep] at h; exact absurd h.2.2 (by simp)),
    hcur]

/-- the last character of the text, a digit of the last item's field: the field is stored -/
theorem step_last (O : Oracles) (f : Format) (s : List Nat) (len c idx : Nat) (st : St) (F : Flds)
    (it : Item) (pre D' : List Nat)
    (hs : s = pre ++ (numText F it ++ [])) (hpre : Ascii pre) (hF : F.InRange) (h7 : isNum7 it.token = true)
    (hD : numText F it = D' ++ [c]) (hD' : D' ≠ [])
    (hcur : st.cur = it) (htok : st.tok = it.token) (hprev : st.prevIdx = pre.length)
    (hidx : idx = pre.length + D'.length) (hlen : len = pre.length + D'.length + 1) :
    stepChar O f s len c idx st =
      .cont { storeFld it.token F { st with prev := it } with prevIdx := idx + 1 } := by
  obtain ⟨hl2, hdig, _, hstore⟩ := numText_spec F hF it h7
  obtain ⟨hnum, hoh, hts⟩ := num7_facts it.token h7
  have hasc : Ascii (numText F it) := fun c hc => by have := hdig c hc; unfold isDigitC at this; omega
  have hc : isDigitC c := hdig c (by rw [hD]; simp)
  have hcn := digit_isNum c hc
  have hDl : (numText F it).length = D'.length + 1 := by rw [hD]; simp
  have hD'l : 1 ≤ D'.length := by
    cases D' with
    | nil => exact absurd rfl hD'
    | cons _ _ => simp
  have htr : trigger len c idx st = true := by
    unfold trigger
    have : idx + 1 = len := by omega
    simp [this]
  unfold stepChar
  rw [if_pos htr]
  unfold stepBody
  rw [if_neg (by intro h; exact hoh (htok ▸ h.1)), if_neg (by intro h; omega), if_neg (by rw [htok]; exact hts),
    if_neg (by intro h; unfold isDigitC at hc; omega), if_neg (by intro h; exact hoh (htok ▸ h.1))]
  unfold stepField
  have hno : ¬ (idx + 1 ≠ len ∨ (isNum c = false ∧ (st.tok.isNumeric = true ∨ st.cur.sep1 = some c))) := by
    intro h
    rcases h with h | h
    · omega
    · rw [hcn] at h; exact absurd h.1 (by decide)
  rw [if_neg hno]
  unfold afterEnd
  simp only
  have hi1 : idx + 1 = pre.length + (numText F it).length := by omega
  rw [hprev, hi1, hs, slice_ascii pre (numText F it) [] hpre hasc]
  simp only
  have hn : pre.length + (numText F it).length - pre.length = (numText F it).length := by omega
  rw [hn, htok, hstore]
  simp only [Bool.false_eq_true, if_false]
  rw [if_neg (by rw [(storeFld_frame _ _ _).1]; simp only; exact hoh), if_neg (by intro h; omega), hcur]

/-- the end of a numeric field whose value `value_ok` refuses, at its first separator: an error -/
theorem step_sep1_err (O : Oracles) (f : Format) (s : List Nat) (len a idx : Nat) (st : St) (F : Flds)
    (it it2 : Item) (pre post : List Nat)
    (hs : s = pre ++ (numText F it ++ post)) (hpre : Ascii pre) (hP : F.Printable)
    (hb : F.bad it.token = true)
    (hcur : st.cur = it) (htok : st.tok = it.token) (hprev : st.prevIdx = pre.length)
    (hidx : idx = pre.length + (numText F it).length)
    (hsep : it.sep1 = some a) (ha : isNum a = false)
    (hnext : f.items[st.curIdx + 1]? = some it2) (hlen : st.curIdx + 1 < f.items.length)
    (h16 : f.items.length ≤ 16) :
    stepChar O f s len a idx st = .err := by
  have h7 := bad_num7 F it.token hb
  obtain ⟨hl2, hdig⟩ := numText_digits F hP it h7
  obtain ⟨hnum, hoh, hts⟩ := num7_facts it.token h7
  have hasc : Ascii (numText F it) := fun c hc => by have := hdig c hc; unfold isDigitC at this; omega
  have htr : trigger len a idx st = true := by unfold trigger; simp [htok, hnum, ha]
  unfold stepChar
  rw [if_pos htr]
  unfold stepBody
  rw [if_neg (by intro h; exact hoh (htok ▸ h.1)), if_neg (by intro h; omega), if_neg (by rw [htok]; exact hts),
    if_neg (by intro h; exact h.2 (by rw [hcur, hsep])), if_neg (by intro h; exact hoh (htok ▸ h.1))]
  unfold stepField
  rw [if_pos (Or.inr ⟨ha, Or.inl (by rw [htok]; exact hnum)⟩)]
  have hsn : (st.cur.sepIsNot a && (st.cur.sep2.isNone || st.cur.sep2IsNot a)) = false := by
    unfold Item.sepIsNot; rw [hcur, hsep]; simp
  rw [hsn]
  simp only [Bool.false_eq_true, if_false]
  rw [if_neg (by omega), if_neg (by have : MAX_TOKENS = 16 := rfl; omega), hnext]
  simp only
  unfold afterEnd
  simp only
  rw [hprev, hidx, hs, slice_ascii pre (numText F it) post hpre hasc]
  simp only
  have hn : pre.length + (numText F it).length - pre.length = (numText F it).length := by omega
  rw [hn, htok, store_bad F hP it hb]

/-- the last character of the text, a digit of a last field whose value `value_ok` refuses: an error -/
theorem step_last_err (O : Oracles) (f : Format) (s : List Nat) (len c idx : Nat) (st : St) (F : Flds)
    (it : Item) (pre D' : List Nat)
    (hs : s = pre ++ (numText F it ++ [])) (hpre : Ascii pre) (hP : F.Printable) (hb : F.bad it.token = true)
    (hD : numText F it = D' ++ [c]) (hD' : D' ≠ [])
    (hcur : st.cur = it) (htok : st.tok = it.token) (hprev : st.prevIdx = pre.length)
    (hidx : idx = pre.length + D'.length) (hlen : len = pre.length + D'.length + 1) :
    stepChar O f s len c idx st = .err := by
  have h7 := bad_num7 F it.token hb
  obtain ⟨hl2, hdig⟩ := numText_digits F hP it h7
  obtain ⟨hnum, hoh, hts⟩ := num7_facts it.token h7
  have hasc : Ascii (numText F it) := fun c hc => by have := hdig c hc; unfold isDigitC at this; omega
  have hc : isDigitC c := hdig c (by rw [hD]; simp)
  have hcn := digit_isNum c hc
  have hDl : (numText F it).length = D'.length + 1 := by rw [hD]; simp
  have hD'l : 1 ≤ D'.length := by
    cases D' with
    | nil => exact absurd rfl hD'
    | cons _ _ => simp
  have htr : trigger len c idx st = true := by
    unfold trigger
    have : idx + 1 = len := by omega
    simp [this]
  unfold stepChar
  rw [if_pos htr]
  unfold stepBody
  rw [if_neg (by intro h; exact hoh (htok ▸ h.1)), if_neg (by intro h; omega), if_neg (by rw [htok]; exact hts),
    if_neg (by intro h; unfold isDigitC at hc; omega), if_neg (by intro h; exact hoh (htok ▸ h.1))]
  unfold stepField
  have hno : ¬ (idx + 1 ≠ len ∨ (isNum c = false ∧ (st.tok.isNumeric = true ∨ st.cur.sep1 = some c))) := by
    intro h
    rcases h with h | h
    · omega
    · rw [hcn] at h; exact absurd h.1 (by decide)
  rw [if_neg hno]
  unfold afterEnd
  simp only
  have hi1 : idx + 1 = pre.length + (numText F it).length := by omega
  rw [hprev, hi1, hs, slice_ascii pre (numText F it) [] hpre hasc]
  simp only
  have hn : pre.length + (numText F it).length - pre.length = (numText F it).length := by omega
  rw [hn, htok, store_bad F hP it hb]

/-! ### the loop over the items -/

/-- the part of the parse state that `finish` reads -/
def St.data (st : St) : Int × Int × Int × Int × Int × Int × Int × Int × Int × TS × Bool × Option DoyV × Option Int :=
  (st.y, st.mo, st.d, st.h, st.mi, st.s, st.ns, st.oh, st.om, st.ts, st.offNeg, st.doy, st.wd)

theorem finish_data (f : Format) (st st' : St) (h : st.data = st'.data) : finish f st = finish f st' := by
  cases st; cases st'
  simp only [St.data, Prod.mk.injEq] at h
  obtain ⟨h1, h2, h3, h4, h5, h6, h7, h8, h9, h10, h11, h12, h13⟩ := h
  subst h1 h2 h3 h4 h5 h6 h7 h8 h9 h10 h11 h12 h13
  rfl

theorem storeFld_data (t : Token) (F : Flds) (st st' : St) (h : st.data = st'.data) :
    (storeFld t F st).data = (storeFld t F st').data := by
  cases st; cases st'
  simp only [St.data, Prod.mk.injEq] at h
  obtain ⟨h1, h2, h3, h4, h5, h6, h7, h8, h9, h10, h11, h12, h13⟩ := h
  subst h1 h2 h3 h4 h5 h6 h7 h8 h9 h10 h11 h12 h13
  cases t <;> rfl

/-- all the fields stored, item after item -/
def foldFlds (F : Flds) : List Item → St → St
  | [], st => st
  | it :: r, st => foldFlds F r (storeFld it.token F st)

theorem foldFlds_data (F : Flds) : ∀ (r : List Item) (st st' : St), st.data = st'.data →
    (foldFlds F r st).data = (foldFlds F r st').data
  | [], _, _, h => h
  | it :: r, st, st', h => foldFlds_data F r _ _ (storeFld_data it.token F st st' h)

/-- the separators of a non-final numeric item inside the class: a non-numeric ASCII first separator
    and no or a non-numeric ASCII second separator -/
def GoodSep (it : Item) : Prop :=
  ∃ a, it.sep1 = some a ∧ isNum a = false ∧ a < 128 ∧
    (it.sep2 = none ∨ ∃ b, it.sep2 = some b ∧ isNum b = false ∧ b < 128)

theorem numText_ascii (F : Flds) (hF : F.InRange) (it : Item) (h7 : isNum7 it.token = true) : Ascii (numText F it) :=
  fun c hc => by have := (numText_spec F hF it h7).2.1 c hc; unfold isDigitC at this; omega

theorem exists_snoc {α} : ∀ (l : List α), l ≠ [] → ∃ l' c, l = l' ++ [c]
  | [], h => absurd rfl h
  | [x], _ => ⟨[], x, rfl⟩
  | x :: y :: r, _ => by
    obtain ⟨l', c, h⟩ := exists_snoc (y :: r) (by simp)
    exact ⟨x :: l', c, by rw [h]; rfl⟩

/-- one non-final item and its separators: the loop arrives at the next item with the field stored -/
theorem item_mid (O : Oracles) (f : Format) (F : Flds) (hF : F.InRange) (s : List Nat) (h16 : f.items.length ≤ 16)
    (it it2 : Item) (done rest : List Item) (pre tail : List Nat) (st : St)
    (hf : f.items = done ++ it :: it2 :: rest)
    (h7i : isNum7 it.token = true) (h7j : isNum7 it2.token = true) (hgood : GoodSep it)
    (hs : s = pre ++ (numText F it ++ it.sepText ++ tail)) (hpre : Ascii pre)
    (hci : st.curIdx = done.length) (hc1 : st.cur = it) (hc2 : st.tok = it.token) (hprev : st.prevIdx = pre.length) :
    ∃ st1, parseLoop O f s s.length (numText F it ++ it.sepText ++ tail) pre.length st
        = parseLoop O f s s.length tail (pre ++ numText F it ++ it.sepText).length st1 ∧
      st1.data = (storeFld it.token F st).data ∧ st1.curIdx = done.length + 1 ∧ st1.cur = it2 ∧
      st1.tok = it2.token ∧ st1.prevIdx = (pre ++ numText F it ++ it.sepText).length ∧
      Ascii (pre ++ numText F it ++ it.sepText) := by
  obtain ⟨hl2, hdig, _, _⟩ := numText_spec F hF it h7i
  obtain ⟨a, hsa, hna, ha128, hsep2⟩ := hgood
  have hnext : f.items[st.curIdx + 1]? = some it2 := by rw [hf, hci]; simp
  have hlen : st.curIdx + 1 < f.items.length := by rw [hf, hci]; simp
  have hasc := numText_ascii F hF it h7i
  have hnumc : st.tok.isNumeric = true := by rw [hc2]; exact (num7_facts _ h7i).1
  rcases hsep2 with hs2 | ⟨b, hs2, hnb, hb128⟩
  · -- one separator
    have hst : it.sepText = [a] := by unfold Item.sepText; rw [hsa, hs2]; rfl
    rw [hst] at hs ⊢
    have hslen : pre.length + (numText F it).length < s.length := by
      rw [hs]; simp only [List.length_append, List.length_cons]; omega
    have hstep := step_sep1 O f s s.length a (pre.length + (numText F it).length) st F it it2 pre ([a] ++ tail)
      (by rw [hs]; simp [List.append_assoc]) hpre hF h7i (num7_facts _ h7j).2.1 hc1 hc2 hprev rfl hsa hna hnext hlen h16
    refine ⟨{ storeFld it.token F { st with prev := it, curIdx := st.curIdx + 1, cur := it2, tok := it2.token }
        with prevIdx := pre.length + (numText F it).length + 1 }, ?_, ?_, ?_, ?_, ?_, ?_, ?_⟩
    · rw [List.append_assoc, scan_digits O f s s.length _ _ pre.length st hnumc hdig hslen]
      simp only [List.cons_append, List.nil_append, parseLoop]
      rw [hstep]
      simp only
      have e1 : pre.length + (numText F it).length + 1 = (pre ++ numText F it ++ [a]).length := by simp; omega
      rw [e1]
    · apply storeFld_data; rfl
    · simp only; rw [(storeFld_frame _ _ _).2.2.2.1]; simp [hci]
    · simp only; rw [(storeFld_frame _ _ _).2.1]
    · simp only; rw [(storeFld_frame _ _ _).1]
    · simp; omega
    · intro c hc
      simp at hc
      rcases hc with hc | hc | hc
      · exact hpre c hc
      · exact hasc c hc
      · omega
  · -- two separators
    have hst : it.sepText = [a, b] := by unfold Item.sepText; rw [hsa, hs2]; rfl
    rw [hst] at hs ⊢
    have hslen : pre.length + (numText F it).length < s.length := by
      rw [hs]; simp only [List.length_append, List.length_cons]; omega
    have hstep := step_sep1 O f s s.length a (pre.length + (numText F it).length) st F it it2 pre ([a, b] ++ tail)
      (by rw [hs]; simp [List.append_assoc]) hpre hF h7i (num7_facts _ h7j).2.1 hc1 hc2 hprev rfl hsa hna hnext hlen h16
    have hstep2 := step_sep2 O f s s.length b (pre.length + (numText F it).length + 1)
      { storeFld it.token F { st with prev := it, curIdx := st.curIdx + 1, cur := it2, tok := it2.token }
        with prevIdx := pre.length + (numText F it).length + 1 }
      (by simp only; rw [(storeFld_frame _ _ _).1]; exact (num7_facts _ h7j).1)
      (by simp only; rw [(storeFld_frame _ _ _).1]; exact (num7_facts _ h7j).2.1) hnb rfl
      (by simp only; rw [(storeFld_frame _ _ _).2.2.1]; exact hs2)
    refine ⟨{ ({ storeFld it.token F { st with prev := it, curIdx := st.curIdx + 1, cur := it2, tok := it2.token }
        with prevIdx := pre.length + (numText F it).length + 1 } : St) with
        prevIdx := pre.length + (numText F it).length + 1 + 1 }, ?_, ?_, ?_, ?_, ?_, ?_, ?_⟩
    · rw [List.append_assoc, scan_digits O f s s.length _ _ pre.length st hnumc hdig hslen]
      simp only [List.cons_append, List.nil_append, parseLoop]
      rw [hstep]
      simp only
      rw [hstep2]
      simp only
      have e1 : pre.length + (numText F it).length + 1 + 1 = (pre ++ numText F it ++ [a, b]).length := by simp; omega
      rw [e1]
    · apply storeFld_data; rfl
    · simp only; rw [(storeFld_frame _ _ _).2.2.2.1]; simp [hci]
    · simp only; rw [(storeFld_frame _ _ _).2.1]
    · simp only; rw [(storeFld_frame _ _ _).1]
    · simp; omega
    · intro c hc
      simp at hc
      rcases hc with hc | hc | hc | hc
      · exact hpre c hc
      · exact hasc c hc
      · omega
      · omega

theorem loop_num7 (O : Oracles) (f : Format) (F : Flds) (hF : F.InRange) (s : List Nat)
    (h16 : f.items.length ≤ 16) :
    ∀ (rem done : List Item) (pre : List Nat) (st : St),
      f.items = done ++ rem → rem ≠ [] → (∀ it ∈ rem, isNum7 it.token = true) →
      (∀ it ∈ rem.dropLast, GoodSep it) →
      s = pre ++ concatItems (numText F) rem → Ascii pre →
      st.curIdx = done.length → (∀ it, rem.head? = some it → st.cur = it ∧ st.tok = it.token) →
      st.prevIdx = pre.length →
      ∃ st', parseLoop O f s s.length (concatItems (numText F) rem) pre.length st = .ok st' ∧
        st'.data = (foldFlds F rem st).data
  | [], _, _, _, _, hne, _, _, _, _, _, _, _ => absurd rfl hne
  | [it], done, pre, st, hf, _, h7, _, hs, hpre, hci, hcur, hprev => by
    have h7i := h7 it (by simp)
    obtain ⟨hl2, hdig, _, _⟩ := numText_spec F hF it h7i
    obtain ⟨hc1, hc2⟩ := hcur it rfl
    simp only [concatItems] at hs ⊢
    -- split the field into its last digit and the rest
    obtain ⟨D', c, hD⟩ := exists_snoc (numText F it) (by intro h; rw [h] at hl2; simp at hl2)
    have hDl : (numText F it).length = D'.length + 1 := by rw [hD]; simp
    have hD'ne : D' ≠ [] := by
      intro h; rw [h] at hDl; simp at hDl; omega
    have hslen : s.length = pre.length + D'.length + 1 := by
      rw [hs]; simp only [List.length_append]; omega
    have hstep := step_last O f s s.length c (pre.length + D'.length) st F it pre D' (by rw [hs]; simp) hpre hF h7i
      hD hD'ne hc1 hc2 hprev rfl hslen
    rw [hD, scan_digits O f s s.length _ _ pre.length st (by rw [hc2]; exact (num7_facts _ h7i).1)
      (fun x hx => hdig x (by rw [hD]; simp [hx])) (by omega)]
    simp only [parseLoop]
    rw [hstep]
    refine ⟨_, rfl, ?_⟩
    simp only [foldFlds]
    apply storeFld_data
    rfl
  | it :: it2 :: rest, done, pre, st, hf, _, h7, hgood, hs, hpre, hci, hcur, hprev => by
    obtain ⟨hc1, hc2⟩ := hcur it rfl
    simp only [concatItems] at hs ⊢
    obtain ⟨st1, hl1, hd1, hci1, hcur1, htok1, hprev1, hasc1⟩ :=
      item_mid O f F hF s h16 it it2 done rest pre (concatItems (numText F) (it2 :: rest)) st hf
        (h7 it (by simp)) (h7 it2 (by simp)) (hgood it (by simp [List.dropLast])) hs hpre hci hc1 hc2 hprev
    obtain ⟨st', hl, hd⟩ := loop_num7 O f F hF s h16 (it2 :: rest) (done ++ [it])
      (pre ++ numText F it ++ it.sepText) st1 (by rw [hf]; simp) (by simp)
      (fun i hi => h7 i (List.mem_cons_of_mem _ hi)) (fun i hi => hgood i (List.mem_cons_of_mem _ hi))
      (by rw [hs]; simp [List.append_assoc]) hasc1 (by rw [hci1]; simp)
      (by intro i hi; simp at hi; subst hi; exact ⟨hcur1, htok1⟩) hprev1
    rw [hl1, hl]
    refine ⟨st', rfl, ?_⟩
    rw [hd]
    show (foldFlds F (it2 :: rest) st1).data = (foldFlds F (it2 :: rest) (storeFld it.token F st)).data
    exact foldFlds_data F _ _ _ hd1

/-! ### the folded state -/

theorem foldFlds_data_eq (F : Flds) : ∀ (r : List Item) (st : St),
    (foldFlds F r st).data =
      (if Token.Year ∈ r.map (·.token) then F.y else st.y,
       if Token.Month ∈ r.map (·.token) then F.mo else st.mo,
       if Token.Day ∈ r.map (·.token) then F.d else st.d,
       if Token.Hour ∈ r.map (·.token) then F.h else st.h,
       if Token.Minute ∈ r.map (·.token) then F.mi else st.mi,
       if Token.Second ∈ r.map (·.token) then F.s else st.s,
       if Token.Subsecond ∈ r.map (·.token) then F.ns else st.ns,
       st.oh, st.om, st.ts, st.offNeg, st.doy, st.wd)
  | [], st => by simp [foldFlds, St.data]
  | it :: r, st => by
    rw [foldFlds, foldFlds_data_eq F r (storeFld it.token F st)]
    cases ht : it.token <;> simp [storeFld, ht] <;> (repeat' constructor) <;> split <;> simp_all

/-! ### the text: ASCII, begins and ends with a digit -/

theorem concatItems_congr (T T' : Item → List Nat) : ∀ (items : List Item), (∀ it ∈ items, T it = T' it) →
    concatItems T items = concatItems T' items
  | [], _ => rfl
  | [it], h => by simp [concatItems, h it (by simp)]
  | it :: it2 :: r, h => by
    simp only [concatItems]
    rw [h it (by simp), concatItems_congr T T' (it2 :: r) (fun i hi => h i (List.mem_cons_of_mem _ hi))]

theorem numText_asciiP (F : Flds) (hP : F.Printable) (it : Item) (h7 : isNum7 it.token = true) : Ascii (numText F it) :=
  fun c hc => by have := (numText_digits F hP it h7).2 c hc; unfold isDigitC at this; omega

theorem concatItems_shapeP (F : Flds) (hP : F.Printable) : ∀ (items : List Item), items ≠ [] →
    (∀ it ∈ items, isNum7 it.token = true) → (∀ it ∈ items.dropLast, GoodSep it) →
    Ascii (concatItems (numText F) items) ∧
    (∃ c post, isDigitC c ∧ concatItems (numText F) items = c :: post) ∧
    (∃ pre c, isDigitC c ∧ concatItems (numText F) items = pre ++ [c])
  | [], h, _, _ => absurd rfl h
  | [it], _, h7, _ => by
    have h7i := h7 it (by simp)
    obtain ⟨hl2, hdig⟩ := numText_digits F hP it h7i
    simp only [concatItems]
    refine ⟨numText_asciiP F hP it h7i, ?_, ?_⟩
    · cases hD : numText F it with
      | nil => rw [hD] at hl2; simp at hl2
      | cons c post => exact ⟨c, post, hdig c (by rw [hD]; simp), rfl⟩
    · obtain ⟨D', c, hD⟩ := exists_snoc (numText F it) (by intro h; rw [h] at hl2; simp at hl2)
      exact ⟨D', c, hdig c (by rw [hD]; simp), hD⟩
  | it :: it2 :: r, _, h7, hgood => by
    have h7i := h7 it (by simp)
    obtain ⟨hl2, hdig⟩ := numText_digits F hP it h7i
    obtain ⟨ih1, _, ⟨pre, c, hc, hlast⟩⟩ := concatItems_shapeP F hP (it2 :: r) (by simp)
      (fun i hi => h7 i (List.mem_cons_of_mem _ hi)) (fun i hi => hgood i (List.mem_cons_of_mem _ hi))
    obtain ⟨a, hsa, _, ha128, hsep2⟩ := hgood it (by simp [List.dropLast])
    have hsepA : Ascii it.sepText := by
      intro x hx
      unfold Item.sepText at hx
      rcases hsep2 with hs2 | ⟨b, hs2, _, hb128⟩
      · rw [hsa, hs2] at hx; simp at hx; omega
      · rw [hsa, hs2] at hx; simp at hx; omega
    simp only [concatItems]
    refine ⟨?_, ?_, ?_⟩
    · intro x hx
      simp only [List.mem_append] at hx
      rcases hx with (hx | hx) | hx
      · exact numText_asciiP F hP it h7i x hx
      · exact hsepA x hx
      · exact ih1 x hx
    · cases hD : numText F it with
      | nil => rw [hD] at hl2; simp at hl2
      | cons c0 post =>
        exact ⟨c0, post ++ (it.sepText ++ concatItems (numText F) (it2 :: r)), hdig c0 (by rw [hD]; simp), by simp⟩
    · exact ⟨numText F it ++ it.sepText ++ pre, c, hc, by rw [hlast]; simp [List.append_assoc]⟩

theorem concatItems_shape (F : Flds) (hF : F.InRange) (items : List Item) (hne : items ≠ [])
    (h7 : ∀ it ∈ items, isNum7 it.token = true) (hgood : ∀ it ∈ items.dropLast, GoodSep it) :
    Ascii (concatItems (numText F) items) ∧
    (∃ c post, isDigitC c ∧ concatItems (numText F) items = c :: post) ∧
    (∃ pre c, isDigitC c ∧ concatItems (numText F) items = pre ++ [c]) :=
  concatItems_shapeP F hF.printable items hne h7 hgood

/-! ### parse back -/

theorem tz_zero : Dur.neg (Dur.add (Dur.unitMulI64 Cal.NPH 0) (Dur.unitMulI64 Cal.NPMIN 0)) = .ok ⟨0, 0⟩ := by
  decide +kernel

theorem add_zero_canon (d : Dur) (hd : d.Canon) : Dur.add d ⟨0, 0⟩ = d := by
  have hz : (⟨0, 0⟩ : Dur).Canon := by unfold Dur.Canon; simp [NPC_eq]
  have hv : (⟨0, 0⟩ : Dur).val = 0 := by unfold Dur.val valP; simp
  have hr := canon_range d hd
  unfold DMIN DMAX at hr; simp only [NPCs_eq] at hr
  have h := Cal.add_val d ⟨0, 0⟩ hd hz (by unfold Cal.InR; rw [hv]; omega)
  exact canon_unique _ _ h.1 hd (by rw [h.2, hv]; omega)

theorem num7_supported (t : Token) (h : isNum7 t = true) : Token.supported t = true := by
  cases t <;> simp [isNum7] at h <;> rfl

theorem tokBytes_num7 (t : Token) (h : isNum7 t = true) (y mo d h' mi s ns : Int) (e e' : Ep) (zt zt' : List Nat)
    (doy doy' : Int) :
    tokBytes t y mo d h' mi s ns e zt doy = tokBytes t y mo d h' mi s ns e' zt' doy' := by
  cases t <;> simp [isNum7] at h <;> rfl

/-- PARSE BACK (numeric class).  `f`: a format whose items all carry one of the seven numeric tokens
    `%Y %m %d %H %M %S %f`, every one of the seven occurring at least once (full date and time, in ANY
    order, repetitions allowed, at most 16 items), none optional, every item but the last followed by a
    non-numeric ASCII separator and possibly a second non-numeric ASCII separator.  `e`: ANY canonical UTC
    epoch in range whose year is 0000–9999.  Then the formatter's output, parsed with the same format,
    is `e` itself. -/
theorem parse_back_num7 (O : Oracles) (f : Format) (e : Ep) (hutc : e.ts = TS.UTC)
    (hd : e.dur.Canon) (hr : Cal.InCal e.dur.val)
    (hy : ∀ y mo dd h mi s ns, Cal.computeGregorian e.dur e.ts = .ok (y, mo, dd, h, mi, s, ns) → 0 ≤ y ∧ y ≤ 9999)
    (hne : f.items ≠ []) (h16 : f.items.length ≤ 16)
    (h7 : ∀ it ∈ f.items, isNum7 it.token = true ∧ it.optional = false)
    (hgood : ∀ it ∈ f.items.dropLast, GoodSep it)
    (hfull : ∀ t, isNum7 t = true → t ∈ f.items.map (·.token)) :
    ∃ text, formatterOutput O f e none = .ok text ∧ formatParse O f text = .ok e := by
  -- the fields and their ranges
  obtain ⟨y, mo, dd, h, mi, s, ns, hg, hmfg⟩ := Cal.from_compute e.dur e.ts hd hr
  obtain ⟨y', mo', dd', h', mi', s', ns', hg', hval, _, _, a1, a2, a3, a4, a5, a6, a7, a8, _⟩ :=
    Cal.computeGregorian_spec e.dur e.ts hd hr
  rw [hg] at hg'
  simp only [Res.ok.injEq, Prod.mk.injEq] at hg'
  obtain ⟨rfl, rfl, rfl, rfl, rfl, rfl, rfl⟩ := hg'
  have hyr := hy y mo dd h mi s ns hg
  have hv' := (Cal.validDate_iff _).mp hval
  simp only at hv'
  have hml := Cal.monthLen_range y mo hv'.1 hv'.2.1
  have hF : (Flds.mk y mo dd h mi s ns).InRange := by
    unfold Flds.InRange; simp only; omega
  -- the formatter's text
  obtain ⟨_, _, _, _, _, _, _, hdoyex⟩ := dayOfYearInt_spec e hd hr
  obtain ⟨doy, hdoy⟩ : ∃ doy, dayOfYearInt e = .ok doy := ⟨_, hdoyex.2⟩
  have hz : offsetText Dur.ZERO = .ok [43, 48, 48, 58, 48, 48] := by decide +kernel
  have htext := formatterFmt_concat O f e Dur.ZERO y mo dd h mi s ns _ doy hne
    (fun it hi => ⟨num7_supported _ (h7 it hi).1, (h7 it hi).2⟩) hg hz hdoy
  have hcongr := concatItems_congr (fun it => tokBytes it.token y mo dd h mi s ns e [43, 48, 48, 58, 48, 48] doy)
    (numText ⟨y, mo, dd, h, mi, s, ns⟩) f.items
    (fun it hi => tokBytes_num7 it.token (h7 it hi).1 _ _ _ _ _ _ _ _ _ _ _ _ _)
  rw [hcongr] at htext
  refine ⟨concatItems (numText ⟨y, mo, dd, h, mi, s, ns⟩) f.items, htext, ?_⟩
  -- the text is ASCII and is not changed by `trim`
  obtain ⟨hasc, ⟨c0, post, hc0, hfirst⟩, ⟨pre, c1, hc1, hlast⟩⟩ :=
    concatItems_shape ⟨y, mo, dd, h, mi, s, ns⟩ hF f.items hne (fun it hi => (h7 it hi).1) hgood
  have htrim : trim (concatItems (numText ⟨y, mo, dd, h, mi, s, ns⟩) f.items) =
      concatItems (numText ⟨y, mo, dd, h, mi, s, ns⟩) f.items := by
    apply trim_id
    · intro c hc; rw [hfirst] at hc; simp at hc; subst hc; exact digit_not_ws _ hc0
    · intro c hc; rw [hlast] at hc; simp at hc; subst hc; exact digit_not_ws _ hc1
  -- the loop
  cases hitems : f.items with
  | nil => exact absurd hitems hne
  | cons it0 rest =>
    unfold formatParse
    rw [hitems]
    simp only
    rw [← hitems, htrim, byteLen_ascii _ hasc]
    obtain ⟨st', hl, hdat⟩ := loop_num7 O f ⟨y, mo, dd, h, mi, s, ns⟩ hF
      (concatItems (numText ⟨y, mo, dd, h, mi, s, ns⟩) f.items) h16 f.items [] [] (St.init it0)
      (by simp) hne (fun it hi => (h7 it hi).1) hgood (by simp) (by intro c hc; simp at hc) rfl
      (by intro i hi; rw [hitems] at hi; simp at hi; subst hi; exact ⟨rfl, rfl⟩) rfl
    simp only [List.length_nil] at hl
    rw [hl]
    simp only
    -- the final state holds exactly the seven fields
    rw [foldFlds_data_eq] at hdat
    rw [if_pos (hfull .Year rfl), if_pos (hfull .Month rfl), if_pos (hfull .Day rfl), if_pos (hfull .Hour rfl),
      if_pos (hfull .Minute rfl), if_pos (hfull .Second rfl), if_pos (hfull .Subsecond rfl)] at hdat
    have hfin : finish f st' = finish f ⟨y, mo, dd, h, mi, s, ns, 0, 0, TS.UTC, false, none, none, 0, 0, it0, it0.token, it0⟩ :=
      finish_data f _ _ (by rw [hdat]; rfl)
    rw [hfin]
    unfold finish buildEpoch
    simp only
    have u1 : toU8 mo = some mo := by unfold toU8; rw [if_pos (by omega)]
    have u2 : toU8 dd = some dd := by unfold toU8; rw [if_pos (by omega)]
    have u3 : toU8 h = some h := by unfold toU8; rw [if_pos (by omega)]
    have u4 : toU8 mi = some mi := by unfold toU8; rw [if_pos (by omega)]
    have u5 : toU8 s = some s := by unfold toU8; rw [if_pos (by omega)]
    have u6 : toU32 ns = some ns := by unfold toU32; rw [if_pos (by omega)]
    rw [u1, u2, u3, u4, u5, u6]
    simp only
    rw [← hutc, hmfg]
    simp only [Bool.false_eq_true, if_false]
    rw [tz_zero]
    simp only
    rw [add_zero_canon e.dur hd]

/-! ### a final `%T` (any time scale; read since fix D39) -/

/-- the text of a time scale -/
def scaleText (ts : TS) : List Nat := Cal.strCodes ts.name

def isUpperC (c : Nat) : Prop := 65 ≤ c ∧ c ≤ 90

theorem upper_not_ws (c : Nat) (h : isUpperC c) : isWs c = false := by
  unfold isUpperC at h
  unfold isWs inRanges
  simp [Gen.EFMT_IS_WHITESPACE]
  omega

theorem scale_facts (ts : TS) :
    2 ≤ (scaleText ts).length ∧ (∀ c ∈ scaleText ts, isUpperC c) ∧
    timescaleFromStr (scaleText ts) = some ts := by
  cases ts <;> (refine ⟨by decide, ?_, by decide +kernel⟩; intro c hc; simp [scaleText, Cal.strCodes, TS.name] at hc;
                unfold isUpperC; omega)

/-- the text of an item of a format "numeric items, then `%T`" for an epoch of scale `ts` -/
def textNT (F : Flds) (ts : TS) (it : Item) : List Nat := if it.token = .Timescale then scaleText ts else numText F it

theorem dropWhile_none (l : List Nat) : l.dropWhile (fun c => decide ((none : Option Nat) = some c)) = l := by
  cases l <;> simp [List.dropWhile]

/-- letters of the scale that are not the last character do nothing while `%T` (without separator) is current -/
theorem scan_T (O : Oracles) (f : Format) (s : List Nat) (len : Nat) :
    ∀ (cs tl : List Nat) (idx : Nat) (st : St),
      st.tok = .Timescale → st.cur.sep1 = none → idx + cs.length < len →
      parseLoop O f s len (cs ++ tl) idx st = parseLoop O f s len tl (idx + cs.length) st
  | [], tl, idx, st, _, _, _ => by simp
  | c :: cs, tl, idx, st, ht, hsep, hl => by
    simp only [List.length_cons] at hl
    have htr : trigger len c idx st = false := by
      unfold trigger Item.sepIs
      have : ¬ (idx + 1 = len) := by omega
      rw [ht, hsep]
      simp [Token.isNumeric, this]
    simp only [List.cons_append, parseLoop, stepChar, htr, Bool.false_eq_true, if_false]
    rw [scan_T O f s len cs tl (idx + 1) st ht hsep (by omega)]
    simp only [List.length_cons]
    have : idx + 1 + cs.length = idx + (cs.length + 1) := by omega
    rw [this]

/-- the final `%T` item on the name of a time scale: the scale is read at the last character, the loop ends -/
theorem loop_T (O : Oracles) (f : Format) (s pre : List Nat) (st : St) (itT : Item) (ts : TS)
    (hs : s = pre ++ scaleText ts) (hpre : Ascii pre) (hcur : st.cur = itT) (htok : st.tok = .Timescale)
    (hsep : itT.sep1 = none) (hprev : st.prevIdx = pre.length) (hp2 : st.prev.sep2 = none) :
    parseLoop O f s s.length (scaleText ts) pre.length st = .ok { st with ts := ts } := by
  obtain ⟨hl2, hup, hfs⟩ := scale_facts ts
  obtain ⟨nm', c, hnm⟩ := exists_snoc (scaleText ts) (by intro h; rw [h] at hl2; simp at hl2)
  have hnl : (scaleText ts).length = nm'.length + 1 := by rw [hnm]; simp
  have hlen : s.length = pre.length + nm'.length + 1 := by rw [hs]; simp only [List.length_append]; omega
  have hasc : Ascii (scaleText ts) := fun x hx => by have := hup x hx; unfold isUpperC at this; omega
  rw [hnm, scan_T O f s s.length nm' [c] pre.length st htok (by rw [hcur]; exact hsep) (by omega)]
  have htr : trigger s.length c (pre.length + nm'.length) st = true := by
    unfold trigger
    have : pre.length + nm'.length + 1 = s.length := by omega
    simp [this]
  simp only [parseLoop, stepChar]
  rw [if_pos htr]
  unfold stepBody
  rw [if_neg (by intro h; rw [htok] at h; exact absurd h.1 (by decide)), if_neg (by intro h; omega), if_pos htok]
  unfold stepTimescale
  rw [if_neg (by intro h; exact h (by omega)), hprev, hs]
  have hdb : dropBytes (pre ++ scaleText ts) pre.length = some (scaleText ts) := dropBytes_ascii pre _ hpre
  rw [hdb]
  simp only
  have htrim : trim (scaleText ts) = scaleText ts := by
    apply trim_id
    · intro x hx
      cases hst : scaleText ts with
      | nil => rw [hst] at hl2; simp at hl2
      | cons y r => rw [hst] at hx; simp at hx; subst hx; exact upper_not_ws _ (hup _ (by rw [hst]; simp))
    · intro x hx; rw [hnm] at hx; simp at hx; subst hx; exact upper_not_ws _ (hup _ (by rw [hnm]; simp))
  rw [htrim, hp2, dropWhile_none, hfs]

/-- a non-final numeric item with ONE separator, followed by the final `%T` -/
theorem item_mid_T (O : Oracles) (f : Format) (F : Flds) (hF : F.InRange) (s : List Nat) (h16 : f.items.length ≤ 16)
    (it itT : Item) (done : List Item) (pre tail : List Nat) (st : St)
    (hf : f.items = done ++ [it, itT])
    (h7i : isNum7 it.token = true) (hT : itT.token = .Timescale)
    (a : Nat) (hsa : it.sep1 = some a) (hs2 : it.sep2 = none) (hna : isNum a = false) (ha128 : a < 128)
    (hs : s = pre ++ (numText F it ++ [a] ++ tail)) (hpre : Ascii pre)
    (hci : st.curIdx = done.length) (hc1 : st.cur = it) (hc2 : st.tok = it.token) (hprev : st.prevIdx = pre.length) :
    ∃ st1, parseLoop O f s s.length (numText F it ++ [a] ++ tail) pre.length st
        = parseLoop O f s s.length tail (pre ++ numText F it ++ [a]).length st1 ∧
      st1.data = (storeFld it.token F st).data ∧ st1.cur = itT ∧ st1.tok = .Timescale ∧
      st1.prevIdx = (pre ++ numText F it ++ [a]).length ∧ st1.prev = it ∧ Ascii (pre ++ numText F it ++ [a]) := by
  obtain ⟨hl2, hdig, _, _⟩ := numText_spec F hF it h7i
  have hasc := numText_ascii F hF it h7i
  have hnext : f.items[st.curIdx + 1]? = some itT := by rw [hf, hci]; simp
  have hlen : st.curIdx + 1 < f.items.length := by rw [hf, hci]; simp
  have hnumc : st.tok.isNumeric = true := by rw [hc2]; exact (num7_facts _ h7i).1
  have hslen : pre.length + (numText F it).length < s.length := by
    rw [hs]; simp only [List.length_append, List.length_cons]; omega
  have hstep := step_sep1 O f s s.length a (pre.length + (numText F it).length) st F it itT pre ([a] ++ tail)
    (by rw [hs]; simp [List.append_assoc]) hpre hF h7i (by rw [hT]; decide) hc1 hc2 hprev rfl hsa hna hnext hlen h16
  refine ⟨{ storeFld it.token F { st with prev := it, curIdx := st.curIdx + 1, cur := itT, tok := itT.token }
        with prevIdx := pre.length + (numText F it).length + 1 }, ?_, ?_, ?_, ?_, ?_, ?_, ?_⟩
  · rw [List.append_assoc, scan_digits O f s s.length _ _ pre.length st hnumc hdig hslen]
    simp only [List.cons_append, List.nil_append, parseLoop]
    rw [hstep]
    simp only
    have e1 : pre.length + (numText F it).length + 1 = (pre ++ numText F it ++ [a]).length := by simp; omega
    rw [e1]
  · apply storeFld_data; rfl
  · simp only; rw [(storeFld_frame _ _ _).2.1]
  · simp only; rw [(storeFld_frame _ _ _).1]; exact hT
  · simp; omega
  · simp only; rw [(storeFld_frame _ _ _).2.2.1]
  · intro c hc
    simp at hc
    rcases hc with hc | hc | hc
    · exact hpre c hc
    · exact hasc c hc
    · omega

/-- the loop over "numeric items, then `%T`" -/
theorem loop_numsT (O : Oracles) (f : Format) (F : Flds) (hF : F.InRange) (s : List Nat) (ts : TS)
    (h16 : f.items.length ≤ 16) (itT : Item) (hT : itT.token = .Timescale) (hTsep : itT.sep1 = none) :
    ∀ (nums done : List Item) (pre : List Nat) (st : St),
      f.items = done ++ (nums ++ [itT]) → nums ≠ [] → (∀ it ∈ nums, isNum7 it.token = true) →
      (∀ it ∈ nums, GoodSep it) →
      (∀ it, nums.getLast? = some it → it.sep2 = none) →
      s = pre ++ concatItems (textNT F ts) (nums ++ [itT]) → Ascii pre →
      st.curIdx = done.length → (∀ it, nums.head? = some it → st.cur = it ∧ st.tok = it.token) →
      st.prevIdx = pre.length →
      ∃ st', parseLoop O f s s.length (concatItems (textNT F ts) (nums ++ [itT])) pre.length st = .ok st' ∧
        st'.data = ({ foldFlds F nums st with ts := ts } : St).data
  | [], _, _, _, _, hne, _, _, _, _, _, _, _, _ => absurd rfl hne
  | [it], done, pre, st, hf, _, h7, hgood, hlast, hs, hpre, hci, hcur, hprev => by
    have h7i := h7 it (by simp)
    obtain ⟨hc1, hc2⟩ := hcur it rfl
    obtain ⟨a, hsa, hna, ha128, _⟩ := hgood it (by simp)
    have hs2 := hlast it rfl
    have hti : textNT F ts it = numText F it := by
      unfold textNT; rw [if_neg (by intro h; exact (num7_facts _ h7i).2.2 h)]
    have htT : textNT F ts itT = scaleText ts := by unfold textNT; rw [if_pos hT]
    have hst : it.sepText = [a] := by unfold Item.sepText; rw [hsa, hs2]; rfl
    simp only [List.cons_append, List.nil_append, concatItems, hti, htT, hst] at hs ⊢
    obtain ⟨st1, hl1, hd1, hcur1, htok1, hprev1, hprevit, hasc1⟩ :=
      item_mid_T O f F hF s h16 it itT done pre (scaleText ts) st (by rw [hf]; simp) h7i hT a hsa hs2 hna ha128 hs hpre
        hci hc1 hc2 hprev
    rw [hl1, loop_T O f s (pre ++ numText F it ++ [a]) st1 itT ts (by rw [hs]; simp [List.append_assoc]) hasc1 hcur1 htok1
      hTsep hprev1 (by rw [hprevit]; exact hs2)]
    refine ⟨_, rfl, ?_⟩
    simp only [St.data, Prod.mk.injEq] at hd1 ⊢
    simp only [foldFlds]
    obtain ⟨e1, e2, e3, e4, e5, e6, e7, e8, e9, e10, e11, e12, e13⟩ := hd1
    exact ⟨e1, e2, e3, e4, e5, e6, e7, e8, e9, trivial, e11, e12, e13⟩
  | it :: it2 :: rest, done, pre, st, hf, _, h7, hgood, hlast, hs, hpre, hci, hcur, hprev => by
    obtain ⟨hc1, hc2⟩ := hcur it rfl
    have h7i := h7 it (by simp)
    have h7j := h7 it2 (by simp)
    have hti : textNT F ts it = numText F it := by
      unfold textNT; rw [if_neg (by intro h; exact (num7_facts _ h7i).2.2 h)]
    have hcc : concatItems (textNT F ts) (it :: it2 :: rest ++ [itT]) =
        numText F it ++ it.sepText ++ concatItems (textNT F ts) (it2 :: rest ++ [itT]) := by
      simp only [List.cons_append, concatItems, hti]
    rw [hcc] at hs ⊢
    obtain ⟨st1, hl1, hd1, hci1, hcur1, htok1, hprev1, hasc1⟩ :=
      item_mid O f F hF s h16 it it2 done (rest ++ [itT]) pre (concatItems (textNT F ts) (it2 :: rest ++ [itT])) st
        (by rw [hf]; simp) h7i h7j (hgood it (by simp)) hs hpre hci hc1 hc2 hprev
    obtain ⟨st', hl, hd⟩ := loop_numsT O f F hF s ts h16 itT hT hTsep (it2 :: rest) (done ++ [it])
      (pre ++ numText F it ++ it.sepText) st1 (by rw [hf]; simp) (by simp)
      (fun i hi => h7 i (List.mem_cons_of_mem _ hi)) (fun i hi => hgood i (List.mem_cons_of_mem _ hi))
      (fun i hi => hlast i (by simpa [List.getLast?_cons_cons] using hi))
      (by rw [hs]; simp [List.append_assoc]) hasc1 (by rw [hci1]; simp)
      (by intro i hi; simp at hi; subst hi; exact ⟨hcur1, htok1⟩) hprev1
    rw [hl1, hl]
    refine ⟨st', rfl, ?_⟩
    rw [hd]
    have := foldFlds_data F (it2 :: rest) st1 (storeFld it.token F st) hd1
    simp only [St.data, Prod.mk.injEq] at this ⊢
    simp only [foldFlds] at this ⊢
    obtain ⟨e1, e2, e3, e4, e5, e6, e7, e8, e9, e10, e11, e12, e13⟩ := this
    exact ⟨e1, e2, e3, e4, e5, e6, e7, e8, e9, trivial, e11, e12, e13⟩

theorem concatItemsT_shape (F : Flds) (hF : F.InRange) (ts : TS) (itT : Item) (hT : itT.token = .Timescale) :
    ∀ (nums : List Item), nums ≠ [] → (∀ it ∈ nums, isNum7 it.token = true) → (∀ it ∈ nums, GoodSep it) →
    Ascii (concatItems (textNT F ts) (nums ++ [itT])) ∧
    (∃ c post, isDigitC c ∧ concatItems (textNT F ts) (nums ++ [itT]) = c :: post) ∧
    (∃ pre c, isUpperC c ∧ concatItems (textNT F ts) (nums ++ [itT]) = pre ++ [c])
  | [], h, _, _ => absurd rfl h
  | [it], _, h7, hgood => by
    have h7i := h7 it (by simp)
    obtain ⟨hl2, hdig, _, _⟩ := numText_spec F hF it h7i
    obtain ⟨hsl2, hup, _⟩ := scale_facts ts
    obtain ⟨nm', cl, hnm⟩ := exists_snoc (scaleText ts) (by intro h; rw [h] at hsl2; simp at hsl2)
    have hti : textNT F ts it = numText F it := by
      unfold textNT; rw [if_neg (by intro h; exact (num7_facts _ h7i).2.2 h)]
    have htT : textNT F ts itT = scaleText ts := by unfold textNT; rw [if_pos hT]
    obtain ⟨a, hsa, _, ha128, hsep2⟩ := hgood it (by simp)
    have hsepA : Ascii it.sepText := by
      intro x hx
      unfold Item.sepText at hx
      rcases hsep2 with hs2 | ⟨b, hs2, _, hb128⟩
      · rw [hsa, hs2] at hx; simp at hx; omega
      · rw [hsa, hs2] at hx; simp at hx; omega
    simp only [List.cons_append, List.nil_append, concatItems, hti, htT]
    refine ⟨?_, ?_, ?_⟩
    · intro x hx
      simp only [List.mem_append] at hx
      rcases hx with (hx | hx) | hx
      · exact numText_ascii F hF it h7i x hx
      · exact hsepA x hx
      · have := hup x hx; unfold isUpperC at this; omega
    · cases hD : numText F it with
      | nil => rw [hD] at hl2; simp at hl2
      | cons c0 post => exact ⟨c0, post ++ (it.sepText ++ scaleText ts), hdig c0 (by rw [hD]; simp), by simp⟩
    · exact ⟨numText F it ++ it.sepText ++ nm', cl, hup cl (by rw [hnm]; simp), by rw [hnm]; simp [List.append_assoc]⟩
  | it :: it2 :: r, _, h7, hgood => by
    have h7i := h7 it (by simp)
    obtain ⟨hl2, hdig, _, _⟩ := numText_spec F hF it h7i
    have hti : textNT F ts it = numText F it := by
      unfold textNT; rw [if_neg (by intro h; exact (num7_facts _ h7i).2.2 h)]
    obtain ⟨ih1, _, ⟨pre, cl, hcl, hlast⟩⟩ := concatItemsT_shape F hF ts itT hT (it2 :: r) (by simp)
      (fun i hi => h7 i (List.mem_cons_of_mem _ hi)) (fun i hi => hgood i (List.mem_cons_of_mem _ hi))
    obtain ⟨a, hsa, _, ha128, hsep2⟩ := hgood it (by simp)
    have hsepA : Ascii it.sepText := by
      intro x hx
      unfold Item.sepText at hx
      rcases hsep2 with hs2 | ⟨b, hs2, _, hb128⟩
      · rw [hsa, hs2] at hx; simp at hx; omega
      · rw [hsa, hs2] at hx; simp at hx; omega
    have hcc : concatItems (textNT F ts) (it :: it2 :: r ++ [itT]) =
        numText F it ++ it.sepText ++ concatItems (textNT F ts) (it2 :: r ++ [itT]) := by
      simp only [List.cons_append, concatItems, hti]
    rw [hcc]
    refine ⟨?_, ?_, ?_⟩
    · intro x hx
      simp only [List.mem_append] at hx
      rcases hx with (hx | hx) | hx
      · exact numText_ascii F hF it h7i x hx
      · exact hsepA x hx
      · exact ih1 x hx
    · cases hD : numText F it with
      | nil => rw [hD] at hl2; simp at hl2
      | cons c0 post =>
        exact ⟨c0, post ++ (it.sepText ++ concatItems (textNT F ts) (it2 :: r ++ [itT])), hdig c0 (by rw [hD]; simp), by simp⟩
    · exact ⟨numText F it ++ it.sepText ++ pre, cl, hcl, by rw [hlast]; simp [List.append_assoc]⟩

/-- PARSE BACK (numeric class with a final `%T`), ANY TIME SCALE.  As `parse_back_num7`, the format ending
    with a non-optional `%T` item (read by `Format::parse` since fix D39); the numeric item before it has
    exactly one separator.  The epoch may be in any of the nine scales. -/
theorem parse_back_numT (O : Oracles) (f : Format) (e : Ep)
    (hd : e.dur.Canon) (hr : Cal.InCal e.dur.val)
    (hy : ∀ y mo dd h mi s ns, Cal.computeGregorian e.dur e.ts = .ok (y, mo, dd, h, mi, s, ns) → 0 ≤ y ∧ y ≤ 9999)
    (nums : List Item) (itT : Item) (hitems : f.items = nums ++ [itT]) (hne : nums ≠ []) (h16 : f.items.length ≤ 16)
    (hT : itT.token = .Timescale) (hTsep : itT.sep1 = none) (hTopt : itT.optional = false)
    (h7 : ∀ it ∈ nums, isNum7 it.token = true ∧ it.optional = false)
    (hgood : ∀ it ∈ nums, GoodSep it)
    (hlast : ∀ it, nums.getLast? = some it → it.sep2 = none)
    (hfull : ∀ t, isNum7 t = true → t ∈ nums.map (·.token)) :
    ∃ text, formatterOutput O f e none = .ok text ∧ formatParse O f text = .ok e := by
  obtain ⟨y, mo, dd, h, mi, s, ns, hg, hmfg⟩ := Cal.from_compute e.dur e.ts hd hr
  obtain ⟨y', mo', dd', h', mi', s', ns', hg', hval, _, _, a1, a2, a3, a4, a5, a6, a7, a8, _⟩ :=
    Cal.computeGregorian_spec e.dur e.ts hd hr
  rw [hg] at hg'
  simp only [Res.ok.injEq, Prod.mk.injEq] at hg'
  obtain ⟨rfl, rfl, rfl, rfl, rfl, rfl, rfl⟩ := hg'
  have hyr := hy y mo dd h mi s ns hg
  have hv' := (Cal.validDate_iff _).mp hval
  simp only at hv'
  have hml := Cal.monthLen_range y mo hv'.1 hv'.2.1
  have hF : (Flds.mk y mo dd h mi s ns).InRange := by
    unfold Flds.InRange; simp only; omega
  obtain ⟨_, _, _, _, _, _, _, hdoyex⟩ := dayOfYearInt_spec e hd hr
  obtain ⟨doy, hdoy⟩ : ∃ doy, dayOfYearInt e = .ok doy := ⟨_, hdoyex.2⟩
  have hz : offsetText Dur.ZERO = .ok [43, 48, 48, 58, 48, 48] := by decide +kernel
  have hfne : f.items ≠ [] := by rw [hitems]; simp
  have htext := formatterFmt_concat O f e Dur.ZERO y mo dd h mi s ns _ doy hfne
    (fun it hi => by
      rw [hitems] at hi
      rcases List.mem_append.mp hi with hi | hi
      · exact ⟨num7_supported _ (h7 it hi).1, (h7 it hi).2⟩
      · simp at hi; subst hi; exact ⟨by rw [hT]; rfl, hTopt⟩) hg hz hdoy
  have hcongr := concatItems_congr (fun it => tokBytes it.token y mo dd h mi s ns e [43, 48, 48, 58, 48, 48] doy)
    (textNT ⟨y, mo, dd, h, mi, s, ns⟩ e.ts) f.items
    (fun it hi => by
      rw [hitems] at hi
      rcases List.mem_append.mp hi with hi | hi
      · have h7i := (h7 it hi).1
        simp only [textNT]
        rw [if_neg (by intro h; exact (num7_facts _ h7i).2.2 h)]
        exact tokBytes_num7 it.token h7i _ _ _ _ _ _ _ _ _ _ _ _ _
      · simp at hi; subst hi
        simp only [textNT]
        rw [if_pos hT, hT]
        rfl)
  rw [hcongr, hitems] at htext
  refine ⟨concatItems (textNT ⟨y, mo, dd, h, mi, s, ns⟩ e.ts) (nums ++ [itT]), by rw [← hitems] at htext ⊢; exact htext, ?_⟩
  obtain ⟨hasc, ⟨c0, post, hc0, hfirst⟩, ⟨pre, cl, hcl, hlastc⟩⟩ :=
    concatItemsT_shape ⟨y, mo, dd, h, mi, s, ns⟩ hF e.ts itT hT nums hne (fun it hi => (h7 it hi).1) hgood
  have htrim : trim (concatItems (textNT ⟨y, mo, dd, h, mi, s, ns⟩ e.ts) (nums ++ [itT])) =
      concatItems (textNT ⟨y, mo, dd, h, mi, s, ns⟩ e.ts) (nums ++ [itT]) := by
    apply trim_id
    · intro c hc; rw [hfirst] at hc; simp at hc; subst hc; exact digit_not_ws _ hc0
    · intro c hc; rw [hlastc] at hc; simp at hc; subst hc; exact upper_not_ws _ hcl
  cases hnums : nums with
  | nil => exact absurd hnums hne
  | cons it0 rest =>
    unfold formatParse
    rw [hitems, hnums]
    simp only [List.cons_append]
    rw [← List.cons_append, ← hnums, htrim, byteLen_ascii _ hasc]
    obtain ⟨st', hl, hdat⟩ := loop_numsT O f ⟨y, mo, dd, h, mi, s, ns⟩ hF
      (concatItems (textNT ⟨y, mo, dd, h, mi, s, ns⟩ e.ts) (nums ++ [itT])) e.ts h16 itT hT hTsep nums [] [] (St.init it0)
      (by simp [hitems]) hne (fun it hi => (h7 it hi).1) hgood hlast (by simp) (by intro c hc; simp at hc) rfl
      (by intro i hi; rw [hnums] at hi; simp at hi; subst hi; exact ⟨rfl, rfl⟩) rfl
    simp only [List.length_nil] at hl
    rw [hl]
    simp only
    have hfd := foldFlds_data_eq ⟨y, mo, dd, h, mi, s, ns⟩ nums (St.init it0)
    rw [if_pos (hfull .Year rfl), if_pos (hfull .Month rfl), if_pos (hfull .Day rfl), if_pos (hfull .Hour rfl),
      if_pos (hfull .Minute rfl), if_pos (hfull .Second rfl), if_pos (hfull .Subsecond rfl)] at hfd
    have hfin : finish f st' = finish f ⟨y, mo, dd, h, mi, s, ns, 0, 0, e.ts, false, none, none, 0, 0, it0, it0.token, it0⟩ := by
      apply finish_data
      rw [hdat]
      simp only [St.data, Prod.mk.injEq] at hfd ⊢
      obtain ⟨e1, e2, e3, e4, e5, e6, e7, e8, e9, e10, e11, e12, e13⟩ := hfd
      exact ⟨e1, e2, e3, e4, e5, e6, e7, e8, e9, trivial, e11, e12, e13⟩
    rw [hfin]
    unfold finish buildEpoch
    simp only
    have u1 : toU8 mo = some mo := by unfold toU8; rw [if_pos (by omega)]
    have u2 : toU8 dd = some dd := by unfold toU8; rw [if_pos (by omega)]
    have u3 : toU8 h = some h := by unfold toU8; rw [if_pos (by omega)]
    have u4 : toU8 mi = some mi := by unfold toU8; rw [if_pos (by omega)]
    have u5 : toU8 s = some s := by unfold toU8; rw [if_pos (by omega)]
    have u6 : toU32 ns = some ns := by unfold toU32; rw [if_pos (by omega)]
    rw [u1, u2, u3, u4, u5, u6]
    simp only
    rw [hmfg]
    simp only [Bool.false_eq_true, if_false]
    rw [tz_zero]
    simp only
    rw [add_zero_canon e.dur hd]

/-! ### the class as a decidable predicate -/

def goodSepB (it : Item) : Bool :=
  match it.sep1 with
  | some a =>
    !isNum a && decide (a < 128) &&
      (match it.sep2 with
       | none => true
       | some b => !isNum b && decide (b < 128))
  | none => false

/-- the numeric class of formats: 1 to 16 items, each one of `%Y %m %d %H %M %S %f` and not optional,
    all seven present, every item but the last followed by one or two non-numeric ASCII separators -/
def numClass (f : Format) : Bool :=
  !f.items.isEmpty && decide (f.items.length ≤ 16) &&
  f.items.all (fun it => isNum7 it.token && !it.optional) &&
  f.items.dropLast.all goodSepB &&
  [Token.Year, .Month, .Day, .Hour, .Minute, .Second, .Subsecond].all (fun t => f.items.any (fun it => it.token == t))

theorem goodSepB_iff (it : Item) (h : goodSepB it = true) : GoodSep it := by
  unfold goodSepB at h
  cases h1 : it.sep1 with
  | none => rw [h1] at h; simp at h
  | some a =>
    rw [h1] at h
    cases h2 : it.sep2 with
    | none =>
      rw [h2] at h; simp at h
      exact ⟨a, h1, h.1, h.2, Or.inl h2⟩
    | some b =>
      rw [h2] at h; simp at h
      exact ⟨a, h1, h.1.1, h.1.2, Or.inr ⟨b, h2, h.2.1, h.2.2⟩⟩

theorem parse_back_numClass (O : Oracles) (f : Format) (e : Ep) (hc : numClass f = true) (hutc : e.ts = TS.UTC)
    (hd : e.dur.Canon) (hr : Cal.InCal e.dur.val)
    (hy : ∀ y mo dd h mi s ns, Cal.computeGregorian e.dur e.ts = .ok (y, mo, dd, h, mi, s, ns) → 0 ≤ y ∧ y ≤ 9999) :
    ∃ text, formatterOutput O f e none = .ok text ∧ formatParse O f text = .ok e := by
  unfold numClass at hc
  simp only [Bool.and_eq_true, List.all_eq_true, decide_eq_true_eq, Bool.not_eq_true'] at hc
  obtain ⟨⟨⟨⟨h1, h2⟩, h3⟩, h4⟩, h5⟩ := hc
  apply parse_back_num7 O f e hutc hd hr hy
  · intro h; rw [h] at h1; simp at h1
  · exact h2
  · intro it hi
    exact h3 it hi
  · intro it hi; exact goodSepB_iff it (h4 it hi)
  · intro t ht
    have : t ∈ [Token.Year, .Month, .Day, .Hour, .Minute, .Second, .Subsecond] := by
      cases t <;> simp [isNum7] at ht <;> simp
    have := h5 t this
    simp only [List.any_eq_true, beq_iff_eq] at this
    obtain ⟨it, hi, he⟩ := this
    exact List.mem_map.mpr ⟨it, hi, he⟩

/-- the numeric class with a final `%T`: the items but the last form a numeric list as in `numClass` (every one of
    them followed by separators, the last of them by exactly one), the last item is a non-optional `%T`
    without separator -/
def numTClass (f : Format) : Bool :=
  decide (2 ≤ f.items.length) && decide (f.items.length ≤ 16) &&
  (match f.items.getLast? with
   | some l => l.token == .Timescale && l.sep1.isNone && !l.optional
   | none => false) &&
  f.items.dropLast.all (fun it => isNum7 it.token && !it.optional && goodSepB it) &&
  (match f.items.dropLast.getLast? with
   | some l => l.sep2.isNone
   | none => false) &&
  [Token.Year, .Month, .Day, .Hour, .Minute, .Second, .Subsecond].all
    (fun t => f.items.dropLast.any (fun it => it.token == t))

theorem parse_back_numTClass (O : Oracles) (f : Format) (e : Ep) (hc : numTClass f = true)
    (hd : e.dur.Canon) (hr : Cal.InCal e.dur.val)
    (hy : ∀ y mo dd h mi s ns, Cal.computeGregorian e.dur e.ts = .ok (y, mo, dd, h, mi, s, ns) → 0 ≤ y ∧ y ≤ 9999) :
    ∃ text, formatterOutput O f e none = .ok text ∧ formatParse O f text = .ok e := by
  unfold numTClass at hc
  simp only [Bool.and_eq_true, List.all_eq_true, decide_eq_true_eq] at hc
  obtain ⟨⟨⟨⟨⟨h1, h2⟩, h3⟩, h4⟩, h5⟩, h6⟩ := hc
  have hne : f.items ≠ [] := by intro h; rw [h] at h1; simp at h1
  obtain ⟨nums, itT, hitems⟩ := exists_snoc f.items hne
  have hdl : f.items.dropLast = nums := by rw [hitems]; simp
  have hgl : f.items.getLast? = some itT := by rw [hitems]; simp
  rw [hgl] at h3
  simp only [Bool.and_eq_true, beq_iff_eq, Option.isNone_iff_eq_none, Bool.not_eq_true'] at h3
  rw [hdl] at h4 h5 h6
  have hnne : nums ≠ [] := by
    intro h; rw [hitems, h] at h1; simp at h1
  apply parse_back_numT O f e hd hr hy nums itT hitems hnne h2 h3.1.1 h3.1.2 h3.2
  · intro it hi
    have := h4 it hi
    exact ⟨this.1.1, by simpa using this.1.2⟩
  · intro it hi
    exact goodSepB_iff it (h4 it hi).2
  · intro it hi
    rw [hi] at h5
    simpa using h5
  · intro t ht
    have : t ∈ [Token.Year, .Month, .Day, .Hour, .Minute, .Second, .Subsecond] := by
      cases t <;> simp [isNum7] at ht <;> simp
    have := h6 t this
    simp only [List.any_eq_true, beq_iff_eq] at this
    obtain ⟨it, hi, he⟩ := this
    exact List.mem_map.mpr ⟨it, hi, he⟩

/-! ### a final `%z` directly after the last numeric item (the layout of RFC 3339) -/

/-- the offset text: sign, two hour digits, `:`, two minute digits, with the values they stand for -/
theorem offsetText_shape (off : Dur) (hc : off.Canon) (hm : off.val % 60000000000 = 0)
    (hr : -86400000000000 < off.val ∧ off.val < 86400000000000) :
    ∃ hh mm : Int, 0 ≤ hh ∧ hh ≤ 23 ∧ 0 ≤ mm ∧ mm ≤ 59 ∧
      (if off.val < 0 then -off.val else off.val) = hh * 3600000000000 + mm * 60000000000 ∧
      offsetText off = .ok ((if off.val < 0 then [45] else [43]) ++ Cal.fmtInt 2 hh ++ [58] ++ Cal.fmtInt 2 mm) := by
  unfold offsetText
  rw [Cal.decompose_spec off hc]
  have hsg := Cal.signum_neg_iff off hc
  generalize off.val = v at *
  by_cases hneg : v < 0
  · have hs : ¬ (Dur.signum off ≥ 0) := by have := hsg.mpr hneg; omega
    have e1 : ¬ ((-v) / 86400000000000 > 0) := by omega
    have e2 : ¬ ((-v) % 86400000000000 % 3600000000000 % 60000000000 / 1000000000 > 0) := by omega
    refine ⟨(-v) % 86400000000000 / 3600000000000, (-v) % 86400000000000 % 3600000000000 / 60000000000,
      by omega, by omega, by omega, by omega, ?_, ?_⟩
    · rw [if_pos hneg]; omega
    · simp only [if_pos hneg, if_neg hs, if_neg e1, if_neg e2, List.append_nil]
  · have hs : Dur.signum off ≥ 0 := by
      have : ¬ (Dur.signum off < 0) := fun h => hneg (hsg.mp h)
      omega
    have e1 : ¬ (v / 86400000000000 > 0) := by omega
    have e2 : ¬ (v % 86400000000000 % 3600000000000 % 60000000000 / 1000000000 > 0) := by omega
    refine ⟨v % 86400000000000 / 3600000000000, v % 86400000000000 % 3600000000000 / 60000000000,
      by omega, by omega, by omega, by omega, ?_, ?_⟩
    · rw [if_neg hneg]; omega
    · simp only [if_neg hneg, if_pos hs, if_neg e1, if_neg e2, List.append_nil]

theorem two_digits (v : Int) (h : 0 ≤ v ∧ v ≤ 99) :
    ∃ d1 d2, Cal.fmtInt 2 v = [d1, d2] ∧ isDigitC d1 ∧ isDigitC d2 ∧ lexI32 [d1, d2] = some v := by
  obtain ⟨a, b, c⟩ := fmtInt_digits 2 v h.1 (by simp; omega) (by omega) (by omega)
  match hf : Cal.fmtInt 2 v, a with
  | [d1, d2], _ =>
    rw [hf] at b c
    exact ⟨d1, d2, rfl, b d1 (by simp), b d2 (by simp), c⟩

/-- the end of the last numeric field at the sign of the offset (no separator in between): the field is
    stored, `%z` becomes current and the sign is read from this character -/
theorem step_sign (O : Oracles) (f : Format) (s : List Nat) (len sg idx : Nat) (st : St) (F : Flds)
    (it itZ : Item) (pre post : List Nat)
    (hs : s = pre ++ (numText F it ++ ([sg] ++ post))) (hpre : Ascii pre) (hF : F.InRange)
    (h7 : isNum7 it.token = true) (hZ : itZ.token = .OffsetHours)
    (hcur : st.cur = it) (htok : st.tok = it.token) (hprev : st.prevIdx = pre.length)
    (hidx : idx = pre.length + (numText F it).length)
    (hsep : it.sep1 = none) (hsg : sg = 43 ∨ sg = 45)
    (hnext : f.items[st.curIdx + 1]? = some itZ) (hlen : st.curIdx + 1 < f.items.length)
    (h16 : f.items.length ≤ 16) :
    stepChar O f s len sg idx st =
      .cont { storeFld it.token F { st with prev := it, curIdx := st.curIdx + 1, cur := itZ, tok := .OffsetHours }
              with offNeg := st.offNeg || decide (sg = 45), prevIdx := idx + 1 } := by
  obtain ⟨hl2, hdig, _, hstore⟩ := numText_spec F hF it h7
  obtain ⟨hnum, hoh, hts⟩ := num7_facts it.token h7
  have hasc : Ascii (numText F it) := fun c hc => by have := hdig c hc; unfold isDigitC at this; omega
  have hsn : isNum sg = false := by rcases hsg with h | h <;> subst h <;> decide +kernel
  have hs128 : sg < 128 := by omega
  have htr : trigger len sg idx st = true := by unfold trigger; simp [htok, hnum, hsn]
  unfold stepChar
  rw [if_pos htr]
  unfold stepBody
  rw [if_neg (by intro h; exact hoh (htok ▸ h.1)), if_neg (by intro h; omega), if_neg (by rw [htok]; exact hts),
    if_neg (by intro h; omega), if_neg (by intro h; exact hoh (htok ▸ h.1))]
  unfold stepField
  rw [if_pos (Or.inr ⟨hsn, Or.inl (by rw [htok]; exact hnum)⟩)]
  have hsnot : (st.cur.sepIsNot sg && (st.cur.sep2.isNone || st.cur.sep2IsNot sg)) = false := by
    unfold Item.sepIsNot; rw [hcur, hsep]; simp
  rw [hsnot]
  simp only [Bool.false_eq_true, if_false]
  rw [if_neg (by omega), if_neg (by have : MAX_TOKENS = 16 := rfl; omega), hnext]
  simp only
  unfold afterEnd
  simp only
  rw [hprev, hidx, hs, slice_ascii pre (numText F it) ([sg] ++ post) hpre hasc]
  simp only
  have hn : pre.length + (numText F it).length - pre.length = (numText F it).length := by omega
  rw [hn, htok, hstore]
  simp only [Bool.false_eq_true, if_false]
  rw [if_pos (by rw [(storeFld_frame _ _ _).1]; exact hZ)]
  -- the sign character
  have hsl : slice (pre ++ (numText F it ++ ([sg] ++ post))) (pre.length + (numText F it).length)
      (pre.length + (numText F it).length + 1) = some [sg] := by
    have := slice_ascii (pre ++ numText F it) [sg] post
      (by intro c hc; rcases List.mem_append.mp hc with h | h; exact hpre c h; exact hasc c h)
      (by intro c hc; simp at hc; omega)
    simpa [List.append_assoc] using this
  rw [hsl]
  simp only
  rw [(storeFld_frame _ _ _).2.2.1, storeFld_offNeg]
  simp only
  rw [hcur, hsep, hZ]
  have : (decide ([sg] = [45])) = decide (sg = 45) := by simp
  simp only [Option.isNone_none, Bool.true_and, this]
  first | rfl | (cases it.token <;> rfl)

/-- `:` inside the offset: the hours are stored, the minutes follow within the same item -/
theorem step_colon (O : Oracles) (f : Format) (s : List Nat) (len idx : Nat) (st : St)
    (A post : List Nat) (h1 h2 : Nat) (hh : Int)
    (hs : s = A ++ ([h1, h2] ++ post)) (hA : Ascii A) (hd1 : isDigitC h1) (hd2 : isDigitC h2)
    (hlex : lexI32 [h1, h2] = some hh) (hhr : 0 ≤ hh ∧ hh ≤ 23)
    (htok : st.tok = .OffsetHours) (hprev : st.prevIdx = A.length) (hidx : idx = A.length + 2) :
    stepChar O f s len 58 idx st = .cont { st with oh := hh, tok := .OffsetMinutes, prevIdx := idx + 1 } := by
  have hn58 : isNum 58 = false := by decide +kernel
  have htr : trigger len 58 idx st = true := by unfold trigger; simp [htok, Token.isNumeric, hn58]
  unfold stepChar
  rw [if_pos htr]
  unfold stepBody
  rw [if_neg (by intro h; omega), if_neg (by intro h; omega), if_neg (by rw [htok]; decide),
    if_neg (by intro h; omega), if_pos ⟨htok, rfl⟩]
  unfold stepHours
  have hsl : slice s st.prevIdx idx = some [h1, h2] := by
    rw [hprev, hidx, hs]
    exact slice_ascii A [h1, h2] post hA (by intro c hc; simp at hc; unfold isDigitC at hd1 hd2; omega)
  rw [hsl]
  simp only
  rw [hlex]
  simp only
  rw [if_neg (by simp [Token.valueOk]; omega)]

/-- the last character of the text, the second minute digit of the offset: the minutes are stored -/
theorem step_last_min (O : Oracles) (f : Format) (s : List Nat) (len idx : Nat) (st : St)
    (A : List Nat) (m1 m2 : Nat) (mm : Int)
    (hs : s = A ++ ([m1, m2] ++ [])) (hA : Ascii A) (hd1 : isDigitC m1) (hd2 : isDigitC m2)
    (hlex : lexI32 [m1, m2] = some mm) (hmr : 0 ≤ mm ∧ mm ≤ 59)
    (htok : st.tok = .OffsetMinutes) (hprev : st.prevIdx = A.length) (hidx : idx = A.length + 1)
    (hlen : len = A.length + 2) :
    stepChar O f s len m2 idx st = .cont { st with om := mm, prev := st.cur, prevIdx := idx + 1 } := by
  have hcn := digit_isNum m2 hd2
  have htr : trigger len m2 idx st = true := by
    unfold trigger
    have : idx + 1 = len := by omega
    simp [this]
  unfold stepChar
  rw [if_pos htr]
  unfold stepBody
  rw [if_neg (by intro h; rw [htok] at h; exact absurd h.1 (by decide)), if_neg (by intro h; omega),
    if_neg (by rw [htok]; decide), if_neg (by intro h; unfold isDigitC at hd2; omega),
    if_neg (by intro h; rw [htok] at h; exact absurd h.1 (by decide))]
  unfold stepField
  have hno : ¬ (idx + 1 ≠ len ∨ (isNum m2 = false ∧ (st.tok.isNumeric = true ∨ st.cur.sep1 = some m2))) := by
    intro h
    rcases h with h | h
    · omega
    · rw [hcn] at h; exact absurd h.1 (by decide)
  rw [if_neg hno]
  unfold afterEnd
  simp only
  have hsl : slice s st.prevIdx (idx + 1) = some [m1, m2] := by
    rw [hprev, hidx, hs]
    have := slice_ascii A [m1, m2] [] hA (by intro c hc; simp at hc; unfold isDigitC at hd1 hd2; omega)
    simpa using this
  rw [hsl]
  simp only
  rw [htok]
  have hst : ∀ (n : Nat) (st0 : St), store O .OffsetMinutes [m1, m2] n st0 = .cont { st0 with om := mm } := by
    intro n st0
    have : Token.OffsetMinutes.valueOk mm = true := by simp [Token.valueOk]; omega
    simp [store, hlex, this, Token.gregorianPosition, St.setPos]
  rw [hst]
  simp only [Bool.false_eq_true, if_false]
  rw [if_neg (by decide), if_neg (by intro h; omega)]

/-- `step_sign` with the resulting state described by its properties -/
theorem step_sign' (O : Oracles) (f : Format) (s : List Nat) (len sg idx : Nat) (st : St) (F : Flds)
    (it itZ : Item) (pre post : List Nat)
    (hs : s = pre ++ (numText F it ++ ([sg] ++ post))) (hpre : Ascii pre) (hF : F.InRange)
    (h7 : isNum7 it.token = true) (hZ : itZ.token = .OffsetHours)
    (hcur : st.cur = it) (htok : st.tok = it.token) (hprev : st.prevIdx = pre.length)
    (hidx : idx = pre.length + (numText F it).length)
    (hsep : it.sep1 = none) (hsg : sg = 43 ∨ sg = 45)
    (hnext : f.items[st.curIdx + 1]? = some itZ) (hlen : st.curIdx + 1 < f.items.length)
    (h16 : f.items.length ≤ 16) :
    ∃ st1, stepChar O f s len sg idx st = .cont st1 ∧ st1.tok = .OffsetHours ∧ st1.prevIdx = idx + 1 ∧
      st1.data = ({ storeFld it.token F st with offNeg := st.offNeg || decide (sg = 45) } : St).data := by
  refine ⟨_, step_sign O f s len sg idx st F it itZ pre post hs hpre hF h7 hZ hcur htok hprev hidx hsep hsg hnext hlen h16,
    ?_, rfl, ?_⟩
  · simp only; rw [(storeFld_frame _ _ _).1]
  · cases it.token <;> rfl

/-- the last numeric item followed directly by the offset `±HH:MM` of the final `%z` -/
theorem tail_Z (O : Oracles) (f : Format) (F : Flds) (hF : F.InRange) (s : List Nat) (h16 : f.items.length ≤ 16)
    (itL itZ : Item) (done : List Item) (pre : List Nat) (st : St) (sg h1 h2 m1 m2 : Nat) (hh mm : Int)
    (hf : f.items = done ++ [itL, itZ]) (h7 : isNum7 itL.token = true) (hLsep : itL.sep1 = none)
    (hZ : itZ.token = .OffsetHours)
    (hs : s = pre ++ (numText F itL ++ [sg, h1, h2, 58, m1, m2])) (hpre : Ascii pre)
    (hsg : sg = 43 ∨ sg = 45) (hd1 : isDigitC h1) (hd2 : isDigitC h2) (hd3 : isDigitC m1) (hd4 : isDigitC m2)
    (hlh : lexI32 [h1, h2] = some hh) (hhr : 0 ≤ hh ∧ hh ≤ 23)
    (hlm : lexI32 [m1, m2] = some mm) (hmr : 0 ≤ mm ∧ mm ≤ 59)
    (hci : st.curIdx = done.length) (hc1 : st.cur = itL) (hc2 : st.tok = itL.token) (hprev : st.prevIdx = pre.length) :
    ∃ st', parseLoop O f s s.length (numText F itL ++ [sg, h1, h2, 58, m1, m2]) pre.length st = .ok st' ∧
      st'.data = ({ storeFld itL.token F st with oh := hh, om := mm, offNeg := st.offNeg || decide (sg = 45) } : St).data := by
  obtain ⟨hl2, hdig, _, _⟩ := numText_spec F hF itL h7
  have hasc := numText_ascii F hF itL h7
  have hnext : f.items[st.curIdx + 1]? = some itZ := by rw [hf, hci]; simp
  have hlen : st.curIdx + 1 < f.items.length := by rw [hf, hci]; simp
  have hnumc : st.tok.isNumeric = true := by rw [hc2]; exact (num7_facts _ h7).1
  have hslen : s.length = pre.length + (numText F itL).length + 6 := by
    rw [hs]; simp only [List.length_append, List.length_cons, List.length_nil]; omega
  have hdA : ∀ c, isDigitC c → c < 128 := fun c h => by unfold isDigitC at h; omega
  -- 1. the digits of the last numeric field
  rw [scan_digits O f s s.length _ _ pre.length st hnumc hdig (by omega)]
  -- 2. the sign
  obtain ⟨st1, hst1, ht1, hp1, hdat1⟩ := step_sign' O f s s.length sg (pre.length + (numText F itL).length) st F itL itZ
    pre [h1, h2, 58, m1, m2] (by rw [hs]; simp) hpre hF h7 hZ hc1 hc2 hprev rfl hLsep hsg hnext hlen h16
  rw [parseLoop, hst1]
  simp only
  -- 3. the hour digits
  have hsc2 := scan_digits O f s s.length [h1, h2] [58, m1, m2] (pre.length + (numText F itL).length + 1) st1
    (by rw [ht1]; rfl) (by intro c hc; simp at hc; rcases hc with h | h <;> subst h <;> assumption)
    (by simp; omega)
  simp only [List.cons_append, List.nil_append] at hsc2
  rw [hsc2]
  -- 4. the colon
  have hst2 := step_colon O f s s.length (pre.length + (numText F itL).length + 1 + 2) st1
    (pre ++ numText F itL ++ [sg]) [58, m1, m2] h1 h2 hh (by rw [hs]; simp)
    (by intro c hc; simp at hc; rcases hc with h | h | h; exact hpre c h; exact hasc c h; omega)
    hd1 hd2 hlh hhr ht1 (by rw [hp1]; simp; omega) (by simp; omega)
  simp only [List.length_cons, List.length_nil]
  rw [parseLoop, hst2]
  simp only
  -- 5. the first minute digit
  have hsc3 := scan_digits O f s s.length [m1] [m2] (pre.length + (numText F itL).length + 1 + 2 + 1)
    { st1 with oh := hh, tok := .OffsetMinutes, prevIdx := pre.length + (numText F itL).length + 1 + 2 + 1 }
    (by rfl) (by intro c hc; simp at hc; subst hc; exact hd3) (by simp; omega)
  simp only [List.cons_append, List.nil_append] at hsc3
  rw [hsc3]
  -- 6. the last minute digit
  have hst3 := step_last_min O f s s.length (pre.length + (numText F itL).length + 1 + 2 + 1 + 1)
    { st1 with oh := hh, tok := .OffsetMinutes, prevIdx := pre.length + (numText F itL).length + 1 + 2 + 1 }
    (pre ++ numText F itL ++ [sg, h1, h2, 58]) m1 m2 mm (by rw [hs]; simp)
    (by intro c hc; simp at hc
        rcases hc with h | h | h | h | h | h
        · exact hpre c h
        · exact hasc c h
        · omega
        · subst h; exact hdA _ hd1
        · subst h; exact hdA _ hd2
        · omega)
    hd3 hd4 hlm hmr rfl (by simp; omega) (by simp; omega) (by simp; omega)
  simp only [List.length_cons, List.length_nil]
  rw [parseLoop, hst3]
  simp only [parseLoop]
  refine ⟨_, rfl, ?_⟩
  simp only [St.data, Prod.mk.injEq] at hdat1 ⊢
  obtain ⟨e1, e2, e3, e4, e5, e6, e7, e8, e9, e10, e11, e12, e13⟩ := hdat1
  refine ⟨e1, e2, e3, e4, e5, e6, e7, trivial, trivial, e10, e11, e12, e13⟩

/-- the text of "numeric items with separators, a last numeric item, then the offset" -/
def textZ (F : Flds) (itL : Item) (zs : List Nat) : List Item → List Nat
  | [] => numText F itL ++ zs
  | it :: r => numText F it ++ it.sepText ++ textZ F itL zs r

/-- the data of the final state: the stored fields, the hours and minutes of the offset, its sign -/
def zData (d : Int × Int × Int × Int × Int × Int × Int × Int × Int × TS × Bool × Option DoyV × Option Int)
    (hh mm : Int) (neg : Bool) :
    Int × Int × Int × Int × Int × Int × Int × Int × Int × TS × Bool × Option DoyV × Option Int :=
  (d.1, d.2.1, d.2.2.1, d.2.2.2.1, d.2.2.2.2.1, d.2.2.2.2.2.1, d.2.2.2.2.2.2.1, hh, mm,
   d.2.2.2.2.2.2.2.2.2.1, neg, d.2.2.2.2.2.2.2.2.2.2.2.1, d.2.2.2.2.2.2.2.2.2.2.2.2)

theorem loop_numsZ (O : Oracles) (f : Format) (F : Flds) (hF : F.InRange) (s : List Nat)
    (h16 : f.items.length ≤ 16) (itL itZ : Item) (sg h1 h2 m1 m2 : Nat) (hh mm : Int)
    (h7L : isNum7 itL.token = true) (hLsep : itL.sep1 = none) (hZ : itZ.token = .OffsetHours)
    (hsg : sg = 43 ∨ sg = 45) (hd1 : isDigitC h1) (hd2 : isDigitC h2) (hd3 : isDigitC m1) (hd4 : isDigitC m2)
    (hlh : lexI32 [h1, h2] = some hh) (hhr : 0 ≤ hh ∧ hh ≤ 23)
    (hlm : lexI32 [m1, m2] = some mm) (hmr : 0 ≤ mm ∧ mm ≤ 59) :
    ∀ (nums done : List Item) (pre : List Nat) (st : St),
      f.items = done ++ (nums ++ [itL, itZ]) → (∀ it ∈ nums, isNum7 it.token = true) → (∀ it ∈ nums, GoodSep it) →
      s = pre ++ textZ F itL [sg, h1, h2, 58, m1, m2] nums → Ascii pre →
      st.curIdx = done.length → (∀ it, (nums ++ [itL]).head? = some it → st.cur = it ∧ st.tok = it.token) →
      st.prevIdx = pre.length →
      ∃ st', parseLoop O f s s.length (textZ F itL [sg, h1, h2, 58, m1, m2] nums) pre.length st = .ok st' ∧
        st'.data = zData (foldFlds F (nums ++ [itL]) st).data hh mm (st.offNeg || decide (sg = 45))
  | [], done, pre, st, hf, _, _, hs, hpre, hci, hcur, hprev => by
    obtain ⟨hc1, hc2⟩ := hcur itL rfl
    simp only [textZ] at hs ⊢
    obtain ⟨st', hl, hd⟩ := tail_Z O f F hF s h16 itL itZ done pre st sg h1 h2 m1 m2 hh mm (by rw [hf]; simp) h7L hLsep hZ
      hs hpre hsg hd1 hd2 hd3 hd4 hlh hhr hlm hmr hci hc1 hc2 hprev
    refine ⟨st', hl, ?_⟩
    rw [hd]
    simp only [List.nil_append, foldFlds, zData, St.data]
  | it :: rest, done, pre, st, hf, h7, hgood, hs, hpre, hci, hcur, hprev => by
    obtain ⟨hc1, hc2⟩ := hcur it rfl
    have h7i := h7 it (by simp)
    simp only [textZ] at hs ⊢
    -- the next item: the head of `rest ++ [itL]`
    cases hrest : rest with
    | nil =>
      subst hrest
      obtain ⟨st1, hl1, hdat1, hci1, hcur1, htok1, hprev1, hasc1⟩ :=
        item_mid O f F hF s h16 it itL done [itZ] pre (textZ F itL [sg, h1, h2, 58, m1, m2] []) st
          (by rw [hf]; simp) h7i h7L (hgood it (by simp)) hs hpre hci hc1 hc2 hprev
      obtain ⟨st', hl, hd⟩ := loop_numsZ O f F hF s h16 itL itZ sg h1 h2 m1 m2 hh mm h7L hLsep hZ hsg hd1 hd2 hd3 hd4
        hlh hhr hlm hmr [] (done ++ [it]) (pre ++ numText F it ++ it.sepText) st1 (by rw [hf]; simp)
        (by intro i hi; simp at hi) (by intro i hi; simp at hi) (by rw [hs]; simp [List.append_assoc]) hasc1
        (by rw [hci1]; simp) (by intro i hi; simp at hi; subst hi; exact ⟨hcur1, htok1⟩) hprev1
      rw [hl1, hl]
      refine ⟨st', rfl, ?_⟩
      rw [hd]
      have hon : st1.offNeg = st.offNeg := by
        have := congrArg (fun d => d.2.2.2.2.2.2.2.2.2.2.1) hdat1
        simpa [St.data, storeFld_offNeg] using this
      rw [hon]
      have : (foldFlds F ([] ++ [itL]) st1).data = (foldFlds F ([it] ++ [itL]) st).data := by
        show (foldFlds F [itL] st1).data = (foldFlds F [itL] (storeFld it.token F st)).data
        exact foldFlds_data F _ _ _ hdat1
      rw [this]
    | cons it2 rest2 =>
      subst hrest
      have h7j := h7 it2 (by simp)
      obtain ⟨st1, hl1, hdat1, hci1, hcur1, htok1, hprev1, hasc1⟩ :=
        item_mid O f F hF s h16 it it2 done (rest2 ++ [itL, itZ]) pre (textZ F itL [sg, h1, h2, 58, m1, m2] (it2 :: rest2)) st
          (by rw [hf]; simp) h7i h7j (hgood it (by simp)) hs hpre hci hc1 hc2 hprev
      obtain ⟨st', hl, hd⟩ := loop_numsZ O f F hF s h16 itL itZ sg h1 h2 m1 m2 hh mm h7L hLsep hZ hsg hd1 hd2 hd3 hd4
        hlh hhr hlm hmr (it2 :: rest2) (done ++ [it]) (pre ++ numText F it ++ it.sepText) st1 (by rw [hf]; simp)
        (fun i hi => h7 i (List.mem_cons_of_mem _ hi)) (fun i hi => hgood i (List.mem_cons_of_mem _ hi))
        (by rw [hs]; simp [List.append_assoc]) hasc1
        (by rw [hci1]; simp) (by intro i hi; simp at hi; subst hi; exact ⟨hcur1, htok1⟩) hprev1
      rw [hl1, hl]
      refine ⟨st', rfl, ?_⟩
      rw [hd]
      have hon : st1.offNeg = st.offNeg := by
        have := congrArg (fun d => d.2.2.2.2.2.2.2.2.2.2.1) hdat1
        simpa [St.data, storeFld_offNeg] using this
      rw [hon]
      have : (foldFlds F (it2 :: rest2 ++ [itL]) st1).data = (foldFlds F (it :: it2 :: rest2 ++ [itL]) st).data := by
        show (foldFlds F (it2 :: rest2 ++ [itL]) st1).data = (foldFlds F (it2 :: rest2 ++ [itL]) (storeFld it.token F st)).data
        exact foldFlds_data F _ _ _ hdat1
      rw [this]

theorem textZ_eq_concat (F : Flds) (itL itZ : Item) (zs : List Nat) (T : Item → List Nat)
    (hL : T itL = numText F itL) (hZt : T itZ = zs) (hLs : itL.sepText = []) :
    ∀ (nums : List Item), (∀ it ∈ nums, T it = numText F it) →
      concatItems T (nums ++ [itL, itZ]) = textZ F itL zs nums
  | [], _ => by simp [concatItems, textZ, hL, hZt, hLs]
  | [it], h => by
    simp only [List.cons_append, List.nil_append, concatItems, textZ, h it (by simp), hL, hZt, hLs, List.append_nil]
  | it :: it2 :: r, h => by
    have := textZ_eq_concat F itL itZ zs T hL hZt hLs (it2 :: r) (fun i hi => h i (List.mem_cons_of_mem _ hi))
    simp only [List.cons_append, concatItems, textZ, h it (by simp)] at this ⊢
    rw [this]

theorem textZ_shape (F : Flds) (hF : F.InRange) (itL : Item) (h7L : isNum7 itL.token = true)
    (sg h1 h2 m1 m2 : Nat) (hsg : sg = 43 ∨ sg = 45) (hd1 : isDigitC h1) (hd2 : isDigitC h2) (hd3 : isDigitC m1)
    (hd4 : isDigitC m2) :
    ∀ (nums : List Item), (∀ it ∈ nums, isNum7 it.token = true) → (∀ it ∈ nums, GoodSep it) →
    Ascii (textZ F itL [sg, h1, h2, 58, m1, m2] nums) ∧
    (∃ c post, isDigitC c ∧ textZ F itL [sg, h1, h2, 58, m1, m2] nums = c :: post) ∧
    (∃ pre, textZ F itL [sg, h1, h2, 58, m1, m2] nums = pre ++ [m2])
  | [], _, _ => by
    obtain ⟨hl2, hdig, _, _⟩ := numText_spec F hF itL h7L
    simp only [textZ]
    refine ⟨?_, ?_, ?_⟩
    · intro x hx
      simp only [List.mem_append, List.mem_cons, List.not_mem_nil, or_false] at hx
      unfold isDigitC at hd1 hd2 hd3 hd4
      rcases hx with hx | hx | hx | hx | hx | hx | hx
      · exact numText_ascii F hF itL h7L x hx
      all_goals omega
    · cases hD : numText F itL with
      | nil => rw [hD] at hl2; simp at hl2
      | cons c0 post => exact ⟨c0, post ++ [sg, h1, h2, 58, m1, m2], hdig c0 (by rw [hD]; simp), by simp⟩
    · exact ⟨numText F itL ++ [sg, h1, h2, 58, m1], by simp⟩
  | it :: r, h7, hgood => by
    have h7i := h7 it (by simp)
    obtain ⟨hl2, hdig, _, _⟩ := numText_spec F hF it h7i
    obtain ⟨ih1, _, ⟨pre, hlast⟩⟩ := textZ_shape F hF itL h7L sg h1 h2 m1 m2 hsg hd1 hd2 hd3 hd4 r
      (fun i hi => h7 i (List.mem_cons_of_mem _ hi)) (fun i hi => hgood i (List.mem_cons_of_mem _ hi))
    obtain ⟨a, hsa, _, ha128, hsep2⟩ := hgood it (by simp)
    have hsepA : Ascii it.sepText := by
      intro x hx
      unfold Item.sepText at hx
      rcases hsep2 with hs2 | ⟨b, hs2, _, hb128⟩
      · rw [hsa, hs2] at hx; simp at hx; omega
      · rw [hsa, hs2] at hx; simp at hx; omega
    simp only [textZ]
    refine ⟨?_, ?_, ?_⟩
    · intro x hx
      simp only [List.mem_append] at hx
      rcases hx with (hx | hx) | hx
      · exact numText_ascii F hF it h7i x hx
      · exact hsepA x hx
      · exact ih1 x hx
    · cases hD : numText F it with
      | nil => rw [hD] at hl2; simp at hl2
      | cons c0 post =>
        exact ⟨c0, post ++ (it.sepText ++ textZ F itL [sg, h1, h2, 58, m1, m2] r), hdig c0 (by rw [hD]; simp), by simp⟩
    · exact ⟨numText F it ++ it.sepText ++ pre, by rw [hlast]; simp [List.append_assoc]⟩

/-- PARSE BACK with a time-zone offset (the layout of RFC 3339).  `f`: numeric items with separators as in
    `parse_back_num7`, then a last numeric item WITHOUT separator, then a final non-optional `%z`; all seven
    numeric tokens present.  `e`: any canonical UTC epoch in range, `off`: any canonical offset of whole
    minutes within ±23:59 such that the shifted epoch is in range with year 0000–9999.  Then
    `Formatter::with_timezone(e, off, f)` prints a text that `f.parse` reads back as exactly `e`. -/
theorem parse_back_numZ (O : Oracles) (f : Format) (e : Ep) (off : Dur) (hutc : e.ts = TS.UTC)
    (hd : e.dur.Canon) (hre : Cal.InCal e.dur.val)
    (hoc : off.Canon) (hom : off.val % 60000000000 = 0) (hor : -86400000000000 < off.val ∧ off.val < 86400000000000)
    (hr : Cal.InCal (e.add off).dur.val)
    (hy : ∀ y mo dd h mi s ns, Cal.computeGregorian (e.add off).dur e.ts = .ok (y, mo, dd, h, mi, s, ns) → 0 ≤ y ∧ y ≤ 9999)
    (nums : List Item) (itL itZ : Item) (hitems : f.items = nums ++ [itL, itZ]) (h16 : f.items.length ≤ 16)
    (h7 : ∀ it ∈ nums, isNum7 it.token = true ∧ it.optional = false) (hgood : ∀ it ∈ nums, GoodSep it)
    (h7L : isNum7 itL.token = true) (hLopt : itL.optional = false) (hLs1 : itL.sep1 = none) (hLs2 : itL.sep2 = none)
    (hZ : itZ.token = .OffsetHours) (hZopt : itZ.optional = false)
    (hfull : ∀ t, isNum7 t = true → t ∈ (nums ++ [itL]).map (·.token)) :
    ∃ text, formatterOutput O f e (some off) = .ok text ∧ formatParse O f text = .ok e := by
  -- the shifted epoch
  have hrange := canon_range e.dur hd
  unfold DMIN DMAX at hrange; simp only [NPCs_eq] at hrange
  unfold Cal.InCal at hre
  have hsh := Cal.add_val e.dur off hd hoc (by unfold Cal.InR; omega)
  have hshd : (e.add off).dur = Dur.add e.dur off := rfl
  have hsts : (e.add off).ts = e.ts := rfl
  rw [hshd] at hr hy
  -- its fields
  obtain ⟨y, mo, dd, h, mi, s, ns, hg, hmfg⟩ := Cal.from_compute (Dur.add e.dur off) e.ts hsh.1 hr
  obtain ⟨y', mo', dd', h', mi', s', ns', hg', hval, _, _, a1, a2, a3, a4, a5, a6, a7, a8, _⟩ :=
    Cal.computeGregorian_spec (Dur.add e.dur off) e.ts hsh.1 hr
  rw [hg] at hg'
  simp only [Res.ok.injEq, Prod.mk.injEq] at hg'
  obtain ⟨rfl, rfl, rfl, rfl, rfl, rfl, rfl⟩ := hg'
  have hyr := hy y mo dd h mi s ns hg
  have hv' := (Cal.validDate_iff _).mp hval
  simp only at hv'
  have hml := Cal.monthLen_range y mo hv'.1 hv'.2.1
  have hF : (Flds.mk y mo dd h mi s ns).InRange := by
    unfold Flds.InRange; simp only; omega
  -- the offset text
  obtain ⟨hh, mm, hh0, hh1, mm0, mm1, habs, hzt⟩ := offsetText_shape off hoc hom hor
  obtain ⟨h1, h2, hfh, hdh1, hdh2, hlh⟩ := two_digits hh ⟨hh0, by omega⟩
  obtain ⟨m1, m2, hfm, hdm1, hdm2, hlm⟩ := two_digits mm ⟨mm0, by omega⟩
  obtain ⟨sg, hsgv, hsg⟩ : ∃ sg : Nat, (if off.val < 0 then [45] else [43]) = [sg] ∧ (sg = 45 ↔ off.val < 0) := by
    by_cases hn : off.val < 0
    · exact ⟨45, by rw [if_pos hn], by simp [hn]⟩
    · exact ⟨43, by rw [if_neg hn], by simp [hn]⟩
  have hsg' : sg = 43 ∨ sg = 45 := by
    by_cases hn : off.val < 0
    · rw [if_pos hn] at hsgv; simp at hsgv; omega
    · rw [if_neg hn] at hsgv; simp at hsgv; omega
  rw [hsgv, hfh, hfm] at hzt
  simp only [List.cons_append, List.nil_append] at hzt
  -- the formatter's text
  obtain ⟨_, _, _, _, _, _, _, hdoyex⟩ := dayOfYearInt_spec (e.add off) hsh.1 hr
  obtain ⟨doy, hdoy⟩ : ∃ doy, dayOfYearInt (e.add off) = .ok doy := ⟨_, hdoyex.2⟩
  have hfne : f.items ≠ [] := by rw [hitems]; simp
  have htext := formatterFmt_concat O f (e.add off) off y mo dd h mi s ns _ doy hfne
    (fun it hi => by
      rw [hitems] at hi
      rcases List.mem_append.mp hi with hi | hi
      · exact ⟨num7_supported _ (h7 it hi).1, (h7 it hi).2⟩
      · simp at hi
        rcases hi with hi | hi
        · subst hi; exact ⟨num7_supported _ h7L, hLopt⟩
        · subst hi; exact ⟨by rw [hZ]; rfl, hZopt⟩) hg hzt hdoy
  have hLst : itL.sepText = [] := by unfold Item.sepText; rw [hLs1, hLs2]; rfl
  have hcc := textZ_eq_concat ⟨y, mo, dd, h, mi, s, ns⟩ itL itZ [sg, h1, h2, 58, m1, m2]
    (fun it => tokBytes it.token y mo dd h mi s ns (e.add off) [sg, h1, h2, 58, m1, m2] doy)
    (tokBytes_num7 itL.token h7L _ _ _ _ _ _ _ _ _ _ _ _ _) (by simp only [hZ, tokBytes]) hLst nums
    (fun it hi => tokBytes_num7 it.token (h7 it hi).1 _ _ _ _ _ _ _ _ _ _ _ _ _)
  rw [hitems, hcc] at htext
  refine ⟨textZ ⟨y, mo, dd, h, mi, s, ns⟩ itL [sg, h1, h2, 58, m1, m2] nums, ?_, ?_⟩
  · unfold formatterOutput; exact htext
  -- the text is ASCII and is not changed by `trim`
  obtain ⟨hasc, ⟨c0, post, hc0, hfirst⟩, ⟨pre, hlastc⟩⟩ :=
    textZ_shape ⟨y, mo, dd, h, mi, s, ns⟩ hF itL h7L sg h1 h2 m1 m2 hsg' hdh1 hdh2 hdm1 hdm2 nums
      (fun it hi => (h7 it hi).1) hgood
  have htrim : trim (textZ ⟨y, mo, dd, h, mi, s, ns⟩ itL [sg, h1, h2, 58, m1, m2] nums) =
      textZ ⟨y, mo, dd, h, mi, s, ns⟩ itL [sg, h1, h2, 58, m1, m2] nums := by
    apply trim_id
    · intro c hc; rw [hfirst] at hc; simp at hc; subst hc; exact digit_not_ws _ hc0
    · intro c hc; rw [hlastc] at hc; simp at hc; subst hc; exact digit_not_ws _ hdm2
  -- the loop
  obtain ⟨it0, rest0, hhead⟩ : ∃ it0 rest0, f.items = it0 :: rest0 ∧ (nums ++ [itL]).head? = some it0 := by
    cases hn : nums with
    | nil => exact ⟨itL, [itZ], by rw [hitems, hn]; simp, by simp⟩
    | cons a r => exact ⟨a, r ++ [itL, itZ], by rw [hitems, hn]; simp, by simp⟩
  unfold formatParse
  rw [hhead.1]
  simp only
  rw [htrim, byteLen_ascii _ hasc]
  obtain ⟨st', hl, hdat⟩ := loop_numsZ O f ⟨y, mo, dd, h, mi, s, ns⟩ hF
    (textZ ⟨y, mo, dd, h, mi, s, ns⟩ itL [sg, h1, h2, 58, m1, m2] nums) h16 itL itZ sg h1 h2 m1 m2 hh mm h7L hLs1 hZ hsg'
    hdh1 hdh2 hdm1 hdm2 hlh ⟨hh0, hh1⟩ hlm ⟨mm0, mm1⟩ nums [] [] (St.init it0) (by simp [hitems])
    (fun it hi => (h7 it hi).1) hgood (by simp) (by intro c hc; simp at hc) rfl
    (by intro i hi; rw [hhead.2] at hi; simp at hi; subst hi; exact ⟨rfl, rfl⟩) rfl
  simp only [List.length_nil] at hl
  rw [hl]
  simp only
  rw [foldFlds_data_eq] at hdat
  rw [if_pos (hfull .Year rfl), if_pos (hfull .Month rfl), if_pos (hfull .Day rfl), if_pos (hfull .Hour rfl),
    if_pos (hfull .Minute rfl), if_pos (hfull .Second rfl), if_pos (hfull .Subsecond rfl)] at hdat
  have hfin : finish f st' = finish f ⟨y, mo, dd, h, mi, s, ns, hh, mm, TS.UTC, decide (sg = 45), none, none, 0, 0, it0, it0.token, it0⟩ :=
    finish_data f _ _ (by rw [hdat]; simp [zData, St.data, St.init])
  rw [hfin]
  unfold finish buildEpoch
  simp only
  have u1 : toU8 mo = some mo := by unfold toU8; rw [if_pos (by omega)]
  have u2 : toU8 dd = some dd := by unfold toU8; rw [if_pos (by omega)]
  have u3 : toU8 h = some h := by unfold toU8; rw [if_pos (by omega)]
  have u4 : toU8 mi = some mi := by unfold toU8; rw [if_pos (by omega)]
  have u5 : toU8 s = some s := by unfold toU8; rw [if_pos (by omega)]
  have u6 : toU32 ns = some ns := by unfold toU32; rw [if_pos (by omega)]
  rw [u1, u2, u3, u4, u5, u6]
  simp only
  rw [← hutc, hmfg]
  simp only [Bool.false_eq_true, if_false]
  -- the time zone correction
  have t1 := Cal.unitMul_val Cal.NPH hh (by right; right; right; left; rfl) (by omega)
  have t2 := Cal.unitMul_val Cal.NPMIN mm (by right; right; left; rfl) (by omega)
  have hN1 : Cal.NPH = 3600000000000 := rfl
  have hN2 : Cal.NPMIN = 60000000000 := rfl
  rw [hN1] at t1; rw [hN2] at t2
  have tz := Cal.add_val _ _ t1.1 t2.1 (by unfold Cal.InR; rw [t1.2, t2.2]; omega)
  rw [t1.2, t2.2] at tz
  rw [hN1, hN2]
  unfold Cal.InCal at hr
  by_cases hneg : off.val < 0
  · have hs45 : sg = 45 := hsg.mpr hneg
    rw [if_pos (by simp [hs45])]
    rw [if_pos hneg] at habs
    have hfinal := Cal.add_val (Dur.add e.dur off) _ hsh.1 tz.1 (by unfold Cal.InR; rw [hsh.2, tz.2]; omega)
    have : Dur.add (Dur.add e.dur off) ((Dur.unitMulI64 3600000000000 hh).add (Dur.unitMulI64 60000000000 mm)) = e.dur :=
      canon_unique _ _ hfinal.1 hd (by rw [hfinal.2, hsh.2, tz.2]; omega)
    rw [this]
  · have hs45 : ¬ sg = 45 := fun h => hneg (hsg.mp h)
    rw [if_neg (by simp [hs45])]
    rw [if_neg hneg] at habs
    obtain ⟨r, hr1, hr2, hr3⟩ := neg_spec _ tz.1
    rw [hr1]
    simp only
    rw [tz.2, clampD_mid (by omega) (by omega)] at hr3
    have hfinal := Cal.add_val (Dur.add e.dur off) r hsh.1 hr2 (by unfold Cal.InR; rw [hsh.2, hr3]; omega)
    have : Dur.add (Dur.add e.dur off) r = e.dur :=
      canon_unique _ _ hfinal.1 hd (by rw [hfinal.2, hsh.2, hr3]; omega)
    rw [this]

/-- the class of `parse_back_numZ` as a decidable predicate -/
def numZClass (f : Format) : Bool :=
  decide (2 ≤ f.items.length) && decide (f.items.length ≤ 16) &&
  (match f.items.getLast? with
   | some l => l.token == .OffsetHours && !l.optional
   | none => false) &&
  (match f.items.dropLast.getLast? with
   | some l => isNum7 l.token && !l.optional && l.sep1.isNone && l.sep2.isNone
   | none => false) &&
  f.items.dropLast.dropLast.all (fun it => isNum7 it.token && !it.optional && goodSepB it) &&
  [Token.Year, .Month, .Day, .Hour, .Minute, .Second, .Subsecond].all
    (fun t => f.items.dropLast.any (fun it => it.token == t))

theorem parse_back_numZClass (O : Oracles) (f : Format) (e : Ep) (off : Dur) (hc : numZClass f = true)
    (hutc : e.ts = TS.UTC) (hd : e.dur.Canon) (hre : Cal.InCal e.dur.val)
    (hoc : off.Canon) (hom : off.val % 60000000000 = 0) (hor : -86400000000000 < off.val ∧ off.val < 86400000000000)
    (hr : Cal.InCal (e.add off).dur.val)
    (hy : ∀ y mo dd h mi s ns, Cal.computeGregorian (e.add off).dur e.ts = .ok (y, mo, dd, h, mi, s, ns) → 0 ≤ y ∧ y ≤ 9999) :
    ∃ text, formatterOutput O f e (some off) = .ok text ∧ formatParse O f text = .ok e := by
  unfold numZClass at hc
  simp only [Bool.and_eq_true, List.all_eq_true, decide_eq_true_eq] at hc
  obtain ⟨⟨⟨⟨⟨h1, h2⟩, h3⟩, h4⟩, h5⟩, h6⟩ := hc
  have hne : f.items ≠ [] := by intro h; rw [h] at h1; simp at h1
  obtain ⟨front, itZ, hitems⟩ := exists_snoc f.items hne
  have hfne : front ≠ [] := by intro h; rw [hitems, h] at h1; simp at h1
  obtain ⟨nums, itL, hfront⟩ := exists_snoc front hfne
  have hdl : f.items.dropLast = nums ++ [itL] := by rw [hitems, hfront]; simp
  have hgl : f.items.getLast? = some itZ := by rw [hitems]; simp
  rw [hgl] at h3
  rw [hdl] at h4 h5 h6
  have hdl2 : (nums ++ [itL]).dropLast = nums := by simp
  have hgl2 : (nums ++ [itL]).getLast? = some itL := by simp
  rw [hgl2] at h4
  rw [hdl2] at h5
  simp only [Bool.and_eq_true, beq_iff_eq, Option.isNone_iff_eq_none, Bool.not_eq_true'] at h3 h4
  apply parse_back_numZ O f e off hutc hd hre hoc hom hor hr hy nums itL itZ (by rw [hitems, hfront]; simp) h2
  · intro it hi
    have := h5 it hi
    exact ⟨this.1.1, by simpa using this.1.2⟩
  · intro it hi
    exact goodSepB_iff it (h5 it hi).2
  · exact h4.1.1.1
  · exact h4.1.1.2
  · exact h4.1.2
  · exact h4.2
  · exact h3.1
  · exact h3.2
  · intro t ht
    have : t ∈ [Token.Year, .Month, .Day, .Hour, .Minute, .Second, .Subsecond] := by
      cases t <;> simp [isNum7] at ht <;> simp
    have := h6 t this
    simp only [List.any_eq_true, beq_iff_eq] at this
    obtain ⟨it, hi, he⟩ := this
    exact List.mem_map.mpr ⟨it, hi, he⟩

/-! ### what `Format::parse` answers on ANY printed fields (numeric class): accept / reject -/

/-- the fields with those `value_ok` refuses set to zero (a device of the proof: the items in front of the
    first refused field are read as if every field were storable) -/
def Flds.fix (F : Flds) : Flds :=
  ⟨F.y, if F.mo > 13 then 0 else F.mo, if F.d > 31 then 0 else F.d, if F.h > 23 then 0 else F.h,
   if F.mi > 59 then 0 else F.mi, if F.s > 60 then 0 else F.s, F.ns⟩

theorem Flds.fix_inRange (F : Flds) (hP : F.Printable) : F.fix.InRange := by
  unfold Flds.Printable at hP
  unfold Flds.InRange Flds.fix
  simp only
  refine ⟨by omega, by omega, ?_, ?_, ?_, ?_, ?_, ?_, ?_, ?_, ?_, ?_, by omega, by omega⟩ <;> split <;> omega

theorem numText_fix (F : Flds) (it : Item) (h7 : isNum7 it.token = true) (hb : F.bad it.token = false) :
    numText F.fix it = numText F it := by
  unfold numText Flds.fix
  cases ht : it.token <;> simp [isNum7, ht] at h7 <;> simp [Flds.bad, ht] at hb <;>
    first | rfl | (simp only [tokBytes]; rw [if_neg (by omega)])

/-- a field `value_ok` refuses anywhere in the remaining items: the loop ends in an error -/
theorem loop_num7_err (O : Oracles) (f : Format) (F : Flds) (hP : F.Printable) (s : List Nat)
    (h16 : f.items.length ≤ 16) :
    ∀ (rem done : List Item) (pre : List Nat) (st : St),
      f.items = done ++ rem → (∀ it ∈ rem, isNum7 it.token = true) →
      (∀ it ∈ rem.dropLast, GoodSep it) →
      s = pre ++ concatItems (numText F) rem → Ascii pre →
      st.curIdx = done.length → (∀ it, rem.head? = some it → st.cur = it ∧ st.tok = it.token) →
      st.prevIdx = pre.length → (∃ it ∈ rem, F.bad it.token = true) →
      parseLoop O f s s.length (concatItems (numText F) rem) pre.length st = .err
  | [], _, _, _, _, _, _, _, _, _, _, _, hbad => by obtain ⟨it, hi, _⟩ := hbad; simp at hi
  | [it], done, pre, st, hf, h7, _, hs, hpre, hci, hcur, hprev, hbad => by
    obtain ⟨it', hi, hb⟩ := hbad
    simp at hi; subst hi
    have h7i := h7 it' (by simp)
    obtain ⟨hl2, hdig⟩ := numText_digits F hP it' h7i
    obtain ⟨hc1, hc2⟩ := hcur it' rfl
    simp only [concatItems] at hs ⊢
    obtain ⟨D', c, hD⟩ := exists_snoc (numText F it') (by intro h; rw [h] at hl2; simp at hl2)
    have hDl : (numText F it').length = D'.length + 1 := by rw [hD]; simp
    have hD'ne : D' ≠ [] := by intro h; rw [h] at hDl; simp at hDl; omega
    have hslen : s.length = pre.length + D'.length + 1 := by rw [hs]; simp only [List.length_append]; omega
    have hstep := step_last_err O f s s.length c (pre.length + D'.length) st F it' pre D' (by rw [hs]; simp) hpre hP hb
      hD hD'ne hc1 hc2 hprev rfl hslen
    rw [hD, scan_digits O f s s.length _ _ pre.length st (by rw [hc2]; exact (num7_facts _ h7i).1)
      (fun x hx => hdig x (by rw [hD]; simp [hx])) (by omega)]
    simp only [parseLoop]
    rw [hstep]
  | it :: it2 :: rest, done, pre, st, hf, h7, hgood, hs, hpre, hci, hcur, hprev, hbad => by
    obtain ⟨hc1, hc2⟩ := hcur it rfl
    have h7i := h7 it (by simp)
    simp only [concatItems] at hs ⊢
    by_cases hb : F.bad it.token = true
    · -- the field of this item is refused at its first separator
      obtain ⟨hl2, hdig⟩ := numText_digits F hP it h7i
      obtain ⟨a, hsa, hna, ha128, hsep2⟩ := hgood it (by simp [List.dropLast])
      have hnext : f.items[st.curIdx + 1]? = some it2 := by rw [hf, hci]; simp
      have hlen : st.curIdx + 1 < f.items.length := by rw [hf, hci]; simp
      have hsepT : ∃ t, it.sepText = a :: t := by
        unfold Item.sepText; rw [hsa]; exact ⟨_, rfl⟩
      obtain ⟨t, ht⟩ := hsepT
      rw [ht] at hs ⊢
      have hslen : pre.length + (numText F it).length < s.length := by
        rw [hs]; simp only [List.length_append, List.length_cons]; omega
      have hstep := step_sep1_err O f s s.length a (pre.length + (numText F it).length) st F it it2 pre
        (a :: t ++ concatItems (numText F) (it2 :: rest)) (by rw [hs]; simp [List.append_assoc]) hpre hP hb hc1 hc2
        hprev rfl hsa hna hnext hlen h16
      rw [List.append_assoc, scan_digits O f s s.length _ _ pre.length st (by rw [hc2]; exact (num7_facts _ h7i).1) hdig hslen]
      simp only [List.cons_append, parseLoop]
      rw [hstep]
    · -- this item is stored; the refused field comes later
      have hb' : F.bad it.token = false := by simpa using hb
      have hfx := numText_fix F it h7i hb'
      obtain ⟨st1, hl1, _, hci1, hcur1, htok1, hprev1, hasc1⟩ :=
        item_mid O f F.fix (F.fix_inRange hP) s h16 it it2 done rest pre (concatItems (numText F) (it2 :: rest)) st hf
          h7i (h7 it2 (by simp)) (hgood it (by simp [List.dropLast])) (by rw [hfx]; exact hs) hpre hci hc1 hc2 hprev
      rw [hfx] at hl1 hprev1 hasc1
      rw [hl1]
      exact loop_num7_err O f F hP s h16 (it2 :: rest) (done ++ [it]) (pre ++ numText F it ++ it.sepText) st1
        (by rw [hf]; simp) (fun i hi => h7 i (List.mem_cons_of_mem _ hi)) (fun i hi => hgood i (List.mem_cons_of_mem _ hi))
        (by rw [hs]; simp [List.append_assoc]) hasc1 (by rw [hci1]; simp)
        (by intro i hi; simp at hi; subst hi; exact ⟨hcur1, htok1⟩) hprev1
        (by
          obtain ⟨x, hx, hxb⟩ := hbad
          simp only [List.mem_cons] at hx
          rcases hx with rfl | hx
          · exact absurd hxb hb
          · exact ⟨x, by simpa using hx, hxb⟩)

/-- the text of printable fields is ASCII and `trim` leaves it alone -/
theorem numText_trim (F : Flds) (hP : F.Printable) (items : List Item) (hne : items ≠ [])
    (h7 : ∀ it ∈ items, isNum7 it.token = true) (hgood : ∀ it ∈ items.dropLast, GoodSep it) :
    Ascii (concatItems (numText F) items) ∧ trim (concatItems (numText F) items) = concatItems (numText F) items := by
  obtain ⟨hasc, ⟨c0, post, hc0, hfirst⟩, ⟨pre, c1, hc1, hlast⟩⟩ := concatItems_shapeP F hP items hne h7 hgood
  refine ⟨hasc, ?_⟩
  apply trim_id
  · intro c hc; rw [hfirst] at hc; simp at hc; subst hc; exact digit_not_ws _ hc0
  · intro c hc; rw [hlast] at hc; simp at hc; subst hc; exact digit_not_ws _ hc1

/-- REJECTION, first half: a printed field beyond `Token::value_ok` (month > 13, day > 31, hour > 23,
    minute > 59, second > 60) makes `Format::parse` return an error -/
theorem parse_num7_bad (O : Oracles) (f : Format) (F : Flds) (hP : F.Printable)
    (hne : f.items ≠ []) (h16 : f.items.length ≤ 16)
    (h7 : ∀ it ∈ f.items, isNum7 it.token = true) (hgood : ∀ it ∈ f.items.dropLast, GoodSep it)
    (hbad : ∃ it ∈ f.items, F.bad it.token = true) :
    formatParse O f (concatItems (numText F) f.items) = .err := by
  obtain ⟨hasc, htrim⟩ := numText_trim F hP f.items hne h7 hgood
  cases hitems : f.items with
  | nil => exact absurd hitems hne
  | cons it0 rest =>
    unfold formatParse
    rw [hitems]
    simp only
    rw [← hitems, htrim, byteLen_ascii _ hasc]
    have hl := loop_num7_err O f F hP (concatItems (numText F) f.items) h16 f.items [] [] (St.init it0)
      (by simp) h7 hgood (by simp) (by intro c hc; simp at hc) rfl
      (by intro i hi; rw [hitems] at hi; simp at hi; subst hi; exact ⟨rfl, rfl⟩) rfl hbad
    simp only [List.length_nil] at hl
    rw [hl]

/-- REJECTION, second half: when every printed field passes `value_ok`, `Format::parse` reads exactly the
    printed fields and answers what `Epoch::maybe_from_gregorian` answers on them (in UTC, zero offset) -/
theorem parse_num7_fields (O : Oracles) (f : Format) (F : Flds) (hF : F.InRange)
    (hne : f.items ≠ []) (h16 : f.items.length ≤ 16)
    (h7 : ∀ it ∈ f.items, isNum7 it.token = true) (hgood : ∀ it ∈ f.items.dropLast, GoodSep it)
    (hfull : ∀ t, isNum7 t = true → t ∈ f.items.map (·.token)) :
    formatParse O f (concatItems (numText F) f.items) =
      match Cal.maybeFromGregorian F.y F.mo F.d F.h F.mi F.s F.ns TS.UTC with
      | .ok d => .ok ⟨Dur.add d ⟨0, 0⟩, TS.UTC⟩
      | .err => .err
      | .panic => .panic := by
  obtain ⟨hasc, htrim⟩ := numText_trim F hF.printable f.items hne h7 hgood
  cases hitems : f.items with
  | nil => exact absurd hitems hne
  | cons it0 rest =>
    unfold formatParse
    rw [hitems]
    simp only
    rw [← hitems, htrim, byteLen_ascii _ hasc]
    obtain ⟨st', hl, hdat⟩ := loop_num7 O f F hF (concatItems (numText F) f.items) h16 f.items [] [] (St.init it0)
      (by simp) hne h7 hgood (by simp) (by intro c hc; simp at hc) rfl
      (by intro i hi; rw [hitems] at hi; simp at hi; subst hi; exact ⟨rfl, rfl⟩) rfl
    simp only [List.length_nil] at hl
    rw [hl]
    simp only
    rw [foldFlds_data_eq] at hdat
    rw [if_pos (hfull .Year rfl), if_pos (hfull .Month rfl), if_pos (hfull .Day rfl), if_pos (hfull .Hour rfl),
      if_pos (hfull .Minute rfl), if_pos (hfull .Second rfl), if_pos (hfull .Subsecond rfl)] at hdat
    have hfin : finish f st' = finish f ⟨F.y, F.mo, F.d, F.h, F.mi, F.s, F.ns, 0, 0, TS.UTC, false, none, none, 0, 0, it0, it0.token, it0⟩ :=
      finish_data f _ _ (by rw [hdat]; rfl)
    rw [hfin]
    unfold Flds.InRange at hF
    unfold finish buildEpoch
    simp only
    have u1 : toU8 F.mo = some F.mo := by unfold toU8; rw [if_pos (by omega)]
    have u2 : toU8 F.d = some F.d := by unfold toU8; rw [if_pos (by omega)]
    have u3 : toU8 F.h = some F.h := by unfold toU8; rw [if_pos (by omega)]
    have u4 : toU8 F.mi = some F.mi := by unfold toU8; rw [if_pos (by omega)]
    have u5 : toU8 F.s = some F.s := by unfold toU8; rw [if_pos (by omega)]
    have u6 : toU32 F.ns = some F.ns := by unfold toU32; rw [if_pos (by omega)]
    rw [u1, u2, u3, u4, u5, u6]
    simp only
    cases Cal.maybeFromGregorian F.y F.mo F.d F.h F.mi F.s F.ns TS.UTC with
    | ok d =>
      simp only [Bool.false_eq_true, if_false]
      rw [tz_zero]
    | err => rfl
    | panic => rfl

/-- `Format::parse` on printed fields IS `Epoch::maybe_from_gregorian` on those fields.  `f`: any format of the
    numeric class; the fields: ANY values the formatter's widths hold (year 0..9999, month, day, hour, minute,
    second 0..99, nanoseconds below 10⁹) — valid or not — except hour 24, which `value_ok` refuses while
    `is_gregorian_valid` lets it through (`parse_num7_hour24`).  No D10 hypothesis: 30 February of a leap year
    is accepted by both sides. -/
theorem parse_num7_is_from_gregorian (O : Oracles) (f : Format) (F : Flds) (hP : F.Printable)
    (hne : f.items ≠ []) (h16 : f.items.length ≤ 16)
    (h7 : ∀ it ∈ f.items, isNum7 it.token = true) (hgood : ∀ it ∈ f.items.dropLast, GoodSep it)
    (hfull : ∀ t, isNum7 t = true → t ∈ f.items.map (·.token)) (h24 : F.h ≠ 24) :
    formatParse O f (concatItems (numText F) f.items) =
      match Cal.maybeFromGregorian F.y F.mo F.d F.h F.mi F.s F.ns TS.UTC with
      | .ok d => .ok ⟨d, TS.UTC⟩
      | .err => .err
      | .panic => .panic := by
  have hP' := hP
  unfold Flds.Printable at hP'
  have hy : -3000000 ≤ F.y ∧ F.y ≤ 3000000 := by omega
  rw [Cal.maybeFromGregorian_eq F.y F.mo F.d F.h F.mi F.s F.ns TS.UTC hy]
  by_cases hb : ∃ it ∈ f.items, F.bad it.token = true
  · rw [parse_num7_bad O f F hP hne h16 h7 hgood hb]
    have hv : Cal.isGregorianValidCore F.y F.mo F.d F.h F.mi F.s F.ns = false := by
      cases hvc : Cal.isGregorianValidCore F.y F.mo F.d F.h F.mi F.s F.ns with
      | false => rfl
      | true =>
        exfalso
        have hr := Cal.validCore_ranges F.y F.mo F.d F.h F.mi F.s F.ns (by omega) (by omega) hvc
        obtain ⟨it, _, hbt⟩ := hb
        cases ht : it.token <;> simp [Flds.bad, ht] at hbt <;> omega
    rw [if_pos hv]
  · have hnb : ∀ t, isNum7 t = true → F.bad t = false := fun t ht => by
      obtain ⟨it, hi, he⟩ := List.mem_map.mp (hfull t ht)
      cases hbt : F.bad t with
      | false => rfl
      | true => exact absurd ⟨it, hi, by rw [he]; exact hbt⟩ hb
    have b1 := hnb .Month rfl
    have b2 := hnb .Day rfl
    have b3 := hnb .Hour rfl
    have b4 := hnb .Minute rfl
    have b5 := hnb .Second rfl
    simp only [Flds.bad, decide_eq_false_iff_not] at b1 b2 b3 b4 b5
    have hF : F.InRange := by unfold Flds.InRange; omega
    rw [parse_num7_fields O f F hF hne h16 h7 hgood hfull, Cal.maybeFromGregorian_eq F.y F.mo F.d F.h F.mi F.s F.ns TS.UTC hy]
    by_cases hv : Cal.isGregorianValidCore F.y F.mo F.d F.h F.mi F.s F.ns = false
    · rw [if_pos hv]
    · rw [if_neg hv]
      simp only
      have hvt : Cal.isGregorianValidCore F.y F.mo F.d F.h F.mi F.s F.ns = true := by
        cases h : Cal.isGregorianValidCore F.y F.mo F.d F.h F.mi F.s F.ns with
        | false => exact absurd h hv
        | true => rfl
      have hr := Cal.validCore_ranges F.y F.mo F.d F.h F.mi F.s F.ns (by omega) (by omega) hvt
      have hc := (Cal.gregFinish_val F.y F.mo F.d F.h F.mi F.s F.ns TS.UTC hy ⟨hr.1, hr.2.1⟩ ⟨hr.2.2.1, hr.2.2.2.1⟩
        (by omega) (by omega) (by omega) (by omega)).1
      rw [add_zero_canon _ hc]

/-- hour 24 (which the property leaves open) is refused by `Format::parse` -/
theorem parse_num7_hour24 (O : Oracles) (f : Format) (F : Flds) (hP : F.Printable)
    (hne : f.items ≠ []) (h16 : f.items.length ≤ 16)
    (h7 : ∀ it ∈ f.items, isNum7 it.token = true) (hgood : ∀ it ∈ f.items.dropLast, GoodSep it)
    (hfull : ∀ t, isNum7 t = true → t ∈ f.items.map (·.token)) (h24 : F.h = 24) :
    formatParse O f (concatItems (numText F) f.items) = .err := by
  apply parse_num7_bad O f F hP hne h16 h7 hgood
  obtain ⟨it, hi, he⟩ := List.mem_map.mp (hfull .Hour rfl)
  exact ⟨it, hi, by rw [he]; simp [Flds.bad, h24]⟩

/-- the hypotheses of the lemmas above from the decidable class -/
theorem numClass_hyps (f : Format) (hc : numClass f = true) :
    f.items ≠ [] ∧ f.items.length ≤ 16 ∧ (∀ it ∈ f.items, isNum7 it.token = true) ∧
    (∀ it ∈ f.items.dropLast, GoodSep it) ∧ (∀ t, isNum7 t = true → t ∈ f.items.map (·.token)) := by
  unfold numClass at hc
  simp only [Bool.and_eq_true, List.all_eq_true, decide_eq_true_eq, Bool.not_eq_true'] at hc
  obtain ⟨⟨⟨⟨h1, h2⟩, h3⟩, h4⟩, h5⟩ := hc
  refine ⟨?_, h2, fun it hi => (h3 it hi).1, fun it hi => goodSepB_iff it (h4 it hi), ?_⟩
  · intro h; rw [h] at h1; simp at h1
  · intro t ht
    have : t ∈ [Token.Year, .Month, .Day, .Hour, .Minute, .Second, .Subsecond] := by
      cases t <;> simp [isNum7] at ht <;> simp
    have := h5 t this
    simp only [List.any_eq_true, beq_iff_eq] at this
    obtain ⟨it, hi, he⟩ := this
    exact List.mem_map.mpr ⟨it, hi, he⟩

end Hifi.Efmt
