import Hifi.Model.Duration
import Hifi.Spec.Duration
/-
  Helper lemmas about the Duration model.
-/
namespace Hifi
open Spec

theorem NPC_eq : NPC = 3155760000000000000 := rfl
theorem NPCs_eq : NPCs = 3155760000000000000 := rfl

theorem clampD_lo {x : Int} (h : x ≤ -103407943680000000000000) :
    clampD x = -103407943680000000000000 := by
  unfold clampD DMIN DMAX; simp only [NPCs_eq]; grind
theorem clampD_hi {x : Int} (h : 103407943680000000000000 ≤ x) :
    clampD x = 103407943680000000000000 := by
  unfold clampD DMIN DMAX; simp only [NPCs_eq]; grind
theorem clampD_mid {x : Int} (h1 : -103407943680000000000000 ≤ x) (h2 : x ≤ 103407943680000000000000) :
    clampD x = x := by
  unfold clampD DMIN DMAX; simp only [NPCs_eq]; grind
theorem clampD_range (x : Int) :
    -103407943680000000000000 ≤ clampD x ∧ clampD x ≤ 103407943680000000000000 := by
  unfold clampD DMIN DMAX; simp only [NPCs_eq]; grind

/-- value of a model duration -/
def Dur.val (d : Dur) : Int := valP d.c d.ns

/-- canonical form as a proposition -/
def Dur.Canon (d : Dur) : Prop :=
  -32768 ≤ d.c ∧ d.c ≤ 32767 ∧ 0 ≤ d.ns ∧ (d.ns < NPC ∨ (d.c = 32767 ∧ d.ns = NPC))

/-- what a constructor may be handed: any i16 and any u64 -/
def Dur.Raw (d : Dur) : Prop :=
  -32768 ≤ d.c ∧ d.c ≤ 32767 ∧ 0 ≤ d.ns ∧ d.ns ≤ 18446744073709551615

theorem normalize_spec (d : Dur) (h : d.Raw) :
    (Dur.normalize d).Canon ∧ (Dur.normalize d).val = clampD d.val := by
  obtain ⟨h1, h2, h3, h4⟩ := h
  unfold Dur.normalize Dur.Canon Dur.val valP clampD DMIN DMAX Dur.eqb Dur.MAX Dur.MIN fitsI16 U64MAX
  simp only [NPC_eq, NPCs_eq]
  grind

theorem canon_raw {d : Dur} (h : d.Canon) : d.Raw := by
  unfold Dur.Canon at h; unfold Dur.Raw; simp only [NPC_eq] at h; omega

theorem normalize_of_canon (d : Dur) (h : d.Canon) : Dur.normalize d = d := by
  obtain ⟨h1, h2, h3, h4⟩ := h
  unfold Dur.normalize Dur.eqb Dur.MAX Dur.MIN fitsI16 U64MAX
  simp only [NPC_eq] at *
  cases d with | mk c ns => grind

theorem fromParts_spec (c ns : Int) (h : (Dur.mk c ns).Raw) :
    (Dur.fromParts c ns).Canon ∧ (Dur.fromParts c ns).val = clampD (valP c ns) :=
  normalize_spec ⟨c, ns⟩ h

theorem add_spec (a b : Dur) (ha : a.Canon) (hb : b.Canon) :
    (Dur.add a b).Canon ∧ (Dur.add a b).val = clampD (a.val + b.val) := by
  unfold Dur.add
  rw [normalize_of_canon a ha, normalize_of_canon b hb]
  unfold Dur.addCore
  obtain ⟨a1, a2, a3, a4⟩ := ha
  obtain ⟨b1, b2, b3, b4⟩ := hb
  simp only [NPC_eq] at a4 b4
  have hu : ¬ (a.ns + b.ns > U64MAX) := by unfold U64MAX; omega
  rw [if_neg hu]
  by_cases h1 : fitsI16 (a.c + b.c) = true
  · rw [if_pos h1]
    unfold fitsI16 at h1; simp only [decide_eq_true_eq] at h1
    have hn := normalize_spec ⟨a.c + b.c, a.ns + b.ns⟩ (by unfold Dur.Raw; simp only; omega)
    refine ⟨hn.1, ?_⟩
    rw [hn.2]; unfold Dur.val valP; simp only; congr 1; simp only [NPCs_eq]; omega
  · rw [if_neg h1]
    unfold fitsI16 at h1; simp only [decide_eq_true_eq] at h1
    by_cases h2 : a.c < 0
    · rw [if_pos h2]
      by_cases h3 : a.c + b.c = -32769 ∧ a.ns + b.ns ≥ NPC
      · rw [if_pos h3]
        simp only [NPC_eq] at h3 ⊢
        have hp := fromParts_spec (-32768) (a.ns + b.ns - 3155760000000000000) (by unfold Dur.Raw; simp only; omega)
        refine ⟨hp.1, ?_⟩
        rw [hp.2]; unfold Dur.val valP; congr 1; simp only [NPCs_eq]; omega
      · rw [if_neg h3]
        simp only [NPC_eq] at h3
        rw [clampD_lo (by unfold Dur.val valP; simp only [NPCs_eq]; omega)]
        unfold Dur.MIN Dur.Canon Dur.val valP
        simp only [NPC_eq, NPCs_eq]
        grind
    · rw [if_neg h2]
      rw [clampD_hi (by unfold Dur.val valP; simp only [NPCs_eq]; omega)]
      unfold Dur.MAX Dur.Canon Dur.val valP
      simp only [NPC_eq, NPCs_eq]
      grind

theorem sub_spec (a b : Dur) (ha : a.Canon) (hb : b.Canon) :
    (Dur.sub a b).Canon ∧ (Dur.sub a b).val = clampD (a.val - b.val) := by
  unfold Dur.sub
  rw [normalize_of_canon a ha, normalize_of_canon b hb]
  unfold Dur.subCore
  obtain ⟨a1, a2, a3, a4⟩ := ha
  obtain ⟨b1, b2, b3, b4⟩ := hb
  simp only [NPC_eq] at a4 b4
  by_cases h1 : fitsI16 (a.c - b.c) = true
  · rw [if_pos h1]
    unfold fitsI16 at h1; simp only [decide_eq_true_eq] at h1
    by_cases h2 : a.ns < b.ns
    · rw [if_pos h2]
      by_cases h3 : fitsI16 (a.c - b.c - 1) = true
      · rw [if_pos h3]
        unfold fitsI16 at h3; simp only [decide_eq_true_eq] at h3
        simp only [NPC_eq]
        have hn := normalize_spec ⟨a.c - b.c - 1, a.ns + (3155760000000000000 - b.ns)⟩
          (by unfold Dur.Raw; simp only; omega)
        refine ⟨hn.1, ?_⟩
        rw [hn.2]; unfold Dur.val valP; simp only; congr 1; simp only [NPCs_eq]; omega
      · rw [if_neg h3]
        unfold fitsI16 at h3; simp only [decide_eq_true_eq] at h3
        rw [clampD_lo (by unfold Dur.val valP; simp only [NPCs_eq]; omega)]
        unfold Dur.MIN Dur.Canon Dur.val valP
        simp only [NPC_eq, NPCs_eq]
        grind
    · rw [if_neg h2]
      have hn := normalize_spec ⟨a.c - b.c, a.ns - b.ns⟩ (by unfold Dur.Raw; simp only; omega)
      refine ⟨hn.1, ?_⟩
      rw [hn.2]; unfold Dur.val valP; simp only; congr 1; simp only [NPCs_eq]; omega
  · rw [if_neg h1]
    unfold fitsI16 at h1; simp only [decide_eq_true_eq] at h1
    by_cases h2 : b.c < 0
    · rw [if_pos h2]
      by_cases h3 : a.c - b.c = 32768 ∧ a.ns < b.ns
      · rw [if_pos h3]
        simp only [NPC_eq]
        have hp := fromParts_spec 32767 (a.ns + (3155760000000000000 - b.ns))
          (by unfold Dur.Raw; simp only; omega)
        refine ⟨hp.1, ?_⟩
        rw [hp.2]; unfold Dur.val valP; congr 1; simp only [NPCs_eq]; omega
      · rw [if_neg h3]
        rw [clampD_hi (by unfold Dur.val valP; simp only [NPCs_eq]; omega)]
        unfold Dur.MAX Dur.Canon Dur.val valP
        simp only [NPC_eq, NPCs_eq]
        grind
    · rw [if_neg h2]
      rw [clampD_lo (by unfold Dur.val valP; simp only [NPCs_eq]; omega)]
      unfold Dur.MIN Dur.Canon Dur.val valP
      simp only [NPC_eq, NPCs_eq]
      grind

theorem eqb_MIN (d : Dur) (h : d.Canon) : Dur.eqb d Dur.MIN = true ↔ d = Dur.MIN := by
  obtain ⟨h1, h2, h3, h4⟩ := h
  unfold Dur.eqb Dur.MIN
  simp only [NPC_eq] at *
  cases d with | mk c ns => grind

theorem eqb_MAX (d : Dur) (h : d.Canon) : Dur.eqb d Dur.MAX = true ↔ d = Dur.MAX := by
  obtain ⟨h1, h2, h3, h4⟩ := h
  unfold Dur.eqb Dur.MAX
  simp only [NPC_eq] at *
  cases d with | mk c ns => grind

theorem neg_spec (d : Dur) (h : d.Canon) :
    ∃ r, Dur.neg d = .ok r ∧ r.Canon ∧ r.val = clampD (-d.val) := by
  have hmin := eqb_MIN d h
  have hmax := eqb_MAX d h
  obtain ⟨h1, h2, h3, h4⟩ := h
  simp only [NPC_eq] at h4
  unfold Dur.neg
  by_cases e1 : Dur.eqb d Dur.MIN = true
  · rw [if_pos e1]
    have := hmin.mp e1; subst this
    refine ⟨_, rfl, ?_, ?_⟩
    · unfold Dur.MAX Dur.Canon; simp only [NPC_eq]; grind
    · rw [clampD_hi (by unfold Dur.val valP Dur.MIN; simp only [NPCs_eq]; omega)]
      unfold Dur.MAX Dur.val valP; simp only [NPC_eq, NPCs_eq]; omega
  · rw [if_neg e1]
    by_cases e2 : Dur.eqb d Dur.MAX = true
    · rw [if_pos e2]
      have := hmax.mp e2; subst this
      refine ⟨_, rfl, ?_, ?_⟩
      · unfold Dur.MIN Dur.Canon; simp only [NPC_eq]; grind
      · rw [clampD_lo (by unfold Dur.val valP Dur.MAX; simp only [NPC_eq, NPCs_eq]; omega)]
        unfold Dur.MIN Dur.val valP; simp only [NPCs_eq]; omega
    · rw [if_neg e2]
      have n1 : d ≠ Dur.MIN := fun e => e1 (hmin.mpr e)
      have n2 : d ≠ Dur.MAX := fun e => e2 (hmax.mpr e)
      have hns : d.ns < 3155760000000000000 := by
        rcases h4 with h4 | ⟨h4, h5⟩
        · exact h4
        · exfalso; apply n2; cases d; unfold Dur.MAX; simp only [NPC_eq] at *; simp_all
      have hle : d.ns ≤ NPC := by simp only [NPC_eq]; omega
      rw [if_pos hle]
      have hf : fitsI16 (-1 - d.c) = true := by unfold fitsI16; simp only [decide_eq_true_eq]; omega
      rw [if_pos hf]
      simp only [NPC_eq]
      have hp := fromParts_spec (-1 - d.c) (3155760000000000000 - d.ns) (by unfold Dur.Raw; simp only; omega)
      refine ⟨_, rfl, hp.1, ?_⟩
      rw [hp.2]; unfold Dur.val valP; congr 1; simp only [NPCs_eq]; omega

theorem abs_spec (d : Dur) (h : d.Canon) :
    ∃ r, Dur.abs d = .ok r ∧ r.Canon ∧ r.val = clampD (if d.val < 0 then -d.val else d.val) := by
  unfold Dur.abs
  have hh := h
  obtain ⟨h1, h2, h3, h4⟩ := h
  simp only [NPC_eq] at h4
  by_cases hc : d.c < 0
  · rw [if_pos hc]
    have hv : d.val < 0 := by unfold Dur.val valP; simp only [NPCs_eq]; omega
    rw [if_pos hv]
    exact neg_spec d hh
  · rw [if_neg hc]
    have hv : ¬ d.val < 0 := by unfold Dur.val valP; simp only [NPCs_eq]; omega
    rw [if_neg hv]
    refine ⟨d, rfl, hh, ?_⟩
    rw [clampD_mid] <;> (unfold Dur.val valP; simp only [NPCs_eq]; omega)

theorem fromTotal_spec (n : Int) :
    (Dur.fromTotal n).Canon ∧ (Dur.fromTotal n).val = clampD n := by
  unfold Dur.fromTotal
  simp only [NPC_eq]
  by_cases h0 : n = 0
  · rw [if_pos h0]; subst h0
    rw [clampD_mid (by omega) (by omega)]
    unfold Dur.ZERO Dur.Canon Dur.val valP; simp only [NPC_eq, NPCs_eq]; grind
  · rw [if_neg h0]
    by_cases h1 : n / 3155760000000000000 > 32767
    · rw [if_pos h1]
      rw [clampD_hi (by omega)]
      unfold Dur.MAX Dur.Canon Dur.val valP; simp only [NPC_eq, NPCs_eq]; grind
    · rw [if_neg h1]
      by_cases h2 : n / 3155760000000000000 < -32768
      · rw [if_pos h2]
        rw [clampD_lo (by omega)]
        unfold Dur.MIN Dur.Canon Dur.val valP; simp only [NPC_eq, NPCs_eq]; grind
      · rw [if_neg h2]
        have hp := fromParts_spec (n / 3155760000000000000) (n % 3155760000000000000)
          (by unfold Dur.Raw; simp only; omega)
        refine ⟨hp.1, ?_⟩
        rw [hp.2]; unfold valP; congr 1; simp only [NPCs_eq]; omega

theorem fromTruncated_spec (n : Int) (h : fitsI64 n = true) :
    (Dur.fromTruncated n).Canon ∧ (Dur.fromTruncated n).val = n := by
  unfold fitsI64 at h; simp only [decide_eq_true_eq] at h
  unfold Dur.fromTruncated
  simp only [NPC_eq]
  by_cases h0 : n < 0
  · rw [if_pos h0]
    have hp := fromParts_spec (-1 - -n / 3155760000000000000) (3155760000000000000 - -n % 3155760000000000000)
      (by unfold Dur.Raw; simp only; omega)
    refine ⟨hp.1, ?_⟩
    rw [hp.2, clampD_mid] <;> (unfold valP; simp only [NPCs_eq]; omega)
  · rw [if_neg h0]
    have hp := fromParts_spec 0 n (by unfold Dur.Raw; simp only; omega)
    refine ⟨hp.1, ?_⟩
    rw [hp.2, clampD_mid] <;> (unfold valP; simp only [NPCs_eq]; omega)

theorem totalNs_spec (d : Dur) (h : d.Canon) (hd : Dur.d1class d = false) :
    Dur.totalNs d = d.val := by
  obtain ⟨h1, h2, h3, h4⟩ := h
  unfold Dur.d1class at hd; simp only [decide_eq_false_iff_not] at hd
  unfold Dur.totalNs Dur.val valP
  simp only [NPC_eq, NPCs_eq] at *
  grind

theorem clampD_satI128 (x : Int) : clampD (satI128 x) = clampD x := by
  unfold satI128 clampD DMIN DMAX; simp only [NPCs_eq]; grind

end Hifi
