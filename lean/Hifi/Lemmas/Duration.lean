import Hifi.Model.Duration
import Hifi.Spec.Duration
/-
  Helper lemmas about the Duration model.
-/
namespace Hifi
open Spec

theorem NPC_eq : NPC = 3155760000000000000 := rfl
theorem NPCs_eq : NPCs = 3155760000000000000 := rfl

theorem clampD_lo {x : Int} (h : x ≤ -103407943680000000000000) :
    clampD x = -103407943680000000000000 := by
  unfold clampD DMIN DMAX; simp only [NPCs_eq]; grind
theorem clampD_hi {x : Int} (h : 103407943680000000000000 ≤ x) :
    clampD x = 103407943680000000000000 := by
  unfold clampD DMIN DMAX; simp only [NPCs_eq]; grind
theorem clampD_mid {x : Int} (h1 : -103407943680000000000000 ≤ x) (h2 : x ≤ 103407943680000000000000) :
    clampD x = x := by
  unfold clampD DMIN DMAX; simp only [NPCs_eq]; grind
theorem clampD_range (x : Int) :
    -103407943680000000000000 ≤ clampD x ∧ clampD x ≤ 103407943680000000000000 := by
  unfold clampD DMIN DMAX; simp only [NPCs_eq]; grind

/-- value of a model duration -/
def Dur.val (d : Dur) : Int := valP d.c d.ns

/-- canonical form as a proposition -/
def Dur.Canon (d : Dur) : Prop :=
  -32768 ≤ d.c ∧ d.c ≤ 32767 ∧ 0 ≤ d.ns ∧ (d.ns < NPC ∨ (d.c = 32767 ∧ d.ns = NPC))

/-- what a constructor may be handed: any i16 and any u64 -/
def Dur.Raw (d : Dur) : Prop :=
  -32768 ≤ d.c ∧ d.c ≤ 32767 ∧ 0 ≤ d.ns ∧ d.ns ≤ 18446744073709551615

theorem normalize_spec (d : Dur) (h : d.Raw) :
    (Dur.normalize d).Canon ∧ (Dur.normalize d).val = clampD d.val := by
  obtain ⟨h1, h2, h3, h4⟩ := h
  unfold Dur.normalize Dur.Canon Dur.val valP clampD DMIN DMAX Dur.eqb Dur.MAX Dur.MIN fitsI16 U64MAX
  simp only [NPC_eq, NPCs_eq]
  grind

theorem canon_raw {d : Dur} (h : d.Canon) : d.Raw := by
  unfold Dur.Canon at h; unfold Dur.Raw; simp only [NPC_eq] at h; omega

theorem normalize_of_canon (d : Dur) (h : d.Canon) : Dur.normalize d = d := by
  obtain ⟨h1, h2, h3, h4⟩ := h
  unfold Dur.normalize Dur.eqb Dur.MAX Dur.MIN fitsI16 U64MAX
  simp only [NPC_eq] at *
  cases d with | mk c ns => grind

theorem fromParts_spec (c ns : Int) (h : (Dur.mk c ns).Raw) :
    (Dur.fromParts c ns).Canon ∧ (Dur.fromParts c ns).val = clampD (valP c ns) :=
  normalize_spec ⟨c, ns⟩ h

theorem add_spec (a b : Dur) (ha : a.Canon) (hb : b.Canon) :
    (Dur.add a b).Canon ∧ (Dur.add a b).val = clampD (a.val + b.val) := by
  unfold Dur.add
  rw [normalize_of_canon a ha, normalize_of_canon b hb]
  unfold Dur.addCore
  obtain ⟨a1, a2, a3, a4⟩ := ha
  obtain ⟨b1, b2, b3, b4⟩ := hb
  simp only [NPC_eq] at a4 b4
  have hu : ¬ (a.ns + b.ns > U64MAX) := by unfold U64MAX; omega
  rw [if_neg hu]
  by_cases h1 : fitsI16 (a.c + b.c) = true
  · rw [if_pos h1]
    unfold fitsI16 at h1; simp only [decide_eq_true_eq] at h1
    have hn := normalize_spec ⟨a.c + b.c, a.ns + b.ns⟩ (by unfold Dur.Raw; simp only; omega)
    refine ⟨hn.1, ?_⟩
    rw [hn.2]; unfold Dur.val valP; simp only; congr 1; simp only [NPCs_eq]; omega
  · rw [if_neg h1]
    unfold fitsI16 at h1; simp only [decide_eq_true_eq] at h1
    by_cases h2 : a.c < 0
    · rw [if_pos h2]
      by_cases h3 : a.c + b.c = -32769 ∧ a.ns + b.ns ≥ NPC
      · rw [if_pos h3]
        simp only [NPC_eq] at h3 ⊢
        have hp := fromParts_spec (-32768) (a.ns + b.ns - 3155760000000000000) (by unfold Dur.Raw; simp only; omega)
        refine ⟨hp.1, ?_⟩
        rw [hp.2]; unfold Dur.val valP; congr 1; simp only [NPCs_eq]; omega
      · rw [if_neg h3]
        simp only [NPC_eq] at h3
        rw [clampD_lo (by unfold Dur.val valP; simp only [NPCs_eq]; omega)]
        unfold Dur.MIN Dur.Canon Dur.val valP
        simp only [NPC_eq, NPCs_eq]
        grind
    · rw [if_neg h2]
      rw [clampD_hi (by unfold Dur.val valP; simp only [NPCs_eq]; omega)]
      unfold Dur.MAX Dur.Canon Dur.val valP
      simp only [NPC_eq, NPCs_eq]
      grind

theorem sub_spec (a b : Dur) (ha : a.Canon) (hb : b.Canon) :
    (Dur.sub a b).Canon ∧ (Dur.sub a b).val = clampD (a.val - b.val) := by
  unfold Dur.sub
  rw [normalize_of_canon a ha, normalize_of_canon b hb]
  unfold Dur.subCore
  obtain ⟨a1, a2, a3, a4⟩ := ha
  obtain ⟨b1, b2, b3, b4⟩ := hb
  simp only [NPC_eq] at a4 b4
  by_cases h1 : fitsI16 (a.c - b.c) = true
  · rw [if_pos h1]
    unfold fitsI16 at h1; simp only [decide_eq_true_eq] at h1
    by_cases h2 : a.ns < b.ns
    · rw [if_pos h2]
      by_cases h3 : fitsI16 (a.c - b.c - 1) = true
      · rw [if_pos h3]
        unfold fitsI16 at h3; simp only [decide_eq_true_eq] at h3
        simp only [NPC_eq]
        have hn := normalize_spec ⟨a.c - b.c - 1, a.ns + (3155760000000000000 - b.ns)⟩
          (by unfold Dur.Raw; simp only; omega)
        refine ⟨hn.1, ?_⟩
        rw [hn.2]; unfold Dur.val valP; simp only; congr 1; simp only [NPCs_eq]; omega
      · rw [if_neg h3]
        unfold fitsI16 at h3; simp only [decide_eq_true_eq] at h3
        rw [clampD_lo (by unfold Dur.val valP; simp only [NPCs_eq]; omega)]
        unfold Dur.MIN Dur.Canon Dur.val valP
        simp only [NPC_eq, NPCs_eq]
        grind
    · rw [if_neg h2]
      have hn := normalize_spec ⟨a.c - b.c, a.ns - b.ns⟩ (by unfold Dur.Raw; simp only; omega)
      refine ⟨hn.1, ?_⟩
      rw [hn.2]; unfold Dur.val valP; simp only; congr 1; simp only [NPCs_eq]; omega
  · rw [if_neg h1]
    unfold fitsI16 at h1; simp only [decide_eq_true_eq] at h1
    by_cases h2 : b.c < 0
    · rw [if_pos h2]
      by_cases h3 : a.c - b.c = 32768 ∧ a.ns < b.ns
      · rw [if_pos h3]
        simp only [NPC_eq]
        have hp := fromParts_spec 32767 (a.ns + (3155760000000000000 - b.ns))
          (by unfold Dur.Raw; simp only; omega)
        refine ⟨hp.1, ?_⟩
        rw [hp.2]; unfold Dur.val valP; congr 1; simp only [NPCs_eq]; omega
      · rw [if_neg h3]
        rw [clampD_hi (by unfold Dur.val valP; simp only [NPCs_eq]; omega)]
        unfold Dur.MAX Dur.Canon Dur.val valP
        simp only [NPC_eq, NPCs_eq]
        grind
    · rw [if_neg h2]
      rw [clampD_lo (by unfold Dur.val valP; simp only [NPCs_eq]; omega)]
      unfold Dur.MIN Dur.Canon Dur.val valP
      simp only [NPC_eq, NPCs_eq]
      grind

theorem eqb_MIN (d : Dur) (h : d.Canon) : Dur.eqb d Dur.MIN = true ↔ d = Dur.MIN := by
  obtain ⟨h1, h2, h3, h4⟩ := h
  unfold Dur.eqb Dur.MIN
  simp only [NPC_eq] at *
  cases d with | mk c ns => grind

theorem eqb_MAX (d : Dur) (h : d.Canon) : Dur.eqb d Dur.MAX = true ↔ d = Dur.MAX := by
  obtain ⟨h1, h2, h3, h4⟩ := h
  unfold Dur.eqb Dur.MAX
  simp only [NPC_eq] at *
  cases d with | mk c ns => grind

theorem neg_spec (d : Dur) (h : d.Canon) :
    ∃ r, Dur.neg d = .ok r ∧ r.Canon ∧ r.val = clampD (-d.val) := by
  have hmin := eqb_MIN d h
  have hmax := eqb_MAX d h
  obtain ⟨h1, h2, h3, h4⟩ := h
  simp only [NPC_eq] at h4
  unfold Dur.neg
  by_cases e1 : Dur.eqb d Dur.MIN = true
  · rw [if_pos e1]
    have := hmin.mp e1; subst this
    refine ⟨_, rfl, ?_, ?_⟩
    · unfold Dur.MAX Dur.Canon; simp only [NPC_eq]; grind
    · rw [clampD_hi (by unfold Dur.val valP Dur.MIN; simp only [NPCs_eq]; omega)]
      unfold Dur.MAX Dur.val valP; simp only [NPC_eq, NPCs_eq]; omega
  · rw [if_neg e1]
    by_cases e2 : Dur.eqb d Dur.MAX = true
    · rw [if_pos e2]
      have := hmax.mp e2; subst this
      refine ⟨_, rfl, ?_, ?_⟩
      · unfold Dur.MIN Dur.Canon; simp only [NPC_eq]; grind
      · rw [clampD_lo (by unfold Dur.val valP Dur.MAX; simp only [NPC_eq, NPCs_eq]; omega)]
        unfold Dur.MIN Dur.val valP; simp only [NPCs_eq]; omega
    · rw [if_neg e2]
      have n1 : d ≠ Dur.MIN := fun e => e1 (hmin.mpr e)
      have n2 : d ≠ Dur.MAX := fun e => e2 (hmax.mpr e)
      have hns : d.ns < 3155760000000000000 := by
        rcases h4 with h4 | ⟨h4, h5⟩
        · exact h4
        · exfalso; apply n2; cases d; unfold Dur.MAX; simp only [NPC_eq] at *; simp_all
      have hle : d.ns ≤ NPC := by simp only [NPC_eq]; omega
      rw [if_pos hle]
      have hf : fitsI16 (-1 - d.c) = true := by unfold fitsI16; simp only [decide_eq_true_eq]; omega
      rw [if_pos hf]
      simp only [NPC_eq]
      have hp := fromParts_spec (-1 - d.c) (3155760000000000000 - d.ns) (by unfold Dur.Raw; simp only; omega)
      refine ⟨_, rfl, hp.1, ?_⟩
      rw [hp.2]; unfold Dur.val valP; congr 1; simp only [NPCs_eq]; omega

theorem abs_spec (d : Dur) (h : d.Canon) :
    ∃ r, Dur.abs d = .ok r ∧ r.Canon ∧ r.val = clampD (if d.val < 0 then -d.val else d.val) := by
  unfold Dur.abs
  have hh := h
  obtain ⟨h1, h2, h3, h4⟩ := h
  simp only [NPC_eq] at h4
  by_cases hc : d.c < 0
  · rw [if_pos hc]
    have hv : d.val < 0 := by unfold Dur.val valP; simp only [NPCs_eq]; omega
    rw [if_pos hv]
    exact neg_spec d hh
  · rw [if_neg hc]
    have hv : ¬ d.val < 0 := by unfold Dur.val valP; simp only [NPCs_eq]; omega
    rw [if_neg hv]
    refine ⟨d, rfl, hh, ?_⟩
    rw [clampD_mid] <;> (unfold Dur.val valP; simp only [NPCs_eq]; omega)

theorem fromTotal_spec (n : Int) :
    (Dur.fromTotal n).Canon ∧ (Dur.fromTotal n).val = clampD n := by
  unfold Dur.fromTotal
  simp only [NPC_eq]
  by_cases h0 : n = 0
  · rw [if_pos h0]; subst h0
    rw [clampD_mid (by omega) (by omega)]
    unfold Dur.ZERO Dur.Canon Dur.val valP; simp only [NPC_eq, NPCs_eq]; grind
  · rw [if_neg h0]
    by_cases h1 : n / 3155760000000000000 > 32767
    · rw [if_pos h1]
      rw [clampD_hi (by omega)]
      unfold Dur.MAX Dur.Canon Dur.val valP; simp only [NPC_eq, NPCs_eq]; grind
    · rw [if_neg h1]
      by_cases h2 : n / 3155760000000000000 < -32768
      · rw [if_pos h2]
        rw [clampD_lo (by omega)]
        unfold Dur.MIN Dur.Canon Dur.val valP; simp only [NPC_eq, NPCs_eq]; grind
      · rw [if_neg h2]
        have hp := fromParts_spec (n / 3155760000000000000) (n % 3155760000000000000)
          (by unfold Dur.Raw; simp only; omega)
        refine ⟨hp.1, ?_⟩
        rw [hp.2]; unfold valP; congr 1; simp only [NPCs_eq]; omega

theorem fromTruncated_spec (n : Int) (h : fitsI64 n = true) :
    (Dur.fromTruncated n).Canon ∧ (Dur.fromTruncated n).val = n := by
  unfold fitsI64 at h; simp only [decide_eq_true_eq] at h
  unfold Dur.fromTruncated
  simp only [NPC_eq]
  by_cases h0 : n < 0
  · rw [if_pos h0]
    have hp := fromParts_spec (-1 - -n / 3155760000000000000) (3155760000000000000 - -n % 3155760000000000000)
      (by unfold Dur.Raw; simp only; omega)
    refine ⟨hp.1, ?_⟩
    rw [hp.2, clampD_mid] <;> (unfold valP; simp only [NPCs_eq]; omega)
  · rw [if_neg h0]
    have hp := fromParts_spec 0 n (by unfold Dur.Raw; simp only; omega)
    refine ⟨hp.1, ?_⟩
    rw [hp.2, clampD_mid] <;> (unfold valP; simp only [NPCs_eq]; omega)

theorem totalNs_spec (d : Dur) (h : d.Canon) (hd : Dur.d1class d = false) :
    Dur.totalNs d = d.val := by
  obtain ⟨h1, h2, h3, h4⟩ := h
  unfold Dur.d1class at hd; simp only [decide_eq_false_iff_not] at hd
  unfold Dur.totalNs Dur.val valP
  simp only [NPC_eq, NPCs_eq] at *
  grind

theorem clampD_satI128 (x : Int) : clampD (satI128 x) = clampD x := by
  unfold satI128 clampD DMIN DMAX; simp only [NPCs_eq]; grind

/-- the nine factors of `impl Mul<i64> for Unit` -/
def unitFactors : List Int :=
  [1, Gen.NANOSECONDS_PER_MICROSECOND, Gen.NANOSECONDS_PER_MILLISECOND, Gen.NANOSECONDS_PER_SECOND,
   Gen.NANOSECONDS_PER_MINUTE, Gen.NANOSECONDS_PER_HOUR, Gen.NANOSECONDS_PER_DAY,
   Gen.NANOSECONDS_PER_DAY * Gen.DAYS_PER_WEEK_I64, Gen.NANOSECONDS_PER_CENTURY]

theorem unitFactors_eq : unitFactors =
    [1, 1000, 1000000, 1000000000, 60000000000, 3600000000000, 86400000000000, 604800000000000,
     3155760000000000000] := by decide

theorem unitMulI64_aux (p q : Int) (hp : fitsI128 p = true) (hs : q < 0 ↔ p < 0) :
    (if fitsI64 p then
      if (if p < 0 then -p else p) < I64MAX then Dur.fromTruncated p else Dur.fromTotal p
     else if fitsI128 p then Dur.fromTotal p else if q < 0 then Dur.MIN else Dur.MAX).Canon ∧
    (if fitsI64 p then
      if (if p < 0 then -p else p) < I64MAX then Dur.fromTruncated p else Dur.fromTotal p
     else if fitsI128 p then Dur.fromTotal p else if q < 0 then Dur.MIN else Dur.MAX).val = clampD p := by
  by_cases h1 : fitsI64 p = true
  · rw [if_pos h1]
    by_cases h2 : (if p < 0 then -p else p) < I64MAX
    · rw [if_pos h2]
      have := fromTruncated_spec p h1
      refine ⟨this.1, ?_⟩
      rw [this.2, clampD_mid] <;> (unfold fitsI64 at h1; simp only [decide_eq_true_eq] at h1; omega)
    · rw [if_neg h2]; exact fromTotal_spec p
  · rw [if_neg h1, if_pos hp]; exact fromTotal_spec p

theorem unitMulI64_spec (f q : Int) (hf : f ∈ unitFactors) (hq : fitsI64 q = true) :
    (Dur.unitMulI64 f q).Canon ∧ (Dur.unitMulI64 f q).val = clampD (q * f) := by
  unfold Dur.unitMulI64
  unfold fitsI64 at hq; simp only [decide_eq_true_eq] at hq
  rw [unitFactors_eq] at hf
  simp only [List.mem_cons, List.not_mem_nil, or_false] at hf
  apply unitMulI64_aux
  · unfold fitsI128; simp only [decide_eq_true_eq]
    rcases hf with h | h | h | h | h | h | h | h | h <;> subst h <;> omega
  · rcases hf with h | h | h | h | h | h | h | h | h <;> subst h <;> omega

theorem mulI64_spec (a : Dur) (q : Int) (ha : a.Canon) (hq : fitsI64 q = true)
    (h1 : Dur.d1class a = false) (h2 : Dur.d1class (Dur.unitMulI64 1 q) = false) :
    (Dur.mulI64 a q).Canon ∧ (Dur.mulI64 a q).val = clampD (a.val * q) := by
  unfold Dur.mulI64
  have hu := unitMulI64_spec 1 q (by unfold unitFactors; simp) hq
  rw [totalNs_spec a ha h1, totalNs_spec _ hu.1 h2, hu.2]
  have hq' : clampD (q * 1) = q := by
    unfold fitsI64 at hq; simp only [decide_eq_true_eq] at hq
    rw [clampD_mid] <;> omega
  rw [hq']
  have := fromTotal_spec (satI128 (a.val * q))
  refine ⟨this.1, ?_⟩
  rw [this.2, clampD_satI128]

theorem tdiv_bound (x q : Int) (hq : q ≠ 0) (lo hi : Int) (hlo : lo ≤ 0) (hhi : 0 ≤ hi)
    (h1 : lo ≤ x) (h2 : x ≤ hi) (h3 : lo ≤ -x) (h4 : -x ≤ hi) :
    lo ≤ Int.tdiv x q ∧ Int.tdiv x q ≤ hi := by
  have habs : (Int.tdiv x q).natAbs ≤ x.natAbs := by
    rw [Int.natAbs_tdiv]
    exact Nat.div_le_self _ _
  omega

theorem divI64_spec (a : Dur) (q : Int) (ha : a.Canon) (hq : fitsI64 q = true) (hq0 : q ≠ 0)
    (h1 : Dur.d1class a = false) (h2 : Dur.d1class (Dur.unitMulI64 1 q) = false) :
    ∃ r, Dur.divI64 a q = .ok r ∧ r.Canon ∧ r.val = clampD (Int.tdiv a.val q) := by
  unfold Dur.divI64
  have hu := unitMulI64_spec 1 q (by unfold unitFactors; simp) hq
  have hq' : clampD (q * 1) = q := by
    unfold fitsI64 at hq; simp only [decide_eq_true_eq] at hq
    rw [clampD_mid] <;> omega
  rw [totalNs_spec a ha h1, totalNs_spec _ hu.1 h2, hu.2, hq', if_neg hq0]
  have := fromTotal_spec (satI128 (Int.tdiv a.val q))
  exact ⟨_, rfl, this.1, by rw [this.2, clampD_satI128]⟩

/-! ### C02 -/

theorem canon_unique (a b : Dur) (ha : a.Canon) (hb : b.Canon) (h : a.val = b.val) : a = b := by
  obtain ⟨a1, a2, a3, a4⟩ := ha
  obtain ⟨b1, b2, b3, b4⟩ := hb
  unfold Dur.val valP at h
  simp only [NPC_eq, NPCs_eq] at *
  cases a with | mk ac ans => cases b with | mk bc bns =>
  simp only at *
  have : ac = bc := by omega
  subst this
  have : ans = bns := by omega
  subst this; rfl

theorem canon_range (a : Dur) (ha : a.Canon) : DMIN ≤ a.val ∧ a.val ≤ DMAX := by
  obtain ⟨a1, a2, a3, a4⟩ := ha
  unfold Dur.val valP DMIN DMAX
  simp only [NPC_eq, NPCs_eq] at *
  omega

theorem tryTruncated_spec (a : Dur) (ha : a.Canon) :
    Dur.tryTruncated a ≠ .panic ∧
    (∀ v, Dur.tryTruncated a = .ok v → v = a.val) ∧
    (-2 * NPCs ≤ a.val ∧ a.val ≤ 2 * NPCs → Dur.tryTruncated a = .ok a.val) ∧
    (fitsI64 a.val = false → Dur.tryTruncated a = .err) ∧
    (fitsI64 a.val = true → Dur.tryTruncated a = .ok a.val) := by
  obtain ⟨a1, a2, a3, a4⟩ := ha
  unfold Dur.tryTruncated Dur.val valP fitsI64
  simp only [NPC_eq, NPCs_eq] at *
  cases a with | mk c ns =>
  simp only at *
  grind

theorem truncated_spec (a : Dur) (ha : a.Canon) :
    ∃ v, Dur.truncated a = .ok v ∧
      (-2 * NPCs ≤ a.val ∧ a.val ≤ 2 * NPCs → v = a.val) ∧
      (v = a.val ∨ (a.val < 0 ∧ v = I64MIN) ∨ (a.val ≥ 0 ∧ v = I64MAX)) ∧
      (fitsI64 a.val = false → (a.val < 0 ∧ v = I64MIN) ∨ (a.val ≥ 0 ∧ v = I64MAX)) := by
  have ht := tryTruncated_spec a ha
  obtain ⟨a1, a2, a3, a4⟩ := ha
  unfold Dur.truncated
  obtain ⟨t1, t2, t3, t4, _t5⟩ := ht
  have hsign : a.c < 0 ↔ a.val < 0 := by
    unfold Dur.val valP; simp only [NPC_eq, NPCs_eq] at *; omega
  cases hres : Dur.tryTruncated a with
  | ok v =>
    have := t2 v hres
    subst this
    refine ⟨_, rfl, fun _ => rfl, Or.inl rfl, ?_⟩
    intro hf; rw [t4 hf] at hres; cases hres
  | err =>
    simp only
    by_cases hc : a.c < 0
    · rw [if_pos hc]
      refine ⟨_, rfl, ?_, Or.inr (Or.inl ⟨hsign.mp hc, rfl⟩), fun _ => Or.inl ⟨hsign.mp hc, rfl⟩⟩
      intro h; rw [t3 h] at hres; cases hres
    · rw [if_neg hc]
      have : a.val ≥ 0 := by
        have : ¬ a.val < 0 := fun h => hc (hsign.mpr h)
        omega
      refine ⟨_, rfl, ?_, Or.inr (Or.inr ⟨this, rfl⟩), fun _ => Or.inr ⟨this, rfl⟩⟩
      intro h; rw [t3 h] at hres; cases hres
  | panic => exact absurd hres t1

theorem compose_spec (sign d h m s ms us ns : Int) :
    ∃ r, Dur.compose sign d h m s ms us ns = .ok r ∧ r.Canon ∧
      r.val = clampD ((if sign < 0 then -1 else 1) *
        (d * 86400000000000 + h * 3600000000000 + m * 60000000000 + s * 1000000000 + ms * 1000000 + us * 1000 + ns)) := by
  unfold Dur.compose
  simp only
  have ht := fromTotal_spec (d * 86400000000000 + h * 3600000000000 + m * 60000000000 + s * 1000000000 + ms * 1000000 + us * 1000 + ns)
  by_cases hsg : sign < 0
  · rw [if_pos hsg, if_pos hsg]
    obtain ⟨r, h1, h2, h3⟩ := neg_spec _ ht.1
    refine ⟨r, h1, h2, ?_⟩
    rw [h3, ht.2]
    have := clampD_range (d * 86400000000000 + h * 3600000000000 + m * 60000000000 + s * 1000000000 + ms * 1000000 + us * 1000 + ns)
    unfold clampD DMIN DMAX at *; simp only [NPCs_eq] at *; grind
  · rw [if_neg hsg, if_neg hsg]
    refine ⟨_, rfl, ht.1, ?_⟩
    rw [ht.2]; congr 1; omega

theorem fromStd_spec (secs nanos : Int) (h1 : 0 ≤ secs ∧ secs ≤ 18446744073709551615)
    (h2 : 0 ≤ nanos ∧ nanos < 1000000000) :
    (Dur.fromStd secs nanos).Canon ∧ (Dur.fromStd secs nanos).val = clampD (secs * 1000000000 + nanos) := by
  unfold Dur.fromStd
  simp only
  have : ¬ (secs * 1000000000 + nanos > I128MAX) := by unfold I128MAX; omega
  rw [if_neg this]
  exact fromTotal_spec _

theorem intoStd_spec (a : Dur) (ha : a.Canon) :
    Dur.intoStd a = (if a.val < 0 then (0, 0) else (a.val / 1000000000, a.val % 1000000000)) := by
  obtain ⟨a1, a2, a3, a4⟩ := ha
  unfold Dur.intoStd Dur.signum Dur.totalNs Dur.val valP U64MAX
  simp only [NPC_eq, NPCs_eq] at *
  cases a with | mk c ns =>
  simp only at *
  grind

/-! ### C03 -/

theorem cmp_spec (a b : Dur) (ha : a.Canon) (hb : b.Canon) :
    Dur.cmp a b = (if a.val < b.val then -1 else if a.val > b.val then 1 else 0) := by
  obtain ⟨a1, a2, a3, a4⟩ := ha
  obtain ⟨b1, b2, b3, b4⟩ := hb
  unfold Dur.cmp Dur.val valP
  simp only [NPC_eq, NPCs_eq] at *
  grind

theorem eqb_spec (a b : Dur) (ha : a.Canon) (hb : b.Canon) :
    Dur.eqb a b = true ↔ (a.val = b.val ∨ (a.val = -b.val ∧ -NPCs < a.val ∧ a.val < NPCs)) := by
  obtain ⟨a1, a2, a3, a4⟩ := ha
  obtain ⟨b1, b2, b3, b4⟩ := hb
  unfold Dur.eqb Dur.val valP
  simp only [NPC_eq, NPCs_eq] at *
  cases a with | mk ac ans => cases b with | mk bc bns =>
  simp only at *
  grind

/-! ### C14 -/

theorem clampD_zero : clampD 0 = 0 := by decide

theorem floor_spec (d s : Dur) (hd : d.Canon) (hs : s.Canon)
    (h1 : Dur.d1class d = false) (h2 : Dur.d1class s = false) :
    (Dur.floor d s).Canon ∧ (Dur.floor d s).val = sfloor d.val s.val := by
  unfold Dur.floor sfloor
  rw [totalNs_spec d hd h1, totalNs_spec s hs h2]
  by_cases h0 : s.val = 0
  · rw [if_pos h0, if_pos h0]
    have := fromTotal_spec 0
    rw [clampD_zero] at this; exact this
  · rw [if_neg h0, if_neg h0]
    exact fromTotal_spec _

theorem emod_bounds (x s : Int) (hs : s ≠ 0) : 0 ≤ x % s ∧ x % s < (if s < 0 then -s else s) := by
  refine ⟨Int.emod_nonneg x hs, ?_⟩
  have := Int.emod_lt x hs
  split <;> omega

theorem ceil_spec (d s : Dur) (hd : d.Canon) (hs : s.Canon)
    (h1 : Dur.d1class d = false) (h2 : Dur.d1class s = false) (h3 : Dur.d1class (Dur.floor d s) = false) :
    ∃ r, Dur.ceil d s = .ok r ∧ r.Canon ∧ r.val = sceil d.val s.val := by
  unfold Dur.ceil sceil
  obtain ⟨sa, e1, e2, e3⟩ := abs_spec s hs
  have hf := floor_spec d s hd hs h1 h2
  rw [e1]
  simp only
  have hsv : clampD (if s.val < 0 then -s.val else s.val) = (if s.val < 0 then -s.val else s.val) := by
    have hr := canon_range s hs
    unfold DMIN DMAX at hr; simp only [NPCs_eq] at hr
    rw [clampD_mid] <;> (split <;> omega)
  have hsa : Dur.d1class sa = false := by
    unfold Dur.d1class; simp only [decide_eq_false_iff_not]
    have hnn : 0 ≤ sa.val := by rw [e3, hsv]; split <;> omega
    obtain ⟨a1, a2, a3, a4⟩ := e2
    unfold Dur.val valP at hnn
    simp only [NPC_eq, NPCs_eq] at *
    omega
  rw [totalNs_spec _ hf.1 h3, totalNs_spec sa e2 hsa, hf.2, e3, hsv]
  have hfit : fitsI128 (sfloor d.val s.val + (if s.val < 0 then -s.val else s.val)) = true := by
    unfold fitsI128; simp only [decide_eq_true_eq]
    have hr := canon_range s hs
    unfold DMIN DMAX at hr; simp only [NPCs_eq] at hr
    have hfr : -103407943680000000000000 ≤ sfloor d.val s.val ∧ sfloor d.val s.val ≤ 103407943680000000000000 := by
      unfold sfloor; split
      · omega
      · exact clampD_range _
    split <;> omega
  rw [if_pos hfit]
  have := fromTotal_spec (sfloor d.val s.val + (if s.val < 0 then -s.val else s.val))
  exact ⟨_, rfl, this.1, this.2⟩

theorem round_bounds (x sv : Int)
    (hx : -103407943680000000000000 ≤ x ∧ x ≤ 103407943680000000000000)
    (hs : -103407943680000000000000 ≤ sv ∧ sv ≤ 103407943680000000000000) :
    -103407943680000000000000 ≤ x - sfloor x sv ∧ x - sfloor x sv ≤ 103407943680000000000000 ∧
    -103407943680000000000000 ≤ sceil x sv - x ∧ sceil x sv - x ≤ 103407943680000000000000 := by
  unfold sceil sfloor
  by_cases h0 : sv = 0
  · subst h0; simp only [if_true]; rw [show (0:Int) + (if (0:Int) < 0 then -0 else 0) = 0 by decide, clampD_zero]; omega
  · simp only [if_neg h0]
    have hb := emod_bounds x sv h0
    generalize x % sv = r at *
    unfold clampD DMIN DMAX; simp only [NPCs_eq]
    grind

theorem round_spec (d s : Dur) (hd : d.Canon) (hs : s.Canon)
    (h1 : Dur.d1class d = false) (h2 : Dur.d1class s = false) (h3 : Dur.d1class (Dur.floor d s) = false) :
    ∃ r, Dur.round d s = .ok r ∧ r.Canon ∧ r.val = sround d.val s.val := by
  unfold Dur.round sround
  obtain ⟨ce, c1, c2, c3⟩ := ceil_spec d s hd hs h1 h2 h3
  have hf := floor_spec d s hd hs h1 h2
  rw [c1]; simp only
  have hsub1 := sub_spec ce d c2 hd
  obtain ⟨x, x1, x2, x3⟩ := abs_spec _ hsub1.1
  rw [x1]; simp only
  have hsub2 := sub_spec d (Dur.floor d s) hd hf.1
  have hrd := canon_range d hd
  have hrs := canon_range s hs
  unfold DMIN DMAX at hrd hrs; simp only [NPCs_eq] at hrd hrs
  have hb := round_bounds d.val s.val hrd hrs
  have e1 : (Dur.sub d (Dur.floor d s)).val = d.val - sfloor d.val s.val := by
    rw [hsub2.2, hf.2, clampD_mid] <;> omega
  have e2 : x.val = (if sceil d.val s.val - d.val < 0 then -(sceil d.val s.val - d.val) else sceil d.val s.val - d.val) := by
    rw [x3, hsub1.2, c3, clampD_mid (x := sceil d.val s.val - d.val) (by omega) (by omega)]
    rw [clampD_mid] <;> (split <;> omega)
  have hlt : Dur.lt (Dur.sub d (Dur.floor d s)) x = true ↔
      d.val - sfloor d.val s.val < (if sceil d.val s.val - d.val < 0 then -(sceil d.val s.val - d.val) else sceil d.val s.val - d.val) := by
    unfold Dur.lt
    rw [cmp_spec _ _ hsub2.1 x2, e1, e2]
    simp only [decide_eq_true_eq]
    grind
  by_cases hc : Dur.lt (Dur.sub d (Dur.floor d s)) x = true
  · rw [if_pos hc, if_pos (hlt.mp hc)]
    exact ⟨_, rfl, hf.1, hf.2⟩
  · rw [if_neg hc, if_neg (fun h => hc (hlt.mpr h))]
    exact ⟨_, rfl, c2, c3⟩

end Hifi
