import Hifi.Lemmas.Epoch
/-
  UTC ↔ TAI (C06): integer-level semantics of the two table scans, the round-trip and
  monotonicity arguments for ANY well-formed table, and the link to the `Dur`-level model.
-/
namespace Hifi
open Spec

/-! ### integer level: tables as newest-first lists of (time stamp ns, ΔAT ns) -/

/-- ΔAT in force at UTC count `u` -/
def Ldesc : List (Int × Int) → Int → Int
  | [], _ => 0
  | (t, d) :: rest, u => if t ≤ u then d else Ldesc rest u

def headD : List (Int × Int) → Int
  | [] => 0
  | x :: _ => x.2

/-- the TAI → UTC scan: entry k is in force once TAI ≥ tsₖ + ΔATₖ₋₁ -/
def goInt (p : Int) : List (Int × Int) → Int
  | [] => p
  | (t, d) :: rest => if t + headD rest ≤ p then p - d else goInt p rest

/-- newest first: time stamps strictly decreasing, offsets non-increasing, all non-negative -/
def DescOK : List (Int × Int) → Prop
  | [] => True
  | (_, d) :: [] => 0 ≤ d
  | (t, d) :: (t', d') :: rest => t' < t ∧ d' ≤ d ∧ DescOK ((t', d') :: rest)

/-- decidable version, for concrete tables -/
def descOKb : List (Int × Int) → Bool
  | [] => true
  | (_, d) :: [] => decide (0 ≤ d)
  | (t, d) :: (t', d') :: rest => decide (t' < t) && decide (d' ≤ d) && descOKb ((t', d') :: rest)

theorem DescOK_of_b : (r : List (Int × Int)) → descOKb r = true → DescOK r
  | [], _ => trivial
  | (_, d) :: [], h => by
    simp only [descOKb, decide_eq_true_eq] at h
    exact h
  | (t, d) :: (t', d') :: rest, h => by
    simp only [descOKb, Bool.and_eq_true, decide_eq_true_eq] at h
    exact ⟨h.1.1, h.1.2, DescOK_of_b _ h.2⟩

theorem DescOK_tail {x : Int × Int} {r : List (Int × Int)} (h : DescOK (x :: r)) : DescOK r := by
  cases r with
  | nil => trivial
  | cons y r => exact h.2.2

theorem Ldesc_bounds (r : List (Int × Int)) (u : Int) (h : DescOK r) : 0 ≤ Ldesc r u ∧ Ldesc r u ≤ headD r := by
  induction r with
  | nil => simp [Ldesc, headD]
  | cons x r ih =>
    obtain ⟨t, d⟩ := x
    have ih' := ih (DescOK_tail h)
    unfold Ldesc headD
    have hd : headD r ≤ d ∧ 0 ≤ d := by
      cases r with
      | nil => exact ⟨h, h⟩
      | cons y r =>
        obtain ⟨t', d'⟩ := y
        have := h.2.1
        simp only [headD] at ih' ⊢
        omega
    split <;> simp only <;> omega

/-- UTC → TAI → UTC is the identity, for every well-formed table and every count -/
theorem goInt_roundtrip (r : List (Int × Int)) (u : Int) (h : DescOK r) : goInt (u + Ldesc r u) r = u := by
  induction r with
  | nil => simp [goInt, Ldesc]
  | cons x r ih =>
    obtain ⟨t, d⟩ := x
    have hb := Ldesc_bounds r u (DescOK_tail h)
    have hd : headD r ≤ d := by
      cases r with
      | nil => simp only [headD]; exact h
      | cons y r => obtain ⟨t', d'⟩ := y; exact h.2.1
    unfold goInt Ldesc
    by_cases htu : t ≤ u
    · rw [if_pos htu, if_pos (by omega)]; omega
    · rw [if_neg htu, if_neg (by omega)]
      exact ih (DescOK_tail h)

theorem Ldesc_mono (r : List (Int × Int)) (u1 u2 : Int) (h : DescOK r) (hu : u1 ≤ u2) : Ldesc r u1 ≤ Ldesc r u2 := by
  induction r with
  | nil => simp [Ldesc]
  | cons x r ih =>
    obtain ⟨t, d⟩ := x
    have hb1 := Ldesc_bounds r u1 (DescOK_tail h)
    have hd : headD r ≤ d := by
      cases r with
      | nil => simp only [headD]; exact h
      | cons y r => obtain ⟨t', d'⟩ := y; exact h.2.1
    unfold Ldesc
    by_cases h1 : t ≤ u1
    · rw [if_pos h1, if_pos (by omega)]; omega
    · rw [if_neg h1]
      by_cases h2 : t ≤ u2
      · rw [if_pos h2]; omega
      · rw [if_neg h2]; exact ih (DescOK_tail h)

/-- UTC → TAI is strictly increasing -/
theorem forward_strict_mono (r : List (Int × Int)) (u1 u2 : Int) (h : DescOK r) (hu : u1 < u2) :
    u1 + Ldesc r u1 < u2 + Ldesc r u2 := by
  have := Ldesc_mono r u1 u2 h (by omega); omega

/-- hence TAI → UTC is strictly increasing on every TAI instant that has a UTC pre-image
    (i.e. outside the inserted seconds) -/
theorem backward_strict_mono_on_image (r : List (Int × Int)) (u1 u2 : Int) (h : DescOK r)
    (ht : u1 + Ldesc r u1 < u2 + Ldesc r u2) : goInt (u1 + Ldesc r u1) r < goInt (u2 + Ldesc r u2) r := by
  rw [goInt_roundtrip r u1 h, goInt_roundtrip r u2 h]
  by_cases hlt : u1 < u2
  · exact hlt
  · exfalso
    have := Ldesc_mono r u2 u1 h (by omega); omega

/-! ### link to the `Dur`-level model -/

/-- entries whose time stamp and offset products are well inside the i64 range -/
def EntryOK (e : LeapEntry) : Prop :=
  0 ≤ e.ts ∧ e.ts < 9000000000 ∧ 0 ≤ e.dns ∧ e.dns < 1000000000000

def entryOKb (e : LeapEntry) : Bool :=
  decide (0 ≤ e.ts ∧ e.ts < 9000000000 ∧ 0 ≤ e.dns ∧ e.dns < 1000000000000)

theorem EntryOK_of_all (l : List LeapEntry) (h : l.all entryOKb = true) : ∀ e ∈ l, EntryOK e := by
  intro e he
  have := List.all_eq_true.mp h e he
  unfold entryOKb at this; unfold EntryOK; simpa using this

def toNs (r : List LeapEntry) : List (Int × Int) := r.map (fun e => (e.ts * 1000000000, e.dns))

theorem nsDur_spec (n : Int) (h : -9223372036854775808 ≤ n ∧ n ≤ 9223372036854775807) :
    (nsDur n).Canon ∧ (nsDur n).val = n :=
  fromTruncated_spec n (by unfold fitsI64; simp only [decide_eq_true_eq]; exact h)

theorem cmp_ge_iff (a b : Dur) (ha : a.Canon) (hb : b.Canon) : Dur.cmp a b ≠ -1 ↔ b.val ≤ a.val := by
  rw [cmp_spec a b ha hb]; grind

/-- the SOFA (non-IERS) entries cannot influence an `iers_only` lookup -/
theorem leapLookup_filter (t : Dur) (r : List LeapEntry) :
    leapLookup t true r = leapLookup t false (r.filter LeapEntry.iers) := by
  induction r with
  | nil => rfl
  | cons e r ih =>
    by_cases hi : e.iers = true
    · rw [List.filter_cons_of_pos hi]
      by_cases hc : Dur.cmp t (nsDur (e.ts * 1000000000)) ≠ -1
      · have h1 : leapLookup t true (e :: r) = some e := by
          simp only [leapLookup]; rw [if_pos ⟨hc, Or.inr hi⟩]
        have h2 : leapLookup t false (e :: r.filter LeapEntry.iers) = some e := by
          simp only [leapLookup]; rw [if_pos ⟨hc, Or.inl trivial⟩]
        rw [h1, h2]
      · have h1 : leapLookup t true (e :: r) = leapLookup t true r := by
          simp only [leapLookup]; rw [if_neg (fun h => hc h.1)]
        have h2 : leapLookup t false (e :: r.filter LeapEntry.iers) = leapLookup t false (r.filter LeapEntry.iers) := by
          simp only [leapLookup]; rw [if_neg (fun h => hc h.1)]
        rw [h1, h2]; exact ih
    · rw [List.filter_cons_of_neg hi]
      have h1 : leapLookup t true (e :: r) = leapLookup t true r := by
        simp only [leapLookup]
        rw [if_neg (fun h => by rcases h.2 with h | h; exact absurd h (by decide); exact hi h)]
      rw [h1]; exact ih

theorem leapLookup_val (t : Dur) (ht : t.Canon) (r : List LeapEntry) (hr : ∀ e ∈ r, EntryOK e) :
    (match leapLookup t false r with | some e => e.dns | none => 0) = Ldesc (toNs r) t.val := by
  induction r with
  | nil => rfl
  | cons e r ih =>
    have he := hr e (List.mem_cons_self ..)
    have hn := nsDur_spec (e.ts * 1000000000) (by unfold EntryOK at he; omega)
    have hL : Ldesc (toNs (e :: r)) t.val = if e.ts * 1000000000 ≤ t.val then e.dns else Ldesc (toNs r) t.val := rfl
    rw [hL]
    by_cases hc : e.ts * 1000000000 ≤ t.val
    · have : Dur.cmp t (nsDur (e.ts * 1000000000)) ≠ -1 := (cmp_ge_iff t _ ht hn.1).mpr (by rw [hn.2]; exact hc)
      have h1 : leapLookup t false (e :: r) = some e := by
        simp only [leapLookup]; rw [if_pos ⟨this, Or.inl trivial⟩]
      rw [h1, if_pos hc]
    · have : ¬ Dur.cmp t (nsDur (e.ts * 1000000000)) ≠ -1 := fun h => hc (by have := (cmp_ge_iff t _ ht hn.1).mp h; rw [hn.2] at this; exact this)
      have h1 : leapLookup t false (e :: r) = leapLookup t false r := by
        simp only [leapLookup]; rw [if_neg (fun h => this h.1)]
      rw [h1, if_neg hc]
      exact ih (fun e he => hr e (List.mem_cons_of_mem _ he))

theorem Ldesc_range (r : List LeapEntry) (hr : ∀ e ∈ r, EntryOK e) (u : Int) :
    0 ≤ Ldesc (toNs r) u ∧ Ldesc (toNs r) u < 1000000000000 := by
  induction r with
  | nil => simp [toNs, Ldesc]
  | cons e r ih =>
    have he := hr e (List.mem_cons_self ..)
    unfold toNs; simp only [List.map_cons, Ldesc]
    split
    · unfold EntryOK at he; omega
    · exact ih (fun e he => hr e (List.mem_cons_of_mem _ he))

/-- `leap_seconds(true).unwrap_or(0.0).seconds()` is the ΔAT in force at the UTC count, exactly -/
theorem leapDur_spec (d : Dur) (hd : d.Canon) (tbl : List LeapEntry) (hr : ∀ e ∈ tbl, EntryOK e) :
    (leapDur d tbl).Canon ∧ (leapDur d tbl).val = Ldesc (toNs ((tbl.filter LeapEntry.iers).reverse)) d.val := by
  unfold leapDur
  rw [leapLookup_filter, ← List.filter_reverse]
  have hr' : ∀ e ∈ (tbl.reverse.filter LeapEntry.iers), EntryOK e := by
    intro e he; exact hr e (by have := (List.mem_filter.mp he).1; exact List.mem_reverse.mp this)
  have hv := leapLookup_val d hd _ hr'
  have hrange := Ldesc_range _ hr' d.val
  cases hl : leapLookup d false (tbl.reverse.filter LeapEntry.iers) with
  | none =>
    rw [hl] at hv; simp only at hv ⊢
    have := nsDur_spec 0 (by omega)
    exact ⟨this.1, by rw [this.2, hv]⟩
  | some e =>
    rw [hl] at hv; simp only at hv ⊢
    have := nsDur_spec e.dns (by omega)
    exact ⟨this.1, by rw [this.2, hv]⟩

/-- the TAI → UTC scan computes `goInt`, as long as the subtraction cannot hit the lower bound -/
theorem taiToUtcGo_val (p : Dur) (hp : p.Canon) (r : List LeapEntry) (hr : ∀ e ∈ r, EntryOK e)
    (hlo : DMIN + 1000000000000 ≤ p.val) :
    (taiToUtcGo p r).Canon ∧ (taiToUtcGo p r).val = goInt p.val (toNs r) := by
  induction r with
  | nil => exact ⟨hp, rfl⟩
  | cons e r ih =>
    have he := hr e (List.mem_cons_self ..)
    have hrest : ∀ e ∈ r, EntryOK e := fun e he => hr e (List.mem_cons_of_mem _ he)
    have hhead : headDns r = headD (toNs r) := by
      cases r <;> rfl
    have hhb : 0 ≤ headD (toNs r) ∧ headD (toNs r) < 1000000000000 := by
      cases r with
      | nil => simp [toNs, headD]
      | cons y r => have := hrest y (List.mem_cons_self ..); unfold EntryOK at this; simp only [toNs, List.map_cons, headD]; omega
    have hG : goInt p.val (toNs (e :: r)) = if e.ts * 1000000000 + headD (toNs r) ≤ p.val then p.val - e.dns else goInt p.val (toNs r) := rfl
    rw [hG]
    have hT : taiToUtcGo p (e :: r) = if Dur.cmp p (nsDur (e.ts * 1000000000 + headDns r)) ≠ -1 then Dur.sub p (nsDur e.dns) else taiToUtcGo p r := rfl
    rw [hT, hhead]
    have hn := nsDur_spec (e.ts * 1000000000 + headD (toNs r)) (by unfold EntryOK at he; omega)
    have hdn := nsDur_spec e.dns (by unfold EntryOK at he; omega)
    by_cases hc : e.ts * 1000000000 + headD (toNs r) ≤ p.val
    · have : Dur.cmp p (nsDur (e.ts * 1000000000 + headD (toNs r))) ≠ -1 := (cmp_ge_iff p _ hp hn.1).mpr (by rw [hn.2]; exact hc)
      rw [if_pos this, if_pos hc]
      have hs := sub_spec p (nsDur e.dns) hp hdn.1
      refine ⟨hs.1, ?_⟩
      have hr := canon_range p hp
      unfold DMIN DMAX at *; simp only [NPCs_eq] at *
      unfold EntryOK at he
      rw [hs.2, hdn.2, clampD_mid] <;> omega
    · have : ¬ Dur.cmp p (nsDur (e.ts * 1000000000 + headD (toNs r))) ≠ -1 := fun h => hc (by have := (cmp_ge_iff p _ hp hn.1).mp h; rw [hn.2] at this; exact this)
      rw [if_neg this, if_neg hc]
      exact ih hrest

/-- the same under the WEAKEST hypothesis: the subtraction the scan performs does not hit the lower bound,
    i.e. its exact result `goInt p` is representable (no margin) -/
theorem taiToUtcGo_val_nosat (p : Dur) (hp : p.Canon) (r : List LeapEntry) (hr : ∀ e ∈ r, EntryOK e)
    (hlo : DMIN ≤ goInt p.val (toNs r)) :
    (taiToUtcGo p r).Canon ∧ (taiToUtcGo p r).val = goInt p.val (toNs r) := by
  induction r with
  | nil => exact ⟨hp, rfl⟩
  | cons e r ih =>
    have he := hr e (List.mem_cons_self ..)
    have hrest : ∀ e ∈ r, EntryOK e := fun e he => hr e (List.mem_cons_of_mem _ he)
    have hhead : headDns r = headD (toNs r) := by
      cases r <;> rfl
    have hhb : 0 ≤ headD (toNs r) ∧ headD (toNs r) < 1000000000000 := by
      cases r with
      | nil => simp [toNs, headD]
      | cons y r => have := hrest y (List.mem_cons_self ..); unfold EntryOK at this; simp only [toNs, List.map_cons, headD]; omega
    have hG : goInt p.val (toNs (e :: r)) = if e.ts * 1000000000 + headD (toNs r) ≤ p.val then p.val - e.dns else goInt p.val (toNs r) := rfl
    rw [hG] at hlo ⊢
    have hT : taiToUtcGo p (e :: r) = if Dur.cmp p (nsDur (e.ts * 1000000000 + headDns r)) ≠ -1 then Dur.sub p (nsDur e.dns) else taiToUtcGo p r := rfl
    rw [hT, hhead]
    have hn := nsDur_spec (e.ts * 1000000000 + headD (toNs r)) (by unfold EntryOK at he; omega)
    have hdn := nsDur_spec e.dns (by unfold EntryOK at he; omega)
    by_cases hc : e.ts * 1000000000 + headD (toNs r) ≤ p.val
    · have : Dur.cmp p (nsDur (e.ts * 1000000000 + headD (toNs r))) ≠ -1 := (cmp_ge_iff p _ hp hn.1).mpr (by rw [hn.2]; exact hc)
      rw [if_pos this, if_pos hc]
      rw [if_pos hc] at hlo
      have hs := sub_spec p (nsDur e.dns) hp hdn.1
      refine ⟨hs.1, ?_⟩
      have hr := canon_range p hp
      unfold DMIN DMAX at *; simp only [NPCs_eq] at *
      unfold EntryOK at he
      rw [hs.2, hdn.2, clampD_mid] <;> omega
    · have : ¬ Dur.cmp p (nsDur (e.ts * 1000000000 + headD (toNs r))) ≠ -1 := fun h => hc (by have := (cmp_ge_iff p _ hp hn.1).mp h; rw [hn.2] at this; exact this)
      rw [if_neg this, if_neg hc]
      rw [if_neg hc] at hlo
      exact ih hrest hlo

end Hifi
