import Hifi.Model.Calendar
import Hifi.Spec.Calendar
import Hifi.Lemmas.Duration
/-
  Lemmas for the calendar properties C08 / C09.

  Part A  the specification calendar itself: `nextDay` is a bijection of the valid dates and
          `dayNumber` is THE day count of that successor structure (value 0 at 1900-01-01, +1 per
          `nextDay`, unique with these two properties).
  Part B  the model of `maybe_from_gregorian`: leap-day loops in closed form, month table, exact value.
  Part C  accept / reject.
  Part D  the model of `compute_gregorian`: fuel sufficiency of the `while` loops, field ranges, inverse.
-/
/- all lemmas of this file live in `Hifi.Cal` (next to the model they are about) -/
namespace Hifi.Cal
open Hifi Spec

/-! ## Part A: the specification calendar -/

theorem dayNumber_ref : dayNumber ⟨1900, 1, 1⟩ = 0 := by decide

theorem isLeap_iff (y : Int) : isLeap y = true ↔ ((y % 4 = 0 ∧ y % 100 ≠ 0) ∨ y % 400 = 0) := by
  unfold isLeap; simp only [decide_eq_true_eq]

theorem isLeap_false_iff (y : Int) : isLeap y = false ↔ ¬ ((y % 4 = 0 ∧ y % 100 ≠ 0) ∨ y % 400 = 0) := by
  unfold isLeap; simp only [decide_eq_false_iff_not]

theorem monthLen_1 (y : Int) : monthLen y 1 = 31 := by
  unfold monthLen; simp
theorem monthLen_2_leap (y : Int) (h : isLeap y = true) : monthLen y 2 = 29 := by
  unfold monthLen; simp [h]
theorem monthLen_2_common (y : Int) (h : isLeap y = false) : monthLen y 2 = 28 := by
  unfold monthLen; simp [h]
theorem monthLen_3 (y : Int) : monthLen y 3 = 31 := by
  unfold monthLen; simp
theorem monthLen_4 (y : Int) : monthLen y 4 = 30 := by
  unfold monthLen; simp
theorem monthLen_5 (y : Int) : monthLen y 5 = 31 := by
  unfold monthLen; simp
theorem monthLen_6 (y : Int) : monthLen y 6 = 30 := by
  unfold monthLen; simp
theorem monthLen_7 (y : Int) : monthLen y 7 = 31 := by
  unfold monthLen; simp
theorem monthLen_8 (y : Int) : monthLen y 8 = 31 := by
  unfold monthLen; simp
theorem monthLen_9 (y : Int) : monthLen y 9 = 30 := by
  unfold monthLen; simp
theorem monthLen_10 (y : Int) : monthLen y 10 = 31 := by
  unfold monthLen; simp
theorem monthLen_11 (y : Int) : monthLen y 11 = 30 := by
  unfold monthLen; simp
theorem monthLen_12 (y : Int) : monthLen y 12 = 31 := by
  unfold monthLen; simp
theorem monthLen_out (y m : Int) (h : m < 1 ∨ m > 12) : monthLen y m = 0 := by
  unfold monthLen
  rw [if_neg (by omega), if_neg (by omega), if_neg (by omega)]

theorem monthLen_cases (y m : Int) :
    (m = 1 ∧ monthLen y m = 31) ∨ (m = 2 ∧ isLeap y = true ∧ monthLen y m = 29) ∨
    (m = 2 ∧ isLeap y = false ∧ monthLen y m = 28) ∨ (m = 3 ∧ monthLen y m = 31) ∨
    (m = 4 ∧ monthLen y m = 30) ∨ (m = 5 ∧ monthLen y m = 31) ∨ (m = 6 ∧ monthLen y m = 30) ∨
    (m = 7 ∧ monthLen y m = 31) ∨ (m = 8 ∧ monthLen y m = 31) ∨ (m = 9 ∧ monthLen y m = 30) ∨
    (m = 10 ∧ monthLen y m = 31) ∨ (m = 11 ∧ monthLen y m = 30) ∨ (m = 12 ∧ monthLen y m = 31) ∨
    ((m < 1 ∨ m > 12) ∧ monthLen y m = 0) := by
  by_cases e1 : m = 1
  · subst e1; left; exact ⟨rfl, monthLen_1 y⟩
  by_cases e2 : m = 2
  · subst e2
    cases hl : isLeap y
    · right; right; left; exact ⟨rfl, rfl, monthLen_2_common y hl⟩
    · right; left; exact ⟨rfl, rfl, monthLen_2_leap y hl⟩
  by_cases e3 : m = 3
  · subst e3; right; right; right; left; exact ⟨rfl, monthLen_3 y⟩
  by_cases e4 : m = 4
  · subst e4; right; right; right; right; left; exact ⟨rfl, monthLen_4 y⟩
  by_cases e5 : m = 5
  · subst e5; right; right; right; right; right; left; exact ⟨rfl, monthLen_5 y⟩
  by_cases e6 : m = 6
  · subst e6; right; right; right; right; right; right; left; exact ⟨rfl, monthLen_6 y⟩
  by_cases e7 : m = 7
  · subst e7; right; right; right; right; right; right; right; left; exact ⟨rfl, monthLen_7 y⟩
  by_cases e8 : m = 8
  · subst e8; right; right; right; right; right; right; right; right; left; exact ⟨rfl, monthLen_8 y⟩
  by_cases e9 : m = 9
  · subst e9; right; right; right; right; right; right; right; right; right; left; exact ⟨rfl, monthLen_9 y⟩
  by_cases e10 : m = 10
  · subst e10; right; right; right; right; right; right; right; right; right; right; left; exact ⟨rfl, monthLen_10 y⟩
  by_cases e11 : m = 11
  · subst e11; right; right; right; right; right; right; right; right; right; right; right; left; exact ⟨rfl, monthLen_11 y⟩
  by_cases e12 : m = 12
  · subst e12; right; right; right; right; right; right; right; right; right; right; right; right; left; exact ⟨rfl, monthLen_12 y⟩
  · right; right; right; right; right; right; right; right; right; right; right; right; right
    have ho : m < 1 ∨ m > 12 := by omega
    exact ⟨ho, monthLen_out y m ho⟩
/-- month lengths are between 28 and 31 for months 1..12 -/
theorem monthLen_range (y m : Int) (h1 : 1 ≤ m) (h2 : m ≤ 12) : 28 ≤ monthLen y m ∧ monthLen y m ≤ 31 := by
  have := monthLen_cases y m; omega

theorem validDate_iff (d : Date) :
    validDate d = true ↔ (1 ≤ d.m ∧ d.m ≤ 12 ∧ 1 ≤ d.d ∧ d.d ≤ monthLen d.y d.m) := by
  unfold validDate; simp only [decide_eq_true_eq]

theorem nextDay_valid (d : Date) (h : validDate d = true) : validDate (nextDay d) = true := by
  rw [validDate_iff] at *
  obtain ⟨h1, h2, h3, h4⟩ := h
  unfold nextDay
  by_cases c1 : d.d < monthLen d.y d.m
  · rw [if_pos c1]; simp only; omega
  · rw [if_neg c1]
    by_cases c2 : d.m < 12
    · rw [if_pos c2]; simp only
      have := monthLen_range d.y (d.m + 1) (by omega) (by omega); omega
    · rw [if_neg c2]; simp only
      have := monthLen_range (d.y + 1) 1 (by omega) (by omega); omega

theorem prevDay_valid (d : Date) (h : validDate d = true) : validDate (prevDay d) = true := by
  rw [validDate_iff] at *
  obtain ⟨h1, h2, h3, h4⟩ := h
  unfold prevDay
  by_cases c1 : 1 < d.d
  · rw [if_pos c1]; simp only; omega
  · rw [if_neg c1]
    by_cases c2 : 1 < d.m
    · rw [if_pos c2]; simp only
      have := monthLen_range d.y (d.m - 1) (by omega) (by omega); omega
    · rw [if_neg c2]; simp only
      have := monthLen_range (d.y - 1) 12 (by omega) (by omega)
      have := monthLen_cases (d.y - 1) 12; omega

theorem prevDay_nextDay (d : Date) (h : validDate d = true) : prevDay (nextDay d) = d := by
  rw [validDate_iff] at h
  obtain ⟨h1, h2, h3, h4⟩ := h
  cases d with | mk y m dd =>
  simp only at *
  unfold nextDay
  by_cases c1 : dd < monthLen y m
  · simp only [if_pos c1]; unfold prevDay; simp only
    rw [if_pos (by omega)]; congr 1; omega
  · simp only [if_neg c1]
    by_cases c2 : m < 12
    · simp only [if_pos c2]; unfold prevDay; simp only
      rw [if_neg (by omega), if_pos (by omega)]
      have e : m + 1 - 1 = m := by omega
      rw [e]; congr 1; omega
    · simp only [if_neg c2]; unfold prevDay; simp only
      rw [if_neg (by omega), if_neg (by omega)]
      have hm : m = 12 := by omega
      subst hm
      have := monthLen_cases y 12
      have e : y + 1 - 1 = y := by omega
      rw [e]; congr 1; omega

theorem nextDay_prevDay (d : Date) (h : validDate d = true) : nextDay (prevDay d) = d := by
  rw [validDate_iff] at h
  obtain ⟨h1, h2, h3, h4⟩ := h
  cases d with | mk y m dd =>
  simp only at *
  unfold prevDay
  by_cases c1 : 1 < dd
  · simp only [if_pos c1]; unfold nextDay; simp only
    rw [if_pos (by omega)]; congr 1; omega
  · simp only [if_neg c1]
    by_cases c2 : 1 < m
    · simp only [if_pos c2]; unfold nextDay; simp only
      rw [if_neg (by omega), if_pos (by omega)]
      have e : m - 1 + 1 = m := by omega
      rw [e]; congr 1; omega
    · simp only [if_neg c2]; unfold nextDay; simp only
      have := monthLen_cases (y - 1) 12
      rw [if_neg (by omega), if_neg (by omega)]
      have e : y - 1 + 1 = y := by omega
      rw [e]; congr 1 <;> omega

/-- `nextDay` is injective on valid dates -/
theorem nextDay_inj (a b : Date) (ha : validDate a = true) (hb : validDate b = true)
    (h : nextDay a = nextDay b) : a = b := by
  rw [← prevDay_nextDay a ha, ← prevDay_nextDay b hb, h]

/-- every valid date is the day after a valid date -/
theorem nextDay_surj (d : Date) (h : validDate d = true) :
    ∃ p, validDate p = true ∧ nextDay p = d := ⟨prevDay d, prevDay_valid d h, nextDay_prevDay d h⟩

theorem dayNumber_nextDay (d : Date) (h : validDate d = true) :
    dayNumber (nextDay d) = dayNumber d + 1 := by
  cases d with | mk y m dd =>
  unfold validDate at h
  simp only [decide_eq_true_eq] at h
  obtain ⟨h1, h2, h3, h4⟩ := h
  have hml := monthLen_cases y m
  unfold nextDay dayNumber
  simp only
  generalize monthLen y m = L at *
  rcases hml with ⟨rfl, rfl⟩ | ⟨rfl, hl, rfl⟩ | ⟨rfl, hl, rfl⟩ | ⟨rfl, rfl⟩ | ⟨rfl, rfl⟩ | ⟨rfl, rfl⟩ | ⟨rfl, rfl⟩ |
    ⟨rfl, rfl⟩ | ⟨rfl, rfl⟩ | ⟨rfl, rfl⟩ | ⟨rfl, rfl⟩ | ⟨rfl, rfl⟩ | ⟨rfl, rfl⟩ | ⟨hh, rfl⟩
  all_goals first
    | omega
    | (by_cases hd : dd < 31 <;> simp [hd] <;> omega)
    | (by_cases hd : dd < 30 <;> simp [hd] <;> omega)
    | (have hl' := (isLeap_iff y).mp hl; by_cases hd : dd < 29 <;> simp [hd] <;> omega)
    | (have hl' := (isLeap_false_iff y).mp hl; by_cases hd : dd < 28 <;> simp [hd] <;> omega)

theorem dayNumber_prevDay (d : Date) (h : validDate d = true) :
    dayNumber (prevDay d) = dayNumber d - 1 := by
  have := dayNumber_nextDay (prevDay d) (prevDay_valid d h)
  rw [nextDay_prevDay d h] at this; omega

theorem dayNumber_zero (d : Date) (h : validDate d = true) (h0 : dayNumber d = 0) : d = ⟨1900, 1, 1⟩ := by
  cases d with | mk y m dd =>
  rw [validDate_iff] at h
  simp only at h
  obtain ⟨h1, h2, h3, h4⟩ := h
  have hml := monthLen_cases y m
  unfold dayNumber at h0
  simp only at h0
  generalize monthLen y m = L at *
  rcases hml with ⟨rfl, rfl⟩ | ⟨rfl, hl, rfl⟩ | ⟨rfl, hl, rfl⟩ | hrest
  · simp at h0
    have hq : (y - 1) / 400 = 4 := by omega
    have hr : (y - 1) % 400 = 299 := by omega
    have hy : y = 1900 ∧ dd = 1 := by omega
    obtain ⟨rfl, rfl⟩ := hy; rfl
  · exfalso; simp at h0
    have hq : (y - 1) / 400 = 4 := by omega
    omega
  · exfalso; simp at h0
    have hq : (y - 1) / 400 = 4 := by omega
    omega
  · exfalso
    rcases hrest with ⟨rfl, rfl⟩ | ⟨rfl, rfl⟩ | ⟨rfl, rfl⟩ | ⟨rfl, rfl⟩ |
      ⟨rfl, rfl⟩ | ⟨rfl, rfl⟩ | ⟨rfl, rfl⟩ | ⟨rfl, rfl⟩ | ⟨rfl, rfl⟩ | ⟨rfl, rfl⟩ | ⟨hh, rfl⟩
    case inr.inr.inr.inr.inr.inr.inr.inr.inr.inr => omega
    all_goals
      simp at h0
      have hq : y / 400 = 4 := by omega
      omega

theorem dayNumber_inj_aux (n : Nat) : ∀ a b : Date, validDate a = true → validDate b = true →
    dayNumber a = dayNumber b → (dayNumber a).natAbs = n → a = b := by
  induction n with
  | zero =>
    intro a b ha hb hab hn
    have h0 : dayNumber a = 0 := by omega
    rw [dayNumber_zero a ha h0, dayNumber_zero b hb (by omega)]
  | succ n ih =>
    intro a b ha hb hab hn
    by_cases hpos : 0 < dayNumber a
    · have := ih (prevDay a) (prevDay b) (prevDay_valid a ha) (prevDay_valid b hb)
        (by rw [dayNumber_prevDay a ha, dayNumber_prevDay b hb, hab])
        (by rw [dayNumber_prevDay a ha]; omega)
      rw [← nextDay_prevDay a ha, ← nextDay_prevDay b hb, this]
    · have := ih (nextDay a) (nextDay b) (nextDay_valid a ha) (nextDay_valid b hb)
        (by rw [dayNumber_nextDay a ha, dayNumber_nextDay b hb, hab])
        (by rw [dayNumber_nextDay a ha]; omega)
      exact nextDay_inj a b ha hb this

/-- two valid dates with the same day number are the same date -/
theorem dayNumber_inj (a b : Date) (ha : validDate a = true) (hb : validDate b = true)
    (h : dayNumber a = dayNumber b) : a = b := dayNumber_inj_aux _ a b ha hb h rfl

theorem dayNumber_unique_aux (f : Date → Int) (h0 : f ⟨1900, 1, 1⟩ = 0)
    (hs : ∀ d, validDate d = true → f (nextDay d) = f d + 1) (n : Nat) :
    ∀ d, validDate d = true → (dayNumber d).natAbs = n → f d = dayNumber d := by
  induction n with
  | zero =>
    intro d hd hn
    have hz : dayNumber d = 0 := by omega
    rw [dayNumber_zero d hd hz, h0]; decide
  | succ n ih =>
    intro d hd hn
    by_cases hpos : 0 < dayNumber d
    · have h1 := ih (prevDay d) (prevDay_valid d hd) (by rw [dayNumber_prevDay d hd]; omega)
      have h2 := hs (prevDay d) (prevDay_valid d hd)
      rw [nextDay_prevDay d hd] at h2
      rw [h2, h1, dayNumber_prevDay d hd]; omega
    · have h1 := ih (nextDay d) (nextDay_valid d hd) (by rw [dayNumber_nextDay d hd]; omega)
      have h2 := hs d hd
      rw [dayNumber_nextDay d hd] at h1; omega

/-- the two characterising facts determine the day count on every valid date -/
theorem dayNumber_unique (f : Date → Int) (h0 : f ⟨1900, 1, 1⟩ = 0)
    (hs : ∀ d, validDate d = true → f (nextDay d) = f d + 1) (d : Date) (hd : validDate d = true) :
    f d = dayNumber d := dayNumber_unique_aux f h0 hs _ d hd rfl

/-! ## Part B -/

theorem tmod_zero_iff (y k : Int) : Int.tmod y k = 0 ↔ y % k = 0 := by
  rw [← Int.dvd_iff_tmod_eq_zero, Int.dvd_iff_emod_eq_zero]

/-- the code's leap-year test (truncating `%`) is the 4/100/400 rule of the spec -/
theorem isLeapYear_eq (y : Int) : Cal.isLeapYear y = isLeap y := by
  unfold Cal.isLeapYear isLeap
  simp only [ne_eq, tmod_zero_iff]

/-- leap years in the `n` years starting at `y` -/
def leapCount : Nat → Int → Int
  | 0, _ => 0
  | n + 1, y => (if isLeap y then 1 else 0) + leapCount n (y + 1)

/-- multiples-of-4, minus multiples-of-100, plus multiples-of-400, up to `y` -/
def Lq (y : Int) : Int := y / 4 - y / 100 + y / 400

theorem leapCount_closed (n : Nat) : ∀ y : Int, leapCount n y = Lq (y + n - 1) - Lq (y - 1) := by
  induction n with
  | zero => intro y; unfold leapCount Lq; simp
  | succ n ih =>
    intro y
    unfold leapCount
    rw [ih (y + 1)]
    unfold Lq
    have e : y + 1 + (n : Int) - 1 = y + ((n + 1 : Nat) : Int) - 1 := by omega
    rw [e]
    generalize y + ((n + 1 : Nat) : Int) - 1 = z
    have e2 : y + 1 - 1 = y := by omega
    rw [e2]
    by_cases hl : isLeap y = true
    · rw [if_pos hl]; have := (isLeap_iff y).mp hl; omega
    · rw [if_neg hl]
      have := (isLeap_false_iff y).mp (by simpa using hl); omega


/-! ### durations without saturation -/

theorem NPD_eq : Cal.NPD = 86400000000000 := rfl
theorem NPH_eq : Cal.NPH = 3600000000000 := rfl
theorem NPMIN_eq : Cal.NPMIN = 60000000000 := rfl
theorem NPS_eq : Cal.NPS = 1000000000 := rfl
theorem NPMS_eq : Cal.NPMS = 1000000 := rfl
theorem NPUS_eq : Cal.NPUS = 1000 := rfl
theorem REF_YEAR_eq : Cal.REF_YEAR = 1900 := rfl
theorem DPY_eq : Cal.DPY = 365 := rfl

/-- within the representable range of durations (so that nothing saturates) -/
def InR (x : Int) : Prop := -103407943680000000000000 ≤ x ∧ x ≤ 103407943680000000000000

theorem add_val (a b : Dur) (ha : a.Canon) (hb : b.Canon) (h : InR (a.val + b.val)) :
    (Dur.add a b).Canon ∧ (Dur.add a b).val = a.val + b.val := by
  have := add_spec a b ha hb
  exact ⟨this.1, by rw [this.2, clampD_mid h.1 h.2]⟩

theorem sub_val (a b : Dur) (ha : a.Canon) (hb : b.Canon) (h : InR (a.val - b.val)) :
    (Dur.sub a b).Canon ∧ (Dur.sub a b).val = a.val - b.val := by
  have := sub_spec a b ha hb
  exact ⟨this.1, by rw [this.2, clampD_mid h.1 h.2]⟩

theorem mem_unitFactors (f : Int) (h : f = 1 ∨ f = 1000000000 ∨ f = 60000000000 ∨ f = 3600000000000 ∨ f = 86400000000000) :
    f ∈ unitFactors := by
  rw [unitFactors_eq]
  simp only [List.mem_cons, List.not_mem_nil, or_false]
  omega

/-- `unit * q` for the five units the calendar code uses and |q| ≤ 1.19·10^9: exact -/
theorem unitMul_val (f q : Int)
    (hf : f = 1 ∨ f = 1000000000 ∨ f = 60000000000 ∨ f = 3600000000000 ∨ f = 86400000000000)
    (hq : -1196851200 ≤ q ∧ q ≤ 1196851200) :
    (Dur.unitMulI64 f q).Canon ∧ (Dur.unitMulI64 f q).val = q * f := by
  have := unitMulI64_spec f q (mem_unitFactors f hf) (by unfold fitsI64; simp only [decide_eq_true_eq]; omega)
  refine ⟨this.1, ?_⟩
  rw [this.2, clampD_mid] <;> (rcases hf with h | h | h | h | h <;> subst h <;> omega)

theorem dayDur_val (q : Int) (hq : -1196851200 ≤ q ∧ q ≤ 1196851200) :
    (Cal.dayDur q).Canon ∧ (Cal.dayDur q).val = q * 86400000000000 := by
  unfold Cal.dayDur; rw [NPD_eq]
  exact unitMul_val _ q (by omega) hq

theorem leapCount_range (n : Nat) : ∀ y, 0 ≤ leapCount n y ∧ leapCount n y ≤ n := by
  induction n with
  | zero => intro y; unfold leapCount; omega
  | succ n ih =>
    intro y; unfold leapCount
    have := ih (y + 1)
    split <;> omega

theorem addLeapDays_val (n : Nat) : ∀ (y : Int) (d : Dur), d.Canon →
    -103407943680000000000000 ≤ d.val → d.val + n * 86400000000000 ≤ 103407943680000000000000 →
    (Cal.addLeapDays n y d).Canon ∧ (Cal.addLeapDays n y d).val = d.val + leapCount n y * 86400000000000 := by
  induction n with
  | zero => intro y d hd _ _; unfold Cal.addLeapDays leapCount; exact ⟨hd, by omega⟩
  | succ n ih =>
    intro y d hd h1 h2
    unfold Cal.addLeapDays leapCount
    rw [isLeapYear_eq]
    have hone := dayDur_val 1 (by omega)
    by_cases hl : isLeap y = true
    · rw [if_pos hl, if_pos hl]
      have ha := add_val d (Cal.dayDur 1) hd hone.1 (by unfold InR; rw [hone.2]; omega)
      rw [hone.2] at ha
      have := ih (y + 1) _ ha.1 (by rw [ha.2]; omega) (by rw [ha.2]; omega)
      refine ⟨this.1, ?_⟩
      rw [this.2, ha.2]; omega
    · rw [if_neg hl, if_neg hl]
      have := ih (y + 1) d hd h1 (by omega)
      refine ⟨this.1, ?_⟩
      rw [this.2]; omega

theorem subLeapDays_val (n : Nat) : ∀ (y : Int) (d : Dur), d.Canon →
    d.val ≤ 103407943680000000000000 → -103407943680000000000000 ≤ d.val - n * 86400000000000 →
    (Cal.subLeapDays n y d).Canon ∧ (Cal.subLeapDays n y d).val = d.val - leapCount n y * 86400000000000 := by
  induction n with
  | zero => intro y d hd _ _; unfold Cal.subLeapDays leapCount; exact ⟨hd, by omega⟩
  | succ n ih =>
    intro y d hd h1 h2
    unfold Cal.subLeapDays leapCount
    rw [isLeapYear_eq]
    have hone := dayDur_val 1 (by omega)
    by_cases hl : isLeap y = true
    · rw [if_pos hl, if_pos hl]
      have ha := sub_val d (Cal.dayDur 1) hd hone.1 (by unfold InR; rw [hone.2]; omega)
      rw [hone.2] at ha
      have := ih (y + 1) _ ha.1 (by rw [ha.2]; omega) (by rw [ha.2]; omega)
      refine ⟨this.1, ?_⟩
      rw [this.2, ha.2]; omega
    · rw [if_neg hl, if_neg hl]
      have := ih (y + 1) d hd h1 (by omega)
      refine ⟨this.1, ?_⟩
      rw [this.2]; omega

/-- days from 1900-01-01 to 1 January of year `y`, as the code counts them: 365-day years plus leap days -/
def jan1 (y : Int) : Int := 365 * (y - 1900) + (Lq (y - 1) - 460)

theorem gregYearPart_val (y : Int) (hy : -3000000 ≤ y ∧ y ≤ 3000000) :
    (Cal.gregYearPart y).Canon ∧ (Cal.gregYearPart y).val = jan1 y * 86400000000000 := by
  unfold Cal.gregYearPart jan1
  simp only [REF_YEAR_eq, DPY_eq]
  have hs := dayDur_val ((y - 1900) * 365) (by omega)
  by_cases hge : y ≥ 1900
  · rw [if_pos hge]
    have hr := leapCount_range (y - 1900).toNat 1900
    have := addLeapDays_val (y - 1900).toNat 1900 _ hs.1 (by rw [hs.2]; omega) (by rw [hs.2]; omega)
    refine ⟨this.1, ?_⟩
    rw [this.2, hs.2, leapCount_closed]
    have e : (1900 : Int) + ((y - 1900).toNat : Int) - 1 = y - 1 := by omega
    rw [e]
    have : Lq (1900 - 1) = 460 := by decide
    rw [this]; omega
  · rw [if_neg hge]
    have hr := leapCount_range (1900 - y).toNat y
    have := subLeapDays_val (1900 - y).toNat y _ hs.1 (by rw [hs.2]; omega) (by rw [hs.2]; omega)
    refine ⟨this.1, ?_⟩
    rw [this.2, hs.2, leapCount_closed]
    have e : y + ((1900 - y).toNat : Int) - 1 = 1899 := by omega
    rw [e]
    have : Lq 1899 = 460 := by decide
    rw [this]; omega


/-! ### month table -/

/-- days before month `m` in a common year (`m` in 1..12), written out -/
def cumCommon (m : Int) : Int :=
  if m = 1 then 0 else if m = 2 then 31 else if m = 3 then 59 else if m = 4 then 90 else if m = 5 then 120
  else if m = 6 then 151 else if m = 7 then 181 else if m = 8 then 212 else if m = 9 then 243
  else if m = 10 then 273 else if m = 11 then 304 else 334

theorem month_cases {m : Int} (h1 : 1 ≤ m) (h2 : m ≤ 12) :
    m = 1 ∨ m = 2 ∨ m = 3 ∨ m = 4 ∨ m = 5 ∨ m = 6 ∨ m = 7 ∨ m = 8 ∨ m = 9 ∨ m = 10 ∨ m = 11 ∨ m = 12 := by omega

/-- the code's two tables are the common-year prefix sums, plus one from March on in leap years -/
theorem cumulAt_eq (y m : Int) (h1 : 1 ≤ m) (h2 : m ≤ 12) :
    Cal.cumulAt y m = cumCommon m + (if isLeap y = true ∧ 3 ≤ m then 1 else 0) := by
  unfold Cal.cumulAt Cal.cumulDays
  rw [isLeapYear_eq]
  rcases month_cases h1 h2 with rfl | rfl | rfl | rfl | rfl | rfl | rfl | rfl | rfl | rfl | rfl | rfl <;>
    cases isLeap y <;> decide

/-- the code's day count (365-day years + leap days + month table + day) is the day number of
    the specification calendar -/
theorem modelDay_eq_dayNumber (y m d : Int) (h1 : 1 ≤ m) (h2 : m ≤ 12) :
    jan1 y + Cal.cumulAt y m + (d - 1) = dayNumber ⟨y, m, d⟩ := by
  rw [cumulAt_eq y m h1 h2]
  unfold jan1 Lq dayNumber cumCommon
  simp only
  by_cases hl : isLeap y = true
  · have hl' := (isLeap_iff y).mp hl
    rcases month_cases h1 h2 with rfl | rfl | rfl | rfl | rfl | rfl | rfl | rfl | rfl | rfl | rfl | rfl <;>
      simp [hl] <;> omega
  · have hl' := (isLeap_false_iff y).mp (by simpa using hl)
    rcases month_cases h1 h2 with rfl | rfl | rfl | rfl | rfl | rfl | rfl | rfl | rfl | rfl | rfl | rfl <;>
      simp [hl] <;> omega

/-! ### reference epochs of the time scales -/

/-- the nine `gregorian_epoch_offset`s, evaluated (prime offset minus its seconds-of-minute part) -/
theorem gregOff_eq (ts : TS) : Cal.gregorianEpochOffset ts =
    (match ts with
     | .ET => ⟨0, 3155716800000000000⟩ | .TDB => ⟨0, 3155716800000000000⟩
     | .GPST => ⟨0, 2524953600000000000⟩ | .QZSST => ⟨0, 2524953600000000000⟩
     | .GST => ⟨0, 3144268800000000000⟩ | .BDT => ⟨1, 189302400000000000⟩
     | .TAI => ⟨0, 0⟩ | .TT => ⟨0, 0⟩ | .UTC => ⟨0, 0⟩) := by
  cases ts <;> decide

/-- … and the `Res` form never fails -/
theorem gregOffR_ok (ts : TS) : Cal.gregorianEpochOffsetR ts = .ok (Cal.gregorianEpochOffset ts) := by
  cases ts <;> decide

/-- each offset is the nanosecond count from 1900-01-01T00:00:00 to the scale's reference
    date-time in the SPECIFICATION calendar (1900-01-01, J2000 noon, 1980-01-06, 1999-08-22, 2006-01-01) -/
theorem gregOff_val (ts : TS) :
    (Cal.gregorianEpochOffset ts).Canon ∧ (Cal.gregorianEpochOffset ts).val = refOffsetNs ts.name := by
  rw [gregOff_eq]
  unfold Dur.Canon Dur.val valP
  cases ts <;> decide

theorem refOffset_range (ts : TS) : 0 ≤ refOffsetNs ts.name ∧ refOffsetNs ts.name ≤ 3345062400000000000 := by
  cases ts <;> decide

/-! ### the remaining steps of `maybe_from_gregorian` -/

theorem gregTimePart_val (d h mi s ns : Int) (hd : 1 ≤ d ∧ d ≤ 31) (hh : 0 ≤ h ∧ h ≤ 24)
    (hmi : 0 ≤ mi ∧ mi ≤ 59) (hs : 0 ≤ s ∧ s ≤ 60) (hns : 0 ≤ ns ∧ ns ≤ 1000000000) :
    (Cal.gregTimePart d h mi s ns).Canon ∧
    (Cal.gregTimePart d h mi s ns).val =
      (d - 1) * 86400000000000 + h * 3600000000000 + mi * 60000000000 + s * 1000000000 + ns := by
  unfold Cal.gregTimePart
  simp only [NPH_eq, NPMIN_eq, NPS_eq]
  have a1 := dayDur_val (d - 1) (by omega)
  have a2 := unitMul_val 3600000000000 h (by omega) (by omega)
  have a3 := unitMul_val 60000000000 mi (by omega) (by omega)
  have a4 := unitMul_val 1000000000 s (by omega) (by omega)
  have a5 := unitMul_val 1 ns (by omega) (by omega)
  have b1 := add_val _ _ a1.1 a2.1 (by unfold InR; rw [a1.2, a2.2]; omega)
  rw [a1.2, a2.2] at b1
  have b2 := add_val _ _ b1.1 a3.1 (by unfold InR; rw [b1.2, a3.2]; omega)
  rw [b1.2, a3.2] at b2
  have b3 := add_val _ _ b2.1 a4.1 (by unfold InR; rw [b2.2, a4.2]; omega)
  rw [b2.2, a4.2] at b3
  have b4 := add_val _ _ b3.1 a5.1 (by unfold InR; rw [b3.2, a5.2]; omega)
  rw [b3.2, a5.2] at b4
  exact ⟨b4.1, by rw [b4.2]; omega⟩

theorem cumulAt_range (y m : Int) (h1 : 1 ≤ m) (h2 : m ≤ 12) : 0 ≤ Cal.cumulAt y m ∧ Cal.cumulAt y m ≤ 335 := by
  rw [cumulAt_eq y m h1 h2]; unfold cumCommon
  rcases month_cases h1 h2 with rfl | rfl | rfl | rfl | rfl | rfl | rfl | rfl | rfl | rfl | rfl | rfl <;>
    simp <;> split <;> omega

theorem jan1_range (y : Int) (hy : -3000000 ≤ y ∧ y ≤ 3000000) :
    -1097150000 ≤ jan1 y ∧ jan1 y ≤ 1097150000 := by
  unfold jan1 Lq; omega

/-- value of the duration built by `maybe_from_gregorian` once the fields passed the range tests:
    exact, no saturation, for |year| ≤ 3 000 000 -/
theorem gregFinish_val (y mo d h mi s ns : Int) (ts : TS) (hy : -3000000 ≤ y ∧ y ≤ 3000000)
    (hmo : 1 ≤ mo ∧ mo ≤ 12) (hd : 1 ≤ d ∧ d ≤ 31) (hh : 0 ≤ h ∧ h ≤ 24)
    (hmi : 0 ≤ mi ∧ mi ≤ 59) (hs : 0 ≤ s ∧ s ≤ 60) (hns : 0 ≤ ns ∧ ns ≤ 1000000000) :
    (Cal.gregFinish (Cal.gregYearPart y) y mo d h mi s ns ts).Canon ∧
    (Cal.gregFinish (Cal.gregYearPart y) y mo d h mi s ns ts).val =
      dayNumber ⟨y, mo, d⟩ * 86400000000000 + h * 3600000000000 + mi * 60000000000 + s * 1000000000 + ns
        - (if s = 60 then 1000000000 else 0) - refOffsetNs ts.name := by
  unfold Cal.gregFinish Cal.leapSecondAdj
  have hyp := gregYearPart_val y hy
  have hjr := jan1_range y hy
  have hcr := cumulAt_range y mo hmo.1 hmo.2
  have hc := dayDur_val (Cal.cumulAt y mo) (by omega)
  have ht := gregTimePart_val d h mi s ns hd hh hmi hs hns
  have hoff := gregOff_val ts
  have hor := refOffset_range ts
  have hday := modelDay_eq_dayNumber y mo d hmo.1 hmo.2
  have b1 := add_val _ _ hyp.1 hc.1 (by unfold InR; rw [hyp.2, hc.2]; omega)
  rw [hyp.2, hc.2] at b1
  have b2 := add_val _ _ b1.1 ht.1 (by unfold InR; rw [b1.2, ht.2]; omega)
  rw [b1.2, ht.2] at b2
  have hone := unitMul_val 1000000000 1 (by omega) (by omega)
  simp only [NPS_eq]
  by_cases h60 : s = 60
  · rw [if_pos h60, if_pos h60]
    have b3 := sub_val _ _ b2.1 hone.1 (by unfold InR; rw [b2.2, hone.2]; omega)
    rw [b2.2, hone.2] at b3
    have b4 := sub_val _ _ b3.1 hoff.1 (by unfold InR; rw [b3.2, hoff.2]; omega)
    rw [b3.2, hoff.2] at b4
    exact ⟨b4.1, by rw [b4.2]; omega⟩
  · rw [if_neg h60, if_neg h60]
    have b4 := sub_val _ _ b2.1 hoff.1 (by unfold InR; rw [b2.2, hoff.2]; omega)
    rw [b2.2, hoff.2] at b4
    exact ⟨b4.1, by rw [b4.2]; omega⟩

/-! ## Part C: accept / reject -/

/-- the code's two year lists are exactly the dates of the IERS table: an entry on 1 January of
    a `january_years` year or on 1 July of a `july_years` year, and nothing else -/
theorem mem_iers_iff (dt : Date) :
    iersLeapDates.contains dt = true ↔
      (dt.d = 1 ∧ ((dt.m = 1 ∧ Cal.januaryYears dt.y = true) ∨ (dt.m = 7 ∧ Cal.julyYears dt.y = true))) := by
  cases dt with | mk y m d =>
  unfold iersLeapDates Cal.januaryYears Cal.julyYears Gen.january_years Gen.july_years
  simp only [List.contains_cons, List.contains_nil, Bool.or_false, Bool.or_eq_true, beq_iff_eq,
    Date.mk.injEq, decide_eq_true_eq]
  constructor
  · intro h; omega
  · rintro ⟨rfl, ⟨rfl, hj⟩ | ⟨rfl, hj⟩⟩
    · rcases hj with rfl | rfl | rfl | rfl | rfl | rfl | rfl | rfl | rfl | rfl | rfl | rfl | rfl | rfl | rfl | rfl | rfl <;> simp
    · rcases hj with rfl | rfl | rfl | rfl | rfl | rfl | rfl | rfl | rfl | rfl | rfl <;> simp


theorem usual_eq_monthLen (y mo : Int) (h : mo ≠ 2 ∨ isLeap y = false) :
    Cal.usualDaysPerMonth mo = monthLen y mo := by
  unfold Cal.usualDaysPerMonth Gen.usual_days_per_month monthLen
  rcases h with h | h
  · rw [if_neg h, if_neg h]
  · simp [h]

theorem usual_feb : Cal.usualDaysPerMonth 2 = 28 := by decide

/-- the date part of the code's test is the spec's `validDate`, outside the class D10 -/
theorem dateOK_iff (y mo d : Int) (hmo : 0 ≤ mo) (hd : 0 ≤ d) (hD10 : Cal.d10class y mo d = false) :
    (¬ (mo = 0 ∨ mo > 12 ∨ d = 0 ∨ d > 31) ∧ ¬ (d > Cal.usualDaysPerMonth mo ∧ (mo ≠ 2 ∨ Cal.isLeapYear y = false)))
      ↔ validDate ⟨y, mo, d⟩ = true := by
  rw [validDate_iff, isLeapYear_eq]
  simp only
  unfold Cal.d10class at hD10
  rw [isLeapYear_eq] at hD10
  by_cases h2 : mo = 2
  · subst h2
    cases hl : isLeap y
    · rw [monthLen_2_common y hl, usual_feb]; simp; omega
    · rw [monthLen_2_leap y hl, usual_feb]
      simp [hl] at hD10 ⊢; omega
  · rw [usual_eq_monthLen y mo (Or.inl h2)]
    have := monthLen_cases y mo
    simp [h2]; omega

/-- 23:59:60 exists on a valid date exactly when the code's month/day/year-list test says so -/
theorem leapDay_iff (y mo d : Int) (hv : validDate ⟨y, mo, d⟩ = true) :
    iersLeapDates.contains (nextDay ⟨y, mo, d⟩) = true ↔
      ((mo = 12 ∨ mo = 6) ∧ d = Cal.usualDaysPerMonth mo ∧
        ((mo = 6 ∧ Cal.julyYears y = true) ∨ (mo = 12 ∧ Cal.januaryYears (y + 1) = true))) := by
  rw [mem_iers_iff]
  rw [validDate_iff] at hv
  simp only at hv
  obtain ⟨h1, h2, h3, h4⟩ := hv
  have hu6 : Cal.usualDaysPerMonth 6 = 30 := by decide
  have hu12 : Cal.usualDaysPerMonth 12 = 31 := by decide
  have hml := monthLen_cases y mo
  unfold nextDay
  simp only
  by_cases c1 : d < monthLen y mo
  · rw [if_pos c1]; simp only
    constructor
    · intro h; omega
    · rintro ⟨hm, hd, _⟩
      rcases hm with rfl | rfl
      · rw [hu12] at hd; rw [monthLen_12] at c1; omega
      · rw [hu6] at hd; rw [monthLen_6] at c1; omega
  · rw [if_neg c1]
    by_cases c2 : mo < 12
    · rw [if_pos c2]; simp only
      constructor
      · rintro ⟨_, h | h⟩
        · omega
        · have hm : mo = 6 := by omega
          subst hm
          rw [monthLen_6] at c1 h4
          exact ⟨Or.inr rfl, by rw [hu6]; omega, Or.inl ⟨rfl, h.2⟩⟩
      · rintro ⟨hm, hd, hy⟩
        rcases hy with ⟨rfl, hj⟩ | ⟨rfl, hj⟩
        · simp [hj]
        · omega
    · rw [if_neg c2]; simp only
      have hm : mo = 12 := by omega
      subst hm
      rw [monthLen_12] at c1 h4
      constructor
      · rintro ⟨_, h | h⟩
        · exact ⟨Or.inl rfl, by rw [hu12]; omega, Or.inr ⟨rfl, h.2⟩⟩
        · omega
      · rintro ⟨_, _, hy⟩
        rcases hy with ⟨h6, _⟩ | ⟨_, hj⟩
        · omega
        · simp [hj]


theorem maxSeconds_eq (y mo d h mi : Int) (hv : validDate ⟨y, mo, d⟩ = true) :
    Cal.maxSeconds y mo d h mi =
      if h = 23 ∧ mi = 59 ∧ iersLeapDates.contains (nextDay ⟨y, mo, d⟩) = true then 60 else 59 := by
  have hls := leapDay_iff y mo d hv
  unfold Cal.maxSeconds
  by_cases hc : iersLeapDates.contains (nextDay ⟨y, mo, d⟩) = true
  · have := hls.mp hc
    by_cases hh : h = 23 ∧ mi = 59
    · rw [if_pos ⟨this.1, this.2.1, hh.1, hh.2, this.2.2⟩, if_pos ⟨hh.1, hh.2, hc⟩]
    · rw [if_neg (fun x => hh ⟨x.2.2.1, x.2.2.2.1⟩), if_neg (fun x => hh ⟨x.1, x.2.1⟩)]
  · rw [if_neg (fun x => hc (hls.mpr ⟨x.1, x.2.1, x.2.2.2.2⟩)), if_neg (fun x => hc x.2.2)]

/-- ACCEPT / REJECT: outside the recorded class D10 and the two points the property leaves open
    (hour = 24, nanosecond = 10^9), the code's validity test accepts exactly the date-times the
    specification requires to be accepted and rejects exactly those it requires to be rejected. -/
theorem validCore_spec (y mo d h mi s ns : Int)
    (hmo : 0 ≤ mo) (hd : 0 ≤ d) (hh : 0 ≤ h) (hmi : 0 ≤ mi) (hs : 0 ≤ s) (hns : 0 ≤ ns)
    (hD10 : Cal.d10class y mo d = false) (h24 : h ≠ 24) (h9 : ns ≠ 1000000000) :
    (Cal.isGregorianValidCore y mo d h mi s ns = true ↔ mustAccept iersLeapDates ⟨y, mo, d⟩ h mi s ns = true) ∧
    (Cal.isGregorianValidCore y mo d h mi s ns = false ↔ mustReject iersLeapDates ⟨y, mo, d⟩ h mi s ns = true) := by
  have hdate := dateOK_iff y mo d hmo hd hD10
  have hnps : Gen.NANOSECONDS_PER_SECOND = 1000000000 := rfl
  unfold Cal.isGregorianValidCore mustAccept mustReject
  rw [hnps]
  by_cases hv : validDate ⟨y, mo, d⟩ = true
  · have hm := maxSeconds_eq y mo d h mi hv
    obtain ⟨hd1, hd2⟩ := hdate.mpr hv
    rw [hm, if_neg hd2, hv]
    generalize iersLeapDates.contains (nextDay ⟨y, mo, d⟩) = b
    cases b <;> simp <;> omega
  · have hnd := fun x => hv (hdate.mp x)
    simp only [Bool.not_eq_true] at hv
    rw [hv]
    simp only [Bool.false_and, Bool.not_false, Bool.true_or, Bool.false_eq_true, iff_false, iff_true,
      Bool.not_eq_true]
    by_cases c1 : mo = 0 ∨ mo > 12 ∨ d = 0 ∨ d > 31 ∨ h > 24 ∨ mi > 59 ∨ s > Cal.maxSeconds y mo d h mi
        ∨ ns > 1000000000
    · rw [if_pos c1]; simp
    · rw [if_neg c1]
      by_cases c2 : d > Cal.usualDaysPerMonth mo ∧ (mo ≠ 2 ∨ Cal.isLeapYear y = false)
      · rw [if_pos c2]; simp
      · exfalso; apply hnd
        exact ⟨fun x => c1 (by omega), c2⟩

/-- for |year| ≤ 3 000 000 neither the `year + 1` of the validity test nor the checked i32
    arithmetic can fail: the outcome is decided by the validity test alone -/
theorem maybeFromGregorian_eq (y mo d h mi s ns : Int) (ts : TS) (hy : -3000000 ≤ y ∧ y ≤ 3000000) :
    Cal.maybeFromGregorian y mo d h mi s ns ts =
      if Cal.isGregorianValidCore y mo d h mi s ns = false then .err
      else .ok (Cal.gregFinish (Cal.gregYearPart y) y mo d h mi s ns ts) := by
  unfold Cal.maybeFromGregorian
  have h1 : Cal.validPanics y mo d h mi = false := by
    unfold Cal.validPanics; simp only [decide_eq_false_iff_not]; omega
  have h2 : Cal.fitsI32 (y - Cal.REF_YEAR) = true := by
    unfold Cal.fitsI32; simp only [REF_YEAR_eq, decide_eq_true_eq]; omega
  have h3 : Cal.fitsI32 ((y - Cal.REF_YEAR) * Cal.DPY) = true := by
    unfold Cal.fitsI32; simp only [REF_YEAR_eq, DPY_eq, decide_eq_true_eq]; omega
  rw [h1, h2, h3]
  simp

/-- what the validity test implies about the field ranges -/
theorem validCore_ranges (y mo d h mi s ns : Int) (hmo : 0 ≤ mo) (hd : 0 ≤ d)
    (hv : Cal.isGregorianValidCore y mo d h mi s ns = true) :
    1 ≤ mo ∧ mo ≤ 12 ∧ 1 ≤ d ∧ d ≤ 31 ∧ h ≤ 24 ∧ mi ≤ 59 ∧ s ≤ 60 ∧ ns ≤ 1000000000 := by
  unfold Cal.isGregorianValidCore at hv
  have hnps : Gen.NANOSECONDS_PER_SECOND = 1000000000 := rfl
  rw [hnps] at hv
  have hm : Cal.maxSeconds y mo d h mi ≤ 60 := by unfold Cal.maxSeconds; split <;> omega
  by_cases c1 : mo = 0 ∨ mo > 12 ∨ d = 0 ∨ d > 31 ∨ h > 24 ∨ mi > 59 ∨ s > Cal.maxSeconds y mo d h mi
      ∨ ns > 1000000000
  · rw [if_pos c1] at hv; cases hv
  · omega


/-- EXACTNESS: for |year| ≤ 3 000 000, every field tuple the validity test lets through yields the
    canonical duration of value  dayNumber·86400e9 + time of day (− 1 s for second = 60) − reference offset -/
theorem maybeFromGregorian_val (y mo d h mi s ns : Int) (ts : TS) (hy : -3000000 ≤ y ∧ y ≤ 3000000)
    (hmo : 0 ≤ mo) (hd : 0 ≤ d) (hh : 0 ≤ h) (hmi : 0 ≤ mi) (hs : 0 ≤ s) (hns : 0 ≤ ns)
    (hv : Cal.isGregorianValidCore y mo d h mi s ns = true) :
    ∃ e, Cal.maybeFromGregorian y mo d h mi s ns ts = .ok e ∧ e.Canon ∧
      e.val = dayNumber ⟨y, mo, d⟩ * 86400000000000 + h * 3600000000000 + mi * 60000000000 + s * 1000000000 + ns
        - (if s = 60 then 1000000000 else 0) - refOffsetNs ts.name := by
  have hr := validCore_ranges y mo d h mi s ns hmo hd hv
  rw [maybeFromGregorian_eq y mo d h mi s ns ts hy, hv]
  have := gregFinish_val y mo d h mi s ns ts hy ⟨hr.1, hr.2.1⟩ ⟨hr.2.2.1, hr.2.2.2.1⟩ ⟨hh, hr.2.2.2.2.1⟩
    ⟨hmi, hr.2.2.2.2.2.1⟩ ⟨hs, hr.2.2.2.2.2.2.1⟩ ⟨hns, hr.2.2.2.2.2.2.2⟩
  exact ⟨_, by simp, this.1, this.2⟩

/-! ## Part D: `compute_gregorian` -/

/-- `Duration::decompose` on a canonical duration: never fails; the fields are the mixed-radix
    digits of the magnitude -/
theorem decompose_spec (d : Dur) (hd : d.Canon) :
    Dur.decompose d = .ok (Dur.signum d,
      (if d.val < 0 then -d.val else d.val) / 86400000000000,
      (if d.val < 0 then -d.val else d.val) % 86400000000000 / 3600000000000,
      (if d.val < 0 then -d.val else d.val) % 86400000000000 % 3600000000000 / 60000000000,
      (if d.val < 0 then -d.val else d.val) % 86400000000000 % 3600000000000 % 60000000000 / 1000000000,
      (if d.val < 0 then -d.val else d.val) % 86400000000000 % 3600000000000 % 60000000000 % 1000000000 / 1000000,
      (if d.val < 0 then -d.val else d.val) % 86400000000000 % 3600000000000 % 60000000000 % 1000000000 % 1000000 / 1000,
      (if d.val < 0 then -d.val else d.val) % 86400000000000 % 3600000000000 % 60000000000 % 1000000000 % 1000000 % 1000) := by
  obtain ⟨r, e1, e2, e3⟩ := abs_spec d hd
  have hr := canon_range d hd
  unfold DMIN DMAX at hr; simp only [NPCs_eq] at hr
  have hcl : clampD (if d.val < 0 then -d.val else d.val) = (if d.val < 0 then -d.val else d.val) := by
    rw [clampD_mid] <;> (split <;> omega)
  rw [hcl] at e3
  unfold Dur.decompose
  rw [e1]
  simp only
  have ht : (if r.c < 0 then -r.c else r.c) * NPC + r.ns = r.val := by
    obtain ⟨a1, a2, a3, a4⟩ := e2
    have : 0 ≤ r.val := by rw [e3]; split <;> omega
    unfold Dur.val valP at this ⊢
    simp only [NPC_eq, NPCs_eq] at *
    have hc : ¬ r.c < 0 := by omega
    rw [if_neg hc]
  rw [ht, e3]


theorem signum_neg_iff (d : Dur) (hd : d.Canon) : Dur.signum d < 0 ↔ d.val < 0 := by
  obtain ⟨a1, a2, a3, a4⟩ := hd
  unfold Dur.signum Dur.val valP
  simp only [NPC_eq, NPCs_eq] at *
  constructor
  · intro h; split at h <;> (try split at h) <;> omega
  · intro h
    have : d.c < 0 := by omega
    rw [if_pos this]; omega

/-- the first block of `compute_gregorian`: never fails; the signed day count and the time-of-day
    fields are the floor quotient and the mixed-radix digits of the remainder — for NEGATIVE
    durations as well (the code's "count backward" path) -/
theorem splitDays_spec (w : Dur) (hw : w.Canon) :
    ∃ days h mi s ms us ns, Cal.splitDays w = .ok (days, h, mi, s, ms, us, ns) ∧
      0 ≤ h ∧ h < 24 ∧ 0 ≤ mi ∧ mi < 60 ∧ 0 ≤ s ∧ s < 60 ∧
      0 ≤ ns + us * 1000 + ms * 1000000 ∧ ns + us * 1000 + ms * 1000000 < 1000000000 ∧
      days * 86400000000000 + h * 3600000000000 + mi * 60000000000 + s * 1000000000
        + (ns + us * 1000 + ms * 1000000) = w.val := by
  have hr := canon_range w hw
  unfold DMIN DMAX at hr; simp only [NPCs_eq] at hr
  unfold Cal.splitDays
  by_cases hneg : Dur.signum w < 0
  · rw [if_pos hneg]
    have hv : w.val < 0 := (signum_neg_iff w hw).mp hneg
    rw [decompose_spec w hw]
    simp only [if_pos hv]
    generalize hM : -w.val = M at *
    have hM0 : 0 < M := by omega
    -- the time of day of the magnitude, recomposed
    obtain ⟨t, t1, t2, t3⟩ := compose_spec 0 0 (M % 86400000000000 / 3600000000000)
      (M % 86400000000000 % 3600000000000 / 60000000000)
      (M % 86400000000000 % 3600000000000 % 60000000000 / 1000000000)
      (M % 86400000000000 % 3600000000000 % 60000000000 % 1000000000 / 1000000)
      (M % 86400000000000 % 3600000000000 % 60000000000 % 1000000000 % 1000000 / 1000)
      (M % 86400000000000 % 3600000000000 % 60000000000 % 1000000000 % 1000000 % 1000)
    rw [t1]
    simp only
    have ht : t.val = M % 86400000000000 := by
      rw [t3, if_neg (by omega), clampD_mid] <;> omega
    have h24 := unitMul_val 3600000000000 24 (by omega) (by omega)
    rw [NPH_eq]
    have hsub := sub_val _ _ h24.1 t2 (by unfold InR; rw [h24.2, ht]; omega)
    rw [h24.2, ht] at hsub
    rw [decompose_spec _ hsub.1, hsub.2]
    have hpos : ¬ (24 * 3600000000000 - M % 86400000000000 < 0) := by omega
    simp only [if_neg hpos]
    have hgt : Dur.gt t Dur.ZERO = true ↔ 0 < M % 86400000000000 := by
      unfold Dur.gt
      have hz : Dur.ZERO.Canon := by unfold Dur.ZERO Dur.Canon; simp only [NPC_eq]; omega
      rw [cmp_spec t Dur.ZERO t2 hz, ht]
      have : Dur.ZERO.val = 0 := by decide
      rw [this]; simp only [decide_eq_true_eq]
      constructor
      · intro h; split at h <;> (try split at h) <;> omega
      · intro h; rw [if_neg (by omega), if_pos (by omega)]
    refine ⟨_, _, _, _, _, _, _, rfl, ?_⟩
    by_cases hz : 0 < M % 86400000000000
    · rw [if_pos (hgt.mpr hz)]; omega
    · rw [if_neg (fun x => hz (hgt.mp x))]; omega
  · rw [if_neg hneg]
    have hv : ¬ w.val < 0 := fun x => hneg ((signum_neg_iff w hw).mpr x)
    rw [decompose_spec w hw]
    simp only [if_neg hv]
    refine ⟨_, _, _, _, _, _, _, rfl, ?_⟩
    omega

/-! ### the year search -/

/-- number of days of year `y` -/
def yearLen (y : Int) : Int := if isLeap y = true then 366 else 365

theorem jan1_succ (y : Int) : jan1 (y + 1) = jan1 y + yearLen y := by
  unfold jan1 Lq yearLen
  have e : y + 1 - 1 = y := by omega
  rw [e]
  by_cases hl : isLeap y = true
  · rw [if_pos hl]; have := (isLeap_iff y).mp hl; omega
  · rw [if_neg hl]; have := (isLeap_false_iff y).mp (by simpa using hl); omega

theorem jan1_pred (y : Int) : jan1 (y - 1) + yearLen (y - 1) = jan1 y := by
  have := jan1_succ (y - 1)
  have e : y - 1 + 1 = y := by omega
  rw [e] at this; omega

/-- `div_rem_f64(days, 365.0)` is floor division -/
theorem divRemF64_eq (a : Int) : Cal.divEuclidF64 a 365 = a / 365 ∧ Cal.remEuclidF64 a 365 = a % 365 := by
  unfold Cal.divEuclidF64 Cal.remEuclidF64
  rw [Int.tmod_eq_emod, Int.tdiv_eq_ediv]
  have hd : (365 : Int) ∣ a ↔ a % 365 = 0 := Int.dvd_iff_emod_eq_zero
  by_cases h : 0 ≤ a ∨ (365 : Int) ∣ a
  · simp only [if_pos h]
    refine ⟨?_, ?_⟩ <;> split <;> omega
  · simp only [if_neg h]
    have h1 : ¬ (0 ≤ a) := fun x => h (Or.inl x)
    have h2 : a % 365 ≠ 0 := fun x => h (Or.inr (hd.mpr x))
    have hn : ((365 : Int).natAbs : Int) = 365 := by decide
    have hs : Int.sign 365 = 1 := by decide
    rw [hn, hs]
    refine ⟨?_, ?_⟩ <;> split <;> omega

theorem subLeaps_eq (n : Nat) : ∀ y r, Cal.subLeaps n y r = r - leapCount n y := by
  induction n with
  | zero => intro y r; unfold Cal.subLeaps leapCount; omega
  | succ n ih =>
    intro y r; unfold Cal.subLeaps leapCount
    rw [ih, isLeapYear_eq]
    by_cases hl : isLeap y = true
    · rw [if_pos hl, if_pos hl]; omega
    · rw [if_neg hl, if_neg hl]; omega

theorem addLeaps_eq (n : Nat) : ∀ y r, Cal.addLeaps n y r = r + leapCount n y := by
  induction n with
  | zero => intro y r; unfold Cal.addLeaps leapCount; omega
  | succ n ih =>
    intro y r; unfold Cal.addLeaps leapCount
    rw [ih, isLeapYear_eq]
    by_cases hl : isLeap y = true
    · rw [if_pos hl, if_pos hl]; omega
    · rw [if_neg hl, if_neg hl]; omega

/-- FUEL / TERMINATION of the first `while`: `-days_in_year` iterations suffice (each adds ≥ 365),
    and the loop ends in the year containing the day -/
theorem fixUnder_spec (f : Nat) : ∀ y r, (-r).toNat ≤ f → r < yearLen y →
    jan1 (Cal.fixUnder f y r).1 + (Cal.fixUnder f y r).2 = jan1 y + r ∧
    0 ≤ (Cal.fixUnder f y r).2 ∧ (Cal.fixUnder f y r).2 < yearLen (Cal.fixUnder f y r).1 := by
  induction f with
  | zero =>
    intro y r hf hr
    unfold Cal.fixUnder
    exact ⟨rfl, by omega, hr⟩
  | succ f ih =>
    intro y r hf hr
    unfold Cal.fixUnder
    by_cases hneg : r < 0
    · rw [if_pos hneg, isLeapYear_eq]
      simp only [DPY_eq]
      have hp := jan1_pred y
      unfold yearLen at hp
      by_cases hl : isLeap (y - 1) = true
      · rw [if_pos hl] at hp ⊢
        have := ih (y - 1) (r + 365 + 1) (by omega) (by unfold yearLen; rw [if_pos hl]; omega)
        refine ⟨by rw [this.1]; omega, this.2⟩
      · rw [if_neg hl] at hp ⊢
        have := ih (y - 1) (r + 365) (by omega) (by unfold yearLen; rw [if_neg hl]; omega)
        refine ⟨by rw [this.1]; omega, this.2⟩
    · rw [if_neg hneg]
      exact ⟨rfl, by omega, hr⟩

/-- FUEL / TERMINATION of the second `while` -/
theorem fixOver_spec (f : Nat) : ∀ y r, r.toNat ≤ f → 0 ≤ r →
    jan1 (Cal.fixOver f y r).1 + (Cal.fixOver f y r).2 = jan1 y + r ∧
    0 ≤ (Cal.fixOver f y r).2 ∧ (Cal.fixOver f y r).2 < yearLen (Cal.fixOver f y r).1 := by
  induction f with
  | zero =>
    intro y r hf hr
    unfold Cal.fixOver
    have : r = 0 := by omega
    subst this
    exact ⟨rfl, by omega, by unfold yearLen; split <;> omega⟩
  | succ f ih =>
    intro y r hf hr
    unfold Cal.fixOver
    rw [isLeapYear_eq]
    simp only [DPY_eq]
    have hs := jan1_succ y
    unfold yearLen at hs
    by_cases hl : isLeap y = true
    · rw [if_pos hl] at hs
      by_cases hc : r ≥ 366
      · rw [if_pos (Or.inr ⟨by omega, hl⟩), if_pos hl]
        have := ih (y + 1) (r - 1 - 365) (by omega) (by omega)
        exact ⟨by rw [this.1]; omega, this.2⟩
      · rw [if_neg (by rw [hl]; simp; omega)]
        exact ⟨rfl, hr, by unfold yearLen; rw [if_pos hl]; omega⟩
    · rw [if_neg hl] at hs
      have hlf : isLeap y = false := by simpa using hl
      by_cases hc : r ≥ 365
      · rw [if_pos (Or.inl ⟨hc, hlf⟩), if_neg hl]
        have := ih (y + 1) (r - 365) (by omega) (by omega)
        exact ⟨by rw [this.1]; omega, this.2⟩
      · rw [if_neg (by rw [hlf]; simp; omega)]
        exact ⟨rfl, hr, by unfold yearLen; rw [if_neg hl]; omega⟩

/-- the year search of `compute_gregorian` (365-day estimate, leap-day loop, `while` correction,
    both sides of 1900) lands in THE year containing day `days`: 1 January of the returned year is
    `r` days before it, 0 ≤ r < length of that year -/
theorem yearOf_spec (days : Int) (hd : -1200000000 ≤ days ∧ days ≤ 1200000000) :
    jan1 (Cal.yearOf days).1 + (Cal.yearOf days).2 = days ∧
    0 ≤ (Cal.yearOf days).2 ∧ (Cal.yearOf days).2 < yearLen (Cal.yearOf days).1 := by
  unfold Cal.yearOf
  simp only [DPY_eq, REF_YEAR_eq]
  rw [(divRemF64_eq days).1, (divRemF64_eq days).2]
  have hsat : Cal.satI32 (days / 365) = days / 365 := by
    unfold Cal.satI32; rw [if_neg (by omega), if_neg (by omega)]
  rw [hsat]
  by_cases hge : days / 365 + 1900 ≥ 1900
  · rw [if_pos hge]
    unfold Cal.yearOfGe
    simp only [REF_YEAR_eq]
    rw [subLeaps_eq, leapCount_closed]
    have e : (1900 : Int) + (((days / 365 + 1900 - 1900).toNat : Nat) : Int) - 1 = days / 365 + 1900 - 1 := by omega
    rw [e]
    have hL : Lq (1900 - 1) = 460 := by decide
    rw [hL]
    have hq0 : 0 ≤ Lq (days / 365 + 1900 - 1) - 460 := by unfold Lq; omega
    have := fixUnder_spec (-(days % 365 - (Lq (days / 365 + 1900 - 1) - 460))).toNat (days / 365 + 1900)
      (days % 365 - (Lq (days / 365 + 1900 - 1) - 460)) (Nat.le_refl _)
      (by unfold yearLen; split <;> omega)
    refine ⟨?_, this.2⟩
    rw [this.1]; unfold jan1; omega
  · rw [if_neg hge]
    unfold Cal.yearOfLt
    simp only [REF_YEAR_eq]
    rw [addLeaps_eq, leapCount_closed]
    have e : days / 365 + 1900 + (((1900 - (days / 365 + 1900)).toNat : Nat) : Int) - 1 = 1899 := by omega
    rw [e]
    have hL : Lq 1899 = 460 := by decide
    rw [hL]
    have hq0 : 0 ≤ 460 - Lq (days / 365 + 1900 - 1) := by unfold Lq; omega
    have := fixOver_spec (days % 365 + (460 - Lq (days / 365 + 1900 - 1))).toNat (days / 365 + 1900)
      (days % 365 + (460 - Lq (days / 365 + 1900 - 1))) (Nat.le_refl _) (by omega)
    refine ⟨?_, this.2⟩
    rw [this.1]; unfold jan1; omega

/-! ### month and day from the day of the year -/

/-- month lengths of a common / leap year, for the table check below -/
def lensCommon : List Int := [31, 28, 31, 30, 31, 30, 31, 31, 30, 31, 30, 31]
def lensLeap : List Int := [31, 29, 31, 30, 31, 30, 31, 31, 30, 31, 30, 31]

/-- what the month search and the day subtraction must deliver for day-of-year `n` -/
def monthDayOK (tbl lens : List Int) (n : Nat) : Bool :=
  let m := Cal.searchMonth tbl (Cal.satU16 (n : Int))
  let d := Cal.satU8 ((n : Int) - tbl.getD (m - 1).toNat 0 + 1)
  decide (1 ≤ m ∧ m ≤ 12 ∧ 1 ≤ d ∧ d ≤ lens.getD (m - 1).toNat 0 ∧ tbl.getD (m - 1).toNat 0 + (d - 1) = (n : Int))

/-- complete check of the binary-search contract on both tables: all 365 / 366 days of the year -/
theorem monthDay_common : ∀ n, n < 365 → monthDayOK Gen.CUMULATIVE_DAYS_FOR_MONTH lensCommon n = true := by
  decide +kernel
theorem monthDay_leap : ∀ n, n < 366 → monthDayOK Gen.CUMULATIVE_DAYS_FOR_MONTH_LEAP_YEARS lensLeap n = true := by
  decide +kernel

theorem lens_eq_monthLen (y m : Int) (h1 : 1 ≤ m) (h2 : m ≤ 12) :
    (if isLeap y = true then lensLeap else lensCommon).getD (m - 1).toNat 0 = monthLen y m := by
  have hc := monthLen_cases y m
  rcases month_cases h1 h2 with rfl | rfl | rfl | rfl | rfl | rfl | rfl | rfl | rfl | rfl | rfl | rfl <;>
    cases hl : isLeap y <;> simp [hl, lensLeap, lensCommon] at hc ⊢ <;> omega

/-- month and day of `compute_gregorian`: a valid date of the year, `r` days after 1 January -/
theorem monthDay_spec (y r : Int) (h0 : 0 ≤ r) (h1 : r < yearLen y) :
    validDate ⟨y, Cal.monthOf y r, Cal.dayOf y r⟩ = true ∧
    Cal.cumulAt y (Cal.monthOf y r) + (Cal.dayOf y r - 1) = r := by
  have hlens := lens_eq_monthLen y (Cal.monthOf y r)
  rw [validDate_iff]
  simp only
  unfold Cal.dayOf Cal.monthOf Cal.cumulAt Cal.cumulDays at *
  rw [isLeapYear_eq] at *
  unfold yearLen at h1
  obtain ⟨n, rfl⟩ : ∃ n : Nat, r = (n : Int) := ⟨r.toNat, by omega⟩
  by_cases hl : isLeap y = true
  · rw [if_pos hl] at h1
    simp only [hl, if_true] at hlens ⊢
    have := monthDay_leap n (by omega)
    unfold monthDayOK at this
    simp only [decide_eq_true_eq] at this
    have hl2 := hlens this.1 this.2.1
    rw [← hl2]
    exact ⟨⟨this.1, this.2.1, this.2.2.1, this.2.2.2.1⟩, this.2.2.2.2⟩
  · rw [if_neg hl] at h1
    have hlf : isLeap y = false := by simpa using hl
    simp only [hlf, Bool.false_eq_true, if_false] at hlens ⊢
    have := monthDay_common n (by omega)
    unfold monthDayOK at this
    simp only [decide_eq_true_eq] at this
    have hl2 := hlens this.1 this.2.1
    rw [← hl2]
    exact ⟨⟨this.1, this.2.1, this.2.2.1, this.2.2.2.1⟩, this.2.2.2.2⟩

/-! ### `compute_gregorian` as a whole -/

/-- durations within ±9.4·10^22 ns of the reference (≈ ±2 978 000 years): the range on which the
    C09 theorems are stated (the whole `Duration` range is ±1.034·10^23 ns) -/
def InCal (x : Int) : Prop := -94000000000000000000000 ≤ x ∧ x ≤ 94000000000000000000000

theorem jan1_year_bound (y r days : Int) (h : jan1 y + r = days) (h0 : 0 ≤ r) (h1 : r < yearLen y)
    (hd : -1090000000 ≤ days ∧ days ≤ 1090000000) : -3000000 ≤ y ∧ y ≤ 3000000 := by
  unfold jan1 Lq at h
  unfold yearLen at h1
  split at h1 <;> omega

/-- `compute_gregorian` never fails on a canonical duration in range and returns: a valid date, hour < 24,
    minute < 60, second < 60, nanos < 10^9, whose day number and time of day give back the duration exactly -/
theorem computeGregorian_spec (d : Dur) (ts : TS) (hd : d.Canon) (hr : InCal d.val) :
    ∃ y mo dd h mi s ns, Cal.computeGregorian d ts = .ok (y, mo, dd, h, mi, s, ns) ∧
      validDate ⟨y, mo, dd⟩ = true ∧ -3000000 ≤ y ∧ y ≤ 3000000 ∧
      0 ≤ h ∧ h < 24 ∧ 0 ≤ mi ∧ mi < 60 ∧ 0 ≤ s ∧ s < 60 ∧ 0 ≤ ns ∧ ns < 1000000000 ∧
      dayNumber ⟨y, mo, dd⟩ * 86400000000000 + h * 3600000000000 + mi * 60000000000 + s * 1000000000 + ns
        - refOffsetNs ts.name = d.val := by
  unfold InCal at hr
  have hoff := gregOff_val ts
  have hor := refOffset_range ts
  have hw := add_val d _ hd hoff.1 (by unfold InR; rw [hoff.2]; omega)
  rw [hoff.2] at hw
  obtain ⟨days, h, mi, s, ms, us, ns, e1, k1, k2, k3, k4, k5, k6, k7, k8, k9⟩ := splitDays_spec _ hw.1
  rw [hw.2] at k9
  unfold Cal.computeGregorian
  rw [e1]
  simp only [NPUS_eq, NPMS_eq]
  have hdays : -1090000000 ≤ days ∧ days ≤ 1090000000 := by omega
  have hy := yearOf_spec days (by omega)
  have hmd := monthDay_spec (Cal.yearOf days).1 (Cal.yearOf days).2 hy.2.1 hy.2.2
  have hyb := jan1_year_bound _ _ _ hy.1 hy.2.1 hy.2.2 hdays
  have hv := (validDate_iff _).mp hmd.1
  simp only at hv
  have hday := modelDay_eq_dayNumber (Cal.yearOf days).1 (Cal.monthOf (Cal.yearOf days).1 (Cal.yearOf days).2)
    (Cal.dayOf (Cal.yearOf days).1 (Cal.yearOf days).2) hv.1 hv.2.1
  refine ⟨_, _, _, _, _, _, _, rfl, hmd.1, hyb.1, hyb.2, k1, k2, k3, k4, k5, k6, k7, k8, ?_⟩
  rw [← hday]
  have := hmd.2
  have := hy.1
  omega

/-! ### round trips -/

theorem valid_not_d10 (y mo d : Int) (hv : validDate ⟨y, mo, d⟩ = true) : Cal.d10class y mo d = false := by
  have hv' := (validDate_iff _).mp hv
  simp only at hv'
  unfold Cal.d10class
  rw [isLeapYear_eq]
  by_cases h2 : mo = 2
  · subst h2
    cases hl : isLeap y
    · simp
    · have := monthLen_2_leap y hl
      simp; omega
  · simp [h2]

/-- valid fields with second < 60 pass the code's validity test -/
theorem validCore_of_valid (y mo d h mi s ns : Int) (hv : validDate ⟨y, mo, d⟩ = true)
    (hh : 0 ≤ h ∧ h < 24) (hmi : 0 ≤ mi ∧ mi < 60) (hs : 0 ≤ s ∧ s < 60) (hns : 0 ≤ ns ∧ ns < 1000000000) :
    Cal.isGregorianValidCore y mo d h mi s ns = true := by
  have hv' := (validDate_iff _).mp hv
  simp only at hv'
  have hacc : mustAccept iersLeapDates ⟨y, mo, d⟩ h mi s ns = true := by
    unfold mustAccept
    simp only [hv, Bool.true_and, Bool.and_eq_true, Bool.or_eq_true, decide_eq_true_eq]
    exact ⟨⟨hh.1, hh.2, hmi.1, hmi.2, hns.1, hns.2⟩, Or.inl hs⟩
  exact (validCore_spec y mo d h mi s ns (by omega) (by omega) hh.1 hmi.1 hs.1 hns.1
    (valid_not_d10 y mo d hv) (by omega) (by omega)).1.mpr hacc

/-- ROUND TRIP 1: the fields computed from an epoch rebuild the identical epoch -/
theorem from_compute (d : Dur) (ts : TS) (hd : d.Canon) (hr : InCal d.val) :
    ∃ y mo dd h mi s ns, Cal.computeGregorian d ts = .ok (y, mo, dd, h, mi, s, ns) ∧
      Cal.maybeFromGregorian y mo dd h mi s ns ts = .ok d := by
  obtain ⟨y, mo, dd, h, mi, s, ns, e, hv, hy1, hy2, a1, a2, a3, a4, a5, a6, a7, a8, hval⟩ :=
    computeGregorian_spec d ts hd hr
  refine ⟨y, mo, dd, h, mi, s, ns, e, ?_⟩
  have hv' := (validDate_iff _).mp hv
  simp only at hv'
  have hcore := validCore_of_valid y mo dd h mi s ns hv ⟨a1, a2⟩ ⟨a3, a4⟩ ⟨a5, a6⟩ ⟨a7, a8⟩
  obtain ⟨e2, he2, hc2, hv2⟩ := maybeFromGregorian_val y mo dd h mi s ns ts ⟨hy1, hy2⟩ (by omega) (by omega) a1 a3 a5 a7 hcore
  rw [he2]
  rw [if_neg (by omega)] at hv2
  have : e2 = d := canon_unique e2 d hc2 hd (by rw [hv2]; omega)
  rw [this]

/-- a date-time is determined by its nanosecond count (valid date, fields in range) -/
theorem fields_unique (y mo d h mi s ns y' mo' d' h' mi' s' ns' : Int)
    (hv : validDate ⟨y, mo, d⟩ = true) (hv' : validDate ⟨y', mo', d'⟩ = true)
    (hh : 0 ≤ h ∧ h < 24) (hmi : 0 ≤ mi ∧ mi < 60) (hs : 0 ≤ s ∧ s < 60) (hns : 0 ≤ ns ∧ ns < 1000000000)
    (hh' : 0 ≤ h' ∧ h' < 24) (hmi' : 0 ≤ mi' ∧ mi' < 60) (hs' : 0 ≤ s' ∧ s' < 60) (hns' : 0 ≤ ns' ∧ ns' < 1000000000)
    (heq : dayNumber ⟨y, mo, d⟩ * 86400000000000 + h * 3600000000000 + mi * 60000000000 + s * 1000000000 + ns =
           dayNumber ⟨y', mo', d'⟩ * 86400000000000 + h' * 3600000000000 + mi' * 60000000000 + s' * 1000000000 + ns') :
    y = y' ∧ mo = mo' ∧ d = d' ∧ h = h' ∧ mi = mi' ∧ s = s' ∧ ns = ns' := by
  have hdn : dayNumber ⟨y, mo, d⟩ = dayNumber ⟨y', mo', d'⟩ := by omega
  have := dayNumber_inj _ _ hv hv' hdn
  simp only [Date.mk.injEq] at this
  refine ⟨this.1, this.2.1, this.2.2, ?_⟩
  rw [hdn] at heq
  omega

/-- ROUND TRIP 2: the fields of an epoch built from valid fields (second < 60) are those fields -/
theorem compute_from (y mo d h mi s ns : Int) (ts : TS) (hy : -2970000 ≤ y ∧ y ≤ 2970000)
    (hv : validDate ⟨y, mo, d⟩ = true)
    (hh : 0 ≤ h ∧ h < 24) (hmi : 0 ≤ mi ∧ mi < 60) (hs : 0 ≤ s ∧ s < 60) (hns : 0 ≤ ns ∧ ns < 1000000000) :
    ∃ e, Cal.maybeFromGregorian y mo d h mi s ns ts = .ok e ∧
      Cal.computeGregorian e ts = .ok (y, mo, d, h, mi, s, ns) := by
  have hv' := (validDate_iff _).mp hv
  simp only at hv'
  have hcore := validCore_of_valid y mo d h mi s ns hv hh hmi hs hns
  obtain ⟨e, he, hc, hval⟩ := maybeFromGregorian_val y mo d h mi s ns ts (by omega) (by omega) (by omega)
    hh.1 hmi.1 hs.1 hns.1 hcore
  rw [if_neg (by omega)] at hval
  refine ⟨e, he, ?_⟩
  have hor := refOffset_range ts
  have hml := monthLen_range y mo hv'.1 hv'.2.1
  have hday := modelDay_eq_dayNumber y mo d hv'.1 hv'.2.1
  have hcr := cumulAt_range y mo hv'.1 hv'.2.1
  have hin : InCal e.val := by
    unfold InCal; rw [hval, ← hday]; unfold jan1 Lq; omega
  obtain ⟨y2, mo2, d2, h2, mi2, s2, ns2, e2, hv2, _, _, b1, b2, b3, b4, b5, b6, b7, b8, hval2⟩ :=
    computeGregorian_spec e ts hc hin
  rw [e2]
  have := fields_unique y2 mo2 d2 h2 mi2 s2 ns2 y mo d h mi s ns hv2 hv ⟨b1, b2⟩ ⟨b3, b4⟩ ⟨b5, b6⟩ ⟨b7, b8⟩
    hh hmi hs hns (by omega)
  obtain ⟨r1, r2, r3, r4, r5, r6, r7⟩ := this
  subst r1 r2 r3 r4 r5 r6 r7
  rfl

/-! ### text -/

theorem fmtNat2 (n : Nat) (h : n < 100) : Cal.fmtNat 2 n = [48 + n / 10 % 10, 48 + n % 10] := by
  have h0 : n / 100 = 0 := by omega
  simp [Cal.fmtNat, Nat.div_div_eq_div_mul, h0]

theorem fmtNat4 (n : Nat) (h : n < 10000) :
    Cal.fmtNat 4 n = [48 + n / 1000 % 10, 48 + n / 100 % 10, 48 + n / 10 % 10, 48 + n % 10] := by
  have h0 : n / 10000 = 0 := by omega
  simp [Cal.fmtNat, Nat.div_div_eq_div_mul, h0]

theorem fmtNat9 (n : Nat) (h : n < 1000000000) :
    Cal.fmtNat 9 n = [48 + n / 100000000 % 10, 48 + n / 10000000 % 10,
      48 + n / 1000000 % 10, 48 + n / 100000 % 10, 48 + n / 10000 % 10,
      48 + n / 1000 % 10, 48 + n / 100 % 10, 48 + n / 10 % 10, 48 + n % 10] := by
  have h0 : n / 1000000000 = 0 := by omega
  simp [Cal.fmtNat, Nat.div_div_eq_div_mul, h0]

theorem dig_toNat (v : Int) (k : Nat) (h : 0 ≤ v) : v.toNat / k % 10 = (v / (k : Int) % 10).toNat := by
  obtain ⟨n, rfl⟩ : ∃ n : Nat, v = (n : Int) := ⟨v.toNat, by omega⟩
  rw [Int.toNat_natCast, ← Int.natCast_ediv]
  have : (((n / k : Nat) : Int) % 10) = (((n / k % 10 : Nat)) : Int) := by rw [Int.natCast_emod]; rfl
  rw [this, Int.toNat_natCast]

theorem fmtInt2_eq (v : Int) (h : 0 ≤ v ∧ v < 100) : Cal.fmtInt 2 v = dig2 v := by
  unfold Cal.fmtInt dig2 dig
  rw [if_neg (by omega), fmtNat2 v.toNat (by omega)]
  have e2 : v.toNat % 10 = (v % 10).toNat := by omega
  have e1 : v.toNat / 10 % 10 = (v / 10 % 10).toNat := dig_toNat v 10 h.1
  rw [e1, e2]

theorem fmtInt4_eq (v : Int) (h : 0 ≤ v ∧ v ≤ 9999) : Cal.fmtInt 4 v = dig4 v := by
  unfold Cal.fmtInt dig4 dig
  rw [if_neg (by omega), fmtNat4 v.toNat (by omega)]
  have e4 : v.toNat % 10 = (v % 10).toNat := by omega
  have e1 : v.toNat / 1000 % 10 = (v / 1000 % 10).toNat := dig_toNat v 1000 h.1
  have e2 : v.toNat / 100 % 10 = (v / 100 % 10).toNat := dig_toNat v 100 h.1
  have e3 : v.toNat / 10 % 10 = (v / 10 % 10).toNat := dig_toNat v 10 h.1
  rw [e1, e2, e3, e4]

theorem fmtInt9_eq (v : Int) (h : 0 ≤ v ∧ v < 1000000000) : Cal.fmtInt 9 v = dig9 v := by
  unfold Cal.fmtInt dig9 dig
  rw [if_neg (by omega), fmtNat9 v.toNat (by omega)]
  have e9 : v.toNat % 10 = (v % 10).toNat := by omega
  have e1 : v.toNat / 100000000 % 10 = (v / 100000000 % 10).toNat := dig_toNat v 100000000 h.1
  have e2 : v.toNat / 10000000 % 10 = (v / 10000000 % 10).toNat := dig_toNat v 10000000 h.1
  have e3 : v.toNat / 1000000 % 10 = (v / 1000000 % 10).toNat := dig_toNat v 1000000 h.1
  have e4 : v.toNat / 100000 % 10 = (v / 100000 % 10).toNat := dig_toNat v 100000 h.1
  have e5 : v.toNat / 10000 % 10 = (v / 10000 % 10).toNat := dig_toNat v 10000 h.1
  have e6 : v.toNat / 1000 % 10 = (v / 1000 % 10).toNat := dig_toNat v 1000 h.1
  have e7 : v.toNat / 100 % 10 = (v / 100 % 10).toNat := dig_toNat v 100 h.1
  have e8 : v.toNat / 10 % 10 = (v / 10 % 10).toNat := dig_toNat v 10 h.1
  rw [e1, e2, e3, e4, e5, e6, e7, e8, e9]

/-- the code's format strings produce the specification's text for fields in range, years 0..9999 -/
theorem render_eq (y mo d h mi s ns : Int) (ts : TS) (hy : 0 ≤ y ∧ y ≤ 9999) (hmo : 0 ≤ mo ∧ mo < 100)
    (hd : 0 ≤ d ∧ d < 100) (hh : 0 ≤ h ∧ h < 100) (hmi : 0 ≤ mi ∧ mi < 100) (hs : 0 ≤ s ∧ s < 100)
    (hns : 0 ≤ ns ∧ ns < 1000000000) :
    Cal.renderFields y mo d h mi s ns ts = renderDT ⟨y, mo, d⟩ h mi s ns ts.name := by
  unfold Cal.renderFields renderDT yearText Cal.strCodes
  simp only
  rw [if_pos hy, fmtInt4_eq y hy, fmtInt2_eq mo hmo, fmtInt2_eq d hd, fmtInt2_eq h hh, fmtInt2_eq mi hmi,
    fmtInt2_eq s hs]
  by_cases h0 : ns = 0
  · rw [if_pos h0, if_pos h0]
  · rw [if_neg h0, if_neg h0, fmtInt9_eq ns hns]

/-! ### accessors -/

theorem monthName_table :
    (List.range 12).map (fun (i : Nat) => Gen.MONTH_NAME_OF_U8.getD (i + 1) "") = monthNames := by decide

theorem monthName_eq (mo : Int) (h1 : 1 ≤ mo) (h2 : mo ≤ 12) :
    Gen.MONTH_NAME_OF_U8.getD mo.toNat (Gen.MONTH_NAME_OF_U8.getD 0 "") = monthNames.getD (mo - 1).toNat "" := by
  rcases month_cases h1 h2 with rfl | rfl | rfl | rfl | rfl | rfl | rfl | rfl | rfl | rfl | rfl | rfl <;> decide

/-- a valid date lies in its year: between 1 January and 1 January of the next year -/
theorem dayNumber_in_year (y mo d : Int) (hv : validDate ⟨y, mo, d⟩ = true) :
    dayNumber ⟨y, 1, 1⟩ ≤ dayNumber ⟨y, mo, d⟩ ∧ dayNumber ⟨y, mo, d⟩ < dayNumber ⟨y + 1, 1, 1⟩ := by
  have hv' := (validDate_iff _).mp hv
  simp only at hv'
  rw [← modelDay_eq_dayNumber y mo d hv'.1 hv'.2.1, ← modelDay_eq_dayNumber y 1 1 (by omega) (by omega),
    ← modelDay_eq_dayNumber (y + 1) 1 1 (by omega) (by omega), jan1_succ]
  rw [cumulAt_eq y mo hv'.1 hv'.2.1, cumulAt_eq y 1 (by omega) (by omega), cumulAt_eq (y + 1) 1 (by omega) (by omega)]
  unfold cumCommon yearLen
  have hml := monthLen_cases y mo
  rcases month_cases hv'.1 hv'.2.1 with rfl | rfl | rfl | rfl | rfl | rfl | rfl | rfl | rfl | rfl | rfl | rfl <;>
    cases hl : isLeap y <;> simp [hl] at hml ⊢ <;> omega

/-- `duration_in_year`: time since 1 January 00:00:00 of the epoch's year, exactly -/
theorem durationInYear_spec (d : Dur) (ts : TS) (hd : d.Canon) (hr : InCal d.val) :
    ∃ y mo dd h mi s ns r, Cal.computeGregorian d ts = .ok (y, mo, dd, h, mi, s, ns) ∧
      Cal.durationInYear d ts = .ok r ∧ r.Canon ∧
      r.val = (dayNumber ⟨y, mo, dd⟩ - dayNumber ⟨y, 1, 1⟩) * 86400000000000
        + h * 3600000000000 + mi * 60000000000 + s * 1000000000 + ns := by
  obtain ⟨y, mo, dd, h, mi, s, ns, e, hv, hy1, hy2, a1, a2, a3, a4, a5, a6, a7, a8, hval⟩ :=
    computeGregorian_spec d ts hd hr
  have hj : validDate ⟨y, 1, 1⟩ = true := by
    rw [validDate_iff]; simp only; rw [monthLen_1]; omega
  have hcore := validCore_of_valid y 1 1 0 0 0 0 hj (by omega) (by omega) (by omega) (by omega)
  obtain ⟨st, hst, hc, hsv⟩ := maybeFromGregorian_val y 1 1 0 0 0 0 ts ⟨hy1, hy2⟩ (by omega) (by omega) (by omega)
    (by omega) (by omega) (by omega) hcore
  rw [if_neg (by omega)] at hsv
  have hiy := dayNumber_in_year y mo dd hv
  have hs1 := jan1_succ y
  have hd1 := modelDay_eq_dayNumber y 1 1 (by omega) (by omega)
  have hd2 := modelDay_eq_dayNumber (y + 1) 1 1 (by omega) (by omega)
  rw [cumulAt_eq y 1 (by omega) (by omega)] at hd1
  rw [cumulAt_eq (y + 1) 1 (by omega) (by omega)] at hd2
  unfold cumCommon at hd1 hd2
  simp at hd1 hd2
  have hyl : yearLen y ≤ 366 := by unfold yearLen; split <;> omega
  have hsub := sub_val d st hd hc (by unfold InR; rw [hsv]; omega)
  refine ⟨y, mo, dd, h, mi, s, ns, _, e, ?_, hsub.1, ?_⟩
  · unfold Cal.durationInYear Cal.year Cal.fromGregorian
    rw [e]; simp only; rw [hst]
  · rw [hsub.2, hsv]; omega

end Hifi.Cal

namespace Hifi.Cal
open Hifi Spec

/-- the rejection direction needs no restriction on hour = 24 / nanosecond = 10⁹ (which the property leaves
    open only when everything else is fine): whatever the specification requires to be rejected — in particular
    second = 60 at 24:59 of a leap-second day — the validity test rejects -/
theorem validCore_rejects (y mo d h mi s ns : Int)
    (hmo : 0 ≤ mo) (hd : 0 ≤ d) (hh : 0 ≤ h) (hmi : 0 ≤ mi) (hs : 0 ≤ s) (hns : 0 ≤ ns)
    (hD10 : Cal.d10class y mo d = false)
    (hrej : mustReject iersLeapDates ⟨y, mo, d⟩ h mi s ns = true) :
    Cal.isGregorianValidCore y mo d h mi s ns = false := by
  have hdate := dateOK_iff y mo d hmo hd hD10
  have hnps : Gen.NANOSECONDS_PER_SECOND = 1000000000 := rfl
  unfold Cal.isGregorianValidCore
  unfold mustReject at hrej
  rw [hnps]
  by_cases hv : validDate ⟨y, mo, d⟩ = true
  · have hm := maxSeconds_eq y mo d h mi hv
    obtain ⟨hd1, hd2⟩ := hdate.mpr hv
    rw [hm, if_neg hd2]
    rw [hv] at hrej
    generalize iersLeapDates.contains (nextDay ⟨y, mo, d⟩) = b at hrej ⊢
    cases b <;> simp at hrej ⊢ <;> omega
  · have hnd := fun x => hv (hdate.mp x)
    by_cases c1 : mo = 0 ∨ mo > 12 ∨ d = 0 ∨ d > 31 ∨ h > 24 ∨ mi > 59 ∨ s > Cal.maxSeconds y mo d h mi
        ∨ ns > 1000000000
    · rw [if_pos c1]
    · rw [if_neg c1]
      by_cases c2 : d > Cal.usualDaysPerMonth mo ∧ (mo ≠ 2 ∨ Cal.isLeapYear y = false)
      · rw [if_pos c2]
      · exfalso; apply hnd
        exact ⟨fun x => c1 (by omega), c2⟩

end Hifi.Cal
