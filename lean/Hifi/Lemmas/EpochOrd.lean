import Hifi.Props.C06
/-
  Instants of epochs in the seven non-dynamical scales, and the comparison lemmas (C12, C04).
-/
namespace Hifi
open Spec Hifi.C06

/-- the non-dynamical scales -/
def TS.nonDyn : TS → Bool
  | .ET | .TDB => false
  | _ => true

/-- TAI count (ns) of the instant denoted by value `v` in scale `ts` (model-level constants) -/
def instV (ts : TS) (v : Int) : Int :=
  if ts = .UTC then v + Ldesc builtinDesc v else v + off ts

def Ep.inst (e : Ep) : Int := instV e.ts e.dur.val

/-- far enough from the duration bounds that no conversion can saturate (±4 centuries of margin) -/
def Safe (v : Int) : Prop := DMIN + 4 * NPCs ≤ v ∧ v ≤ DMAX - 4 * NPCs

theorem off_bounds (ts : TS) : -2 * NPCs ≤ off ts ∧ off ts ≤ 2 * NPCs := by
  cases ts <;> decide

theorem L_bounds (v : Int) : 0 ≤ Ldesc builtinDesc v ∧ Ldesc builtinDesc v ≤ 37000000000 := by
  have h := Ldesc_bounds builtinDesc v builtinDesc_ok
  have : headD builtinDesc = 37000000000 := by decide +kernel
  omega

theorem instV_bounds (ts : TS) (v : Int) : v - 2 * NPCs ≤ instV ts v ∧ instV ts v ≤ v + 2 * NPCs := by
  unfold instV
  have h1 := off_bounds ts
  have h2 := L_bounds v
  simp only [NPCs_eq] at *
  split <;> omega

/-- first half of `to_time_scale`, any non-dynamical source: the TAI count of the instant -/
theorem toTaiDur_inst (d : Dur) (a : TS) (hd : d.Canon) (ha : a.nonDyn = true) (hs : Safe d.val) :
    ∃ p, toTaiDur builtin d a = some p ∧ p.Canon ∧ p.val = instV a d.val := by
  unfold Safe at hs; unfold DMIN DMAX at hs; simp only [NPCs_eq] at hs
  by_cases hu : a = .UTC
  · subst hu
    obtain ⟨p, p1, p2, p3⟩ := utc_to_tai_exact d hd (by unfold DMAX; simp only [NPCs_eq]; omega)
    refine ⟨p, p1, p2, ?_⟩
    rw [p3]; unfold instV utcToTai; rw [if_pos rfl, builtin_L_eq_spec]
  · have hun : a.isUniform = true := by cases a <;> simp_all [TS.nonDyn, TS.isUniform]
    obtain ⟨p, p1, p2, p3⟩ := toTaiDur_uniform builtin d a hd hun
    refine ⟨p, p1, p2, ?_⟩
    have hb := off_bounds a; simp only [NPCs_eq] at hb
    rw [p3]; unfold instV; rw [if_neg hu, clampD_mid] <;> omega

/-- conversion of any non-dynamical epoch into a uniform scale re-expresses the same instant -/
theorem to_uniform_inst (d : Dur) (a b : TS) (hd : d.Canon) (ha : a.nonDyn = true) (hb : b.isUniform = true)
    (hs : Safe d.val) :
    ∃ r, (Ep.mk d a).to b = some ⟨r, b⟩ ∧ r.Canon ∧ r.val = instV a d.val - off b := by
  unfold Ep.to toTimeScale
  have hs' := hs
  unfold Safe at hs; unfold DMIN DMAX at hs; simp only [NPCs_eq] at hs
  by_cases hab : b = a
  · subst hab
    rw [if_pos rfl]
    refine ⟨d, rfl, hd, ?_⟩
    have : b ≠ .UTC := by intro h; subst h; simp [TS.isUniform] at hb
    unfold instV; rw [if_neg this]; omega
  · rw [if_neg hab]
    obtain ⟨p, p1, p2, p3⟩ := toTaiDur_inst d a hd ha hs'
    obtain ⟨r, r1, r2, r3⟩ := fromTaiDur_uniform builtin p b p2 hb
    simp only [p1, r1]
    refine ⟨r, rfl, r2, ?_⟩
    have hi := instV_bounds a d.val
    have ho := off_bounds b
    simp only [NPCs_eq] at hi ho
    rw [r3, p3, clampD_mid] <;> omega

theorem instV_uniform (b : TS) (v : Int) (hb : b.isUniform = true) : instV b v = v + off b := by
  have : b ≠ .UTC := by intro h; subst h; simp [TS.isUniform] at hb
  unfold instV; rw [if_neg this]

/-- strict monotonicity of the UTC count → instant map, both directions -/
theorem instV_utc_lt_iff (u1 u2 : Int) : instV .UTC u1 < instV .UTC u2 ↔ u1 < u2 := by
  unfold instV; simp only [if_true]
  constructor
  · intro h
    by_cases hlt : u1 < u2
    · exact hlt
    · exfalso
      have := Ldesc_mono builtinDesc u2 u1 builtinDesc_ok (by omega); omega
  · intro h; exact forward_strict_mono builtinDesc u1 u2 builtinDesc_ok h

theorem instV_lt_iff_same (ts : TS) (u1 u2 : Int) : instV ts u1 < instV ts u2 ↔ u1 < u2 := by
  by_cases h : ts = .UTC
  · subst h; exact instV_utc_lt_iff u1 u2
  · unfold instV; rw [if_neg h, if_neg h]; omega

def cmpI (x y : Int) : Int := if x < y then -1 else if x > y then 1 else 0

theorem cmp_eq_cmpI (a b : Dur) (ha : a.Canon) (hb : b.Canon) : Dur.cmp a b = cmpI a.val b.val :=
  cmp_spec a b ha hb

/-- `Ord for Epoch` is the chronological order of the instants -/
theorem Ep_cmp_spec (a b : Ep) (ha : a.dur.Canon) (hb : b.dur.Canon) (hta : a.ts.nonDyn = true) (htb : b.ts.nonDyn = true)
    (hsa : Safe a.dur.val) (hsb : Safe b.dur.val) :
    Ep.cmp a b = some (cmpI a.inst b.inst) := by
  obtain ⟨da, ta⟩ := a
  obtain ⟨db, tb⟩ := b
  simp only at ha hb hta htb hsa hsb
  unfold Ep.cmp Ep.inst
  simp only
  by_cases h1 : ta.usesLeapSeconds = true ∧ ¬ tb.usesLeapSeconds = true
  · rw [if_pos h1]
    have hau : ta = .UTC := by cases ta <;> simp_all [TS.usesLeapSeconds]
    have hbu : tb.isUniform = true := by cases tb <;> simp_all [TS.usesLeapSeconds, TS.nonDyn, TS.isUniform]
    obtain ⟨r, r1, r2, r3⟩ := to_uniform_inst da ta tb ha hta hbu hsa
    rw [r1]; simp only
    rw [cmp_eq_cmpI r db r2 hb, r3, instV_uniform tb db.val hbu]
    unfold cmpI; congr 1; grind
  · rw [if_neg h1]
    by_cases hsame : ta = tb
    · subst hsame
      have : (Ep.mk db ta).to ta = some ⟨db, ta⟩ := by unfold Ep.to toTimeScale; rw [if_pos rfl]
      rw [this]; simp only
      rw [cmp_eq_cmpI da db ha hb]
      unfold cmpI
      have h1 := instV_lt_iff_same ta da.val db.val
      have h2 := instV_lt_iff_same ta db.val da.val
      grind
    · -- tb ≠ ta and not (ta = UTC ∧ tb ≠ UTC): ta is uniform
      have hau : ta.isUniform = true := by
        cases ta <;> cases tb <;> simp_all [TS.usesLeapSeconds, TS.nonDyn, TS.isUniform]
      obtain ⟨r, r1, r2, r3⟩ := to_uniform_inst db tb ta hb htb hau hsb
      rw [r1]; simp only
      rw [cmp_eq_cmpI da r ha r2, r3, instV_uniform ta da.val hau]
      unfold cmpI; grind

/-- `PartialEq for Epoch`: equal exactly when the instants are equal -/
theorem Ep_eqb_spec (a b : Ep) (ha : a.dur.Canon) (hb : b.dur.Canon) (hta : a.ts.nonDyn = true) (htb : b.ts.nonDyn = true)
    (hsa : Safe a.dur.val) (hsb : Safe b.dur.val) :
    Ep.eqb a b = some (decide (a.inst = b.inst)) := by
  obtain ⟨da, ta⟩ := a
  obtain ⟨db, tb⟩ := b
  simp only at ha hb hta htb hsa hsb
  unfold Ep.eqb Ep.inst
  simp only
  by_cases hsame : ta = tb
  · subst hsame
    rw [if_pos rfl, cmp_eq_cmpI da db ha hb]
    have h1 := instV_lt_iff_same ta da.val db.val
    have h2 := instV_lt_iff_same ta db.val da.val
    unfold cmpI; congr 1; grind
  · rw [if_neg hsame]
    by_cases hl : ta.usesLeapSeconds ≠ tb.usesLeapSeconds
    · rw [if_pos hl]
      by_cases hau : ta.usesLeapSeconds = true
      · rw [if_pos hau]
        have hbu : tb.isUniform = true := by cases ta <;> cases tb <;> simp_all [TS.usesLeapSeconds, TS.nonDyn, TS.isUniform]
        obtain ⟨r, r1, r2, r3⟩ := to_uniform_inst da ta tb ha hta hbu hsa
        rw [r1]; simp only
        rw [cmp_eq_cmpI r db r2 hb, r3, instV_uniform tb db.val hbu]
        unfold cmpI; congr 1; grind
      · rw [if_neg hau]
        have hau' : ta.isUniform = true := by cases ta <;> cases tb <;> simp_all [TS.usesLeapSeconds, TS.nonDyn, TS.isUniform]
        obtain ⟨r, r1, r2, r3⟩ := to_uniform_inst db tb ta hb htb hau' hsb
        rw [r1]; simp only
        rw [cmp_eq_cmpI da r ha r2, r3, instV_uniform ta da.val hau']
        unfold cmpI; congr 1; grind
    · rw [if_neg hl]
      have hau' : ta.isUniform = true := by cases ta <;> cases tb <;> simp_all [TS.usesLeapSeconds, TS.nonDyn, TS.isUniform]
      obtain ⟨r, r1, r2, r3⟩ := to_uniform_inst db tb ta hb htb hau' hsb
      rw [r1]; simp only
      rw [cmp_eq_cmpI da r ha r2, r3, instV_uniform ta da.val hau']
      unfold cmpI; congr 1; grind

end Hifi
