import Hifi.Props.C06
/-
  Instants of epochs in the seven non-dynamical scales, and the comparison lemmas (C12, C04).
-/
namespace Hifi
open Spec Hifi.C06

/-- the non-dynamical scales -/
def TS.nonDyn : TS → Bool
  | .ET | .TDB => false
  | _ => true

/-- TAI count (ns) of the instant denoted by value `v` in scale `ts` (model-level constants) -/
def instV (ts : TS) (v : Int) : Int :=
  if ts = .UTC then v + Ldesc builtinDesc v else v + off ts

def Ep.inst (e : Ep) : Int := instV e.ts e.dur.val

/-- far enough from the duration bounds that no conversion can saturate (±4 centuries of margin) -/
def Safe (v : Int) : Prop := DMIN + 4 * NPCs ≤ v ∧ v ≤ DMAX - 4 * NPCs

theorem off_bounds (ts : TS) : -2 * NPCs ≤ off ts ∧ off ts ≤ 2 * NPCs := by
  cases ts <;> decide

theorem L_bounds (v : Int) : 0 ≤ Ldesc builtinDesc v ∧ Ldesc builtinDesc v ≤ 37000000000 := by
  have h := Ldesc_bounds builtinDesc v builtinDesc_ok
  have : headD builtinDesc = 37000000000 := by decide +kernel
  omega

theorem instV_bounds (ts : TS) (v : Int) : v - 2 * NPCs ≤ instV ts v ∧ instV ts v ≤ v + 2 * NPCs := by
  unfold instV
  have h1 := off_bounds ts
  have h2 := L_bounds v
  simp only [NPCs_eq] at *
  split <;> omega

/-- "NO CONVERSION SATURATES", exactly: on the way from scale `a` (value `v`) to the scale `b`, both
    intermediate values of `to_time_scale` — the TAI count of the instant and the value in `b` — are
    representable.  Nothing is demanded when `b = a` (the conversion is the identity).  No margin. -/
def ConvFits (a b : TS) (v : Int) : Prop :=
  b = a ∨ (DMIN ≤ instV a v ∧ instV a v ≤ DMAX ∧ DMIN ≤ instV a v - off b ∧ instV a v - off b ≤ DMAX)

instance (a b : TS) (v : Int) : Decidable (ConvFits a b v) := by unfold ConvFits; exact inferInstance

/-- four centuries of margin are (much) more than enough -/
theorem ConvFits_of_Safe (a b : TS) (v : Int) (hs : Safe v) : ConvFits a b v := by
  right
  have hi := instV_bounds a v
  have ho := off_bounds b
  unfold Safe at hs
  unfold DMIN DMAX at *; simp only [NPCs_eq] at *
  omega

/-- first half of `to_time_scale`, any non-dynamical source: the TAI count of the instant, as soon as
    that count is representable -/
theorem toTaiDur_inst_nosat (d : Dur) (a : TS) (hd : d.Canon) (ha : a.nonDyn = true)
    (hs : DMIN ≤ instV a d.val ∧ instV a d.val ≤ DMAX) :
    ∃ p, toTaiDur builtin d a = some p ∧ p.Canon ∧ p.val = instV a d.val := by
  unfold DMIN DMAX at hs; simp only [NPCs_eq] at hs
  by_cases hu : a = .UTC
  · subst hu
    have hi : instV .UTC d.val = utcToTai iersTbl d.val := by
      unfold instV utcToTai; rw [if_pos rfl, builtin_L_eq_spec]
    obtain ⟨p, p1, p2, p3⟩ := utc_to_tai_exact_nosat d hd (by rw [← hi]; unfold DMAX; simp only [NPCs_eq]; omega)
    exact ⟨p, p1, p2, by rw [p3, hi]⟩
  · have hun : a.isUniform = true := by cases a <;> simp_all [TS.nonDyn, TS.isUniform]
    obtain ⟨p, p1, p2, p3⟩ := toTaiDur_uniform builtin d a hd hun
    refine ⟨p, p1, p2, ?_⟩
    unfold instV at hs ⊢; rw [if_neg hu] at hs ⊢
    rw [p3, clampD_mid] <;> omega

theorem toTaiDur_inst (d : Dur) (a : TS) (hd : d.Canon) (ha : a.nonDyn = true) (hs : Safe d.val) :
    ∃ p, toTaiDur builtin d a = some p ∧ p.Canon ∧ p.val = instV a d.val := by
  refine toTaiDur_inst_nosat d a hd ha ?_
  have hi := instV_bounds a d.val
  unfold Safe at hs; unfold DMIN DMAX at *; simp only [NPCs_eq] at *; omega

/-- conversion of any non-dynamical epoch into a uniform scale re-expresses the same instant, as soon as
    no step of the conversion saturates -/
theorem to_uniform_inst_nosat (d : Dur) (a b : TS) (hd : d.Canon) (ha : a.nonDyn = true) (hb : b.isUniform = true)
    (hs : ConvFits a b d.val) :
    ∃ r, (Ep.mk d a).to b = some ⟨r, b⟩ ∧ r.Canon ∧ r.val = instV a d.val - off b := by
  unfold Ep.to toTimeScale
  by_cases hab : b = a
  · subst hab
    rw [if_pos rfl]
    refine ⟨d, rfl, hd, ?_⟩
    have : b ≠ .UTC := by intro h; subst h; simp [TS.isUniform] at hb
    unfold instV; rw [if_neg this]; omega
  · rw [if_neg hab]
    rcases hs with hs | hs
    · exact absurd hs hab
    obtain ⟨p, p1, p2, p3⟩ := toTaiDur_inst_nosat d a hd ha ⟨hs.1, hs.2.1⟩
    obtain ⟨r, r1, r2, r3⟩ := fromTaiDur_uniform builtin p b p2 hb
    simp only [p1, r1]
    refine ⟨r, rfl, r2, ?_⟩
    unfold DMIN DMAX at hs; simp only [NPCs_eq] at hs
    rw [r3, p3, clampD_mid] <;> omega

theorem to_uniform_inst (d : Dur) (a b : TS) (hd : d.Canon) (ha : a.nonDyn = true) (hb : b.isUniform = true)
    (hs : Safe d.val) :
    ∃ r, (Ep.mk d a).to b = some ⟨r, b⟩ ∧ r.Canon ∧ r.val = instV a d.val - off b :=
  to_uniform_inst_nosat d a b hd ha hb (ConvFits_of_Safe a b d.val hs)

theorem instV_uniform (b : TS) (v : Int) (hb : b.isUniform = true) : instV b v = v + off b := by
  have : b ≠ .UTC := by intro h; subst h; simp [TS.isUniform] at hb
  unfold instV; rw [if_neg this]

/-- strict monotonicity of the UTC count → instant map, both directions -/
theorem instV_utc_lt_iff (u1 u2 : Int) : instV .UTC u1 < instV .UTC u2 ↔ u1 < u2 := by
  unfold instV; simp only [if_true]
  constructor
  · intro h
    by_cases hlt : u1 < u2
    · exact hlt
    · exfalso
      have := Ldesc_mono builtinDesc u2 u1 builtinDesc_ok (by omega); omega
  · intro h; exact forward_strict_mono builtinDesc u1 u2 builtinDesc_ok h

theorem instV_lt_iff_same (ts : TS) (u1 u2 : Int) : instV ts u1 < instV ts u2 ↔ u1 < u2 := by
  by_cases h : ts = .UTC
  · subst h; exact instV_utc_lt_iff u1 u2
  · unfold instV; rw [if_neg h, if_neg h]; omega

/-- a UTC count is determined by its instant -/
theorem instV_utc_inj (u1 u2 : Int) (h : instV .UTC u1 = instV .UTC u2) : u1 = u2 := by
  have h1 := instV_utc_lt_iff u1 u2
  have h2 := instV_utc_lt_iff u2 u1
  omega

/-- conversion of any non-dynamical epoch INTO UTC: when its instant has a UTC pre-image `u` (it lies outside
    the inserted seconds: D9b) the result is the UTC epoch of count `u`, as soon as nothing saturates
    (`u` and the TAI count representable; nothing demanded when the epoch is already in UTC) -/
theorem to_utc_inst_nosat (d : Dur) (a : TS) (hd : d.Canon) (ha : a.nonDyn = true) (u : Int)
    (hu : instV .UTC u = instV a d.val) (hfit : a = .UTC ∨ (DMIN ≤ u ∧ instV a d.val ≤ DMAX)) :
    ∃ r, (Ep.mk d a).to .UTC = some ⟨r, .UTC⟩ ∧ r.Canon ∧ r.val = u := by
  unfold Ep.to toTimeScale
  by_cases hab : TS.UTC = a
  · subst hab
    rw [if_pos rfl]
    exact ⟨d, rfl, hd, (instV_utc_inj u d.val hu).symm⟩
  · rw [if_neg hab]
    rcases hfit with hfit | hfit
    · exact absurd hfit.symm hab
    have hL := L_bounds u
    have hiu : instV .UTC u = u + Ldesc builtinDesc u := by unfold instV; rw [if_pos rfl]
    obtain ⟨p, p1, p2, p3⟩ := toTaiDur_inst_nosat d a hd ha ⟨by rw [← hu, hiu]; omega, hfit.2⟩
    have hpu : p.val = utcToTai iersTbl u := by
      rw [p3, ← hu, hiu]; unfold utcToTai; rw [builtin_L_eq_spec]
    have hr := tai_to_utc_of_image p p2 u hpu hfit.1
    simp only [p1]
    exact ⟨taiToUtc p builtin, rfl, hr.1, hr.2⟩

def cmpI (x y : Int) : Int := if x < y then -1 else if x > y then 1 else 0

theorem cmp_eq_cmpI (a b : Dur) (ha : a.Canon) (hb : b.Canon) : Dur.cmp a b = cmpI a.val b.val :=
  cmp_spec a b ha hb

/-- the ONE conversion that `==` / `cmp` / `min` / `max` perform does not saturate: a UTC left operand facing
    a non-UTC right operand is converted into the right operand's scale; in every other case the right operand
    is converted into the left operand's scale (nothing is demanded for operands of the same scale) -/
def CmpFits (a b : Ep) : Prop :=
  if a.ts.usesLeapSeconds = true ∧ ¬ b.ts.usesLeapSeconds = true then ConvFits a.ts b.ts a.dur.val
  else ConvFits b.ts a.ts b.dur.val

instance (a b : Ep) : Decidable (CmpFits a b) := by unfold CmpFits; exact inferInstance

theorem CmpFits_of_Safe (a b : Ep) (hsa : Safe a.dur.val) (hsb : Safe b.dur.val) : CmpFits a b := by
  unfold CmpFits; split
  · exact ConvFits_of_Safe _ _ _ hsa
  · exact ConvFits_of_Safe _ _ _ hsb

theorem CmpFits_same (a b : Ep) (h : a.ts = b.ts) : CmpFits a b := by
  unfold CmpFits ConvFits; split
  · exact Or.inl h.symm
  · exact Or.inl h

/-- `Ord for Epoch` is the chronological order of the instants -/
theorem Ep_cmp_spec_nosat (a b : Ep) (ha : a.dur.Canon) (hb : b.dur.Canon) (hta : a.ts.nonDyn = true) (htb : b.ts.nonDyn = true)
    (hf : CmpFits a b) :
    Ep.cmp a b = some (cmpI a.inst b.inst) := by
  obtain ⟨da, ta⟩ := a
  obtain ⟨db, tb⟩ := b
  unfold CmpFits at hf
  simp only at ha hb hta htb hf
  unfold Ep.cmp Ep.inst
  simp only
  by_cases h1 : ta.usesLeapSeconds = true ∧ ¬ tb.usesLeapSeconds = true
  · rw [if_pos h1] at hf ⊢
    have hau : ta = .UTC := by cases ta <;> simp_all [TS.usesLeapSeconds]
    have hbu : tb.isUniform = true := by cases tb <;> simp_all [TS.usesLeapSeconds, TS.nonDyn, TS.isUniform]
    obtain ⟨r, r1, r2, r3⟩ := to_uniform_inst_nosat da ta tb ha hta hbu hf
    rw [r1]; simp only
    rw [cmp_eq_cmpI r db r2 hb, r3, instV_uniform tb db.val hbu]
    unfold cmpI; congr 1; grind
  · rw [if_neg h1] at hf ⊢
    by_cases hsame : ta = tb
    · subst hsame
      have : (Ep.mk db ta).to ta = some ⟨db, ta⟩ := by unfold Ep.to toTimeScale; rw [if_pos rfl]
      rw [this]; simp only
      rw [cmp_eq_cmpI da db ha hb]
      unfold cmpI
      have h1 := instV_lt_iff_same ta da.val db.val
      have h2 := instV_lt_iff_same ta db.val da.val
      grind
    · -- tb ≠ ta and not (ta = UTC ∧ tb ≠ UTC): ta is uniform
      have hau : ta.isUniform = true := by
        cases ta <;> cases tb <;> simp_all [TS.usesLeapSeconds, TS.nonDyn, TS.isUniform]
      obtain ⟨r, r1, r2, r3⟩ := to_uniform_inst_nosat db tb ta hb htb hau hf
      rw [r1]; simp only
      rw [cmp_eq_cmpI da r ha r2, r3, instV_uniform ta da.val hau]
      unfold cmpI; grind

theorem Ep_cmp_spec (a b : Ep) (ha : a.dur.Canon) (hb : b.dur.Canon) (hta : a.ts.nonDyn = true) (htb : b.ts.nonDyn = true)
    (hsa : Safe a.dur.val) (hsb : Safe b.dur.val) :
    Ep.cmp a b = some (cmpI a.inst b.inst) :=
  Ep_cmp_spec_nosat a b ha hb hta htb (CmpFits_of_Safe a b hsa hsb)

/-- `PartialEq for Epoch`: equal exactly when the instants are equal -/
theorem Ep_eqb_spec_nosat (a b : Ep) (ha : a.dur.Canon) (hb : b.dur.Canon) (hta : a.ts.nonDyn = true) (htb : b.ts.nonDyn = true)
    (hf : CmpFits a b) :
    Ep.eqb a b = some (decide (a.inst = b.inst)) := by
  obtain ⟨da, ta⟩ := a
  obtain ⟨db, tb⟩ := b
  unfold CmpFits at hf
  simp only at ha hb hta htb hf
  unfold Ep.eqb Ep.inst
  simp only
  by_cases hsame : ta = tb
  · subst hsame
    rw [if_pos rfl, cmp_eq_cmpI da db ha hb]
    have h1 := instV_lt_iff_same ta da.val db.val
    have h2 := instV_lt_iff_same ta db.val da.val
    unfold cmpI; congr 1; grind
  · rw [if_neg hsame]
    by_cases hl : ta.usesLeapSeconds ≠ tb.usesLeapSeconds
    · rw [if_pos hl]
      by_cases hau : ta.usesLeapSeconds = true
      · rw [if_pos hau]
        have hc : ta.usesLeapSeconds = true ∧ ¬ tb.usesLeapSeconds = true := ⟨hau, fun h => hl (by rw [hau, h])⟩
        rw [if_pos hc] at hf
        have hbu : tb.isUniform = true := by cases ta <;> cases tb <;> simp_all [TS.usesLeapSeconds, TS.nonDyn, TS.isUniform]
        obtain ⟨r, r1, r2, r3⟩ := to_uniform_inst_nosat da ta tb ha hta hbu hf
        rw [r1]; simp only
        rw [cmp_eq_cmpI r db r2 hb, r3, instV_uniform tb db.val hbu]
        unfold cmpI; congr 1; grind
      · rw [if_neg hau]
        have hc : ¬ (ta.usesLeapSeconds = true ∧ ¬ tb.usesLeapSeconds = true) := fun h => hau h.1
        rw [if_neg hc] at hf
        have hau' : ta.isUniform = true := by cases ta <;> cases tb <;> simp_all [TS.usesLeapSeconds, TS.nonDyn, TS.isUniform]
        obtain ⟨r, r1, r2, r3⟩ := to_uniform_inst_nosat db tb ta hb htb hau' hf
        rw [r1]; simp only
        rw [cmp_eq_cmpI da r ha r2, r3, instV_uniform ta da.val hau']
        unfold cmpI; congr 1; grind
    · rw [if_neg hl]
      have hau' : ta.isUniform = true := by cases ta <;> cases tb <;> simp_all [TS.usesLeapSeconds, TS.nonDyn, TS.isUniform]
      have hc : ¬ (ta.usesLeapSeconds = true ∧ ¬ tb.usesLeapSeconds = true) := by
        cases ta <;> cases tb <;> simp_all [TS.usesLeapSeconds, TS.nonDyn, TS.isUniform]
      rw [if_neg hc] at hf
      obtain ⟨r, r1, r2, r3⟩ := to_uniform_inst_nosat db tb ta hb htb hau' hf
      rw [r1]; simp only
      rw [cmp_eq_cmpI da r ha r2, r3, instV_uniform ta da.val hau']
      unfold cmpI; congr 1; grind

/-- `PartialEq for Epoch`: equal exactly when the instants are equal -/
theorem Ep_eqb_spec (a b : Ep) (ha : a.dur.Canon) (hb : b.dur.Canon) (hta : a.ts.nonDyn = true) (htb : b.ts.nonDyn = true)
    (hsa : Safe a.dur.val) (hsb : Safe b.dur.val) :
    Ep.eqb a b = some (decide (a.inst = b.inst)) :=
  Ep_eqb_spec_nosat a b ha hb hta htb (CmpFits_of_Safe a b hsa hsb)

end Hifi
