import Hifi.Model.EpochText
import Hifi.Model.Efmt
import Hifi.Spec.EpochText
import Hifi.Lemmas.Calendar
/-
  Lemmas for C10 / C13 (epoch text).
  Part A: strings, byte slices, tables.     Part B: lexical contract on digit runs.
  Part C: totality of the tokenizer loop.   Part D: symbolic execution of the loop on rendered text.
-/
namespace Hifi.Txt
open Hifi Hifi.Spec

/-! ## Part A: strings and byte slices -/

theorem utf8Size_pos (c : Nat) : 1 ≤ utf8Size c := by
  unfold utf8Size; split <;> (try split) <;> (try split) <;> omega

theorem utf8Size_ascii {c : Nat} (h : c < 128) : utf8Size c = 1 := by
  unfold utf8Size; rw [if_pos h]

theorem isAscii_cons (c : Nat) (r : List Nat) : isAscii (c :: r) = true ↔ c < 128 ∧ isAscii r = true := by
  unfold isAscii; simp

theorem isAscii_nil : isAscii [] = true := rfl

theorem isAscii_append (a b : List Nat) : isAscii (a ++ b) = true ↔ isAscii a = true ∧ isAscii b = true := by
  unfold isAscii; simp

theorem isAscii_mem {s : List Nat} (h : isAscii s = true) {c : Nat} (hc : c ∈ s) : c < 128 := by
  unfold isAscii at h; simp at h; exact h c hc

theorem byteLen_ascii : ∀ (s : List Nat), isAscii s = true → byteLen s = s.length
  | [], _ => rfl
  | c :: r, h => by
    have h' := (isAscii_cons c r).mp h
    unfold byteLen
    rw [utf8Size_ascii h'.1, byteLen_ascii r h'.2]; simp; omega

theorem byteLen_append : ∀ (a b : List Nat), byteLen (a ++ b) = byteLen a + byteLen b
  | [], b => by simp [byteLen]
  | c :: r, b => by
    simp only [List.cons_append, byteLen, byteLen_append r b]; omega

theorem dropBytes_zero (s : List Nat) : dropBytes s 0 = some s := by
  cases s <;> rfl

theorem dropBytes_ascii : ∀ (s : List Nat) (n : Nat), isAscii s = true → n ≤ s.length → dropBytes s n = some (s.drop n)
  | s, 0, _, _ => by rw [dropBytes_zero]; rfl
  | [], n + 1, _, h => by simp at h
  | c :: r, n + 1, ha, h => by
    have h' := (isAscii_cons c r).mp ha
    unfold dropBytes
    rw [utf8Size_ascii h'.1, if_pos (by omega)]
    have : n + 1 - 1 = n := by omega
    rw [this, dropBytes_ascii r n h'.2 (by simpa using h)]
    rfl

theorem takeBytes_zero (s : List Nat) : takeBytes s 0 = some [] := by
  cases s <;> rfl

theorem takeBytes_ascii : ∀ (s : List Nat) (n : Nat), isAscii s = true → n ≤ s.length → takeBytes s n = some (s.take n)
  | s, 0, _, _ => by rw [takeBytes_zero]; rfl
  | [], n + 1, _, h => by simp at h
  | c :: r, n + 1, ha, h => by
    have h' := (isAscii_cons c r).mp ha
    unfold takeBytes
    rw [utf8Size_ascii h'.1, if_pos (by omega)]
    have : n + 1 - 1 = n := by omega
    rw [this, takeBytes_ascii r n h'.2 (by simpa using h)]
    rfl

theorem isAscii_drop {s : List Nat} (h : isAscii s = true) (n : Nat) : isAscii (s.drop n) = true := by
  unfold isAscii at *; simp at *; intro c hc; exact h c (List.mem_of_mem_drop hc)

theorem sliceOpt_ascii (s : List Nat) (a b : Nat) (ha : isAscii s = true) (hab : a ≤ b) (hb : b ≤ s.length) :
    sliceOpt s a b = some ((s.drop a).take (b - a)) := by
  unfold sliceOpt
  rw [if_pos hab, dropBytes_ascii s a ha (by omega)]
  simp only
  rw [takeBytes_ascii _ _ (isAscii_drop ha a) (by simp; try omega)]

theorem slice_ascii (s : List Nat) (a b : Nat) (ha : isAscii s = true) (hab : a ≤ b) (hb : b ≤ s.length) :
    slice s a b = .ok ((s.drop a).take (b - a)) := by
  unfold slice; rw [sliceOpt_ascii s a b ha hab hb]

/-- the slice between two cut points of an ASCII string written as a concatenation -/
theorem slice_mid (pre sub post : List Nat) (h : isAscii (pre ++ sub ++ post) = true) :
    slice (pre ++ sub ++ post) pre.length (pre.length + sub.length) = .ok sub := by
  rw [slice_ascii _ _ _ h (by omega) (by simp; try omega)]
  simp [List.append_assoc]


/-! ### the two character tables on ASCII -/

theorem inRanges_false (tbl : List (Nat × Nat)) (c : Nat) (h : ∀ p ∈ tbl, c < p.1) : inRanges tbl c = false := by
  induction tbl with
  | nil => rfl
  | cons p r ih =>
    unfold inRanges
    have h1 := h p (by simp)
    rw [ih (fun q hq => h q (by simp [hq]))]
    simp; omega

set_option maxRecDepth 4000 in
theorem numeric_table_shape :
    Gen.UNICODE_NUMERIC = (48, 57) :: Gen.UNICODE_NUMERIC.drop 1 ∧
    (Gen.UNICODE_NUMERIC.drop 1).all (fun p => decide (128 ≤ p.1)) = true := by decide

set_option maxRecDepth 4000 in
theorem whitespace_table_shape :
    Gen.UNICODE_WHITESPACE = (9, 13) :: (32, 32) :: Gen.UNICODE_WHITESPACE.drop 2 ∧
    (Gen.UNICODE_WHITESPACE.drop 2).all (fun p => decide (128 ≤ p.1)) = true := by decide

/-- on ASCII `char::is_numeric` is `'0'..='9'` -/
theorem isNumeric_ascii (c : Nat) (h : c < 128) : isNumeric c = decide (48 ≤ c ∧ c ≤ 57) := by
  unfold isNumeric
  rw [numeric_table_shape.1]
  unfold inRanges
  rw [inRanges_false]
  · simp
  · intro p hp
    have := List.all_eq_true.mp numeric_table_shape.2 p hp
    simp at this; omega

/-- on ASCII `char::is_whitespace` is TAB..CR and the blank -/
theorem isWhitespace_ascii (c : Nat) (h : c < 128) : isWhitespace c = decide ((9 ≤ c ∧ c ≤ 13) ∨ c = 32) := by
  unfold isWhitespace
  rw [whitespace_table_shape.1]
  unfold inRanges inRanges
  rw [inRanges_false]
  · rw [Bool.eq_iff_iff]; simp; omega
  · intro p hp
    have := List.all_eq_true.mp whitespace_table_shape.2 p hp
    simp at this; omega

theorem isNumeric_digit {c : Nat} (h1 : 48 ≤ c) (h2 : c ≤ 57) : isNumeric c = true := by
  rw [isNumeric_ascii c (by omega)]; simp; omega

theorem isNumeric_nondigit {c : Nat} (h : c < 128) (h' : c < 48 ∨ 57 < c) : isNumeric c = false := by
  rw [isNumeric_ascii c h]; simp; omega

/-! ### trim -/

theorem trimStart_id {c : Nat} {r : List Nat} (h : isWhitespace c = false) : trimStart (c :: r) = c :: r := by
  unfold trimStart; rw [List.dropWhile_cons_of_neg]; simp [h]

theorem trimEnd_id (r : List Nat) (c : Nat) (h : isWhitespace c = false) : trimEnd (r ++ [c]) = r ++ [c] := by
  unfold trimEnd
  rw [List.reverse_append]
  simp only [List.reverse_cons, List.reverse_nil, List.nil_append, List.singleton_append]
  rw [List.dropWhile_cons_of_neg (by simp [h])]
  simp

/-- a text whose first and last characters are not white space is its own `trim` -/
theorem trim_id (c : Nat) (m : List Nat) (e : Nat) (hc : isWhitespace c = false) (he : isWhitespace e = false) :
    trim (c :: (m ++ [e])) = c :: (m ++ [e]) := by
  unfold trim
  rw [trimStart_id hc]
  have : c :: (m ++ [e]) = (c :: m) ++ [e] := by simp
  rw [this, trimEnd_id _ _ he]

/-! ## Part B: the lexical contract on digit runs -/

theorem digitsVal_acc : ∀ (s : List Nat) (acc : Nat), digitsVal s acc = acc * 10 ^ s.length + digitsVal s 0
  | [], acc => by simp [digitsVal]
  | c :: r, acc => by
    unfold digitsVal
    rw [digitsVal_acc r (acc * 10 + (c - 48)), digitsVal_acc r (0 * 10 + (c - 48))]
    simp only [List.length_cons, Nat.pow_succ, Nat.zero_mul, Nat.zero_add, Nat.add_mul]
    rw [Nat.mul_assoc, Nat.mul_comm 10 (10 ^ r.length), Nat.add_assoc]

theorem digitsVal_lt : ∀ (s : List Nat), s.all isDigit = true → digitsVal s 0 < 10 ^ s.length
  | [], _ => by simp [digitsVal]
  | c :: r, h => by
    simp only [List.all_cons, Bool.and_eq_true] at h
    have ih := digitsVal_lt r h.2
    have hc := h.1
    unfold isDigit at hc; simp only [decide_eq_true_eq] at hc
    unfold digitsVal
    rw [digitsVal_acc]
    simp only [List.length_cons, Nat.pow_succ, Nat.zero_mul, Nat.zero_add]
    have : (c - 48) * 10 ^ r.length ≤ 9 * 10 ^ r.length := Nat.mul_le_mul_right _ (by omega)
    omega

theorem lexNat_lt {s : List Nat} {v : Nat} (h : lexNat s = some v) : v < 10 ^ s.length := by
  unfold lexNat at h
  split at h
  · rename_i hc
    simp only [Option.some.injEq] at h
    rw [← h]; exact digitsVal_lt s hc.2
  · simp at h

/-- a non-negative value parsed from `n` characters is below `10^n` (whatever sign character was used) -/
theorem lexInt_bound {lo hi : Int} {s : List Nat} {v : Int} (h : lexInt lo hi s = some v) (h0 : 0 ≤ v) :
    v < (10 : Int) ^ s.length := by
  have hp : ∀ (n : Nat) (r : List Nat), n < 10 ^ r.length → ((n : Int) < (10 : Int) ^ (r.length + 1)) := by
    intro n r hn
    have h1 : ((n : Int)) < ((10 ^ r.length : Nat) : Int) := by exact_mod_cast hn
    have h2 : ((10 ^ r.length : Nat) : Int) = (10 : Int) ^ r.length := by norm_cast
    rw [h2] at h1
    rw [Int.pow_succ]
    have : (0 : Int) < 10 ^ r.length := Int.pow_pos (by omega)
    omega
  unfold lexInt at h
  split at h
  · rename_i r
    cases hn : lexNat r with
    | none => rw [hn] at h; simp at h
    | some n =>
      rw [hn] at h
      simp only at h
      split at h
      · simp only [Option.some.injEq] at h
        have : (0 : Int) < (10 : Int) ^ (45 :: r).length := Int.pow_pos (by omega)
        omega
      · simp at h
  · rename_i r
    cases hn : lexNat r with
    | none => rw [hn] at h; simp at h
    | some n =>
      rw [hn] at h
      simp only at h
      split at h
      · simp only [Option.some.injEq] at h
        rw [← h]
        exact hp n r (lexNat_lt hn)
      · simp at h
  · cases hn : lexNat s with
    | none => rw [hn] at h; simp at h
    | some n =>
      rw [hn] at h
      simp only at h
      split at h
      · simp only [Option.some.injEq] at h
        rw [← h]
        have h1 : ((n : Int)) < ((10 ^ s.length : Nat) : Int) := by exact_mod_cast lexNat_lt hn
        have h2 : ((10 ^ s.length : Nat) : Int) = (10 : Int) ^ s.length := by norm_cast
        rw [h2] at h1; exact h1
      · simp at h


/-! ## Part C: totality of `from_gregorian_str`

  `Inv` is what the loop maintains about `decomposed[1..9]`: each field holds 0 or a value that
  passed `value_ok` (sub-seconds: after scaling), so the `try_into().unwrap()`s after the loop succeed. -/

def Inv (st : GSt) : Prop :=
  (0 ≤ st.mo ∧ st.mo ≤ 13) ∧ (0 ≤ st.d ∧ st.d ≤ 31) ∧ (0 ≤ st.h ∧ st.h ≤ 23) ∧ (0 ≤ st.mi ∧ st.mi ≤ 59) ∧
  (0 ≤ st.sec ∧ st.sec ≤ 60) ∧ (0 ≤ st.ns ∧ st.ns < 1000000000) ∧ (0 ≤ st.oh ∧ st.oh ≤ 23) ∧ (0 ≤ st.om ∧ st.om ≤ 59)

theorem Inv_init : Inv GSt.init := by unfold Inv GSt.init; simp

/-- a step that neither panics nor breaks the invariant -/
def StepOK : Step → Prop
  | .cont st => Inv st
  | .stop r => r ≠ .panic ∧ ∀ st, r = .ok st → Inv st

theorem setField_inv (st : GSt) (t : Tok) (v : Int) (hi : Inv st) (hv : valueOk t v = true) (ht : t ≠ .subsecond) :
    Inv (setField st t v) := by
  unfold Inv at *
  cases t <;> simp only [setField, valueOk, decide_eq_true_eq] at * <;> (try omega) <;> (try exact absurd rfl ht)

theorem setField_inv_ns (st : GSt) (v : Int) (hi : Inv st) (hv : 0 ≤ v ∧ v < 1000000000) :
    Inv (setField st .subsecond v) := by
  unfold Inv at *
  simp only [setField]; omega

theorem afterField_ok (s : List Nat) (idx : Nat) (cur : Tok) (st : GSt) (ha : isAscii s = true)
    (hidx : idx < s.length) (hi : Inv st) : StepOK (afterField s idx cur st) := by
  unfold afterField
  by_cases hc : cur = .offH
  · rw [if_pos hc, slice_ascii s idx (idx + 1) ha (by omega) (by omega)]
    simp only [StepOK]
    unfold Inv at *; simpa using hi
  · rw [if_neg hc]
    simp only [StepOK]
    unfold Inv at *; simpa using hi

theorem pow10_le (k : Nat) (h : k ≤ 9) : (10 : Int) ^ k ≤ 1000000000 := by
  have : k = 0 ∨ k = 1 ∨ k = 2 ∨ k = 3 ∨ k = 4 ∨ k = 5 ∨ k = 6 ∨ k = 7 ∨ k = 8 ∨ k = 9 := by omega
  rcases this with rfl | rfl | rfl | rfl | rfl | rfl | rfl | rfl | rfl | rfl <;> decide

theorem fieldParse_ok (s : List Nat) (idx endIdx : Nat) (cur : Tok) (st : GSt) (ha : isAscii s = true)
    (hidx : idx < s.length) (he : endIdx ≤ s.length) (hi : Inv st) : StepOK (fieldParse s idx endIdx cur st) := by
  unfold fieldParse
  by_cases hp : st.prev > endIdx
  · rw [if_pos hp]; simp [StepOK]
  · rw [if_neg hp, slice_ascii s st.prev endIdx ha (by omega) he]
    simp only
    cases hl : lexI32 ((s.drop st.prev).take (endIdx - st.prev)) with
    | none => simp [StepOK]
    | some v =>
      simp only
      by_cases hv : valueOk st.tok v = false
      · rw [if_pos hv]; simp [StepOK]
      · rw [if_neg hv]
        have hv' : valueOk st.tok v = true := by simpa using hv
        by_cases hs : st.tok = .subsecond
        · rw [if_pos hs]
          have h0 : 0 ≤ v := by rw [hs] at hv'; simpa [valueOk] using hv'
          by_cases h9 : endIdx - st.prev > 9
          · rw [if_pos h9]; simp [StepOK]
          · rw [if_neg h9]
            have hlen : ((s.drop st.prev).take (endIdx - st.prev)).length = endIdx - st.prev := by
              simp; omega
            have hb := lexInt_bound hl h0
            rw [hlen] at hb
            by_cases hne : endIdx - st.prev ≠ 9
            · rw [if_pos hne]
              -- v < 10^n, so v · 10^(9-n) < 10^9: both `10_i32.pow` and the product fit
              have hpw : (10 : Int) ^ (endIdx - st.prev) * 10 ^ (9 - (endIdx - st.prev)) = 1000000000 := by
                rw [← Int.pow_add]
                have : endIdx - st.prev + (9 - (endIdx - st.prev)) = 9 := by omega
                rw [this]; rfl
              have hpos : (0 : Int) < 10 ^ (9 - (endIdx - st.prev)) := Int.pow_pos (by omega)
              have hle := pow10_le (9 - (endIdx - st.prev)) (by omega)
              have hprod : v * 10 ^ (9 - (endIdx - st.prev)) < 1000000000 := by
                rw [← hpw]; exact Int.mul_lt_mul_of_pos_right hb hpos
              have hprod0 : 0 ≤ v * 10 ^ (9 - (endIdx - st.prev)) := Int.mul_nonneg h0 (by omega)
              have f1 : Cal.fitsI32 (10 ^ (9 - (endIdx - st.prev))) = true := by
                unfold Cal.fitsI32; simp only [decide_eq_true_eq]; omega
              have f2 : Cal.fitsI32 (v * 10 ^ (9 - (endIdx - st.prev))) = true := by
                unfold Cal.fitsI32; simp only [decide_eq_true_eq]; omega
              rw [if_pos ⟨f1, f2⟩]
              exact afterField_ok s idx cur _ ha hidx (setField_inv_ns st _ hi ⟨hprod0, hprod⟩)
            · rw [if_neg hne]
              have h9' : endIdx - st.prev = 9 := by omega
              rw [h9'] at hb
              exact afterField_ok s idx cur _ ha hidx (setField_inv_ns st _ hi ⟨h0, by simpa using hb⟩)
        · rw [if_neg hs]
          exact afterField_ok s idx cur _ ha hidx (setField_inv st st.tok v hi hv' hs)

theorem fieldStep_ok (s : List Nat) (c idx : Nat) (st : GSt) (ha : isAscii s = true)
    (hidx : idx < s.length) (hi : Inv st) : StepOK (fieldStep s s.length c idx st) := by
  unfold fieldStep
  split
  · cases hadv : advanceWith st.tok c with
    | none => simp [StepOK]
    | some tok' => exact fieldParse_ok s idx idx tok' st ha hidx (by omega) hi
  · exact fieldParse_ok s idx (idx + 1) st.tok st ha hidx (by omega) hi

theorem gregStep_ok (s : List Nat) (c idx : Nat) (st : GSt) (ha : isAscii s = true)
    (hidx : idx < s.length) (hi : Inv st) : StepOK (gregStep s s.length c idx st) := by
  unfold gregStep
  rw [if_neg (by omega)]
  split
  · exact hi
  · split
    · split
      · rw [slice_ascii s idx s.length ha (by omega) (by omega)]
        simp only
        cases tsFromStr ((s.drop idx).take (s.length - idx)) with
        | none => simp [StepOK]
        | some ts =>
          simp only [StepOK]
          refine ⟨by simp, ?_⟩
          intro st' h
          simp only [Res.ok.injEq] at h
          rw [← h]; unfold Inv at *; simpa using hi
      · simp only [StepOK]
        refine ⟨by simp, ?_⟩
        intro st' h
        simp only [Res.ok.injEq] at h
        rw [← h]; exact hi
    · exact fieldStep_ok s c idx st ha hidx hi

theorem gregLoop_ok (s : List Nat) (ha : isAscii s = true) :
    ∀ (rem : List Nat) (idx : Nat) (st : GSt), idx + rem.length = s.length → Inv st →
      gregLoop s s.length rem idx st ≠ .panic ∧ ∀ st', gregLoop s s.length rem idx st = .ok st' → Inv st' := by
  intro rem
  induction rem with
  | nil =>
    intro idx st _ hi
    unfold gregLoop
    exact ⟨by simp, fun st' h => by simp only [Res.ok.injEq] at h; rw [← h]; exact hi⟩
  | cons c rest ih =>
    intro idx st hlen hi
    unfold gregLoop
    have hs := gregStep_ok s c idx st ha (by simp at hlen; omega) hi
    cases hstep : gregStep s s.length c idx st with
    | cont st' =>
      rw [hstep] at hs
      simp only
      exact ih (idx + 1) st' (by simp at hlen; omega) hs
    | stop r =>
      rw [hstep] at hs
      simp only
      exact hs

theorem validPanics_false (y mo d h mi : Int) : Cal.validPanics y mo d h mi = false := by
  unfold Cal.validPanics; simp only [decide_eq_false_iff_not]; omega

theorem maybeFromGregorian_ne_panic (y mo d h mi s ns : Int) (ts : TS) :
    Cal.maybeFromGregorian y mo d h mi s ns ts ≠ .panic := by
  unfold Cal.maybeFromGregorian
  rw [validPanics_false]
  simp only [Bool.false_eq_true, if_false]
  split <;> (try split) <;> (try split) <;> simp


/-- the offset duration: never a panic, canonical, exactly ∓(hh:mm) -/
theorem tz_spec (st : GSt) (hoh : 0 ≤ st.oh ∧ st.oh ≤ 23) (hom : 0 ≤ st.om ∧ st.om ≤ 59) :
    ∃ tz, tzOf st = .ok tz ∧ tz.Canon ∧
      tz.val = (if st.sign > 0 then -1 else 1) * (st.oh * 3600000000000 + st.om * 60000000000) := by
  have h1 := Cal.unitMul_val 3600000000000 st.oh (by omega) (by omega)
  have h2 := Cal.unitMul_val 60000000000 st.om (by omega) (by omega)
  have h3 := Cal.add_val _ _ h1.1 h2.1 (by unfold Cal.InR; rw [h1.2, h2.2]; omega)
  rw [h1.2, h2.2] at h3
  unfold tzOf
  rw [Cal.NPH_eq, Cal.NPMIN_eq]
  by_cases hs : st.sign > 0
  · rw [if_pos hs, if_pos hs]
    obtain ⟨r, hr, hc, hv⟩ := neg_spec _ h3.1
    refine ⟨r, hr, hc, ?_⟩
    rw [hv, h3.2, clampD_mid] <;> omega
  · rw [if_neg hs, if_neg hs]
    exact ⟨_, rfl, h3.1, by rw [h3.2]; omega⟩

/-! ### whatever the year, `maybe_from_gregorian` returns a canonical duration (so that `compute_gregorian`,
  applied to it by the leap-second label check, is total) -/

theorem fitsI64_of_bounds {q : Int} (h : -9000000000000000000 ≤ q ∧ q ≤ 9000000000000000000) : fitsI64 q = true := by
  unfold fitsI64; simp only [decide_eq_true_eq]; omega

theorem unitMul_canon (f q : Int)
    (hf : f = 1 ∨ f = 1000000000 ∨ f = 60000000000 ∨ f = 3600000000000 ∨ f = 86400000000000)
    (hq : fitsI64 q = true) : (Dur.unitMulI64 f q).Canon :=
  (unitMulI64_spec f q (Cal.mem_unitFactors f hf) hq).1

theorem dayDur_canon (q : Int) (hq : fitsI64 q = true) : (Cal.dayDur q).Canon := by
  unfold Cal.dayDur; rw [Cal.NPD_eq]; exact unitMul_canon _ q (by omega) hq

theorem addLeapDays_canon (n : Nat) : ∀ (y : Int) (d : Dur), d.Canon → (Cal.addLeapDays n y d).Canon := by
  induction n with
  | zero => intro y d hd; unfold Cal.addLeapDays; exact hd
  | succ n ih =>
    intro y d hd
    unfold Cal.addLeapDays
    split
    · exact ih _ _ (add_spec d _ hd (dayDur_canon 1 (by decide))).1
    · exact ih _ _ hd

theorem subLeapDays_canon (n : Nat) : ∀ (y : Int) (d : Dur), d.Canon → (Cal.subLeapDays n y d).Canon := by
  induction n with
  | zero => intro y d hd; unfold Cal.subLeapDays; exact hd
  | succ n ih =>
    intro y d hd
    unfold Cal.subLeapDays
    split
    · exact ih _ _ (sub_spec d _ hd (dayDur_canon 1 (by decide))).1
    · exact ih _ _ hd

theorem gregYearPart_canon (y : Int) (hq : fitsI64 ((y - Cal.REF_YEAR) * Cal.DPY) = true) : (Cal.gregYearPart y).Canon := by
  unfold Cal.gregYearPart
  split
  · exact addLeapDays_canon _ _ _ (dayDur_canon _ hq)
  · exact subLeapDays_canon _ _ _ (dayDur_canon _ hq)

theorem cumulAt_bounds (y mo : Int) : 0 ≤ Cal.cumulAt y mo ∧ Cal.cumulAt y mo ≤ 335 := by
  have key : ∀ (n : Nat), (0 ≤ Gen.CUMULATIVE_DAYS_FOR_MONTH.getD n 0 ∧ Gen.CUMULATIVE_DAYS_FOR_MONTH.getD n 0 ≤ 335) ∧
      (0 ≤ Gen.CUMULATIVE_DAYS_FOR_MONTH_LEAP_YEARS.getD n 0 ∧ Gen.CUMULATIVE_DAYS_FOR_MONTH_LEAP_YEARS.getD n 0 ≤ 335) := by
    intro n
    by_cases hn : n < 12
    · have : n = 0 ∨ n = 1 ∨ n = 2 ∨ n = 3 ∨ n = 4 ∨ n = 5 ∨ n = 6 ∨ n = 7 ∨ n = 8 ∨ n = 9 ∨ n = 10 ∨ n = 11 := by omega
      rcases this with h | h | h | h | h | h | h | h | h | h | h | h <;> subst h <;> decide
    · have h1 : Gen.CUMULATIVE_DAYS_FOR_MONTH.length = 12 := by decide
      have h2 : Gen.CUMULATIVE_DAYS_FOR_MONTH_LEAP_YEARS.length = 12 := by decide
      rw [List.getD_eq_getElem?_getD, List.getD_eq_getElem?_getD, List.getElem?_eq_none (by omega),
        List.getElem?_eq_none (by omega)]
      simp
  unfold Cal.cumulAt Cal.cumulDays
  split
  · exact (key _).2
  · exact (key _).1

/-- every duration `maybe_from_gregorian` returns is canonical (fields non-negative, as the parser has them) -/
theorem maybeFromGregorian_canon (y mo d h mi s ns : Int) (ts : TS) (e : Dur)
    (hmo : 0 ≤ mo) (hd : 0 ≤ d) (hh : 0 ≤ h) (hmi : 0 ≤ mi) (hs : 0 ≤ s) (hns : 0 ≤ ns)
    (he : Cal.maybeFromGregorian y mo d h mi s ns ts = .ok e) : e.Canon := by
  unfold Cal.maybeFromGregorian at he
  rw [validPanics_false] at he
  simp only [Bool.false_eq_true, if_false] at he
  by_cases hv : Cal.isGregorianValidCore y mo d h mi s ns = false
  · rw [if_pos hv] at he; cases he
  · rw [if_neg hv] at he
    by_cases h1 : Cal.fitsI32 (y - Cal.REF_YEAR) = false
    · rw [if_pos h1] at he; cases he
    · rw [if_neg h1] at he
      by_cases h2 : Cal.fitsI32 ((y - Cal.REF_YEAR) * Cal.DPY) = false
      · rw [if_pos h2] at he; cases he
      · rw [if_neg h2] at he
        simp only [Res.ok.injEq] at he
        subst he
        have hv' : Cal.isGregorianValidCore y mo d h mi s ns = true := by simpa using hv
        have hr := Cal.validCore_ranges y mo d h mi s ns hmo hd hv'
        have h2' : Cal.fitsI32 ((y - Cal.REF_YEAR) * Cal.DPY) = true := by simpa using h2
        unfold Cal.fitsI32 at h2'; simp only [decide_eq_true_eq] at h2'
        have hyp := gregYearPart_canon y (fitsI64_of_bounds (by omega))
        have hcb := cumulAt_bounds y mo
        have hoff := Cal.gregOff_val ts
        unfold Cal.gregFinish Cal.leapSecondAdj Cal.gregTimePart
        simp only [Cal.NPH_eq, Cal.NPMIN_eq, Cal.NPS_eq]
        have c1 := (add_spec _ _ hyp (dayDur_canon (Cal.cumulAt y mo) (fitsI64_of_bounds (by omega)))).1
        have t1 := (add_spec _ _ (dayDur_canon (d - 1) (fitsI64_of_bounds (by omega)))
          (unitMul_canon 3600000000000 h (by omega) (fitsI64_of_bounds (by omega)))).1
        have t2 := (add_spec _ _ t1 (unitMul_canon 60000000000 mi (by omega) (fitsI64_of_bounds (by omega)))).1
        have t3 := (add_spec _ _ t2 (unitMul_canon 1000000000 s (by omega) (fitsI64_of_bounds (by omega)))).1
        have t4 := (add_spec _ _ t3 (unitMul_canon 1 ns (by omega) (fitsI64_of_bounds (by omega)))).1
        have c2 := (add_spec _ _ c1 t4).1
        split
        · exact (sub_spec _ _ (sub_spec _ _ c2 (unitMul_canon 1000000000 1 (by omega) (by decide))).1 hoff.1).1
        · exact (sub_spec _ _ c2 hoff.1).1

/-- `compute_gregorian` is total on canonical durations -/
theorem computeGregorian_ok (e : Dur) (ts : TS) (he : e.Canon) : ∃ f, Cal.computeGregorian e ts = .ok f := by
  have hoff := Cal.gregOff_val ts
  have hw := (add_spec e _ he hoff.1).1
  obtain ⟨days, h, mi, s, ms, us, ns, e1, _⟩ := Cal.splitDays_spec _ hw
  unfold Cal.computeGregorian
  rw [e1]
  exact ⟨_, rfl⟩

theorem leapLabelOk_ne_panic (e : Dur) (ts : TS) (he : e.Canon) : leapLabelOk e ts ≠ .panic := by
  obtain ⟨⟨y, m, d, hh, mm, ss, n⟩, hf⟩ := computeGregorian_ok e ts he
  unfold leapLabelOk
  rw [hf]
  simp only
  split
  · unfold Cal.isGregorianValid; rw [validPanics_false]; simp
  · simp

theorem finishGreg_ne_panic (st : GSt) (hi : Inv st) : finishGreg st ≠ .panic := by
  obtain ⟨h1, h2, h3, h4, h5, h6, h7, h8⟩ := hi
  obtain ⟨tz, htz, hcz, _⟩ := tz_spec st h7 h8
  unfold finishGreg
  rw [htz]
  simp only
  have hf : fitsU8 st.mo = true ∧ fitsU8 st.d = true ∧ fitsU8 st.h = true ∧ fitsU8 st.mi = true ∧ fitsU8 st.sec = true
      ∧ fitsU32 st.ns = true := by
    unfold fitsU8 fitsU32; simp only [decide_eq_true_eq]; omega
  rw [if_pos hf]
  have := maybeFromGregorian_ne_panic st.y st.mo st.d st.h st.mi (if st.sec = 60 then 59 else st.sec) st.ns st.ts
  cases hm : Cal.maybeFromGregorian st.y st.mo st.d st.h st.mi (if st.sec = 60 then 59 else st.sec) st.ns st.ts with
  | ok d =>
    simp only
    have hdc := maybeFromGregorian_canon _ _ _ _ _ _ _ _ d h1.1 h2.1 h3.1 h4.1 (by split <;> omega) h6.1 hm
    have hac := (add_spec d tz hdc hcz).1
    have hl := leapLabelOk_ne_panic (Dur.add d tz) st.ts hac
    split
    · cases hlo : leapLabelOk (Dur.add d tz) st.ts with
      | ok b => cases b <;> simp
      | err => simp
      | panic => exact absurd hlo hl
    · simp
  | err => simp
  | panic => exact absurd hm this

/-- TOTALITY of `Epoch::from_gregorian_str`: for every list of code points -/
theorem fromGregorianStrIdx_ne_panic (s : List Nat) : fromGregorianStrIdx s ≠ .panic := by
  unfold fromGregorianStrIdx
  by_cases ha : isAscii (trim s) = false
  · rw [if_pos ha]; simp
  · rw [if_neg ha]
    have ha' : isAscii (trim s) = true := by simpa using ha
    rw [byteLen_ascii _ ha']
    have := gregLoop_ok (trim s) ha' (trim s) 0 GSt.init (by omega) Inv_init
    cases hl : gregLoop (trim s) (trim s).length (trim s) 0 GSt.init with
    | ok st => simp only; exact finishGreg_ne_panic st (this.2 st hl)
    | err => simp
    | panic => exact absurd hl this.1

/-! ### byte offsets in arbitrary (non-ASCII) strings: the numeric branch of `Epoch::from_str` -/

theorem dropBytes_cons_succ (c : Nat) (r : List Nat) (n : Nat) :
    dropBytes (c :: r) (n + 1) = if utf8Size c ≤ n + 1 then dropBytes r (n + 1 - utf8Size c) else none := rfl

theorem byteLen_cons (c : Nat) (r : List Nat) : byteLen (c :: r) = utf8Size c + byteLen r := rfl

theorem dropBytes_add : ∀ (s : List Nat) (a : Nat) (t : List Nat), dropBytes s a = some t →
    ∀ j, dropBytes s (a + j) = dropBytes t j
  | s, 0, t, h => by
    rw [dropBytes_zero] at h; simp only [Option.some.injEq] at h; subst h; intro j; simp
  | [], a + 1, t, h => by simp [dropBytes] at h
  | c :: r, a + 1, t, h => by
    intro j
    unfold dropBytes at h
    by_cases hc : utf8Size c ≤ a + 1
    · rw [if_pos hc] at h
      have e : a + 1 + j = (a + j) + 1 := by omega
      rw [e, dropBytes_cons_succ]
      rw [if_pos (by omega)]
      have e2 : a + j + 1 - utf8Size c = (a + 1 - utf8Size c) + j := by omega
      rw [e2]
      exact dropBytes_add r _ t h j
    · rw [if_neg hc] at h; simp at h

theorem takeBytes_isSome : ∀ (t : List Nat) (n : Nat), (dropBytes t n).isSome = true → (takeBytes t n).isSome = true
  | t, 0, _ => by rw [takeBytes_zero]; rfl
  | [], n + 1, h => by simp [dropBytes] at h
  | c :: r, n + 1, h => by
    unfold dropBytes at h
    unfold takeBytes
    by_cases hc : utf8Size c ≤ n + 1
    · rw [if_pos hc] at h ⊢
      have := takeBytes_isSome r _ h
      cases ht : takeBytes r (n + 1 - utf8Size c) with
      | none => rw [ht] at this; simp at this
      | some u => simp
    · rw [if_neg hc] at h; simp at h

/-- `&s[a..b]` does not panic when both ends are character boundaries in range -/
theorem sliceOpt_isSome (s : List Nat) (a b : Nat) (hab : a ≤ b) (ha : (dropBytes s a).isSome = true)
    (hb : (dropBytes s b).isSome = true) : (sliceOpt s a b).isSome = true := by
  unfold sliceOpt
  rw [if_pos hab]
  cases hd : dropBytes s a with
  | none => rw [hd] at ha; simp at ha
  | some t =>
    simp only
    apply takeBytes_isSome
    have := dropBytes_add s a t hd (b - a)
    have e : a + (b - a) = b := by omega
    rw [e] at this
    rw [← this]; exact hb

theorem slice_ne_panic (s : List Nat) (a b : Nat) (hab : a ≤ b) (ha : (dropBytes s a).isSome = true)
    (hb : (dropBytes s b).isSome = true) : ∃ t, slice s a b = .ok t := by
  have := sliceOpt_isSome s a b hab ha hb
  unfold slice
  cases h : sliceOpt s a b with
  | none => rw [h] at this; simp at this
  | some t => exact ⟨t, rfl⟩

theorem dropBytes_byteLen : ∀ (s : List Nat) (a : Nat) (t : List Nat), dropBytes s a = some t → byteLen s = a + byteLen t
  | s, 0, t, h => by rw [dropBytes_zero] at h; simp only [Option.some.injEq] at h; subst h; omega
  | [], a + 1, t, h => by simp [dropBytes] at h
  | c :: r, a + 1, t, h => by
    unfold dropBytes at h
    by_cases hc : utf8Size c ≤ a + 1
    · rw [if_pos hc] at h
      have := dropBytes_byteLen r _ t h
      rw [byteLen_cons]; omega
    · rw [if_neg hc] at h; simp at h

theorem takeBytes_all : ∀ (t : List Nat), takeBytes t (byteLen t) = some t
  | [] => rfl
  | c :: r => by
    have hp := utf8Size_pos c
    unfold byteLen
    obtain ⟨k, hk⟩ : ∃ k, utf8Size c + byteLen r = k + 1 := ⟨utf8Size c + byteLen r - 1, by omega⟩
    rw [hk]
    unfold takeBytes
    rw [if_pos (by omega)]
    have : k + 1 - utf8Size c = byteLen r := by omega
    rw [this, takeBytes_all r]

/-- `s.get(s.len() - k..)` is the suffix starting there -/
theorem sliceOpt_suffix (s : List Nat) (a : Nat) (t : List Nat) (h : sliceOpt s a (byteLen s) = some t) :
    dropBytes s a = some t := by
  unfold sliceOpt at h
  split at h
  · cases hd : dropBytes s a with
    | none => rw [hd] at h; simp at h
    | some u =>
      rw [hd] at h
      simp only at h
      have hl := dropBytes_byteLen s a u hd
      have : byteLen s - a = byteLen u := by omega
      rw [this, takeBytes_all u] at h
      exact h
  · simp at h

theorem length_le_byteLen : ∀ (s : List Nat), s.length ≤ byteLen s
  | [] => by simp [byteLen]
  | c :: r => by
    have := utf8Size_pos c
    have := length_le_byteLen r
    unfold byteLen; simp only [List.length_cons]; omega

theorem isAscii_of_byteLen_eq : ∀ (s : List Nat), byteLen s = s.length → isAscii s = true
  | [], _ => rfl
  | c :: r, h => by
    have h1 := utf8Size_pos c
    have h2 := length_le_byteLen r
    unfold byteLen at h; simp only [List.length_cons] at h
    rw [isAscii_cons]
    refine ⟨?_, isAscii_of_byteLen_eq r (by omega)⟩
    have : utf8Size c = 1 := by omega
    unfold utf8Size at this
    split at this
    · assumption
    · split at this <;> (try split at this) <;> omega

/-- `trim` removes a prefix and a suffix -/
theorem trim_decomp (s : List Nat) : ∃ a b, s = a ++ trim s ++ b := by
  refine ⟨s.takeWhile isWhitespace, ((s.dropWhile isWhitespace).reverse.takeWhile isWhitespace).reverse, ?_⟩
  unfold trim trimEnd trimStart
  have h1 : s = s.takeWhile isWhitespace ++ s.dropWhile isWhitespace := (List.takeWhile_append_dropWhile).symm
  have h2 : (s.dropWhile isWhitespace).reverse =
      (s.dropWhile isWhitespace).reverse.takeWhile isWhitespace ++ (s.dropWhile isWhitespace).reverse.dropWhile isWhitespace :=
    (List.takeWhile_append_dropWhile).symm
  have h3 : s.dropWhile isWhitespace =
      ((s.dropWhile isWhitespace).reverse.dropWhile isWhitespace).reverse ++
        ((s.dropWhile isWhitespace).reverse.takeWhile isWhitespace).reverse := by
    rw [← List.reverse_append, ← h2, List.reverse_reverse]
  rw [List.append_assoc, ← h3]
  exact h1

theorem lookup_mem {α} : ∀ (tbl : List (List Nat × α)) (x : List Nat) (v : α), lookup tbl x = some v → (x, v) ∈ tbl
  | [], _, _, h => by simp [lookup] at h
  | p :: r, x, v, h => by
    unfold lookup at h
    by_cases hp : p.1 = x
    · rw [if_pos hp] at h; simp only [Option.some.injEq] at h
      have : p = (x, v) := by cases p; simp_all
      rw [this]; simp
    · rw [if_neg hp] at h
      exact List.mem_cons_of_mem _ (lookup_mem r x v h)

/-- every spelling `TimeScale::from_str` accepts is ASCII and at least two characters long -/
theorem ts_spellings_shape :
    Gen.TIMESCALE_SPELLINGS.all (fun p => isAscii p.1 && decide (2 ≤ p.1.length)) = true := by decide

/-- a three-byte suffix that `TimeScale::from_str` accepts is three ASCII characters, and what `trim`
    leaves of it is ASCII too -/
theorem suffix_ascii (t : List Nat) (ts : TS) (h3 : byteLen t = 3) (h : tsFromStr t = some ts) :
    isAscii t = true ∧ isAscii (trim t) = true ∧ 2 ≤ (trim t).length ∧ (trim t).length ≤ 3 := by
  unfold tsFromStr at h
  have hm := lookup_mem _ _ _ h
  have hs := List.all_eq_true.mp ts_spellings_shape _ hm
  simp only [Bool.and_eq_true, decide_eq_true_eq] at hs
  obtain ⟨a, b, hd⟩ := trim_decomp t
  have hb : byteLen t = byteLen a + byteLen (trim t) + byteLen b := by
    conv => lhs; rw [hd]
    rw [byteLen_append, byteLen_append]
  have hl : t.length = a.length + (trim t).length + b.length := by
    conv => lhs; rw [hd]
    simp; omega
  have hm' := byteLen_ascii _ hs.1
  have ha1 := length_le_byteLen a
  have hb1 := length_le_byteLen b
  have ha2 : byteLen a = 0 → a.length = 0 := by omega
  have ha3 : a.length = 0 → byteLen a = 0 := by
    intro h0; have : a = [] := List.length_eq_zero_iff.mp h0; rw [this]; rfl
  have hb3 : b.length = 0 → byteLen b = 0 := by
    intro h0; have : b = [] := List.length_eq_zero_iff.mp h0; rw [this]; rfl
  refine ⟨isAscii_of_byteLen_eq t (by omega), hs.1, hs.2, by omega⟩


theorem startsWith_dropBytes : ∀ (s p : List Nat), isAscii p = true → startsWith s p = true →
    dropBytes s p.length = some (s.drop p.length)
  | s, [], _, _ => by simp [dropBytes_zero]
  | [], _ :: _, _, h => by simp [startsWith] at h
  | c :: r, p :: q, hp, h => by
    unfold startsWith at h
    simp only [Bool.and_eq_true, decide_eq_true_eq] at h
    have hp' := (isAscii_cons p q).mp hp
    simp only [List.length_cons, List.drop_succ_cons]
    rw [dropBytes_cons_succ, h.1, utf8Size_ascii hp'.1, if_pos (by omega)]
    have : q.length + 1 - 1 = q.length := by omega
    rw [this]
    exact startsWith_dropBytes r q hp'.2 h.2

theorem numericEpoch_ne_panic (fmt : Nat) (ts : TS) (bits : Nat) (dur : TS → Dur) (hf : finiteBits bits = true) :
    numericEpoch fmt ts bits dur ≠ .panic := by
  unfold numericEpoch
  simp only [hf, Bool.true_eq_false, if_false]
  split
  · simp
  · split <;> simp

theorem dropBytes_prefix : ∀ (a u : List Nat), dropBytes (a ++ u) (byteLen a) = some u
  | [], u => by simp [byteLen, dropBytes_zero]
  | c :: r, u => by
    have hp := utf8Size_pos c
    rw [byteLen_cons]
    obtain ⟨k, hk⟩ : ∃ k, utf8Size c + byteLen r = k + 1 := ⟨utf8Size c + byteLen r - 1, by omega⟩
    rw [hk]
    simp only [List.cons_append]
    rw [dropBytes_cons_succ, if_pos (by omega)]
    have : k + 1 - utf8Size c = byteLen r := by omega
    rw [this]; exact dropBytes_prefix r u

theorem dropBytes_suffix : ∀ (s : List Nat) (k : Nat) (t : List Nat), dropBytes s k = some t → ∃ pre, s = pre ++ t
  | s, 0, t, h => by rw [dropBytes_zero] at h; simp only [Option.some.injEq] at h; exact ⟨[], by simp [h]⟩
  | [], k + 1, t, h => by simp [dropBytes] at h
  | c :: r, k + 1, t, h => by
    rw [dropBytes_cons_succ] at h
    by_cases hc : utf8Size c ≤ k + 1
    · rw [if_pos hc] at h
      obtain ⟨pre, hpre⟩ := dropBytes_suffix r _ t h
      exact ⟨c :: pre, by rw [hpre]; rfl⟩
    · rw [if_neg hc] at h; simp at h

theorem dropWhile_head_not (p : Nat → Bool) : ∀ (l : List Nat) (a : Nat) (r : List Nat),
    l.dropWhile p = a :: r → p a = false
  | [], a, r, h => by simp at h
  | x :: l, a, r, h => by
    by_cases hx : p x = true
    · rw [List.dropWhile_cons_of_pos hx] at h; exact dropWhile_head_not p l a r h
    · rw [List.dropWhile_cons_of_neg hx] at h
      simp only [List.cons.injEq] at h
      rw [← h.1]; simpa using hx

/-- `trim` leaves no white space at the end -/
theorem trim_last_not_ws (X : List Nat) : ∀ c, (trim X).getLast? = some c → isWhitespace c = false := by
  intro c hc
  unfold trim trimEnd at hc
  rw [List.getLast?_reverse] at hc
  cases hd : (trimStart X).reverse.dropWhile isWhitespace with
  | nil => rw [hd] at hc; simp at hc
  | cons a r =>
    rw [hd] at hc
    simp only [List.head?_cons, Option.some.injEq] at hc
    subst hc
    exact dropWhile_head_not isWhitespace _ _ _ hd

theorem tsFromStr_nil : tsFromStr [] = none := by decide

/-- a suffix of a trimmed text that `TimeScale::from_str` accepts is some white space followed by the spelling:
    nothing is trimmed at its end, so the numeral ends on a character boundary -/
theorem suffix_shape (s t : List Nat) (k : Nat) (ts : TS) (hs : ∀ c, s.getLast? = some c → isWhitespace c = false)
    (hd : dropBytes s k = some t) (h : tsFromStr t = some ts) :
    ∃ a, t = a ++ trim t ∧ isAscii (trim t) = true ∧ 2 ≤ (trim t).length := by
  have hm := lookup_mem _ _ _ (by unfold tsFromStr at h; exact h)
  have hsp := List.all_eq_true.mp ts_spellings_shape _ hm
  simp only [Bool.and_eq_true, decide_eq_true_eq] at hsp
  refine ⟨t.takeWhile isWhitespace, ?_, hsp.1, hsp.2⟩
  obtain ⟨pre, hpre⟩ := dropBytes_suffix s k t hd
  have hsplit : t = t.takeWhile isWhitespace ++ trimStart t := (List.takeWhile_append_dropWhile).symm
  -- `trimStart t` is not empty (else `from_str` gets the empty string) and ends as `s` does
  have hne : trimStart t ≠ [] := by
    intro e
    have : trim t = [] := by unfold trim trimEnd; rw [e]; rfl
    rw [this] at hsp; simp at hsp
  have hlast : ∀ c, (trimStart t).getLast? = some c → isWhitespace c = false := by
    intro c hc
    apply hs c
    rw [hpre]
    conv => lhs; rw [hsplit]
    rw [← List.append_assoc, List.getLast?_append]
    rw [hc]; rfl
  have htrim : trim t = trimStart t := by
    unfold trim
    cases hr : (trimStart t).reverse with
    | nil => simp at hr; exact absurd hr hne
    | cons e r' =>
      have hT : trimStart t = r'.reverse ++ [e] := by
        have := congrArg List.reverse hr
        simpa using this
      rw [hT]
      apply trimEnd_id
      apply hlast
      rw [hT]; simp
  rw [htrim]; exact hsplit

theorem suffixTs_some (s : List Nat) : ∀ (l : List Nat) (ts : TS) (t : List Nat), suffixTs s l = some (ts, t) →
    ∃ n, n ∈ l ∧ n ≤ byteLen s ∧ sliceOpt s (byteLen s - n) (byteLen s) = some t ∧ tsFromStr t = some ts
  | [], ts, t, h => by simp [suffixTs] at h
  | n :: rest, ts, t, h => by
    unfold suffixTs at h
    by_cases hn : byteLen s < n
    · rw [if_pos hn] at h
      obtain ⟨m, hm, h2⟩ := suffixTs_some s rest ts t h
      exact ⟨m, List.mem_cons_of_mem _ hm, h2⟩
    · rw [if_neg hn] at h
      cases hsl : sliceOpt s (byteLen s - n) (byteLen s) with
      | none =>
        rw [hsl] at h
        obtain ⟨m, hm, h2⟩ := suffixTs_some s rest ts t h
        exact ⟨m, List.mem_cons_of_mem _ hm, h2⟩
      | some u =>
        rw [hsl] at h
        simp only at h
        cases hts : tsFromStr u with
        | none =>
          rw [hts] at h
          obtain ⟨m, hm, h2⟩ := suffixTs_some s rest ts t h
          exact ⟨m, List.mem_cons_of_mem _ hm, h2⟩
        | some ts' =>
          rw [hts] at h
          simp only [Option.some.injEq, Prod.mk.injEq] at h
          obtain ⟨h1, h2⟩ := h
          subst h1 h2
          exact ⟨n, by simp, by omega, hsl, hts⟩

theorem numericForm_ne_panic (s : List Nat) (p0 p1 : Nat) (rest2 : List Nat) (start fmt : Nat)
    (dur : Nat → Nat → TS → Dur) (h7 : 7 ≤ byteLen s)
    (hshape : s = p0 :: p1 :: rest2) (hp : p0 < 128 ∧ p1 < 128)
    (hlast : ∀ c, s.getLast? = some c → isWhitespace c = false)
    (hst : start = 2 ∨ (start = 3 ∧ ∃ p2 rest, rest2 = p2 :: rest ∧ p2 < 128 ∧ p2 ≠ 81)) :
    numericForm s start fmt dur ≠ .panic := by
  unfold numericForm
  cases hsx : suffixTs s [5, 4, 3] with
  | none => simp
  | some p =>
    obtain ⟨ts, tsStr⟩ := p
    simp only
    obtain ⟨n, hn, hnl, h1, h2⟩ := suffixTs_some s _ ts tsStr hsx
    have hd := sliceOpt_suffix s _ tsStr h1
    have hbl := dropBytes_byteLen s _ tsStr hd
    have hnb : byteLen tsStr = n := by omega
    obtain ⟨a, ha, hasc, hlen2⟩ := suffix_shape s tsStr _ ts hlast hd h2
    have hbt : byteLen (trim tsStr) = (trim tsStr).length := byteLen_ascii _ hasc
    have hsum : byteLen tsStr = byteLen a + byteLen (trim tsStr) := by
      conv => lhs; rw [ha]
      rw [byteLen_append]
    rw [if_neg (by omega)]
    have hn5 : n = 5 ∨ n = 4 ∨ n = 3 := by simpa using hn
    -- the end of the numeral is a character boundary
    have hend : dropBytes s (byteLen s - byteLen (trim tsStr)) = some (trim tsStr) := by
      have := dropBytes_add s _ tsStr hd (byteLen a)
      have e : byteLen s - n + byteLen a = byteLen s - byteLen (trim tsStr) := by omega
      rw [e] at this
      rw [this]
      conv => lhs; arg 1; rw [ha]
      exact dropBytes_prefix a (trim tsStr)
    -- the start (2 or 3) is one too: the text begins with ASCII characters
    have hs2 : dropBytes s 2 = some rest2 := by
      rw [hshape, dropBytes_cons_succ, utf8Size_ascii hp.1, if_pos (by omega)]
      show dropBytes (p1 :: rest2) 1 = _
      rw [dropBytes_cons_succ, utf8Size_ascii hp.2, if_pos (by omega)]
      exact dropBytes_zero _
    have hstart : (dropBytes s start).isSome = true := by
      rcases hst with h | ⟨h, p2, rest, hr, hp2, _⟩
      · subst h; rw [hs2]; rfl
      · subst h
        have := dropBytes_add s 2 _ hs2 1
        rw [this, hr, dropBytes_cons_succ, utf8Size_ascii hp2, if_pos (by omega)]
        rw [show 0 + 1 - 1 = 0 from rfl, dropBytes_zero]; rfl
    -- start ≤ end: only a five-letter spelling right behind a three-letter prefix could violate it, and then
    -- the spelling would begin with the prefix's last letter
    have hle : start ≤ byteLen s - byteLen (trim tsStr) := by
      rcases hst with h | ⟨h, p2, rest, hr, hp2, hq2⟩
      · subst h; omega
      · subst h
        by_cases h8 : 8 ≤ byteLen s
        · omega
        · have hl7 : byteLen s = 7 := by omega
          by_cases hm5 : (trim tsStr).length = 5
          · exfalso
            have ha0 : byteLen a = 0 := by omega
            have hanil : a = [] := by
              cases a with
              | nil => rfl
              | cons c r => have := utf8Size_pos c; rw [byteLen_cons] at ha0; omega
            have hn' : n = 5 := by omega
            have e2 : byteLen s - n = 2 := by omega
            rw [e2, hs2] at hd
            simp only [Option.some.injEq] at hd
            have htq : trim tsStr = p2 :: rest := by rw [ha, hanil] at hd; rw [← hr]; simpa using hd.symm
            have hm := lookup_mem _ _ _ (by unfold tsFromStr at h2; exact h2)
            have hq : Gen.TIMESCALE_SPELLINGS.all (fun p => decide (p.1.length = 5 → p.1.head? = some 81)) = true := by decide
            have := List.all_eq_true.mp hq _ hm
            simp only [decide_eq_true_eq] at this
            have := this hm5
            rw [htq] at this
            simp at this
            exact hq2 this
          · omega
    obtain ⟨num, hnum⟩ := slice_ne_panic s start _ hle hstart (by rw [hend]; rfl)
    rw [hnum]
    simp only
    cases lexF64 (trim num) with
    | none => simp
    | some bits =>
      simp only
      by_cases hf : finiteBits bits = true
      · rw [if_pos hf]; exact numericEpoch_ne_panic fmt ts bits _ hf
      · rw [if_neg hf]; simp

theorem startsWith2 (s : List Nat) (p0 p1 : Nat) (h : startsWith s [p0, p1] = true) :
    ∃ rest, s = p0 :: p1 :: rest := by
  cases s with
  | nil => simp [startsWith] at h
  | cons a r =>
    cases r with
    | nil => simp [startsWith] at h
    | cons b r2 =>
      simp only [startsWith, Bool.and_eq_true, decide_eq_true_eq, and_true] at h
      obtain ⟨h1, h2⟩ := h
      subst h1 h2
      exact ⟨r2, rfl⟩

theorem startsWith3 (s : List Nat) (p0 p1 p2 : Nat) (h : startsWith s [p0, p1, p2] = true) :
    ∃ rest, s = p0 :: p1 :: p2 :: rest := by
  cases s with
  | nil => simp [startsWith] at h
  | cons a r =>
    cases r with
    | nil => simp [startsWith] at h
    | cons b r2 =>
      cases r2 with
      | nil => simp [startsWith] at h
      | cons c r3 =>
        simp only [startsWith, Bool.and_eq_true, decide_eq_true_eq, and_true] at h
        obtain ⟨h1, h2, h3⟩ := h
        subst h1 h2 h3
        exact ⟨r3, rfl⟩

/-- TOTALITY of `impl FromStr for Epoch`, whatever the float-valued tail computes -/
theorem epochFromStrWith_ne_panic (dur : Nat → Nat → TS → Dur) (s : List Nat) : epochFromStrWith dur s ≠ .panic := by
  unfold epochFromStrWith
  by_cases h7 : byteLen (trim s) < 7
  · rw [if_pos h7]; simp
  · rw [if_neg h7]
    have hlast := trim_last_not_ws s
    by_cases hj : startsWith (trim s) [74, 68] = true
    · rw [if_pos hj]
      obtain ⟨rest, hr⟩ := startsWith2 _ _ _ hj
      exact numericForm_ne_panic _ 74 68 rest 2 0 dur (by omega) hr (by omega) hlast (Or.inl rfl)
    · rw [if_neg hj]
      by_cases hm : startsWith (trim s) [77, 74, 68] = true
      · rw [if_pos hm]
        obtain ⟨rest, hr⟩ := startsWith3 _ _ _ _ hm
        exact numericForm_ne_panic _ 77 74 (68 :: rest) 3 1 dur (by omega) hr (by omega) hlast
          (Or.inr ⟨rfl, 68, rest, rfl, by omega, by omega⟩)
      · rw [if_neg hm]
        by_cases hsec : startsWith (trim s) [83, 69, 67] = true
        · rw [if_pos hsec]
          obtain ⟨rest, hr⟩ := startsWith3 _ _ _ _ hsec
          exact numericForm_ne_panic _ 83 69 (67 :: rest) 3 2 dur (by omega) hr (by omega) hlast
            (Or.inr ⟨rfl, 67, rest, rfl, by omega, by omega⟩)
        · rw [if_neg hsec]
          exact fromGregorianStrIdx_ne_panic s

/-! ## Part D: symbolic execution of the tokenizer loop on rendered text

  The text is always written `s = pre ++ rem` with the loop standing at `rem`, `idx = pre.length`.
  Three reusable tokenizer lemmas: a run of digits is skipped (`loop_skip`); a run of digits followed by
  a separator closes a field (`field_step`, `field_step_sub` for the sub-seconds with their scaling);
  a run of digits ending the text closes the last field (`field_last`); in the `Timescale` state the
  first non-numeric character hands the rest of the text to `TimeScale::from_str` (`ts_step`). -/

theorem gregLoop_cons (s : List Nat) (len : Nat) (c : Nat) (rest : List Nat) (idx : Nat) (st : GSt) :
    gregLoop s len (c :: rest) idx st =
      match gregStep s len c idx st with
      | .cont st' => gregLoop s len rest (idx + 1) st'
      | .stop r => r := rfl

theorem gregLoop_nil (s : List Nat) (len : Nat) (idx : Nat) (st : GSt) : gregLoop s len [] idx st = .ok st := rfl

theorem isDigitRun_numeric {ds : List Nat} (hds : ∀ x ∈ ds, 48 ≤ x ∧ x ≤ 57) {x : Nat} (hx : x ∈ ds) :
    isNumeric x = true := isNumeric_digit (hds x hx).1 (hds x hx).2

/-- digits that are not at the end of the text are skipped -/
theorem loop_skip (s : List Nat) (len : Nat) : ∀ (ds rem : List Nat) (idx : Nat) (st : GSt),
    (∀ x ∈ ds, 48 ≤ x ∧ x ≤ 57) → idx + ds.length < len →
    gregLoop s len (ds ++ rem) idx st = gregLoop s len rem (idx + ds.length) st
  | [], rem, idx, st, _, _ => by simp
  | x :: ds, rem, idx, st, hds, hlen => by
    simp only [List.cons_append, List.length_cons] at hlen ⊢
    rw [gregLoop_cons]
    have hx : isNumeric x = true := isNumeric_digit (hds x (by simp)).1 (hds x (by simp)).2
    have : gregStep s len x idx st = .cont st := by
      unfold gregStep
      rw [if_neg (by omega), if_pos ⟨hx, by omega⟩]
    rw [this]
    simp only
    rw [loop_skip s len ds rem (idx + 1) st (fun y hy => hds y (by simp [hy])) (by omega)]
    have : idx + 1 + ds.length = idx + (ds.length + 1) := by omega
    rw [this]

theorem lexI32_digits_ne_nil {ds : List Nat} {v : Int} (h : lexI32 ds = some v) : ds ≠ [] := by
  intro e; subst e; simp [lexI32, lexInt, lexNat] at h

/-- a digit run followed by a separator closes the current field (any token but sub-seconds / time scale) -/
theorem field_step (s pre ds : List Nat) (c : Nat) (post : List Nat) (st : GSt) (tok' : Tok) (v : Int)
    (hs : s = pre ++ ds ++ c :: post) (ha : isAscii s = true) (hprev : st.prev = pre.length)
    (hds : ∀ x ∈ ds, 48 ≤ x ∧ x ≤ 57) (hc : c < 48 ∨ 57 < c)
    (htok : st.tok ≠ .timescale) (hsub : st.tok ≠ .subsecond)
    (hadv : advanceWith st.tok c = some tok') (hlex : lexI32 ds = some v) :
    gregLoop s s.length (ds ++ c :: post) pre.length st =
      if valueOk st.tok v = true then
        (match afterField s (pre.length + ds.length) tok' (setField st st.tok v) with
         | .cont st' => gregLoop s s.length post (pre.length + ds.length + 1) st'
         | .stop r => r)
      else .err := by
  have hlen : s.length = pre.length + ds.length + 1 + post.length := by rw [hs]; simp; omega
  have hc128 : c < 128 := isAscii_mem ha (by rw [hs]; simp)
  have hnn : isNumeric c = false := isNumeric_nondigit hc128 hc
  rw [loop_skip s s.length ds (c :: post) pre.length st hds (by omega)]
  rw [gregLoop_cons]
  have hstep : gregStep s s.length c (pre.length + ds.length) st =
      if valueOk st.tok v = true then afterField s (pre.length + ds.length) tok' (setField st st.tok v) else .stop .err := by
    unfold gregStep
    rw [if_neg (by omega), if_neg (by simp [hnn]), if_neg htok]
    unfold fieldStep
    rw [if_pos (Or.inr hnn), hadv]
    simp only
    unfold fieldParse
    rw [if_neg (by omega), hprev]
    have hsl : slice s pre.length (pre.length + ds.length) = .ok ds := by
      have := slice_mid pre ds (c :: post) (by rw [← hs]; exact ha)
      rw [← hs] at this; exact this
    rw [hsl]
    simp only
    rw [hlex]
    simp only
    by_cases hv : valueOk st.tok v = true
    · rw [if_neg (by simp [hv]), if_neg hsub, if_pos hv]
    · rw [if_pos (by simpa using hv), if_neg hv]
  rw [hstep]
  by_cases hv : valueOk st.tok v = true
  · rw [if_pos hv, if_pos hv]
  · rw [if_neg hv, if_neg hv]


/-- the sub-second field: the value is scaled by `10^(9 - number of digits)` -/
theorem field_step_sub (s pre ds : List Nat) (c : Nat) (post : List Nat) (st : GSt) (tok' : Tok) (v : Int)
    (hs : s = pre ++ ds ++ c :: post) (ha : isAscii s = true) (hprev : st.prev = pre.length)
    (hds : ∀ x ∈ ds, 48 ≤ x ∧ x ≤ 57) (hc : c < 48 ∨ 57 < c)
    (htok : st.tok = .subsecond) (h9 : ds.length ≤ 9)
    (hadv : advanceWith .subsecond c = some tok') (hlex : lexI32 ds = some v) (h0 : 0 ≤ v) :
    gregLoop s s.length (ds ++ c :: post) pre.length st =
      (match afterField s (pre.length + ds.length) tok' (setField st .subsecond (v * 10 ^ (9 - ds.length))) with
       | .cont st' => gregLoop s s.length post (pre.length + ds.length + 1) st'
       | .stop r => r) := by
  have hlen : s.length = pre.length + ds.length + 1 + post.length := by rw [hs]; simp; omega
  have hc128 : c < 128 := isAscii_mem ha (by rw [hs]; simp)
  have hnn : isNumeric c = false := isNumeric_nondigit hc128 hc
  rw [loop_skip s s.length ds (c :: post) pre.length st hds (by omega)]
  rw [gregLoop_cons]
  have hstep : gregStep s s.length c (pre.length + ds.length) st =
      afterField s (pre.length + ds.length) tok' (setField st .subsecond (v * 10 ^ (9 - ds.length))) := by
    unfold gregStep
    rw [if_neg (by omega), if_neg (by simp [hnn]), if_neg (by rw [htok]; decide)]
    unfold fieldStep
    rw [if_pos (Or.inr hnn), htok, hadv]
    simp only
    unfold fieldParse
    rw [if_neg (by omega), hprev]
    have hsl : slice s pre.length (pre.length + ds.length) = .ok ds := by
      have := slice_mid pre ds (c :: post) (by rw [← hs]; exact ha)
      rw [← hs] at this; exact this
    rw [hsl]
    simp only
    rw [hlex]
    simp only
    rw [htok]
    have hv : valueOk .subsecond v = true := by simp [valueOk, h0]
    rw [if_neg (by simp [hv]), if_pos rfl]
    have e : pre.length + ds.length - pre.length = ds.length := by omega
    rw [e, if_neg (by omega)]
    have hb := lexInt_bound hlex h0
    by_cases hne : ds.length ≠ 9
    · rw [if_pos hne]
      have hpw : (10 : Int) ^ ds.length * 10 ^ (9 - ds.length) = 1000000000 := by
        rw [← Int.pow_add]
        have : ds.length + (9 - ds.length) = 9 := by omega
        rw [this]; rfl
      have hpos : (0 : Int) < 10 ^ (9 - ds.length) := Int.pow_pos (by omega)
      have hle := pow10_le (9 - ds.length) (by omega)
      have hprod : v * 10 ^ (9 - ds.length) < 1000000000 := by
        rw [← hpw]; exact Int.mul_lt_mul_of_pos_right hb hpos
      have hprod0 : 0 ≤ v * 10 ^ (9 - ds.length) := Int.mul_nonneg h0 (by omega)
      have f1 : Cal.fitsI32 (10 ^ (9 - ds.length)) = true := by
        unfold Cal.fitsI32; simp only [decide_eq_true_eq]; omega
      have f2 : Cal.fitsI32 (v * 10 ^ (9 - ds.length)) = true := by
        unfold Cal.fitsI32; simp only [decide_eq_true_eq]; omega
      rw [if_pos ⟨f1, f2⟩]
    · rw [if_neg hne]
      have : ds.length = 9 := by omega
      rw [this]; simp
  rw [hstep]

/-- a digit run that ENDS the text closes the current field without advancing the token -/
theorem field_last (s pre ds0 : List Nat) (x : Nat) (st : GSt) (v : Int)
    (hs : s = pre ++ (ds0 ++ [x])) (ha : isAscii s = true) (hprev : st.prev = pre.length)
    (hds : ∀ y ∈ ds0 ++ [x], 48 ≤ y ∧ y ≤ 57)
    (htok : st.tok ≠ .timescale) (hsub : st.tok ≠ .subsecond) (hlex : lexI32 (ds0 ++ [x]) = some v) :
    gregLoop s s.length (ds0 ++ [x]) pre.length st =
      if valueOk st.tok v = true then
        (match afterField s (pre.length + ds0.length) st.tok (setField st st.tok v) with
         | .cont st' => .ok st'
         | .stop r => r)
      else .err := by
  have hlen : s.length = pre.length + ds0.length + 1 := by rw [hs]; simp; omega
  have hx : isNumeric x = true := isNumeric_digit (hds x (by simp)).1 (hds x (by simp)).2
  rw [loop_skip s s.length ds0 [x] pre.length st (fun y hy => hds y (by simp [hy])) (by omega)]
  rw [gregLoop_cons]
  have hstep : gregStep s s.length x (pre.length + ds0.length) st =
      if valueOk st.tok v = true then afterField s (pre.length + ds0.length) st.tok (setField st st.tok v) else .stop .err := by
    unfold gregStep
    rw [if_neg (by omega), if_neg (by intro h; exact h.2 (by omega)), if_neg htok]
    unfold fieldStep
    have hcond : ¬ (pre.length + ds0.length ≠ s.length - 1 ∨ isNumeric x = false) := by
      intro h
      rcases h with h | h
      · exact h (by omega)
      · rw [hx] at h; exact absurd h (by decide)
    rw [if_neg hcond]
    unfold fieldParse
    rw [if_neg (by omega), hprev]
    have hsl : slice s pre.length (pre.length + ds0.length + 1) = .ok (ds0 ++ [x]) := by
      have := slice_mid pre (ds0 ++ [x]) [] (by simp only [List.append_nil]; rw [← hs]; exact ha)
      simp only [List.append_nil, List.length_append, List.length_cons, List.length_nil] at this
      rw [← hs] at this
      rw [← this]; congr 1
    rw [hsl]
    simp only
    rw [hlex]
    simp only
    by_cases hv : valueOk st.tok v = true
    · rw [if_neg (by simp [hv]), if_neg hsub, if_pos hv]
    · rw [if_pos (by simpa using hv), if_neg hv]
  rw [hstep]
  by_cases hv : valueOk st.tok v = true
  · rw [if_pos hv, if_pos hv]
    cases afterField s (pre.length + ds0.length) st.tok (setField st st.tok v) with
    | cont st' => simp only; rw [gregLoop_nil]
    | stop r => rfl
  · rw [if_neg hv, if_neg hv]

/-- in the `Timescale` state the first non-numeric character (not the last of the text) hands the rest
    of the text to `TimeScale::from_str` and ends the loop -/
theorem ts_step (s pre : List Nat) (c : Nat) (post : List Nat) (st : GSt) (ts : TS)
    (hs : s = pre ++ c :: post) (ha : isAscii s = true) (hpost : post ≠ [])
    (hc : c < 48 ∨ 57 < c) (htok : st.tok = .timescale) (hts : tsFromStr (c :: post) = some ts) :
    gregLoop s s.length (c :: post) pre.length st = .ok { st with ts := ts } := by
  have hpl : 1 ≤ post.length := by
    cases post with
    | nil => exact absurd rfl hpost
    | cons _ _ => simp
  have hlen : s.length = pre.length + 1 + post.length := by rw [hs]; simp; omega
  have hc128 : c < 128 := isAscii_mem ha (by rw [hs]; simp)
  have hnn : isNumeric c = false := isNumeric_nondigit hc128 hc
  rw [gregLoop_cons]
  unfold gregStep
  rw [if_neg (by omega), if_neg (by simp [hnn]), if_pos htok, if_pos (by omega)]
  have hsl : slice s pre.length s.length = .ok (c :: post) := by
    have := slice_mid pre (c :: post) [] (by simp only [List.append_nil]; rw [← hs]; exact ha)
    simp only [List.append_nil] at this
    rw [← hs] at this
    rw [← this]; congr 1; rw [hlen]; simp; omega
  rw [hsl]
  simp only
  rw [hts]

theorem afterField_plain (s : List Nat) (idx : Nat) (cur : Tok) (st : GSt) (h : cur ≠ .offH) :
    afterField s idx cur st = .cont { st with tok := cur, prev := idx + 1 } := by
  unfold afterField; rw [if_neg h]

/-- entering the hour offset: the sign is the separator itself -/
theorem afterField_off (s pre : List Nat) (c : Nat) (post : List Nat) (st : GSt)
    (hs : s = pre ++ c :: post) (ha : isAscii s = true) :
    afterField s pre.length .offH st =
      .cont { st with tok := .offH, prev := pre.length + 1, sign := if c = 45 then -1 else st.sign } := by
  unfold afterField
  rw [if_pos rfl]
  have hsl : slice s pre.length (pre.length + 1) = .ok [c] := by
    have := slice_mid pre [c] post (by simp only [List.append_assoc, List.singleton_append]; rw [← hs]; exact ha)
    simp only [List.append_assoc, List.singleton_append, List.length_cons, List.length_nil] at this
    rw [← hs] at this; exact this
  rw [hsl]
  simp only
  by_cases h : c = 45
  · subst h; simp
  · rw [if_neg h, if_neg (by simpa using h)]

/-! ### `{:0w}` of a number that fits: `w` digits whose value is the number -/

theorem fmtNat_digits : ∀ (w n : Nat), n < 10 ^ w → ∀ x ∈ Cal.fmtNat w n, 48 ≤ x ∧ x ≤ 57
  | 0, n, h => by
    have : n = 0 := by simpa using h
    subst this; simp [Cal.fmtNat]
  | w + 1, n, h => by
    intro x hx
    unfold Cal.fmtNat at hx
    simp only [List.mem_append, List.mem_singleton] at hx
    rcases hx with hx | hx
    · exact fmtNat_digits w (n / 10) (by rw [Nat.pow_succ] at h; omega) x hx
    · omega

theorem fmtNat_length : ∀ (w n : Nat), n < 10 ^ w → (Cal.fmtNat w n).length = w
  | 0, n, h => by
    have : n = 0 := by simpa using h
    subst this; simp [Cal.fmtNat]
  | w + 1, n, h => by
    unfold Cal.fmtNat
    simp only [List.length_append, List.length_cons, List.length_nil]
    rw [fmtNat_length w (n / 10) (by rw [Nat.pow_succ] at h; omega)]

theorem digitsVal_snoc (a : List Nat) (c : Nat) : digitsVal (a ++ [c]) 0 = digitsVal a 0 * 10 + (c - 48) := by
  have : ∀ (a : List Nat) (acc : Nat), digitsVal (a ++ [c]) acc = digitsVal a acc * 10 + (c - 48) := by
    intro a
    induction a with
    | nil => intro acc; simp [digitsVal]
    | cons x r ih => intro acc; simp only [List.cons_append, digitsVal]; exact ih _
  exact this a 0

theorem fmtNat_val : ∀ (w n : Nat), n < 10 ^ w → digitsVal (Cal.fmtNat w n) 0 = n
  | 0, n, h => by
    have : n = 0 := by simpa using h
    subst this; simp [Cal.fmtNat, digitsVal]
  | w + 1, n, h => by
    unfold Cal.fmtNat
    rw [digitsVal_snoc, fmtNat_val w (n / 10) (by rw [Nat.pow_succ] at h; omega)]
    omega

/-- `lexical_core::parse::<i32>` on a run of digits -/
theorem lexI32_digits (ds : List Nat) (hds : ∀ x ∈ ds, 48 ≤ x ∧ x ≤ 57) (hne : ds ≠ [])
    (hfit : digitsVal ds 0 ≤ 2147483647) : lexI32 ds = some ((digitsVal ds 0 : Nat) : Int) := by
  have hall : ds.all isDigit = true := by
    rw [List.all_eq_true]; intro x hx; unfold isDigit; simp only [decide_eq_true_eq]; exact hds x hx
  have hn : lexNat ds = some (digitsVal ds 0) := by unfold lexNat; rw [if_pos ⟨hne, hall⟩]
  unfold lexI32 lexInt
  split
  · rename_i r; have := hds 45 (by simp); omega
  · rename_i r; have := hds 43 (by simp); omega
  · rw [hn]; simp only; rw [if_pos (by omega)]

/-- the text `{:0w}` of `n` reads back as `n` -/
theorem lexI32_fmtNat (w n : Nat) (hw : 1 ≤ w) (h : n < 10 ^ w) (hfit : n ≤ 2147483647) :
    lexI32 (Cal.fmtNat w n) = some (n : Int) := by
  have hl := fmtNat_length w n h
  have := lexI32_digits (Cal.fmtNat w n) (fmtNat_digits w n h)
    (by intro e; rw [e] at hl; simp at hl; omega) (by rw [fmtNat_val w n h]; exact hfit)
  rw [fmtNat_val w n h] at this; exact this


/-- `field_step` for a `{:0w}` field, with the indices as numerals -/
theorem field_fmt (s pre : List Nat) (w n : Nat) (c : Nat) (post : List Nat) (st : GSt) (tok' : Tok) (idx idx' : Nat)
    (hs : s = pre ++ Cal.fmtNat w n ++ c :: post) (ha : isAscii s = true)
    (hw : 1 ≤ w) (hn : n < 10 ^ w) (hfit : n ≤ 2147483647)
    (hidx : idx = pre.length) (hidx' : idx' = idx + w) (hprev : st.prev = idx)
    (hc : c < 48 ∨ 57 < c) (htok : st.tok ≠ .timescale) (hsub : st.tok ≠ .subsecond)
    (hadv : advanceWith st.tok c = some tok') :
    gregLoop s s.length (Cal.fmtNat w n ++ c :: post) idx st =
      if valueOk st.tok (n : Int) = true then
        (match afterField s idx' tok' (setField st st.tok (n : Int)) with
         | .cont st' => gregLoop s s.length post (idx' + 1) st'
         | .stop r => r)
      else .err := by
  subst hidx hidx'
  have := field_step s pre (Cal.fmtNat w n) c post st tok' (n : Int) hs ha hprev (fmtNat_digits w n hn) hc htok hsub hadv
    (lexI32_fmtNat w n hw hn hfit)
  rw [fmtNat_length w n hn] at this
  exact this

/-- `YYYY-MM-DDTHH:MM:` -/
def stamp5 (y mo d h mi : Nat) : List Nat :=
  Cal.fmtNat 4 y ++ [45] ++ Cal.fmtNat 2 mo ++ [45] ++ Cal.fmtNat 2 d ++ [84] ++ Cal.fmtNat 2 h ++ [58] ++ Cal.fmtNat 2 mi ++ [58]

/-- the loop state after the first five fields -/
def st5 (y mo d h mi : Nat) : GSt := ⟨y, mo, d, h, mi, 0, 0, 0, 0, 1, .UTC, 17, .second⟩

theorem stamp5_length (y mo d h mi : Nat) (hy : y < 10000) (hmo : mo < 100) (hd : d < 100) (hh : h < 100) (hmi : mi < 100) :
    (stamp5 y mo d h mi).length = 17 := by
  unfold stamp5
  simp only [List.length_append, List.length_cons, List.length_nil]
  rw [fmtNat_length 4 y (by omega), fmtNat_length 2 mo (by omega), fmtNat_length 2 d (by omega),
    fmtNat_length 2 h (by omega), fmtNat_length 2 mi (by omega)]

/-- the first five fields: year, month, day, hour, minute (each guarded by `value_ok`) -/
theorem stamp5_loop (s rem : List Nat) (y mo d h mi : Nat) (hs : s = stamp5 y mo d h mi ++ rem) (ha : isAscii s = true)
    (hy : y < 10000) (hmo : mo < 100) (hd : d < 100) (hh : h < 100) (hmi : mi < 100) :
    gregLoop s s.length (stamp5 y mo d h mi ++ rem) 0 GSt.init =
      if valueOk .month (mo : Int) = true then
        if valueOk .day (d : Int) = true then
          if valueOk .hour (h : Int) = true then
            if valueOk .minute (mi : Int) = true then gregLoop s s.length rem 17 (st5 y mo d h mi)
            else .err
          else .err
        else .err
      else .err := by
  have hs' : s = Cal.fmtNat 4 y ++ 45 :: (Cal.fmtNat 2 mo ++ 45 :: (Cal.fmtNat 2 d ++ 84 :: (Cal.fmtNat 2 h ++ 58 ::
      (Cal.fmtNat 2 mi ++ 58 :: rem)))) := by rw [hs]; simp [stamp5]
  have e : stamp5 y mo d h mi ++ rem = Cal.fmtNat 4 y ++ 45 :: (Cal.fmtNat 2 mo ++ 45 :: (Cal.fmtNat 2 d ++ 84 :: (Cal.fmtNat 2 h ++ 58 ::
      (Cal.fmtNat 2 mi ++ 58 :: rem)))) := by simp [stamp5]
  rw [e]
  have l4 := fmtNat_length 4 y (by omega)
  have l2a := fmtNat_length 2 mo (by omega)
  have l2b := fmtNat_length 2 d (by omega)
  have l2c := fmtNat_length 2 h (by omega)
  have l2d := fmtNat_length 2 mi (by omega)
  -- year
  rw [field_fmt s [] 4 y 45 _ GSt.init .month 0 4 (by rw [hs']; simp) ha (by omega) (by omega) (by omega) rfl rfl rfl
    (by omega) (by decide) (by decide) rfl]
  rw [if_pos (by rfl), afterField_plain _ _ _ _ (by decide)]
  dsimp only [GSt.init, setField]
  -- month
  rw [field_fmt s (Cal.fmtNat 4 y ++ [45]) 2 mo 45 _ _ .day 5 7 (by rw [hs']; simp) ha (by omega) (by omega) (by omega)
    (by simp [l4]) rfl rfl (by omega) (by simp) (by simp) rfl]
  dsimp only [setField]
  by_cases hv1 : valueOk .month (mo : Int) = true
  case neg => rw [if_neg hv1, if_neg hv1]
  rw [if_pos hv1, if_pos hv1, afterField_plain _ _ _ _ (by decide)]
  dsimp only
  -- day
  rw [field_fmt s (Cal.fmtNat 4 y ++ [45] ++ Cal.fmtNat 2 mo ++ [45]) 2 d 84 _ _ .hour 8 10 (by rw [hs']; simp) ha
    (by omega) (by omega) (by omega) (by simp [l4, l2a]) rfl rfl (by omega) (by simp) (by simp) rfl]
  dsimp only [setField]
  by_cases hv2 : valueOk .day (d : Int) = true
  case neg => rw [if_neg hv2, if_neg hv2]
  rw [if_pos hv2, if_pos hv2, afterField_plain _ _ _ _ (by decide)]
  dsimp only
  -- hour
  rw [field_fmt s (Cal.fmtNat 4 y ++ [45] ++ Cal.fmtNat 2 mo ++ [45] ++ Cal.fmtNat 2 d ++ [84]) 2 h 58 _ _ .minute 11 13
    (by rw [hs']; simp) ha (by omega) (by omega) (by omega) (by simp [l4, l2a, l2b]) rfl rfl (by omega) (by simp) (by simp) rfl]
  dsimp only [setField]
  by_cases hv3 : valueOk .hour (h : Int) = true
  case neg => rw [if_neg hv3, if_neg hv3]
  rw [if_pos hv3, if_pos hv3, afterField_plain _ _ _ _ (by decide)]
  dsimp only
  -- minute
  rw [field_fmt s (Cal.fmtNat 4 y ++ [45] ++ Cal.fmtNat 2 mo ++ [45] ++ Cal.fmtNat 2 d ++ [84] ++ Cal.fmtNat 2 h ++ [58]) 2 mi 58
    _ _ .second 14 16 (by rw [hs']; simp) ha (by omega) (by omega) (by omega) (by simp [l4, l2a, l2b, l2c]) rfl rfl (by omega)
    (by simp) (by simp) rfl]
  dsimp only [setField]
  by_cases hv4 : valueOk .minute (mi : Int) = true
  case neg => rw [if_neg hv4, if_neg hv4]
  rw [if_pos hv4, if_pos hv4, afterField_plain _ _ _ _ (by decide)]
  rfl


/-- `[.f…]`: `k` fractional digits holding `f` (no point when `k = 0`) -/
def fracN (k f : Nat) : List Nat := if k = 0 then [] else 46 :: Cal.fmtNat k f

/-- the loop state after seconds and fraction, standing after the terminator `c2`
    (blank / `Z`: time scale next; `+` / `-`: offset hours next, sign taken from the terminator) -/
def st7 (y mo d h mi sec : Nat) (ns : Int) (c2 : Nat) (next : Nat) : GSt :=
  ⟨y, mo, d, h, mi, sec, ns, 0, 0, if c2 = 45 then -1 else 1, .UTC, next,
   if c2 = 43 ∨ c2 = 45 then .offH else .timescale⟩

theorem afterField_term (s pre : List Nat) (c2 : Nat) (post : List Nat) (st : GSt)
    (hs : s = pre ++ c2 :: post) (ha : isAscii s = true) (hsign : st.sign = 1) :
    afterField s pre.length (if c2 = 43 ∨ c2 = 45 then Tok.offH else Tok.timescale) st =
      .cont { st with tok := if c2 = 43 ∨ c2 = 45 then Tok.offH else Tok.timescale, prev := pre.length + 1,
                      sign := if c2 = 45 then -1 else 1 } := by
  by_cases h : c2 = 43 ∨ c2 = 45
  · rw [if_pos h, afterField_off s pre c2 post st hs ha, hsign]
  · rw [if_neg h, afterField_plain _ _ _ _ (by decide)]
    have : ¬ c2 = 45 := fun e => h (Or.inr e)
    rw [if_neg this]
    cases st; simp only at hsign; subst hsign; rfl

/-- seconds, optional fraction, terminator -/
theorem secfrac_loop (s pre post2 : List Nat) (y mo d h mi sec k f c2 : Nat)
    (hpre : pre.length = 17)
    (hs : s = pre ++ (Cal.fmtNat 2 sec ++ fracN k f ++ c2 :: post2)) (ha : isAscii s = true)
    (hsec : sec < 100) (hk : k ≤ 9) (hf : f < 10 ^ k) (hc2 : c2 = 32 ∨ c2 = 90 ∨ c2 = 43 ∨ c2 = 45) :
    gregLoop s s.length (Cal.fmtNat 2 sec ++ fracN k f ++ c2 :: post2) 17 (st5 y mo d h mi) =
      if valueOk .second (sec : Int) = true then
        gregLoop s s.length post2 (19 + (fracN k f).length + 1)
          (st7 y mo d h mi sec ((f : Int) * 10 ^ (9 - k)) c2 (19 + (fracN k f).length + 1))
      else .err := by
  have l2 := fmtNat_length 2 sec (by omega)
  have hadv2 : advanceWith .second c2 = some (if c2 = 43 ∨ c2 = 45 then Tok.offH else Tok.timescale) := by
    rcases hc2 with h | h | h | h <;> subst h <;> rfl
  have hadv3 : advanceWith .subsecond c2 = some (if c2 = 43 ∨ c2 = 45 then Tok.offH else Tok.timescale) := by
    rcases hc2 with h | h | h | h <;> subst h <;> rfl
  by_cases hk0 : k = 0
  · -- no fraction
    subst hk0
    have hf0 : f = 0 := by simpa using hf
    subst hf0
    simp only [fracN, if_true, List.append_nil, List.length_nil, Nat.add_zero]
    simp only [fracN, if_true, List.append_nil] at hs
    rw [field_fmt s pre 2 sec c2 post2 _ _ 17 19 (by rw [hs]; simp) ha (by omega) (by omega) (by omega)
      hpre.symm rfl rfl (by omega) (by simp [st5]) (by simp [st5]) hadv2]
    by_cases hv : valueOk .second (sec : Int) = true
    case neg => rw [if_neg hv, if_neg (by simpa [st5] using hv)]
    rw [if_pos hv, if_pos (by simpa [st5] using hv)]
    have hs2 : s = (pre ++ Cal.fmtNat 2 sec) ++ c2 :: post2 := by rw [hs]; simp
    have hl : (pre ++ Cal.fmtNat 2 sec).length = 19 := by simp [hpre, l2]
    have := afterField_term s (pre ++ Cal.fmtNat 2 sec) c2 post2 (setField (st5 y mo d h mi) (st5 y mo d h mi).tok (sec : Int))
      hs2 ha rfl
    rw [hl] at this
    rw [this]
    simp [st5, st7, setField]
  · -- a fraction of k digits
    have hfr : fracN k f = 46 :: Cal.fmtNat k f := by unfold fracN; rw [if_neg hk0]
    have lk := fmtNat_length k f hf
    rw [hfr] at hs ⊢
    simp only [List.length_cons, lk]
    have e : Cal.fmtNat 2 sec ++ 46 :: Cal.fmtNat k f ++ c2 :: post2 = Cal.fmtNat 2 sec ++ 46 :: (Cal.fmtNat k f ++ c2 :: post2) := by
      simp
    rw [e]
    rw [field_fmt s pre 2 sec 46 _ _ .subsecond 17 19 (by rw [hs]; simp) ha (by omega) (by omega) (by omega)
      hpre.symm rfl rfl (by omega) (by simp [st5]) (by simp [st5]) rfl]
    by_cases hv : valueOk .second (sec : Int) = true
    case neg => rw [if_neg hv, if_neg (by simpa [st5] using hv)]
    rw [if_pos hv, if_pos (by simpa [st5] using hv), afterField_plain _ _ _ _ (by decide)]
    dsimp only [st5, setField]
    have hs3 : s = (pre ++ Cal.fmtNat 2 sec ++ [46]) ++ Cal.fmtNat k f ++ c2 :: post2 := by rw [hs]; simp
    have hl3 : (pre ++ Cal.fmtNat 2 sec ++ [46]).length = 20 := by simp [hpre, l2]
    have hlex := lexI32_fmtNat k f (by omega) hf (by
      have := Nat.pow_le_pow_right (n := 10) (by omega) hk
      omega)
    have := field_step_sub s (pre ++ Cal.fmtNat 2 sec ++ [46]) (Cal.fmtNat k f) c2 post2
      ⟨y, mo, d, h, mi, sec, 0, 0, 0, 1, .UTC, 19 + 1, .subsecond⟩ _ (f : Int) hs3 ha (by rw [hl3])
      (fmtNat_digits k f hf) (by omega) rfl (by omega) hadv3 hlex (by omega)
    rw [hl3, lk] at this
    rw [this]
    have hs4 : s = (pre ++ Cal.fmtNat 2 sec ++ [46] ++ Cal.fmtNat k f) ++ c2 :: post2 := by rw [hs]; simp
    have hl4 : (pre ++ Cal.fmtNat 2 sec ++ [46] ++ Cal.fmtNat k f).length = 20 + k := by simp [hpre, l2, lk]; omega
    have h2 := afterField_term s (pre ++ Cal.fmtNat 2 sec ++ [46] ++ Cal.fmtNat k f) c2 post2
      (setField ⟨y, mo, d, h, mi, sec, 0, 0, 0, 1, .UTC, 19 + 1, .subsecond⟩ .subsecond ((f : Int) * 10 ^ (9 - k))) hs4 ha rfl
    rw [hl4] at h2
    rw [h2]
    have e1 : 20 + k + 1 = 19 + (k + 1) + 1 := by omega
    simp only [setField, st7, e1]


/-- all `value_ok` tests of the date-time fields -/
abbrev fieldsOk (mo d h mi sec : Nat) : Prop :=
  valueOk .month (mo : Int) = true ∧ valueOk .day (d : Int) = true ∧ valueOk .hour (h : Int) = true ∧
  valueOk .minute (mi : Int) = true ∧ valueOk .second (sec : Int) = true

/-- the head of every form: `YYYY-MM-DDTHH:MM:SS[.f…]` and its terminator -/
theorem head_loop (s post2 : List Nat) (y mo d h mi sec k f c2 : Nat)
    (hs : s = stamp5 y mo d h mi ++ (Cal.fmtNat 2 sec ++ fracN k f ++ c2 :: post2)) (ha : isAscii s = true)
    (hy : y < 10000) (hmo : mo < 100) (hd : d < 100) (hh : h < 100) (hmi : mi < 100)
    (hsec : sec < 100) (hk : k ≤ 9) (hf : f < 10 ^ k) (hc2 : c2 = 32 ∨ c2 = 90 ∨ c2 = 43 ∨ c2 = 45) :
    gregLoop s s.length s 0 GSt.init =
      if fieldsOk mo d h mi sec then
        gregLoop s s.length post2 (19 + (fracN k f).length + 1)
          (st7 y mo d h mi sec ((f : Int) * 10 ^ (9 - k)) c2 (19 + (fracN k f).length + 1))
      else .err := by
  have h1 := stamp5_loop s _ y mo d h mi hs ha hy hmo hd hh hmi
  have h2 := secfrac_loop s (stamp5 y mo d h mi) post2 y mo d h mi sec k f c2
    (stamp5_length y mo d h mi hy hmo hd hh hmi) hs ha hsec hk hf hc2
  rw [← hs] at h1
  rw [h1, h2]
  by_cases a1 : valueOk .month (mo : Int) = true
  · by_cases a2 : valueOk .day (d : Int) = true
    · by_cases a3 : valueOk .hour (h : Int) = true
      · by_cases a4 : valueOk .minute (mi : Int) = true
        · by_cases a5 : valueOk .second (sec : Int) = true
          · rw [if_pos a1, if_pos a2, if_pos a3, if_pos a4, if_pos a5, if_pos ⟨a1, a2, a3, a4, a5⟩]
          · rw [if_pos a1, if_pos a2, if_pos a3, if_pos a4, if_neg a5, if_neg (fun x => a5 x.2.2.2.2)]
        · rw [if_pos a1, if_pos a2, if_pos a3, if_neg a4, if_neg (fun x => a4 x.2.2.2.1)]
      · rw [if_pos a1, if_pos a2, if_neg a3, if_neg (fun x => a3 x.2.2.1)]
    · rw [if_pos a1, if_neg a2, if_neg (fun x => a2 x.2.1)]
  · rw [if_neg a1, if_neg (fun x => a1 x.1)]

/-- tail `␣SCALE` (Display) or, after `Z`, `␣SCALE`: the rest of the text goes to `TimeScale::from_str` -/
theorem ts_tail (s pre : List Nat) (c : Nat) (post : List Nat) (st : GSt) (ts : TS) (next : Nat)
    (hs : s = pre ++ c :: post) (ha : isAscii s = true) (hpre : pre.length = next) (hpost : post ≠ [])
    (hc : c < 48 ∨ 57 < c) (htok : st.tok = .timescale) (hts : tsFromStr (c :: post) = some ts) :
    gregLoop s s.length (c :: post) next st = .ok { st with ts := ts } := by
  subst hpre
  exact ts_step s pre c post st ts hs ha hpost hc htok hts

theorem fmtNat_two (n : Nat) : Cal.fmtNat 2 n = Cal.fmtNat 1 (n / 10) ++ [48 + n % 10] := rfl

/-- tail `hh:mm` ending the text (state: offset hours next) -/
theorem off_tail_end (s pre : List Nat) (st : GSt) (oh om next : Nat)
    (hs : s = pre ++ (Cal.fmtNat 2 oh ++ 58 :: Cal.fmtNat 2 om)) (ha : isAscii s = true) (hpre : pre.length = next)
    (hoh : oh < 100) (hom : om < 100) (htok : st.tok = .offH) (hprev : st.prev = next) :
    gregLoop s s.length (Cal.fmtNat 2 oh ++ 58 :: Cal.fmtNat 2 om) next st =
      if valueOk .offH (oh : Int) = true ∧ valueOk .offM (om : Int) = true then
        .ok { st with oh := oh, om := om, tok := .offM, prev := next + 5 }
      else .err := by
  have l1 := fmtNat_length 2 oh (by omega)
  have l2 := fmtNat_length 1 (om / 10) (by omega)
  rw [field_fmt s pre 2 oh 58 _ st .offM next (next + 2) (by rw [hs]; simp) ha (by omega) (by omega) (by omega)
    hpre.symm rfl hprev (by omega) (by rw [htok]; decide) (by rw [htok]; decide) (by rw [htok]; rfl)]
  rw [htok]
  by_cases hv1 : valueOk .offH (oh : Int) = true
  case neg => rw [if_neg hv1, if_neg (fun x => hv1 x.1)]
  rw [if_pos hv1, afterField_plain _ _ _ _ (by decide)]
  dsimp only
  rw [fmtNat_two om]
  have hs2 : s = (pre ++ Cal.fmtNat 2 oh ++ [58]) ++ (Cal.fmtNat 1 (om / 10) ++ [48 + om % 10]) := by
    rw [hs, fmtNat_two om]; simp
  have hl : (pre ++ Cal.fmtNat 2 oh ++ [58]).length = next + 2 + 1 := by simp [hpre, l1]
  have hlex : lexI32 (Cal.fmtNat 1 (om / 10) ++ [48 + om % 10]) = some (om : Int) := by
    rw [← fmtNat_two om]; exact lexI32_fmtNat 2 om (by omega) (by omega) (by omega)
  have hdig : ∀ y ∈ Cal.fmtNat 1 (om / 10) ++ [48 + om % 10], 48 ≤ y ∧ y ≤ 57 := by
    rw [← fmtNat_two om]; exact fmtNat_digits 2 om (by omega)
  have := field_last s (pre ++ Cal.fmtNat 2 oh ++ [58]) (Cal.fmtNat 1 (om / 10)) (48 + om % 10)
    { setField st .offH (oh : Int) with tok := .offM, prev := next + 2 + 1 } (om : Int) hs2 ha (by rw [hl]) hdig
    (by simp) (by simp) hlex
  rw [hl] at this
  rw [this]
  dsimp only
  by_cases hv2 : valueOk .offM (om : Int) = true
  case neg => rw [if_neg hv2, if_neg (fun x => hv2 x.2)]
  rw [if_pos hv2, if_pos ⟨hv1, hv2⟩, afterField_plain _ _ _ _ (by decide), l2]
  simp [setField]

/-- tail `hh:mm␣SCALE` -/
theorem off_tail_ts (s pre : List Nat) (st : GSt) (oh om next c : Nat) (post : List Nat) (ts : TS)
    (hs : s = pre ++ (Cal.fmtNat 2 oh ++ 58 :: (Cal.fmtNat 2 om ++ 32 :: c :: post))) (ha : isAscii s = true)
    (hpre : pre.length = next) (hoh : oh < 100) (hom : om < 100) (htok : st.tok = .offH) (hprev : st.prev = next)
    (hpost : post ≠ []) (hc : c < 48 ∨ 57 < c) (hts : tsFromStr (c :: post) = some ts) :
    gregLoop s s.length (Cal.fmtNat 2 oh ++ 58 :: (Cal.fmtNat 2 om ++ 32 :: c :: post)) next st =
      if valueOk .offH (oh : Int) = true ∧ valueOk .offM (om : Int) = true then
        .ok { st with oh := oh, om := om, tok := .timescale, prev := next + 6, ts := ts }
      else .err := by
  have l1 := fmtNat_length 2 oh (by omega)
  have l2 := fmtNat_length 2 om (by omega)
  rw [field_fmt s pre 2 oh 58 _ st .offM next (next + 2) (by rw [hs]; simp) ha (by omega) (by omega) (by omega)
    hpre.symm rfl hprev (by omega) (by rw [htok]; decide) (by rw [htok]; decide) (by rw [htok]; rfl)]
  rw [htok]
  by_cases hv1 : valueOk .offH (oh : Int) = true
  case neg => rw [if_neg hv1, if_neg (fun x => hv1 x.1)]
  rw [if_pos hv1, afterField_plain _ _ _ _ (by decide)]
  dsimp only
  rw [field_fmt s (pre ++ Cal.fmtNat 2 oh ++ [58]) 2 om 32 _ _ .timescale (next + 2 + 1) (next + 2 + 1 + 2)
    (by rw [hs]; simp) ha (by omega) (by omega) (by omega) (by simp [hpre, l1]) rfl rfl (by omega) (by simp) (by simp) rfl]
  dsimp only
  by_cases hv2 : valueOk .offM (om : Int) = true
  case neg => rw [if_neg hv2, if_neg (fun x => hv2 x.2)]
  rw [if_pos hv2, if_pos ⟨hv1, hv2⟩, afterField_plain _ _ _ _ (by decide)]
  dsimp only
  rw [ts_tail s (pre ++ Cal.fmtNat 2 oh ++ [58] ++ Cal.fmtNat 2 om ++ [32]) c post _ ts (next + 2 + 1 + 2 + 1)
    (by rw [hs]; simp) ha (by simp [hpre, l1, l2]) hpost hc rfl hts]
  simp [setField]


/-! ### from the loop to `from_gregorian_str` -/

/-- what follows the loop depends on the parsed fields only -/
def finishFields (y mo d h mi sec ns oh om sign : Int) (ts : TS) : Res Ep :=
  finishGreg ⟨y, mo, d, h, mi, sec, ns, oh, om, sign, ts, 0, .year⟩

theorem finishGreg_eq (st : GSt) :
    finishGreg st = finishFields st.y st.mo st.d st.h st.mi st.sec st.ns st.oh st.om st.sign st.ts := by
  unfold finishFields finishGreg tzOf; rfl

theorem trim_eq_self (T : List Nat) (h1 : ∀ c, T.head? = some c → isWhitespace c = false)
    (h2 : ∀ c, T.getLast? = some c → isWhitespace c = false) : trim T = T := by
  cases T with
  | nil => rfl
  | cons c r =>
    have hc := h1 c rfl
    unfold trim
    rw [trimStart_id hc]
    cases hr : (c :: r).reverse with
    | nil => simp at hr
    | cons e r' =>
      have hT : c :: r = r'.reverse ++ [e] := by
        have := congrArg List.reverse hr
        simpa using this
      rw [hT]
      apply trimEnd_id
      apply h2
      rw [hT]; simp

theorem digit_not_ws {c : Nat} (h : 48 ≤ c ∧ c ≤ 57) : isWhitespace c = false := by
  rw [isWhitespace_ascii c (by omega)]; simp; omega

/-- texts that start with a digit and end with a non-blank are handed to the loop unchanged -/
theorem parse_shell (T : List Nat) (ha : isAscii T = true)
    (h1 : ∀ c, T.head? = some c → 48 ≤ c ∧ c ≤ 57) (h2 : ∀ c, T.getLast? = some c → isWhitespace c = false) :
    fromGregorianStrIdx T =
      match gregLoop T T.length T 0 GSt.init with
      | .ok st => finishGreg st
      | .err => .err
      | .panic => .panic := by
  unfold fromGregorianStrIdx
  rw [trim_eq_self T (fun c hc => digit_not_ws (h1 c hc)) h2, if_neg (by simp [ha]), byteLen_ascii T ha]
  rfl

theorem startsWith_digit (T p : List Nat) (c0 : Nat) (hp : p.head? = some c0) (hc0 : 57 < c0)
    (h1 : ∀ c, T.head? = some c → 48 ≤ c ∧ c ≤ 57) : startsWith T p = false := by
  cases p with
  | nil => simp at hp
  | cons a q =>
    simp at hp; subst hp
    cases T with
    | nil => rfl
    | cons c r =>
      have := h1 c rfl
      unfold startsWith
      have : decide (c = a) = false := by simp; omega
      rw [this]; rfl

/-- `Epoch::from_str` on a long text that starts with a digit is `from_gregorian_str` -/
theorem epochFromStr_gregorian (dur : Nat → Nat → TS → Dur) (T : List Nat) (ha : isAscii T = true) (hlen : 7 ≤ T.length)
    (h1 : ∀ c, T.head? = some c → 48 ≤ c ∧ c ≤ 57) (h2 : ∀ c, T.getLast? = some c → isWhitespace c = false) :
    epochFromStrWith dur T = fromGregorianStrIdx T := by
  unfold epochFromStrWith
  rw [trim_eq_self T (fun c hc => digit_not_ws (h1 c hc)) h2, byteLen_ascii T ha, if_neg (by omega),
    startsWith_digit T [74, 68] 74 rfl (by omega) h1, startsWith_digit T [77, 74, 68] 77 rfl (by omega) h1,
    startsWith_digit T [83, 69, 67] 83 rfl (by omega) h1]
  simp

theorem fmtNat_ascii (w n : Nat) (h : n < 10 ^ w) : isAscii (Cal.fmtNat w n) = true := by
  unfold isAscii; rw [List.all_eq_true]; intro x hx
  have := fmtNat_digits w n h x hx
  simp only [decide_eq_true_eq]; omega

theorem stamp5_ascii (y mo d h mi : Nat) (hy : y < 10000) (hmo : mo < 100) (hd : d < 100) (hh : h < 100) (hmi : mi < 100) :
    isAscii (stamp5 y mo d h mi) = true := by
  unfold stamp5
  simp only [isAscii_append, fmtNat_ascii 4 y (by omega), fmtNat_ascii 2 mo (by omega), fmtNat_ascii 2 d (by omega),
    fmtNat_ascii 2 h (by omega), fmtNat_ascii 2 mi (by omega), true_and, and_true]
  decide

theorem fracN_ascii (k f : Nat) (hf : f < 10 ^ k) : isAscii (fracN k f) = true := by
  unfold fracN
  split
  · rfl
  · rw [isAscii_cons]; exact ⟨by omega, fmtNat_ascii k f hf⟩

theorem stamp5_head (y mo d h mi : Nat) (hy : y < 10000) (R : List Nat) :
    ∀ c, (stamp5 y mo d h mi ++ R).head? = some c → 48 ≤ c ∧ c ≤ 57 := by
  intro c hc
  have hl := fmtNat_length 4 y (by omega)
  have hd := fmtNat_digits 4 y (by omega)
  unfold stamp5 at hc
  cases hY : Cal.fmtNat 4 y with
  | nil => rw [hY] at hl; simp at hl
  | cons a r =>
    rw [hY] at hc hd
    simp at hc
    rw [← hc]; exact hd a (by simp)

/-- what the proofs need to know about the nine `Display` names of the time scales -/
theorem tsDisplay_facts (ts : TS) : ∃ c post, tsDisplay ts = c :: post ∧ post ≠ [] ∧ 57 < c ∧
    isAscii (tsDisplay ts) = true ∧ tsFromStr (tsDisplay ts) = some ts ∧ tsFromStr (32 :: tsDisplay ts) = some ts ∧
    (∀ e, (tsDisplay ts).getLast? = some e → isWhitespace e = false) := by
  cases ts <;> exact ⟨_, _, rfl, by decide, by decide, by decide, by decide, by decide, by decide⟩


theorem head_ascii (y mo d h mi sec k f : Nat) (hy : y < 10000) (hmo : mo < 100) (hd : d < 100) (hh : h < 100)
    (hmi : mi < 100) (hsec : sec < 100) (hf : f < 10 ^ k) (tail : List Nat) (ht : isAscii tail = true) :
    isAscii (stamp5 y mo d h mi ++ (Cal.fmtNat 2 sec ++ fracN k f ++ tail)) = true := by
  simp only [isAscii_append, stamp5_ascii y mo d h mi hy hmo hd hh hmi, fmtNat_ascii 2 sec (by omega),
    fracN_ascii k f hf, ht, true_and]

theorem head_length (y mo d h mi sec k f : Nat) (hy : y < 10000) (hmo : mo < 100) (hd : d < 100) (hh : h < 100)
    (hmi : mi < 100) (hsec : sec < 100) (X : List Nat) :
    (stamp5 y mo d h mi ++ (Cal.fmtNat 2 sec ++ fracN k f ++ X)).length = 19 + (fracN k f).length + X.length := by
  simp only [List.length_append, stamp5_length y mo d h mi hy hmo hd hh hmi, fmtNat_length 2 sec (by omega)]
  omega

theorem getLast_append_cons (X : List Nat) (c : Nat) (post : List Nat) :
    (X ++ c :: post).getLast? = (c :: post).getLast? := by
  rw [List.getLast?_append]; rfl

/-- FORM D  `YYYY-MM-DDTHH:MM:SS[.f…]␣SCALE` -/
theorem parse_D (y mo d h mi sec k f : Nat) (ts : TS)
    (hy : y < 10000) (hmo : mo < 100) (hd : d < 100) (hh : h < 100) (hmi : mi < 100)
    (hsec : sec < 100) (hk : k ≤ 9) (hf : f < 10 ^ k) :
    (∀ dur, epochFromStrWith dur (stamp5 y mo d h mi ++ (Cal.fmtNat 2 sec ++ fracN k f ++ 32 :: tsDisplay ts)) =
        fromGregorianStrIdx (stamp5 y mo d h mi ++ (Cal.fmtNat 2 sec ++ fracN k f ++ 32 :: tsDisplay ts))) ∧
    fromGregorianStrIdx (stamp5 y mo d h mi ++ (Cal.fmtNat 2 sec ++ fracN k f ++ 32 :: tsDisplay ts)) =
      if fieldsOk mo d h mi sec then finishFields y mo d h mi sec ((f : Int) * 10 ^ (9 - k)) 0 0 1 ts else .err := by
  obtain ⟨c, post, hts, hpost, hc, hasc, hfrom, _, hlast⟩ := tsDisplay_facts ts
  generalize hT : stamp5 y mo d h mi ++ (Cal.fmtNat 2 sec ++ fracN k f ++ 32 :: tsDisplay ts) = T
  have ha : isAscii T = true := by
    rw [← hT]
    simp only [isAscii_append, isAscii_cons, stamp5_ascii y mo d h mi hy hmo hd hh hmi, fmtNat_ascii 2 sec (by omega),
      fracN_ascii k f hf, hasc, true_and, and_true]
    omega
  have hlastT : ∀ e, T.getLast? = some e → isWhitespace e = false := by
    intro e he
    apply hlast e
    rw [← hT, hts] at he
    rw [hts]
    have e1 : stamp5 y mo d h mi ++ (Cal.fmtNat 2 sec ++ fracN k f ++ 32 :: c :: post) =
        (stamp5 y mo d h mi ++ (Cal.fmtNat 2 sec ++ fracN k f ++ [32])) ++ c :: post := by simp
    rw [e1, getLast_append_cons] at he
    exact he
  refine ⟨fun dur => epochFromStr_gregorian dur T ha
    (by rw [← hT, head_length y mo d h mi sec k f hy hmo hd hh hmi hsec]; omega)
    (by rw [← hT]; exact stamp5_head y mo d h mi hy _) hlastT, ?_⟩
  rw [parse_shell T ha (by rw [← hT]; exact stamp5_head y mo d h mi hy _) hlastT]
  rw [head_loop T (tsDisplay ts) y mo d h mi sec k f 32 hT.symm ha hy hmo hd hh hmi hsec hk hf (by omega)]
  by_cases hfo : fieldsOk mo d h mi sec
  case neg => rw [if_neg hfo, if_neg hfo]
  rw [if_pos hfo, if_pos hfo, hts]
  have l5 := stamp5_length y mo d h mi hy hmo hd hh hmi
  have l2 := fmtNat_length 2 sec (by omega)
  rw [ts_tail T (stamp5 y mo d h mi ++ (Cal.fmtNat 2 sec ++ fracN k f ++ [32])) c post _ ts _
    (by rw [← hT, hts]; simp) ha (by simp [l5, l2]; omega) hpost (by omega) (by simp [st7]) (by rw [← hts]; exact hfrom)]
  simp only
  rw [finishGreg_eq]
  simp [st7]


/-! ### the RFC 3339 forms -/

/-- FORM Z  `…SS[.f…]Z` -/
theorem parse_Z (y mo d h mi sec k f : Nat)
    (hy : y < 10000) (hmo : mo < 100) (hd : d < 100) (hh : h < 100) (hmi : mi < 100)
    (hsec : sec < 100) (hk : k ≤ 9) (hf : f < 10 ^ k) :
    (∀ dur, epochFromStrWith dur (stamp5 y mo d h mi ++ (Cal.fmtNat 2 sec ++ fracN k f ++ [90])) =
        fromGregorianStrIdx (stamp5 y mo d h mi ++ (Cal.fmtNat 2 sec ++ fracN k f ++ [90]))) ∧
    fromGregorianStrIdx (stamp5 y mo d h mi ++ (Cal.fmtNat 2 sec ++ fracN k f ++ [90])) =
      if fieldsOk mo d h mi sec then finishFields y mo d h mi sec ((f : Int) * 10 ^ (9 - k)) 0 0 1 .UTC else .err := by
  generalize hT : stamp5 y mo d h mi ++ (Cal.fmtNat 2 sec ++ fracN k f ++ [90]) = T
  have ha : isAscii T = true := by
    rw [← hT]; exact head_ascii y mo d h mi sec k f hy hmo hd hh hmi hsec hf [90] (by decide)
  have hlastT : ∀ e, T.getLast? = some e → isWhitespace e = false := by
    intro e he
    rw [← hT] at he
    have e1 : stamp5 y mo d h mi ++ (Cal.fmtNat 2 sec ++ fracN k f ++ [90]) =
        (stamp5 y mo d h mi ++ (Cal.fmtNat 2 sec ++ fracN k f)) ++ 90 :: [] := by simp
    rw [e1, getLast_append_cons] at he
    simp at he; subst he; decide
  refine ⟨fun dur => epochFromStr_gregorian dur T ha
    (by rw [← hT, head_length y mo d h mi sec k f hy hmo hd hh hmi hsec]; omega)
    (by rw [← hT]; exact stamp5_head y mo d h mi hy _) hlastT, ?_⟩
  rw [parse_shell T ha (by rw [← hT]; exact stamp5_head y mo d h mi hy _) hlastT]
  rw [head_loop T [] y mo d h mi sec k f 90 hT.symm ha hy hmo hd hh hmi hsec hk hf (by omega)]
  by_cases hfo : fieldsOk mo d h mi sec
  case neg => rw [if_neg hfo, if_neg hfo]
  rw [if_pos hfo, if_pos hfo, gregLoop_nil]
  simp only
  rw [finishGreg_eq]
  simp [st7]

/-- FORM ZT  `…SS[.f…]Z␣SCALE` -/
theorem parse_ZT (y mo d h mi sec k f : Nat) (ts : TS)
    (hy : y < 10000) (hmo : mo < 100) (hd : d < 100) (hh : h < 100) (hmi : mi < 100)
    (hsec : sec < 100) (hk : k ≤ 9) (hf : f < 10 ^ k) :
    (∀ dur, epochFromStrWith dur (stamp5 y mo d h mi ++ (Cal.fmtNat 2 sec ++ fracN k f ++ 90 :: 32 :: tsDisplay ts)) =
        fromGregorianStrIdx (stamp5 y mo d h mi ++ (Cal.fmtNat 2 sec ++ fracN k f ++ 90 :: 32 :: tsDisplay ts))) ∧
    fromGregorianStrIdx (stamp5 y mo d h mi ++ (Cal.fmtNat 2 sec ++ fracN k f ++ 90 :: 32 :: tsDisplay ts)) =
      if fieldsOk mo d h mi sec then finishFields y mo d h mi sec ((f : Int) * 10 ^ (9 - k)) 0 0 1 ts else .err := by
  obtain ⟨c, post, hts, hpost, hc, hasc, _, hfrom, hlast⟩ := tsDisplay_facts ts
  generalize hT : stamp5 y mo d h mi ++ (Cal.fmtNat 2 sec ++ fracN k f ++ 90 :: 32 :: tsDisplay ts) = T
  have ha : isAscii T = true := by
    rw [← hT]; exact head_ascii y mo d h mi sec k f hy hmo hd hh hmi hsec hf _ (by simp [isAscii_cons, hasc])
  have hlastT : ∀ e, T.getLast? = some e → isWhitespace e = false := by
    intro e he
    apply hlast e
    rw [← hT, hts] at he
    rw [hts]
    have e1 : stamp5 y mo d h mi ++ (Cal.fmtNat 2 sec ++ fracN k f ++ 90 :: 32 :: c :: post) =
        (stamp5 y mo d h mi ++ (Cal.fmtNat 2 sec ++ fracN k f ++ [90, 32])) ++ c :: post := by simp
    rw [e1, getLast_append_cons] at he
    exact he
  refine ⟨fun dur => epochFromStr_gregorian dur T ha
    (by rw [← hT, head_length y mo d h mi sec k f hy hmo hd hh hmi hsec]; omega)
    (by rw [← hT]; exact stamp5_head y mo d h mi hy _) hlastT, ?_⟩
  rw [parse_shell T ha (by rw [← hT]; exact stamp5_head y mo d h mi hy _) hlastT]
  rw [head_loop T (32 :: tsDisplay ts) y mo d h mi sec k f 90 hT.symm ha hy hmo hd hh hmi hsec hk hf (by omega)]
  by_cases hfo : fieldsOk mo d h mi sec
  case neg => rw [if_neg hfo, if_neg hfo]
  rw [if_pos hfo, if_pos hfo]
  have hne : tsDisplay ts ≠ [] := by rw [hts]; simp
  rw [ts_tail T (stamp5 y mo d h mi ++ (Cal.fmtNat 2 sec ++ fracN k f ++ [90])) 32 (tsDisplay ts) _ ts _
    (by rw [← hT]; simp) ha (by rw [head_length y mo d h mi sec k f hy hmo hd hh hmi hsec]; simp) hne (by omega)
    (by simp [st7]) hfrom]
  simp only
  rw [finishGreg_eq]
  simp [st7]

/-- FORM O  `…SS[.f…]±hh:mm` (`c2` is the sign character) -/
theorem parse_O (y mo d h mi sec k f c2 oh om : Nat)
    (hy : y < 10000) (hmo : mo < 100) (hd : d < 100) (hh : h < 100) (hmi : mi < 100)
    (hsec : sec < 100) (hk : k ≤ 9) (hf : f < 10 ^ k) (hc2 : c2 = 43 ∨ c2 = 45) (hoh : oh < 100) (hom : om < 100) :
    (∀ dur, epochFromStrWith dur (stamp5 y mo d h mi ++ (Cal.fmtNat 2 sec ++ fracN k f ++ c2 :: (Cal.fmtNat 2 oh ++ 58 :: Cal.fmtNat 2 om))) =
        fromGregorianStrIdx (stamp5 y mo d h mi ++ (Cal.fmtNat 2 sec ++ fracN k f ++ c2 :: (Cal.fmtNat 2 oh ++ 58 :: Cal.fmtNat 2 om)))) ∧
    fromGregorianStrIdx (stamp5 y mo d h mi ++ (Cal.fmtNat 2 sec ++ fracN k f ++ c2 :: (Cal.fmtNat 2 oh ++ 58 :: Cal.fmtNat 2 om))) =
      if fieldsOk mo d h mi sec ∧ valueOk .offH (oh : Int) = true ∧ valueOk .offM (om : Int) = true then
        finishFields y mo d h mi sec ((f : Int) * 10 ^ (9 - k)) oh om (if c2 = 45 then -1 else 1) .UTC
      else .err := by
  generalize hT : stamp5 y mo d h mi ++ (Cal.fmtNat 2 sec ++ fracN k f ++ c2 :: (Cal.fmtNat 2 oh ++ 58 :: Cal.fmtNat 2 om)) = T
  have hasct : isAscii (c2 :: (Cal.fmtNat 2 oh ++ 58 :: Cal.fmtNat 2 om)) = true := by
    simp only [isAscii_cons, isAscii_append, fmtNat_ascii 2 oh (by omega), fmtNat_ascii 2 om (by omega), and_true, true_and]
    omega
  have ha : isAscii T = true := by
    rw [← hT]; exact head_ascii y mo d h mi sec k f hy hmo hd hh hmi hsec hf _ hasct
  have hlastT : ∀ e, T.getLast? = some e → isWhitespace e = false := by
    intro e he
    rw [← hT, fmtNat_two om] at he
    have e1 : stamp5 y mo d h mi ++ (Cal.fmtNat 2 sec ++ fracN k f ++ c2 :: (Cal.fmtNat 2 oh ++ 58 ::
        (Cal.fmtNat 1 (om / 10) ++ [48 + om % 10]))) =
        (stamp5 y mo d h mi ++ (Cal.fmtNat 2 sec ++ fracN k f ++ c2 :: (Cal.fmtNat 2 oh ++ 58 ::
        Cal.fmtNat 1 (om / 10)))) ++ (48 + om % 10) :: [] := by simp
    rw [e1, getLast_append_cons] at he
    simp at he; subst he
    exact digit_not_ws (by omega)
  refine ⟨fun dur => epochFromStr_gregorian dur T ha
    (by rw [← hT, head_length y mo d h mi sec k f hy hmo hd hh hmi hsec]; omega)
    (by rw [← hT]; exact stamp5_head y mo d h mi hy _) hlastT, ?_⟩
  rw [parse_shell T ha (by rw [← hT]; exact stamp5_head y mo d h mi hy _) hlastT]
  rw [head_loop T (Cal.fmtNat 2 oh ++ 58 :: Cal.fmtNat 2 om) y mo d h mi sec k f c2 hT.symm ha hy hmo hd hh hmi hsec hk hf (by omega)]
  by_cases hfo : fieldsOk mo d h mi sec
  case neg => rw [if_neg hfo, if_neg (fun x => hfo x.1)]
  rw [if_pos hfo]
  have htok : (st7 y mo d h mi sec ((f : Int) * 10 ^ (9 - k)) c2 (19 + (fracN k f).length + 1)).tok = .offH := by
    simp only [st7]; rw [if_pos hc2]
  rw [off_tail_end T (stamp5 y mo d h mi ++ (Cal.fmtNat 2 sec ++ fracN k f ++ [c2])) _ oh om (19 + (fracN k f).length + 1)
    (by rw [← hT]; simp) ha (by rw [head_length y mo d h mi sec k f hy hmo hd hh hmi hsec]; simp) hoh hom htok rfl]
  by_cases hoo : valueOk .offH (oh : Int) = true ∧ valueOk .offM (om : Int) = true
  case neg => rw [if_neg hoo, if_neg (fun x => hoo x.2)]
  rw [if_pos hoo, if_pos ⟨hfo, hoo⟩]
  simp only
  rw [finishGreg_eq]
  simp [st7]

/-- FORM OT  `…SS[.f…]±hh:mm␣SCALE` -/
theorem parse_OT (y mo d h mi sec k f c2 oh om : Nat) (ts : TS)
    (hy : y < 10000) (hmo : mo < 100) (hd : d < 100) (hh : h < 100) (hmi : mi < 100)
    (hsec : sec < 100) (hk : k ≤ 9) (hf : f < 10 ^ k) (hc2 : c2 = 43 ∨ c2 = 45) (hoh : oh < 100) (hom : om < 100) :
    (∀ dur, epochFromStrWith dur (stamp5 y mo d h mi ++ (Cal.fmtNat 2 sec ++ fracN k f ++ c2 ::
        (Cal.fmtNat 2 oh ++ 58 :: (Cal.fmtNat 2 om ++ 32 :: tsDisplay ts)))) =
        fromGregorianStrIdx (stamp5 y mo d h mi ++ (Cal.fmtNat 2 sec ++ fracN k f ++ c2 ::
        (Cal.fmtNat 2 oh ++ 58 :: (Cal.fmtNat 2 om ++ 32 :: tsDisplay ts))))) ∧
    fromGregorianStrIdx (stamp5 y mo d h mi ++ (Cal.fmtNat 2 sec ++ fracN k f ++ c2 ::
        (Cal.fmtNat 2 oh ++ 58 :: (Cal.fmtNat 2 om ++ 32 :: tsDisplay ts)))) =
      if fieldsOk mo d h mi sec ∧ valueOk .offH (oh : Int) = true ∧ valueOk .offM (om : Int) = true then
        finishFields y mo d h mi sec ((f : Int) * 10 ^ (9 - k)) oh om (if c2 = 45 then -1 else 1) ts
      else .err := by
  obtain ⟨c, post, hts, hpost, hc, hasc, hfrom, _, hlast⟩ := tsDisplay_facts ts
  generalize hT : stamp5 y mo d h mi ++ (Cal.fmtNat 2 sec ++ fracN k f ++ c2 ::
        (Cal.fmtNat 2 oh ++ 58 :: (Cal.fmtNat 2 om ++ 32 :: tsDisplay ts))) = T
  have hasct : isAscii (c2 :: (Cal.fmtNat 2 oh ++ 58 :: (Cal.fmtNat 2 om ++ 32 :: tsDisplay ts))) = true := by
    simp only [isAscii_cons, isAscii_append, fmtNat_ascii 2 oh (by omega), fmtNat_ascii 2 om (by omega), hasc, and_true, true_and]
    omega
  have ha : isAscii T = true := by
    rw [← hT]; exact head_ascii y mo d h mi sec k f hy hmo hd hh hmi hsec hf _ hasct
  have hlastT : ∀ e, T.getLast? = some e → isWhitespace e = false := by
    intro e he
    apply hlast e
    rw [← hT, hts] at he
    rw [hts]
    have e1 : stamp5 y mo d h mi ++ (Cal.fmtNat 2 sec ++ fracN k f ++ c2 ::
        (Cal.fmtNat 2 oh ++ 58 :: (Cal.fmtNat 2 om ++ 32 :: c :: post))) =
        (stamp5 y mo d h mi ++ (Cal.fmtNat 2 sec ++ fracN k f ++ c2 ::
        (Cal.fmtNat 2 oh ++ 58 :: (Cal.fmtNat 2 om ++ [32])))) ++ c :: post := by simp
    rw [e1, getLast_append_cons] at he
    exact he
  refine ⟨fun dur => epochFromStr_gregorian dur T ha
    (by rw [← hT, head_length y mo d h mi sec k f hy hmo hd hh hmi hsec]; omega)
    (by rw [← hT]; exact stamp5_head y mo d h mi hy _) hlastT, ?_⟩
  rw [parse_shell T ha (by rw [← hT]; exact stamp5_head y mo d h mi hy _) hlastT]
  rw [head_loop T (Cal.fmtNat 2 oh ++ 58 :: (Cal.fmtNat 2 om ++ 32 :: tsDisplay ts)) y mo d h mi sec k f c2 hT.symm ha
    hy hmo hd hh hmi hsec hk hf (by omega)]
  by_cases hfo : fieldsOk mo d h mi sec
  case neg => rw [if_neg hfo, if_neg (fun x => hfo x.1)]
  rw [if_pos hfo]
  have htok : (st7 y mo d h mi sec ((f : Int) * 10 ^ (9 - k)) c2 (19 + (fracN k f).length + 1)).tok = .offH := by
    simp only [st7]; rw [if_pos hc2]
  rw [hts]
  rw [off_tail_ts T (stamp5 y mo d h mi ++ (Cal.fmtNat 2 sec ++ fracN k f ++ [c2])) _ oh om (19 + (fracN k f).length + 1) c post ts
    (by rw [← hT, hts]; simp) ha (by rw [head_length y mo d h mi sec k f hy hmo hd hh hmi hsec]; simp) hoh hom htok rfl
    hpost (by omega) (by rw [← hts]; exact hfrom)]
  by_cases hoo : valueOk .offH (oh : Int) = true ∧ valueOk .offM (om : Int) = true
  case neg => rw [if_neg hoo, if_neg (fun x => hoo x.2)]
  rw [if_pos hoo, if_pos ⟨hfo, hoo⟩]
  simp only
  rw [finishGreg_eq]
  simp [st7]


/-! ### after the loop: the value of the parsed fields -/

theorem canon_InR (e : Dur) (h : e.Canon) : Cal.InR e.val := by
  have := canon_range e h
  unfold DMIN DMAX at this; simp only [NPCs_eq] at this
  unfold Cal.InR; omega

/-- fields in range, an offset `sign·(oh:om)`: the epoch built is the one of the fields shifted by the offset -/
theorem finishFields_ok (y mo d h mi sec ns oh om sign : Int) (ts : TS) (e : Dur)
    (hmo : 0 ≤ mo ∧ mo ≤ 255) (hd : 0 ≤ d ∧ d ≤ 255) (hh : 0 ≤ h ∧ h ≤ 255) (hmi : 0 ≤ mi ∧ mi ≤ 255)
    (hsec : 0 ≤ sec ∧ sec ≤ 59) (hns : 0 ≤ ns ∧ ns ≤ 4294967295) (hoh : 0 ≤ oh ∧ oh ≤ 23) (hom : 0 ≤ om ∧ om ≤ 59)
    (he : Cal.maybeFromGregorian y mo d h mi sec ns ts = .ok e) (hc : e.Canon) :
    ∃ r, finishFields y mo d h mi sec ns oh om sign ts = .ok ⟨r, ts⟩ ∧ r.Canon ∧
      r.val = clampD (e.val + (if sign > 0 then -1 else 1) * (oh * 3600000000000 + om * 60000000000)) := by
  obtain ⟨tz, htz, hcz, hvz⟩ := tz_spec ⟨y, mo, d, h, mi, sec, ns, oh, om, sign, ts, 0, .year⟩ hoh hom
  unfold finishFields finishGreg
  rw [htz]
  simp only
  have hf : fitsU8 mo = true ∧ fitsU8 d = true ∧ fitsU8 h = true ∧ fitsU8 mi = true ∧ fitsU8 sec = true
      ∧ fitsU32 ns = true := by
    unfold fitsU8 fitsU32; simp only [decide_eq_true_eq]; omega
  have h60 : ¬ sec = 60 := by omega
  rw [if_pos hf, if_neg h60, he]
  simp only
  rw [if_neg h60]
  have := add_spec e tz hc hcz
  refine ⟨_, rfl, this.1, ?_⟩
  rw [this.2, hvz]

theorem clampD_id_of_canon (e : Dur) (h : e.Canon) : clampD e.val = e.val := by
  have := canon_InR e h
  exact clampD_mid this.1 this.2

theorem fmtInt_nonneg (w : Nat) (x : Int) (h : 0 ≤ x) : Cal.fmtInt w x = Cal.fmtNat w x.toNat := by
  unfold Cal.fmtInt; rw [if_neg (by omega)]

/-- the model's Display text is an instance of FORM D -/
theorem renderGreg_eq (y mo d h mi s ns : Int) (ts : TS) (hy : 0 ≤ y) (hmo : 0 ≤ mo) (hd : 0 ≤ d) (hh : 0 ≤ h)
    (hmi : 0 ≤ mi) (hs : 0 ≤ s) (hns : 0 ≤ ns) :
    renderGreg y mo d h mi s ns ts =
      stamp5 y.toNat mo.toNat d.toNat h.toNat mi.toNat ++
        (Cal.fmtNat 2 s.toNat ++ fracN (if ns = 0 then 0 else 9) ns.toNat ++ 32 :: tsDisplay ts) := by
  unfold renderGreg stamp5 fracN
  rw [fmtInt_nonneg 4 y hy, fmtInt_nonneg 2 mo hmo, fmtInt_nonneg 2 d hd, fmtInt_nonneg 2 h hh, fmtInt_nonneg 2 mi hmi,
    fmtInt_nonneg 2 s hs, fmtInt_nonneg 9 ns hns]
  by_cases h0 : ns = 0
  · simp [h0]
  · simp [h0]



/-- the facts about the fields of an epoch that the text theorems use (from the C09 lemmas) -/
theorem compute_facts (d : Dur) (ts : TS) (hd : d.Canon) (hr : Cal.InCal d.val) :
    ∃ y mo dd h mi s ns, Cal.computeGregorian d ts = .ok (y, mo, dd, h, mi, s, ns) ∧
      Cal.maybeFromGregorian y mo dd h mi s ns ts = .ok d ∧
      1 ≤ mo ∧ mo ≤ 12 ∧ 1 ≤ dd ∧ dd ≤ 31 ∧ 0 ≤ h ∧ h < 24 ∧ 0 ≤ mi ∧ mi < 60 ∧ 0 ≤ s ∧ s < 60 ∧
      0 ≤ ns ∧ ns < 1000000000 := by
  obtain ⟨y, mo, dd, h, mi, s, ns, e, hv, _, _, a1, a2, a3, a4, a5, a6, a7, a8, _⟩ := Cal.computeGregorian_spec d ts hd hr
  obtain ⟨y', mo', dd', h', mi', s', ns', e', hm⟩ := Cal.from_compute d ts hd hr
  rw [e] at e'
  simp only [Res.ok.injEq, Prod.mk.injEq] at e'
  obtain ⟨r1, r2, r3, r4, r5, r6, r7⟩ := e'
  subst r1 r2 r3 r4 r5 r6 r7
  have hv' := (Cal.validDate_iff _).mp hv
  simp only at hv'
  have hml := Cal.monthLen_range y mo hv'.1 hv'.2.1
  exact ⟨y, mo, dd, h, mi, s, ns, e, hm, hv'.1, hv'.2.1, hv'.2.2.1, by omega, a1, a2, a3, a4, a5, a6, a7, a8⟩

theorem fieldsOk_of_ranges (mo d h mi sec : Nat) (hmo : mo ≤ 13) (hd : d ≤ 31) (hh : h ≤ 23) (hmi : mi ≤ 59)
    (hsec : sec ≤ 60) : fieldsOk mo d h mi sec := by
  unfold fieldsOk valueOk
  simp only [decide_eq_true_eq]
  omega

/-- fields that rebuild `d` (second < 60, year 0000-9999), written in FORM D with nine fractional digits —
    or none when the nanoseconds are zero — parse back to `d` -/
theorem fields_round_trip_D (d : Dur) (ts : TS) (hd : d.Canon) (y0 mo dd h mi s ns : Int)
    (hm : Cal.maybeFromGregorian y0 mo dd h mi s ns ts = .ok d) (hy' : 0 ≤ y0 ∧ y0 ≤ 9999)
    (b1 : 1 ≤ mo) (b2 : mo ≤ 12) (b3 : 1 ≤ dd) (b4 : dd ≤ 31) (b5 : 0 ≤ h) (b6 : h < 24) (b7 : 0 ≤ mi) (b8 : mi < 60)
    (b9 : 0 ≤ s) (b10 : s < 60) (b11 : 0 ≤ ns) (b12 : ns < 1000000000) (k : Nat) (hkn : k = 9 ∨ (k = 0 ∧ ns = 0)) :
    fromGregorianStrIdx (stamp5 y0.toNat mo.toNat dd.toNat h.toNat mi.toNat ++
        (Cal.fmtNat 2 s.toNat ++ fracN k ns.toNat ++ 32 :: tsDisplay ts)) = .ok ⟨d, ts⟩ ∧
    ∀ dur, epochFromStrWith dur (stamp5 y0.toNat mo.toNat dd.toNat h.toNat mi.toNat ++
        (Cal.fmtNat 2 s.toNat ++ fracN k ns.toNat ++ 32 :: tsDisplay ts)) = .ok ⟨d, ts⟩ := by
  have hk : k ≤ 9 := by omega
  have hf : ns.toNat < 10 ^ k := by
    rcases hkn with h9 | ⟨h0, hn0⟩
    · subst h9; omega
    · subst h0; subst hn0; simp
  obtain ⟨hfs, hP⟩ := parse_D y0.toNat mo.toNat dd.toNat h.toNat mi.toNat s.toNat k ns.toNat ts
    (by omega) (by omega) (by omega) (by omega) (by omega) (by omega) hk hf
  have hfo := fieldsOk_of_ranges mo.toNat dd.toNat h.toNat mi.toNat s.toNat (by omega) (by omega) (by omega) (by omega) (by omega)
  rw [if_pos hfo] at hP
  have c1 : ((y0.toNat : Nat) : Int) = y0 := Int.toNat_of_nonneg (by omega)
  have c2 : ((mo.toNat : Nat) : Int) = mo := Int.toNat_of_nonneg (by omega)
  have c3 : ((dd.toNat : Nat) : Int) = dd := Int.toNat_of_nonneg (by omega)
  have c4 : ((h.toNat : Nat) : Int) = h := Int.toNat_of_nonneg (by omega)
  have c5 : ((mi.toNat : Nat) : Int) = mi := Int.toNat_of_nonneg (by omega)
  have c6 : ((s.toNat : Nat) : Int) = s := Int.toNat_of_nonneg (by omega)
  have c7 : ((ns.toNat : Nat) : Int) * 10 ^ (9 - k) = ns := by
    rcases hkn with h9 | ⟨h0, hn0⟩
    · subst h9; rw [Int.toNat_of_nonneg b11]; simp
    · subst h0; subst hn0; simp
  rw [c1, c2, c3, c4, c5, c6, c7] at hP
  obtain ⟨r, hr1, hr2, hr3⟩ := finishFields_ok y0 mo dd h mi s ns 0 0 1 ts d (by omega) (by omega) (by omega) (by omega)
    (by omega) (by omega) (by omega) (by omega) hm hd
  have hrd : r = d := by
    apply canon_unique r d hr2 hd
    rw [hr3]
    simp only [Int.mul_zero, Int.zero_mul, Int.add_zero]
    exact clampD_id_of_canon d hd
  rw [hrd] at hr1
  rw [hr1] at hP
  exact ⟨hP, fun dur => by rw [hfs dur]; exact hP⟩

/-- the same fields in FORM O with the offset `+00:00` (the shape of `to_rfc3339`) -/
theorem fields_round_trip_O0 (d : Dur) (hd : d.Canon) (y0 mo dd h mi s ns : Int)
    (hm : Cal.maybeFromGregorian y0 mo dd h mi s ns .UTC = .ok d) (hy' : 0 ≤ y0 ∧ y0 ≤ 9999)
    (b1 : 1 ≤ mo) (b2 : mo ≤ 12) (b3 : 1 ≤ dd) (b4 : dd ≤ 31) (b5 : 0 ≤ h) (b6 : h < 24) (b7 : 0 ≤ mi) (b8 : mi < 60)
    (b9 : 0 ≤ s) (b10 : s < 60) (b11 : 0 ≤ ns) (b12 : ns < 1000000000) (k : Nat) (hkn : k = 9 ∨ (k = 0 ∧ ns = 0)) :
    fromGregorianStrIdx (stamp5 y0.toNat mo.toNat dd.toNat h.toNat mi.toNat ++
        (Cal.fmtNat 2 s.toNat ++ fracN k ns.toNat ++ 43 :: (Cal.fmtNat 2 0 ++ 58 :: Cal.fmtNat 2 0))) = .ok ⟨d, .UTC⟩ ∧
    ∀ dur, epochFromStrWith dur (stamp5 y0.toNat mo.toNat dd.toNat h.toNat mi.toNat ++
        (Cal.fmtNat 2 s.toNat ++ fracN k ns.toNat ++ 43 :: (Cal.fmtNat 2 0 ++ 58 :: Cal.fmtNat 2 0))) = .ok ⟨d, .UTC⟩ := by
  have hk : k ≤ 9 := by omega
  have hf : ns.toNat < 10 ^ k := by
    rcases hkn with h9 | ⟨h0, hn0⟩
    · subst h9; omega
    · subst h0; subst hn0; simp
  obtain ⟨hfs, hP⟩ := parse_O y0.toNat mo.toNat dd.toNat h.toNat mi.toNat s.toNat k ns.toNat 43 0 0
    (by omega) (by omega) (by omega) (by omega) (by omega) (by omega) hk hf (by omega) (by omega) (by omega)
  have hfo := fieldsOk_of_ranges mo.toNat dd.toNat h.toNat mi.toNat s.toNat (by omega) (by omega) (by omega) (by omega) (by omega)
  rw [if_pos ⟨hfo, by decide, by decide⟩] at hP
  have c1 : ((y0.toNat : Nat) : Int) = y0 := Int.toNat_of_nonneg (by omega)
  have c2 : ((mo.toNat : Nat) : Int) = mo := Int.toNat_of_nonneg (by omega)
  have c3 : ((dd.toNat : Nat) : Int) = dd := Int.toNat_of_nonneg (by omega)
  have c4 : ((h.toNat : Nat) : Int) = h := Int.toNat_of_nonneg (by omega)
  have c5 : ((mi.toNat : Nat) : Int) = mi := Int.toNat_of_nonneg (by omega)
  have c6 : ((s.toNat : Nat) : Int) = s := Int.toNat_of_nonneg (by omega)
  have c7 : ((ns.toNat : Nat) : Int) * 10 ^ (9 - k) = ns := by
    rcases hkn with h9 | ⟨h0, hn0⟩
    · subst h9; rw [Int.toNat_of_nonneg b11]; simp
    · subst h0; subst hn0; simp
  rw [c1, c2, c3, c4, c5, c6, c7] at hP
  obtain ⟨r, hr1, hr2, hr3⟩ := finishFields_ok y0 mo dd h mi s ns ((0 : Nat) : Int) ((0 : Nat) : Int)
    (if (43 : Nat) = 45 then -1 else 1) .UTC d (by omega) (by omega) (by omega) (by omega)
    (by omega) (by omega) (by omega) (by omega) hm hd
  have hrd : r = d := by
    apply canon_unique r d hr2 hd
    rw [hr3]
    simp only [Int.natCast_zero, Int.mul_zero, Int.zero_mul, Int.add_zero]
    exact clampD_id_of_canon d hd
  rw [hrd] at hr1
  rw [hr1] at hP
  exact ⟨hP, fun dur => by rw [hfs dur]; exact hP⟩

/-- CENTRAL THEOREM (model level): the Display text of an epoch whose year is 0000-9999 parses back,
    with `from_gregorian_str` and with `from_str`, to the identical epoch — all nine scales -/
theorem display_parse (d : Dur) (ts : TS) (hd : d.Canon) (hr : Cal.InCal d.val) (y : Int)
    (hy : Cal.year d ts = .ok y) (hy' : 0 ≤ y ∧ y ≤ 9999) :
    ∃ txt, displayEpoch d ts = .ok txt ∧ fromGregorianStrIdx txt = .ok ⟨d, ts⟩ ∧
      ∀ dur, epochFromStrWith dur txt = .ok ⟨d, ts⟩ := by
  obtain ⟨y0, mo, dd, h, mi, s, ns, e, hm, b1, b2, b3, b4, b5, b6, b7, b8, b9, b10, b11, b12⟩ := compute_facts d ts hd hr
  have hyy : y0 = y := by
    unfold Cal.year at hy; rw [e] at hy; simpa using hy
  subst hyy
  refine ⟨renderGreg y0 mo dd h mi s ns ts, by unfold displayEpoch; rw [e], ?_⟩
  rw [renderGreg_eq y0 mo dd h mi s ns ts (by omega) (by omega) (by omega) b5 b7 b9 b11]
  exact fields_round_trip_D d ts hd y0 mo dd h mi s ns hm hy' b1 b2 b3 b4 b5 b6 b7 b8 b9 b10 b11 b12 _
    (by split <;> omega)

/-- the ISO8601 formatter constant: always nine fractional digits -/
theorem iso_parse (d : Dur) (ts : TS) (hd : d.Canon) (hr : Cal.InCal d.val) (y : Int)
    (hy : Cal.year d ts = .ok y) (hy' : 0 ≤ y ∧ y ≤ 9999) :
    ∃ txt, isoFormatterOutput d ts = .ok txt ∧ fromGregorianStrIdx txt = .ok ⟨d, ts⟩ ∧
      ∀ dur, epochFromStrWith dur txt = .ok ⟨d, ts⟩ := by
  obtain ⟨y0, mo, dd, h, mi, s, ns, e, hm, b1, b2, b3, b4, b5, b6, b7, b8, b9, b10, b11, b12⟩ := compute_facts d ts hd hr
  have hyy : y0 = y := by
    unfold Cal.year at hy; rw [e] at hy; simpa using hy
  subst hyy
  refine ⟨renderIso y0 mo dd h mi s ns ts, by unfold isoFormatterOutput; rw [e], ?_⟩
  have hre : renderIso y0 mo dd h mi s ns ts = stamp5 y0.toNat mo.toNat dd.toNat h.toNat mi.toNat ++
      (Cal.fmtNat 2 s.toNat ++ fracN 9 ns.toNat ++ 32 :: tsDisplay ts) := by
    unfold renderIso stamp5 fracN
    rw [fmtInt_nonneg 4 y0 (by omega), fmtInt_nonneg 2 mo (by omega), fmtInt_nonneg 2 dd (by omega), fmtInt_nonneg 2 h b5,
      fmtInt_nonneg 2 mi b7, fmtInt_nonneg 2 s b9, fmtInt_nonneg 9 ns b11]
    simp
  rw [hre]
  exact fields_round_trip_D d ts hd y0 mo dd h mi s ns hm hy' b1 b2 b3 b4 b5 b6 b7 b8 b9 b10 b11 b12 9 (Or.inl rfl)

/-- `to_rfc3339` of a UTC epoch -/
theorem rfc3339_parse (d : Dur) (hd : d.Canon) (hr : Cal.InCal d.val) (y : Int)
    (hy : Cal.year d .UTC = .ok y) (hy' : 0 ≤ y ∧ y ≤ 9999) :
    ∃ txt, toRfc3339 d = .ok txt ∧ fromGregorianStrIdx txt = .ok ⟨d, .UTC⟩ ∧
      ∀ dur, epochFromStrWith dur txt = .ok ⟨d, .UTC⟩ := by
  obtain ⟨y0, mo, dd, h, mi, s, ns, e, hm, b1, b2, b3, b4, b5, b6, b7, b8, b9, b10, b11, b12⟩ := compute_facts d .UTC hd hr
  have hyy : y0 = y := by
    unfold Cal.year at hy; rw [e] at hy; simpa using hy
  subst hyy
  refine ⟨renderRfc3339 y0 mo dd h mi s ns, by unfold toRfc3339; rw [e], ?_⟩
  have hre : renderRfc3339 y0 mo dd h mi s ns = stamp5 y0.toNat mo.toNat dd.toNat h.toNat mi.toNat ++
      (Cal.fmtNat 2 s.toNat ++ fracN (if ns = 0 then 0 else 9) ns.toNat ++ 43 :: (Cal.fmtNat 2 0 ++ 58 :: Cal.fmtNat 2 0)) := by
    unfold renderRfc3339 stamp5 fracN
    rw [fmtInt_nonneg 4 y0 (by omega), fmtInt_nonneg 2 mo (by omega), fmtInt_nonneg 2 dd (by omega), fmtInt_nonneg 2 h b5,
      fmtInt_nonneg 2 mi b7, fmtInt_nonneg 2 s b9, fmtInt_nonneg 9 ns b11]
    have e0 : Cal.fmtNat 2 0 = [48, 48] := by decide
    rw [e0]
    by_cases h0 : ns = 0
    · simp [h0]
    · simp [h0]
  rw [hre]
  exact fields_round_trip_O0 d hd y0 mo dd h mi s ns hm hy' b1 b2 b3 b4 b5 b6 b7 b8 b9 b10 b11 b12 _ (by split <;> omega)

/-! ## Part E: the specification's generators are instances of the forms; the value parsed -/

theorem digitsK_eq : ∀ (k : Nat) (v : Int), 0 ≤ v → v < 10 ^ k → digitsK k v = Cal.fmtNat k v.toNat
  | 0, v, h0, h1 => by
    have : v = 0 := by simp at h1; omega
    subst this; rfl
  | k + 1, v, h0, h1 => by
    unfold digitsK Cal.fmtNat
    have hv : v / 10 < 10 ^ k := by
      rw [Int.pow_succ] at h1
      have : (0 : Int) < 10 ^ k := Int.pow_pos (by omega)
      omega
    rw [digitsK_eq k (v / 10) (by omega) hv]
    have e1 : (v / 10).toNat = v.toNat / 10 := by omega
    have e2 : dig v = 48 + v.toNat % 10 := by unfold dig; omega
    rw [e1, e2]

theorem dig2_eq (v : Int) (h : 0 ≤ v ∧ v < 100) : dig2 v = Cal.fmtNat 2 v.toNat := by
  rw [← Cal.fmtInt2_eq v h, fmtInt_nonneg 2 v h.1]

theorem yearText_eq (y : Int) (h : 0 ≤ y ∧ y ≤ 9999) : yearText y = Cal.fmtNat 4 y.toNat := by
  unfold yearText; rw [if_pos h, ← Cal.fmtInt4_eq y h, fmtInt_nonneg 4 y h.1]

theorem scaleCodes_eq (ts : TS) : scaleCodes ts.name = tsDisplay ts := by
  cases ts <;> decide

theorem renderStamp_eq (y mo d h mi s : Int) (nd : Nat) (frac : Int) (hy : 0 ≤ y ∧ y ≤ 9999) (hmo : 0 ≤ mo ∧ mo < 100)
    (hd : 0 ≤ d ∧ d < 100) (hh : 0 ≤ h ∧ h < 100) (hmi : 0 ≤ mi ∧ mi < 100) (hs : 0 ≤ s ∧ s < 100)
    (hf : 0 ≤ frac ∧ frac < 10 ^ nd) :
    renderStamp ⟨y, mo, d⟩ h mi s nd frac =
      stamp5 y.toNat mo.toNat d.toNat h.toNat mi.toNat ++ (Cal.fmtNat 2 s.toNat ++ fracN nd frac.toNat) := by
  unfold renderStamp stamp5 fracN
  simp only
  rw [yearText_eq y hy, dig2_eq mo hmo, dig2_eq d hd, dig2_eq h hh, dig2_eq mi hmi, dig2_eq s hs]
  by_cases h0 : nd = 0
  · simp [h0]
  · rw [if_neg h0, if_neg h0, digitsK_eq nd frac hf.1 hf.2]; simp


theorem dayNumber_bound (y mo d : Int) (hy : 0 ≤ y ∧ y ≤ 9999) (hmo : 1 ≤ mo ∧ mo ≤ 12) (hd : 1 ≤ d ∧ d ≤ 31) :
    -700000 ≤ dayNumber ⟨y, mo, d⟩ ∧ dayNumber ⟨y, mo, d⟩ ≤ 3000000 := by
  unfold dayNumber
  simp only
  by_cases h1 : mo ≤ 2
  · have h2 : ¬ mo > 2 := by omega
    simp only [if_pos h1, if_neg h2]; omega
  · have h2 : mo > 2 := by omega
    simp only [if_neg h1, if_pos h2]; omega

/-- valid fields of the years 0000-9999 with an offset up to 23:59: the epoch built has exactly the
    count of the fields shifted by the offset -/
theorem finish_denotes (y mo d h mi s ns oh om sign : Int) (ts : TS)
    (hv : validDate ⟨y, mo, d⟩ = true) (hy : 0 ≤ y ∧ y ≤ 9999) (hh : 0 ≤ h ∧ h < 24) (hmi : 0 ≤ mi ∧ mi < 60)
    (hs : 0 ≤ s ∧ s < 60) (hns : 0 ≤ ns ∧ ns < 1000000000) (hoh : 0 ≤ oh ∧ oh ≤ 23) (hom : 0 ≤ om ∧ om ≤ 59) :
    ∃ r, finishFields y mo d h mi s ns oh om sign ts = .ok ⟨r, ts⟩ ∧ r.Canon ∧
      r.val = elapsedNs ts.name ⟨y, mo, d⟩ h mi s ns +
        (if sign > 0 then -1 else 1) * (oh * 3600000000000 + om * 60000000000) := by
  have hv' := (Cal.validDate_iff _).mp hv
  simp only at hv'
  have hml := Cal.monthLen_range y mo hv'.1 hv'.2.1
  have hcore := Cal.validCore_of_valid y mo d h mi s ns hv hh hmi hs hns
  obtain ⟨e, he, hc, hval⟩ := Cal.maybeFromGregorian_val y mo d h mi s ns ts (by omega) (by omega) (by omega) hh.1 hmi.1
    hs.1 hns.1 hcore
  rw [if_neg (by omega)] at hval
  obtain ⟨r, hr1, hr2, hr3⟩ := finishFields_ok y mo d h mi s ns oh om sign ts e (by omega) (by omega) (by omega) (by omega)
    (by omega) (by omega) hoh hom he hc
  refine ⟨r, hr1, hr2, ?_⟩
  have hdn := dayNumber_bound y mo d hy ⟨hv'.1, hv'.2.1⟩ ⟨hv'.2.2.1, by omega⟩
  have hor := Cal.refOffset_range ts
  have hel : elapsedNs ts.name ⟨y, mo, d⟩ h mi s ns = e.val := by
    rw [hval]; unfold elapsedNs NPDs timeOfDay; omega
  rw [hr3, hel]
  apply clampD_mid
  · rw [hval]; split <;> omega
  · rw [hval]; split <;> omega


theorem renderOffset_eq (neg : Bool) (oh om : Int) (hoh : 0 ≤ oh ∧ oh < 100) (hom : 0 ≤ om ∧ om < 100) :
    renderOffset neg oh om = (if neg = true then 45 else 43) :: (Cal.fmtNat 2 oh.toNat ++ 58 :: Cal.fmtNat 2 om.toNat) := by
  unfold renderOffset
  rw [dig2_eq oh hoh, dig2_eq om hom]
  simp

/-- what `inGrammar` says, as inequalities -/
theorem inGrammar_unpack {y mo d h mi s : Int} {nd : Nat} {frac oh om : Int}
    (hg : inGrammar ⟨y, mo, d⟩ h mi s nd frac oh om = true) :
    validDate ⟨y, mo, d⟩ = true ∧ (1 ≤ y ∧ y ≤ 9999) ∧ (0 ≤ h ∧ h < 24) ∧ (0 ≤ mi ∧ mi < 60) ∧ (0 ≤ s ∧ s < 60) ∧
    nd ≤ 9 ∧ (0 ≤ frac ∧ frac < 10 ^ nd) ∧ (0 ≤ oh ∧ oh < 24) ∧ (0 ≤ om ∧ om < 60) := by
  unfold inGrammar at hg
  simp only [Bool.and_eq_true, decide_eq_true_eq] at hg
  obtain ⟨hv, a1, a2, a3, a4, a5, a6, a7, a8, a9, a10, a11, a12, a13, a14, a15⟩ := hg
  exact ⟨hv, ⟨a1, a2⟩, ⟨a3, a4⟩, ⟨a5, a6⟩, ⟨a7, a8⟩, a9, ⟨a10, a11⟩, ⟨a12, a13⟩, ⟨a14, a15⟩⟩

theorem fracNs_bound (nd : Nat) (frac : Int) (hnd : nd ≤ 9) (hf : 0 ≤ frac ∧ frac < 10 ^ nd) :
    0 ≤ frac * 10 ^ (9 - nd) ∧ frac * 10 ^ (9 - nd) < 1000000000 := by
  have hpw : (10 : Int) ^ nd * 10 ^ (9 - nd) = 1000000000 := by
    rw [← Int.pow_add]
    have : nd + (9 - nd) = 9 := by omega
    rw [this]; rfl
  have hpos : (0 : Int) < 10 ^ (9 - nd) := Int.pow_pos (by omega)
  refine ⟨Int.mul_nonneg hf.1 (by omega), ?_⟩
  rw [← hpw]; exact Int.mul_lt_mul_of_pos_right hf.2 hpos

theorem toNat_lt_pow (nd : Nat) (frac : Int) (hf : 0 ≤ frac ∧ frac < 10 ^ nd) : frac.toNat < 10 ^ nd := by
  have h1 : ((frac.toNat : Nat) : Int) < ((10 ^ nd : Nat) : Int) := by
    rw [Int.toNat_of_nonneg hf.1]; norm_cast; exact_mod_cast hf.2
  exact_mod_cast h1

/-- RFC 3339 / Display GRAMMAR THEOREM: every text of the five forms with fields inside the quantifier
    parses — with `from_gregorian_str` and with `from_str` — to the canonical epoch, in the scale the text
    names, whose count is exactly the one the text denotes -/
theorem text_denotes (f : Form) (y mo d h mi s : Int) (nd : Nat) (frac : Int) (neg : Bool) (oh om : Int) (ts : TS)
    (hg : inGrammar ⟨y, mo, d⟩ h mi s nd frac oh om = true) :
    ∃ r ts', ts'.name = f.scaleOf ts.name ∧
      fromGregorianStrIdx (renderText f ⟨y, mo, d⟩ h mi s nd frac neg oh om ts.name) = .ok ⟨r, ts'⟩ ∧
      (∀ dur, epochFromStrWith dur (renderText f ⟨y, mo, d⟩ h mi s nd frac neg oh om ts.name) = .ok ⟨r, ts'⟩) ∧
      r.Canon ∧ r.val = denoted f ts.name ⟨y, mo, d⟩ h mi s nd frac neg oh om := by
  obtain ⟨hv, hy, hh, hmi, hs, hnd, hf, hoh, hom⟩ := inGrammar_unpack hg
  have hv' := (Cal.validDate_iff _).mp hv
  simp only at hv'
  have hml := Cal.monthLen_range y mo hv'.1 hv'.2.1
  have hfn := toNat_lt_pow nd frac hf
  have hns := fracNs_bound nd frac hnd hf
  have hst := renderStamp_eq y mo d h mi s nd frac (by omega) (by omega) (by omega) (by omega) (by omega) (by omega) hf
  have hfo := fieldsOk_of_ranges mo.toNat d.toNat h.toNat mi.toNat s.toNat (by omega) (by omega) (by omega) (by omega) (by omega)
  have c1 : ((y.toNat : Nat) : Int) = y := Int.toNat_of_nonneg (by omega)
  have c2 : ((mo.toNat : Nat) : Int) = mo := Int.toNat_of_nonneg (by omega)
  have c3 : ((d.toNat : Nat) : Int) = d := Int.toNat_of_nonneg (by omega)
  have c4 : ((h.toNat : Nat) : Int) = h := Int.toNat_of_nonneg (by omega)
  have c5 : ((mi.toNat : Nat) : Int) = mi := Int.toNat_of_nonneg (by omega)
  have c6 : ((s.toNat : Nat) : Int) = s := Int.toNat_of_nonneg (by omega)
  have c7 : ((frac.toNat : Nat) : Int) = frac := Int.toNat_of_nonneg hf.1
  have c8 : ((oh.toNat : Nat) : Int) = oh := Int.toNat_of_nonneg hoh.1
  have c9 : ((om.toNat : Nat) : Int) = om := Int.toNat_of_nonneg hom.1
  have hvo : valueOk .offH ((oh.toNat : Nat) : Int) = true ∧ valueOk .offM ((om.toNat : Nat) : Int) = true := by
    rw [c8, c9]; unfold valueOk; simp only [decide_eq_true_eq]; omega
  cases f with
  | D =>
    obtain ⟨hfs, hP⟩ := parse_D y.toNat mo.toNat d.toNat h.toNat mi.toNat s.toNat nd frac.toNat ts
      (by omega) (by omega) (by omega) (by omega) (by omega) (by omega) hnd hfn
    rw [if_pos hfo, c1, c2, c3, c4, c5, c6, c7] at hP
    obtain ⟨r, hr1, hr2, hr3⟩ := finish_denotes y mo d h mi s (frac * 10 ^ (9 - nd)) 0 0 1 ts hv (by omega) hh hmi hs hns
      (by omega) (by omega)
    have ht : renderText .D ⟨y, mo, d⟩ h mi s nd frac neg oh om ts.name =
        stamp5 y.toNat mo.toNat d.toNat h.toNat mi.toNat ++ (Cal.fmtNat 2 s.toNat ++ fracN nd frac.toNat ++ 32 :: tsDisplay ts) := by
      unfold renderText; rw [hst, scaleCodes_eq]; simp
    rw [ht]
    refine ⟨r, ts, rfl, by rw [hP, hr1], fun dur => by rw [hfs dur, hP, hr1], hr2, ?_⟩
    rw [hr3]; unfold denoted Form.scaleOf Form.hasOffset fracNs; simp
  | Z =>
    obtain ⟨hfs, hP⟩ := parse_Z y.toNat mo.toNat d.toNat h.toNat mi.toNat s.toNat nd frac.toNat
      (by omega) (by omega) (by omega) (by omega) (by omega) (by omega) hnd hfn
    rw [if_pos hfo, c1, c2, c3, c4, c5, c6, c7] at hP
    obtain ⟨r, hr1, hr2, hr3⟩ := finish_denotes y mo d h mi s (frac * 10 ^ (9 - nd)) 0 0 1 .UTC hv (by omega) hh hmi hs hns
      (by omega) (by omega)
    have ht : renderText .Z ⟨y, mo, d⟩ h mi s nd frac neg oh om ts.name =
        stamp5 y.toNat mo.toNat d.toNat h.toNat mi.toNat ++ (Cal.fmtNat 2 s.toNat ++ fracN nd frac.toNat ++ [90]) := by
      unfold renderText; rw [hst]; simp
    rw [ht]
    refine ⟨r, .UTC, rfl, by rw [hP, hr1], fun dur => by rw [hfs dur, hP, hr1], hr2, ?_⟩
    rw [hr3]; unfold denoted Form.scaleOf Form.hasOffset fracNs; simp [TS.name]
  | ZT =>
    obtain ⟨hfs, hP⟩ := parse_ZT y.toNat mo.toNat d.toNat h.toNat mi.toNat s.toNat nd frac.toNat ts
      (by omega) (by omega) (by omega) (by omega) (by omega) (by omega) hnd hfn
    rw [if_pos hfo, c1, c2, c3, c4, c5, c6, c7] at hP
    obtain ⟨r, hr1, hr2, hr3⟩ := finish_denotes y mo d h mi s (frac * 10 ^ (9 - nd)) 0 0 1 ts hv (by omega) hh hmi hs hns
      (by omega) (by omega)
    have ht : renderText .ZT ⟨y, mo, d⟩ h mi s nd frac neg oh om ts.name =
        stamp5 y.toNat mo.toNat d.toNat h.toNat mi.toNat ++
          (Cal.fmtNat 2 s.toNat ++ fracN nd frac.toNat ++ 90 :: 32 :: tsDisplay ts) := by
      unfold renderText; rw [hst, scaleCodes_eq]; simp
    rw [ht]
    refine ⟨r, ts, rfl, by rw [hP, hr1], fun dur => by rw [hfs dur, hP, hr1], hr2, ?_⟩
    rw [hr3]; unfold denoted Form.scaleOf Form.hasOffset fracNs; simp
  | O =>
    obtain ⟨hfs, hP⟩ := parse_O y.toNat mo.toNat d.toNat h.toNat mi.toNat s.toNat nd frac.toNat
      (if neg = true then 45 else 43) oh.toNat om.toNat
      (by omega) (by omega) (by omega) (by omega) (by omega) (by omega) hnd hfn (by cases neg <;> simp) (by omega) (by omega)
    rw [if_pos (And.intro hfo hvo), c1, c2, c3, c4, c5, c6, c7, c8, c9] at hP
    obtain ⟨r, hr1, hr2, hr3⟩ := finish_denotes y mo d h mi s (frac * 10 ^ (9 - nd)) oh om
      (if (if neg = true then 45 else 43) = 45 then -1 else 1) .UTC hv (by omega) hh hmi hs hns (by omega) (by omega)
    have ht : renderText .O ⟨y, mo, d⟩ h mi s nd frac neg oh om ts.name =
        stamp5 y.toNat mo.toNat d.toNat h.toNat mi.toNat ++ (Cal.fmtNat 2 s.toNat ++ fracN nd frac.toNat ++
          (if neg = true then 45 else 43) :: (Cal.fmtNat 2 oh.toNat ++ 58 :: Cal.fmtNat 2 om.toNat)) := by
      unfold renderText; rw [hst, renderOffset_eq neg oh om (by omega) (by omega)]; simp
    rw [ht]
    refine ⟨r, .UTC, rfl, by rw [hP, hr1], fun dur => by rw [hfs dur, hP, hr1], hr2, ?_⟩
    rw [hr3]; unfold denoted Form.scaleOf Form.hasOffset fracNs offsetNs
    cases neg <;> simp [TS.name] <;> omega
  | OT =>
    obtain ⟨hfs, hP⟩ := parse_OT y.toNat mo.toNat d.toNat h.toNat mi.toNat s.toNat nd frac.toNat
      (if neg = true then 45 else 43) oh.toNat om.toNat ts
      (by omega) (by omega) (by omega) (by omega) (by omega) (by omega) hnd hfn (by cases neg <;> simp) (by omega) (by omega)
    rw [if_pos (And.intro hfo hvo), c1, c2, c3, c4, c5, c6, c7, c8, c9] at hP
    obtain ⟨r, hr1, hr2, hr3⟩ := finish_denotes y mo d h mi s (frac * 10 ^ (9 - nd)) oh om
      (if (if neg = true then 45 else 43) = 45 then -1 else 1) ts hv (by omega) hh hmi hs hns (by omega) (by omega)
    have ht : renderText .OT ⟨y, mo, d⟩ h mi s nd frac neg oh om ts.name =
        stamp5 y.toNat mo.toNat d.toNat h.toNat mi.toNat ++ (Cal.fmtNat 2 s.toNat ++ fracN nd frac.toNat ++
          (if neg = true then 45 else 43) :: (Cal.fmtNat 2 oh.toNat ++ 58 :: (Cal.fmtNat 2 om.toNat ++ 32 :: tsDisplay ts))) := by
      unfold renderText; rw [hst, renderOffset_eq neg oh om (by omega) (by omega), scaleCodes_eq]; simp
    rw [ht]
    refine ⟨r, ts, rfl, by rw [hP, hr1], fun dur => by rw [hfs dur, hP, hr1], hr2, ?_⟩
    rw [hr3]; unfold denoted Form.scaleOf Form.hasOffset fracNs offsetNs
    cases neg <;> simp <;> omega


/-! ### well-formed text with fields out of range is rejected -/

theorem finishFields_reject (y mo d h mi s ns oh om sign : Int) (ts : TS)
    (hy : 0 ≤ y ∧ y ≤ 9999) (hmo : 0 ≤ mo ∧ mo ≤ 13) (hd : 0 ≤ d ∧ d ≤ 31) (hh : 0 ≤ h ∧ h ≤ 23) (hmi : 0 ≤ mi ∧ mi ≤ 59)
    (hs : 0 ≤ s ∧ s ≤ 60) (hns : 0 ≤ ns ∧ ns < 1000000000) (hoh : 0 ≤ oh ∧ oh ≤ 23) (hom : 0 ≤ om ∧ om ≤ 59)
    (hrej : mustReject iersLeapDates ⟨y, mo, d⟩ h mi (if s = 60 then 59 else s) ns = true)
    (hD10 : Cal.d10class y mo d = false) :
    finishFields y mo d h mi s ns oh om sign ts = .err := by
  obtain ⟨tz, htz, _, _⟩ := tz_spec ⟨y, mo, d, h, mi, s, ns, oh, om, sign, ts, 0, .year⟩ hoh hom
  have hs' : 0 ≤ (if s = 60 then 59 else s) := by split <;> omega
  have hcore := (Cal.validCore_spec y mo d h mi (if s = 60 then 59 else s) ns hmo.1 hd.1 hh.1 hmi.1 hs' hns.1 hD10
    (by omega) (by omega)).2.mpr hrej
  have hm : Cal.maybeFromGregorian y mo d h mi (if s = 60 then 59 else s) ns ts = .err := by
    rw [Cal.maybeFromGregorian_eq y mo d h mi _ ns ts (by omega), if_pos hcore]
  unfold finishFields finishGreg
  rw [htz]
  simp only
  have hf : fitsU8 mo = true ∧ fitsU8 d = true ∧ fitsU8 h = true ∧ fitsU8 mi = true ∧ fitsU8 s = true
      ∧ fitsU32 ns = true := by
    unfold fitsU8 fitsU32; simp only [decide_eq_true_eq]; omega
  rw [if_pos hf, hm]

theorem fieldsOk_ranges {mo d h mi sec : Nat} (h0 : fieldsOk mo d h mi sec) :
    mo ≤ 13 ∧ d ≤ 31 ∧ h ≤ 23 ∧ mi ≤ 59 ∧ sec ≤ 60 := by
  unfold fieldsOk valueOk at h0
  simp only [decide_eq_true_eq] at h0
  omega

/-- REJECTION: a text of one of the five forms — every field written with its two (year: four) digits,
    whatever their values — whose date-time the specification requires to be rejected (month 0 or > 12, a
    day the month does not have, hour > 24 (or 24), minute > 59, second > 60) is an error, outside the
    recorded class D10 (30/31 February of a leap year).  A second of 60 is judged with 59 in its place
    here (the other fields must still be a valid date-time); whether `:60` itself is allowed depends on
    the written offset and is the subject of `second60_characterised`. -/
theorem rejects_out_of_range (f : Form) (y mo d h mi s : Int) (nd : Nat) (frac : Int) (neg : Bool) (oh om : Int) (ts : TS)
    (hy : 0 ≤ y ∧ y ≤ 9999) (hmo : 0 ≤ mo ∧ mo < 100) (hd : 0 ≤ d ∧ d < 100) (hh : 0 ≤ h ∧ h < 100)
    (hmi : 0 ≤ mi ∧ mi < 100) (hs : 0 ≤ s ∧ s < 100) (hnd : nd ≤ 9) (hf : 0 ≤ frac ∧ frac < 10 ^ nd)
    (hoh : 0 ≤ oh ∧ oh < 100) (hom : 0 ≤ om ∧ om < 100)
    (hrej : mustReject iersLeapDates ⟨y, mo, d⟩ h mi (if s = 60 then 59 else s) (fracNs nd frac) = true ∨ h = 24)
    (hD10 : Cal.d10class y mo d = false) :
    fromGregorianStrIdx (renderText f ⟨y, mo, d⟩ h mi s nd frac neg oh om ts.name) = .err ∧
    ∀ dur, epochFromStrWith dur (renderText f ⟨y, mo, d⟩ h mi s nd frac neg oh om ts.name) = .err := by
  have hfn := toNat_lt_pow nd frac hf
  have hns := fracNs_bound nd frac hnd hf
  have hst := renderStamp_eq y mo d h mi s nd frac hy hmo hd hh hmi hs hf
  have c1 : ((y.toNat : Nat) : Int) = y := Int.toNat_of_nonneg (by omega)
  have c2 : ((mo.toNat : Nat) : Int) = mo := Int.toNat_of_nonneg (by omega)
  have c3 : ((d.toNat : Nat) : Int) = d := Int.toNat_of_nonneg (by omega)
  have c4 : ((h.toNat : Nat) : Int) = h := Int.toNat_of_nonneg (by omega)
  have c5 : ((mi.toNat : Nat) : Int) = mi := Int.toNat_of_nonneg (by omega)
  have c6 : ((s.toNat : Nat) : Int) = s := Int.toNat_of_nonneg (by omega)
  have c7 : ((frac.toNat : Nat) : Int) = frac := Int.toNat_of_nonneg hf.1
  have c8 : ((oh.toNat : Nat) : Int) = oh := Int.toNat_of_nonneg hoh.1
  have c9 : ((om.toNat : Nat) : Int) = om := Int.toNat_of_nonneg hom.1
  -- whatever the offset, once every `value_ok` passed the fields reach `maybe_from_gregorian`, which rejects them
  have key : ∀ (oh' om' sign : Int) (ts' : TS), 0 ≤ oh' ∧ oh' ≤ 23 → 0 ≤ om' ∧ om' ≤ 59 →
      fieldsOk mo.toNat d.toNat h.toNat mi.toNat s.toNat →
      finishFields y mo d h mi s (frac * 10 ^ (9 - nd)) oh' om' sign ts' = .err := by
    intro oh' om' sign ts' h1 h2 hfo
    have r := fieldsOk_ranges hfo
    have hrej' : mustReject iersLeapDates ⟨y, mo, d⟩ h mi (if s = 60 then 59 else s) (fracNs nd frac) = true := by
      rcases hrej with hr | h24
      · exact hr
      · omega
    exact finishFields_reject y mo d h mi s (frac * 10 ^ (9 - nd)) oh' om' sign ts' hy (by omega) (by omega) (by omega)
      (by omega) (by omega) hns h1 h2 hrej' hD10
  have hvo : (valueOk .offH ((oh.toNat : Nat) : Int) = true ∧ valueOk .offM ((om.toNat : Nat) : Int) = true) →
      (0 ≤ oh ∧ oh ≤ 23) ∧ (0 ≤ om ∧ om ≤ 59) := by
    rw [c8, c9]; unfold valueOk; simp only [decide_eq_true_eq]; omega
  cases f with
  | D =>
    obtain ⟨hfs, hP⟩ := parse_D y.toNat mo.toNat d.toNat h.toNat mi.toNat s.toNat nd frac.toNat ts
      (by omega) (by omega) (by omega) (by omega) (by omega) (by omega) hnd hfn
    have ht : renderText .D ⟨y, mo, d⟩ h mi s nd frac neg oh om ts.name =
        stamp5 y.toNat mo.toNat d.toNat h.toNat mi.toNat ++ (Cal.fmtNat 2 s.toNat ++ fracN nd frac.toNat ++ 32 :: tsDisplay ts) := by
      unfold renderText; rw [hst, scaleCodes_eq]; simp
    rw [ht]
    suffices main : fromGregorianStrIdx _ = .err from ⟨main, fun dur => by rw [hfs dur]; exact main⟩
    rw [hP]
    by_cases hfo : fieldsOk mo.toNat d.toNat h.toNat mi.toNat s.toNat
    · rw [if_pos hfo, c1, c2, c3, c4, c5, c6, c7]; exact key 0 0 1 ts (by omega) (by omega) hfo
    · rw [if_neg hfo]
  | Z =>
    obtain ⟨hfs, hP⟩ := parse_Z y.toNat mo.toNat d.toNat h.toNat mi.toNat s.toNat nd frac.toNat
      (by omega) (by omega) (by omega) (by omega) (by omega) (by omega) hnd hfn
    have ht : renderText .Z ⟨y, mo, d⟩ h mi s nd frac neg oh om ts.name =
        stamp5 y.toNat mo.toNat d.toNat h.toNat mi.toNat ++ (Cal.fmtNat 2 s.toNat ++ fracN nd frac.toNat ++ [90]) := by
      unfold renderText; rw [hst]; simp
    rw [ht]
    suffices main : fromGregorianStrIdx _ = .err from ⟨main, fun dur => by rw [hfs dur]; exact main⟩
    rw [hP]
    by_cases hfo : fieldsOk mo.toNat d.toNat h.toNat mi.toNat s.toNat
    · rw [if_pos hfo, c1, c2, c3, c4, c5, c6, c7]; exact key 0 0 1 .UTC (by omega) (by omega) hfo
    · rw [if_neg hfo]
  | ZT =>
    obtain ⟨hfs, hP⟩ := parse_ZT y.toNat mo.toNat d.toNat h.toNat mi.toNat s.toNat nd frac.toNat ts
      (by omega) (by omega) (by omega) (by omega) (by omega) (by omega) hnd hfn
    have ht : renderText .ZT ⟨y, mo, d⟩ h mi s nd frac neg oh om ts.name =
        stamp5 y.toNat mo.toNat d.toNat h.toNat mi.toNat ++
          (Cal.fmtNat 2 s.toNat ++ fracN nd frac.toNat ++ 90 :: 32 :: tsDisplay ts) := by
      unfold renderText; rw [hst, scaleCodes_eq]; simp
    rw [ht]
    suffices main : fromGregorianStrIdx _ = .err from ⟨main, fun dur => by rw [hfs dur]; exact main⟩
    rw [hP]
    by_cases hfo : fieldsOk mo.toNat d.toNat h.toNat mi.toNat s.toNat
    · rw [if_pos hfo, c1, c2, c3, c4, c5, c6, c7]; exact key 0 0 1 ts (by omega) (by omega) hfo
    · rw [if_neg hfo]
  | O =>
    obtain ⟨hfs, hP⟩ := parse_O y.toNat mo.toNat d.toNat h.toNat mi.toNat s.toNat nd frac.toNat
      (if neg = true then 45 else 43) oh.toNat om.toNat
      (by omega) (by omega) (by omega) (by omega) (by omega) (by omega) hnd hfn (by cases neg <;> simp) (by omega) (by omega)
    have ht : renderText .O ⟨y, mo, d⟩ h mi s nd frac neg oh om ts.name =
        stamp5 y.toNat mo.toNat d.toNat h.toNat mi.toNat ++ (Cal.fmtNat 2 s.toNat ++ fracN nd frac.toNat ++
          (if neg = true then 45 else 43) :: (Cal.fmtNat 2 oh.toNat ++ 58 :: Cal.fmtNat 2 om.toNat)) := by
      unfold renderText; rw [hst, renderOffset_eq neg oh om (by omega) (by omega)]; simp
    rw [ht]
    suffices main : fromGregorianStrIdx _ = .err from ⟨main, fun dur => by rw [hfs dur]; exact main⟩
    rw [hP]
    by_cases hc : fieldsOk mo.toNat d.toNat h.toNat mi.toNat s.toNat ∧
        valueOk .offH ((oh.toNat : Nat) : Int) = true ∧ valueOk .offM ((om.toNat : Nat) : Int) = true
    · rw [if_pos hc, c1, c2, c3, c4, c5, c6, c7, c8, c9]
      exact key oh om _ .UTC (hvo hc.2).1 (hvo hc.2).2 hc.1
    · rw [if_neg hc]
  | OT =>
    obtain ⟨hfs, hP⟩ := parse_OT y.toNat mo.toNat d.toNat h.toNat mi.toNat s.toNat nd frac.toNat
      (if neg = true then 45 else 43) oh.toNat om.toNat ts
      (by omega) (by omega) (by omega) (by omega) (by omega) (by omega) hnd hfn (by cases neg <;> simp) (by omega) (by omega)
    have ht : renderText .OT ⟨y, mo, d⟩ h mi s nd frac neg oh om ts.name =
        stamp5 y.toNat mo.toNat d.toNat h.toNat mi.toNat ++ (Cal.fmtNat 2 s.toNat ++ fracN nd frac.toNat ++
          (if neg = true then 45 else 43) :: (Cal.fmtNat 2 oh.toNat ++ 58 :: (Cal.fmtNat 2 om.toNat ++ 32 :: tsDisplay ts))) := by
      unfold renderText; rw [hst, renderOffset_eq neg oh om (by omega) (by omega), scaleCodes_eq]; simp
    rw [ht]
    suffices main : fromGregorianStrIdx _ = .err from ⟨main, fun dur => by rw [hfs dur]; exact main⟩
    rw [hP]
    by_cases hc : fieldsOk mo.toNat d.toNat h.toNat mi.toNat s.toNat ∧
        valueOk .offH ((oh.toNat : Nat) : Int) = true ∧ valueOk .offM ((om.toNat : Nat) : Int) = true
    · rw [if_pos hc, c1, c2, c3, c4, c5, c6, c7, c8, c9]
      exact key oh om _ ts (hvo hc.2).1 (hvo hc.2).2 hc.1
    · rw [if_neg hc]


/-! ## Part E2: second = 60 (fix 582282e) -/

theorem leapDates_valid : iersLeapDates.all (fun L => validDate L) = true := by decide

/-- "the next day is an entry of the leap table", in terms of day numbers -/
theorem contains_nextDay_iff (D : Date) (hv : validDate D = true) :
    iersLeapDates.contains (nextDay D) = iersLeapDates.any (fun L => decide (dayNumber L = dayNumber D + 1)) := by
  rw [Bool.eq_iff_iff]
  simp only [List.contains_iff_mem, List.any_eq_true, decide_eq_true_eq]
  constructor
  · intro hm
    exact ⟨nextDay D, hm, Cal.dayNumber_nextDay D hv⟩
  · rintro ⟨L, hL, hd⟩
    have hLv : validDate L = true := List.all_eq_true.mp leapDates_valid L hL
    have := Cal.dayNumber_inj L (nextDay D) hLv (Cal.nextDay_valid D hv) (by rw [hd, Cal.dayNumber_nextDay D hv])
    rw [← this]; exact hL

/-- the label check of fix 582282e, in terms of the count: with `M` the nanoseconds from 1900-01-01T00:00:00
    of the scale's calendar, the check passes iff `M` lies in the last second of a day whose next day is an
    entry of the leap-second table -/
theorem leapLabelOk_eq (r : Dur) (ts : TS) (hc : r.Canon) (hr : Cal.InCal r.val) :
    leapLabelOk r ts = .ok (decide ((r.val + refOffsetNs ts.name) / 1000000000 % 86400 = 86399) &&
      iersLeapDates.any (fun L => decide (dayNumber L = (r.val + refOffsetNs ts.name) / 86400000000000 + 1))) := by
  obtain ⟨y, mo, dd, h, mi, s, ns, e, hv, hy1, hy2, a1, a2, a3, a4, a5, a6, a7, a8, hval⟩ :=
    Cal.computeGregorian_spec r ts hc hr
  have hdn : (r.val + refOffsetNs ts.name) / 86400000000000 = dayNumber ⟨y, mo, dd⟩ := by omega
  have hsec : ((r.val + refOffsetNs ts.name) / 1000000000 % 86400 = 86399) ↔ (h = 23 ∧ mi = 59 ∧ s = 59) := by
    constructor <;> intro hh <;> omega
  unfold leapLabelOk
  rw [e]
  simp only
  rw [hdn]
  by_cases hl : h = 23 ∧ mi = 59 ∧ s = 59
  · rw [if_pos hl]
    have hd : decide ((r.val + refOffsetNs ts.name) / 1000000000 % 86400 = 86399) = true := by
      simp only [decide_eq_true_eq]; exact hsec.mpr hl
    rw [hd, Bool.true_and]
    unfold Cal.isGregorianValid
    rw [validPanics_false]
    simp only [Bool.false_eq_true, if_false]
    have hv' := (Cal.validDate_iff _).mp hv
    simp only at hv'
    have hspec := (Cal.validCore_spec y mo dd 23 59 60 0 (by omega) (by omega) (by omega) (by omega) (by omega) (by omega)
      (Cal.valid_not_d10 y mo dd hv) (by omega) (by omega)).1
    have hacc : mustAccept iersLeapDates ⟨y, mo, dd⟩ 23 59 60 0 = iersLeapDates.contains (nextDay ⟨y, mo, dd⟩) := by
      unfold mustAccept
      rw [hv]
      simp
    rw [hacc, contains_nextDay_iff _ hv] at hspec
    congr 1
    rw [Bool.eq_iff_iff]
    exact hspec
  · rw [if_neg hl]
    have hd : decide ((r.val + refOffsetNs ts.name) / 1000000000 % 86400 = 86399) = false := by
      simp only [decide_eq_false_iff_not]; exact fun x => hl (hsec.mp x)
    rw [hd, Bool.false_and]

/-- fields that are a valid date-time with 59 in place of the written 60: what follows the loop is decided by
    the label check alone, and the epoch is the one of `:59.f` shifted by the offset -/
theorem finishFields_60_spec (y mo d h mi : Int) (nd : Nat) (frac oh om sign offMin : Int) (ts : TS)
    (hv : validDate ⟨y, mo, d⟩ = true) (hy : 1 ≤ y ∧ y ≤ 9999) (hh : 0 ≤ h ∧ h < 24) (hmi : 0 ≤ mi ∧ mi < 60)
    (hnd : nd ≤ 9) (hf : 0 ≤ frac ∧ frac < 10 ^ nd) (hoh : 0 ≤ oh ∧ oh ≤ 23) (hom : 0 ≤ om ∧ om ≤ 59)
    (hoff : (if sign > 0 then -1 else 1) * (oh * 3600000000000 + om * 60000000000) = -(offMin * 60000000000)) :
    ∃ r, r.Canon ∧ r.val = lastLabelNs ⟨y, mo, d⟩ h mi offMin nd frac - refOffsetNs ts.name ∧
      finishFields y mo d h mi 60 (frac * 10 ^ (9 - nd)) oh om sign ts =
        if leapLabelOwn iersLeapDates ⟨y, mo, d⟩ h mi offMin = true then .ok ⟨r, ts⟩ else .err := by
  have hns := fracNs_bound nd frac hnd hf
  have hv' := (Cal.validDate_iff _).mp hv
  simp only at hv'
  have hml := Cal.monthLen_range y mo hv'.1 hv'.2.1
  have hcore := Cal.validCore_of_valid y mo d h mi 59 (frac * 10 ^ (9 - nd)) hv hh hmi (by omega) hns
  obtain ⟨e, he, hc, hval⟩ := Cal.maybeFromGregorian_val y mo d h mi 59 (frac * 10 ^ (9 - nd)) ts (by omega) (by omega)
    (by omega) hh.1 hmi.1 (by omega) hns.1 hcore
  rw [if_neg (by omega)] at hval
  obtain ⟨tz, htz, hcz, hvz⟩ := tz_spec ⟨y, mo, d, h, mi, 60, frac * 10 ^ (9 - nd), oh, om, sign, ts, 0, .year⟩ hoh hom
  simp only at hvz
  rw [hoff] at hvz
  have hdn := dayNumber_bound y mo d (by omega) ⟨hv'.1, hv'.2.1⟩ ⟨hv'.2.2.1, by omega⟩
  have hor := Cal.refOffset_range ts
  have hadd := add_spec e tz hc hcz
  have hom' : -1439 ≤ offMin ∧ offMin ≤ 1439 := by
    split at hoff <;> omega
  have hrv : (Dur.add e tz).val = e.val + tz.val := by
    rw [hadd.2]; apply clampD_mid <;> (rw [hval, hvz]; omega)
  refine ⟨Dur.add e tz, hadd.1, ?_, ?_⟩
  · rw [hrv, hval, hvz]; unfold lastLabelNs ownMinute fracNs; omega
  · have hin : Cal.InCal (Dur.add e tz).val := by unfold Cal.InCal; rw [hrv, hval, hvz]; omega
    unfold finishFields finishGreg
    rw [htz]
    simp only
    have hfit : fitsU8 mo = true ∧ fitsU8 d = true ∧ fitsU8 h = true ∧ fitsU8 mi = true ∧ fitsU8 60 = true
        ∧ fitsU32 (frac * 10 ^ (9 - nd)) = true := by
      unfold fitsU8 fitsU32; simp only [decide_eq_true_eq]; omega
    rw [if_pos hfit]
    simp only [if_true]
    rw [he]
    simp only
    rw [leapLabelOk_eq _ ts hadd.1 hin]
    have hM : (Dur.add e tz).val + refOffsetNs ts.name =
        ownMinute ⟨y, mo, d⟩ h mi offMin * 60000000000 + 59000000000 + frac * 10 ^ (9 - nd) := by
      rw [hrv, hval, hvz]; unfold ownMinute; omega
    rw [hM]
    have e1 : ((ownMinute ⟨y, mo, d⟩ h mi offMin * 60000000000 + 59000000000 + frac * 10 ^ (9 - nd)) / 1000000000 % 86400 = 86399)
        ↔ (ownMinute ⟨y, mo, d⟩ h mi offMin % 1440 = 1439) := by
      constructor <;> intro hx <;> omega
    have e2 : (ownMinute ⟨y, mo, d⟩ h mi offMin * 60000000000 + 59000000000 + frac * 10 ^ (9 - nd)) / 86400000000000 =
        ownMinute ⟨y, mo, d⟩ h mi offMin / 1440 := by omega
    rw [e2]
    have e3 : decide ((ownMinute ⟨y, mo, d⟩ h mi offMin * 60000000000 + 59000000000 + frac * 10 ^ (9 - nd)) / 1000000000 % 86400 = 86399)
        = decide (ownMinute ⟨y, mo, d⟩ h mi offMin % 1440 = 1439) := by
      rw [Bool.eq_iff_iff]; simp only [decide_eq_true_eq]; exact e1
    rw [e3]
    unfold leapLabelOwn
    cases hb : (decide (ownMinute ⟨y, mo, d⟩ h mi offMin % 1440 = 1439) &&
      iersLeapDates.any fun L => decide (dayNumber L = ownMinute ⟨y, mo, d⟩ h mi offMin / 1440 + 1)) <;> simp

theorem inGrammar60_unpack {y mo d h mi : Int} {nd : Nat} {frac oh om : Int}
    (hg : inGrammar60 ⟨y, mo, d⟩ h mi nd frac oh om = true) :
    validDate ⟨y, mo, d⟩ = true ∧ (1 ≤ y ∧ y ≤ 9999) ∧ (0 ≤ h ∧ h < 24) ∧ (0 ≤ mi ∧ mi < 60) ∧
    nd ≤ 9 ∧ (0 ≤ frac ∧ frac < 10 ^ nd) ∧ (0 ≤ oh ∧ oh < 24) ∧ (0 ≤ om ∧ om < 60) := by
  unfold inGrammar60 at hg
  simp only [Bool.and_eq_true, decide_eq_true_eq] at hg
  obtain ⟨hv, a1, a2, a3, a4, a5, a6, a9, a10, a11, a12, a13, a14, a15⟩ := hg
  exact ⟨hv, ⟨a1, a2⟩, ⟨a3, a4⟩, ⟨a5, a6⟩, a9, ⟨a10, a11⟩, ⟨a12, a13⟩, ⟨a14, a15⟩⟩

/-- SECOND = 60 (after fix 582282e): a text of the five forms whose other fields are inside the quantifier is
    accepted exactly when its fields minus the written offset are 23:59 of a day preceding an entry of the
    leap-second table, whatever the offset and the scale; the epoch returned is then the one of `:59.f` of
    that minute (the library's convention 23:59:60 ≡ 23:59:59, which for UTC is the recorded finding D9b);
    otherwise the text is an error -/
theorem second60_text (f : Form) (y mo d h mi : Int) (nd : Nat) (frac : Int) (neg : Bool) (oh om : Int) (ts : TS)
    (hg : inGrammar60 ⟨y, mo, d⟩ h mi nd frac oh om = true) :
    ∃ r ts', ts'.name = f.scaleOf ts.name ∧ r.Canon ∧
      r.val = lastLabelNs ⟨y, mo, d⟩ h mi (offsetMin f neg oh om) nd frac - refOffsetNs ts'.name ∧
      fromGregorianStrIdx (renderText f ⟨y, mo, d⟩ h mi 60 nd frac neg oh om ts.name) =
        (if leapLabelOwn iersLeapDates ⟨y, mo, d⟩ h mi (offsetMin f neg oh om) = true then .ok ⟨r, ts'⟩ else .err) ∧
      ∀ dur, epochFromStrWith dur (renderText f ⟨y, mo, d⟩ h mi 60 nd frac neg oh om ts.name) =
        (if leapLabelOwn iersLeapDates ⟨y, mo, d⟩ h mi (offsetMin f neg oh om) = true then .ok ⟨r, ts'⟩ else .err) := by
  obtain ⟨hv, hy, hh, hmi, hnd, hf, hoh, hom⟩ := inGrammar60_unpack hg
  have hv' := (Cal.validDate_iff _).mp hv
  simp only at hv'
  have hml := Cal.monthLen_range y mo hv'.1 hv'.2.1
  have hfn := toNat_lt_pow nd frac hf
  have hst := renderStamp_eq y mo d h mi 60 nd frac (by omega) (by omega) (by omega) (by omega) (by omega) (by omega) hf
  have hfo := fieldsOk_of_ranges mo.toNat d.toNat h.toNat mi.toNat (60 : Int).toNat (by omega) (by omega) (by omega)
    (by omega) (by decide)
  have c1 : ((y.toNat : Nat) : Int) = y := Int.toNat_of_nonneg (by omega)
  have c2 : ((mo.toNat : Nat) : Int) = mo := Int.toNat_of_nonneg (by omega)
  have c3 : ((d.toNat : Nat) : Int) = d := Int.toNat_of_nonneg (by omega)
  have c4 : ((h.toNat : Nat) : Int) = h := Int.toNat_of_nonneg (by omega)
  have c5 : ((mi.toNat : Nat) : Int) = mi := Int.toNat_of_nonneg (by omega)
  have c6 : (((60 : Int).toNat : Nat) : Int) = 60 := by decide
  have c7 : ((frac.toNat : Nat) : Int) = frac := Int.toNat_of_nonneg hf.1
  have c8 : ((oh.toNat : Nat) : Int) = oh := Int.toNat_of_nonneg hoh.1
  have c9 : ((om.toNat : Nat) : Int) = om := Int.toNat_of_nonneg hom.1
  have hvo : valueOk .offH ((oh.toNat : Nat) : Int) = true ∧ valueOk .offM ((om.toNat : Nat) : Int) = true := by
    rw [c8, c9]; unfold valueOk; simp only [decide_eq_true_eq]; omega
  cases f with
  | D =>
    obtain ⟨hfs, hP⟩ := parse_D y.toNat mo.toNat d.toNat h.toNat mi.toNat (60 : Int).toNat nd frac.toNat ts
      (by omega) (by omega) (by omega) (by omega) (by omega) (by decide) hnd hfn
    rw [if_pos hfo, c1, c2, c3, c4, c5, c6, c7] at hP
    obtain ⟨r, hr1, hr2, hr3⟩ := finishFields_60_spec y mo d h mi nd frac 0 0 1 (offsetMin .D neg oh om) ts hv hy hh hmi hnd hf
      (by omega) (by omega) (by unfold offsetMin Form.hasOffset; simp)
    have ht : renderText .D ⟨y, mo, d⟩ h mi 60 nd frac neg oh om ts.name =
        stamp5 y.toNat mo.toNat d.toNat h.toNat mi.toNat ++
          (Cal.fmtNat 2 (60 : Int).toNat ++ fracN nd frac.toNat ++ 32 :: tsDisplay ts) := by
      unfold renderText; rw [hst, scaleCodes_eq]; simp
    rw [ht]
    exact ⟨r, ts, rfl, hr1, hr2, by rw [hP, hr3], fun dur => by rw [hfs dur, hP, hr3]⟩
  | Z =>
    obtain ⟨hfs, hP⟩ := parse_Z y.toNat mo.toNat d.toNat h.toNat mi.toNat (60 : Int).toNat nd frac.toNat
      (by omega) (by omega) (by omega) (by omega) (by omega) (by decide) hnd hfn
    rw [if_pos hfo, c1, c2, c3, c4, c5, c6, c7] at hP
    obtain ⟨r, hr1, hr2, hr3⟩ := finishFields_60_spec y mo d h mi nd frac 0 0 1 (offsetMin .Z neg oh om) .UTC hv hy hh hmi hnd hf
      (by omega) (by omega) (by unfold offsetMin Form.hasOffset; simp)
    have ht : renderText .Z ⟨y, mo, d⟩ h mi 60 nd frac neg oh om ts.name =
        stamp5 y.toNat mo.toNat d.toNat h.toNat mi.toNat ++ (Cal.fmtNat 2 (60 : Int).toNat ++ fracN nd frac.toNat ++ [90]) := by
      unfold renderText; rw [hst]; simp
    rw [ht]
    exact ⟨r, .UTC, rfl, hr1, hr2, by rw [hP, hr3], fun dur => by rw [hfs dur, hP, hr3]⟩
  | ZT =>
    obtain ⟨hfs, hP⟩ := parse_ZT y.toNat mo.toNat d.toNat h.toNat mi.toNat (60 : Int).toNat nd frac.toNat ts
      (by omega) (by omega) (by omega) (by omega) (by omega) (by decide) hnd hfn
    rw [if_pos hfo, c1, c2, c3, c4, c5, c6, c7] at hP
    obtain ⟨r, hr1, hr2, hr3⟩ := finishFields_60_spec y mo d h mi nd frac 0 0 1 (offsetMin .ZT neg oh om) ts hv hy hh hmi hnd hf
      (by omega) (by omega) (by unfold offsetMin Form.hasOffset; simp)
    have ht : renderText .ZT ⟨y, mo, d⟩ h mi 60 nd frac neg oh om ts.name =
        stamp5 y.toNat mo.toNat d.toNat h.toNat mi.toNat ++
          (Cal.fmtNat 2 (60 : Int).toNat ++ fracN nd frac.toNat ++ 90 :: 32 :: tsDisplay ts) := by
      unfold renderText; rw [hst, scaleCodes_eq]; simp
    rw [ht]
    exact ⟨r, ts, rfl, hr1, hr2, by rw [hP, hr3], fun dur => by rw [hfs dur, hP, hr3]⟩
  | O =>
    obtain ⟨hfs, hP⟩ := parse_O y.toNat mo.toNat d.toNat h.toNat mi.toNat (60 : Int).toNat nd frac.toNat
      (if neg = true then 45 else 43) oh.toNat om.toNat
      (by omega) (by omega) (by omega) (by omega) (by omega) (by decide) hnd hfn (by cases neg <;> simp) (by omega) (by omega)
    rw [if_pos (And.intro hfo hvo), c1, c2, c3, c4, c5, c6, c7, c8, c9] at hP
    obtain ⟨r, hr1, hr2, hr3⟩ := finishFields_60_spec y mo d h mi nd frac oh om
      (if (if neg = true then 45 else 43) = 45 then -1 else 1) (offsetMin .O neg oh om) .UTC hv hy hh hmi hnd hf
      (by omega) (by omega) (by unfold offsetMin Form.hasOffset; cases neg <;> simp <;> omega)
    have ht : renderText .O ⟨y, mo, d⟩ h mi 60 nd frac neg oh om ts.name =
        stamp5 y.toNat mo.toNat d.toNat h.toNat mi.toNat ++ (Cal.fmtNat 2 (60 : Int).toNat ++ fracN nd frac.toNat ++
          (if neg = true then 45 else 43) :: (Cal.fmtNat 2 oh.toNat ++ 58 :: Cal.fmtNat 2 om.toNat)) := by
      unfold renderText; rw [hst, renderOffset_eq neg oh om (by omega) (by omega)]; simp
    rw [ht]
    exact ⟨r, .UTC, rfl, hr1, hr2, by rw [hP, hr3], fun dur => by rw [hfs dur, hP, hr3]⟩
  | OT =>
    obtain ⟨hfs, hP⟩ := parse_OT y.toNat mo.toNat d.toNat h.toNat mi.toNat (60 : Int).toNat nd frac.toNat
      (if neg = true then 45 else 43) oh.toNat om.toNat ts
      (by omega) (by omega) (by omega) (by omega) (by omega) (by decide) hnd hfn (by cases neg <;> simp) (by omega) (by omega)
    rw [if_pos (And.intro hfo hvo), c1, c2, c3, c4, c5, c6, c7, c8, c9] at hP
    obtain ⟨r, hr1, hr2, hr3⟩ := finishFields_60_spec y mo d h mi nd frac oh om
      (if (if neg = true then 45 else 43) = 45 then -1 else 1) (offsetMin .OT neg oh om) ts hv hy hh hmi hnd hf
      (by omega) (by omega) (by unfold offsetMin Form.hasOffset; cases neg <;> simp <;> omega)
    have ht : renderText .OT ⟨y, mo, d⟩ h mi 60 nd frac neg oh om ts.name =
        stamp5 y.toNat mo.toNat d.toNat h.toNat mi.toNat ++ (Cal.fmtNat 2 (60 : Int).toNat ++ fracN nd frac.toNat ++
          (if neg = true then 45 else 43) :: (Cal.fmtNat 2 oh.toNat ++ 58 :: (Cal.fmtNat 2 om.toNat ++ 32 :: tsDisplay ts))) := by
      unfold renderText; rw [hst, renderOffset_eq neg oh om (by omega) (by omega), scaleCodes_eq]; simp
    rw [ht]
    exact ⟨r, ts, rfl, hr1, hr2, by rw [hP, hr3], fun dur => by rw [hfs dur, hP, hr3]⟩

/-! ## Part E3: the duplicated formatter models are the same functions -/

theorem tsDisplay_eq_name (ts : TS) : tsDisplay ts = Cal.strCodes ts.name := by
  cases ts <;> decide

/-- `Txt.displayEpoch` (this file's Display, scale names from the generated Display table) is `Cal.display`
    (the C09 model, scale names from the protocol names) -/
theorem displayEpoch_eq_display (d : Dur) (ts : TS) : displayEpoch d ts = Cal.display d ts := by
  unfold displayEpoch Cal.display
  cases Cal.computeGregorian d ts with
  | ok v =>
    obtain ⟨y, mo, dd, hh, mi, s, ns⟩ := v
    simp only [renderGreg, Cal.renderFields, tsDisplay_eq_name]
  | err => rfl
  | panic => rfl

/-- the ISO8601 constant of the general formatter model (C19), as a `Format` -/
theorem iso8601_format :
    Efmt.Format.ofGen Gen.EFMT_ISO8601 = some ⟨[⟨.Year, some 45, none, false⟩, ⟨.Month, some 45, none, false⟩,
      ⟨.Day, some 84, none, false⟩, ⟨.Hour, some 58, none, false⟩, ⟨.Minute, some 58, none, false⟩,
      ⟨.Second, some 46, none, false⟩, ⟨.Subsecond, some 32, none, false⟩, ⟨.Timescale, none, none, false⟩]⟩ := by
  decide

/-- `Txt.isoFormatterOutput` is the general formatter model `Efmt.formatterOutput` applied to the generated
    constant `ISO8601`, for any oracles (the constant uses none of them) -/
theorem isoFormatterOutput_eq_formatter (O : Efmt.Oracles) (f : Efmt.Format) (hf : Efmt.Format.ofGen Gen.EFMT_ISO8601 = some f)
    (d : Dur) (ts : TS) : Efmt.formatterOutput O f ⟨d, ts⟩ none = isoFormatterOutput d ts := by
  rw [iso8601_format] at hf
  simp only [Option.some.injEq] at hf
  subst hf
  unfold Efmt.formatterOutput Efmt.formatterFmt isoFormatterOutput
  simp only
  rw [if_pos (by decide)]
  cases Cal.computeGregorian d ts with
  | ok v =>
    obtain ⟨y, mo, dd, hh, mi, s, ns⟩ := v
    simp [Efmt.gregGo, Efmt.tokText, Efmt.Item.sepText, renderIso, tsDisplay_eq_name]
  | err => rfl
  | panic => rfl

/-! ## Part F: the numeric forms `PREFIX␣x␣SCALE` — what is read is what is written -/

theorem sliceOpt_mid (pre sub post : List Nat) (h : isAscii (pre ++ sub ++ post) = true) :
    sliceOpt (pre ++ sub ++ post) pre.length (pre.length + sub.length) = some sub := by
  rw [sliceOpt_ascii _ _ _ h (by omega) (by simp; try omega)]
  simp [List.append_assoc]

theorem isWhitespace_blank : isWhitespace 32 = true := by decide

theorem trimStart_blank (X : List Nat) : trimStart (32 :: X) = trimStart X := by
  unfold trimStart; rw [List.dropWhile_cons_of_pos isWhitespace_blank]

theorem trimEnd_blank (X : List Nat) : trimEnd (X ++ [32]) = trimEnd X := by
  unfold trimEnd
  rw [List.reverse_append]
  simp only [List.reverse_cons, List.reverse_nil, List.nil_append, List.singleton_append]
  rw [List.dropWhile_cons_of_pos isWhitespace_blank]

/-- a text without white space is its own trim, also when padded by one blank on either side -/
theorem trim_nows (X : List Nat) (h : ∀ c ∈ X, isWhitespace c = false) : trim X = X := by
  apply trim_eq_self
  · intro c hc; exact h c (List.mem_of_mem_head? hc)
  · intro c hc; exact h c (List.mem_of_mem_getLast? hc)

theorem trimStart_nows (X Y : List Nat) (hX : X ≠ []) (h : ∀ c ∈ X, isWhitespace c = false) :
    trimStart (X ++ Y) = X ++ Y := by
  cases X with
  | nil => exact absurd rfl hX
  | cons c r => exact trimStart_id (h c (by simp))

theorem trim_pad_both (X : List Nat) (hX : X ≠ []) (h : ∀ c ∈ X, isWhitespace c = false) :
    trim (32 :: (X ++ [32])) = X := by
  unfold trim
  rw [trimStart_blank, trimStart_nows X [32] hX h, trimEnd_blank]
  have := trim_nows X h
  unfold trim at this
  have h2 : trimStart X = X := by
    have := trimStart_nows X [] hX h
    simpa using this
  rw [h2] at this; exact this

theorem trim_pad_left (X : List Nat) (_hX : X ≠ []) (h : ∀ c ∈ X, isWhitespace c = false) :
    trim (32 :: X) = X := by
  unfold trim
  rw [trimStart_blank]
  have := trim_nows X h
  unfold trim at this
  exact this

/-- every spelling looks itself up (no spelling shadows another), is made of capital letters, 2..5 long -/
theorem ts_spellings_lookup :
    Gen.TIMESCALE_SPELLINGS.all (fun p => decide (lookup Gen.TIMESCALE_SPELLINGS p.1 = some p.2) &&
      p.1.all (fun c => decide (65 ≤ c ∧ c ≤ 90)) && decide (2 ≤ p.1.length)) = true := by decide

theorem letter_not_ws {c : Nat} (h : 65 ≤ c ∧ c ≤ 90) : isWhitespace c = false := by
  rw [isWhitespace_ascii c (by omega)]; simp; omega

theorem suffixTs_cons (s : List Nat) (n : Nat) (rest : List Nat) :
    suffixTs s (n :: rest) =
      if byteLen s < n then suffixTs s rest
      else
        match sliceOpt s (byteLen s - n) (byteLen s) with
        | some t =>
          (match tsFromStr t with
           | some ts => some (ts, t)
           | none => suffixTs s rest)
        | none => suffixTs s rest := rfl

theorem suffixTs_step_ok (T : List Nat) (n : Nat) (rest : List Nat) (t : List Nat) (ts : TS) (hn : n ≤ byteLen T)
    (hsl : sliceOpt T (byteLen T - n) (byteLen T) = some t) (hts : tsFromStr t = some ts) :
    suffixTs T (n :: rest) = some (ts, t) := by
  rw [suffixTs_cons, if_neg (by omega), hsl]; simp only; rw [hts]

theorem suffixTs_step_fail (T : List Nat) (n : Nat) (rest : List Nat) (t : List Nat) (hn : n ≤ byteLen T)
    (hsl : sliceOpt T (byteLen T - n) (byteLen T) = some t) (hts : tsFromStr t = none) :
    suffixTs T (n :: rest) = suffixTs T rest := by
  rw [suffixTs_cons, if_neg (by omega), hsl]; simp only; rw [hts]

/-- the last characters of an ASCII text -/
theorem sliceOpt_last (P sub : List Nat) (h : isAscii (P ++ sub) = true) :
    sliceOpt (P ++ sub) (byteLen (P ++ sub) - sub.length) (byteLen (P ++ sub)) = some sub := by
  have := sliceOpt_mid P sub [] (by simpa using h)
  simp only [List.append_nil] at this
  rw [byteLen_ascii _ h]
  have e1 : (P ++ sub).length - sub.length = P.length := by simp
  have e2 : (P ++ sub).length = P.length + sub.length := by simp
  rw [e1, e2]; exact this

/-- a text with a blank inside is no spelling of a time scale -/
theorem tsFromStr_none_of_blank (t : List Nat) (h : 32 ∈ trim t) : tsFromStr t = none := by
  unfold tsFromStr
  cases hl : lookup Gen.TIMESCALE_SPELLINGS (trim t) with
  | none => rfl
  | some v =>
    have hm := lookup_mem _ _ _ hl
    have hsp := List.all_eq_true.mp ts_spellings_lookup _ hm
    simp only [Bool.and_eq_true, decide_eq_true_eq, List.all_eq_true] at hsp
    have := hsp.1.2 32 h
    omega

theorem trim_blank (X : List Nat) : trim (32 :: X) = trim X := by
  unfold trim; rw [trimStart_blank]

theorem ts_spellings_len : Gen.TIMESCALE_SPELLINGS.all (fun p => decide (p.1.length ≤ 5)) = true := by decide

/-- in `… x␣SCALE` the suffix search (5, 4, 3 bytes, the first that is a time scale) finds the written spelling -/
theorem suffixTs_text (pfx x sfx : List Nat) (ts : TS) (hsfx : (sfx, ts) ∈ Gen.TIMESCALE_SPELLINGS)
    (hpa : isAscii pfx = true) (hp2 : 2 ≤ pfx.length) (hxa : isAscii x = true) (hxne : x ≠ [])
    (hxw : ∀ c ∈ x, isWhitespace c = false) :
    ∃ t, suffixTs (pfx ++ 32 :: (x ++ 32 :: sfx)) [5, 4, 3] = some (ts, t) ∧ trim t = sfx := by
  have hsp := List.all_eq_true.mp ts_spellings_lookup _ hsfx
  simp only [Bool.and_eq_true, decide_eq_true_eq, List.all_eq_true] at hsp
  obtain ⟨⟨hlook, hlet⟩, hl2⟩ := hsp
  have hl5 := List.all_eq_true.mp ts_spellings_len _ hsfx
  simp only [decide_eq_true_eq] at hl5
  have hsw : ∀ c ∈ sfx, isWhitespace c = false := fun c hc => letter_not_ws (hlet c hc)
  have hsa : isAscii sfx = true := by
    unfold isAscii; rw [List.all_eq_true]; intro c hc
    have := hlet c hc; simp only [decide_eq_true_eq]; omega
  have hsne : sfx ≠ [] := by intro e; rw [e] at hl2; simp at hl2
  have hok : ∀ t, trim t = sfx → tsFromStr t = some ts := by
    intro t ht; unfold tsFromStr; rw [ht]; exact hlook
  -- x = x0 ++ [c]
  obtain ⟨x0, c, hxc⟩ : ∃ x0 c, x = x0 ++ [c] := by
    cases hr : x.reverse with
    | nil => simp at hr; exact absurd hr hxne
    | cons e r' => exact ⟨r'.reverse, e, by have := congrArg List.reverse hr; simpa using this⟩
  have hcw : isWhitespace c = false := hxw c (by rw [hxc]; simp)
  have hx0w : ∀ z ∈ x0, isWhitespace z = false := fun z hz => hxw z (by rw [hxc]; simp [hz])
  generalize hT : pfx ++ 32 :: (x ++ 32 :: sfx) = T
  have ha : isAscii T = true := by
    rw [← hT]; simp only [isAscii_append, isAscii_cons, hpa, hxa, hsa, true_and, and_true]; omega
  have hbl : byteLen T = T.length := byteLen_ascii T ha
  have hlen : T.length = pfx.length + 1 + x.length + 1 + sfx.length := by rw [← hT]; simp; omega
  have hx1 : 1 ≤ x.length := by rw [hxc]; simp
  -- the candidate suffixes
  have sl : ∀ (P sub : List Nat), T = P ++ sub → sliceOpt T (byteLen T - sub.length) (byteLen T) = some sub := by
    intro P sub e; rw [e]; exact sliceOpt_last P sub (by rw [← e]; exact ha)
  obtain ⟨s0, e, hse⟩ : ∃ s0 e, sfx = s0 ++ [e] := by
    cases hr : sfx.reverse with
    | nil => simp at hr; exact absurd hr hsne
    | cons e r' => exact ⟨r'.reverse, e, by have := congrArg List.reverse hr; simpa using this⟩
  have hew : isWhitespace e = false := hsw e (by rw [hse]; simp)
  have trim_c : trim (c :: 32 :: sfx) = c :: 32 :: sfx := by
    have e1 : c :: 32 :: sfx = c :: ((32 :: s0) ++ [e]) := by rw [hse]; simp
    rw [e1]
    exact trim_id c _ _ hcw hew
  have fail_c : tsFromStr (c :: 32 :: sfx) = none := tsFromStr_none_of_blank _ (by rw [trim_c]; simp)
  have fail_zc : ∀ z, (z = 32 ∨ isWhitespace z = false) → tsFromStr (z :: c :: 32 :: sfx) = none := by
    intro z hz
    apply tsFromStr_none_of_blank
    rcases hz with h | h
    · subst h; rw [trim_blank, trim_c]; simp
    · have e1 : z :: c :: 32 :: sfx = z :: ((c :: 32 :: s0) ++ [e]) := by rw [hse]; simp
      rw [e1, trim_id z _ _ h hew]; simp
  have t_b : trim (32 :: sfx) = sfx := trim_pad_left sfx hsne hsw
  have t_s : trim sfx = sfx := trim_nows sfx hsw
  have e_b : T = (pfx ++ 32 :: x) ++ (32 :: sfx) := by rw [← hT]; simp
  have e_s : T = (pfx ++ 32 :: (x ++ [32])) ++ sfx := by rw [← hT]; simp
  have e_c : T = (pfx ++ 32 :: x0) ++ (c :: 32 :: sfx) := by rw [← hT, hxc]; simp
  have hk : sfx.length = 2 ∨ sfx.length = 3 ∨ sfx.length = 4 ∨ sfx.length = 5 := by omega
  rcases hk with hk | hk | hk | hk
  · -- two letters: the 5- and 4-byte candidates contain a blank, the 3-byte one is `␣SCALE`
    have h4 := sl _ _ e_c
    have h3 := sl _ _ e_b
    simp only [List.length_cons, hk] at h4 h3
    -- the character before c
    have h5 : ∃ z, (z = 32 ∨ isWhitespace z = false) ∧ sliceOpt T (byteLen T - 5) (byteLen T) = some (z :: c :: 32 :: sfx) := by
      cases hr : x0.reverse with
      | nil =>
        have hx0 : x0 = [] := by simpa using hr
        obtain ⟨p0, z, hpz⟩ : ∃ p0 z, pfx ++ [32] = p0 ++ [z] ∧ z = 32 := ⟨pfx, 32, rfl, rfl⟩
        refine ⟨32, Or.inl rfl, ?_⟩
        have e5 : T = pfx ++ (32 :: c :: 32 :: sfx) := by rw [e_c, hx0]; simp
        have := sl _ _ e5
        simp only [List.length_cons, hk] at this
        exact this
      | cons z r' =>
        have hx0 : x0 = r'.reverse ++ [z] := by have := congrArg List.reverse hr; simpa using this
        refine ⟨z, Or.inr (hx0w z (by rw [hx0]; simp)), ?_⟩
        have e5 : T = (pfx ++ 32 :: r'.reverse) ++ (z :: c :: 32 :: sfx) := by rw [e_c, hx0]; simp
        have := sl _ _ e5
        simp only [List.length_cons, hk] at this
        exact this
    obtain ⟨z, hz, h5⟩ := h5
    refine ⟨32 :: sfx, ?_, t_b⟩
    rw [suffixTs_step_fail T 5 _ _ (by omega) h5 (fail_zc z hz), suffixTs_step_fail T 4 _ _ (by omega) h4 fail_c,
      suffixTs_step_ok T 3 _ _ ts (by omega) h3 (hok _ t_b)]
  · -- three letters
    have h5 := sl _ _ e_c
    have h4 := sl _ _ e_b
    simp only [List.length_cons, hk] at h5 h4
    refine ⟨32 :: sfx, ?_, t_b⟩
    rw [suffixTs_step_fail T 5 _ _ (by omega) h5 fail_c, suffixTs_step_ok T 4 _ _ ts (by omega) h4 (hok _ t_b)]
  · -- four letters
    have h5 := sl _ _ e_b
    simp only [List.length_cons, hk] at h5
    exact ⟨32 :: sfx, suffixTs_step_ok T 5 _ _ ts (by omega) h5 (hok _ t_b), t_b⟩
  · -- five letters
    have h5 := sl _ _ e_s
    rw [hk] at h5
    exact ⟨sfx, suffixTs_step_ok T 5 _ _ ts (by omega) h5 (hok _ t_s), t_s⟩

/-- NUMERIC FORMS: for the text `PREFIX␣x␣SCALE` (`x` any ASCII numeral text without blanks, `SCALE` any
    spelling that `TimeScale::from_str` accepts) `Epoch::from_str` hands exactly `x`
    to `lexical_core::parse::<f64>` and exactly the written scale to the initializer of the written prefix -/
theorem numeric_text_reads (dur : Nat → Nat → TS → Dur) (pfx : List Nat) (start fmt : Nat)
    (hp : (pfx = [74, 68] ∧ start = 2 ∧ fmt = 0) ∨ (pfx = [77, 74, 68] ∧ start = 3 ∧ fmt = 1) ∨
          (pfx = [83, 69, 67] ∧ start = 3 ∧ fmt = 2))
    (x sfx : List Nat) (ts : TS) (hsfx : (sfx, ts) ∈ Gen.TIMESCALE_SPELLINGS)
    (hxa : isAscii x = true) (hxne : x ≠ []) (hxw : ∀ c ∈ x, isWhitespace c = false) :
    epochFromStrWith dur (pfx ++ 32 :: (x ++ 32 :: sfx)) =
      match lexF64 x with
      | some bits => if finiteBits bits = true then numericEpoch fmt ts bits (dur fmt bits) else .err
      | none => .err := by
  have hsp := List.all_eq_true.mp ts_spellings_lookup _ hsfx
  simp only [Bool.and_eq_true, decide_eq_true_eq, List.all_eq_true] at hsp
  obtain ⟨⟨hlook, hlet⟩, hl2⟩ := hsp
  have hsw : ∀ c ∈ sfx, isWhitespace c = false := fun c hc => letter_not_ws (hlet c hc)
  have hsa : isAscii sfx = true := by
    unfold isAscii; rw [List.all_eq_true]; intro c hc
    have := hlet c hc; simp only [decide_eq_true_eq]; omega
  have hsne : sfx ≠ [] := by intro e; rw [e] at hl2; simp at hl2
  have hpa : isAscii pfx = true := by rcases hp with ⟨h, _, _⟩ | ⟨h, _, _⟩ | ⟨h, _, _⟩ <;> subst h <;> decide
  have hpl : pfx.length = start := by rcases hp with ⟨h, h2, _⟩ | ⟨h, h2, _⟩ | ⟨h, h2, _⟩ <;> subst h <;> subst h2 <;> rfl
  generalize hT : pfx ++ 32 :: (x ++ 32 :: sfx) = T
  have ha : isAscii T = true := by
    rw [← hT]; simp only [isAscii_append, isAscii_cons, hpa, hxa, hsa, true_and, and_true]; omega
  have hlen : T.length = start + 1 + x.length + 1 + sfx.length := by rw [← hT, ← hpl]; simp; omega
  have hx1 : 1 ≤ x.length := by
    cases x with
    | nil => exact absurd rfl hxne
    | cons _ _ => simp
  -- trim T = T
  have hhead : ∀ c, T.head? = some c → isWhitespace c = false := by
    intro c hc
    rcases hp with ⟨h, _, _⟩ | ⟨h, _, _⟩ | ⟨h, _, _⟩ <;> subst h <;> rw [← hT] at hc <;> simp at hc <;> subst hc <;> decide
  have hlast : ∀ c, T.getLast? = some c → isWhitespace c = false := by
    intro c hc
    cases hs : sfx with
    | nil => exact absurd hs hsne
    | cons a r =>
      rw [← hT, hs] at hc
      have e1 : pfx ++ 32 :: (x ++ 32 :: a :: r) = (pfx ++ 32 :: (x ++ [32])) ++ a :: r := by simp
      rw [e1, getLast_append_cons, ← hs] at hc
      exact hsw c (List.mem_of_mem_getLast? hc)
  unfold epochFromStrWith
  rw [trim_eq_self T hhead hlast, byteLen_ascii T ha, if_neg (by omega)]
  -- the slices of the numeric branch
  have hnum : numericForm T start fmt dur =
      match lexF64 x with
      | some bits => if finiteBits bits = true then numericEpoch fmt ts bits (dur fmt bits) else .err
      | none => .err := by
    unfold numericForm
    obtain ⟨t3, ht3, htrim⟩ := suffixTs_text pfx x sfx ts hsfx hpa (by rw [hpl]; rcases hp with ⟨_, h, _⟩ | ⟨_, h, _⟩ | ⟨_, h, _⟩ <;> omega)
      hxa hxne hxw
    rw [hT] at ht3
    rw [ht3]
    simp only
    have hl5 := List.all_eq_true.mp ts_spellings_len _ hsfx
    simp only [decide_eq_true_eq] at hl5
    rw [byteLen_ascii T ha, htrim, byteLen_ascii sfx hsa, if_neg (by omega)]
    -- the numeral
    have e1 : T = pfx ++ (32 :: (x ++ [32])) ++ sfx := by rw [← hT]; simp
    have hsl := slice_mid pfx (32 :: (x ++ [32])) sfx (by rw [← e1]; exact ha)
    rw [← e1, hpl] at hsl
    have e2 : start + (32 :: (x ++ [32])).length = T.length - sfx.length := by rw [hlen]; simp; omega
    rw [e2] at hsl
    rw [hsl]
    simp only
    rw [trim_pad_both x hxne hxw]
    rfl
  rcases hp with ⟨h, h2, h3⟩ | ⟨h, h2, h3⟩ | ⟨h, h2, h3⟩
  · subst h h2 h3
    have : startsWith T [74, 68] = true := by rw [← hT]; simp [startsWith]
    rw [if_pos this]; exact hnum
  · subst h h2 h3
    have h1 : startsWith T [74, 68] = false := by rw [← hT]; simp [startsWith]
    have h2 : startsWith T [77, 74, 68] = true := by rw [← hT]; simp [startsWith]
    rw [h1, if_neg (by simp), if_pos h2]; exact hnum
  · subst h h2 h3
    have h1 : startsWith T [74, 68] = false := by rw [← hT]; simp [startsWith]
    have h2 : startsWith T [77, 74, 68] = false := by rw [← hT]; simp [startsWith]
    have h3 : startsWith T [83, 69, 67] = true := by rw [← hT]; simp [startsWith]
    rw [h1, h2, if_neg (by simp), if_neg (by simp), if_pos h3]; exact hnum

end Hifi.Txt
