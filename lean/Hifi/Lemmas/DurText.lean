import Hifi.Lemmas.Duration
import Hifi.Model.DurText
import Hifi.Spec.DurText
/-
  Helper lemmas for C11 / C13 (Duration::from_str): decomposition, Display = spec generator,
  tokenizer lemmas (digit runs, UNITS lookup), totality invariants, float-exactness of the
  components a rendering contains.
-/
namespace Hifi
open Spec Hifi.DurText
open Hifi.Spec.DurText

-- ------------------------------------------------------------------------------------------
-- decomposition

theorem isDecomp_unique (v d h m s ms us ns d' h' m' s' ms' us' ns' : Int)
    (h1 : IsDecomp v d h m s ms us ns) (h2 : IsDecomp v d' h' m' s' ms' us' ns') :
    d = d' ∧ h = h' ∧ m = m' ∧ s = s' ∧ ms = ms' ∧ us = us' ∧ ns = ns' := by
  unfold IsDecomp InRange weighted NS_PER_D NS_PER_H NS_PER_MIN NS_PER_S NS_PER_MS NS_PER_US at *
  omega

theorem decomp_isDecomp (v : Int) :
    match decomp v with
    | (d, h, m, s, ms, us, ns) => IsDecomp v d h m s ms us ns := by
  unfold decomp IsDecomp InRange weighted NS_PER_D NS_PER_H NS_PER_MIN NS_PER_S NS_PER_MS NS_PER_US
  simp only
  have : 0 ≤ mag v := by unfold mag; omega
  omega
theorem abs_val (d : Dur) (h : d.Canon) :
    ∃ r, Dur.abs d = .ok r ∧ r.Canon ∧ 0 ≤ r.c ∧ r.c * NPC + r.ns = mag d.val := by
  obtain ⟨r, hr, hc, hv⟩ := abs_spec d h
  refine ⟨r, hr, hc, ?_⟩
  have hrange := canon_range d h
  unfold DMIN DMAX at hrange
  simp only [NPCs_eq] at hrange
  rw [clampD_mid (by omega) (by omega)] at hv
  obtain ⟨c1, c2, c3, c4⟩ := hc
  unfold Dur.val valP at hv
  unfold mag Dur.val valP
  simp only [NPC_eq, NPCs_eq] at *
  constructor
  · omega
  · omega

theorem decompose_spec (d : Dur) (h : d.Canon) :
    Dur.decompose d = .ok (Dur.signum d, (decomp d.val).1, (decomp d.val).2.1, (decomp d.val).2.2.1,
      (decomp d.val).2.2.2.1, (decomp d.val).2.2.2.2.1, (decomp d.val).2.2.2.2.2.1, (decomp d.val).2.2.2.2.2.2) := by
  obtain ⟨r, hr, hc, h0, hv⟩ := abs_val d h
  unfold Dur.decompose
  rw [hr]
  simp only
  have ht : (if r.c < 0 then -r.c else r.c) * NPC + r.ns = mag d.val := by
    rw [if_neg (by omega)]; exact hv
  rw [ht]
  have hm : 0 ≤ mag d.val := by unfold mag; omega
  unfold decomp NS_PER_D NS_PER_H NS_PER_MIN NS_PER_S NS_PER_MS NS_PER_US
  simp only
  generalize mag d.val = t at *
  congr 1
  refine Prod.ext rfl (Prod.ext rfl (Prod.ext ?_ (Prod.ext ?_ (Prod.ext ?_ (Prod.ext ?_ (Prod.ext ?_ ?_))))))
  all_goals simp only [Gen.NANOSECONDS_PER_DAY, Gen.NANOSECONDS_PER_HOUR, Gen.NANOSECONDS_PER_MINUTE,
    Gen.NANOSECONDS_PER_SECOND, Gen.NANOSECONDS_PER_MILLISECOND, Gen.NANOSECONDS_PER_MICROSECOND]
  all_goals omega
theorem decDigitsF_eq_numeral : ∀ (fuel n : Nat), n ≤ fuel → decDigitsF fuel n = numeral n := by
  intro fuel
  induction fuel with
  | zero =>
    intro n hn
    have : n = 0 := by omega
    subst this
    rw [numeral]; rfl
  | succ k ih =>
    intro n hn
    rw [numeral]
    unfold decDigitsF
    by_cases h : n < 10
    · rw [if_pos h, if_pos h]
    · rw [if_neg h, if_neg h, ih (n / 10) (by omega)]

theorem decDigits_eq_numeral (n : Nat) : decDigits n = numeral n :=
  decDigitsF_eq_numeral n n (Nat.le_refl n)

/-- model loop = spec generator -/
theorem displayItems_eq : ∀ (its : List (Int × List Nat)) (sp : Bool),
    displayItems its sp =
      (if sp = true ∧ (its.filter (fun p => p.1 > 0)) ≠ [] then [32] else []) ++
        joinSp ((its.filter (fun p => p.1 > 0)).map item) := by
  intro its
  induction its with
  | nil => intro sp; simp [displayItems, joinSp]
  | cons it t ih =>
    intro sp
    unfold displayItems
    by_cases h : it.1 > 0
    · rw [if_pos h, ih true]
      have hf : (it :: t).filter (fun p => decide (p.1 > 0)) = it :: t.filter (fun p => decide (p.1 > 0)) := by
        simp [List.filter, h]
      rw [hf]
      simp only [List.map_cons, ne_eq, reduceCtorEq, not_false_eq_true, and_true, true_and]
      unfold item
      rw [decDigits_eq_numeral]
      cases hft : t.filter (fun p => decide (p.1 > 0)) with
      | nil => simp [joinSp]
      | cons y ys => simp [joinSp]
    · rw [if_neg h, ih sp]
      have hf : (it :: t).filter (fun p => decide (p.1 > 0)) = t.filter (fun p => decide (p.1 > 0)) := by
        simp [List.filter, h]
      rw [hf]

theorem totalNs_zero_iff (d : Dur) (h : d.Canon) : Dur.totalNs d = 0 ↔ d.val = 0 := by
  obtain ⟨c1, c2, c3, c4⟩ := h
  unfold Dur.totalNs Dur.val valP
  simp only [NPC_eq, NPCs_eq] at *
  constructor <;> intro hh <;> split at * <;> (try split at *) <;> omega

theorem signum_neg_iff (d : Dur) (h : d.Canon) : Dur.signum d = -1 ↔ d.val < 0 := by
  obtain ⟨c1, c2, c3, c4⟩ := h
  unfold Dur.signum Dur.val valP
  simp only [NPC_eq, NPCs_eq] at *
  constructor <;> intro hh <;> split at * <;> (try split at *) <;> omega

theorem filter_pos_ne (l : List (Int × List Nat)) (h : ∀ p ∈ l, 0 ≤ p.1) :
    l.filter (fun p => decide (p.1 > 0)) = l.filter (fun p => decide (p.1 ≠ 0)) := by
  apply List.filter_congr
  intro p hp
  have := h p hp
  simp only [decide_eq_decide]
  omega

theorem display_spec (d : Dur) (h : d.Canon) : display d = .ok (renderValue d.val) := by
  unfold display
  by_cases hz : Dur.totalNs d = 0
  · rw [if_pos hz]
    rw [(totalNs_zero_iff d h).1 hz]
    decide
  · rw [if_neg hz, decompose_spec d h]
    have hv : d.val ≠ 0 := fun hh => hz ((totalNs_zero_iff d h).2 hh)
    have hdec := decomp_isDecomp d.val
    unfold renderValue
    generalize decomp d.val = cs at *
    obtain ⟨dd, hh, mm, ss, ms, us, ns⟩ := cs
    simp only at hdec ⊢
    obtain ⟨⟨r1, r2, r3, r4, r5, r6, r7⟩, hsum⟩ := hdec
    unfold render
    have hnz : ¬ (dd = 0 ∧ hh = 0 ∧ mm = 0 ∧ ss = 0 ∧ ms = 0 ∧ us = 0 ∧ ns = 0) := by
      intro ⟨a1, a2, a3, a4, a5, a6, a7⟩
      subst a1 a2 a3 a4 a5 a6 a7
      unfold weighted mag at hsum
      split at hsum <;> omega
    rw [if_neg hnz]
    congr 1
    have hsg : (if Dur.signum d = -1 then [45] else ([] : List Nat)) = (if decide (d.val < 0) = true then [45] else []) := by
      by_cases hneg : d.val < 0
      · rw [if_pos ((signum_neg_iff d h).2 hneg)]; simp [hneg]
      · rw [if_neg (fun hh => hneg ((signum_neg_iff d h).1 hh))]; simp [hneg]
    rw [hsg]
    congr 1
    rw [displayItems_eq]
    simp only [Bool.false_eq_true, false_and, if_false, List.nil_append]
    congr 1
    rw [filter_pos_ne _ (by
      intro p hp
      simp only [List.mem_cons, List.not_mem_nil, or_false] at hp
      rcases hp with hp | hp | hp | hp | hp | hp | hp <;> subst hp <;> simp only <;> omega)]
    unfold unitNames nameDays nameDay nameH nameMin nameS nameMs nameUs nameNs
    simp only [List.zip_cons_cons, List.zip_nil_right]
    by_cases hd0 : dd = 0
    · subst hd0
      simp [List.filter]
    · have : (if dd > 1 then [100, 97, 121, 115] else [100, 97, 121]) =
          (if dd = 1 then List.map Char.toNat "day".toList else List.map Char.toNat "days".toList) := by
        by_cases hd1 : dd = 1
        · subst hd1; decide
        · rw [if_pos (by omega), if_neg hd1]; decide
      rw [this]

-- ------------------------------------------------------------------------------------------
-- UTF-8, slices, the loop invariant of parse_duration (totality)

theorem utf8_length (c : Nat) : (utf8 c).length = utf8Size c := by
  unfold utf8 utf8Size
  split <;> (try split) <;> (try split) <;> rfl

theorem utf8_head (c : Nat) : ∃ b t, utf8 c = b :: t ∧ isCont b = false := by
  unfold utf8
  split
  · exact ⟨c, [], rfl, by unfold isCont; simp only [decide_eq_false_iff_not]; omega⟩
  · split
    · exact ⟨_, _, rfl, by unfold isCont; simp only [decide_eq_false_iff_not]; omega⟩
    · split
      · exact ⟨_, _, rfl, by unfold isCont; simp only [decide_eq_false_iff_not]; omega⟩
      · exact ⟨_, _, rfl, by unfold isCont; simp only [decide_eq_false_iff_not]; omega⟩

theorem utf8s_append (a b : List Nat) : utf8s (a ++ b) = utf8s a ++ utf8s b := by
  induction a with
  | nil => rfl
  | cons x xs ih => simp only [List.cons_append, utf8s, ih, List.append_assoc]

theorem utf8s_head (cs : List Nat) (h : cs ≠ []) : ∃ b t, utf8s cs = b :: t ∧ isCont b = false := by
  cases cs with
  | nil => exact absurd rfl h
  | cons c t =>
    obtain ⟨b, r, hb, hc⟩ := utf8_head c
    exact ⟨b, r ++ utf8s t, by simp only [utf8s, hb, List.cons_append], hc⟩

theorem boundary_prefix (pre cs : List Nat) :
    isBoundary (utf8s pre ++ utf8s cs) (utf8s pre).length = true := by
  unfold isBoundary
  by_cases h0 : (utf8s pre).length = 0
  · rw [if_pos h0]
  · rw [if_neg h0]
    by_cases h1 : (utf8s pre).length = (utf8s pre ++ utf8s cs).length
    · rw [if_pos h1]
    · rw [if_neg h1]
      have hlen : (utf8s pre ++ utf8s cs).length = (utf8s pre).length + (utf8s cs).length := List.length_append
      rw [if_neg (by omega)]
      have hne : cs ≠ [] := by
        intro hh; subst hh; simp only [utf8s, List.append_nil, not_true_eq_false] at h1
      obtain ⟨b, t, hb, hc⟩ := utf8s_head cs hne
      rw [hb]
      simp [List.getD, hc]

theorem sliceB_ok (bs : List Nat) (a b : Nat) (h1 : a ≤ b) (h2 : b ≤ bs.length)
    (h3 : isBoundary bs a = true) (h4 : isBoundary bs b = true) :
    sliceB bs a b = .ok ((bs.drop a).take (b - a)) := by
  unfold sliceB; rw [if_pos ⟨h1, h2, h3, h4⟩]

theorem boundary_len (bs : List Nat) : isBoundary bs bs.length = true := by
  unfold isBoundary; split <;> simp

theorem units_pos_lt7 : ∀ e ∈ Gen.DUR_UNITS, e.2 < 7 := by decide

theorem lookupUnit_lt7 (bs : List Nat) (start : Nat) : ∀ (t : List (List Nat × Nat)), (∀ e ∈ t, e.2 < 7) →
    ∀ pos, lookupUnit bs start t = some pos → pos < 7 := by
  intro t
  induction t with
  | nil => intro _ pos h; simp [lookupUnit] at h
  | cons e t ih =>
    intro ht pos h
    unfold lookupUnit at h
    split at h
    · have := ht e (List.mem_cons_self)
      simp only [Option.some.injEq] at h; omega
    · exact ih (fun e' he' => ht e' (List.mem_cons_of_mem _ he')) pos h

theorem canon_ZERO : Dur.ZERO.Canon := by unfold Dur.Canon Dur.ZERO; simp only [NPC_eq]; decide
theorem canon_MAX : Dur.MAX.Canon := by unfold Dur.Canon Dur.MAX; simp only [NPC_eq]; decide
theorem canon_MIN : Dur.MIN.Canon := by unfold Dur.Canon Dur.MIN; simp only [NPC_eq]; decide

theorem fromTruncated_canon (n : Int) (h : -9223372036854775808 < n ∧ n < 9223372036854775808) :
    (Dur.fromTruncated n).Canon :=
  (fromTruncated_spec n (by unfold fitsI64; simp only [decide_eq_true_eq]; omega)).1

theorem dyTrunc_lt (pm : Nat) (pe : Int) (h : dyGe pm pe 9223372036854775808 0 = false) :
    dyTrunc pm pe < 9223372036854775808 := by
  unfold dyGe at h
  unfold dyTrunc
  by_cases he : pe ≥ 0
  · rw [if_pos he] at h ⊢
    simp only [Int.sub_zero, decide_eq_false_iff_not] at h
    omega
  · rw [if_neg he] at h ⊢
    simp only [Int.zero_sub, decide_eq_false_iff_not] at h
    have hpos : 0 < 2 ^ (-pe).toNat := Nat.pow_pos (by decide)
    rw [Nat.div_lt_iff_lt_mul hpos]
    omega

theorem unitMulFin_canon (f : Nat) (neg : Bool) (m : Nat) (e : Int) : (unitMulFin f neg m e).Canon := by
  unfold unitMulFin
  split
  · exact fromTruncated_canon 0 (by omega)
  · split
    · exact canon_ZERO
    · split
      · split
        · exact canon_MIN
        · exact canon_MAX
      · split
        · split
          · exact (fromTotal_spec _).1
          · exact (fromTotal_spec _).1
        · rename_i pm pe _
          split
          · rename_i hlt
            have := dyTrunc_lt pm pe hlt
            apply fromTruncated_canon
            split <;> omega
          · exact (fromTotal_spec _).1

theorem unitMulF64_canon (f : Int) (q : F64) : (unitMulF64 f q).Canon := by
  unfold unitMulF64
  split
  · split
    · rename_i z hz
      split
      · rename_i hlt
        apply fromTruncated_canon
        omega
      · exact (fromTotal_spec _).1
    · exact unitMulFin_canon _ _ _ _
  · exact unitMulFin_canon _ _ _ _
  · split
    · exact canon_MIN
    · exact canon_MAX
  · exact (fromTotal_spec _).1

/-- `Numeral::times` always returns a canonical duration -/
theorem numTimes_canon (f : Int) (v : Num) : (numTimes f v).Canon := by
  unfold numTimes
  split
  · exact (fromTotal_spec _).1
  · exact unitMulF64_canon _ _

/-- the `decomposed` array: seven canonical durations -/
def DecOK (dec : List Dur) : Prop := dec.length = 7 ∧ ∀ d ∈ dec, d.Canon

theorem decOK_set (dec : List Dur) (k : Nat) (x : Dur) (h : DecOK dec) (hx : x.Canon) : DecOK (dec.set k x) := by
  refine ⟨by simp only [List.length_set]; exact h.1, ?_⟩
  intro d hd
  rcases List.mem_or_eq_of_mem_set hd with h1 | h1
  · exact h.2 d h1
  · rw [h1]; exact hx

theorem decOK_init : DecOK PSt.init.dec := by
  refine ⟨rfl, ?_⟩
  intro d hd
  simp only [PSt.init, List.mem_cons, List.not_mem_nil, or_false, or_self] at hd
  rw [hd]; exact canon_ZERO

/-- loop invariant of `parse_duration`: `prev_idx ≤ idx`, both on char boundaries, seven canonical slots -/
def PInv (bs : List Nat) (idx : Nat) (st : PSt) : Prop :=
  st.prev ≤ idx ∧ isBoundary bs st.prev = true ∧ DecOK st.dec

theorem pdStep_inv (bs : List Nat) (idx c : Nat) (st : PSt)
    (hidx : idx ≤ bs.length) (hb : isBoundary bs idx = true) (hinv : PInv bs idx st) :
    pdStep bs idx c st ≠ .panic ∧ ∀ st', pdStep bs idx c st = .ok st' → PInv bs idx st' := by
  obtain ⟨h1, h2, h3⟩ := hinv
  unfold pdStep
  by_cases hc : c = 32
  · rw [if_pos hc]
    by_cases hs : st.seeking = true
    · rw [if_pos hs]
      by_cases hp : st.pcws = false
      · rw [if_pos hp]
        by_cases he : st.prev = idx
        · rw [if_pos he]; exact ⟨by simp, by intro st' h; cases h⟩
        · rw [if_neg he, sliceB_ok bs st.prev idx h1 hidx h2 hb]
          simp only
          cases parseNumeral (List.take (idx - st.prev) (List.drop st.prev bs)) with
          | none => exact ⟨by simp, by intro st' h; cases h⟩
          | some v =>
            refine ⟨by simp, ?_⟩
            intro st' h
            simp only [Res.ok.injEq] at h
            subst h
            exact ⟨h1, h2, h3⟩
      · rw [if_neg hp]
        refine ⟨by simp, ?_⟩
        intro st' h
        simp only [Res.ok.injEq] at h
        subst h
        exact ⟨h1, h2, h3⟩
    · rw [if_neg hs, sliceB_ok bs idx bs.length hidx (Nat.le_refl _) hb (boundary_len bs)]
      simp only
      cases hl : lookupUnit bs st.prev Gen.DUR_UNITS with
      | none => exact ⟨by simp, by intro st' h; cases h⟩
      | some pos =>
        simp only
        have hpos := lookupUnit_lt7 bs st.prev _ units_pos_lt7 pos hl
        unfold setDec
        rw [if_pos (by have := h3.1; omega)]
        simp only
        refine ⟨by simp, ?_⟩
        intro st' h
        simp only [Res.ok.injEq] at h
        subst h
        exact ⟨Nat.le_refl _, hb, decOK_set _ _ _ h3 (numTimes_canon _ _)⟩
  · rw [if_neg hc]
    refine ⟨by simp, ?_⟩
    intro st' h
    simp only [Res.ok.injEq] at h
    subst h
    refine ⟨?_, ?_, h3⟩
    · simp only; split <;> omega
    · simp only; split
      · exact hb
      · exact h2

theorem pdLoop_inv (bs : List Nat) : ∀ (cs pre : List Nat) (st : PSt),
    bs = utf8s pre ++ utf8s cs → PInv bs (utf8s pre).length st →
    pdLoop bs cs (utf8s pre).length st ≠ .panic ∧
      ∀ st', pdLoop bs cs (utf8s pre).length st = .ok st' → DecOK st'.dec := by
  intro cs
  induction cs with
  | nil =>
    intro pre st _ hinv
    unfold pdLoop
    exact ⟨by simp, by intro st' h; simp only [Res.ok.injEq] at h; subst h; exact hinv.2.2⟩
  | cons c cs ih =>
    intro pre st hbs hinv
    unfold pdLoop
    have hidx : (utf8s pre).length ≤ bs.length := by rw [hbs]; simp
    have hb : isBoundary bs (utf8s pre).length = true := by rw [hbs]; exact boundary_prefix pre (c :: cs)
    obtain ⟨hnp, hok⟩ := pdStep_inv bs (utf8s pre).length c st hidx hb hinv
    cases hstep : pdStep bs (utf8s pre).length c st with
    | panic => exact absurd hstep hnp
    | err => exact ⟨by simp, by intro st' h; cases h⟩
    | ok st1 =>
      simp only
      have hlen : (utf8s pre).length + utf8Size c = (utf8s (pre ++ [c])).length := by
        rw [utf8s_append]; simp [utf8s, utf8_length]
      rw [hlen]
      have hbs' : bs = utf8s (pre ++ [c]) ++ utf8s cs := by
        rw [hbs, utf8s_append]; simp [utf8s]
      obtain ⟨i1, i2, i3⟩ := hok st1 hstep
      exact ih (pre ++ [c]) st1 hbs' ⟨by rw [← hlen]; omega, i2, i3⟩

theorem sumDec_total (dec : List Dur) (h : DecOK dec) : ∃ r, sumDec dec = .ok r ∧ r.Canon := by
  obtain ⟨hl, hc⟩ := h
  match dec, hl with
  | [d, hh, m, s, ms, us, ns], _ =>
    unfold sumDec
    refine ⟨_, rfl, ?_⟩
    have c : ∀ x ∈ [d, hh, m, s, ms, us, ns], x.Canon := hc
    exact (add_spec _ _ (add_spec _ _ (add_spec _ _ (add_spec _ _ (add_spec _ _ (add_spec _ _
      (c d (by simp)) (c hh (by simp))).1 (c m (by simp))).1 (c s (by simp))).1 (c ms (by simp))).1
      (c us (by simp))).1 (c ns (by simp))).1

theorem pdFinish_total (bs : List Nat) (st : PSt) (h : DecOK st.dec) :
    pdFinish bs st = .err ∨ ∃ r, pdFinish bs st = .ok r ∧ r.Canon := by
  unfold pdFinish
  split
  · cases hl : lookupUnit bs st.prev Gen.DUR_UNITS with
    | none => left; rfl
    | some pos =>
      simp only
      have hpos := lookupUnit_lt7 bs st.prev _ units_pos_lt7 pos hl
      unfold setDec
      rw [if_pos (by have := h.1; omega)]
      simp only
      right
      exact sumDec_total _ (decOK_set _ _ _ h (numTimes_canon _ _))
  · split
    · left; rfl
    · right; exact sumDec_total _ h

theorem parseDuration_total (cs : List Nat) :
    parseDuration cs = .err ∨ ∃ r, parseDuration cs = .ok r ∧ r.Canon := by
  unfold parseDuration
  have hinv : PInv (utf8s cs) (utf8s ([] : List Nat)).length PSt.init := by
    refine ⟨?_, ?_, decOK_init⟩
    · simp [PSt.init, utf8s]
    · simp [PSt.init, isBoundary]
  obtain ⟨hnp, hok⟩ := pdLoop_inv (utf8s cs) cs [] PSt.init (by simp [utf8s]) hinv
  simp only [utf8s, List.length_nil] at hnp hok
  cases hl : pdLoop (utf8s cs) cs 0 PSt.init with
  | panic => exact absurd hl hnp
  | err => left; rfl
  | ok st => simp only; exact pdFinish_total _ st (hok st hl)

theorem boundary_ascii (bs : List Nat) (h : ∀ b ∈ bs, b < 128) (i : Nat) (hi : i ≤ bs.length) :
    isBoundary bs i = true := by
  unfold isBoundary
  split
  · rfl
  · split
    · rfl
    · rw [if_neg (by omega)]
      have hlt : i < bs.length := by omega
      have : bs.getD i 0 < 128 := by
        have e : bs.getD i 0 = bs[i] := by simp [List.getD, hlt]
        rw [e]
        exact h _ (List.getElem_mem hlt)
      unfold isCont
      simp only [Bool.not_eq_eq_eq_not, Bool.not_true, decide_eq_false_iff_not]
      omega

theorem parseI64Digits_fits (neg : Bool) (ds : List Nat) (z : Int) (h : parseI64Digits neg ds = some z) :
    fitsI64 z = true := by
  unfold parseI64Digits at h
  split at h
  · cases h
  · split at h
    · cases h
    · split at h
      · split at h
        · simp only [Option.some.injEq] at h; subst h; assumption
        · cases h
      · split at h
        · simp only [Option.some.injEq] at h; subst h; assumption
        · cases h

theorem parseI64_fits (bs : List Nat) (z : Int) (h : parseI64 bs = some z) : fitsI64 z = true := by
  unfold parseI64 at h
  split at h
  · cases h
  · split at h
    · exact parseI64Digits_fits _ _ _ h
    · split at h
      · exact parseI64Digits_fits _ _ _ h
      · exact parseI64Digits_fits _ _ _ h

theorem mem_unitFactors_h : Gen.NANOSECONDS_PER_HOUR ∈ unitFactors := by decide
theorem mem_unitFactors_min : Gen.NANOSECONDS_PER_MINUTE ∈ unitFactors := by decide
theorem mem_unitFactors_s : Gen.NANOSECONDS_PER_SECOND ∈ unitFactors := by decide

theorem offsetDur_canon (h m s : Int) (hh : fitsI64 h = true) (hm : fitsI64 m = true) (hs : fitsI64 s = true) :
    (offsetDur h m s).Canon := by
  unfold offsetDur
  exact (add_spec _ _ (add_spec _ _ (unitMulI64_spec _ _ mem_unitFactors_h hh).1
    (unitMulI64_spec _ _ mem_unitFactors_min hm).1).1 (unitMulI64_spec _ _ mem_unitFactors_s hs).1).1

theorem parseOffsetCore_total (bs : List Nat) (colon : Nat) (hasc : ∀ b ∈ bs, b < 128) (hlen : 3 ≤ bs.length) :
    parseOffsetCore bs colon = .err ∨ ∃ r, parseOffsetCore bs colon = .ok r ∧ r.Canon := by
  unfold parseOffsetCore
  rw [sliceB_ok bs 1 3 (by omega) hlen (boundary_ascii bs hasc 1 (by omega)) (boundary_ascii bs hasc 3 hlen)]
  simp only
  have z0 : fitsI64 0 = true := by decide
  cases hh : parseI64 (List.take (3 - 1) (List.drop 1 bs)) with
  | none => left; rfl
  | some h =>
    have fh := parseI64_fits _ _ hh
    simp only
    cases hm : getB bs (3 + colon) (5 + colon) with
    | none => right; exact ⟨_, rfl, offsetDur_canon _ _ _ fh z0 z0⟩
    | some ms =>
      simp only
      cases hmm : parseI64 ms with
      | none => left; rfl
      | some m =>
        have fm := parseI64_fits _ _ hmm
        simp only
        cases hs : getFromB bs (5 + 2 * colon) with
        | none => right; exact ⟨_, rfl, offsetDur_canon _ _ _ fh fm z0⟩
        | some ss =>
          simp only
          split
          · right; exact ⟨_, rfl, offsetDur_canon _ _ _ fh fm z0⟩
          · cases hss : parseI64 ss with
            | none => left; rfl
            | some s => right; exact ⟨_, rfl, offsetDur_canon _ _ _ fh fm (parseI64_fits _ _ hss)⟩

theorem parseOffset_total (bs : List Nat) :
    parseOffset bs = .err ∨ ∃ r, parseOffset bs = .ok r ∧ r.Canon := by
  unfold parseOffset
  split
  · left; rfl
  · rename_i hall
    have hasc : ∀ b ∈ bs, b < 128 := by
      intro b hb
      have : bs.all (fun b => decide (b < 128)) = true := by
        cases hx : bs.all (fun b => decide (b < 128)) with
        | true => rfl
        | false => exact absurd hx hall
      rw [List.all_eq_true] at this
      simpa using this b hb
    split
    · exact parseOffsetCore_total bs 0 hasc (by omega)
    · split
      · exact parseOffsetCore_total bs 1 hasc (by omega)
      · left; rfl

theorem neg_total (d : Dur) (h : d.Canon) : ∃ r, Dur.neg d = .ok r ∧ r.Canon := by
  obtain ⟨r, h1, h2, _⟩ := neg_spec d h
  exact ⟨r, h1, h2⟩

/-- `Duration::from_str` after `trim`: a canonical duration or an error, never a panic -/
theorem fromStrCore_total (s : List Nat) :
    fromStrCore s = .err ∨ ∃ r, fromStrCore s = .ok r ∧ r.Canon := by
  unfold fromStrCore
  split
  · left; rfl
  · rename_i c cs
    split
    · rename_i hc
      rcases parseOffset_total (utf8s (c :: cs)) with ho | ⟨r, ho, hr⟩
      · rw [ho]
        simp only
        have hb : isBoundary (utf8s (c :: cs)) 1 = true := by
          have := boundary_prefix [c] cs
          subst hc
          simpa [utf8s, utf8] using this
        have hl : 1 ≤ (utf8s (c :: cs)).length := by subst hc; simp [utf8s, utf8]
        rw [sliceB_ok _ 1 _ hl (Nat.le_refl _) hb (boundary_len _)]
        simp only
        rcases parseDuration_total cs with hp | ⟨r, hp, hr⟩
        · rw [hp]; left; rfl
        · rw [hp]; right; unfold negRes; simp only; exact neg_total r hr
      · rw [ho]; simp only; right; exact neg_total r hr
    · split
      · rcases parseOffset_total (utf8s (c :: cs)) with ho | ⟨r, ho, hr⟩
        · rw [ho]; simp only; exact parseDuration_total _
        · rw [ho]; simp only; right; exact ⟨r, rfl, hr⟩
      · exact parseDuration_total _

theorem parseDurationIdx_total (s : List Nat) :
    parseDurationIdx s = .err ∨ ∃ r, parseDurationIdx s = .ok r ∧ r.Canon :=
  fromStrCore_total (trim s)

-- ------------------------------------------------------------------------------------------
-- the UNITS table

/-- all pairs (earlier entry, later entry) of a table where the earlier spelling is a byte-prefix of
    the later one: the later entry can never be selected by the first-match loop -/
def prefixPairs : List (List Nat × Nat) → List ((List Nat × Nat) × (List Nat × Nat))
  | [] => []
  | e :: t => ((t.filter (fun x => e.1.isPrefixOf x.1)).map (fun x => (e, x))) ++ prefixPairs t

-- ------------------------------------------------------------------------------------------
-- digit runs, slices of the text

theorem valDigits_append (a b : List Nat) : ∀ acc, valDigits (a ++ b) acc = valDigits b (valDigits a acc) := by
  induction a with
  | nil => intro acc; rfl
  | cons x xs ih => intro acc; simp only [List.cons_append, valDigits, ih]

theorem allDigits_append (a b : List Nat) : allDigits (a ++ b) = (allDigits a && allDigits b) := by
  induction a with
  | nil => simp [allDigits]
  | cons x xs ih => simp only [List.cons_append, allDigits, ih, Bool.and_assoc]

theorem decDigitsF_spec : ∀ (fuel n : Nat), n ≤ fuel →
    allDigits (decDigitsF fuel n) = true ∧ valDigits (decDigitsF fuel n) 0 = n ∧ decDigitsF fuel n ≠ [] := by
  intro fuel
  induction fuel with
  | zero =>
    intro n hn
    have : n = 0 := by omega
    subst this
    decide
  | succ k ih =>
    intro n hn
    unfold decDigitsF
    by_cases h : n < 10
    · rw [if_pos h]
      refine ⟨?_, ?_, by simp⟩
      · simp only [allDigits, isDigit, Bool.and_true, decide_eq_true_eq]; omega
      · simp only [valDigits]; omega
    · rw [if_neg h]
      obtain ⟨i1, i2, i3⟩ := ih (n / 10) (by omega)
      refine ⟨?_, ?_, by simp⟩
      · rw [allDigits_append, i1]
        simp only [allDigits, isDigit, Bool.and_true, Bool.true_and, decide_eq_true_eq]; omega
      · rw [valDigits_append, i2]
        simp only [valDigits]; omega

theorem decDigits_spec (n : Nat) :
    allDigits (decDigits n) = true ∧ valDigits (decDigits n) 0 = n ∧ decDigits n ≠ [] :=
  decDigitsF_spec n n (Nat.le_refl n)

theorem allDigits_mem (l : List Nat) (h : allDigits l = true) : ∀ c ∈ l, 48 ≤ c ∧ c ≤ 57 := by
  induction l with
  | nil => intro c hc; cases hc
  | cons x xs ih =>
    simp only [allDigits, Bool.and_eq_true, isDigit, decide_eq_true_eq] at h
    intro c hc
    simp only [List.mem_cons] at hc
    rcases hc with hc | hc
    · subst hc; exact h.1
    · exact ih h.2 c hc

theorem utf8s_ascii (l : List Nat) (h : ∀ c ∈ l, c < 128) : utf8s l = l := by
  induction l with
  | nil => rfl
  | cons x xs ih =>
    have hx := h x (List.mem_cons_self)
    simp only [utf8s, utf8, if_pos hx, ih (fun c hc => h c (List.mem_cons_of_mem _ hc))]
    rfl

theorem utf8s_digits (l : List Nat) (h : allDigits l = true) : utf8s l = l :=
  utf8s_ascii l (fun c hc => by have := allDigits_mem l h c hc; omega)

theorem parseF64_digits (ds : List Nat) (h1 : ds ≠ []) (h2 : allDigits ds = true)
    (h3 : valDigits ds 0 < 9007199254740992) : parseF64 ds = some (.int (valDigits ds 0)) := by
  unfold parseF64; rw [if_pos ⟨h1, h2, h3⟩]

/-- a plain digit string that fits an i128 is read as that integer (the exact path of `Numeral::parse`) -/
theorem parseNumeral_digits (ds : List Nat) (h1 : ds ≠ []) (h2 : allDigits ds = true)
    (h3 : valDigits ds 0 ≤ 170141183460469231731687303715884105727) :
    parseNumeral ds = some (.int (valDigits ds 0)) := by
  have hp : parseI128 ds = some (valDigits ds 0 : Int) := by
    cases ds with
    | nil => exact absurd rfl h1
    | cons c t =>
      have hc := allDigits_mem _ h2 c List.mem_cons_self
      unfold parseI128
      simp only
      rw [if_neg (by omega), if_neg (by omega)]
      unfold parseI128Digits
      rw [if_neg (by simp), if_neg (by rw [h2]; simp)]
      simp only [Bool.false_eq_true, if_false]
      have hf : fitsI128 ((valDigits (c :: t) 0 : Nat) : Int) = true := by
        unfold fitsI128; simp only [decide_eq_true_eq]; omega
      rw [if_pos hf]
  unfold parseNumeral
  rw [hp]

/-- the slice between two prefixes of the text is the UTF-8 of the characters in between -/
theorem sliceB_mid (pre mid post : List Nat) :
    sliceB (utf8s (pre ++ mid ++ post)) (utf8s pre).length (utf8s (pre ++ mid)).length = .ok (utf8s mid) := by
  have e1 : utf8s (pre ++ mid ++ post) = utf8s pre ++ utf8s (mid ++ post) := by
    rw [List.append_assoc, utf8s_append]
  have e2 : utf8s (pre ++ mid ++ post) = utf8s (pre ++ mid) ++ utf8s post := by rw [utf8s_append]
  have b1 : isBoundary (utf8s (pre ++ mid ++ post)) (utf8s pre).length = true := by rw [e1]; exact boundary_prefix _ _
  have b2 : isBoundary (utf8s (pre ++ mid ++ post)) (utf8s (pre ++ mid)).length = true := by rw [e2]; exact boundary_prefix _ _
  have hl : (utf8s (pre ++ mid)).length = (utf8s pre).length + (utf8s mid).length := by
    rw [utf8s_append, List.length_append]
  rw [sliceB_ok _ _ _ (by omega) (by rw [e2]; simp) b1 b2]
  congr 1
  rw [hl, Nat.add_sub_cancel_left]
  rw [utf8s_append, utf8s_append, List.append_assoc, List.drop_left, List.take_left]

-- ------------------------------------------------------------------------------------------
-- the loop of parse_duration on words

theorem pdStep_nonspace (bs : List Nat) (idx c : Nat) (st : PSt) (hc : c ≠ 32) :
    pdStep bs idx c st = .ok ⟨if st.pcws = true then idx else st.prev, st.seeking, st.latest, false, st.dec⟩ := by
  unfold pdStep; rw [if_neg hc]

theorem pdLoop_cons_ok (bs : List Nat) (c : Nat) (cs : List Nat) (idx : Nat) (st st' : PSt)
    (h : pdStep bs idx c st = .ok st') : pdLoop bs (c :: cs) idx st = pdLoop bs cs (idx + utf8Size c) st' := by
  rw [pdLoop, h]

theorem pdLoop_cons_err (bs : List Nat) (c : Nat) (cs : List Nat) (idx : Nat) (st : PSt)
    (h : pdStep bs idx c st = .err) : pdLoop bs (c :: cs) idx st = .err := by
  rw [pdLoop, h]

/-- a run of non-space characters after a non-space character changes nothing -/
theorem pdLoop_run (bs : List Nat) : ∀ (w cs : List Nat) (idx : Nat) (st : PSt),
    (∀ c ∈ w, c ≠ 32) → st.pcws = false →
    pdLoop bs (w ++ cs) idx st = pdLoop bs cs (idx + (utf8s w).length) st := by
  intro w
  induction w with
  | nil => intro cs idx st _ _; simp [utf8s]
  | cons c w ih =>
    intro cs idx st hw hp
    have hc := hw c (List.mem_cons_self)
    have hst : pdStep bs idx c st = .ok st := by
      rw [pdStep_nonspace bs idx c st hc]
      cases st with | mk p s l w d =>
      simp only at hp
      subst hp
      simp
    rw [List.cons_append, pdLoop_cons_ok bs c _ idx st st hst,
      ih cs _ st (fun c' hc' => hw c' (List.mem_cons_of_mem _ hc')) hp]
    congr 1
    simp only [utf8s, List.length_append, utf8_length]
    omega

/-- a word (non-empty run of non-space characters): `prev_idx` moves to its start if it follows a space -/
theorem pdLoop_word (bs : List Nat) (w cs : List Nat) (idx : Nat) (st : PSt)
    (hne : w ≠ []) (hw : ∀ c ∈ w, c ≠ 32) :
    pdLoop bs (w ++ cs) idx st =
      pdLoop bs cs (idx + (utf8s w).length)
        ⟨if st.pcws = true then idx else st.prev, st.seeking, st.latest, false, st.dec⟩ := by
  cases w with
  | nil => exact absurd rfl hne
  | cons c w =>
    have hc := hw c (List.mem_cons_self)
    rw [List.cons_append, pdLoop_cons_ok bs c _ idx st _ (pdStep_nonspace bs idx c st hc),
      pdLoop_run bs w cs _ _ (fun c' hc' => hw c' (List.mem_cons_of_mem _ hc')) rfl]
    congr 1
    simp only [utf8s, List.length_append, utf8_length]
    omega

-- ------------------------------------------------------------------------------------------
-- the UNITS lookup on the text of a rendering

theorem cmpAt_prefix (pre X u : List Nat) : cmpAt (pre ++ X) pre.length u = u.isPrefixOf X := by
  unfold cmpAt
  simp only [List.length_append, List.drop_left]
  by_cases h : pre.length + u.length > pre.length + X.length
  · rw [if_pos h]
    symm
    rw [Bool.eq_false_iff]
    intro hp
    rw [List.isPrefixOf_iff_prefix] at hp
    have := hp.length_le
    omega
  · rw [if_neg h]
    by_cases hp : u.isPrefixOf X = true
    · rw [hp]
      rw [List.isPrefixOf_iff_prefix, List.prefix_iff_eq_take] at hp
      simp only [decide_eq_true_eq]
      exact hp.symm
    · have hp' : u.isPrefixOf X = false := by
        cases hx : u.isPrefixOf X with
        | true => exact absurd hx hp
        | false => rfl
      rw [hp']
      simp only [decide_eq_false_iff_not]
      intro he
      apply hp
      rw [List.isPrefixOf_iff_prefix, List.prefix_iff_eq_take]
      exact he.symm

/-- first-match lookup as a function of the text at the unit's position -/
def lookupPrefix (X : List Nat) : List (List Nat × Nat) → Option Nat
  | [] => none
  | e :: t => if e.1.isPrefixOf X = true then some e.2 else lookupPrefix X t

theorem lookupUnit_prefix (pre X : List Nat) : ∀ t, lookupUnit (pre ++ X) pre.length t = lookupPrefix X t := by
  intro t
  induction t with
  | nil => rfl
  | cons e t ih => simp only [lookupUnit, lookupPrefix, cmpAt_prefix, ih]

/-- what may follow a unit name in a rendering: the end of the text or a space -/
def TailOK (rest : List Nat) : Prop := rest = [] ∨ ∃ r, rest = 32 :: r

/-- slot selected by a unit name standing alone -/
def slotOf (name : List Nat) : Nat := (lookupPrefix (utf8s name) Gen.DUR_UNITS).getD 0

/-- a unit name the round trip can rely on: non-empty, no space inside, and the first-match loop
    finds the same slot whatever follows it (end of text or a space) -/
def GoodName (name : List Nat) : Prop :=
  name ≠ [] ∧ (∀ c ∈ name, c ≠ 32) ∧ slotOf name < 7 ∧
  ∀ rest, TailOK rest → lookupPrefix (utf8s name ++ rest) Gen.DUR_UNITS = some (slotOf name)

theorem goodName_of (name : List Nat) (k : Nat) (h1 : name ≠ []) (h2 : ∀ c ∈ name, c ≠ 32) (hk : k < 7)
    (h3 : lookupPrefix (utf8s name) Gen.DUR_UNITS = some k)
    (h4 : ∀ r, lookupPrefix (utf8s name ++ 32 :: r) Gen.DUR_UNITS = some k) : GoodName name := by
  have hs : slotOf name = k := by unfold slotOf; rw [h3]; rfl
  refine ⟨h1, h2, by omega, ?_⟩
  intro rest hr
  rw [hs]
  rcases hr with hr | ⟨r, hr⟩
  · subst hr; rw [List.append_nil]; exact h3
  · subst hr; exact h4 r

theorem good_days : GoodName nameDays := goodName_of _ 0 (by decide) (by decide) (by decide) (by decide) (by intro r; rfl)
theorem good_day : GoodName nameDay := goodName_of _ 0 (by decide) (by decide) (by decide) (by decide) (by intro r; rfl)
theorem good_h : GoodName nameH := goodName_of _ 1 (by decide) (by decide) (by decide) (by decide) (by intro r; rfl)
theorem good_min : GoodName nameMin := goodName_of _ 2 (by decide) (by decide) (by decide) (by decide) (by intro r; rfl)
theorem good_s : GoodName nameS := goodName_of _ 3 (by decide) (by decide) (by decide) (by decide) (by intro r; rfl)
theorem good_ms : GoodName nameMs := goodName_of _ 4 (by decide) (by decide) (by decide) (by decide) (by intro r; rfl)
theorem good_us : GoodName nameUs := goodName_of _ 5 (by decide) (by decide) (by decide) (by decide) (by intro r; rfl)
theorem good_ns : GoodName nameNs := goodName_of _ 6 (by decide) (by decide) (by decide) (by decide) (by intro r; rfl)

-- ------------------------------------------------------------------------------------------
-- one item of a rendering; induction over the items

theorem utf8s_len_append (a b : List Nat) : (utf8s (a ++ b)).length = (utf8s a).length + (utf8s b).length := by
  rw [utf8s_append, List.length_append]

theorem digits_ne_space (l : List Nat) (h : allDigits l = true) : ∀ c ∈ l, c ≠ 32 := by
  intro c hc; have := allDigits_mem l h c hc; omega

/-- one item `<digits> ' ' <name>` of a rendering, read from a state that is looking for a number -/
theorem item_step (pre digs name tail : List Nat) (st : PSt)
    (hd1 : digs ≠ []) (hd2 : allDigits digs = true)
    (hd3 : valDigits digs 0 ≤ 170141183460469231731687303715884105727)
    (hn1 : name ≠ []) (hn2 : ∀ c ∈ name, c ≠ 32)
    (hs : st.seeking = true) (hp : st.pcws = true ∨ st.prev = (utf8s pre).length) :
    pdLoop (utf8s (pre ++ (digs ++ [32] ++ name ++ tail))) (digs ++ [32] ++ name ++ tail) (utf8s pre).length st =
    pdLoop (utf8s (pre ++ (digs ++ [32] ++ name ++ tail))) tail (utf8s (pre ++ digs ++ [32] ++ name)).length
      ⟨(utf8s (pre ++ digs ++ [32])).length, false, .int (valDigits digs 0), false, st.dec⟩ := by
  generalize hbs : utf8s (pre ++ (digs ++ [32] ++ name ++ tail)) = bs
  -- 1. the digits
  have e1 : digs ++ [32] ++ name ++ tail = digs ++ (32 :: (name ++ tail)) := by simp
  rw [e1, pdLoop_word bs digs _ _ st hd1 (digits_ne_space digs hd2)]
  have hprev : (if st.pcws = true then (utf8s pre).length else st.prev) = (utf8s pre).length := by
    rcases hp with hp | hp
    · rw [if_pos hp]
    · split <;> simp [hp]
  rw [hprev, hs]
  -- 2. the space: the number is parsed
  have hdl : 0 < (utf8s digs).length := by
    rw [utf8s_digits digs hd2]; exact List.length_pos_iff.mpr hd1
  have hsl : sliceB bs (utf8s pre).length ((utf8s pre).length + (utf8s digs).length) = .ok digs := by
    have := sliceB_mid pre digs (32 :: (name ++ tail))
    rw [utf8s_len_append, utf8s_digits digs hd2] at this
    rw [← hbs, utf8s_digits digs hd2]
    have e : pre ++ (digs ++ [32] ++ name ++ tail) = pre ++ digs ++ 32 :: (name ++ tail) := by simp
    rw [e]; exact this
  have hstep : pdStep bs ((utf8s pre).length + (utf8s digs).length) 32
      ⟨(utf8s pre).length, true, st.latest, false, st.dec⟩ =
      .ok ⟨(utf8s pre).length, false, .int (valDigits digs 0), true, st.dec⟩ := by
    unfold pdStep
    simp only [if_true]
    rw [if_neg (by omega), hsl]
    simp only
    rw [parseNumeral_digits digs hd1 hd2 hd3]
  rw [pdLoop_cons_ok bs 32 _ _ _ _ hstep]
  -- 3. the unit name
  rw [pdLoop_word bs name tail _ _ hn1 hn2]
  simp only [if_true]
  have i1 : (utf8s pre).length + (utf8s digs).length + utf8Size 32 = (utf8s (pre ++ digs ++ [32])).length := by
    rw [utf8s_len_append, utf8s_len_append]; rfl
  have i2 : (utf8s pre).length + (utf8s digs).length + utf8Size 32 + (utf8s name).length
      = (utf8s (pre ++ digs ++ [32] ++ name)).length := by
    rw [utf8s_len_append, utf8s_len_append, utf8s_len_append]; rfl
  rw [i2, i1]

/-- run the loop, then the code after the loop -/
def finishFrom (bs cs : List Nat) (idx : Nat) (st : PSt) : Res Dur :=
  match pdLoop bs cs idx st with
  | .ok st' => pdFinish bs st'
  | .err => .err
  | .panic => .panic

theorem parseDuration_eq (cs : List Nat) : parseDuration cs = finishFrom (utf8s cs) cs 0 PSt.init := rfl

/-- the slots written while reading the items of a rendering -/
def applyItems : List (Int × List Nat) → List Dur → List Dur
  | [], dec => dec
  | it :: t, dec =>
    if it.1 > 0 then
      applyItems t (dec.set (slotOf it.2) (numTimes (slotFactor (slotOf it.2)) (.int (it.1.toNat : Nat))))
    else applyItems t dec

theorem displayItems_tail_ok (t : List (Int × List Nat)) : TailOK (displayItems t true) := by
  induction t with
  | nil => left; rfl
  | cons it t ih =>
    unfold displayItems
    split
    · right; rw [if_pos rfl]; exact ⟨decDigits it.1.toNat ++ [32] ++ it.2 ++ displayItems t true, by simp⟩
    · exact ih

/-- items a rendering may contain: a good unit name and a value the float parser reads exactly -/
def GoodItems (t : List (Int × List Nat)) : Prop :=
  ∀ it ∈ t, it.1 > 0 → GoodName it.2 ∧ it.1.toNat ≤ 170141183460469231731687303715884105727

theorem lookup_at_name (prevC name rest : List Nat) (hg : GoodName name) (hr : TailOK rest) :
    lookupUnit (utf8s (prevC ++ name ++ rest)) (utf8s prevC).length Gen.DUR_UNITS = some (slotOf name) := by
  have e : utf8s (prevC ++ name ++ rest) = utf8s prevC ++ (utf8s name ++ utf8s rest) := by
    rw [utf8s_append, utf8s_append, List.append_assoc]
  rw [e, lookupUnit_prefix]
  apply hg.2.2.2
  rcases hr with hr | ⟨r, hr⟩
  · left; subst hr; rfl
  · right; subst hr; exact ⟨utf8s r, by simp [utf8s, utf8]⟩

/-- after a unit name: the rest of the rendering, then the end of `parse_duration` -/
theorem pending_loop : ∀ (t : List (Int × List Nat)) (prevC name : List Nat) (v : Num) (dec : List Dur),
    GoodName name → GoodItems t → dec.length = 7 →
    finishFrom (utf8s (prevC ++ name ++ displayItems t true)) (displayItems t true) (utf8s (prevC ++ name)).length
      ⟨(utf8s prevC).length, false, v, false, dec⟩ =
    sumDec (applyItems t (dec.set (slotOf name) (numTimes (slotFactor (slotOf name)) v))) := by
  intro t
  induction t with
  | nil =>
    intro prevC name v dec hg _ hlen
    unfold finishFrom
    simp only [displayItems, pdLoop]
    unfold pdFinish
    have := lookup_at_name prevC name [] hg (Or.inl rfl)
    simp only [this, setDec]
    rw [if_pos (by have := hg.2.2.1; omega : slotOf name < dec.length)]
    rfl
  | cons it t ih =>
    intro prevC name v dec hg hgi hlen
    by_cases hpos : it.1 > 0
    · have hd := decDigits_spec it.1.toNat
      obtain ⟨hgn, hlt⟩ := hgi it (List.mem_cons_self) hpos
      have hgi' : GoodItems t := fun x hx => hgi x (List.mem_cons_of_mem _ hx)
      have hdi : displayItems (it :: t) true = 32 :: (decDigits it.1.toNat ++ [32] ++ it.2 ++ displayItems t true) := by
        rw [displayItems, if_pos hpos]; simp
      rw [hdi]
      generalize hdg : decDigits it.1.toNat = digs at *
      generalize hfull : utf8s (prevC ++ name ++ 32 :: (digs ++ [32] ++ it.2 ++ displayItems t true)) = bs
      -- the space after the pending unit name: the unit is looked up and stored
      have hlk : lookupUnit bs (utf8s prevC).length Gen.DUR_UNITS = some (slotOf name) := by
        rw [← hfull]; exact lookup_at_name prevC name _ hg (Or.inr ⟨_, rfl⟩)
      have hbd : isBoundary bs (utf8s (prevC ++ name)).length = true := by
        rw [← hfull, utf8s_append]; exact boundary_prefix _ _
      have hle : (utf8s (prevC ++ name)).length ≤ bs.length := by
        rw [← hfull, utf8s_append (prevC ++ name)]; simp
      have hstep : pdStep bs (utf8s (prevC ++ name)).length 32 ⟨(utf8s prevC).length, false, v, false, dec⟩ =
          .ok ⟨(utf8s (prevC ++ name)).length, true, v, true,
            dec.set (slotOf name) (numTimes (slotFactor (slotOf name)) v)⟩ := by
        unfold pdStep
        simp only [if_true, Bool.false_eq_true, if_false]
        rw [sliceB_ok bs _ _ hle (Nat.le_refl _) hbd (boundary_len bs)]
        simp only
        rw [hlk]
        simp only
        unfold setDec
        rw [if_pos (by simp only; have := hg.2.2.1; omega)]
      unfold finishFrom
      rw [pdLoop_cons_ok bs 32 _ _ _ _ hstep]
      have i1 : (utf8s (prevC ++ name)).length + utf8Size 32 = (utf8s (prevC ++ name ++ [32])).length := by
        rw [utf8s_len_append (prevC ++ name)]; rfl
      rw [i1]
      have efull : prevC ++ name ++ 32 :: (digs ++ [32] ++ it.2 ++ displayItems t true)
          = (prevC ++ name ++ [32]) ++ (digs ++ [32] ++ it.2 ++ displayItems t true) := by simp
      rw [efull] at hfull
      rw [← hfull]
      rw [item_step (prevC ++ name ++ [32]) digs it.2 (displayItems t true) _ hd.2.2 hd.1 (by rw [hd.2.1]; exact hlt)
        hgn.1 hgn.2.1 rfl (Or.inl rfl)]
      have e2 : (prevC ++ name ++ [32]) ++ (digs ++ [32] ++ it.2 ++ displayItems t true)
          = ((prevC ++ name ++ [32]) ++ digs ++ [32]) ++ it.2 ++ displayItems t true := by simp
      rw [e2]
      have := ih ((prevC ++ name ++ [32]) ++ digs ++ [32]) it.2 (.int (valDigits digs 0))
        (dec.set (slotOf name) (numTimes (slotFactor (slotOf name)) v))
        hgn hgi' (by simp only [List.length_set]; exact hlen)
      unfold finishFrom at this
      simp only at this ⊢
      rw [this, hd.2.1]
      conv => rhs; rw [applyItems, if_pos hpos]
    · have hdi : displayItems (it :: t) true = displayItems t true := by rw [displayItems, if_neg hpos]
      rw [hdi]
      conv => rhs; rw [applyItems, if_neg hpos]
      exact ih prevC name v dec hg (fun x hx => hgi x (List.mem_cons_of_mem _ hx)) hlen

/-- `parse_duration` on the body of a rendering with at least one positive component -/
theorem parseDuration_items : ∀ (its : List (Int × List Nat)), GoodItems its → (∃ it ∈ its, it.1 > 0) →
    parseDuration (displayItems its false) = sumDec (applyItems its PSt.init.dec) := by
  intro its
  induction its with
  | nil => intro _ ⟨it, hm, _⟩; cases hm
  | cons it t ih =>
    intro hgi hex
    by_cases hpos : it.1 > 0
    · have hd := decDigits_spec it.1.toNat
      obtain ⟨hgn, hlt⟩ := hgi it (List.mem_cons_self) hpos
      have hgi' : GoodItems t := fun x hx => hgi x (List.mem_cons_of_mem _ hx)
      have hdi : displayItems (it :: t) false = decDigits it.1.toNat ++ [32] ++ it.2 ++ displayItems t true := by
        rw [displayItems, if_pos hpos]; simp
      rw [hdi, parseDuration_eq]
      generalize hdg : decDigits it.1.toNat = digs at *
      have := item_step [] digs it.2 (displayItems t true) PSt.init hd.2.2 hd.1 (by rw [hd.2.1]; exact hlt)
        hgn.1 hgn.2.1 rfl (Or.inr rfl)
      simp only [List.nil_append, utf8s, List.length_nil] at this
      unfold finishFrom
      rw [this]
      have hp := pending_loop t (digs ++ [32]) it.2 (.int (valDigits digs 0)) PSt.init.dec hgn hgi' rfl
      unfold finishFrom at hp
      rw [hp, hd.2.1]
      conv => rhs; rw [applyItems, if_pos hpos]
    · have hdi : displayItems (it :: t) false = displayItems t false := by rw [displayItems, if_neg hpos]
      rw [hdi]
      conv => rhs; rw [applyItems, if_neg hpos]
      apply ih (fun x hx => hgi x (List.mem_cons_of_mem _ hx))
      obtain ⟨x, hx, hxp⟩ := hex
      simp only [List.mem_cons] at hx
      rcases hx with hx | hx
      · subst hx; exact absurd hxp hpos
      · exact ⟨x, hx, hxp⟩

-- ------------------------------------------------------------------------------------------
-- parse_offset on a rendering

/-- a byte `parse::<i64>` can accept at all -/
def okByte (b : Nat) : Bool := isDigit b || b == 43 || b == 45

theorem parseI64Digits_ok (neg : Bool) (ds : List Nat) (z : Int) (h : parseI64Digits neg ds = some z) :
    ∀ b ∈ ds, okByte b = true := by
  unfold parseI64Digits at h
  split at h
  · cases h
  · split at h
    · cases h
    · rename_i _ hall
      have hall' : allDigits ds = true := by
        cases hx : allDigits ds with
        | true => rfl
        | false => exact absurd hx hall
      intro b hb
      have := allDigits_mem ds hall' b hb
      unfold okByte isDigit
      simp only [Bool.or_eq_true, decide_eq_true_eq]
      left; left; exact this

theorem parseI64_ok (bs : List Nat) (z : Int) (h : parseI64 bs = some z) : ∀ b ∈ bs, okByte b = true := by
  unfold parseI64 at h
  split at h
  · cases h
  · rename_i c ds
    split at h
    · rename_i hc
      intro b hb
      simp only [List.mem_cons] at hb
      rcases hb with hb | hb
      · subst hb; subst hc; decide
      · exact parseI64Digits_ok _ _ _ h b hb
    · split at h
      · rename_i hc
        intro b hb
        simp only [List.mem_cons] at hb
        rcases hb with hb | hb
        · subst hb; subst hc; decide
        · exact parseI64Digits_ok _ _ _ h b hb
      · exact parseI64Digits_ok _ _ _ h

theorem getB_ascii (bs : List Nat) (hasc : ∀ b ∈ bs, b < 128) (a b : Nat) :
    getB bs a b = if a ≤ b ∧ b ≤ bs.length then some ((bs.drop a).take (b - a)) else none := by
  unfold getB
  by_cases h : a ≤ b ∧ b ≤ bs.length
  · rw [if_pos h, if_pos ⟨h.1, h.2, boundary_ascii bs hasc a (by omega), boundary_ascii bs hasc b h.2⟩]
  · rw [if_neg h, if_neg (fun hh => h ⟨hh.1, hh.2.1⟩)]

theorem getFromB_ascii (bs : List Nat) (hasc : ∀ b ∈ bs, b < 128) (a : Nat) :
    getFromB bs a = if a ≤ bs.length then some (bs.drop a) else none := by
  unfold getFromB
  by_cases h : a ≤ bs.length
  · rw [if_pos h, if_pos ⟨h, boundary_ascii bs hasc a h⟩]
  · rw [if_neg h, if_neg (fun hh => h hh.1)]

/-- if `parse_offset` succeeds, every byte after the sign, except possibly the separators at 3 and 6,
    is a digit or a sign -/
theorem parseOffset_ok_bytes (bs : List Nat) (r : Dur) (h : parseOffset bs = .ok r) :
    ∀ i, 1 ≤ i → i < bs.length → i ≠ 3 → i ≠ 6 → okByte (bs.getD i 0) = true := by
  unfold parseOffset at h
  split at h
  · cases h
  · rename_i hall
    have hasc : ∀ b ∈ bs, b < 128 := by
      intro b hb
      have : bs.all (fun b => decide (b < 128)) = true := by
        cases hx : bs.all (fun b => decide (b < 128)) with
        | true => rfl
        | false => exact absurd hx hall
      rw [List.all_eq_true] at this
      simpa using this b hb
    have core : ∀ colon, parseOffsetCore bs colon = .ok r → 3 ≤ bs.length →
        (∀ b ∈ (bs.drop 1).take 2, okByte b = true) ∧
        (5 + colon ≤ bs.length → (∀ b ∈ (bs.drop (3 + colon)).take 2, okByte b = true) ∧
          (5 + 2 * colon ≤ bs.length → ∀ b ∈ bs.drop (5 + 2 * colon), okByte b = true)) := by
      intro colon hc hlen
      unfold parseOffsetCore at hc
      rw [sliceB_ok bs 1 3 (by omega) hlen (boundary_ascii bs hasc 1 (by omega)) (boundary_ascii bs hasc 3 hlen),
        getB_ascii bs hasc, getFromB_ascii bs hasc] at hc
      simp only at hc
      cases hh : parseI64 (List.take (3 - 1) (List.drop 1 bs)) with
      | none => rw [hh] at hc; cases hc
      | some hv =>
        refine ⟨parseI64_ok _ _ hh, ?_⟩
        intro h5
        rw [hh] at hc
        simp only at hc
        rw [if_pos ⟨by omega, h5⟩] at hc
        simp only at hc
        have e2 : 5 + colon - (3 + colon) = 2 := by omega
        rw [e2] at hc
        cases hm : parseI64 (List.take 2 (List.drop (3 + colon) bs)) with
        | none => rw [hm] at hc; cases hc
        | some mv =>
          refine ⟨parseI64_ok _ _ hm, ?_⟩
          intro h7
          rw [hm] at hc
          simp only at hc
          rw [if_pos h7] at hc
          simp only at hc
          split at hc
          · rename_i hemp; rw [hemp]; intro b hb; cases hb
          · cases hs : parseI64 (List.drop (5 + 2 * colon) bs) with
            | none => rw [hs] at hc; cases hc
            | some sv => exact parseI64_ok _ _ hs
    -- every index is inside one of the three slices
    have getD_mem_slice : ∀ (a n i : Nat), a ≤ i → i < a + n → i < bs.length →
        bs.getD i 0 ∈ (bs.drop a).take n := by
      intro a n i h1 h2 h3
      have e : bs.getD i 0 = bs[i] := by simp [List.getD, h3]
      rw [e, List.mem_iff_getElem]
      refine ⟨i - a, by simp; omega, ?_⟩
      simp only [List.getElem_take, List.getElem_drop]
      congr 1; omega
    have getD_mem_drop : ∀ (a i : Nat), a ≤ i → i < bs.length → bs.getD i 0 ∈ bs.drop a := by
      intro a i h1 h3
      have e : bs.getD i 0 = bs[i] := by simp [List.getD, h3]
      rw [e, List.mem_iff_getElem]
      refine ⟨i - a, by simp; omega, ?_⟩
      simp only [List.getElem_drop]
      congr 1; omega
    intro i h1 hi h3 h6
    split at h
    · rename_i hl
      obtain ⟨c1, c2⟩ := core 0 h (by omega)
      by_cases hi3 : i < 3
      · exact c1 _ (getD_mem_slice 1 2 i h1 (by omega) hi)
      · have h5 : 5 + 0 ≤ bs.length := by omega
        obtain ⟨c3, c4⟩ := c2 h5
        by_cases hi5 : i < 5
        · exact c3 _ (getD_mem_slice (3 + 0) 2 i (by omega) (by omega) hi)
        · exact c4 (by omega) _ (getD_mem_drop (5 + 2 * 0) i (by omega) hi)
    · split at h
      · rename_i hl
        obtain ⟨c1, c2⟩ := core 1 h (by omega)
        by_cases hi3 : i < 3
        · exact c1 _ (getD_mem_slice 1 2 i h1 (by omega) hi)
        · have h5 : 5 + 1 ≤ bs.length := by omega
          obtain ⟨c3, c4⟩ := c2 h5
          by_cases hi5 : i < 6
          · exact c3 _ (getD_mem_slice (3 + 1) 2 i (by omega) (by omega) hi)
          · exact c4 (by omega) _ (getD_mem_drop (5 + 2 * 1) i (by omega) hi)
      · cases h

/-- a text with a space followed by a byte that is neither digit nor sign, after at least two bytes,
    is not an offset: `parse_offset` returns an error (and the caller falls through) -/
theorem parseOffset_err (A B : List Nat) (x : Nat) (hA : 2 ≤ A.length) (hx : okByte x = false) :
    parseOffset (A ++ 32 :: x :: B) = .err := by
  rcases parseOffset_total (A ++ 32 :: x :: B) with h | ⟨r, h, _⟩
  · exact h
  · exfalso
    have hb := parseOffset_ok_bytes _ r h
    have hlen : (A ++ 32 :: x :: B).length = A.length + 2 + B.length := by simp; omega
    by_cases hp : A.length ≠ 3 ∧ A.length ≠ 6
    · have := hb A.length (by omega) (by omega) hp.1 hp.2
      have e : (A ++ 32 :: x :: B).getD A.length 0 = 32 := by simp [List.getD]
      rw [e] at this
      revert this; decide
    · have := hb (A.length + 1) (by omega) (by omega) (by omega) (by omega)
      have e : (A ++ 32 :: x :: B).getD (A.length + 1) 0 = x := by
        simp [List.getD]
      rw [e, hx] at this
      cases this

-- ------------------------------------------------------------------------------------------
-- float exactness of the components of a rendering

theorem exact53_small (fuel m : Nat) (h : m < 9007199254740992) : exact53 fuel m = true := by
  cases fuel with
  | zero => simp [exact53, h]
  | succ k => simp [exact53, h]

/-- the arithmetic fact the round trip rests on: a natural number `2^k · o` with `o < 2^53` is
    exactly representable in binary64 (and recognised as such by the model's `exact53`) -/
theorem exact53_pow (o : Nat) (ho : o < 9007199254740992) : ∀ (k fuel : Nat), k ≤ fuel →
    exact53 fuel (2 ^ k * o) = true := by
  intro k
  induction k with
  | zero => intro fuel _; simp only [Nat.pow_zero, Nat.one_mul]; exact exact53_small fuel o ho
  | succ k ih =>
    intro fuel hf
    cases fuel with
    | zero => omega
    | succ fuel =>
      unfold exact53
      split
      · rfl
      · have e : 2 ^ (k + 1) * o = 2 * (2 ^ k * o) := by rw [Nat.pow_succ]; simp [Nat.mul_comm, Nat.mul_left_comm]
        rw [e, if_pos (by omega)]
        have : 2 * (2 ^ k * o) / 2 = 2 ^ k * o := by omega
        rw [this]
        exact ih fuel (by omega)

/-- `Unit * f64` on an integer-valued double whose product with the unit length is exactly
    representable: the duration of exactly `z·f` nanoseconds -/
theorem unitMulF64_exact (f z : Int) (h0 : 0 ≤ z * f) (hb : z * f ≤ 103407943680000000000000)
    (he : exact53 128 (z * f).natAbs = true) :
    (unitMulF64 f (.int z)).Canon ∧ (unitMulF64 f (.int z)).val = z * f := by
  unfold unitMulF64
  simp only
  rw [if_pos ⟨he, by omega⟩]
  split
  · rename_i hlt
    exact fromTruncated_spec (z * f) (by unfold fitsI64; simp only [decide_eq_true_eq]; omega)
  · have := fromTotal_spec (z * f)
    refine ⟨this.1, ?_⟩
    rw [this.2, clampD_mid (by omega) hb]

-- ------------------------------------------------------------------------------------------
-- integer numerals are exact; the seven items of Display

/-- `Numeral::times` on an integer numeral: the canonical duration of clamp(z·unit), for EVERY integer -/
theorem numTimes_int (f z : Int) :
    (numTimes f (.int z)).Canon ∧ (numTimes f (.int z)).val = clampD (z * f) := by
  unfold numTimes
  simp only
  have := fromTotal_spec (satI128 (z * f))
  exact ⟨this.1, by rw [this.2, clampD_satI128]⟩

theorem numTimes_zero (f : Int) : numTimes f (.int 0) = Dur.ZERO := by
  unfold numTimes
  simp only [Int.zero_mul]
  decide

/-- the final sum of seven canonical non-negative durations whose total is in range is exact -/
theorem sumDec_val (d h m s ms us ns : Dur)
    (c1 : d.Canon) (c2 : h.Canon) (c3 : m.Canon) (c4 : s.Canon) (c5 : ms.Canon) (c6 : us.Canon) (c7 : ns.Canon)
    (n1 : 0 ≤ d.val) (n2 : 0 ≤ h.val) (n3 : 0 ≤ m.val) (n4 : 0 ≤ s.val) (n5 : 0 ≤ ms.val) (n6 : 0 ≤ us.val)
    (n7 : 0 ≤ ns.val)
    (hsum : d.val + h.val + m.val + s.val + ms.val + us.val + ns.val ≤ 103407943680000000000000) :
    ∃ r, sumDec [d, h, m, s, ms, us, ns] = .ok r ∧ r.Canon ∧
      r.val = d.val + h.val + m.val + s.val + ms.val + us.val + ns.val := by
  unfold sumDec
  refine ⟨_, rfl, ?_⟩
  have a1 := add_spec _ _ c1 c2
  rw [clampD_mid (by omega) (by omega)] at a1
  have a2 := add_spec _ _ a1.1 c3
  rw [a1.2, clampD_mid (by omega) (by omega)] at a2
  have a3 := add_spec _ _ a2.1 c4
  rw [a2.2, clampD_mid (by omega) (by omega)] at a3
  have a4 := add_spec _ _ a3.1 c5
  rw [a3.2, clampD_mid (by omega) (by omega)] at a4
  have a5 := add_spec _ _ a4.1 c6
  rw [a4.2, clampD_mid (by omega) (by omega)] at a5
  have a6 := add_spec _ _ a5.1 c7
  rw [a5.2, clampD_mid (by omega) (by omega)] at a6
  exact ⟨a6.1, a6.2⟩

theorem set_same (l : List Dur) (k : Nat) (a : Dur) (h : l[k]? = some a) : l.set k a = l := by
  apply List.ext_getElem?
  intro i
  by_cases hi : i = k
  · subst hi
    rw [h]
    have hk : i < l.length := by
      rcases Nat.lt_or_ge i l.length with hl | hl
      · exact hl
      · rw [List.getElem?_eq_none hl] at h; cases h
    simp [hk]
  · rw [List.getElem?_set_ne (Ne.symm hi)]

/-- a component that is zero is not printed, and its slot keeps the initial zero = 0 units -/
theorem applyItems_cons (it : Int × List Nat) (t : List (Int × List Nat)) (dec : List Dur)
    (h0 : 0 ≤ it.1) (hk : dec[slotOf it.2]? = some Dur.ZERO) :
    applyItems (it :: t) dec =
      applyItems t (dec.set (slotOf it.2) (numTimes (slotFactor (slotOf it.2)) (.int it.1))) := by
  conv => lhs; rw [applyItems]
  by_cases hp : it.1 > 0
  · rw [if_pos hp]
    have : ((it.1.toNat : Nat) : Int) = it.1 := by omega
    rw [this]
  · rw [if_neg hp]
    have : it.1 = 0 := by omega
    rw [this, numTimes_zero, set_same dec _ _ hk]

theorem slot_days : slotOf nameDays = 0 := by decide
theorem slot_day : slotOf nameDay = 0 := by decide
theorem slot_h : slotOf nameH = 1 := by decide
theorem slot_min : slotOf nameMin = 2 := by decide
theorem slot_s : slotOf nameS = 3 := by decide
theorem slot_ms : slotOf nameMs = 4 := by decide
theorem slot_us : slotOf nameUs = 5 := by decide
theorem slot_ns : slotOf nameNs = 6 := by decide

/-- the seven (value, unit name) pairs `Display` iterates over -/
def itemsOf (d h m s ms us ns : Int) : List (Int × List Nat) :=
  [(d, if d > 1 then nameDays else nameDay), (h, nameH), (m, nameMin), (s, nameS),
   (ms, nameMs), (us, nameUs), (ns, nameNs)]

theorem applyItems_itemsOf (d h m s ms us ns : Int) (hr : InRange d h m s ms us ns) :
    applyItems (itemsOf d h m s ms us ns) PSt.init.dec =
      [numTimes Gen.NANOSECONDS_PER_DAY (.int d), numTimes Gen.NANOSECONDS_PER_HOUR (.int h),
       numTimes Gen.NANOSECONDS_PER_MINUTE (.int m), numTimes Gen.NANOSECONDS_PER_SECOND (.int s),
       numTimes Gen.NANOSECONDS_PER_MILLISECOND (.int ms), numTimes Gen.NANOSECONDS_PER_MICROSECOND (.int us),
       numTimes 1 (.int ns)] := by
  obtain ⟨r1, ⟨r2a, r2b⟩, ⟨r3a, r3b⟩, ⟨r4a, r4b⟩, ⟨r5a, r5b⟩, ⟨r6a, r6b⟩, ⟨r7a, r7b⟩⟩ := hr
  have sd : slotOf (if d > 1 then nameDays else nameDay) = 0 := by split <;> decide
  unfold itemsOf PSt.init
  simp only
  rw [applyItems_cons _ _ _ r1 (by simp only [sd]; rfl)]
  simp only [sd, List.set_cons_zero, slotFactor]
  rw [applyItems_cons _ _ _ r2a (by simp only [slot_h]; rfl)]
  simp only [slot_h, List.set_cons_succ, List.set_cons_zero, slotFactor]
  rw [applyItems_cons _ _ _ r3a (by simp only [slot_min]; rfl)]
  simp only [slot_min, List.set_cons_succ, List.set_cons_zero, slotFactor]
  rw [applyItems_cons _ _ _ r4a (by simp only [slot_s]; rfl)]
  simp only [slot_s, List.set_cons_succ, List.set_cons_zero, slotFactor]
  rw [applyItems_cons _ _ _ r5a (by simp only [slot_ms]; rfl)]
  simp only [slot_ms, List.set_cons_succ, List.set_cons_zero, slotFactor]
  rw [applyItems_cons _ _ _ r6a (by simp only [slot_us]; rfl)]
  simp only [slot_us, List.set_cons_succ, List.set_cons_zero, slotFactor]
  rw [applyItems_cons _ _ _ r7a (by simp only [slot_ns]; rfl)]
  simp only [slot_ns, List.set_cons_succ, List.set_cons_zero, slotFactor]
  rfl

theorem goodItems_itemsOf (d h m s ms us ns : Int) (hr : InRange d h m s ms us ns)
    (hsum : weighted d h m s ms us ns ≤ 103407943680000000000000) :
    GoodItems (itemsOf d h m s ms us ns) := by
  obtain ⟨r1, ⟨r2a, r2b⟩, ⟨r3a, r3b⟩, ⟨r4a, r4b⟩, ⟨r5a, r5b⟩, ⟨r6a, r6b⟩, ⟨r7a, r7b⟩⟩ := hr
  unfold weighted NS_PER_D NS_PER_H NS_PER_MIN NS_PER_S NS_PER_MS NS_PER_US at hsum
  intro it hit hpos
  unfold itemsOf at hit
  simp only [List.mem_cons, List.not_mem_nil, or_false] at hit
  rcases hit with e | e | e | e | e | e | e <;> subst e <;> simp only at hpos ⊢
  · refine ⟨?_, by omega⟩
    split
    · exact good_days
    · exact good_day
  · exact ⟨good_h, by omega⟩
  · exact ⟨good_min, by omega⟩
  · exact ⟨good_s, by omega⟩
  · exact ⟨good_ms, by omega⟩
  · exact ⟨good_us, by omega⟩
  · exact ⟨good_ns, by omega⟩

/-- `parse_duration` on the body of the rendering of a non-zero decomposition: the canonical
    duration of exactly the weighted sum — for every decomposition in the Duration range -/
theorem parseDuration_body (d h m s ms us ns : Int) (hr : InRange d h m s ms us ns)
    (hsum : weighted d h m s ms us ns ≤ 103407943680000000000000)
    (hnz : weighted d h m s ms us ns ≠ 0) :
    ∃ r, parseDuration (displayItems (itemsOf d h m s ms us ns) false) = .ok r ∧ r.Canon ∧
      r.val = weighted d h m s ms us ns := by
  have hex : ∃ it ∈ itemsOf d h m s ms us ns, it.1 > 0 := by
    obtain ⟨r1, ⟨r2a, r2b⟩, ⟨r3a, r3b⟩, ⟨r4a, r4b⟩, ⟨r5a, r5b⟩, ⟨r6a, r6b⟩, ⟨r7a, r7b⟩⟩ := hr
    unfold itemsOf
    unfold weighted NS_PER_D NS_PER_H NS_PER_MIN NS_PER_S NS_PER_MS NS_PER_US at hnz
    by_cases c1 : d > 0
    · exact ⟨_, List.mem_cons_self, c1⟩
    · by_cases c2 : h > 0
      · exact ⟨(h, nameH), by simp, c2⟩
      · by_cases c3 : m > 0
        · exact ⟨(m, nameMin), by simp, c3⟩
        · by_cases c4 : s > 0
          · exact ⟨(s, nameS), by simp, c4⟩
          · by_cases c5 : ms > 0
            · exact ⟨(ms, nameMs), by simp, c5⟩
            · by_cases c6 : us > 0
              · exact ⟨(us, nameUs), by simp, c6⟩
              · exact ⟨(ns, nameNs), by simp, by simp only; omega⟩
  rw [parseDuration_items _ (goodItems_itemsOf d h m s ms us ns hr hsum) hex, applyItems_itemsOf d h m s ms us ns hr]
  obtain ⟨r1, ⟨r2a, r2b⟩, ⟨r3a, r3b⟩, ⟨r4a, r4b⟩, ⟨r5a, r5b⟩, ⟨r6a, r6b⟩, ⟨r7a, r7b⟩⟩ := hr
  unfold weighted NS_PER_D NS_PER_H NS_PER_MIN NS_PER_S NS_PER_MS NS_PER_US at hsum ⊢
  have u1 := numTimes_int Gen.NANOSECONDS_PER_DAY d
  have u2 := numTimes_int Gen.NANOSECONDS_PER_HOUR h
  have u3 := numTimes_int Gen.NANOSECONDS_PER_MINUTE m
  have u4 := numTimes_int Gen.NANOSECONDS_PER_SECOND s
  have u5 := numTimes_int Gen.NANOSECONDS_PER_MILLISECOND ms
  have u6 := numTimes_int Gen.NANOSECONDS_PER_MICROSECOND us
  have u7 := numTimes_int 1 ns
  simp only [Gen.NANOSECONDS_PER_DAY, Gen.NANOSECONDS_PER_HOUR, Gen.NANOSECONDS_PER_MINUTE,
    Gen.NANOSECONDS_PER_SECOND, Gen.NANOSECONDS_PER_MILLISECOND, Gen.NANOSECONDS_PER_MICROSECOND] at *
  rw [clampD_mid (by omega) (by omega)] at u1 u2 u3 u4 u5 u6 u7
  obtain ⟨r, e1, e2, e3⟩ := sumDec_val _ _ _ _ _ _ _ u1.1 u2.1 u3.1 u4.1 u5.1 u6.1 u7.1
    (by rw [u1.2]; omega) (by rw [u2.2]; omega) (by rw [u3.2]; omega) (by rw [u4.2]; omega)
    (by rw [u5.2]; omega) (by rw [u6.2]; omega) (by rw [u7.2]; omega)
    (by rw [u1.2, u2.2, u3.2, u4.2, u5.2, u6.2, u7.2]; omega)
  exact ⟨r, e1, e2, by rw [e3, u1.2, u2.2, u3.2, u4.2, u5.2, u6.2, u7.2]; omega⟩

-- ------------------------------------------------------------------------------------------
-- trim and the edges of a rendering

theorem trimStart_id (c : Nat) (r : List Nat) (h : isWs c = false) : trimStart (c :: r) = c :: r := by
  rw [trimStart, h]; rfl

theorem trim_id (T : List Nat) (c : Nat) (r X : List Nat) (l : Nat) (h1 : T = c :: r) (h2 : T = X ++ [l])
    (hc : isWs c = false) (hl : isWs l = false) : trim T = T := by
  unfold trim
  have e1 : trimStart T = T := by rw [h1]; exact trimStart_id c r hc
  rw [e1]
  have e2 : T.reverse = l :: X.reverse := by rw [h2]; simp
  rw [e2, trimStart_id l _ hl, ← e2, List.reverse_reverse]

/-- a unit name ends with a non-whitespace character and its first byte is neither digit nor sign -/
def EdgeOK (name : List Nat) : Prop :=
  (∃ pre c, name = pre ++ [c] ∧ isWs c = false) ∧ (∃ x t, utf8s name = x :: t ∧ okByte x = false)

theorem edge_days : EdgeOK nameDays := ⟨⟨[100, 97, 121], 115, by decide, by decide⟩, ⟨100, [97, 121, 115], by decide, by decide⟩⟩
theorem edge_day : EdgeOK nameDay := ⟨⟨[100, 97], 121, by decide, by decide⟩, ⟨100, [97, 121], by decide, by decide⟩⟩
theorem edge_h : EdgeOK nameH := ⟨⟨[], 104, by decide, by decide⟩, ⟨104, [], by decide, by decide⟩⟩
theorem edge_min : EdgeOK nameMin := ⟨⟨[109, 105], 110, by decide, by decide⟩, ⟨109, [105, 110], by decide, by decide⟩⟩
theorem edge_s : EdgeOK nameS := ⟨⟨[], 115, by decide, by decide⟩, ⟨115, [], by decide, by decide⟩⟩
theorem edge_ms : EdgeOK nameMs := ⟨⟨[109], 115, by decide, by decide⟩, ⟨109, [115], by decide, by decide⟩⟩
theorem edge_us : EdgeOK nameUs := ⟨⟨[956], 115, by decide, by decide⟩, ⟨206, [188, 115], by decide, by decide⟩⟩
theorem edge_ns : EdgeOK nameNs := ⟨⟨[110], 115, by decide, by decide⟩, ⟨110, [115], by decide, by decide⟩⟩

theorem edge_itemsOf (d h m s ms us ns : Int) : ∀ it ∈ itemsOf d h m s ms us ns, EdgeOK it.2 := by
  intro it hit
  unfold itemsOf at hit
  simp only [List.mem_cons, List.not_mem_nil, or_false] at hit
  rcases hit with e | e | e | e | e | e | e <;> subst e <;> simp only
  · split
    · exact edge_days
    · exact edge_day
  · exact edge_h
  · exact edge_min
  · exact edge_s
  · exact edge_ms
  · exact edge_us
  · exact edge_ns

theorem isWs_digit (c : Nat) (h : 48 ≤ c ∧ c ≤ 57) : isWs c = false := by
  have : c = 48 ∨ c = 49 ∨ c = 50 ∨ c = 51 ∨ c = 52 ∨ c = 53 ∨ c = 54 ∨ c = 55 ∨ c = 56 ∨ c = 57 := by omega
  rcases this with e | e | e | e | e | e | e | e | e | e <;> subst e <;> decide

/-- the rendering ends with the last character of a unit name -/
theorem displayItems_last : ∀ (its : List (Int × List Nat)) (sp : Bool), (∀ it ∈ its, EdgeOK it.2) →
    displayItems its sp = [] ∨ ∃ X c, displayItems its sp = X ++ [c] ∧ isWs c = false := by
  intro its
  induction its with
  | nil => intro sp _; left; rfl
  | cons it t ih =>
    intro sp he
    unfold displayItems
    split
    · right
      rcases ih true (fun x hx => he x (List.mem_cons_of_mem _ hx)) with h | ⟨X, c, h, hc⟩
      · obtain ⟨⟨pre, c, hn, hc⟩, _⟩ := he it (List.mem_cons_self)
        rw [h, hn]
        exact ⟨_, c, by simp only [List.append_nil, ← List.append_assoc]; rfl, hc⟩
      · rw [h]
        exact ⟨_, c, by simp only [← List.append_assoc]; rfl, hc⟩
    · exact ih sp (fun x hx => he x (List.mem_cons_of_mem _ hx))

/-- the body of a rendering with a positive component starts with the digits of the first one,
    a space, and its unit name -/
theorem displayItems_first : ∀ (its : List (Int × List Nat)), (∃ it ∈ its, it.1 > 0) →
    ∃ digs name tail, displayItems its false = digs ++ [32] ++ name ++ tail ∧ digs ≠ [] ∧ allDigits digs = true ∧
      ∃ it ∈ its, it.2 = name := by
  intro its
  induction its with
  | nil => intro ⟨it, hm, _⟩; cases hm
  | cons it t ih =>
    intro hex
    by_cases hpos : it.1 > 0
    · have hd := decDigits_spec it.1.toNat
      refine ⟨decDigits it.1.toNat, it.2, displayItems t true, ?_, hd.2.2, hd.1, it, List.mem_cons_self, rfl⟩
      rw [displayItems, if_pos hpos]; simp
    · obtain ⟨x, hx, hxp⟩ := hex
      simp only [List.mem_cons] at hx
      rcases hx with hx | hx
      · subst hx; exact absurd hxp hpos
      · obtain ⟨digs, name, tail, h1, h2, h3, it', hi', hn'⟩ := ih ⟨x, hx, hxp⟩
        refine ⟨digs, name, tail, ?_, h2, h3, it', List.mem_cons_of_mem _ hi', hn'⟩
        rw [displayItems, if_neg hpos]; exact h1

-- ------------------------------------------------------------------------------------------
-- from_str of a rendering

/-- `from_str` on the rendering (sign, then the seven items) of a non-zero decomposition:
    the canonical duration of value ±(weighted sum) -/
theorem fromStr_rendering (neg : Bool) (d h m s ms us ns : Int) (hr : InRange d h m s ms us ns)
    (hd : weighted d h m s ms us ns ≤ 103407943680000000000000) (hnz : weighted d h m s ms us ns ≠ 0) :
    ∃ r, parseDurationIdx ((if neg = true then [45] else []) ++ displayItems (itemsOf d h m s ms us ns) false) = .ok r ∧
      r.Canon ∧ r.val = (if neg = true then -(weighted d h m s ms us ns) else weighted d h m s ms us ns) := by
  obtain ⟨r, hp, hc, hv⟩ := parseDuration_body d h m s ms us ns hr hd hnz
  have hex : ∃ it ∈ itemsOf d h m s ms us ns, it.1 > 0 := by
    -- otherwise the body is empty and parse_duration of "" is not `ok` of a non-zero value
    apply Classical.byContradiction
    intro hno
    have hall : ∀ it ∈ itemsOf d h m s ms us ns, ¬ it.1 > 0 := fun it hi hp => hno ⟨it, hi, hp⟩
    obtain ⟨r1, ⟨r2a, r2b⟩, ⟨r3a, r3b⟩, ⟨r4a, r4b⟩, ⟨r5a, r5b⟩, ⟨r6a, r6b⟩, ⟨r7a, r7b⟩⟩ := hr
    unfold itemsOf at hall
    have q1 := hall _ List.mem_cons_self
    have q2 := hall (h, nameH) (by simp)
    have q3 := hall (m, nameMin) (by simp)
    have q4 := hall (s, nameS) (by simp)
    have q5 := hall (ms, nameMs) (by simp)
    have q6 := hall (us, nameUs) (by simp)
    have q7 := hall (ns, nameNs) (by simp)
    simp only at q1 q2 q3 q4 q5 q6 q7
    unfold weighted NS_PER_D NS_PER_H NS_PER_MIN NS_PER_S NS_PER_MS NS_PER_US at hnz
    omega
  generalize hB : displayItems (itemsOf d h m s ms us ns) false = B at *
  obtain ⟨digs, name, tail, hshape, hdne, hdall, it, hit, hname⟩ := by
    have := displayItems_first (itemsOf d h m s ms us ns) hex
    rw [hB] at this; exact this
  have hedge := edge_itemsOf d h m s ms us ns
  -- first and last character of the body
  obtain ⟨c0, digs', hdigs⟩ : ∃ c0 digs', digs = c0 :: digs' := by
    cases digs with
    | nil => exact absurd rfl hdne
    | cons a b => exact ⟨a, b, rfl⟩
  have hc0 : 48 ≤ c0 ∧ c0 ≤ 57 := allDigits_mem digs hdall c0 (by rw [hdigs]; exact List.mem_cons_self)
  have hBhead : B = c0 :: (digs' ++ [32] ++ name ++ tail) := by rw [hshape, hdigs]; simp
  obtain ⟨X, cl, hBlast, hcl⟩ : ∃ X c, B = X ++ [c] ∧ isWs c = false := by
    rcases displayItems_last (itemsOf d h m s ms us ns) false hedge with h0 | h1
    · rw [hB] at h0; rw [h0] at hBhead; cases hBhead
    · rw [hB] at h1; exact h1
  unfold parseDurationIdx
  cases neg with
  | false =>
    simp only [Bool.false_eq_true, if_false, List.nil_append]
    rw [trim_id B c0 _ X cl hBhead hBlast (isWs_digit c0 hc0) hcl]
    refine ⟨r, ?_, hc, hv⟩
    rw [hBhead]
    unfold fromStrCore
    simp only
    rw [if_neg (by omega), if_neg (by omega), ← hBhead]
    exact hp
  | true =>
    simp only [if_true]
    have hT1 : [45] ++ B = 45 :: B := rfl
    have hT2 : [45] ++ B = (45 :: X) ++ [cl] := by rw [hBlast]; rfl
    rw [trim_id ([45] ++ B) 45 B (45 :: X) cl hT1 hT2 (by decide) hcl, hT1]
    obtain ⟨r', hn, hc', hv'⟩ := neg_spec r hc
    refine ⟨r', ?_, hc', ?_⟩
    · unfold fromStrCore
      simp only [if_true]
      -- not an offset
      obtain ⟨_, x, t, hx, hxb⟩ := hedge it hit
      rw [hname] at hx
      have hbytes : utf8s (45 :: B) = (45 :: digs) ++ 32 :: x :: (t ++ utf8s tail) := by
        rw [hshape]
        have : (45 : Nat) :: (digs ++ [32] ++ name ++ tail) = [45] ++ digs ++ [32] ++ name ++ tail := by simp
        rw [this, utf8s_append, utf8s_append, utf8s_append, utf8s_append, utf8s_digits digs hdall, hx]
        simp [utf8s, utf8]
      have hoff : parseOffset (utf8s (45 :: B)) = .err := by
        rw [hbytes]
        exact parseOffset_err _ _ x (by rw [hdigs]; simp) hxb
      rw [hoff]
      simp only
      have hb : isBoundary (utf8s (45 :: B)) 1 = true := by
        have := boundary_prefix [45] B
        simpa [utf8s, utf8] using this
      have hl : 1 ≤ (utf8s (45 :: B)).length := by simp [utf8s, utf8]
      rw [sliceB_ok _ 1 _ hl (Nat.le_refl _) hb (boundary_len _)]
      simp only
      rw [hp]
      exact hn
    · rw [hv', hv]
      have hrange := canon_range r hc
      unfold DMIN DMAX at hrange
      simp only [NPCs_eq] at hrange
      rw [hv] at hrange
      exact clampD_mid (by omega) (by omega)

-- ------------------------------------------------------------------------------------------
-- the round trip

/-- ROUND TRIP on the whole range: `from_str(format!("{a}")) = a` for EVERY canonical duration
    (every printed component is an integer numeral, multiplied exactly; `MIN` prints as minus the
    components of `MAX` and negates back to `MIN`) -/
theorem display_parse (a : Dur) (ha : a.Canon) :
    ∃ s, display a = .ok s ∧ parseDurationIdx s = .ok a := by
  by_cases hz : a.val = 0
  · have : a = Dur.ZERO := canon_unique a Dur.ZERO ha canon_ZERO (by rw [hz]; decide)
    subst this
    exact ⟨[48, 32, 110, 115], by decide, by decide⟩
  · have hnt : ¬ Dur.totalNs a = 0 := fun hh => hz ((totalNs_zero_iff a ha).1 hh)
    have hdec := decomp_isDecomp a.val
    have hdisp : display a = .ok ((if Dur.signum a = -1 then [45] else []) ++
        displayItems (itemsOf (decomp a.val).1 (decomp a.val).2.1 (decomp a.val).2.2.1 (decomp a.val).2.2.2.1
          (decomp a.val).2.2.2.2.1 (decomp a.val).2.2.2.2.2.1 (decomp a.val).2.2.2.2.2.2) false) := by
      unfold display
      rw [if_neg hnt, decompose_spec a ha]
      rfl
    generalize decomp a.val = cs at *
    obtain ⟨d, h, m, s, ms, us, ns⟩ := cs
    simp only at hdec hdisp
    obtain ⟨hr, hsum⟩ := hdec
    have hd : weighted d h m s ms us ns ≤ 103407943680000000000000 := by
      have hrange := canon_range a ha
      unfold DMIN DMAX at hrange
      simp only [NPCs_eq] at hrange
      rw [hsum]; unfold mag; split <;> omega
    have hnz : weighted d h m s ms us ns ≠ 0 := by
      rw [hsum]; unfold mag; split <;> omega
    obtain ⟨r, hp, hc, hv⟩ := fromStr_rendering (decide (a.val < 0)) d h m s ms us ns hr hd hnz
    have hsg : (if Dur.signum a = -1 then [45] else ([] : List Nat)) = (if decide (a.val < 0) = true then [45] else []) := by
      by_cases hneg : a.val < 0
      · rw [if_pos ((signum_neg_iff a ha).2 hneg)]; simp [hneg]
      · rw [if_neg (fun hh => hneg ((signum_neg_iff a ha).1 hh))]; simp [hneg]
    refine ⟨_, hdisp, ?_⟩
    rw [hsg, hp]
    congr 1
    apply canon_unique r a hc ha
    rw [hv, hsum]
    unfold mag
    by_cases hneg : a.val < 0
    · simp only [hneg, decide_true, if_true]; omega
    · simp only [hneg, decide_false, Bool.false_eq_true, if_false]

-- ------------------------------------------------------------------------------------------
-- offsets

theorem parseI64_two (a b : Nat) (ha : isDig a = true) (hb : isDig b = true) :
    parseI64 [a, b] = some (two a b) := by
  unfold isDig at ha hb
  simp only [decide_eq_true_eq] at ha hb
  unfold parseI64
  simp only
  rw [if_neg (by omega), if_neg (by omega)]
  unfold parseI64Digits
  rw [if_neg (by simp)]
  have hall : allDigits [a, b] = true := by
    simp only [allDigits, isDigit, Bool.and_true, Bool.and_eq_true, decide_eq_true_eq]; omega
  rw [if_neg (by rw [hall]; simp)]
  simp only [Bool.false_eq_true, if_false]
  have hv : valDigits [a, b] 0 = (a - 48) * 10 + (b - 48) := by simp [valDigits]
  rw [hv]
  have hf : fitsI64 (((a - 48) * 10 + (b - 48) : Nat) : Int) = true := by
    unfold fitsI64; simp only [decide_eq_true_eq]; omega
  rw [if_pos hf]
  rfl

theorem two_range (a b : Nat) (ha : isDig a = true) (hb : isDig b = true) : 0 ≤ two a b ∧ two a b ≤ 99 := by
  unfold isDig at ha hb
  simp only [decide_eq_true_eq] at ha hb
  unfold two; omega

theorem offsetDur_spec (h m s : Int) (hh : 0 ≤ h ∧ h ≤ 99) (hm : 0 ≤ m ∧ m ≤ 99) (hs : 0 ≤ s ∧ s ≤ 99) :
    (offsetDur h m s).Canon ∧ (offsetDur h m s).val = (h * 3600 + m * 60 + s) * NS_PER_S := by
  unfold offsetDur
  have fit : ∀ x : Int, 0 ≤ x ∧ x ≤ 99 → fitsI64 x = true := by
    intro x hx; unfold fitsI64; simp only [decide_eq_true_eq]; omega
  have u1 := unitMulI64_spec _ h mem_unitFactors_h (fit h hh)
  have u2 := unitMulI64_spec _ m mem_unitFactors_min (fit m hm)
  have u3 := unitMulI64_spec _ s mem_unitFactors_s (fit s hs)
  rw [clampD_mid (by simp only [Gen.NANOSECONDS_PER_HOUR]; omega) (by simp only [Gen.NANOSECONDS_PER_HOUR]; omega)] at u1
  rw [clampD_mid (by simp only [Gen.NANOSECONDS_PER_MINUTE]; omega) (by simp only [Gen.NANOSECONDS_PER_MINUTE]; omega)] at u2
  rw [clampD_mid (by simp only [Gen.NANOSECONDS_PER_SECOND]; omega) (by simp only [Gen.NANOSECONDS_PER_SECOND]; omega)] at u3
  have a1 := add_spec _ _ u1.1 u2.1
  rw [u1.2, u2.2, clampD_mid (by simp only [Gen.NANOSECONDS_PER_HOUR, Gen.NANOSECONDS_PER_MINUTE]; omega)
    (by simp only [Gen.NANOSECONDS_PER_HOUR, Gen.NANOSECONDS_PER_MINUTE]; omega)] at a1
  have a2 := add_spec _ _ a1.1 u3.1
  rw [a1.2, u3.2, clampD_mid (by simp only [Gen.NANOSECONDS_PER_HOUR, Gen.NANOSECONDS_PER_MINUTE, Gen.NANOSECONDS_PER_SECOND]; omega)
    (by simp only [Gen.NANOSECONDS_PER_HOUR, Gen.NANOSECONDS_PER_MINUTE, Gen.NANOSECONDS_PER_SECOND]; omega)] at a2
  refine ⟨a2.1, ?_⟩
  rw [a2.2]
  unfold NS_PER_S
  simp only [Gen.NANOSECONDS_PER_HOUR, Gen.NANOSECONDS_PER_MINUTE, Gen.NANOSECONDS_PER_SECOND]
  omega

theorem isDig_lt (a : Nat) (h : isDig a = true) : a < 128 ∧ a ≠ 45 ∧ a ≠ 43 ∧ 48 ≤ a ∧ a ≤ 57 := by
  unfold isDig at h; simp only [decide_eq_true_eq] at h; omega

/-- the sign handling of `from_str` around a successful `parse_offset` -/
theorem fromStr_offset (sg : Nat) (rest : List Nat) (hsg : sg = 43 ∨ sg = 45)
    (hasc : ∀ b ∈ sg :: rest, b < 128) (l : Nat) (X : List Nat) (hlast : sg :: rest = X ++ [l]) (hl : isWs l = false)
    (v : Dur) (hv : v.Canon) (hval : 0 ≤ v.val ∧ v.val ≤ 103407943680000000000000)
    (hoff : parseOffset (sg :: rest) = .ok v) :
    ∃ r, parseDurationIdx (sg :: rest) = .ok r ∧ r.Canon ∧ r.val = (if sg = 45 then -1 else 1) * v.val := by
  unfold parseDurationIdx
  rw [trim_id (sg :: rest) sg rest X l rfl hlast (by rcases hsg with h | h <;> subst h <;> decide) hl]
  unfold fromStrCore
  simp only
  rw [utf8s_ascii _ hasc, hoff]
  rcases hsg with h | h
  · subst h
    simp only [Nat.reduceEqDiff, if_false, if_true]
    exact ⟨v, rfl, hv, by omega⟩
  · subst h
    simp only [if_true]
    obtain ⟨r, h1, h2, h3⟩ := neg_spec v hv
    refine ⟨r, h1, h2, ?_⟩
    rw [h3, clampD_mid (by omega) (by omega)]
    omega

theorem offset_finish (sg : Nat) (rest : List Nat) (hsg : sg = 43 ∨ sg = 45)
    (hasc : ∀ b ∈ sg :: rest, b < 128) (l : Nat) (X : List Nat) (hlast : sg :: rest = X ++ [l]) (hl : isWs l = false)
    (hh mm ss : Int) (r1 : 0 ≤ hh ∧ hh ≤ 99) (r2 : 0 ≤ mm ∧ mm ≤ 99) (r3 : 0 ≤ ss ∧ ss ≤ 99)
    (hoff : parseOffset (sg :: rest) = .ok (offsetDur hh mm ss)) :
    ∃ r, parseDurationIdx (sg :: rest) = .ok r ∧ r.Canon ∧ r.val = offsetValue (decide (sg = 45)) hh mm ss := by
  have hspec := offsetDur_spec hh mm ss r1 r2 r3
  obtain ⟨r, p1, p2, p3⟩ := fromStr_offset sg rest hsg hasc l X hlast hl _ hspec.1
    (by rw [hspec.2]; unfold NS_PER_S; constructor <;> omega) hoff
  refine ⟨r, p1, p2, ?_⟩
  rw [p3, hspec.2]
  unfold offsetValue
  by_cases e : sg = 45
  · simp [e]
  · simp [e]

theorem all_ascii (l : List Nat) (h : ∀ x ∈ l, x < 128) : (l.all fun b => decide (b < 128)) = true := by
  rw [List.all_eq_true]; intro x hx; simpa using h x hx

/-- offsets: whatever `Spec.readOffset` reads — `[+-]HH:MM`, `[+-]HHMM`, `[+-]HH:MM:SS` — is parsed to
    exactly the denoted value ±(HH·3600 + MM·60 + SS) s -/
theorem offset_denotes (s : List Nat) (v : Int) (h : readOffset s = some v) :
    ∃ r, parseDurationIdx s = .ok r ∧ r.Canon ∧ r.val = v := by
  unfold readOffset at h
  split at h
  · -- [sg, a, b, ':', c, d]
    rename_i sg a b c d
    split at h
    · rename_i hc
      obtain ⟨hsg, ha, hb, hc', hd⟩ := hc
      simp only [Option.some.injEq] at h
      have da := isDig_lt a ha; have db := isDig_lt b hb; have dc := isDig_lt c hc'; have dd := isDig_lt d hd
      have hasc : ∀ x ∈ [sg, a, b, 58, c, d], x < 128 := by
        intro x hx; simp only [List.mem_cons, List.not_mem_nil, or_false] at hx
        rcases hx with e | e | e | e | e | e <;> subst e <;> omega
      have hoff : parseOffset [sg, a, b, 58, c, d] = .ok (offsetDur (two a b) (two c d) 0) := by
        unfold parseOffset
        rw [if_neg (by rw [all_ascii _ hasc]; simp), if_neg (by simp), if_pos (by simp)]
        unfold parseOffsetCore
        rw [sliceB_ok _ 1 3 (by omega) (by simp) (boundary_ascii _ hasc 1 (by simp)) (boundary_ascii _ hasc 3 (by simp)),
          getB_ascii _ hasc, getFromB_ascii _ hasc]
        simp only [List.drop_succ_cons, List.drop_zero, List.take_succ_cons, List.take_zero, Nat.reduceSub, Nat.reduceAdd,
          List.length_cons, List.length_nil, Nat.reduceMul]
        rw [parseI64_two a b ha hb]
        simp only [Nat.le_refl, and_self, if_true, Nat.reduceLeDiff]
        rw [parseI64_two c d hc' hd]
        try simp
      rw [← h]
      exact offset_finish sg [a, b, 58, c, d] hsg hasc d [sg, a, b, 58, c] rfl (isWs_digit d ⟨dd.2.2.2.1, dd.2.2.2.2⟩)
        _ _ 0 (two_range a b ha hb) (two_range c d hc' hd) (by omega) hoff
    · cases h
  · -- [sg, a, b, c, d]
    rename_i sg a b c d
    split at h
    · rename_i hc
      obtain ⟨hsg, ha, hb, hc', hd⟩ := hc
      simp only [Option.some.injEq] at h
      have da := isDig_lt a ha; have db := isDig_lt b hb; have dc := isDig_lt c hc'; have dd := isDig_lt d hd
      have hasc : ∀ x ∈ [sg, a, b, c, d], x < 128 := by
        intro x hx; simp only [List.mem_cons, List.not_mem_nil, or_false] at hx
        rcases hx with e | e | e | e | e <;> subst e <;> omega
      have hoff : parseOffset [sg, a, b, c, d] = .ok (offsetDur (two a b) (two c d) 0) := by
        unfold parseOffset
        rw [if_neg (by rw [all_ascii _ hasc]; simp), if_pos (by simp)]
        unfold parseOffsetCore
        rw [sliceB_ok _ 1 3 (by omega) (by simp) (boundary_ascii _ hasc 1 (by simp)) (boundary_ascii _ hasc 3 (by simp)),
          getB_ascii _ hasc, getFromB_ascii _ hasc]
        simp only [List.drop_succ_cons, List.drop_zero, List.take_succ_cons, List.take_zero, Nat.reduceSub, Nat.reduceAdd,
          List.length_cons, List.length_nil, Nat.reduceMul]
        rw [parseI64_two a b ha hb]
        simp only [Nat.le_refl, and_self, if_true, Nat.reduceLeDiff]
        rw [parseI64_two c d hc' hd]
        try simp
      rw [← h]
      exact offset_finish sg [a, b, c, d] hsg hasc d [sg, a, b, c] rfl (isWs_digit d ⟨dd.2.2.2.1, dd.2.2.2.2⟩)
        _ _ 0 (two_range a b ha hb) (two_range c d hc' hd) (by omega) hoff
    · cases h
  · -- [sg, a, b, ':', c, d, ':', e, f]
    rename_i sg a b c d e f
    split at h
    · rename_i hc
      obtain ⟨hsg, ha, hb, hc', hd, he, hf⟩ := hc
      simp only [Option.some.injEq] at h
      have da := isDig_lt a ha; have db := isDig_lt b hb; have dc := isDig_lt c hc'; have dd := isDig_lt d hd
      have de := isDig_lt e he; have df := isDig_lt f hf
      have hasc : ∀ x ∈ [sg, a, b, 58, c, d, 58, e, f], x < 128 := by
        intro x hx; simp only [List.mem_cons, List.not_mem_nil, or_false] at hx
        rcases hx with q | q | q | q | q | q | q | q | q <;> subst q <;> omega
      have hoff : parseOffset [sg, a, b, 58, c, d, 58, e, f] = .ok (offsetDur (two a b) (two c d) (two e f)) := by
        unfold parseOffset
        rw [if_neg (by rw [all_ascii _ hasc]; simp), if_neg (by simp), if_pos (by simp)]
        unfold parseOffsetCore
        rw [sliceB_ok _ 1 3 (by omega) (by simp) (boundary_ascii _ hasc 1 (by simp)) (boundary_ascii _ hasc 3 (by simp)),
          getB_ascii _ hasc, getFromB_ascii _ hasc]
        simp only [List.drop_succ_cons, List.drop_zero, List.take_succ_cons, List.take_zero, Nat.reduceSub, Nat.reduceAdd,
          List.length_cons, List.length_nil, Nat.reduceMul]
        rw [parseI64_two a b ha hb]
        simp only [Nat.le_refl, and_self, if_true, Nat.reduceLeDiff]
        rw [parseI64_two c d hc' hd]
        simp only [reduceCtorEq, if_false]
        rw [parseI64_two e f he hf]
      rw [← h]
      exact offset_finish sg [a, b, 58, c, d, 58, e, f] hsg hasc f [sg, a, b, 58, c, d, 58, e] rfl
        (isWs_digit f ⟨df.2.2.2.1, df.2.2.2.2⟩) _ _ _ (two_range a b ha hb) (two_range c d hc' hd) (two_range e f he hf) hoff
    · cases h
  · cases h

-- ------------------------------------------------------------------------------------------
-- subdivision

theorem decomp_day_bound (a : Dur) (ha : a.Canon) : 0 ≤ (decomp a.val).1 ∧ (decomp a.val).1 ≤ 1196851200 := by
  have hr := canon_range a ha
  unfold DMIN DMAX at hr
  simp only [NPCs_eq] at hr
  unfold decomp mag NS_PER_D
  simp only
  split <;> omega

/-- `Duration::subdivision`: the component times its unit, as a canonical duration; `None` for Week
    and Century (and nothing else) -/
theorem subdivision_spec (a : Dur) (ha : a.Canon) :
    (∃ r, subdivision a "d" = .ok (some r) ∧ r.Canon ∧ r.val = (decomp a.val).1 * NS_PER_D) ∧
    (∃ r, subdivision a "h" = .ok (some r) ∧ r.Canon ∧ r.val = (decomp a.val).2.1 * NS_PER_H) ∧
    (∃ r, subdivision a "min" = .ok (some r) ∧ r.Canon ∧ r.val = (decomp a.val).2.2.1 * NS_PER_MIN) ∧
    (∃ r, subdivision a "s" = .ok (some r) ∧ r.Canon ∧ r.val = (decomp a.val).2.2.2.1 * NS_PER_S) ∧
    (∃ r, subdivision a "ms" = .ok (some r) ∧ r.Canon ∧ r.val = (decomp a.val).2.2.2.2.1 * NS_PER_MS) ∧
    (∃ r, subdivision a "us" = .ok (some r) ∧ r.Canon ∧ r.val = (decomp a.val).2.2.2.2.2.1 * NS_PER_US) ∧
    (∃ r, subdivision a "ns" = .ok (some r) ∧ r.Canon ∧ r.val = (decomp a.val).2.2.2.2.2.2 * 1) ∧
    subdivision a "wk" = .ok none ∧ subdivision a "cy" = .ok none := by
  have hd := decomp_isDecomp a.val
  have hb := decomp_day_bound a ha
  have key : ∀ (f q : Int), f ∈ unitFactors → 0 ≤ q → q * f ≤ 103407943680000000000000 → q ≤ 1196851200 →
      (Dur.unitMulI64 f q).Canon ∧ (Dur.unitMulI64 f q).val = q * f := by
    intro f q hf h0 h1 h2
    have := unitMulI64_spec f q hf (by unfold fitsI64; simp only [decide_eq_true_eq]; omega)
    refine ⟨this.1, ?_⟩
    rw [this.2, clampD_mid (by
      rw [unitFactors_eq] at hf
      simp only [List.mem_cons, List.not_mem_nil, or_false] at hf
      rcases hf with h | h | h | h | h | h | h | h | h <;> subst h <;> omega) h1]
  unfold subdivision
  rw [decompose_spec a ha]
  simp only
  generalize decomp a.val = cs at *
  obtain ⟨d, h, m, s, ms, us, ns⟩ := cs
  simp only at hd hb ⊢
  obtain ⟨⟨r1, ⟨r2a, r2b⟩, ⟨r3a, r3b⟩, ⟨r4a, r4b⟩, ⟨r5a, r5b⟩, ⟨r6a, r6b⟩, ⟨r7a, r7b⟩⟩, _⟩ := hd
  unfold NS_PER_D NS_PER_H NS_PER_MIN NS_PER_S NS_PER_MS NS_PER_US
  refine ⟨⟨_, rfl, ?_⟩, ⟨_, rfl, ?_⟩, ⟨_, rfl, ?_⟩, ⟨_, rfl, ?_⟩, ⟨_, rfl, ?_⟩, ⟨_, rfl, ?_⟩, ⟨_, rfl, ?_⟩, rfl, rfl⟩
  · exact key _ d (by decide) r1 (by simp only [Gen.NANOSECONDS_PER_DAY]; omega) hb.2
  · exact key _ h (by decide) r2a (by simp only [Gen.NANOSECONDS_PER_HOUR]; omega) (by omega)
  · exact key _ m (by decide) r3a (by simp only [Gen.NANOSECONDS_PER_MINUTE]; omega) (by omega)
  · exact key _ s (by decide) r4a (by simp only [Gen.NANOSECONDS_PER_SECOND]; omega) (by omega)
  · exact key _ ms (by decide) r5a (by simp only [Gen.NANOSECONDS_PER_MILLISECOND]; omega) (by omega)
  · exact key _ us (by decide) r6a (by simp only [Gen.NANOSECONDS_PER_MICROSECOND]; omega) (by omega)
  · exact key 1 ns (by decide) r7a (by omega) (by omega)

-- ------------------------------------------------------------------------------------------
-- all spellings of the table are good unit names

theorem isPrefixOf_space : ∀ (u N r : List Nat), (∀ c ∈ u, c ≠ 32) →
    u.isPrefixOf (N ++ 32 :: r) = u.isPrefixOf N := by
  intro u
  induction u with
  | nil => intro N r _; simp
  | cons a u ih =>
    intro N r hu
    have ha := hu a List.mem_cons_self
    cases N with
    | nil =>
      simp only [List.nil_append, List.isPrefixOf]
      have : (a == 32) = false := by simpa using ha
      rw [this]; rfl
    | cons b N =>
      simp only [List.cons_append, List.isPrefixOf]
      rw [ih N r (fun c hc => hu c (List.mem_cons_of_mem _ hc))]

theorem lookupPrefix_space (N r : List Nat) : ∀ (t : List (List Nat × Nat)), (∀ e ∈ t, ∀ c ∈ e.1, c ≠ 32) →
    lookupPrefix (N ++ 32 :: r) t = lookupPrefix N t := by
  intro t
  induction t with
  | nil => intro _; rfl
  | cons e t ih =>
    intro h
    simp only [lookupPrefix]
    rw [isPrefixOf_space e.1 N r (h e List.mem_cons_self), ih (fun e' he' => h e' (List.mem_cons_of_mem _ he'))]

theorem units_no_space : ∀ e ∈ Gen.DUR_UNITS, ∀ c ∈ e.1, c ≠ 32 := by decide

/-- decidable sufficient condition for `GoodName ∧ EdgeOK` -/
def goodNameB (name : List Nat) : Bool :=
  !name.isEmpty && name.all (· != 32) &&
  (match lookupPrefix (utf8s name) Gen.DUR_UNITS with | some k => decide (k < 7) | none => false) &&
  (match name.getLast? with | some c => !isWs c | none => false) &&
  (match utf8s name with | x :: _ => !okByte x | [] => false)

theorem goodName_of_B (name : List Nat) (h : goodNameB name = true) : GoodName name ∧ EdgeOK name := by
  unfold goodNameB at h
  simp only [Bool.and_eq_true] at h
  obtain ⟨⟨⟨⟨h1, h2⟩, h3⟩, h4⟩, h5⟩ := h
  have hne : name ≠ [] := by intro e; subst e; simp at h1
  have hns : ∀ c ∈ name, c ≠ 32 := by
    rw [List.all_eq_true] at h2
    intro c hc; simpa using h2 c hc
  constructor
  · cases hl : lookupPrefix (utf8s name) Gen.DUR_UNITS with
    | none => rw [hl] at h3; cases h3
    | some k =>
      rw [hl] at h3
      simp only [decide_eq_true_eq] at h3
      exact goodName_of name k hne hns h3 hl (fun r => by rw [lookupPrefix_space _ _ _ units_no_space]; exact hl)
  · constructor
    · cases hl : name.getLast? with
      | none => rw [hl] at h4; cases h4
      | some c =>
        rw [hl] at h4
        obtain ⟨ys, hys⟩ := List.getLast?_eq_some_iff.1 hl
        exact ⟨ys, c, hys, by simpa using h4⟩
    · cases hu : utf8s name with
      | nil => rw [hu] at h5; cases h5
      | cons x t =>
        rw [hu] at h5
        exact ⟨x, t, rfl, by simpa using h5⟩

/-- every spelling of the table (documented, extra, "μs") is a good unit name denoting its unit -/
theorem spellings_good : ∀ p ∈ spellings ++ extraSpellings,
    goodNameB (codes p.1) = true ∧ slotFactor (slotOf (codes p.1)) = p.2 := by decide

-- ------------------------------------------------------------------------------------------
-- a single integer numeral with any spelling, either sign

theorem slotFactor_pos (k : Nat) : 0 < slotFactor k := by
  unfold slotFactor; split <;> decide

theorem clampD_neg_clampD (x : Int) : clampD (-(clampD x)) = clampD (-x) := by
  unfold clampD DMIN DMAX; simp only [NPCs_eq]; grind

/-- a single value in slot `k`, zeros elsewhere: the sum is that value -/
theorem sumDec_single (k : Nat) (hk : k < 7) (X : Dur) (hX : X.Canon) (h0 : 0 ≤ X.val) :
    ∃ r, sumDec (PSt.init.dec.set k X) = .ok r ∧ r.Canon ∧ r.val = X.val := by
  have hk' : k = 0 ∨ k = 1 ∨ k = 2 ∨ k = 3 ∨ k = 4 ∨ k = 5 ∨ k = 6 := by omega
  have hr := canon_range X hX
  unfold DMIN DMAX at hr
  simp only [NPCs_eq] at hr
  have z := canon_ZERO
  have zv : Dur.ZERO.val = 0 := by decide
  rcases hk' with e | e | e | e | e | e | e <;> subst e <;>
    simp only [PSt.init, List.set_cons_zero, List.set_cons_succ]
  · obtain ⟨r, a, b, c⟩ := sumDec_val X Dur.ZERO Dur.ZERO Dur.ZERO Dur.ZERO Dur.ZERO Dur.ZERO hX z z z z z z
      h0 (by omega) (by omega) (by omega) (by omega) (by omega) (by omega) (by omega)
    exact ⟨r, a, b, by omega⟩
  · obtain ⟨r, a, b, c⟩ := sumDec_val Dur.ZERO X Dur.ZERO Dur.ZERO Dur.ZERO Dur.ZERO Dur.ZERO z hX z z z z z
      (by omega) h0 (by omega) (by omega) (by omega) (by omega) (by omega) (by omega)
    exact ⟨r, a, b, by omega⟩
  · obtain ⟨r, a, b, c⟩ := sumDec_val Dur.ZERO Dur.ZERO X Dur.ZERO Dur.ZERO Dur.ZERO Dur.ZERO z z hX z z z z
      (by omega) (by omega) h0 (by omega) (by omega) (by omega) (by omega) (by omega)
    exact ⟨r, a, b, by omega⟩
  · obtain ⟨r, a, b, c⟩ := sumDec_val Dur.ZERO Dur.ZERO Dur.ZERO X Dur.ZERO Dur.ZERO Dur.ZERO z z z hX z z z
      (by omega) (by omega) (by omega) h0 (by omega) (by omega) (by omega) (by omega)
    exact ⟨r, a, b, by omega⟩
  · obtain ⟨r, a, b, c⟩ := sumDec_val Dur.ZERO Dur.ZERO Dur.ZERO Dur.ZERO X Dur.ZERO Dur.ZERO z z z z hX z z
      (by omega) (by omega) (by omega) (by omega) h0 (by omega) (by omega) (by omega)
    exact ⟨r, a, b, by omega⟩
  · obtain ⟨r, a, b, c⟩ := sumDec_val Dur.ZERO Dur.ZERO Dur.ZERO Dur.ZERO Dur.ZERO X Dur.ZERO z z z z z hX z
      (by omega) (by omega) (by omega) (by omega) (by omega) h0 (by omega) (by omega)
    exact ⟨r, a, b, by omega⟩
  · obtain ⟨r, a, b, c⟩ := sumDec_val Dur.ZERO Dur.ZERO Dur.ZERO Dur.ZERO Dur.ZERO Dur.ZERO X z z z z z z hX
      (by omega) (by omega) (by omega) (by omega) (by omega) (by omega) h0 (by omega)
    exact ⟨r, a, b, by omega⟩

/-- the sign handling of `from_str` around `parse_duration`, for a text `['-'] <digits> ' ' <name> …`
    that ends in a non-blank: `parse_offset` rejects it, the body is parsed, the result negated -/
theorem fromStr_signed (neg : Bool) (B digs name tail X : List Nat) (cl : Nat)
    (hshape : B = digs ++ [32] ++ name ++ tail) (hdne : digs ≠ []) (hdall : allDigits digs = true)
    (hx : ∃ x t, utf8s name = x :: t ∧ okByte x = false)
    (hBlast : B = X ++ [cl]) (hcl : isWs cl = false)
    (r : Dur) (hp : parseDuration B = .ok r) (hc : r.Canon) :
    ∃ r', parseDurationIdx ((if neg = true then [45] else []) ++ B) = .ok r' ∧ r'.Canon ∧
      r'.val = (if neg = true then clampD (-r.val) else r.val) := by
  obtain ⟨c0, digs', hdigs⟩ : ∃ c0 digs', digs = c0 :: digs' := by
    cases digs with
    | nil => exact absurd rfl hdne
    | cons a b => exact ⟨a, b, rfl⟩
  have hc0 : 48 ≤ c0 ∧ c0 ≤ 57 := allDigits_mem digs hdall c0 (by rw [hdigs]; exact List.mem_cons_self)
  have hBhead : B = c0 :: (digs' ++ [32] ++ name ++ tail) := by rw [hshape, hdigs]; simp
  unfold parseDurationIdx
  cases neg with
  | false =>
    simp only [Bool.false_eq_true, if_false, List.nil_append]
    rw [trim_id B c0 _ X cl hBhead hBlast (isWs_digit c0 hc0) hcl]
    refine ⟨r, ?_, hc, rfl⟩
    rw [hBhead]
    unfold fromStrCore
    simp only
    rw [if_neg (by omega), if_neg (by omega), ← hBhead]
    exact hp
  | true =>
    simp only [if_true]
    have hT1 : [45] ++ B = 45 :: B := rfl
    have hT2 : [45] ++ B = (45 :: X) ++ [cl] := by rw [hBlast]; rfl
    rw [trim_id ([45] ++ B) 45 B (45 :: X) cl hT1 hT2 (by decide) hcl, hT1]
    obtain ⟨r', hn, hc', hv'⟩ := neg_spec r hc
    refine ⟨r', ?_, hc', hv'⟩
    unfold fromStrCore
    simp only [if_true]
    obtain ⟨x, t, hx, hxb⟩ := hx
    have hbytes : utf8s (45 :: B) = (45 :: digs) ++ 32 :: x :: (t ++ utf8s tail) := by
      rw [hshape]
      have : (45 : Nat) :: (digs ++ [32] ++ name ++ tail) = [45] ++ digs ++ [32] ++ name ++ tail := by simp
      rw [this, utf8s_append, utf8s_append, utf8s_append, utf8s_append, utf8s_digits digs hdall, hx]
      simp [utf8s, utf8]
    have hoff : parseOffset (utf8s (45 :: B)) = .err := by
      rw [hbytes]
      exact parseOffset_err _ _ x (by rw [hdigs]; simp) hxb
    rw [hoff]
    simp only
    have hb : isBoundary (utf8s (45 :: B)) 1 = true := by
      have := boundary_prefix [45] B
      simpa [utf8s, utf8] using this
    have hl : 1 ≤ (utf8s (45 :: B)).length := by simp [utf8s, utf8]
    rw [sliceB_ok _ 1 _ hl (Nat.le_refl _) hb (boundary_len _)]
    simp only
    rw [hp]
    exact hn

/-- `['-'] <decimal numeral> ' ' <unit name>` for any good unit name and ANY integer that fits an
    i128: exactly clamp(±n·unit), as a canonical duration -/
theorem parse_single (neg : Bool) (n : Nat) (name : List Nat)
    (hlt : n ≤ 170141183460469231731687303715884105727) (hg : GoodName name) (hedge : EdgeOK name) :
    ∃ r, parseDurationIdx ((if neg = true then [45] else []) ++ (decDigits n ++ [32] ++ name)) = .ok r ∧ r.Canon ∧
      r.val = clampD ((if neg = true then -(n : Int) else (n : Int)) * slotFactor (slotOf name)) := by
  have hd := decDigits_spec n
  -- parse_duration of the body
  have hbody : ∃ r, parseDuration (decDigits n ++ [32] ++ name) = .ok r ∧ r.Canon ∧
      r.val = clampD ((n : Int) * slotFactor (slotOf name)) := by
    rw [parseDuration_eq]
    have hstep := item_step [] (decDigits n) name [] PSt.init hd.2.2 hd.1 (by rw [hd.2.1]; exact hlt)
      hg.1 hg.2.1 rfl (Or.inr rfl)
    simp only [List.nil_append, List.append_nil, utf8s, List.length_nil] at hstep
    have hpend := pending_loop [] (decDigits n ++ [32]) name (.int (valDigits (decDigits n) 0)) PSt.init.dec hg
      (by intro it hit; cases hit) rfl
    simp only [displayItems, List.append_nil, applyItems] at hpend
    unfold finishFrom at hpend ⊢
    rw [hstep]
    rw [hpend, hd.2.1]
    have hX := numTimes_int (slotFactor (slotOf name)) (n : Int)
    have hpos := slotFactor_pos (slotOf name)
    have hnn : 0 ≤ (n : Int) * slotFactor (slotOf name) := Int.mul_nonneg (Int.natCast_nonneg n) (by omega)
    have h0 : 0 ≤ (numTimes (slotFactor (slotOf name)) (.int (n : Int))).val := by
      rw [hX.2]; have := clampD_range ((n : Int) * slotFactor (slotOf name))
      unfold clampD DMIN DMAX; simp only [NPCs_eq]; grind
    obtain ⟨r, a, b, c⟩ := sumDec_single _ hg.2.2.1 _ hX.1 h0
    exact ⟨r, a, b, by rw [c, hX.2]⟩
  obtain ⟨r, hp, hc, hv⟩ := hbody
  obtain ⟨⟨pre, cl, hname, hcl⟩, hx⟩ := hedge
  obtain ⟨r', h1, h2, h3⟩ := fromStr_signed neg (decDigits n ++ [32] ++ name) (decDigits n) name []
    (decDigits n ++ [32] ++ pre) cl (by simp) hd.2.2 hd.1 hx (by rw [hname]; simp) hcl r hp hc
  refine ⟨r', h1, h2, ?_⟩
  rw [h3, hv]
  cases neg with
  | false => simp
  | true =>
    simp only [if_true]
    rw [clampD_neg_clampD]
    congr 1
    rw [Int.neg_mul]

end Hifi
