import Hifi.Model.Proto
import Hifi.Spec.Duration
/-
  Driver handlers for the Duration ops (C01, C02, C03, C14): model result, spec verdict on the
  implementation's result, defect-class tags, branch tag.
-/
namespace Hifi.Drive.Duration
open Hifi Hifi.Proto Hifi.Spec

def sval (d : Dur) : Int := valP d.c d.ns
def scanon (d : Dur) : Bool := canonP d.c d.ns

/-- spec verdict for an op whose result must be a canonical duration of value `want` -/
def judgeDur (impl : Impl) (want : Int) : String :=
  match impl with
  | .ok [r] =>
    match parseDur? r with
    | some r => verdict [("canonical", scanon r), ("value", sval r == want)]
    | none => "FAIL:decode"
  | .ok _ => "FAIL:decode"
  | .other w => "FAIL:" ++ w

def judgeInt (impl : Impl) (want : Int) : String :=
  match impl with
  | .ok [r] => match r.toInt? with
    | some r => verdict [("value", r == want)]
    | none => "FAIL:decode"
  | .ok _ => "FAIL:decode"
  | .other w => "FAIL:" ++ w

def tagD1 (ds : List Dur) : String := if ds.any Dur.d1class then "D1" else "-"

def satTag (x : Int) : String :=
  if x < DMIN then "sat_min" else if x > DMAX then "sat_max"
  else if x == DMIN ∨ x == DMAX then "at_bound" else if x == 0 then "zero"
  else if x < 0 then "neg" else "pos"

def cyTag (a b : Dur) : String :=
  if a.c + b.c < -32768 ∨ a.c + b.c > 32767 then "c_ovf" else "c_fit"

def handle (op : String) (args : List String) (impl : Impl) : Option Ans :=
  match op, args with
  -- ---------------------------------------------------------------- C01
  | "add", [a, b] | "addassign", [a, b] => do
    let a ← parseDur? a; let b ← parseDur? b
    let want := clampD (sval a + sval b)
    pure { model := "ok " ++ showDur (Dur.add a b), spec := judgeDur impl want,
           branch := op ++ ":" ++ satTag (sval a + sval b) ++ ":" ++ cyTag a b }
  | "sub", [a, b] | "subassign", [a, b] => do
    let a ← parseDur? a; let b ← parseDur? b
    let want := clampD (sval a - sval b)
    pure { model := "ok " ++ showDur (Dur.sub a b), spec := judgeDur impl want,
           branch := op ++ ":" ++ satTag (sval a - sval b) ++ ":" ++
             (if a.c - b.c < -32768 ∨ a.c - b.c > 32767 then "c_ovf" else "c_fit") }
  | "neg", [a] => do
    let a ← parseDur? a
    pure { model := showResDur (Dur.neg a), spec := judgeDur impl (clampD (-(sval a))),
           branch := "neg:" ++ satTag (-(sval a)) }
  | "abs", [a] => do
    let a ← parseDur? a
    pure { model := showResDur (Dur.abs a), spec := judgeDur impl (clampD (if sval a < 0 then -(sval a) else sval a)),
           branch := "abs:" ++ satTag (sval a) }
  | "muli", [a, q] | "imul", [q, a] => do
    let a ← parseDur? a; let q ← q.toInt?
    pure { model := "ok " ++ showDur (Dur.mulI64 a q), spec := judgeDur impl (clampD (sval a * q)),
           cls := tagD1 [a, Dur.unitMulI64 1 q],
           branch := op ++ ":" ++ satTag (sval a * q) }
  | "divi", [a, q] => do
    let a ← parseDur? a; let q ← q.toInt?
    if q == 0 then none else
    let want := clampD (Int.tdiv (sval a) q)
    pure { model := showResDur (Dur.divI64 a q), spec := judgeDur impl want,
           cls := tagD1 [a, Dur.unitMulI64 1 q], branch := "divi:" ++ satTag want }
  | "addu", [a, u] => do
    let a ← parseDur? a; let f ← unitFactor u
    pure { model := "ok " ++ showDur (Dur.add a (Dur.unitMulI64 f 1)), spec := judgeDur impl (clampD (sval a + f)),
           branch := "addu:" ++ u ++ ":" ++ satTag (sval a + f) }
  | "subu", [a, u] => do
    let a ← parseDur? a; let f ← unitFactor u
    pure { model := "ok " ++ showDur (Dur.sub a (Dur.unitMulI64 f 1)), spec := judgeDur impl (clampD (sval a - f)),
           branch := "subu:" ++ u ++ ":" ++ satTag (sval a - f) }
  | _, _ => none

end Hifi.Drive.Duration
