import Hifi.Model.Proto
import Hifi.Spec.Duration
/-
  Driver handlers for the Duration ops (C01, C02, C03, C14): model result, spec verdict on the
  implementation's result, defect-class tags, branch tag.
-/
namespace Hifi.Drive.Duration
open Hifi Hifi.Proto Hifi.Spec

def sval (d : Dur) : Int := valP d.c d.ns
def scanon (d : Dur) : Bool := canonP d.c d.ns

/-- spec verdict for an op whose result must be a canonical duration of value `want` -/
def judgeDur (impl : Impl) (want : Int) : String :=
  match impl with
  | .ok [r] =>
    match parseDur? r with
    | some r => verdict [("canonical", scanon r), ("value", sval r == want)]
    | none => "FAIL:decode"
  | .ok _ => "FAIL:decode"
  | .other w => "FAIL:" ++ w

def judgeInt (impl : Impl) (want : Int) : String :=
  match impl with
  | .ok [r] => match r.toInt? with
    | some r => verdict [("value", r == want)]
    | none => "FAIL:decode"
  | .ok _ => "FAIL:decode"
  | .other w => "FAIL:" ++ w

def tagD1 (ds : List Dur) : String := if ds.any Dur.d1class then "D1" else "-"

def satTag (x : Int) : String :=
  if x < DMIN then "sat_min" else if x > DMAX then "sat_max"
  else if x == DMIN ∨ x == DMAX then "at_bound" else if x == 0 then "zero"
  else if x < 0 then "neg" else "pos"

def cyTag (a b : Dur) : String :=
  if a.c + b.c < -32768 ∨ a.c + b.c > 32767 then "c_ovf" else "c_fit"

/-- the nine unit factors, from first principles (independent of the generated constants) -/
def specFactor : String → Option Int
  | "ns" => some 1
  | "us" => some (10^3)
  | "ms" => some (10^6)
  | "s" => some (10^9)
  | "min" => some (60 * 10^9)
  | "h" => some (3600 * 10^9)
  | "d" => some (86400 * 10^9)
  | "wk" => some (7 * 86400 * 10^9)
  | "cy" => some (36525 * 86400 * 10^9)
  | _ => none

def insertSorted (d : Dur) : List Dur → List Dur
  | [] => [d]
  | x :: xs => if Dur.cmp d x == 1 then x :: insertSorted d xs else d :: x :: xs

def stepTag (d s : Int) : String :=
  (if s == 0 then "zero_step" else if s < 0 then "neg_step" else "pos_step") ++ ":" ++
  (if d < 0 then "neg" else if d == 0 then "zero" else "pos") ++
  (if s != 0 ∧ d % s == 0 then ":multiple" else "") ++
  (if d < -NPCs then ":below_-1cy" else "")

def handle (op : String) (args : List String) (impl : Impl) : Option Ans :=
  match op, args with
  -- ---------------------------------------------------------------- C01
  | "add", [a, b] | "addassign", [a, b] => do
    let a ← parseDur? a; let b ← parseDur? b
    let want := clampD (sval a + sval b)
    pure { model := "ok " ++ showDur (Dur.add a b), spec := judgeDur impl want,
           branch := op ++ ":" ++ satTag (sval a + sval b) ++ ":" ++ cyTag a b }
  | "sub", [a, b] | "subassign", [a, b] => do
    let a ← parseDur? a; let b ← parseDur? b
    let want := clampD (sval a - sval b)
    pure { model := "ok " ++ showDur (Dur.sub a b), spec := judgeDur impl want,
           branch := op ++ ":" ++ satTag (sval a - sval b) ++ ":" ++
             (if a.c - b.c < -32768 ∨ a.c - b.c > 32767 then "c_ovf" else "c_fit") }
  | "neg", [a] => do
    let a ← parseDur? a
    pure { model := showResDur (Dur.neg a), spec := judgeDur impl (clampD (-(sval a))),
           branch := "neg:" ++ satTag (-(sval a)) }
  | "abs", [a] => do
    let a ← parseDur? a
    pure { model := showResDur (Dur.abs a), spec := judgeDur impl (clampD (if sval a < 0 then -(sval a) else sval a)),
           branch := "abs:" ++ satTag (sval a) }
  | "muli", [a, q] | "imul", [q, a] => do
    let a ← parseDur? a; let q ← q.toInt?
    pure { model := "ok " ++ showDur (Dur.mulI64 a q), spec := judgeDur impl (clampD (sval a * q)),
           cls := tagD1 [a, Dur.unitMulI64 1 q],
           branch := op ++ ":" ++ satTag (sval a * q) }
  | "divi", [a, q] => do
    let a ← parseDur? a; let q ← q.toInt?
    if q == 0 then none else
    let want := clampD (Int.tdiv (sval a) q)
    pure { model := showResDur (Dur.divI64 a q), spec := judgeDur impl want,
           cls := tagD1 [a, Dur.unitMulI64 1 q], branch := "divi:" ++ satTag want }
  | "addu", [a, u] | "addassign_u", [a, u] => do
    let a ← parseDur? a; let f ← unitFactor u
    pure { model := "ok " ++ showDur (Dur.add a (Dur.unitMulI64 f 1)), spec := judgeDur impl (clampD (sval a + f)),
           branch := op ++ ":" ++ u ++ ":" ++ satTag (sval a + f) }
  | "subu", [a, u] | "subassign_u", [a, u] => do
    let a ← parseDur? a; let f ← unitFactor u
    pure { model := "ok " ++ showDur (Dur.sub a (Dur.unitMulI64 f 1)), spec := judgeDur impl (clampD (sval a - f)),
           branch := op ++ ":" ++ u ++ ":" ++ satTag (sval a - f) }
  -- ---------------------------------------------------------------- C02
  | "from_total", [n] => do
    let n ← n.toInt?
    pure { model := "ok " ++ showDur (Dur.fromTotal n), spec := judgeDur impl (clampD n),
           branch := "from_total:" ++ satTag n }
  | "total", [a] => do
    let a ← parseDur? a
    pure { model := "ok " ++ toString (Dur.totalNs a), spec := judgeInt impl (sval a), cls := tagD1 [a],
           branch := "total:" ++ (if a.c ≤ -2 then "c<=-2" else if a.c == -1 then "c=-1" else "c>=0") }
  | "from_parts", [c, ns] => do
    let c ← c.toInt?; let ns ← ns.toInt?
    pure { model := "ok " ++ showDur (Dur.fromParts c ns), spec := judgeDur impl (clampD (valP c ns)),
           branch := "from_parts:extra=" ++ toString (ns / NPCs) ++ ":" ++ satTag (valP c ns) }
  | "from_trunc", [n] => do
    let n ← n.toInt?
    pure { model := "ok " ++ showDur (Dur.fromTruncated n), spec := judgeDur impl n,
           branch := "from_trunc:" ++ satTag n }
  | "try_trunc", [a] => do
    let a ← parseDur? a
    let v := sval a
    let small := decide (-2 * NPCs ≤ v ∧ v ≤ 2 * NPCs)
    let fits := decide (-9223372036854775808 ≤ v ∧ v ≤ 9223372036854775807)
    let sp := match impl with
      | .ok [r] => (match r.toInt? with
          | some r => verdict [("value", r == v)]
          | none => "FAIL:decode")
      | .other "err" => verdict [("must_succeed_within_2_centuries", !small), ("must_succeed_when_the_count_fits_an_i64", !fits)]
      | .other w => "FAIL:" ++ w
      | _ => "FAIL:decode"
    let isOk : Bool := match impl with | .ok _ => true | _ => false
    let sp := if !fits && sp == "ok" && isOk then "FAIL:must_fail_outside_i64" else sp
    pure { model := showResInt (Dur.tryTruncated a), spec := sp,
           branch := "try_trunc:" ++ (if small then "small" else if fits then "mid" else "big") }
  | "trunc", [a] => do
    let a ← parseDur? a
    let v := sval a
    let small := decide (-2 * NPCs ≤ v ∧ v ≤ 2 * NPCs)
    let fits := decide (-9223372036854775808 ≤ v ∧ v ≤ 9223372036854775807)
    let bound : Int := if v < 0 then -9223372036854775808 else 9223372036854775807
    let sp := match impl with
      | .ok [r] => (match r.toInt? with
          | some r => if small then verdict [("value", r == v)]
                      -- "never return a different number": a count that fits is returned as it is
                      else if fits then verdict [("value_when_the_count_fits_an_i64", r == v)]
                      else verdict [("bound", r == bound)]
          | none => "FAIL:decode")
      | .other w => "FAIL:" ++ w
      | _ => "FAIL:decode"
    pure { model := showResInt (Dur.truncated a), spec := sp,
           branch := "trunc:" ++ (if small then "small" else if fits then "mid" else "big") }
  | "unit_mul_i64", [u, q] | "tu_i64", [u, q] => do
    let f ← unitFactor u; let fs ← specFactor u; let q ← q.toInt?
    pure { model := "ok " ++ showDur (Dur.unitMulI64 f q), spec := judgeDur impl (clampD (q * fs)),
           branch := op ++ ":" ++ u ++ ":" ++ satTag (q * fs) ++
             (if q * fs < -9223372036854775808 ∨ q * fs > 9223372036854775807 then ":wide" else ":i64") }
  | "compose", [sg, d, h, m, sc, ms, us, ns] => do
    let sg ← sg.toInt?; let d ← d.toInt?; let h ← h.toInt?; let m ← m.toInt?; let sc ← sc.toInt?
    let ms ← ms.toInt?; let us ← us.toInt?; let ns ← ns.toInt?
    let t := d * 86400000000000 + h * 3600000000000 + m * 60000000000 + sc * 1000000000 + ms * 1000000 + us * 1000 + ns
    let want := clampD (if sg < 0 then -t else t)
    pure { model := showResDur (Dur.compose sg d h m sc ms us ns), spec := judgeDur impl want,
           branch := "compose:" ++ (if sg < 0 then "neg:" else "pos:") ++ satTag (if sg < 0 then -t else t) }
  | "from_std", [sc, ns] => do
    let sc ← sc.toInt?; let ns ← ns.toInt?
    pure { model := "ok " ++ showDur (Dur.fromStd sc ns), spec := judgeDur impl (clampD (sc * 1000000000 + ns)),
           branch := "from_std:" ++ satTag (sc * 1000000000 + ns) }
  | "into_std", [a] => do
    let a ← parseDur? a
    let v := sval a
    let (ws, wn) : Int × Int := if v < 0 then (0, 0) else (v / 1000000000, v % 1000000000)
    let (ms, mn) := Dur.intoStd a
    let sp := match impl with
      | .ok [s, n] => (match s.toInt?, n.toInt? with
          | some s, some n => verdict [("secs", s == ws), ("nanos", n == wn)]
          | _, _ => "FAIL:decode")
      | .other w => "FAIL:" ++ w
      | _ => "FAIL:decode"
    pure { model := "ok " ++ toString ms ++ " " ++ toString mn, spec := sp,
           branch := "into_std:" ++ satTag v }
  -- ---------------------------------------------------------------- C03
  | "eq", [a, b] | "ne", [a, b] => do
    let a ← parseDur? a; let b ← parseDur? b
    let va := sval a; let vb := sval b
    -- C03: equal counts are equal; == never holds between different magnitudes; the exact negation within one century
    -- of zero is "the only documented equality between different counts": PERMITTED, not demanded (audit 3) — open
    let negation := decide (va ≠ vb ∧ va = -vb ∧ -NPCs < va ∧ va < NPCs)
    let weq := decide (va = vb)
    let want := if op == "eq" then weq else !weq
    let m := if op == "eq" then Dur.eqb a b else !(Dur.eqb a b)
    pure { model := "ok " ++ bool01 m, spec := if negation then (match impl with | .ok _ => "ok" | .other w => "FAIL:" ++ w) else judgeInt impl (if want then 1 else 0),
           branch := op ++ ":" ++ (if va == vb then "same" else if va == -vb then "opposite"
              else if a.c == b.c then "same_c" else if (a.c - b.c).natAbs == 1 then "adjacent_c" else "far") }
  | "isneg", [a] => do
    let a ← parseDur? a
    pure { model := "ok " ++ bool01 (decide (a.c < 0)), spec := judgeInt impl (if sval a < 0 then 1 else 0), branch := "isneg:" ++ (if sval a < 0 then "neg" else if sval a == 0 then "zero" else "pos") }
  | "lt", [a, b] | "le", [a, b] | "gt", [a, b] | "ge", [a, b] => do
    let a ← parseDur? a; let b ← parseDur? b
    let va := sval a; let vb := sval b
    let c := Dur.cmp a b
    let (m, want) := match op with
      | "lt" => (c == -1, decide (va < vb))
      | "le" => (c != 1, decide (va ≤ vb))
      | "gt" => (c == 1, decide (va > vb))
      | _ => (c != -1, decide (va ≥ vb))
    pure { model := "ok " ++ bool01 m, spec := judgeInt impl (if want then 1 else 0),
           branch := op ++ ":" ++ (if va == vb then "same" else if a.c == b.c then "same_c" else "diff_c") }
  | "cmp_via", [how, _, _] => do
    -- C03 on the RESULT of an arithmetic entry point, in whatever form that entry point left it (raw parts as printed):
    -- against the freshly constructed duration of the same parts and its neighbours, order and equality follow the
    -- signed counts (spec only; the value of the result itself is C01's subject)
    let grp (x : Dur) (z c rc e re : String) : Option (List (String × Bool)) := do
      let z ← parseDur? z
      let vx := sval x; let vz := sval z
      let w : Int := if vx < vz then -1 else if vx > vz then 1 else 0
      let negation := decide (vx ≠ vz ∧ vx = -vz ∧ -NPCs < vx ∧ vx < NPCs)
      pure [("cmp_by_count", c == toString w), ("reverse_cmp_by_count", rc == toString (-w)),
            ("eq_by_count", negation || e == bool01 (w == 0)), ("reverse_eq_by_count", negation || re == bool01 (w == 0))]
    let sp := match impl with
      | .ok [x, z1, c1, r1, e1, q1, z2, c2, r2, e2, q2, z3, c3, r3, e3, q3] =>
        (match parseDur? x with
         | some x => (match grp x z1 c1 r1 e1 q1, grp x z2 c2 r2 e2 q2, grp x z3 c3 r3 e3 q3 with
            | some a, some b, some c => verdict (a ++ b ++ c)
            | _, _, _ => "FAIL:decode")
         | none => "FAIL:decode")
      | .other w => "FAIL:" ++ w
      | _ => "FAIL:decode"
    pure { model := "-", spec := sp, branch := "cmp_via:" ++ how }
  | "cmp", [a, b] => do
    let a ← parseDur? a; let b ← parseDur? b
    let va := sval a; let vb := sval b
    let want : Int := if va < vb then -1 else if va > vb then 1 else 0
    pure { model := "ok " ++ toString (Dur.cmp a b), spec := judgeInt impl want,
           branch := "cmp:" ++ (if va == vb then "same" else if a.c == b.c then "same_c" else "diff_c") }
  | "ordfns", [a, b, c] => do
    -- C03 through the std entry points of the order (Ord::min / max, core::cmp::min / max, clamp, Iterator::min / max):
    -- spec only, by the signed counts
    let a ← parseDur? a; let b ← parseDur? b; let c ← parseDur? c
    let va := sval a; let vb := sval b; let vc := sval c
    let mn (x y : Int) : Int := if x < y then x else y
    let mx (x y : Int) : Int := if x > y then x else y
    let lo := mn vb vc; let hi := mx vb vc
    let want : List Int := [mn va vb, mx va vb, mn va vb, mx va vb, (if va < lo then lo else if va > hi then hi else va),
                            mn va (mn vb vc), mx va (mx vb vc)]
    let sp := match impl with
      | .ok rs => (match rs.mapM parseDur? with
          | some ds => verdict [("ordered_by_signed_count", ds.map sval == want), ("canonical", ds.all scanon)]
          | none => "FAIL:decode")
      | .other w => "FAIL:" ++ w
    pure { model := "-", spec := sp, branch := "ordfns:" ++ (if va == vb then "same" else if va < vb then "lt" else "gt") }
  | "min", [a, b] | "max", [a, b] => do
    let a ← parseDur? a; let b ← parseDur? b
    let va := sval a; let vb := sval b
    let want := if op == "min" then (if va < vb then va else vb) else (if va > vb then va else vb)
    let m := if op == "min" then Dur.min a b else Dur.max a b
    pure { model := "ok " ++ showDur m, spec := judgeDur impl want,
           branch := op ++ ":" ++ (if va == vb then "same" else if va < vb then "lt" else "gt") }
  | "equ", [a, u] => do
    let a ← parseDur? a; let f ← unitFactor u; let fs ← specFactor u
    let va := sval a
    let want := decide (va = fs ∨ (va = -fs ∧ fs < NPCs))
    pure { model := "ok " ++ bool01 (Dur.eqb a (Dur.unitMulI64 f 1)), spec := judgeInt impl (if want then 1 else 0),
           branch := "equ:" ++ u ++ ":" ++ (if va == fs then "same" else if va == -fs then "opposite" else "other") }
  | "cmpu", [a, u] => do
    let a ← parseDur? a; let f ← unitFactor u; let fs ← specFactor u
    let va := sval a
    let want : Int := if va < fs then -1 else if va > fs then 1 else 0
    pure { model := "ok " ++ toString (Dur.cmp a (Dur.unitMulI64 f 1)), spec := judgeInt impl want,
           branch := "cmpu:" ++ u ++ ":" ++ toString want }
  | "sort3", [a, b, c] => do
    let a ← parseDur? a; let b ← parseDur? b; let c ← parseDur? c
    let srt := insertSorted a (insertSorted b [c])
    let sp := match impl with
      | .ok [x, y, z] => (match parseDur? x, parseDur? y, parseDur? z with
          | some x, some y, some z =>
            let vs := [sval a, sval b, sval c]
            let rs := [sval x, sval y, sval z]
            verdict [("ordered", decide (sval x ≤ sval y ∧ sval y ≤ sval z)),
                     ("permutation", vs.all (fun v => vs.count v == rs.count v)),
                     ("canonical", scanon x && scanon y && scanon z)]
          | _, _, _ => "FAIL:decode")
      | .other w => "FAIL:" ++ w
      | _ => "FAIL:decode"
    pure { model := "ok " ++ " ".intercalate (srt.map showDur), spec := sp, branch := "sort3" }
  | "addgt", [a, b] => do
    let a ← parseDur? a; let b ← parseDur? b
    let va := sval a; let vb := sval b
    let sat := decide (va + vb < DMIN ∨ va + vb > DMAX)
    let sp := if sat then (match impl with | .ok [_] => "ok" | .other w => "FAIL:" ++ w | _ => "FAIL:decode")
              else judgeInt impl (if vb > 0 then 1 else 0)
    pure { model := "ok " ++ bool01 (Dur.gt (Dur.add a b) a), spec := sp,
           branch := "addgt:" ++ (if sat then "saturating" else if vb > 0 then "pos" else if vb == 0 then "zero_b" else "neg") }
  -- ---------------------------------------------------------------- C14
  | "floor", [d, st] => do
    let d ← parseDur? d; let st ← parseDur? st
    let want := sfloor (sval d) (sval st)
    pure { model := "ok " ++ showDur (Dur.floor d st), spec := judgeDur impl want, cls := tagD1 [d, st],
           branch := "floor:" ++ stepTag (sval d) (sval st) }
  | "ceil", [d, st] => do
    let d ← parseDur? d; let st ← parseDur? st
    let want := sceil (sval d) (sval st)
    pure { model := showResDur (Dur.ceil d st), spec := judgeDur impl want, cls := tagD1 [d, st, Dur.floor d st],
           branch := "ceil:" ++ stepTag (sval d) (sval st) }
  | "round", [d, st] => do
    let d ← parseDur? d; let st ← parseDur? st
    let want := sround (sval d) (sval st)
    pure { model := showResDur (Dur.round d st), spec := judgeDur impl want, cls := tagD1 [d, st, Dur.floor d st],
           branch := "round:" ++ stepTag (sval d) (sval st) }
  | "approx", [d] => do
    let d ← parseDur? d
    let v := sval d
    let m := if v < 0 then -v else v
    let unit : Int := if m ≥ 86400000000000 then 86400000000000 else if m ≥ 3600000000000 then 3600000000000
      else if m ≥ 60000000000 then 60000000000 else if m ≥ 1000000000 then 1000000000
      else if m ≥ 1000000 then 1000000 else if m ≥ 1000 then 1000 else 1
    let mres := match Dur.decompose d with
      | .ok (_, dd, h, mi, sc, ms, us, _) =>
        let f : Int := if dd > 0 then Gen.NANOSECONDS_PER_DAY else if h > 0 then Gen.NANOSECONDS_PER_HOUR
          else if mi > 0 then Gen.NANOSECONDS_PER_MINUTE else if sc > 0 then Gen.NANOSECONDS_PER_SECOND
          else if ms > 0 then Gen.NANOSECONDS_PER_MILLISECOND else if us > 0 then Gen.NANOSECONDS_PER_MICROSECOND else 1
        Dur.round d (Dur.unitMulI64 f 1)
      | .err => .err
      | .panic => .panic
    pure { model := showResDur mres, spec := judgeDur impl (sround v unit), cls := tagD1 [d, Dur.floor d (Dur.unitMulI64 unit 1)],
           branch := "approx:" ++ toString unit ++ (if v < 0 then ":neg" else ":pos") }
  | _, _ => none

end Hifi.Drive.Duration
