import Hifi.Model.EpochText
import Hifi.Spec.EpochText
import Hifi.Drive.Calendar
import Hifi.Drive.Epoch
/-
  Driver handlers for C10 (epoch text / serde round trip) and C13E (totality of the epoch and enum
  parsers): model result (Model/EpochText), spec verdict on the IMPLEMENTATION's result written with
  Spec/EpochText + Spec/Calendar only, defect tag (D10 where the rejection clause meets it), branch tag.
-/
namespace Hifi.Drive.EpochText
open Hifi Hifi.Proto Hifi.Spec Hifi.Txt
open Hifi.Drive.Calendar (bytesOfHex hexOfCodes specDate sval scanon hex16)
open Hifi.Drive.Epoch (parseEp? showEp)

/-! ### protocol helpers -/

/-- code points of a valid UTF-8 byte sequence -/
def decodeUtf8 : Nat → List Nat → List Nat
  | 0, _ => []
  | _, [] => []
  | f + 1, b :: r =>
    if b < 128 then b :: decodeUtf8 f r
    else if b < 224 then
      match r with
      | b1 :: r' => ((b % 32) * 64 + b1 % 64) :: decodeUtf8 f r'
      | _ => []
    else if b < 240 then
      match r with
      | b1 :: b2 :: r' => ((b % 16) * 4096 + (b1 % 64) * 64 + b2 % 64) :: decodeUtf8 f r'
      | _ => []
    else
      match r with
      | b1 :: b2 :: b3 :: r' => ((b % 8) * 262144 + (b1 % 64) * 4096 + (b2 % 64) * 64 + b3 % 64) :: decodeUtf8 f r'
      | _ => []

def codesOfHex (h : String) : Option (List Nat) := (bytesOfHex h).map (fun bs => decodeUtf8 bs.length bs)

def showResEp : Res Ep → String
  | .ok e => "ok " ++ showEp e
  | .err => "err"
  | .panic => "panic"

def showResCodes : Res (List Nat) → String
  | .ok cs => "ok " ++ hexOfCodes cs
  | .err => "err"
  | .panic => "panic"

def bindR {α β} (r : Res α) (f : α → Res β) : Res β :=
  match r with
  | .ok a => f a
  | .err => .err
  | .panic => .panic

/-! ### spec side -/

/-- the fields the spec calendar assigns to an epoch: (date, h, mi, s, ns) -/
def specFields (e : Dur) (ts : TS) : Option (Date × Int × Int × Int × Int) :=
  match specDate e ts with
  | some (dt, tod) =>
    some (dt, tod / 3600000000000, tod / 60000000000 % 60, tod / 1000000000 % 60, tod % 1000000000)
  | none => none

/-- the text the property expects from a formatter -/
def expectedText (kind : String) (e : Dur) (ts : TS) : Option (List Nat) :=
  match specFields e ts with
  | some (dt, h, mi, s, ns) =>
    let disp := renderText .D dt h mi s (if ns = 0 then 0 else 9) ns false 0 0 ts.name
    match kind with
    | "display" | "gregstr" => some disp
    | "isofmt" => some (renderIso8601 dt h mi s ns ts.name)
    | "rfc3339" => if ts = .UTC then some (renderRfcUtc dt h mi s ns) else none
    | "json" => some ([34] ++ disp ++ [34])
    | _ => none
  | none => none

def modelText (kind : String) (e : Ep) : Option (Res (List Nat)) :=
  match kind with
  | "display" => some (displayEpoch e.dur e.ts)
  | "gregstr" => some (toGregorianStr e.dur e.ts)
  | "isofmt" => some (isoFormatterOutput e.dur e.ts)
  | "rfc3339" => if e.ts = .UTC then some (toRfc3339 e.dur) else none
  | "json" => some (jsonOfEpoch e.dur e.ts)
  | _ => none

def fracTag (e : Dur) : String := if sval e % 1000000000 = 0 then "whole_s" else "frac"

def yearTag (e : Dur) (ts : TS) : String :=
  match specDate e ts with
  | some (dt, _) => if dt.y < 1 then "y<1" else if dt.y < 1900 then "y<1900" else if dt.y ≤ 9999 then "y>=1900" else "y>9999"
  | none => "y?"

/-- the scale a written suffix denotes (Display names and the RINEX spellings) -/
def scaleOfSuffix (sfx : String) : Option TS :=
  match sfx with
  | "GPS" => some .GPST | "GAL" => some .GST | "BDS" => some .BDT | "QZSS" => some .QZSST
  | s => TS.ofString? s

/-- the pairs the property REQUIRES ("the JD, MJD and SEC numeric forms in the uniform time scales and UTC"):
    each of the three prefixes with TAI, TT, GPST, GST, BDT, QZSST and UTC, the scale written with its
    Display name.  Other pairs (ET/TDB, the RINEX spellings GPS GAL BDS QZSS) are judged when accepted -/
def numericRequired (sfx : String) (ts : TS) : Bool :=
  sfx == ts.name && (ts.isUniform || ts == .UTC)

/-- spec side: surrounding ASCII blanks do not matter -/
def stripBlanks (cs : List Nat) : List Nat := ((cs.dropWhile (· == 32)).reverse.dropWhile (· == 32)).reverse

/-- second = 60: valid iff the fields minus the written offset are 23:59 of a leap-second day.  In UTC the
    text denotes the instant INSIDE the inserted second (the library's UTC count has no value for it:
    recorded finding D9b when it is read as `:59.f`); in the other scales it must give the count of 23:59:59.f,
    as the constructors do (C08).  Every other `:60` must be an error. -/
def judgeSecond60 (impl : Impl) (padded : Bool) (form : Form) (date : Date) (h mi : Int) (nd : Nat) (frac : Int)
    (neg : Bool) (oh om : Int) (ts : TS) : String × String :=
  let scale := form.scaleOf ts.name
  let off := offsetMin form neg oh om
  -- open (audit 3): the property says nothing on `:60` in a scale without leap seconds (C10 is silent, C08 speaks of
  -- the constructors), nor on 1971-12-31 (the first table entry is the initial 10 s offset: no second was inserted on
  -- that day): there an error is accepted as well as the value the constructors give
  let openCase := scale ≠ "UTC" || decide (ownMinute date h mi off / 1440 + 1 = dayNumber ⟨1972, 1, 1⟩)
  if leapLabelOwn iersLeapDates date h mi off then
    match impl with
    | .ok [r] =>
      (match parseEp? r with
       | some r =>
         if scale = "UTC" then
           (verdict [("scale", r.ts.name == scale), ("canonical", scanon r.dur),
                     ("denoted_instant", instant Hifi.Drive.Epoch.iersTbl "UTC" (sval r.dur) ==
                        some (denotedLeapInstant Hifi.Drive.Epoch.iersTbl date h mi off nd frac))],
            if sval r.dur == lastLabelNs date h mi off nd frac then "D9b" else "-")
         else
           (verdict [("scale", r.ts.name == scale), ("canonical", scanon r.dur),
                     ("count_of_23_59_59", sval r.dur == lastLabelNs date h mi off nd frac - refOffsetNs scale)], "-")
       | none => ("FAIL:decode", "-"))
    | .ok _ => ("FAIL:decode", "-")
    | .other "err" => if padded || openCase then ("ok", "-") else ("FAIL:rejected_valid", "-")
    | .other w => ("FAIL:" ++ w, "-")
  else
    match impl with
    | .other "err" => ("ok", "-")
    | .ok _ => ("FAIL:accepted_invalid_second_60", "-")
    | .other w => ("FAIL:" ++ w, "-")

def judgeParse (impl : Impl) (codes : List Nat) (form : Form) (f : List Int) (nd : Nat) (frac : Int) (neg : Bool)
    (oh om : Int) (ts : TS) : String × String :=
  match f with
  | [y, mo, d, h, mi, s] =>
    let date : Date := ⟨y, mo, d⟩
    -- a text padded with blanks denotes what its core denotes; for padded texts an error is accepted as well
    -- ("value or error, never another instant")
    if renderText form date h mi s nd frac neg oh om ts.name ≠ stripBlanks codes then ("FAIL:generator_text_differs_from_spec_render", "-")
    else if s = 60 ∧ inGrammar60 date h mi nd frac oh om then
      judgeSecond60 impl (stripBlanks codes ≠ codes) form date h mi nd frac neg oh om ts
    else if !(inGrammar date h mi s nd frac oh om || (form.hasOffset && inGrammarYear0 date h mi s nd frac neg oh om)) then ("na", "-")
    else match impl with
      | .ok [r] =>
        (match parseEp? r with
         | some r => (verdict [("scale", r.ts.name == form.scaleOf ts.name), ("canonical", scanon r.dur),
                              ("denoted_instant", sval r.dur == denoted form ts.name date h mi s nd frac neg oh om)], "-")
         | none => ("FAIL:decode", "-"))
      | .ok _ => ("FAIL:decode", "-")
      | .other "err" => if stripBlanks codes ≠ codes then ("ok", "-") else ("FAIL:rejected_valid", "-")
      | .other w => ("FAIL:" ++ w, "-")
  | _ => ("FAIL:decode", "-")


/-- C13: never a panic or a hang; well-formed text with an out-of-range field must be an error -/
def judgeTotal (impl : Impl) (codes : List Nat) (stamp : Bool) : String × String :=
  match impl with
  | .other "err" => ("ok", "-")
  | .other w => ("FAIL:" ++ w, "-")
  | .ok _ =>
    if !stamp then ("ok", "-") else
    match readStamp (stripBlanks codes) with
    | some (date, h, mi, s, rest) =>
      if wellFormedTail rest && stampMustReject iersLeapDates date h mi s rest then
        ("FAIL:accepted_out_of_range_fields", if Cal.d10class date.y date.m date.d then "D10" else "-")
      else ("ok", "-")
    | none => ("ok", "-")

def stampTag (codes : List Nat) : String :=
  match readStamp (stripBlanks codes) with
  | some (date, h, mi, s, rest) =>
    if !(wellFormedTail rest) then "stamp+junk"
    else if stampMustReject iersLeapDates date h mi s rest then "wellformed:out_of_range"
    else "wellformed:in_range"
  | none =>
    if startsWith (Txt.trim codes) [74, 68] || startsWith (Txt.trim codes) [77, 74, 68] || startsWith (Txt.trim codes) [83, 69, 67]
    then "numeric" else "malformed"

def asciiTag (codes : List Nat) : String := if isAscii codes then "ascii" else "nonascii"

def outcomeTag {α} : Res α → String
  | .ok _ => "ok"
  | .err => "err"
  | .panic => "panic"

def stripQuotes (cs : List Nat) : Option (List Nat) :=
  match cs with
  | 34 :: r =>
    (match r.reverse with
     | 34 :: body => if body.all (fun c => decide (c ≠ 34 ∧ c ≠ 92 ∧ 32 ≤ c)) then some body.reverse else none
     | _ => none)
  | _ => none

def handle (op : String) (args : List String) (impl : Impl) : Option Ans :=
  match op, args with
  -- ---------------------------------------------------------------- C10: formatters
  | "edisplay", [e] | "rfc3339", [e] | "isofmt", [e] | "ejson", [e] | "gregstr", [e, _] => do
    let e ← parseEp? e
    let kind := match op with
      | "edisplay" => "display" | "ejson" => "json" | k => k
    let scaleOk : Bool := match op, args with
      | "gregstr", [_, t] => t == e.ts.name
      | _, _ => true
    let m := if scaleOk then modelText kind e else none
    let sp := match impl, expectedText kind e.dur e.ts with
      | .ok [hex], some want =>
        if !scaleOk then "na" else
        (match codesOfHex hex with
         | some got => verdict [("text", got == want)]
         | none => "FAIL:decode")
      | .ok _, _ => if scaleOk then "FAIL:decode" else "na"
      | .other w, _ => "FAIL:" ++ w
    pure { model := (match m with | some r => showResCodes r | none => "unmodelled"), spec := sp,
           branch := op ++ ":" ++ e.ts.name ++ ":" ++ fracTag e.dur ++ ":" ++ yearTag e.dur e.ts }
  | "tz_rt", [_kind, e, off] => do
    -- C10: "the RFC 3339 rendering of a UTC epoch parses back to it", the rendering carrying any offset of whole minutes
    -- within +/-23:59 (spec only; other offsets cannot be written as +hh:mm: nothing is demanded)
    let e ← parseEp? e
    let off ← parseDur? off
    let sp := if sval off % 60000000000 != 0 || sval off < -86340000000000 || sval off > 86340000000000 || e.ts != TS.UTC then "na" else match impl with
      | .ok [_, r] => verdict [("identical_epoch", r == showEp e)]
      | .ok _ => "FAIL:decode"
      | .other w => "FAIL:" ++ w
    pure { model := "-", spec := sp, branch := "tz_rt:" ++ fracTag e.dur }
  | "ert", [kind, e] => do
    let e ← parseEp? e
    let m : Option (Res Ep) := (modelText kind e).map (fun t => bindR t (fun cs =>
      if kind == "json" then (match stripQuotes cs with | some b => epochFromStrIdx b | none => .err) else epochFromStrIdx cs))
    let sp := match impl with
      | .ok [r] => verdict [("identical_epoch", r == showEp e)]
      | .ok _ => "FAIL:decode"
      | .other w => "FAIL:" ++ w
    pure { model := (match m with | some r => showResEp r | none => "unmodelled"), spec := sp,
           branch := "ert:" ++ kind ++ ":" ++ e.ts.name ++ ":" ++ fracTag e.dur ++ ":" ++ yearTag e.dur e.ts }
  -- ---------------------------------------------------------------- C10: parsers on generated text
  | "eparse", [hex, form, y, mo, d, h, mi, s, nd, frac, sg, oh, om, ts]
  | "gregparse", [hex, form, y, mo, d, h, mi, s, nd, frac, sg, oh, om, ts]
  | "ejsonparse", [hex, form, y, mo, d, h, mi, s, nd, frac, sg, oh, om, ts] => do
    let codes ← codesOfHex hex
    let form ← Form.ofString? form
    let f ← Hifi.Drive.Calendar.ints? [y, mo, d, h, mi, s]
    let nd ← nd.toNat?; let frac ← frac.toInt?; let oh ← oh.toInt?; let om ← om.toInt?
    let ts ← TS.ofString? ts
    let neg := sg == "m"
    let payload : Option (List Nat) := if op == "ejsonparse" then stripQuotes codes else some codes
    let m : Res Ep := match payload with
      | some p => if op == "gregparse" then fromGregorianStrIdx p else epochFromStrIdx p
      | none => .err
    let (sp, cls) := match payload with
      | some p => judgeParse impl p form f nd frac neg oh om ts
      | none => ("FAIL:decode", "-")
    let s60 : Bool := match f with | [_, _, _, _, _, sec] => sec == 60 | _ => false
    pure { model := showResEp m, spec := sp, cls := cls,
           branch := op ++ ":" ++ (toString (repr form)).replace "Hifi.Spec.Form." "" ++ ":nd" ++ toString nd ++
             (if s60 then ":s60:" ++ ts.name ++ (match m with | .ok _ => ":ok" | _ => ":err") else "") ++
             (if form == .O || form == .OT then (if neg then ":neg" else ":pos") ++ (if oh ≥ 10 then ":hh>=10" else ":hh<10") else "") }
  | "nparse", [hex, pfx, dechex, sfx] => do
    let codes ← codesOfHex hex
    let dec ← codesOfHex dechex
    let ts ← scaleOfSuffix sfx
    let m := epochFromStrIdx codes
    -- layout: the documented one is `PREFIX␣x␣SCALE` (one blank, one or two before the scale); the parser also takes the
    -- numeral directly after the prefix, tabs, and no blank before the scale: such texts denote the same value, and for
    -- them an error is accepted as well ("value or error, never another instant")
    let standard := renderNumeric pfx dec 1 sfx == codes || renderNumeric pfx dec 2 sfx == codes
    let isBl (c : Nat) : Bool := c == 32 || c == 9
    let pc := scaleCodes pfx; let sc := scaleCodes sfx
    let middle := (codes.drop pc.length).take (codes.length - pc.length - sc.length)
    let variant := codes.take pc.length == pc && codes.drop (codes.length - sc.length) == sc &&
                   ((middle.dropWhile isBl).reverse.dropWhile isBl).reverse == dec
    let sp :=
      if !standard && !variant then "FAIL:generator_text_differs_from_spec_render"
      else match readDecimal dec, impl with
        | some (sg, mant, ex), .ok [r] =>
          (match parseEp? r with
           | some r => verdict [("scale", r.ts == ts), ("canonical", scanon r.dur),
                                ("within_float_resolution", withinResolution pfx ts.name sg mant ex (sval r.dur) 2)]
           | none => "FAIL:decode")
        | none, _ => "FAIL:decode"
        | _, .ok _ => "FAIL:decode"
        | _, .other "err" => if standard && numericRequired sfx ts then "FAIL:rejected_valid" else "na"
        | _, .other w => "FAIL:" ++ w
    let isErr : Bool := match m with | .err => true | _ => false
    pure { model := showResEp m, spec := sp,
           branch := "nparse:" ++ pfx ++ ":" ++ sfx ++ (if standard then "" else ":layout") ++ (if isErr then ":err" else ":ok") }
  -- ---------------------------------------------------------------- C13E: totality stream
  | "p_epoch", [hex] | "p_greg", [hex] => do
    let codes ← codesOfHex hex
    let m := if op == "p_greg" then fromGregorianStrIdx codes else epochFromStrIdx codes
    let (sp, cls) := judgeTotal impl codes true
    pure { model := showResEp m, spec := sp, cls := cls,
           branch := op ++ ":" ++ outcomeTag m ++ ":" ++ asciiTag codes ++ ":" ++ stampTag codes }
  | "p_ts", [hex] => do
    let codes ← codesOfHex hex
    let m := tsFromStr codes
    pure { model := (match m with | some t => "ok " ++ t.name | none => "err"), spec := (judgeTotal impl codes false).1,
           branch := "p_ts:" ++ (if m.isSome then "ok" else "err") ++ ":" ++ asciiTag codes }
  | "p_wd", [hex] => do
    let codes ← codesOfHex hex
    let m := weekdayFromStr codes
    pure { model := (match m with | some t => "ok " ++ toString t | none => "err"), spec := (judgeTotal impl codes false).1,
           branch := "p_wd:" ++ (if m.isSome then "ok" else "err") ++ ":" ++ asciiTag codes }
  | "p_month", [hex] => do
    let codes ← codesOfHex hex
    let m := monthFromStr codes
    pure { model := (match m with | some t => "ok " ++ toString t | none => "err"), spec := (judgeTotal impl codes false).1,
           branch := "p_month:" ++ (if m.isSome then "ok" else "err") ++ ":" ++ asciiTag codes }
  -- ---------------------------------------------------------------- contract of lexical_core
  | "elex_i32", [hex] | "elex_i64", [hex] => do
    let codes ← codesOfHex hex
    let m := if op == "elex_i32" then lexI32 codes else lexI64 codes
    pure { model := (match m with | some v => "ok " ++ toString v | none => "err"), spec := (judgeTotal impl codes false).1,
           branch := op ++ ":" ++ (if m.isSome then "ok" else "err") }
  | "elex_f64", [hex] => do
    let codes ← codesOfHex hex
    let m := lexF64 codes
    pure { model := (match m with | some v => "ok " ++ hex16 v | none => "err"), spec := (judgeTotal impl codes false).1,
           branch := "elex_f64:" ++ (match m with
             | some v => if finiteBits v then (if v % 2 ^ 63 / 2 ^ 52 = 0 then "subnormal_or_zero" else "finite") else "nonfinite"
             | none => "err") }
  | _, _ => none

end Hifi.Drive.EpochText
