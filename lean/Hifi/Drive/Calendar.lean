import Hifi.Model.Proto
import Hifi.Model.Calendar
import Hifi.Model.ViewsFloat
import Hifi.Spec.Duration
import Hifi.Spec.Calendar
/-
  Driver handlers for the calendar ops (C08, C09): model result, spec verdict on the
  implementation's result (written with Spec/Calendar only), defect-class tag D10, branch tag.
-/
namespace Hifi.Drive.Calendar
open Hifi Hifi.Proto Hifi.Spec

/-! ### protocol helpers -/

def parseEpoch? (s : String) : Option (Dur × TS) :=
  match s.splitOn ":" with
  | [c, ns, ts] => do
    let c ← c.toInt?
    let ns ← ns.toInt?
    let ts ← TS.ofString? ts
    pure (⟨c, ns⟩, ts)
  | _ => none

def showEpoch (d : Dur) (ts : TS) : String := showDur d ++ ":" ++ ts.name

def showResEpoch (ts : TS) : Res Dur → String
  | .ok d => "ok " ++ showEpoch d ts
  | .err => "err"
  | .panic => "panic"

def hexDigit (n : Nat) : Char := if n < 10 then Char.ofNat (48 + n) else Char.ofNat (87 + n)

/-- hex of the UTF-8 bytes of a string given as code points (`-` for the empty string) -/
def hexOfCodes (cs : List Nat) : String :=
  if cs.isEmpty then "-" else
  String.ofList (((String.ofList (cs.map Char.ofNat)).toUTF8.toList).flatMap
    (fun b => [hexDigit (b.toNat / 16), hexDigit (b.toNat % 16)]))

def hexVal (c : Char) : Option Nat :=
  if '0' ≤ c ∧ c ≤ '9' then some (c.toNat - 48)
  else if 'a' ≤ c ∧ c ≤ 'f' then some (c.toNat - 87)
  else none

def bytesOfHexAux : List Char → List Nat → Option (List Nat)
  | [], acc => some acc.reverse
  | [_], _ => none
  | a :: b :: rest, acc => do
    let x ← hexVal a
    let y ← hexVal b
    bytesOfHexAux rest ((x * 16 + y) :: acc)

/-- bytes of a protocol string (`-` = empty) -/
def bytesOfHex (s : String) : Option (List Nat) := if s = "-" then some [] else bytesOfHexAux s.toList []

def showResCodes : Res (List Nat) → String
  | .ok cs => "ok " ++ hexOfCodes cs
  | .err => "err"
  | .panic => "panic"

def ints? (xs : List String) : Option (List Int) := xs.mapM (fun s => s.toInt?)

/-! ### spec side -/

def sval (d : Dur) : Int := valP d.c d.ns
def scanon (d : Dur) : Bool := canonP d.c d.ns

/-- verdict of C08 on one call of a constructor: `res` is the implementation's outcome
    (`some` duration + scale name, or `none` for an error) -/
def judgeBuild (y mo d h mi s ns : Int) (ts : TS) (res : Option (Dur × String)) : String :=
  let date : Date := ⟨y, mo, d⟩
  -- 1971-12-31T23:59:60 is left open (audit 3): 1972-01-01 is the table's first entry (the initial 10 s), so the date
  -- "immediately precedes an entry of the table" (not must-reject) but no leap second was inserted on it (not must-accept)
  let open71 := decide (date = ⟨1971, 12, 31⟩ ∧ s = 60)
  let acc := mustAccept iersLeapDates date h mi s ns && !open71
  let rej := mustReject iersLeapDates date h mi s ns
  match res with
  | some (e, tsn) =>
    if rej then "FAIL:accepted_invalid"
    else if tsn ≠ ts.name then "FAIL:scale"
    else if acc ∧ s < 60 then
      -- the exact count is demanded where a Duration can hold it (+/- 32 768 centuries); beyond, the result is a bound
      -- or an error ("a bound is hit" is C01's subject) and only the canonical form is judged
      let want := elapsedNs ts.name date h mi s ns
      if want < -32768 * 3155760000000000000 ∨ want > 32768 * 3155760000000000000 then verdict [("canonical", scanon e)]
      else verdict [("canonical", scanon e), ("elapsed", sval e == want)]
    else if acc then verdict [("canonical", scanon e)]
    else "ok"
  | none =>
    -- a valid date whose count no Duration can hold may also be an error (the code answers Overflow past year 5 885 416)
    let want := elapsedNs ts.name date h mi s ns
    if acc && decide (-32768 * 3155760000000000000 ≤ want ∧ want ≤ 32768 * 3155760000000000000) then "FAIL:rejected_valid" else "ok"

def outcomeTag (y mo d h mi s ns : Int) : String :=
  let date : Date := ⟨y, mo, d⟩
  if mustReject iersLeapDates date h mi s ns then
    (if validDate date then "reject:time" else if s = 60 then "reject:date+leapsec" else "reject:date")
  else if mustAccept iersLeapDates date h mi s ns then (if s = 60 then "accept:leapsec" else "accept")
  else "open"

def eraTag (y : Int) : String :=
  if y < 1 then "y<1" else if y < 1900 then "y<1900" else if y ≤ 9999 then "y>=1900" else "y>9999"

def todTag (h mi s ns : Int) : String :=
  if h = 0 ∧ mi = 0 ∧ s = 0 ∧ ns = 0 then "midnight"
  else if h = 23 ∧ mi = 59 ∧ s = 59 ∧ ns = 999999999 then "last_ns" else "tod"

def implEpoch (impl : Impl) : Option (Option (Dur × String)) :=
  match impl with
  | .ok [e] =>
    match e.splitOn ":" with
    | [c, ns, ts] => do
      let c ← c.toInt?
      let ns ← ns.toInt?
      pure (some (⟨c, ns⟩, ts))
    | _ => none
  | .other "err" => some none
  | _ => none

/-- an op that builds an epoch from fields; `panics` = the `from_gregorian*` family (`expect`) -/
def build (op : String) (f : List Int) (ts : TS) (panics : Bool) (impl : Impl) : Option Ans :=
  match f with
  | [y, mo, d, h, mi, s, ns] =>
    let m := if panics then Cal.fromGregorian y mo d h mi s ns ts else Cal.maybeFromGregorian y mo d h mi s ns ts
    let sp :=
      match impl with
      | .other "panic" =>
        -- documented outcome of the panicking constructors on input they must not accept
        if panics then (if mustAccept iersLeapDates ⟨y, mo, d⟩ h mi s ns then "FAIL:rejected_valid" else "ok")
        else "FAIL:panic"
      | _ =>
        match implEpoch impl with
        | some r => if panics ∧ r.isNone then "FAIL:decode" else judgeBuild y mo d h mi s ns ts r
        | none => "FAIL:decode"
    let isOk : Bool := match m with | .ok _ => true | _ => false
    some { model := showResEpoch ts m, spec := sp,
           cls := if Cal.d10class y mo d && isOk then "D10" else "-",
           branch := op ++ ":" ++ outcomeTag y mo d h mi s ns ++ ":" ++ eraTag y ++ ":" ++ todTag h mi s ns }
  | _ => none

/-- one month, 31 day numbers: tokens `c:ns` or `x` -/
def monthTokens (yp : Dur) (y mo h mi s ns : Int) (ts : TS) : List String :=
  (List.range 31).map fun (i : Nat) =>
    match Cal.maybeFromGregorianWith yp y mo ((i : Int) + 1) h mi s ns ts with
    | .ok e => showDur e
    | .err => "x"
    | .panic => "panic"

def judgeMonth (y mo h mi s ns : Int) (ts : TS) (toks : List String) : String × String :=
  let rs := (List.range 31).zip toks |>.map fun (i, t) =>
    let d : Int := (i : Int) + 1
    let v := if t = "x" then judgeBuild y mo d h mi s ns ts none
             else match parseDur? t with
               | some e => judgeBuild y mo d h mi s ns ts (some (e, ts.name))
               | none => "FAIL:decode"
    (d, v)
  let bad := rs.filter (fun p => p.2 ≠ "ok")
  match bad with
  | [] => ("ok", "-")
  | (d, v) :: _ =>
    -- the class tag is D10 only if EVERY failing day is a 30/31 February of a leap year
    let allD10 := bad.all (fun p => Cal.d10class y mo p.1)
    match bad.find? (fun p => !(Cal.d10class y mo p.1)) with
    | some (d', v') => (v' ++ "@day" ++ toString d', "-")
    | none => (v ++ "@day" ++ toString d, if allD10 then "D10" else "-")

/-- nanoseconds since 1900-01-01T00:00:00 of the scale's calendar, for an epoch value -/
def absNs (e : Dur) (ts : TS) : Int := sval e + refOffsetNs ts.name

/-- C09 on a field tuple reported for epoch `e`: a valid date-time with second < 60 whose elapsed
    time is exactly the epoch -/
def judgeFields (e : Dur) (ts : TS) (y mo d h mi s ns : Int) : List (String × Bool) :=
  [("valid_fields", mustAccept [] ⟨y, mo, d⟩ h mi s ns),
   ("inverts", elapsedNs ts.name ⟨y, mo, d⟩ h mi s ns == sval e)]

def natOfDigits (cs : List Nat) : Option Int :=
  if cs.isEmpty ∨ cs.any (fun c => c < 48 ∨ c > 57) then none
  else some (cs.foldl (fun (a : Int) (c : Nat) => a * 10 + ((c : Int) - 48)) 0)

def intOfText (cs : List Nat) : Option Int :=
  match cs with
  | 45 :: rest => (natOfDigits rest).map (fun v => -v)
  | _ => natOfDigits cs

/-- read `Y…-MM-DDTHH:MM:SS[.nnnnnnnnn] SCALE` by fixed columns from the right -/
def parseText (cs : List Nat) : Option (Int × Int × Int × Int × Int × Int × Int × List Nat) := do
  let r := cs.reverse
  let scaleR := r.takeWhile (· ≠ 32)
  let bodyR := (r.dropWhile (· ≠ 32)).drop 1
  let body := bodyR.reverse
  let date := body.takeWhile (· ≠ 84)
  let time := (body.dropWhile (· ≠ 84)).drop 1
  if date.length < 7 then none
  let ytxt := date.take (date.length - 6)
  let rest := date.drop (date.length - 6)       -- "-MM-DD"
  if rest.getD 0 0 ≠ 45 ∨ rest.getD 3 0 ≠ 45 then none
  let y ← intOfText ytxt
  let mo ← natOfDigits ((rest.drop 1).take 2)
  let d ← natOfDigits ((rest.drop 4).take 2)
  if time.length ≠ 8 ∧ time.length ≠ 18 then none
  if time.getD 2 0 ≠ 58 ∨ time.getD 5 0 ≠ 58 then none
  let h ← natOfDigits (time.take 2)
  let mi ← natOfDigits ((time.drop 3).take 2)
  let s ← natOfDigits ((time.drop 6).take 2)
  let ns ← if time.length = 8 then some 0 else
    (if time.getD 8 0 ≠ 46 then none else natOfDigits (time.drop 9))
  pure (y, mo, d, h, mi, s, ns, scaleR.reverse)

/-- C09 on a printed epoch: the text is `renderDT` of valid fields that invert to the epoch, in its scale -/
def judgeText (e : Dur) (ts : TS) (hex : String) : String :=
  match bytesOfHex hex with
  | none => "FAIL:decode"
  | some bytes =>
    match parseText bytes with
    | none => "FAIL:grammar"
    | some (y, mo, d, h, mi, s, ns, scale) =>
      verdict ([("scale_name", scale == Cal.strCodes ts.name)] ++ judgeFields e ts y mo d h mi s ns ++
               [("text_form", renderDT ⟨y, mo, d⟩ h mi s ns ts.name == bytes)])

def signTag (e : Dur) (ts : TS) : String :=
  let a := absNs e ts
  (if a < 0 then "pre1900" else "post1900") ++ (if sval e < 0 then ":neg" else ":pos") ++
  (if a % 1000000000 = 0 then ":whole_s" else ":frac") ++
  (if a % NPDs = 0 then ":midnight" else if a % NPDs = NPDs - 1 then ":last_ns" else "")

def textOp (op : String) (e : Dur) (ts : TS) (impl : Impl) : Option Ans :=
  let sp := match impl with
    | .ok [hex] => judgeText e ts hex
    | .ok _ => "FAIL:decode"
    | .other w => "FAIL:" ++ w
  some { model := showResCodes (Cal.display e ts), spec := sp, branch := op ++ ":" ++ signTag e ts }

/-- canonical parts of a total nanosecond count (as the harness computes them, independent of hifitime) -/
def partsOfTotal (t : Int) : Dur :=
  let t := clampD t
  if t = DMAX then ⟨32767, NPCs⟩ else ⟨t / NPCs, t % NPCs⟩

/-- the date the spec assigns to an epoch (searched, then certified) and the ns into that day -/
def specDate (e : Dur) (ts : TS) : Option (Date × Int) :=
  let a := absNs e ts
  let n := a / NPDs
  let dt := dateOfDayNumber n
  if certifiesDate dt n then some (dt, a % NPDs) else none

/-- `Duration::to_seconds` / `to_unit(Unit::Day)` / `day_of_year` with hardware doubles
    (correspondence only: nothing is proved about these) -/
def toSecondsF (d : Dur) : Float :=
  let secs := d.ns / 1000000000
  let sub := d.ns % 1000000000
  if d.c = 0 then Float.ofInt secs + Float.ofInt sub * 1e-9
  else Float.ofInt d.c * 3155760000.0 + Float.ofInt secs + Float.ofInt sub * 1e-9

def dayOfYearF (diy : Dur) : Float := toSecondsF diy * (1.0 / 86400.0) + 1.0

def hex16 (n : Nat) : String :=
  let ds := (List.range 16).map (fun i => hexDigit ((n / 16 ^ (15 - i)) % 16))
  String.ofList ds

def floatOfHex (s : String) : Option Float := do
  let bs ← bytesOfHexAux s.toList []
  if bs.length ≠ 8 then none
  pure (Float.ofBits (UInt64.ofNat (bs.foldl (fun a b => a * 256 + b) 0)))

def judgeDoy (e : Dur) (ts : TS) (hex : String) : List (String × Bool) :=
  match specDate e ts, floatOfHex hex with
  | some (dt, tod), some x =>
    let exactNs : Int := (dayNumber dt - dayNumber ⟨dt.y, 1, 1⟩) * NPDs + tod
    let want := Float.ofInt exactNs / 86400000000000.0 + 1.0
    [("day_of_year_within_2e-12", (x - want).abs < 2e-12)]
  | _, _ => [("decode", false)]

def handle (op : String) (args : List String) (impl : Impl) : Option Ans :=
  match op, args with
  -- ---------------------------------------------------------------- C08
  | "greg", [y, mo, d, h, mi, s, ns, ts] | "greg_from", [y, mo, d, h, mi, s, ns, ts] => do
    let f ← ints? [y, mo, d, h, mi, s, ns]; let ts ← TS.ofString? ts
    build op f ts (op == "greg_from") impl
  | "greg_maybe_tai", [y, mo, d, h, mi, s, ns] | "greg_from_tai", [y, mo, d, h, mi, s, ns] => do
    let f ← ints? [y, mo, d, h, mi, s, ns]
    build op f .TAI (op == "greg_from_tai") impl
  | "greg_maybe_utc", [y, mo, d, h, mi, s, ns] | "greg_from_utc", [y, mo, d, h, mi, s, ns] => do
    let f ← ints? [y, mo, d, h, mi, s, ns]
    build op f .UTC (op == "greg_from_utc") impl
  | "greg_midnight", [y, mo, d, ts] => do
    let f ← ints? [y, mo, d]; let ts ← TS.ofString? ts
    build op (f ++ [0, 0, 0, 0]) ts true impl
  | "greg_noon", [y, mo, d, ts] => do
    let f ← ints? [y, mo, d]; let ts ← TS.ofString? ts
    build op (f ++ [12, 0, 0, 0]) ts true impl
  | "greg_tai_midnight", [y, mo, d] => do
    let f ← ints? [y, mo, d]; build op (f ++ [0, 0, 0, 0]) .TAI true impl
  | "greg_tai_noon", [y, mo, d] => do
    let f ← ints? [y, mo, d]; build op (f ++ [12, 0, 0, 0]) .TAI true impl
  | "greg_utc_midnight", [y, mo, d] => do
    let f ← ints? [y, mo, d]; build op (f ++ [0, 0, 0, 0]) .UTC true impl
  | "greg_utc_noon", [y, mo, d] => do
    let f ← ints? [y, mo, d]; build op (f ++ [12, 0, 0, 0]) .UTC true impl
  | "greg_hms", [y, mo, d, h, mi, s, ts] => do
    let f ← ints? [y, mo, d, h, mi, s]; let ts ← TS.ofString? ts
    build op (f ++ [0]) ts true impl
  | "greg_tai_hms", [y, mo, d, h, mi, s] => do
    let f ← ints? [y, mo, d, h, mi, s]; build op (f ++ [0]) .TAI true impl
  | "greg_utc_hms", [y, mo, d, h, mi, s] => do
    let f ← ints? [y, mo, d, h, mi, s]; build op (f ++ [0]) .UTC true impl
  | "greg_valid", [y, mo, d, h, mi, s, ns] => do
    let f ← ints? [y, mo, d, h, mi, s, ns]
    match f with
    | [y, mo, d, h, mi, s, ns] =>
      let m := Cal.isGregorianValid y mo d h mi s ns
      let date : Date := ⟨y, mo, d⟩
      let sp := match impl with
        | .ok ["1"] => if mustReject iersLeapDates date h mi s ns then "FAIL:accepted_invalid" else "ok"
        | .ok ["0"] => if mustAccept iersLeapDates date h mi s ns then "FAIL:rejected_valid" else "ok"
        | .ok _ => "FAIL:decode"
        | .other w => "FAIL:" ++ w
      let isTrue : Bool := match m with | .ok true => true | _ => false
      pure { model := (match m with | .ok b => "ok " ++ bool01 b | .err => "err" | .panic => "panic"),
             spec := sp, cls := if Cal.d10class y mo d && isTrue then "D10" else "-",
             branch := "greg_valid:" ++ outcomeTag y mo d h mi s ns }
    | _ => none
  | "greg_month", [y, mo, h, mi, s, ns, ts] => do
    let f ← ints? [y, mo, h, mi, s, ns]; let ts ← TS.ofString? ts
    match f with
    | [y, mo, h, mi, s, ns] =>
      let toks := monthTokens (Cal.gregYearPart y) y mo h mi s ns ts
      let (sp, cls) := match impl with
        | .ok ts' => if ts'.length = 31 then judgeMonth y mo h mi s ns ts ts' else ("FAIL:decode", "-")
        | .other w => ("FAIL:" ++ w, "-")
      pure { model := "ok " ++ " ".intercalate toks, spec := sp, cls := cls,
             branch := "greg_month:" ++ eraTag y ++ ":" ++ (if Spec.isLeap y then "leap" else "common") ++ ":" ++ todTag h mi s ns }
    | _ => none
  -- ---------------------------------------------------------------- C09
  | "display", [e] | "to_greg_str", [e] | "fmt_debug", [e] | "fmt_x", [e] | "fmt_X", [e] | "fmt_e", [e] | "fmt_E", [e] => do
    let (e, ts) ← parseEpoch? e
    textOp op e ts impl
  | "display_days", [e, n] => do
    let (e, ts) ← parseEpoch? e; let n ← n.toNat?
    let es := (List.range n).map (fun (i : Nat) => partsOfTotal (sval e + (i : Int) * NPDs))
    let ms := es.map (fun ei => match Cal.display ei ts with | .ok cs => hexOfCodes cs | .err => "err" | .panic => "panic")
    let sp := match impl with
      | .ok hs =>
        if hs.length ≠ n then "FAIL:decode"
        else match ((es.zip hs).map (fun p => judgeText p.1 ts p.2)).find? (· ≠ "ok") with
          | some v => v
          | none => "ok"
      | .other w => "FAIL:" ++ w
    pure { model := "ok " ++ " ".intercalate ms, spec := sp, branch := "display_days:" ++ signTag e ts }
  | "to_greg_tai", [e] | "to_greg_utc", [e] => do
    let (e, ts) ← parseEpoch? e
    let m := Cal.computeGregorian e ts
    let sp := match impl with
      | .ok vs => (match ints? vs with
          | some [y, mo, d, h, mi, s, ns] => verdict (judgeFields e ts y mo d h mi s ns)
          | _ => "FAIL:decode")
      | .other w => "FAIL:" ++ w
    pure { model := (match m with
             | .ok (y, mo, d, h, mi, s, ns) => "ok " ++ " ".intercalate ([y, mo, d, h, mi, s, ns].map toString)
             | .err => "err" | .panic => "panic"),
           spec := sp, branch := op ++ ":" ++ signTag e ts }
  | "fields_rt", ctor :: rest => do
    -- C09: "the fields of an epoch built from valid fields are those fields", through every constructor (spec only)
    let ints := rest.filterMap String.toInt?
    let tsName : String := match rest.getLast? with
      | some t => if t.toInt?.isSome then (if ctor.startsWith "greg_tai" || ctor == "greg_from_tai" then "TAI" else "UTC") else t
      | none => "UTC"
    let want : Option (List Int) := match ctor, ints with
      | "greg_from", [y, m, d, h, mi, s, ns] | "greg", [y, m, d, h, mi, s, ns]
      | "greg_from_tai", [y, m, d, h, mi, s, ns] | "greg_from_utc", [y, m, d, h, mi, s, ns] => some [y, m, d, h, mi, s, ns]
      | "greg_midnight", [y, m, d] | "greg_tai_midnight", [y, m, d] | "greg_utc_midnight", [y, m, d] => some [y, m, d, 0, 0, 0, 0]
      | "greg_noon", [y, m, d] | "greg_tai_noon", [y, m, d] | "greg_utc_noon", [y, m, d] => some [y, m, d, 12, 0, 0, 0]
      | "greg_hms", [y, m, d, h, mi, s] | "greg_tai_hms", [y, m, d, h, mi, s] | "greg_utc_hms", [y, m, d, h, mi, s] => some [y, m, d, h, mi, s, 0]
      | _, _ => none
    let want ← want
    let sp := match impl with
      | .ok [y, m, d, h, mi, s, ns, ts] =>
        verdict [("fields_of_an_epoch_built_from_fields", [y, m, d, h, mi, s, ns].map String.toInt? == want.map some), ("scale", ts == tsName)]
      | .ok _ => "FAIL:decode"
      | .other w => "FAIL:" ++ w
    pure { model := "-", spec := sp, branch := "fields_rt:" ++ ctor }
  | "greg_rt_tai", [e] | "greg_rt_utc", [e] | "greg_rt", [e] => do
    let (e, ts) ← parseEpoch? e
    let m : Res Dur := match Cal.computeGregorian e ts with
      | .ok (y, mo, d, h, mi, s, ns) => Cal.maybeFromGregorian y mo d h mi s ns ts
      | .err => .err | .panic => .panic
    let sp := match impl with
      | .ok [r] => verdict [("identical_epoch", r == showEpoch e ts)]
      | .ok _ => "FAIL:decode"
      | .other w => "FAIL:" ++ w
    pure { model := showResEpoch ts m, spec := sp, branch := op ++ ":" ++ signTag e ts }
  | "year", [e] => do
    let (e, ts) ← parseEpoch? e
    let sp := match impl, specDate e ts with
      | .ok [y], some (dt, _) => verdict [("year", y.toInt? == some dt.y)]
      | .ok _, _ => "FAIL:decode"
      | .other w, _ => "FAIL:" ++ w
    pure { model := showResInt (Cal.year e ts), spec := sp, branch := "year:" ++ signTag e ts }
  | "month_name", [e] => do
    let (e, ts) ← parseEpoch? e
    let sp := match impl, specDate e ts with
      | .ok [hex], some (dt, _) =>
        verdict [("month_name", (bytesOfHex hex) == some (Cal.strCodes (monthNames.getD (dt.m - 1).toNat "")))]
      | .ok _, _ => "FAIL:decode"
      | .other w, _ => "FAIL:" ++ w
    pure { model := (match Cal.monthName e ts with
             | .ok s => "ok " ++ hexOfCodes (Cal.strCodes s) | .err => "err" | .panic => "panic"),
           spec := sp, branch := "month_name:" ++ signTag e ts }
  | "dur_in_year", [e] => do
    let (e, ts) ← parseEpoch? e
    let sp := match impl, specDate e ts with
      | .ok [r], some (dt, tod) =>
        (match parseDur? r with
         | some r => verdict [("canonical", scanon r),
                              ("since_jan_1", sval r == (dayNumber dt - dayNumber ⟨dt.y, 1, 1⟩) * NPDs + tod)]
         | none => "FAIL:decode")
      | .ok _, _ => "FAIL:decode"
      | .other w, _ => "FAIL:" ++ w
    pure { model := showResDur (Cal.durationInYear e ts), spec := sp, branch := "dur_in_year:" ++ signTag e ts }
  | "doy", [e] => do
    let (e, ts) ← parseEpoch? e
    let sp := match impl with
      | .ok [hex] => verdict (judgeDoy e ts hex)
      | .ok _ => "FAIL:decode"
      | .other w => "FAIL:" ++ w
    -- SoftF64 evaluation (Model/ViewsFloat.lean `dayOfYear`, the expression the C20 theorems are about)
    -- must reproduce the hardware-Float evaluation bit for bit
    let cross : Bool := match Cal.durationInYear e ts with
      | .ok d => F64.toBits (Hifi.ViewsF.dayOfYear d) == (dayOfYearF d).toBits.toNat
      | _ => true
    pure { model := (match Cal.durationInYear e ts with
             | .ok d => "ok " ++ hex16 (dayOfYearF d).toBits.toNat | .err => "err" | .panic => "panic"),
           spec := if sp == "ok" && !cross then "FAIL:softf64_equals_hw" else sp,
           branch := "doy:" ++ signTag e ts ++ (if cross then ":softf64=hw" else ":softf64!=hw") }
  | "ydoy", [e] => do
    let (e, ts) ← parseEpoch? e
    let sp := match impl, specDate e ts with
      | .ok [y, hex], some (dt, _) => verdict ([("year", y.toInt? == some dt.y)] ++ judgeDoy e ts hex)
      | .ok _, _ => "FAIL:decode"
      | .other w, _ => "FAIL:" ++ w
    let cross : Bool := match Cal.durationInYear e ts with
      | .ok d => F64.toBits (Hifi.ViewsF.dayOfYear d) == (dayOfYearF d).toBits.toNat
      | _ => true
    pure { model := (match Cal.year e ts, Cal.durationInYear e ts with
             | .ok y, .ok d => "ok " ++ toString y ++ " " ++ hex16 (dayOfYearF d).toBits.toNat
             | .panic, _ => "panic" | _, .panic => "panic" | _, _ => "err"),
           spec := if sp == "ok" && !cross then "FAIL:softf64_equals_hw" else sp,
           branch := "ydoy:" ++ signTag e ts ++ (if cross then ":softf64=hw" else ":softf64!=hw") }
  -- ---------------------------------------------------------------- C20: (year, day of year)
  | "from_doy", [y, hex, ts] | "doy_rt", [y, hex, ts] => do
    let y ← y.toInt?; let ts ← TS.ofString? ts; let x ← floatOfHex hex
    -- `Epoch::from_day_of_year`: from_gregorian(year, 1, 1, 0, 0, 0, 0, ts) + (days - 1.0) * Unit::Day
    let built : Res Dur := match Cal.fromGregorian y 1 1 0 0 0 0 ts with
      | .ok d0 => .ok (Dur.add d0 (Hifi.Views.unitMulF Hifi.Views.dayF (x - 1.0)))
      | .err => .err | .panic => .panic
    let ndays : Int := if Cal.isLeapYear y then 366 else 365
    let jan1 : Int := elapsedNs ts.name ⟨y, 1, 1⟩ 0 0 0 0
    -- the exact offset (days − 1)·day is compared in binary64 (|offset| < 2^55 ns: 4 ns resolution)
    let wantOff : Float := (x - 1.0) * 86400000000000.0
    let edge := wantOff ≥ Float.ofInt (ndays * NPDs) - 16.0   -- within float resolution of the next year
    if op == "from_doy" then
      let sp := match impl with
        | .ok [r] => (match parseEpoch? r with
            | some (e, ets) => verdict [("scale", ets == ts), ("canonical", scanon e),
                                         ("jan_1_plus_days_minus_one", (Float.ofInt (sval e - jan1) - wantOff).abs ≤ 16.0)]
            | none => "FAIL:decode")
        | .ok _ => "FAIL:decode"
        | .other w => "FAIL:" ++ w
      pure { model := showResEpoch ts built, spec := sp,
             branch := "from_doy:" ++ ts.name ++ (if Cal.isLeapYear y then ":leap" else ":common") ++ (if edge then ":year_end" else "") }
    else
      let sp := match impl with
        | .ok [yy, dh] => (match yy.toInt?, floatOfHex dh with
            | some yy, some d =>
              if edge then verdict [("year_or_next", yy == y || yy == y + 1)]
              else verdict [("year", yy == y), ("day_of_year_to_float_precision", (d - x).abs ≤ 1e-12)]
            | _, _ => "FAIL:decode")
        | .ok _ => "FAIL:decode"
        | .other w => "FAIL:" ++ w
      let m := match built with
        | .ok d => (match Cal.year d ts, Cal.durationInYear d ts with
            | .ok yy, .ok diy => "ok " ++ toString yy ++ " " ++ hex16 (dayOfYearF diy).toBits.toNat
            | .panic, _ => "panic" | _, .panic => "panic" | _, _ => "err")
        | .err => "err" | .panic => "panic"
      pure { model := m, spec := sp,
             branch := "doy_rt:" ++ ts.name ++ (if Cal.isLeapYear y then ":leap" else ":common") ++ (if edge then ":year_end" else "") }
  | _, _ => none

end Hifi.Drive.Calendar
