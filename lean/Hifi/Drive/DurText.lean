import Hifi.Model.Proto
import Hifi.Model.DurText
import Hifi.Spec.Duration
import Hifi.Spec.DurText
/-
  Driver handlers for C11 (Duration decomposition and text form) and for the `Duration::from_str`
  stream of C13 (pseudo-property C13D): model result, spec verdict on the implementation's result,
  defect-class tags, branch tag.
-/
namespace Hifi.Drive.DurText
open Hifi Hifi.Proto Hifi.Spec Hifi.DurText
open Hifi.Spec.DurText (isDecompB decomp renderValue renderJson readOffset denote sgn)

def sval (d : Dur) : Int := valP d.c d.ns
def scanon (d : Dur) : Bool := canonP d.c d.ns

-- ---------------------------------------------------------------- string codecs

def hexVal (c : Char) : Nat :=
  if '0' ≤ c ∧ c ≤ '9' then c.toNat - 48 else if 'a' ≤ c ∧ c ≤ 'f' then c.toNat - 87
  else if 'A' ≤ c ∧ c ≤ 'F' then c.toNat - 55 else 0

def hexBytes : List Char → List Nat
  | a :: b :: t => (hexVal a * 16 + hexVal b) :: hexBytes t
  | _ => []

/-- UTF-8 decoding of protocol strings (always valid UTF-8) -/
def decodeUtf8 : List Nat → List Nat
  | [] => []
  | b :: r =>
    if b < 0x80 then b :: decodeUtf8 r
    else if b < 0xE0 then
      match r with
      | b1 :: r => ((b - 0xC0) * 64 + (b1 - 0x80)) :: decodeUtf8 r
      | _ => []
    else if b < 0xF0 then
      match r with
      | b1 :: b2 :: r => ((b - 0xE0) * 4096 + (b1 - 0x80) * 64 + (b2 - 0x80)) :: decodeUtf8 r
      | _ => []
    else
      match r with
      | b1 :: b2 :: b3 :: r => ((b - 0xF0) * 262144 + (b1 - 0x80) * 4096 + (b2 - 0x80) * 64 + (b3 - 0x80)) :: decodeUtf8 r
      | _ => []

def hex2cps (h : String) : List Nat := if h == "-" then [] else decodeUtf8 (hexBytes h.toList)

def hexDigit (n : Nat) : Char := if n < 10 then Char.ofNat (48 + n) else Char.ofNat (87 + n)

def cps2hex (cs : List Nat) : String :=
  if cs.isEmpty then "-"
  else String.ofList ((utf8s cs).flatMap (fun b => [hexDigit (b / 16), hexDigit (b % 16)]))

def hex16 (n : Nat) : String :=
  String.ofList ((List.range 16).reverse.map (fun i => hexDigit (n / 16 ^ i % 16)))

def showResHex : Res (List Nat) → String
  | .ok s => "ok " ++ cps2hex s
  | .err => "err"
  | .panic => "panic"

/-- decode the 16 hex digits of an f64 bit pattern -/
def f64OfBits (b : Nat) : F64 :=
  let neg := decide (b ≥ 9223372036854775808)
  let ex := b / 4503599627370496 % 2048
  let mant := b % 4503599627370496
  if ex = 2047 then (if mant = 0 then .inf neg else .nan neg)
  else if ex = 0 then .fin neg mant (-1074)
  else .fin neg (mant + 4503599627370496) ((ex : Int) - 1075)

-- ---------------------------------------------------------------- verdicts

def judgeDurVal (impl : Impl) (lo hi : Int) : String :=
  match impl with
  | .ok [r] =>
    match parseDur? r with
    | some r => verdict [("canonical", scanon r), ("value", decide (lo ≤ sval r ∧ sval r ≤ hi))]
    | none => "FAIL:decode"
  | .ok _ => "FAIL:decode"
  | .other w => "FAIL:" ++ w

def judgeHex (impl : Impl) (want : List Nat) : String :=
  match impl with
  | .ok [r] => verdict [("text", r == cps2hex want)]
  | .ok _ => "FAIL:decode"
  | .other w => "FAIL:" ++ w

/-- `judgeDurVal`, or an error when `lenient` (padded texts) -/
def judgeDurValOrErr (lenient : Bool) (impl : Impl) (lo hi : Int) : String :=
  match lenient, impl with
  | true, .other "err" => "ok"
  | _, _ => judgeDurVal impl lo hi

/-- spec of a text handed to the parser: an offset, a text of the documented grammar, or nothing
    demanded.  A text padded at the ends only must give the value of the trimmed text (the parser
    trims); a text with runs of U+0020 inside must give the value of its unpadded form or an error; an
    unpadded text must give the value.
    Exact texts (every numeral a plain integer) must give exactly clamp(Σ n·unit). -/
def judgeParse (impl : Impl) (s0 : List Nat) : String × String :=
  let s := Hifi.Spec.DurText.unpad s0
  -- padded inside (runs of blanks): value or error; padded at the ends only: the value (trim)
  let padded := s != Hifi.Spec.DurText.trimEnds s0
  let ptag := if padded then "padded:" else if s != s0 then "trimmed:" else ""
  match readOffset s with
  | some v => (judgeDurValOrErr padded impl v v, ptag ++ "offset")
  | none =>
    match denote s with
    | some dn =>
      if dn.exact then
        (judgeDurValOrErr padded impl (clampD dn.lo) (clampD dn.hi),
         ptag ++ "units:exact:" ++ toString dn.items ++ (if dn.lo < DMIN ∨ dn.hi > DMAX then ":saturated" else
           if dn.hi ≥ 9007199254740992 ∨ dn.lo ≤ -9007199254740992 then ":wide" else ""))
      else if dn.lo < DMIN ∨ dn.hi > DMAX then ("na", ptag ++ "units:out_of_range")
      else (judgeDurValOrErr padded impl dn.lo dn.hi, ptag ++ "units:fractional:" ++ toString dn.items)
    | none => ("na", ptag ++ "other")

def judgeTotal (impl : Impl) : String :=
  match impl with
  | .ok [r] => (match parseDur? r with
      | some r => verdict [("canonical", scanon r)]
      | none => "FAIL:decode")
  | .ok _ => "FAIL:decode"
  | .other "err" => "ok"
  | .other w => "FAIL:" ++ w

def signTag (v : Int) : String := if v < 0 then "neg" else if v = 0 then "zero" else "pos"

def nonzeroCount (v : Int) : Nat :=
  match decomp v with
  | (d, h, m, s, ms, us, ns) => ([d, h, m, s, ms, us, ns].filter (· ≠ 0)).length

/-- recorded finding D27: `Duration::signum` is the sign of the CENTURY field, so a positive
    duration shorter than one century decomposes with sign 0 (pinned by the suite) -/
def tagD27 (d : Dur) : String := if d.c = 0 ∧ d.ns > 0 then "D27" else "-"

def outcomeTag : Res Dur → String
  | .ok _ => "ok"
  | .err => "err"
  | .panic => "panic"

/-- shape of a string for the coverage histogram of the totality stream -/
def shapeTag (s : List Nat) : String :=
  (if s.any (· ≥ 128) then "nonascii" else "ascii") ++
  (match trim s with
   | 45 :: _ => ":minus"
   | 43 :: _ => ":plus"
   | [] => ":empty"
   | _ => ":plain") ++
  (if trim s ≠ s then ":trimmed" else "")

def handle (op : String) (args : List String) (impl : Impl) : Option Ans :=
  match op, args with
  | "decompose", [a] => do
    let a ← parseDur? a
    let v := sval a
    let m := match Dur.decompose a with
      | .ok (sg, d, h, mi, s, ms, us, ns) => "ok " ++ " ".intercalate ([sg, d, h, mi, s, ms, us, ns].map toString)
      | .err => "err"
      | .panic => "panic"
    let sp := match impl with
      | .ok vs => (match vs.mapM String.toInt? with
          | some [sg, d, h, mi, s, ms, us, ns] => verdict (isDecompB v sg d h mi s ms us ns)
          | _ => "FAIL:decode")
      | .other w => "FAIL:" ++ w
    pure { model := m, spec := sp, cls := tagD27 a,
           branch := "decompose:" ++ signTag v ++ ":" ++ toString (nonzeroCount v) }
  | "subdiv", [a, u] => do
    let a ← parseDur? a
    let v := sval a
    let m := match subdivision a u with
      | .ok (some d) => "ok " ++ showDur d
      | .ok none => "err"
      | .err => "err"
      | .panic => "panic"
    let want : Option Int := match decomp v with
      | (d, h, mi, s, ms, us, ns) =>
        match u with
        | "ns" => some ns
        | "us" => some (us * 1000)
        | "ms" => some (ms * 1000000)
        | "s" => some (s * 1000000000)
        | "min" => some (mi * 60000000000)
        | "h" => some (h * 3600000000000)
        | "d" => some (d * 86400000000000)
        | _ => none
    let sp := match want with
      | some w => judgeDurVal impl w w
      | none => (match impl with | .other "err" => "ok" | _ => "FAIL:expected_none")
    pure { model := m, spec := sp, branch := "subdiv:" ++ u ++ ":" ++ signTag v }
  | "dfmt", [a] => do
    let a ← parseDur? a
    let v := sval a
    pure { model := showResHex (display a), spec := judgeHex impl (renderValue v),
           branch := "dfmt:" ++ signTag v ++ ":" ++ toString (nonzeroCount v) }
  | "djson", [a] => do
    let a ← parseDur? a
    let v := sval a
    let m := match display a with
      | .ok s => .ok ([34] ++ s ++ [34])
      | .err => .err
      | .panic => .panic
    pure { model := showResHex m, spec := judgeHex impl (renderJson v),
           branch := "djson:" ++ signTag v ++ ":" ++ toString (nonzeroCount v) }
  | "dparse", [h] => do
    let s := hex2cps h
    let r := parseDurationIdx s
    let (sp, tag) := judgeParse impl s
    pure { model := showResDur r, spec := sp, branch := "dparse:" ++ tag ++ ":" ++ outcomeTag r }
  | "djsonparse", [h] => do
    let s := hex2cps h
    -- serde_json is the identity on a payload without escapes (the generator emits only those)
    let inner := (s.drop 1).dropLast
    if s.head? ≠ some 34 ∨ s.getLast? ≠ some 34 ∨ s.length < 2 ∨ inner.any (fun c => c = 34 ∨ c = 92 ∨ c < 32) then none else
    let r := parseDurationIdx inner
    let (sp, tag) := judgeParse impl inner
    pure { model := showResDur r, spec := sp, branch := "djsonparse:" ++ tag ++ ":" ++ outcomeTag r }
  | "drt", [a] | "djsonrt", [a] => do
    let a ← parseDur? a
    let v := sval a
    let m := match display a with
      | .ok s => parseDurationIdx s
      | .err => .err
      | .panic => .panic
    pure { model := showResDur m, spec := judgeDurVal impl v v,
           branch := op ++ ":" ++ signTag v ++ ":" ++ toString (nonzeroCount v) }
  | "ehms", [e] => do
    let (c, ns) ← match e.splitOn ":" with
      | [c, ns, _] => do let c ← c.toInt?; let ns ← ns.toInt?; pure (c, ns)
      | _ => none
    let a : Dur := ⟨c, ns⟩
    let v := sval a
    let m := match Dur.decompose a with
      | .ok (_, _, h, mi, s, ms, us, ns) => "ok " ++ " ".intercalate ([h, mi, s, ms, us, ns].map toString)
      | .err => "err"
      | .panic => "panic"
    let want := match decomp v with
      | (_, h, mi, s, ms, us, ns) => [h, mi, s, ms, us, ns]
    let sp := match impl with
      | .ok vs => (match vs.mapM String.toInt? with
          | some got => verdict [("components", got == want)]
          | none => "FAIL:decode")
      | .other w => "FAIL:" ++ w
    pure { model := m, spec := sp, branch := "ehms:" ++ signTag v }
  | "p_dur", [h] => do
    let s := hex2cps h
    let r := parseDurationIdx s
    pure { model := showResDur r, spec := judgeTotal impl, branch := "p_dur:" ++ shapeTag s ++ ":" ++ outcomeTag r }
  | "lex_i64", [h] => do
    let s := hex2cps h
    let m := match parseI64 (utf8s s) with
      | some z => "ok " ++ toString z
      | none => "err"
    pure { model := m, spec := judgeTotalWord impl, branch := "lex_i64:" ++ (if m == "err" then "err" else "ok") }
  | "lex_i128", [h] => do
    let s := hex2cps h
    let m := match parseI128 (utf8s s) with
      | some z => "ok " ++ toString z
      | none => "err"
    pure { model := m, spec := judgeTotalWord impl, branch := "lex_i128:" ++ (if m == "err" then "err" else "ok") }
  | "lex_f64", [h] => do
    let s := hex2cps h
    let r := parseF64 (utf8s s)
    let m := match r with
      | some x => "ok " ++ hex16 x.bits
      | none => "err"
    let tag := match r with
      | some (.int _) => "int"
      | some (.fin _ _ _) => "fin"
      | some (.inf _) => "inf"
      | some (.nan _) => "nan"
      | none => "err"
    pure { model := m, spec := judgeTotalWord impl, branch := "lex_f64:" ++ tag }
  | "txt_unit_mul_f64", [u, x] => do
    let f ← unitFactor u
    let b := (x.toList.foldl (fun acc c => acc * 16 + hexVal c) 0)
    pure { model := "ok " ++ showDur (unitMulF64 f (f64OfBits b)), spec := judgeTotalWord impl,
           branch := "unit_mul_f64:" ++ u }
  | _, _ => none
where
  judgeTotalWord (impl : Impl) : String :=
    match impl with
    | .ok _ => "ok"
    | .other "err" => "ok"
    | .other w => "FAIL:" ++ w

end Hifi.Drive.DurText
