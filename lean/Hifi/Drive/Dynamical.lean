import Hifi.Model.Dynamical
import Hifi.Model.ViewsDyn
import Hifi.Drive.Epoch
/-
  Driver handlers for C07 (ET/TDB): hardware-float model vs implementation (bit-for-bit expected,
  tie tolerance documented), and the property's closed forms as oracle, with its tolerances.
-/
namespace Hifi.Drive.Dynamical
open Hifi Hifi.Proto Hifi.Spec Hifi.Drive.Duration Hifi.Drive.Epoch Hifi.Dyn

/-- ns of J2000 (2000-01-01 12:00:00) past 1900-01-01 00:00:00 in the same scale -/
def j2000ns : Int := (civilDays 2000 1 1 * 86400 + 43200) * 1000000000

/-- the property's closed forms, evaluated in binary64: (ET − TAI) and (TDB − TAI) in ns at `t` seconds past J2000 -/
def closedForm (ts : TS) (t : Float) : Float :=
  if ts == TS.ET then
    (32.184 + 1.657e-3 * Float.sin (6.239996 + 1.99096871e-7 * t + 1.671e-2 * Float.sin (6.239996 + 1.99096871e-7 * t))) * 1e9
  else
    let g := 357.528 * 3.141592653589793 / 180.0 + 1.990910018065731e-7 * t
    (32.184 + 0.001658 * Float.sin (g + 0.0167 * Float.sin g)) * 1e9

/-- TAI instant (ns past 1900) of a uniform-scale epoch -/
def taiOf (e : Ep) : Option Int := if e.ts.isUniform then instOf e else none

def absI (x : Int) : Int := if x < 0 then -x else x

/-- |(dyn − TAI) − closed form| in ns, for dynamical value `v` (ns past J2000) and TAI instant `i` -/
def closedFormDev (ts : TS) (v i : Int) : Float :=
  let diff : Int := v - (i - j2000ns)
  let t := toSecondsF (Dur.fromTotal v)
  (Float.ofInt diff - closedForm ts t).abs

def within (x : Int) (tol : Int) : Bool := decide (absI x ≤ tol)

/-- `Ord for Epoch` / `PartialEq for Epoch` with the dynamical conversions (hardware floats) -/
def cmpF (a b : Ep) : Option Int :=
  if a.ts.usesLeapSeconds ∧ ¬ b.ts.usesLeapSeconds then (toTimeScaleF a b.ts).map (fun a' => Dur.cmp a'.dur b.dur)
  else (toTimeScaleF b a.ts).map (fun b' => Dur.cmp a.dur b'.dur)

def eqF (a b : Ep) : Option Bool :=
  if a.ts = b.ts then some (decide (Dur.cmp a.dur b.dur = 0))
  else if a.ts.usesLeapSeconds ≠ b.ts.usesLeapSeconds ∧ a.ts.usesLeapSeconds then
    (toTimeScaleF a b.ts).map (fun a' => decide (Dur.cmp a'.dur b.dur = 0))
  else (toTimeScaleF b a.ts).map (fun b' => decide (Dur.cmp a.dur b'.dur = 0))

/-- TAI instant of an epoch; for ET/TDB estimated from the property's closed form (C07: the conversions are
    within 30 ns of it), exact for the other scales -/
def instEst (e : Ep) : Option Int :=
  if e.ts == TS.ET || e.ts == TS.TDB then
    let v := sval e.dur
    some (v + j2000ns - truncToInt (closedForm e.ts (toSecondsF (Dur.fromTotal v)) + 0.5))
  else instOf e

def handle (op : String) (args : List String) (impl : Impl) : Option Ans :=
  match op, args with
  | "dyn_to", [e, ts] => do
    let e ← parseEp? e; let ts ← TS.ofString? ts
    let m := toTimeScaleF e ts
    let sp := match impl with
      | .ok [r] => (match parseEp? r with
          | some r =>
            let dev : Option Float :=
              if ts == TS.ET || ts == TS.TDB then (taiOf e).map (fun i => closedFormDev ts (sval r.dur) i)
              else (taiOf r).map (fun i => closedFormDev e.ts (sval e.dur) i)
            (match dev with
             | some dv => verdict [("scale", r.ts == ts), ("canonical", scanon r.dur), ("closed_form_within_30ns", dv ≤ 30.0)]
             | none => "FAIL:decode")
          | none => "FAIL:decode")
      | .other w => "FAIL:" ++ w
      | _ => "FAIL:decode"
    -- tie: the model and the implementation call the same platform `sin`; agreement to the nanosecond is
    -- expected, and a difference of at most 1 ns (one ulp of the sine, truncated) is tolerated and counted
    let (mstr, note) := match m, impl with
      | some x, .ok [r] => (match parseEp? r with
          | some r => if x == r then ("ok " ++ showEp x, "bit_equal")
                      else if x.ts == r.ts && within (sval x.dur - sval r.dur) 1 then ("ok " ++ showEp r, "within_1ns")
                      else ("ok " ++ showEp x, "differs")
          | none => ("ok " ++ showEp x, "differs"))
      | some x, _ => ("ok " ++ showEp x, "differs")
      | none, _ => ("unmodelled", "unmodelled")
    pure { model := mstr, spec := sp, branch := "dyn_to:" ++ e.ts.name ++ ">" ++ ts.name ++ ":" ++ note }
  | "ediff9", [a, b] => do
    -- C04, all nine scales: "the difference of two epochs is measured in the time scale of the left operand
    -- after re-expressing the right operand in it" — judged against the implementation's OWN re-expression
    -- (second observable), so the clause is independent of the float model; what the re-expression must be
    -- is C05/C06/C07's business
    let a ← parseEp? a; let b ← parseEp? b
    let sp := match impl with
      | .ok [r, c] => (match parseDur? r, parseEp? c with
          | some r, some c => verdict [("reexpressed_in_left_scale", c.ts == a.ts), ("canonical", scanon r),
                                        ("difference_of_elapsed_times", sval r == clampD (sval a.dur - sval c.dur))]
          | _, _ => "FAIL:decode")
      | .other w => "FAIL:" ++ w
      | _ => "FAIL:decode"
    let m := toTimeScaleF b a.ts
    let (mstr, note) := match m, impl with
      | some x, .ok [_, c] => (match parseEp? c with
          | some c => if x == c then ("ok " ++ showDur (Dur.sub a.dur x.dur) ++ " " ++ showEp x, "bit_equal")
                      else if x.ts == c.ts && within (sval x.dur - sval c.dur) 1 then ("ok " ++ showDur (Dur.sub a.dur c.dur) ++ " " ++ showEp c, "within_1ns")
                      else ("ok " ++ showDur (Dur.sub a.dur x.dur) ++ " " ++ showEp x, "differs")
          | none => ("ok " ++ showDur (Dur.sub a.dur x.dur) ++ " " ++ showEp x, "differs"))
      | some x, _ => ("ok " ++ showDur (Dur.sub a.dur x.dur) ++ " " ++ showEp x, "differs")
      | none, _ => ("unmodelled", "unmodelled")
    pure { model := mstr, spec := sp, branch := "ediff9:" ++ a.ts.name ++ "-" ++ b.ts.name ++ ":" ++ note }
  | "ecmp_dyn", [a, b] => do
    -- C12 with ET/TDB operands: "the statement holds for instants more than 100 ns apart"; the instants of
    -- dynamical operands are known to 30 ns each (C07), so the verdict is demanded from 170 ns on
    let a ← parseEp? a; let b ← parseEp? b
    let ia ← instEst a; let ib ← instEst b
    let gap := ia - ib
    let far := decide (absI gap ≥ 170)
    let wc : Int := if gap < 0 then -1 else 1
    let sp := if !far then noPanic impl else match impl with
      | .ok [c, e, rc, re, lt, gt] =>
        verdict [("cmp", c == toString wc), ("eq", e == "0"), ("reverse_cmp", rc == toString (-wc)), ("reverse_eq", re == "0"),
                 ("lt", lt == bool01 (wc == -1)), ("gt", gt == bool01 (wc == 1))]
      | .other w => "FAIL:" ++ w
      | _ => "FAIL:decode"
    let m := match cmpF a b, eqF a b, cmpF b a, eqF b a with
      | some c, some e, some rc, some re =>
        "ok " ++ toString c ++ " " ++ bool01 e ++ " " ++ toString rc ++ " " ++ bool01 re ++ " " ++ bool01 (c == -1) ++ " " ++ bool01 (c == 1)
      | _, _, _, _ => "unmodelled"
    pure { model := m, spec := sp,
           branch := "ecmp_dyn:" ++ a.ts.name ++ "," ++ b.ts.name ++ ":" ++
             (if !far then "within_170ns" else if absI gap < 2200 then "170ns-2us" else if absI gap < 1000000000 then "<1s" else "far") }
  | "eminmax_dyn", [a, b] => do
    -- C12 with ET/TDB operands: min, max, <=, >=, != (the inherent Epoch::min/max and std's Ord::min/max)
    let a ← parseEp? a; let b ← parseEp? b
    let ia ← instEst a; let ib ← instEst b
    let gap := ia - ib
    let far := decide (absI gap ≥ 170)
    let (lo, hi) := if gap < 0 then (a, b) else (b, a)
    let sp := if !far then noPanic impl else match impl with
      | .ok [mi, mo, xi, xo, le, ge, ne] =>
        verdict [("min_is_the_earlier", mi == showEp lo && mo == showEp lo), ("max_is_the_later", xi == showEp hi && xo == showEp hi),
                 ("le", le == bool01 (decide (gap < 0))), ("ge", ge == bool01 (decide (gap > 0))), ("ne", ne == "1")]
      | .other w => "FAIL:" ++ w
      | _ => "FAIL:decode"
    -- Epoch::min is `if *self < other { *self } else { other }`, Epoch::max `if *self > other { *self } else { other }`;
    -- std's Ord::min is `if other < self { other } else { self }`, Ord::max `if other < self { self } else { other }`
    let m := match cmpF a b, cmpF b a, eqF a b with
      | some c, some rc, some e =>
        "ok " ++ showEp (if c == -1 then a else b) ++ " " ++ showEp (if rc == -1 then b else a) ++ " " ++
          showEp (if c == 1 then a else b) ++ " " ++ showEp (if rc == -1 then a else b) ++ " " ++
          bool01 (c != 1) ++ " " ++ bool01 (c != -1) ++ " " ++ bool01 (!e)
      | _, _, _ => "unmodelled"
    pure { model := m, spec := sp,
           branch := "eminmax_dyn:" ++ a.ts.name ++ "," ++ b.ts.name ++ ":" ++
             (if !far then "within_170ns" else if absI gap < 2200 then "170ns-2us" else if absI gap < 1000000000 then "<1s" else "far") }
  | "esort_dyn", [a, b, c] => do
    -- C12 with ET/TDB operands: sorting and ranges; demanded when the three instants are pairwise 170 ns apart
    let a ← parseEp? a; let b ← parseEp? b; let c ← parseEp? c
    let ia ← instEst a; let ib ← instEst b; let ic ← instEst c
    let far := decide (absI (ia - ib) ≥ 170 ∧ absI (ib - ic) ≥ 170 ∧ absI (ia - ic) ≥ 170)
    let sorted := ([(ia, a), (ib, b), (ic, c)].toArray.qsort (fun x y => x.1 < y.1)).toList.map (·.2)
    let sp := if !far then noPanic impl else match impl with
      | .ok [x, y, z, rg, rgi] =>
        verdict [("sorted_chronologically", [x, y, z] == sorted.map showEp),
                 ("half_open_range", rg == bool01 (decide (ia < ib ∧ ib < ic))),
                 ("inclusive_range", rgi == bool01 (decide (ia < ib ∧ ib < ic)))]
      | .other w => "FAIL:" ++ w
      | _ => "FAIL:decode"
    -- std's sort: its comparison sequence is not modelled, the model column is left to the spec
    pure { model := "-", spec := sp,
           branch := "esort_dyn:" ++ a.ts.name ++ "," ++ b.ts.name ++ "," ++ c.ts.name ++ ":" ++ (if far then "far" else "within_170ns") }
  | "series_dyn", [incl, start, span, endTs, step, cap] => do
    -- C15 with an ET/TDB start and an end in another scale, or the reverse: "k x step < end - start", the
    -- difference being the library's own (C04: the right operand, here the start, re-expressed in the left
    -- one's scale), which the executor reports as the last field; the items are plain arithmetic on the
    -- start's elapsed time
    let start ← parseEp? start; let span ← parseDur? span; let endTs ← TS.ofString? endTs
    let step ← parseDur? step; let cap ← cap.toNat?
    let incl := incl == "1"
    let e0 : Ep := ⟨Dur.add start.dur span, start.ts⟩
    let vs := sval step
    let back? : Option Ep := match impl with
      | .ok l => l.getLast?.bind parseEp?
      | _ => none
    let judge (vD : Int) : String := match impl with
      | .ok [cnt, _endS, firstS, lastS, ord, same, after, sum, _back] =>
        let wantN : Int := if vD < 0 then 0 else if incl then vD / vs + 1 else (vD + vs - 1) / vs
        let wn := if wantN > cap then (cap : Int) else wantN
        let wfirst := (List.range (min 3 wn.toNat)).map (fun (k : Nat) => showEp ⟨Dur.fromTotal (sval start.dur + (k : Int) * vs), start.ts⟩)
        let wlast := if wn == 0 then "-" else showEp ⟨Dur.fromTotal (sval start.dur + (wn - 1) * vs), start.ts⟩
        verdict [("count", cnt == toString wn), ("first_items", firstS == (if wfirst.isEmpty then "-" else ",".intercalate wfirst)),
                 ("last_item", lastS == wlast), ("increasing", ord == "1"), ("scale_of_start", same == "1"),
                 ("none_after_end", after == "1"),
                 ("checksum_of_all_items", sum == toString ((wn * sval start.dur + vs * (wn * (wn - 1) / 2)) % 18446744073709551616))]
      | .other w => "FAIL:" ++ w
      | _ => "FAIL:decode"
    let endI? : Option Ep := match impl with
      | .ok (_ :: es :: _) => parseEp? es
      | _ => none
    let sp := match back?, endI? with
      | some bk, some en =>
                   if bk.ts != endTs || en.ts != endTs then "FAIL:reexpressed_in_end_scale"
                   else if vs ≤ 0 then noPanic impl
                   -- what `end - start` must be is C04's business (ediff9); here it is taken as the library reports it
                   else judge (sval en.dur - sval bk.dur)
      | _, _ => (match impl with | .other w => "FAIL:" ++ w | _ => "FAIL:decode")
    -- model: the float conversions of both ends, then the modelled iterator
    let m := match toTimeScaleF e0 endTs, toTimeScaleF start endTs with
      | some endE, some bk =>
            -- a 1 ns difference in the platform sine is tolerated (see dyn_to): then the model continues from the implementation's value
            let bk' := match back? with | some ib => if ib != bk && ib.ts == bk.ts && within (sval ib.dur - sval bk.dur) 1 then ib else bk | none => bk
            let endE' := match endI? with | some ie => if ie != endE && ie.ts == endE.ts && within (sval ie.dur - sval endE.dur) 1 then ie else endE | none => endE
            let s : Series := ⟨start, Dur.sub endE'.dur bk'.dur, step, 0, incl⟩
            let items := Series.run cap s
            let ordered := (items.zip items.tail).all (fun p => Dur.cmp p.1.dur p.2.dur == -1)
            let first := (items.take 3).map showEp
            "ok " ++ toString items.length ++ " " ++ showEp endE' ++ " " ++ (if first.isEmpty then "-" else ",".intercalate first) ++ " " ++
              (match items.getLast? with | some l => showEp l | none => "-") ++ " " ++ bool01 ordered ++ " 1 1 " ++
              toString ((items.foldl (fun (acc : Int) (x : Ep) => acc + sval x.dur) 0) % 18446744073709551616) ++ " " ++ showEp bk'
      | _, _ => "unmodelled"
    pure { model := m, spec := sp,
           branch := "series_dyn:" ++ (if incl then "incl" else "excl") ++ ":" ++ start.ts.name ++ "," ++ endTs.name }
  | "weekday_dyn", [e, t] => do
    -- C16 with a dynamical scale on either side: the weekday of the calendar date in the target scale. Instants of
    -- dynamical epochs, and counts in dynamical targets, come from the property's closed forms (C07: 30 ns each), so the
    -- verdict is demanded when the civil time of day is more than 300 ns away from the target's midnight
    let e ← parseEp? e; let ts ← TS.ofString? t
    if !(e.ts == TS.ET || e.ts == TS.TDB || ts == TS.ET || ts == TS.TDB) then none else
    let i ← instEst e
    let v : Option Int :=
      if ts == TS.ET || ts == TS.TDB then
        let tau := i - j2000ns
        some (tau + truncToInt (closedForm ts (toSecondsF (Dur.fromTotal tau)) + 0.5))
      else if ts == TS.UTC then
        (let cands := (0 :: iersTbl.map (·.2)).map (fun l => i - l * 1000000000) |>.filter (fun v => denotes iersTbl "UTC" v i)
         cands.head?)
      else (scaleOff ts.name).map (fun o => i - o)
    let m := (toTimeScaleF e ts).map (fun x => weekdayOfDur (Dur.add x.dur (Cal.gregorianEpochOffset ts)))
    let near (cv : Int) : Bool := let tod := cv % nsPerDay; tod < 300 || tod > nsPerDay - 300
    let sp := match impl, v with
      | .ok [w], some v =>
        let cv := v + refOffsetNs ts.name
        if near cv then "na" else verdict [("civil_weekday", w == toString (specWeekday cv))]
      | .ok _, _ => "na"
      | .other x, _ => "FAIL:" ++ x
    let tag := match v with
      | some v => let tod := (v + refOffsetNs ts.name) % nsPerDay
                  let dist := if tod < nsPerDay - tod then tod else nsPerDay - tod
                  if dist < 300 then "within_300ns" else if dist < 25000 then "<25us" else if dist < 1000000000 then "<1s" else "far"
      | none => "no_value"
    pure { model := (match m with | some w => "ok " ++ toString w | none => "unmodelled"), spec := sp,
           branch := "weekday_dyn:" ++ e.ts.name ++ ">" ++ ts.name ++ ":" ++ tag }
  | "weekday", [e] | "weekday_utc", [e] | "weekday_ts", [e, _] => do
    -- C16 for epochs HELD in ET or TDB (the handler of Drive/Epoch answers nothing for them): the weekday of the calendar
    -- date in the target scale; the instant comes from the closed form (30 ns), so the verdict is demanded when the civil
    -- time of day is more than one second away from midnight
    let e ← parseEp? e
    if !(e.ts == TS.ET || e.ts == TS.TDB) then none else
    let ts ← (match op, args with
      | "weekday", _ => some TS.TAI | "weekday_utc", _ => some TS.UTC
      | _, [_, t] => TS.ofString? t | _, _ => none)
    if ts == TS.ET || ts == TS.TDB then none else
    let i ← instEst e
    let v : Option Int := if ts == TS.UTC then
        (let cands := (0 :: iersTbl.map (·.2)).map (fun l => i - l * 1000000000) |>.filter (fun v => denotes iersTbl "UTC" v i)
         cands.head?)
      else (scaleOff ts.name).map (fun o => i - o)
    let m := (toTimeScaleF e ts).map (fun x => weekdayOfDur (Dur.add x.dur (Cal.gregorianEpochOffset ts)))
    let sp := match impl, v with
      | .ok [w], some v =>
        let cv := v + refOffsetNs ts.name
        let tod := cv % nsPerDay
        if tod < 1000000000 || tod > nsPerDay - 1000000000 then "na"
        else verdict [("civil_weekday", w == toString (specWeekday cv))]
      | .ok _, _ => "na"
      | .other x, _ => "FAIL:" ++ x
    pure { model := (match m with | some w => "ok " ++ toString w | none => "unmodelled"), spec := sp,
           branch := op ++ ":" ++ e.ts.name ++ ">" ++ ts.name }
  | "dyn_rt", [e, ts] => do
    let e ← parseEp? e; let ts ← TS.ofString? ts
    let m := (toTimeScaleF e ts).bind (fun x => toTimeScaleF x e.ts)
    let sp := match impl with
      | .ok [r] => (match parseEp? r with
          -- the statement gives 20 ns for uniform → ET/TDB → uniform; for the reverse direction (ET/TDB → uniform →
          -- ET/TDB) only what follows from the 30 ns closed-form clause applied twice is demanded: 60 ns
          | some r => verdict [("scale", r.ts == e.ts),
                               (if e.ts == TS.ET || e.ts == TS.TDB then "reverse_round_trip_within_60ns" else "round_trip_within_20ns",
                                within (sval r.dur - sval e.dur) (if e.ts == TS.ET || e.ts == TS.TDB then 60 else 20))]
          | none => "FAIL:decode")
      | .other w => "FAIL:" ++ w
      | _ => "FAIL:decode"
    let (mstr, note) := match m, impl with
      | some x, .ok [r] => (match parseEp? r with
          | some r => if x == r then ("ok " ++ showEp x, "bit_equal")
                      else if x.ts == r.ts && within (sval x.dur - sval r.dur) 2 then ("ok " ++ showEp r, "within_2ns")
                      else ("ok " ++ showEp x, "differs")
          | none => ("ok " ++ showEp x, "differs"))
      | some x, _ => ("ok " ++ showEp x, "differs")
      | none, _ => ("unmodelled", "unmodelled")
    let err : Int := match impl with
      | .ok [r] => (match parseEp? r with | some r => absI (sval r.dur - sval e.dur) | none => -1)
      | _ => -1
    pure { model := mstr, spec := sp,
           branch := "dyn_rt:" ++ e.ts.name ++ ">" ++ ts.name ++ ":" ++ note ++ ":err=" ++ (if err ≤ 1 then "0-1" else if err ≤ 5 then "2-5" else if err ≤ 12 then "6-12" else if err ≤ 20 then "13-20" else ">20") ++ "ns" }
  | "dyn_mono", [e, d, ts] => do
    let e ← parseEp? e; let d ← parseDur? d; let ts ← TS.ofString? ts
    let e2 : Ep := ⟨Dur.add e.dur d, e.ts⟩
    let m := match toTimeScaleF e ts, toTimeScaleF e2 ts with
      | some a, some b => some (a, b)
      | _, _ => none
    -- the statement is about instants MORE than 100 ns apart: nothing is demanded of a smaller gap (the shrinker reduces
    -- gaps, and a stored replay must stay inside the quantifier)
    let sp := if sval d ≤ 100 then noPanic impl else match impl with
      | .ok [x, y] => (match parseEp? x, parseEp? y with
          | some x, some y => verdict [("order_preserved", decide (sval x.dur < sval y.dur))]
          | _, _ => "FAIL:decode")
      | .other w => "FAIL:" ++ w
      | _ => "FAIL:decode"
    let (mstr, note) := match m, impl with
      | some (a, b), .ok [x, y] => (match parseEp? x, parseEp? y with
          | some x, some y => if a == x && b == y then ("ok " ++ showEp a ++ " " ++ showEp b, "bit_equal")
                      else if within (sval a.dur - sval x.dur) 1 && within (sval b.dur - sval y.dur) 1 then ("ok " ++ showEp x ++ " " ++ showEp y, "within_1ns")
                      else ("ok " ++ showEp a ++ " " ++ showEp b, "differs")
          | _, _ => ("ok " ++ showEp a ++ " " ++ showEp b, "differs"))
      | some (a, b), _ => ("ok " ++ showEp a ++ " " ++ showEp b, "differs")
      | none, _ => ("unmodelled", "unmodelled")
    pure { model := mstr, spec := sp, branch := "dyn_mono:" ++ e.ts.name ++ ">" ++ ts.name ++ ":" ++ note }
  | "dyn_acc", [name, e] => do
    let e ← parseEp? e
    let (ts, jde) ← (match name with
      | "to_et_duration" => some (TS.ET, false) | "to_tdb_duration" => some (TS.TDB, false)
      | "to_jde_et_duration" => some (TS.ET, true) | "to_jde_tdb_duration" => some (TS.TDB, true) | _ => none)
    -- `+ Unit::Day * (MJD_J1900 + MJD_OFFSET) + prime_epoch_offset`: 2415020.5 days, exactly representable
    let jdeOff : Int := 2415020 * 86400000000000 + 43200000000000
    let m := (toTimeScaleF e ts).map (fun x =>
      if jde then Hifi.Views.toJdeDyn x.dur else x.dur)   -- Model/ViewsDyn.lean (theorem C17.jde_dyn_view_exact)
    -- an epoch HELD in ET or TDB has its instant from the closed form of its own scale (30 ns, C07), so the view
    -- in the other dynamical scale is demanded to 60 ns
    let dynSrc := e.ts == TS.ET || e.ts == TS.TDB
    let sp := match impl, (if dynSrc then instEst e else taiOf e) with
      | .ok [r], some i => (match parseDur? r with
          | some r =>
            let v := if jde then sval r - jdeOff - j2000ns else sval r
            verdict [("canonical", scanon r),
                     (if dynSrc then "closed_form_within_60ns_dynamical_source" else "closed_form_within_30ns",
                      closedFormDev ts v i ≤ (if dynSrc then 60.0 else 30.0))]
          | none => "FAIL:decode")
      | .other w, _ => "FAIL:" ++ w
      | _, _ => "FAIL:decode"
    let (mstr, note) := match m, impl with
      | some x, .ok [r] => (match parseDur? r with
          | some r => if x == r then ("ok " ++ showDur x, "bit_equal")
                      else if within (sval x - sval r) 1 then ("ok " ++ showDur r, "within_1ns")
                      else ("ok " ++ showDur x, "differs")
          | none => ("ok " ++ showDur x, "differs"))
      | some x, _ => ("ok " ++ showDur x, "differs")
      | none, _ => ("unmodelled", "unmodelled")
    pure { model := mstr, spec := sp, branch := "dyn_acc:" ++ name ++ ":" ++ (if dynSrc then e.ts.name ++ ":" else "") ++ note }
  | _, _ => none

end Hifi.Drive.Dynamical
