import Hifi.Model.Proto
import Hifi.Model.Epoch
import Hifi.Model.WeekdayAt
import Hifi.Model.Views
import Hifi.Model.ViewsFloat
import Hifi.Model.LeapFile
import Hifi.Spec.Epoch
import Hifi.Spec.Calendar
import Hifi.Drive.Duration
/-
  Driver handlers for the epoch ops (C04 C05 C06 C12 C15 C16 C20).
-/
namespace Hifi.Drive.Epoch
open Hifi Hifi.Proto Hifi.Spec Hifi.Drive.Duration

def parseEp? (s : String) : Option Ep :=
  match s.splitOn ":" with
  | [c, ns, ts] => do
    let c ← c.toInt?; let ns ← ns.toInt?; let ts ← TS.ofString? ts
    pure ⟨⟨c, ns⟩, ts⟩
  | _ => none

def showEp (e : Ep) : String := showDur e.dur ++ ":" ++ e.ts.name

def showOEp : Option Ep → String
  | some e => "ok " ++ showEp e
  | none => "unmodelled"

/-- the spec's leap second table: the raw text of data/leap-seconds.list -/
def iersTbl : List (Int × Int) := Gen.IERS_TEXT.map (fun e => (e.1, e.2.1))

def inRange (x : Int) : Bool := decide (DMIN ≤ x ∧ x ≤ DMAX)

def instOf (e : Ep) : Option Int := instant iersTbl e.ts.name (sval e.dur)

/-- verdict for a result epoch that must denote instant `t` in scale `ts` (canonical duration) -/
def judgeEpInstant (impl : Impl) (ts : TS) (t : Int) : String :=
  match impl with
  | .ok [r] => match parseEp? r with
    | some r => verdict [("scale", r.ts == ts), ("canonical", scanon r.dur),
                         ("instant", denotes iersTbl ts.name (sval r.dur) t)]
    | none => "FAIL:decode"
  | .ok _ => "FAIL:decode"
  | .other w => "FAIL:" ++ w

/-- verdict for a result epoch that must have exactly value `v` in scale `ts` -/
def judgeEpValue (impl : Impl) (ts : TS) (v : Int) : String :=
  match impl with
  | .ok [r] => match parseEp? r with
    | some r => verdict [("scale", r.ts == ts), ("canonical", scanon r.dur), ("value", sval r.dur == v)]
    | none => "FAIL:decode"
  | .ok _ => "FAIL:decode"
  | .other w => "FAIL:" ++ w

def noPanic (impl : Impl) : String :=
  match impl with
  | .ok _ => "ok"
  | .other w => "FAIL:" ++ w

/-- does converting `e` to `ts` stay inside the representable range at every step? -/
def convFits (e : Ep) (ts : TS) : Bool :=
  match instOf e, scaleOff ts.name with
  | some i, some o => inRange i && inRange (i - o) && inRange (i - o - 40000000000) && inRange (sval e.dur)
  | _, _ => false

def nearLeap (t : Int) : String :=
  if iersTbl.any (fun e => decide ((t - e.1 * 1000000000 - e.2 * 1000000000).natAbs ≤ 41000000000)) then "near_leap" else "far"

def sideTag (v : Int) : String := if v < 0 then "before_ref" else "after_ref"

/-- spec value of an epoch `e` expressed in scale `ts` when `ts` is not UTC -/
def valueIn (e : Ep) (ts : TS) : Option Int :=
  match instOf e, scaleOff ts.name with
  | some i, some o => if ts == TS.UTC then none else some (i - o)
  | _, _ => none

/-- the integer held by an integer-valued f64 bit pattern (none otherwise) -/
def intOfF64Bits (h : String) : Option Int :=
  let bits := h.toList.foldl (fun acc c => acc * 16 + (if c.isDigit then c.toNat - 48 else c.toNat - 87)) 0
  let sign := bits >>> 63
  let ex := (bits >>> 52) % 2048
  let mant := bits % (1 <<< 52)
  if ex == 0 then (if mant == 0 then some 0 else none)
  else if ex == 2047 then none
  else
    let m := mant + (1 <<< 52)
    let e : Int := (ex : Int) - 1075
    if e ≥ 0 then some ((if sign == 1 then -1 else 1) * (m <<< e.toNat : Nat))
    else
      let sh := (-e).toNat
      if sh ≥ 64 then none
      else if m % (1 <<< sh) == 0 then some ((if sign == 1 then -1 else 1) * (m >>> sh : Nat)) else none

def handleConv (op : String) (args : List String) (impl : Impl) : Option Ans :=
  match op, args with
  | "tots", [e, ts] => do
    let e ← parseEp? e; let ts ← TS.ofString? ts
    let m := e.to ts
    let fits := convFits e ts
    let i ← instOf e
    let inserted := ts == TS.UTC && e.ts != TS.UTC && inInserted iersTbl i
    let sp := if !fits then noPanic impl
      else if inserted then noPanic impl   -- no UTC pre-image: only monotonicity is demanded (utcmono)
      else judgeEpInstant impl ts i
    pure { model := showOEp m, spec := sp,
           branch := "tots:" ++ e.ts.name ++ ">" ++ ts.name ++ ":" ++ (if !fits then "saturating" else if inserted then "inserted_second" else nearLeap i) ++ ":" ++ sideTag (sval e.dur) }
  | "to_dur_in", [e, ts] => do
    let e ← parseEp? e; let ts ← TS.ofString? ts
    let m := e.to ts
    let fits := convFits e ts
    let i ← instOf e
    let inserted := ts == TS.UTC && e.ts != TS.UTC && inInserted iersTbl i
    let sp := if !fits || inserted then noPanic impl else match impl with
      | .ok [r] => (match parseDur? r with
          | some r => verdict [("canonical", scanon r), ("instant", denotes iersTbl ts.name (sval r) i)]
          | none => "FAIL:decode")
      | .other w => "FAIL:" ++ w
      | _ => "FAIL:decode"
    pure { model := (match m with | some x => "ok " ++ showDur x.dur | none => "unmodelled"), spec := sp,
           branch := "to_dur_in:" ++ e.ts.name ++ ">" ++ ts.name ++ (if fits then "" else ":saturating") }
  | "tsback", [e, ts] => do
    let e ← parseEp? e; let ts ← TS.ofString? ts
    let m := (e.to ts).bind (fun x => x.to e.ts)
    let fits := convFits e ts
    let sp := if !fits then noPanic impl else judgeEpValue impl e.ts (sval e.dur)
    pure { model := showOEp m, spec := sp,
           branch := "tsback:" ++ e.ts.name ++ ">" ++ ts.name ++ (if fits then "" else ":saturating") }
  | "tscomm", [e, ts, d] => do
    let e ← parseEp? e; let ts ← TS.ofString? ts; let d ← parseDur? d
    let e2 : Ep := ⟨Dur.add e.dur d, e.ts⟩
    let m1 := e2.to ts
    let m2 := (e.to ts).map (fun x => (⟨Dur.add x.dur d, x.ts⟩ : Ep))
    let fits := convFits e ts && convFits e2 ts && inRange (sval e.dur + sval d)
    let sp := if !fits then noPanic impl else match impl with
      | .ok [x, y] => (match parseEp? x, parseEp? y, valueIn e ts with
          | some x, some y, some v => verdict [("commutes", x == y), ("value", sval x.dur == v + sval d), ("scale", x.ts == ts)]
          | _, _, _ => "FAIL:decode")
      | .other w => "FAIL:" ++ w
      | _ => "FAIL:decode"
    pure { model := (match m1, m2 with | some a, some b => "ok " ++ showEp a ++ " " ++ showEp b | _, _ => "unmodelled"),
           spec := sp, branch := "tscomm:" ++ e.ts.name ++ ">" ++ ts.name ++ (if fits then "" else ":saturating") }
  | "acc", [name, e] => do
    let e ← parseEp? e
    let ts ← (match name with
      | "to_tai_duration" | "to_duration_since_j1900" => some TS.TAI
      | "to_tt_duration" => some TS.TT | "to_gpst_duration" => some TS.GPST
      | "to_gst_duration" => some TS.GST | "to_bdt_duration" => some TS.BDT
      | "to_qzsst_duration" => some TS.QZSST | "to_utc_duration" => some TS.UTC | _ => none)
    -- `to_bdt_duration` has its own formula: to_tai_duration() - BDT_REF_EPOCH.to_tai_duration()
    let m : Option Dur := if name == "to_bdt_duration" then (e.to TS.TAI).map (fun x => Dur.sub x.dur (refTai TS.BDT))
                          else (e.to ts).map (·.dur)
    let fits := convFits e ts
    let i ← instOf e
    -- an instant inside an inserted second has no UTC count (as for `tots`: only monotonicity is demanded there, D9b)
    let inserted := ts == TS.UTC && e.ts != TS.UTC && inInserted iersTbl i
    let sp := if !fits || inserted then noPanic impl else match impl with
      | .ok [r] => (match parseDur? r with
          | some r => verdict [("canonical", scanon r), ("instant", denotes iersTbl ts.name (sval r) i)]
          | none => "FAIL:decode")
      | .other w => "FAIL:" ++ w
      | _ => "FAIL:decode"
    pure { model := (match m with | some x => "ok " ++ showDur x | none => "unmodelled"), spec := sp,
           branch := "acc:" ++ name ++ ":" ++ e.ts.name ++ (if !fits then ":saturating" else if inserted then ":inserted_second" else "") }
  | "from_dur", [name, d] => do
    let d ← parseDur? d
    let ts ← (match name with
      | "from_tai_duration" => some TS.TAI | "from_tt_duration" => some TS.TT
      | "from_gpst_duration" => some TS.GPST | "from_gst_duration" => some TS.GST
      | "from_bdt_duration" => some TS.BDT | "from_qzsst_duration" => some TS.QZSST
      | "from_utc_duration" => some TS.UTC | _ => none)
    pure { model := "ok " ++ showEp ⟨d, ts⟩, spec := judgeEpValue impl ts (sval d), branch := "from_dur:" ++ name }
  | "refepoch", [ts] => do
    let ts ← TS.ofString? ts
    let e : Ep := ⟨Dur.ZERO, ts⟩
    let o ← scaleOff ts.name
    let sp := match impl with
      | .ok [x, y] => (match parseEp? x, parseDur? y with
          | some x, some y => verdict [("zero_in_scale", x == e), ("tai_offset", sval y == o)]
          | _, _ => "FAIL:decode")
      | .other w => "FAIL:" ++ w
      | _ => "FAIL:decode"
    pure { model := (match e.to TS.TAI with | some t => "ok " ++ showEp e ++ " " ++ showDur t.dur | none => "unmodelled"),
           spec := sp, branch := "refepoch:" ++ ts.name }
  | _, _ => none


def optBits (o : Option LeapEntry) : String :=
  match o with
  | some e => "ok " ++ e.bits
  | none => "ok none"

/-- hex digits of an f64 holding the small non-negative integer k (0 ≤ k < 2^53) -/
def f64BitsOfNat (k : Nat) : String :=
  if k == 0 then "0000000000000000" else
  let e := k.log2
  let mant := (k <<< (52 - e)) - (1 <<< 52)
  let bits := ((1023 + e) <<< 52) + mant
  let hex := (Nat.toDigits 16 bits)
  String.ofList (List.replicate (16 - hex.length) '0' ++ hex)

def showLeapEntries (l : List LeapEntry) : String :=
  ",".intercalate (l.map (fun e => toString e.ts ++ "/" ++ toString (e.dns / 1000000000) ++ "/" ++ bool01 e.iers))

/-- `LeapSecondsFile::from_path` line grammar on the generated files (lines: `ts<TAB>off<TAB># x`, `#` comments):
    returns the (ts, off) pairs; `none` = the parser returns an error -/
def parseLsFile (txt : String) : Option (List LeapEntry) :=
  let lines := txt.splitOn "\n"
  lines.foldlM (fun acc line =>
    if line.isEmpty then some acc
    else if line.front == '#' then some acc
    else
      let cols := (line.split (fun c => c == ' ' || c == '\t')).toList.map (·.toString) |>.filter (· ≠ "")
      match cols with
      | a :: b :: _ => (match a.toNat?, b.toNat? with
          | some a, some b => if b ≤ 255 then some (acc ++ [((a : Int), (b : Int) * 1000000000, true, f64BitsOfNat b)]) else none
          | _, _ => none)
      | _ => none) []

def hexVal (c : Char) : Nat :=
  if c.isDigit then c.toNat - 48 else if 'a' ≤ c ∧ c ≤ 'f' then c.toNat - 87 else 0

/-- protocol strings: hex of UTF-8; only used for ASCII payloads here -/
def hexToAscii (h : String) : String :=
  if h == "-" then "" else
  let rec go : List Char → List Char
    | a :: b :: rest => Char.ofNat (hexVal a * 16 + hexVal b) :: go rest
    | _ => []
  String.ofList (go h.toList)

def cmpInt (a b : Int) : Int := if a < b then -1 else if a > b then 1 else 0

/-- D9b: the pair of TAI instants touches an inserted second -/
def touchesInserted (t1 t2 : Int) : Bool :=
  iersTbl.any (fun e =>
    let lo := e.1 * 1000000000 + leapAt iersTbl (e.1 * 1000000000 - 1) * 1000000000
    let hi := e.1 * 1000000000 + e.2 * 1000000000
    decide (t1 < hi ∧ lo ≤ t2))

def handleOps (op : String) (args : List String) (impl : Impl) : Option Ans :=
  match op, args with
  -- ---------------------------------------------------------------- C04
  | "eadd", [e, d] | "eaddassign", [e, d] => do
    let e ← parseEp? e; let d ← parseDur? d
    pure { model := "ok " ++ showEp ⟨Dur.add e.dur d, e.ts⟩, spec := judgeEpValue impl e.ts (clampD (sval e.dur + sval d)),
           branch := op ++ ":" ++ e.ts.name ++ ":" ++ satTag (sval e.dur + sval d) }
  | "esub", [e, d] | "esubassign", [e, d] => do
    let e ← parseEp? e; let d ← parseDur? d
    pure { model := "ok " ++ showEp ⟨Dur.sub e.dur d, e.ts⟩, spec := judgeEpValue impl e.ts (clampD (sval e.dur - sval d)),
           branch := op ++ ":" ++ e.ts.name ++ ":" ++ satTag (sval e.dur - sval d) }
  | "eaddu", [e, u] => do
    let e ← parseEp? e; let f ← unitFactor u; let fs ← specFactor u
    pure { model := "ok " ++ showEp ⟨Dur.add e.dur (Dur.unitMulI64 f 1), e.ts⟩, spec := judgeEpValue impl e.ts (clampD (sval e.dur + fs)),
           branch := "eaddu:" ++ u }
  | "esubu", [e, u] => do
    let e ← parseEp? e; let f ← unitFactor u; let fs ← specFactor u
    pure { model := "ok " ++ showEp ⟨Dur.sub e.dur (Dur.unitMulI64 f 1), e.ts⟩, spec := judgeEpValue impl e.ts (clampD (sval e.dur - fs)),
           branch := "esubu:" ++ u }
  | "ediff", [a, b] => do
    let a ← parseEp? a; let b ← parseEp? b
    let m := Ep.diff a b
    let fits := convFits b a.ts
    let ib ← instOf b
    let inserted := a.ts == TS.UTC && b.ts != TS.UTC && inInserted iersTbl ib
    -- "measured in the time scale of the left operand after re-expressing the right operand in it":
    -- the result r is a − b′ where b′ is the value, in a's scale, of the instant b denotes
    let sp := if !fits then noPanic impl else match impl with
      | .ok [r] => (match parseDur? r with
          | some r =>
            let v := sval a.dur - sval r
            let saturated := sval r == DMIN || sval r == DMAX
            if saturated then verdict [("canonical", scanon r)]
            else verdict [("canonical", scanon r), ("right_operand_reexpressed", denotes iersTbl a.ts.name v ib)]
          | none => "FAIL:decode")
      | .other w => "FAIL:" ++ w
      | _ => "FAIL:decode"
    -- (a UTC left operand cannot re-express an instant inside an inserted second: recorded finding D9b, tagged)
    pure { model := (match m with | some x => "ok " ++ showDur x | none => "unmodelled"), spec := sp,
           cls := if fits && inserted then "D9b" else "-",
           branch := "ediff:" ++ a.ts.name ++ "-" ++ b.ts.name ++ (if !fits then ":saturating" else if inserted then ":inserted" else "") }
  | "eaddf", [e, f] => do
    let e ← parseEp? e
    -- the generator only emits integer-valued doubles; decode the integer from the bits
    let k ← Hifi.Drive.Epoch.intOfF64Bits f
    -- a whole number of seconds goes through `(seconds as i64) * Unit::Second` (saturating cast, exact integer
    -- product, saturating sum): exact for EVERY integer-valued double
    let m : Ep := e.addWholeSeconds k
    let inR := inRange (k * 1000000000) && inRange (sval e.dur + k * 1000000000)
    -- SoftF64 evaluation of the whole expression (Model/ViewsFloat.lean `epochAddF`, incl. the `trunc == x` test and
    -- the saturating cast — what the C04 float theorems are about) must give the same duration
    let cross : Bool := (F64.parseHex? f).map (fun x => Hifi.ViewsF.epochAddF e.dur x) == some m.dur
    let sp0 := if inR then judgeEpValue impl e.ts (sval e.dur + k * 1000000000) else noPanic impl
    pure { model := "ok " ++ showEp m,
           spec := if sp0 == "ok" && !cross then "FAIL:softf64_equals_model" else sp0,
           branch := "eaddf:" ++ (if !inR then "saturating" else if k.natAbs * 1000000000 < 9007199254740992 then "small" else "beyond_2^53_ns") ++
             (if cross then ":softf64=hw" else ":softf64!=hw") }
  | "eroundtrip", [e, d] => do
    let e ← parseEp? e; let d ← parseDur? d
    let s := Dur.add e.dur d
    let fits := inRange (sval e.dur + sval d)
    let sp := if !fits then noPanic impl else match impl with
      | .ok [x, y] => (match parseDur? x, parseEp? y with
          | some x, some y => verdict [("(e+d)-e=d", sval x == sval d && scanon x), ("(e+d)-d=e", y.ts == e.ts && sval y.dur == sval e.dur && scanon y.dur)]
          | _, _ => "FAIL:decode")
      | .other w => "FAIL:" ++ w
      | _ => "FAIL:decode"
    pure { model := "ok " ++ showDur (Dur.sub s e.dur) ++ " " ++ showEp ⟨Dur.sub s d, e.ts⟩, spec := sp,
           branch := "eroundtrip:" ++ e.ts.name ++ (if fits then "" else ":saturating") }
  | "eaddiff", [e, f] => do
    let e ← parseEp? e; let f ← parseEp? f
    let fits := inRange (sval f.dur - sval e.dur)
    let m : Ep := ⟨Dur.add e.dur (Dur.sub f.dur e.dur), e.ts⟩
    pure { model := "ok " ++ showEp m, spec := if fits then judgeEpValue impl f.ts (sval f.dur) else noPanic impl,
           branch := "eaddiff:" ++ e.ts.name ++ (if fits then "" else ":saturating") }
  | "efloor", [e, st] => do
    let e ← parseEp? e; let st ← parseDur? st
    pure { model := "ok " ++ showEp ⟨Dur.floor e.dur st, e.ts⟩, spec := judgeEpValue impl e.ts (sfloor (sval e.dur) (sval st)),
           cls := tagD1 [e.dur, st], branch := "efloor:" ++ e.ts.name ++ ":" ++ stepTag (sval e.dur) (sval st) }
  | "eceil", [e, st] => do
    let e ← parseEp? e; let st ← parseDur? st
    pure { model := (match Dur.ceil e.dur st with | .ok r => "ok " ++ showEp ⟨r, e.ts⟩ | .err => "err" | .panic => "panic"),
           spec := judgeEpValue impl e.ts (sceil (sval e.dur) (sval st)),
           cls := tagD1 [e.dur, st, Dur.floor e.dur st], branch := "eceil:" ++ e.ts.name ++ ":" ++ stepTag (sval e.dur) (sval st) }
  | "eround", [e, st] => do
    let e ← parseEp? e; let st ← parseDur? st
    pure { model := (match Dur.round e.dur st with | .ok r => "ok " ++ showEp ⟨r, e.ts⟩ | .err => "err" | .panic => "panic"),
           spec := judgeEpValue impl e.ts (sround (sval e.dur) (sval st)),
           cls := tagD1 [e.dur, st, Dur.floor e.dur st], branch := "eround:" ++ e.ts.name ++ ":" ++ stepTag (sval e.dur) (sval st) }
  -- ---------------------------------------------------------------- C06
  | "utcrt", [e] => do
    let e ← parseEp? e
    let m := (e.to TS.TAI).bind (fun x => x.to TS.UTC)
    let fits := convFits e TS.TAI
    pure { model := showOEp m, spec := if fits then judgeEpValue impl TS.UTC (sval e.dur) else noPanic impl,
           branch := "utcrt:" ++ (if fits then nearLeap (utcToTai iersTbl (sval e.dur)) else "saturating") }
  | "leap", [e, b] => do
    let e ← parseEp? e
    let iersOnly := b == "1"
    let m := leapSecondsWith builtin e iersOnly
    let i ← instOf e
    -- spec (IERS part only): with iers_only the answer is the offset in force at the UTC count of the instant
    let sp := if !iersOnly then noPanic impl else if !convFits e TS.TAI then noPanic impl else match impl with
      | .ok [r] =>
        -- look the offset up by TAI instant: the library indexes its table by the TAI count compared with UTC
        -- time stamps; the property constrains conversions, so only "an IERS offset or none" is demanded here
        let allowed := "none" :: (iersTbl.map (fun e => f64BitsOfNat e.2.toNat))
        verdict [("is_iers_offset", allowed.contains r)]
      | .other w => "FAIL:" ++ w
      | _ => "FAIL:decode"
    pure { model := (match m with | some o => optBits o | none => "unmodelled"), spec := sp,
           branch := "leap:" ++ e.ts.name ++ ":" ++ b ++ ":" ++ nearLeap i }
  | "leap_iers", [e] => do
    let e ← parseEp? e
    let m := leapSecondsWith builtin e true
    pure { model := (match m with | some (some x) => "ok " ++ toString (x.dns / 1000000000) | some none => "ok 0" | none => "unmodelled"),
           spec := noPanic impl, branch := "leap_iers:" ++ e.ts.name }
  | "leap_with", [which, e, b] => do
    let e ← parseEp? e
    let tbl : List LeapEntry := if which == "file" then Gen.LEAP_FILE else builtin
    let m := leapSecondsWith tbl e (b == "1")
    -- "a provider loaded from an IERS-format file answers identically" (IERS-only queries)
    let same := leapSecondsWith builtin e true
    let sp := match impl, same with
      | .ok [r], some o => if which == "file" || b == "1" then verdict [("same_as_builtin_iers", "ok " ++ r == optBits o)] else "ok"
      | .other w, _ => "FAIL:" ++ w
      | _, _ => "FAIL:decode"
    pure { model := (match m with | some o => optBits o | none => "unmodelled"), spec := sp,
           branch := "leap_with:" ++ which ++ ":" ++ b }
  | "utcmono", [e, d] | "taimono", [e, d] => do
    let e ← parseEp? e; let d ← parseDur? d
    let target := if op == "utcmono" then TS.UTC else TS.TAI
    let e2 : Ep := ⟨Dur.add e.dur d, e.ts⟩
    let m1 := e.to target; let m2 := e2.to target
    let fits := convFits e target && convFits e2 target && inRange (sval e.dur + sval d)
    let i1 ← instOf e; let i2 ← instOf e2
    let strict := op == "taimono"
    let sp := if !fits then noPanic impl else match impl with
      | .ok [x, y] => (match parseDur? x, parseDur? y with
          | some x, some y => if strict then verdict [("strictly_increasing", decide (sval x < sval y))]
                              else verdict [("never_backwards", decide (sval x ≤ sval y))]
          | _, _ => "FAIL:decode")
      | .other w => "FAIL:" ++ w
      | _ => "FAIL:decode"
    pure { model := (match m1, m2 with | some a, some b => "ok " ++ showDur a.dur ++ " " ++ showDur b.dur | _, _ => "unmodelled"),
           spec := sp, cls := if op == "utcmono" && touchesInserted i1 i2 then "D9b" else "-",
           branch := op ++ ":" ++ (if !fits then "saturating" else if op == "utcmono" && touchesInserted i1 i2 then "touches_inserted" else nearLeap i1) }
  | "lsfile_lookup", [h, e] => do
    let e ← parseEp? e
    let txt := hexToAscii h
    let codes : List Nat := txt.toList.map Char.toNat
    let m := match Hifi.LeapFile.parseFile codes with
      | .err => "err"
      | .panic => "panic"
      | .ok pairs =>
        let tbl : List LeapEntry := pairs.map (fun p => ((p.1 : Int), (p.2 : Int) * 1000000000, true, f64BitsOfNat p.2))
        "ok " ++ showLeapEntries tbl ++ " " ++
          (match leapSecondsWith tbl e true with
           | some (some x) => x.bits | some none => "none" | none => "unmodelled")
    -- spec: the provider holds exactly the data lines of the file, and answers with the step function of the file
    let sp := match impl with
      | .ok [ents, ans] =>
        -- columns are separated by blanks, tabs (and the CR of a CR LF line end); a line without any column is blank
        let colsOf (l : String) : List String := (l.split (fun c => c == ' ' || c == '\t' || c == '\r')).toList.map (·.toString) |>.filter (· ≠ "")
        let want := (txt.splitOn "\n").filter (fun l => !(colsOf l).isEmpty && l.front != '#') |>.map (fun l =>
          let cols := colsOf l
          (cols.getD 0 "") ++ "/" ++ (cols.getD 1 "") ++ "/1")
        let pairs : List (Int × Int) := want.filterMap (fun w => match w.splitOn "/" with
          | [a, b, _] => (match a.toInt?, b.toInt? with | some a, some b => some (a, b) | _, _ => none)
          | _ => none)
        let l := leapAtAux pairs (sval e.dur) (-1)
        verdict [("entries", ents == ",".intercalate want),
                 ("lookup", ans == (if l < 0 then "none" else f64BitsOfNat l.toNat))]
      | .other "err" => "FAIL:err"
      | .other w => "FAIL:" ++ w
      | _ => "FAIL:decode"
    pure { model := m, spec := sp, branch := "lsfile_lookup" }
  | "lsiter", [which, k, method, j] => do
    -- "LatestLeapSeconds iteration" (spec only): reading the table through the Iterator protocol after k forward steps
    -- gives what the full forward listing (second observable; its content is judged by leap_table) says
    let k ← k.toNat?; let j ← j.toNat?
    let sp := match impl with
      | .ok [got, full] =>
        let fl := full.splitOn ","
        let rest := fl.drop k
        let want : List String := match method with
          | "last" | "max" => rest.getLast?.toList
          | "min" => rest.head?.toList
          | "count" => [toString rest.length]
          | "nth" => (rest.drop j).head?.toList
          | "rest" | "index" => rest
          | _ => fl.reverse
        verdict [("reads_the_listed_table", got == (if want.isEmpty then "-" else ",".intercalate want))]
      | .other w => "FAIL:" ++ w
      | _ => "FAIL:decode"
    pure { model := "-", spec := sp, branch := "lsiter:" ++ which ++ ":" ++ method }
  | "leap_table", [which] => do
    let tbl : List LeapEntry := if which == "file" then Gen.LEAP_FILE else builtin
    -- the generated table IS what the provider yields (tie of Gen to the code); the theorems of
    -- Props/C06 pin it to the IERS file and the NAIF kernel.  Time stamps are compared as integers.
    let sp := match impl with
      | .ok [s] =>
        let got := (s.splitOn ",").map (fun x => match x.splitOn "/" with
          | [t, d, i] => (match intOfF64Bits t with | some n => toString n | none => "?") ++ "/" ++ d ++ "/" ++ i
          | _ => "?")
        let want := tbl.map (fun e => toString e.ts ++ "/" ++ e.bits ++ "/" ++ bool01 e.iers)
        verdict [("same_as_generated", got == want)]
      | .other w => "FAIL:" ++ w
      | _ => "FAIL:decode"
    pure { model := "-", spec := sp, branch := "leap_table:" ++ which }
  -- ---------------------------------------------------------------- C12
  | "precise0", [e, _ref, ts, _fwd] => do
    -- `precise_timescale_conversion` with the zero polynomial IS the plain conversion (C05 / C06 / C07, spec only):
    -- identical to what to_time_scale answers for the same epoch, whatever the reference epoch
    let e ← parseEp? e
    let sp := if e.ts.name == ts then noPanic impl else match impl with
      | .ok [x, y] => verdict [("equals_to_time_scale", x == y)]
      | .other w => "FAIL:" ++ w
      | _ => "FAIL:decode"
    pure { model := "-", spec := sp, branch := "precise0:" ++ e.ts.name ++ ">" ++ ts }
  | "eordfns", [a, b, _c] => do
    -- C12 through the std entry points of the order (spec only, by instants): min / max return an operand with the
    -- smaller / larger instant; clamp returns the epoch itself when it lies between the bounds, else the nearer bound
    -- (equal instants: either operand)
    let a ← parseEp? a; let b ← parseEp? b
    let ia ← instOf a; let ib ← instOf b
    let pick (want : Ep) (alt : Option Ep) (got : String) : Bool := got == showEp want || (match alt with | some x => got == showEp x | none => false)
    let sp := match impl with
      | .ok [mn, mx, cmn, cmx, cl, lo, hi] => (match parseEp? lo, parseEp? hi with
          | some lo, some hi => (match instOf lo, instOf hi with
            | some il, some ih =>
              if !(convFits a b.ts && convFits b a.ts && convFits a lo.ts && convFits lo a.ts && convFits a hi.ts && convFits hi a.ts) then "na" else
              let wmin := if ia ≤ ib then a else b
              let wmax := if ia ≥ ib then a else b
              let tie : Option Ep := if ia == ib then some (if wmin == a then b else a) else none
              let wcl : Ep := if ia < il then lo else if ia > ih then hi else a
              let clAlt : Option Ep := if ia == il then some lo else if ia == ih then some hi else none
              verdict [("lo_le_hi", decide (il ≤ ih)), ("ord_min", pick wmin tie mn), ("ord_max", pick wmax tie mx), ("cmp_min", pick wmin tie cmn), ("cmp_max", pick wmax tie cmx),
                       ("clamp", pick wcl clAlt cl)]
            | _, _ => "FAIL:decode")
          | _, _ => "FAIL:decode")
      | .other w => "FAIL:" ++ w
      | _ => "FAIL:decode"
    pure { model := "-", spec := sp, branch := "eordfns:" ++ a.ts.name ++ "," ++ b.ts.name }
  | "ecmp_via", [how, _, _, _, _] => do
    -- C12 on the RESULT of a stepping entry point, in whatever form it was left (raw parts as printed), against the freshly
    -- constructed epoch of the same parts (moved by a few ns) and its re-expression in another scale: chronological
    -- (spec only, by the instants of the operands as printed; the value of the result itself is C04's subject)
    let grp (x : Ep) (z c rc e re : String) : Option (List (String × Bool)) := do
      let z ← parseEp? z
      let ix ← instOf x; let iz ← instOf z
      if !(convFits x z.ts && convFits z x.ts) then pure [] else
      let w := cmpInt ix iz
      pure [("cmp", c == toString w), ("reverse_cmp", rc == toString (-w)), ("eq", e == bool01 (w == 0)), ("reverse_eq", re == bool01 (w == 0))]
    let sp := match impl with
      | .ok [x, z1, c1, r1, e1, q1, z2, c2, r2, e2, q2] =>
        (match parseEp? x with
         | some x => (match grp x z1 c1 r1 e1 q1, grp x z2 c2 r2 e2 q2 with
            | some a, some b => verdict (a ++ b)
            | _, _ => "FAIL:decode")
         | none => "FAIL:decode")
      | .other w => "FAIL:" ++ w
      | _ => "FAIL:decode"
    pure { model := "-", spec := sp, branch := "ecmp_via:" ++ how }
  | "ecmp_parts", [c, ns, b] => do
    -- C12 on an epoch built from RAW TAI parts (the nanosecond field may hold several centuries): comparisons answer the
    -- chronological question whatever way the operand was constructed (spec only; |c| <= 100, nothing saturates)
    let c ← c.toInt?; let ns ← ns.toInt?; let b ← parseEp? b
    let ia : Int := c * 3155760000000000000 + ns
    let ib ← instOf b
    let ins := b.ts == TS.UTC && inInserted iersTbl ia
    let wc : Int := if ia < ib then -1 else if ia == ib then 0 else 1
    let sp := if !(convFits b TS.TAI) || ins then noPanic impl else match impl with
      | .ok [cm, e, rc, re] =>
        verdict [("cmp", cm == toString wc), ("eq", e == bool01 (wc == 0)), ("reverse_cmp", rc == toString (-wc)), ("reverse_eq", re == bool01 (wc == 0))]
      | .other w => "FAIL:" ++ w
      | _ => "FAIL:decode"
    pure { model := "-", spec := sp, branch := "ecmp_parts:" ++ b.ts.name ++ (if ns ≥ 3155760000000000000 then ":raw" else ":canonical") }
  | "eeq", [a, b] | "ene", [a, b] => do
    let a ← parseEp? a; let b ← parseEp? b
    let m := (Ep.eqb a b).map (fun x => if op == "eeq" then x else !x)
    let fits := convFits a b.ts && convFits b a.ts
    let ia ← instOf a; let ib ← instOf b
    let want := if op == "eeq" then ia == ib else ia != ib
    -- comparisons convert the UTC operand toward the other scale (always defined), so they are
    -- chronological also for instants inside an inserted second
    pure { model := (match m with | some x => "ok " ++ bool01 x | none => "unmodelled"),
           spec := if fits then judgeInt impl (if want then 1 else 0) else noPanic impl,
           branch := op ++ ":" ++ a.ts.name ++ "," ++ b.ts.name ++ ":" ++ (if !fits then "saturating" else if ia == ib then "same_instant" else if (ia - ib).natAbs ≤ 2 then "ns_apart" else if sval a.dur == -(sval b.dur) then "symmetric" else "other") }
  | "ecmp", [a, b] | "elt", [a, b] | "ele", [a, b] | "egt", [a, b] | "ege", [a, b] => do
    let a ← parseEp? a; let b ← parseEp? b
    let c := Ep.cmp a b
    let fits := convFits a b.ts && convFits b a.ts
    let ia ← instOf a; let ib ← instOf b
    let wc := cmpInt ia ib
    let (m, want) : Option String × Int := match op with
      | "ecmp" => (c.map toString, wc)
      | "elt" => (c.map (fun c => bool01 (c == -1)), if wc == -1 then 1 else 0)
      | "ele" => (c.map (fun c => bool01 (c != 1)), if wc != 1 then 1 else 0)
      | "egt" => (c.map (fun c => bool01 (c == 1)), if wc == 1 then 1 else 0)
      | _ => (c.map (fun c => bool01 (c != -1)), if wc != -1 then 1 else 0)
    let ins := (a.ts != b.ts) && ((b.ts == TS.UTC && inInserted iersTbl ia) || (a.ts == TS.UTC && inInserted iersTbl ib))
    pure { model := (match m with | some x => "ok " ++ x | none => "unmodelled"),
           spec := if fits then judgeInt impl want else noPanic impl,
           branch := op ++ ":" ++ a.ts.name ++ "," ++ b.ts.name ++ ":" ++ (if !fits then "saturating" else if ins then "inserted_second" else if ia == ib then "same_instant" else if (ia - ib).natAbs ≤ 2 then "ns_apart" else "other") }
  | "emin", [a, b] | "emax", [a, b] => do
    let a ← parseEp? a; let b ← parseEp? b
    let m := if op == "emin" then Ep.min a b else Ep.max a b
    -- std's Ord::min is `if other < self { other } else { self }`, Ord::max `if other < self { self } else { other }`
    let mo := (Ep.cmp b a).map (fun c => if op == "emin" then (if c == -1 then b else a) else (if c == -1 then a else b))
    let fits := convFits a b.ts && convFits b a.ts
    let ia ← instOf a; let ib ← instOf b
    let ins := (a.ts != b.ts) && ((b.ts == TS.UTC && inInserted iersTbl ia) || (a.ts == TS.UTC && inInserted iersTbl ib))
    let wantI := if op == "emin" then (if ia < ib then ia else ib) else (if ia > ib then ia else ib)
    let _ := ins
    let sp := if !fits then noPanic impl else match impl with
      | .ok [r, r2] => (match parseEp? r, parseEp? r2 with
          | some r, some r2 => verdict [("is_an_operand", (r == a || r == b) && (r2 == a || r2 == b)),
                                        ("instant", instOf r == some wantI && instOf r2 == some wantI)]
          | _, _ => "FAIL:decode")
      | .other w => "FAIL:" ++ w
      | _ => "FAIL:decode"
    pure { model := (match m, mo with | some x, some y => "ok " ++ showEp x ++ " " ++ showEp y | _, _ => "unmodelled"),
           spec := sp, branch := op ++ ":" ++ a.ts.name ++ "," ++ b.ts.name ++ (if ia == ib then ":same_instant" else "") }
  | "esort3", [a, b, c] => do
    let a ← parseEp? a; let b ← parseEp? b; let c ← parseEp? c
    let fits := [a, b, c].all (fun x => [a, b, c].all (fun y => convFits x y.ts))
    let sp := if !fits then noPanic impl else match impl with
      | .ok [x, y, z] => (match parseEp? x, parseEp? y, parseEp? z with
          | some x, some y, some z =>
            (match instOf x, instOf y, instOf z with
             | some ix, some iy, some iz =>
               verdict [("ordered", decide (ix ≤ iy ∧ iy ≤ iz)),
                        ("permutation", [a, b, c].all (fun v => [a, b, c].count v == [x, y, z].count v))]
             | _, _, _ => "FAIL:decode")
          | _, _, _ => "FAIL:decode")
      | .other w => "FAIL:" ++ w
      | _ => "FAIL:decode"
    -- std's sort is stable but its comparison sequence is not modelled: the model column is the spec order
    pure { model := "-", spec := sp, branch := "esort3" ++ (if fits then "" else ":saturating") }
  | "ecmpconv", [a, b, ts] => do
    let a ← parseEp? a; let b ← parseEp? b; let ts ← TS.ofString? ts
    let fits := convFits a b.ts && convFits b a.ts && convFits a ts && convFits b ts
    let ia ← instOf a; let ib ← instOf b
    -- only a conversion INTO UTC of an instant inside an inserted second lacks a pre-image
    let ins := ts == TS.UTC && ((a.ts != TS.UTC && inInserted iersTbl ia) || (b.ts != TS.UTC && inInserted iersTbl ib))
    let wc := cmpInt ia ib
    let ac := a.to ts; let bc := b.to ts
    let one : Dur := ⟨0, 1⟩
    let m := match Ep.cmp a b, Ep.eqb a b, Ep.cmp b a, Ep.eqb b a, ac.bind (fun x => Ep.cmp x b), bc.bind (fun y => Ep.cmp a y),
                   Ep.cmp a b, Ep.cmp (⟨Dur.add a.dur one, a.ts⟩ : Ep) b with
      | some c1, some e1, some c2, some e2, some c3, some c4, some c5, some c6 =>
        "ok " ++ toString c1 ++ " " ++ bool01 e1 ++ " " ++ toString c2 ++ " " ++ bool01 e2 ++ " " ++ toString c3 ++ " " ++ toString c4 ++ " " ++
          bool01 (c5 != 1 && c6 == 1)
      | _, _, _, _, _, _, _, _ => "unmodelled"
    let sp := if !fits then noPanic impl else match impl with
      | .ok [c1, e1, c2, e2, c3, c4, rg] =>
        verdict [("cmp", c1 == toString wc), ("eq", e1 == bool01 (wc == 0)), ("reverse_cmp", c2 == toString (-wc)),
                 ("reverse_eq", e2 == bool01 (wc == 0)), ("left_converted", c3 == toString wc), ("right_converted", c4 == toString wc),
                 -- the range is `a .. a + 1 ns`; its end is the epoch one count later IN a's SCALE (in UTC that
                 -- can be a whole inserted second later as an instant)
                 ("range_contains", sval a.dur ≥ DMAX ||
                    (match instant iersTbl a.ts.name (sval a.dur + 1) with
                     | some iend => rg == bool01 (ia ≤ ib && ib < iend)
                     | none => true))]
      | .other w => "FAIL:" ++ w
      | _ => "FAIL:decode"
    -- an instant inside an inserted second has no UTC count: converting it INTO UTC moves it (recorded finding
    -- D9b), so "preserved by converting either operand" can fail for near pairs there; such lines are tagged
    pure { model := m, spec := sp, cls := if fits && ins then "D9b" else "-",
           branch := "ecmpconv:" ++ a.ts.name ++ "," ++ b.ts.name ++ ">" ++ ts.name ++ (if !fits then ":saturating" else if ins then ":inserted" else "") }
  | _, _ => none

/-- civil weekday (0 = Monday) of the day containing the count `v` (ns from a Monday 00:00) -/
def specWeekday (v : Int) : Int := (v / nsPerDay) % 7

/-- a leap second is inserted between UTC counts u1 < u2 -/
def leapBetween (u1 u2 : Int) : Bool := leapAt iersTbl u1 != leapAt iersTbl u2

def handleMore (op : String) (args : List String) (impl : Impl) : Option Ans :=
  match op, args with
  -- ---------------------------------------------------------------- C15
  | "series", [incl, start, span, endTs, step, cap] => do
    let start ← parseEp? start; let span ← parseDur? span; let endTs ← TS.ofString? endTs
    let step ← parseDur? step; let cap ← cap.toNat?
    let incl := incl == "1"
    let e0 : Ep := ⟨Dur.add start.dur span, start.ts⟩
    let endE ← e0.to endTs
    let dur ← Ep.diff endE start
    let s : Series := ⟨start, dur, step, 0, incl⟩
    let items := Series.run cap s
    let n := items.length
    let ordered := (items.zip items.tail).all (fun p => Dur.cmp p.1.dur p.2.dur == -1)
    let first := (items.take 3).map showEp
    let m := "ok " ++ toString n ++ " " ++ showEp endE ++ " " ++ (if first.isEmpty then "-" else ",".intercalate first) ++ " " ++
      (match items.getLast? with | some l => showEp l | none => "-") ++ " " ++ bool01 ordered ++ " 1 1 " ++
      toString ((items.foldl (fun (acc : Int) (x : Ep) => acc + sval x.dur) 0) % 18446744073709551616)
    -- spec: items are start + k·step for exactly the k with k·step < D (≤ D inclusive), D = end − start
    -- as the library's own (C04-specified) epoch difference; count = ceil(D/step) resp. floor(D/step)+1
    let vs := sval step
    let vD := sval dur
    let fitsAll := convFits start endTs && convFits e0 endTs && inRange (sval start.dur + sval span) &&
                   inRange (sval start.dur + vD + vs)
    let wantN : Int := if vD < 0 then 0 else if incl then vD / vs + 1 else (vD + vs - 1) / vs
    let sp := if !fitsAll || vs ≤ 0 then noPanic impl else match impl with
      | .ok [cnt, _endS, firstS, lastS, ord, same, after, sum] =>
        let wn := if wantN > cap then (cap : Int) else wantN
        let wfirst := (List.range (min 3 wn.toNat)).map (fun (k : Nat) => showEp ⟨Dur.fromTotal (sval start.dur + (k : Int) * vs), start.ts⟩)
        let wlast := if wn == 0 then "-" else showEp ⟨Dur.fromTotal (sval start.dur + (wn - 1) * vs), start.ts⟩
        verdict [("count", cnt == toString wn), ("first_items", firstS == (if wfirst.isEmpty then "-" else ",".intercalate wfirst)),
                 ("last_item", lastS == wlast), ("increasing", ord == "1"), ("scale_of_start", same == "1"),
                 ("none_after_end", after == "1"),
                 -- every item, not only the first three and the last: Σ_{k<n} (start + k·step) mod 2^64
                 ("checksum_of_all_items", sum == toString ((wn * sval start.dur + vs * (wn * (wn - 1) / 2)) % 18446744073709551616))]
      | .other w => "FAIL:" ++ w
      | _ => "FAIL:decode"
    pure { model := m, spec := sp, cls := tagD1 [step],
           branch := "series:" ++ (if incl then "incl" else "excl") ++ ":" ++ start.ts.name ++ "," ++ endTs.name ++ ":" ++
             (if !fitsAll then "saturating" else if vD % vs == 0 then "multiple" else "non_multiple") ++ (if n == 0 then ":empty" else if n ≥ cap then ":capped" else "") }
  | "tsiter", [_incl, _start, _span, _endTs, _step, k, method, j] => do
    -- C15 through the Iterator protocol (spec only): after k forward steps each method std derives from next() reads what
    -- the full forward listing (second observable; its content is the subject of the series op) says
    let k ← k.toNat?; let j ← j.toNat?
    let sp := match impl with
      | .ok [got, full] =>
        let fl := if full == "-" then [] else full.splitOn ","
        let rest := fl.drop k
        let rec every (l : List String) (n : Nat) (fuel : Nat) : List String := match fuel, l with
          | 0, _ => []
          | _, [] => []
          | f + 1, x :: xs => x :: every (xs.drop (n - 1)) n f
        let want : List String := match method with
          | "last" | "max" => rest.getLast?.toList
          | "min" => rest.head?.toList
          | "count" => [toString rest.length]
          | "nth" => (rest.drop j).head?.toList
          | "step_by" => every rest (j + 1) rest.length
          | "skip_take" => (rest.drop j).take 3
          | _ => rest
        verdict [("reads_the_listed_series", got == (if want.isEmpty then "-" else ",".intercalate want))]
      | .other w => "FAIL:" ++ w
      | _ => "FAIL:decode"
    pure { model := "-", spec := sp, branch := "tsiter:" ++ method }
  | "series_long", [incl, start, span, endTs, step] => do
    -- millions of items: count, last item, strict increase (the model iterates too, keeping no list)
    let start ← parseEp? start; let span ← parseDur? span; let endTs ← TS.ofString? endTs
    let step ← parseDur? step
    let incl := incl == "1"
    let e0 : Ep := ⟨Dur.add start.dur span, start.ts⟩
    let endE ← e0.to endTs
    let dur ← Ep.diff endE start
    let (n, last, ord) := Series.runLast 20000000 ⟨start, dur, step, 0, incl⟩ 0 none true
    let vs := sval step
    let vD := sval dur
    let fitsAll := convFits start endTs && convFits e0 endTs && inRange (sval start.dur + sval span) &&
                   inRange (sval start.dur + vD + vs)
    let wantN : Int := if vD < 0 then 0 else if incl then vD / vs + 1 else (vD + vs - 1) / vs
    let sp := if !fitsAll || vs ≤ 0 then noPanic impl else match impl with
      | .ok [cnt, lastS, o] =>
        let wlast := if wantN == 0 then "-" else showEp ⟨Dur.fromTotal (sval start.dur + (wantN - 1) * vs), start.ts⟩
        verdict [("count", cnt == toString wantN), ("last_item", lastS == wlast), ("increasing", o == "1")]
      | .other w => "FAIL:" ++ w
      | _ => "FAIL:decode"
    pure { model := "ok " ++ toString n ++ " " ++ (match last with | some l => showEp l | none => "-") ++ " " ++ bool01 ord,
           spec := sp,
           branch := "series_long:" ++ (if incl then "incl" else "excl") ++ ":" ++ start.ts.name ++ "," ++ endTs.name ++ ":" ++
             (if n ≥ 1000000 then "1e6+" else if n ≥ 100000 then "1e5+" else "short") }
  -- ---------------------------------------------------------------- C16
  | "weekday", [e] | "weekday_utc", [e] | "weekday_ts", [e, _] => do
    let e ← parseEp? e
    let ts ← (match op, args with
      | "weekday", _ => some TS.TAI | "weekday_utc", _ => some TS.UTC
      | _, [_, t] => TS.ofString? t | _, _ => none)
    let m := e.weekdayInCivil ts
    let fits := convFits e ts
    let i ← instOf e
    let ins := ts == TS.UTC && e.ts != TS.UTC && inInserted iersTbl i
    -- civil weekday of the date in `ts`: 1900-01-01 (count 0 of TAI, UTC and TT) was a Monday
    let sp := if !fits || ins then noPanic impl else match impl with
      | .ok [w] =>
        -- the value v of e in ts is characterised by `denotes`; search it from the model-free side:
        (match (if ts == TS.UTC then none else valueIn e ts) with
         -- civil weekday of the calendar date in `ts`: the count v in `ts` runs from that scale's reference date-time
         | some v => verdict [("civil_weekday", w == toString (specWeekday (v + refOffsetNs ts.name)))]
         | none =>
           -- UTC: v = i − L·1e9 for the L in force; accept the weekday of any v that denotes i
           let cands := (0 :: iersTbl.map (·.2)).map (fun l => i - l * 1000000000) |>.filter (fun v => denotes iersTbl "UTC" v i)
           verdict [("civil_weekday", cands.any (fun v => w == toString (specWeekday v)))])
      | .other w => "FAIL:" ++ w
      | _ => "FAIL:decode"
    pure { model := (match m with | some w => "ok " ++ toString w | none => "unmodelled"), spec := sp,
           branch := op ++ ":" ++ e.ts.name ++ ":" ++ (if !fits then "saturating" else
             (let v := sval e.dur; let r := v % nsPerDay
              if r < 1000 then "day_start" else if r ≥ nsPerDay - 1000 then "day_end" else "mid_day") ++ ":" ++ sideTag (sval e.dur)) }
  | "next", [e, w] | "prev", [e, w] => do
    let e ← parseEp? e; let w ← w.toInt?
    let m := if op == "next" then e.next w else e.previous w
    let fits := inRange (sval e.dur + 9 * nsPerDay) && inRange (sval e.dur - 9 * nsPerDay) &&
                inRange (sval e.dur + refOffsetNs e.ts.name + 9 * nsPerDay)
    -- spec (all nine scales, own calendar since fix 2e58fb7): 1 to 7 whole days of the epoch's own count away, same
    -- scale, and the calendar date of the result in that scale falls on the requested weekday; no leap-second guard
    let sp := if !fits then noPanic impl else match impl with
      | .ok [r] => (match parseEp? r with
          | some r =>
            let delta := if op == "next" then sval r.dur - sval e.dur else sval e.dur - sval r.dur
            verdict [("scale", r.ts == e.ts), ("canonical", scanon r.dur),
                     ("whole_days_1_to_7", decide (delta % nsPerDay = 0 ∧ 1 ≤ delta / nsPerDay ∧ delta / nsPerDay ≤ 7)),
                     ("lands_on_weekday", specWeekday (sval r.dur + refOffsetNs e.ts.name) == w)]
          | none => "FAIL:decode")
      | .other x => "FAIL:" ++ x
      | _ => "FAIL:decode"
    pure { model := showOEp m, spec := sp, branch := op ++ ":" ++ e.ts.name ++ ":" ++ toString w ++ (if fits then "" else ":out_of_range") }
  | "next_midnight", [e, w] | "next_noon", [e, w] | "prev_midnight", [e, w] | "prev_noon", [e, w] => do
    let e ← parseEp? e; let w ← w.toInt?
    let fwd := op == "next_midnight" || op == "next_noon"
    let h : Int := if op == "next_noon" || op == "prev_noon" then 12 else 0
    -- Model/WeekdayAt.lean: next(w) / previous(w), then with_hms_strict(h, 0, 0) (theorems C16.next_weekday_at_spec, previous_weekday_at_spec)
    let m : Res Ep := if fwd then e.nextWeekdayAt w h else e.previousWeekdayAt w h
    let fits := inRange (sval e.dur + 9 * nsPerDay) && inRange (sval e.dur - 9 * nsPerDay) &&
                inRange (sval e.dur + refOffsetNs e.ts.name + 9 * nsPerDay)
    -- spec, on the calendar of the epoch's OWN scale (civil count = elapsed time + the scale's reference date-time):
    -- the result falls on the requested weekday, at 00:00:00 / 12:00:00 of that day, strictly later / earlier than the
    -- epoch and less than eight days away; all nine scales (ET/TDB count from noon), also before the reference
    let sp := if !fits then noPanic impl else match impl with
      | .ok [r] => (match parseEp? r with
          | some r =>
            let cv := sval r.dur + refOffsetNs e.ts.name
            let delta := if fwd then sval r.dur - sval e.dur else sval e.dur - sval r.dur
            verdict [("scale", r.ts == e.ts), ("canonical", scanon r.dur),
                     ("lands_on_weekday", specWeekday cv == w),
                     ("civil_time_of_day", cv % nsPerDay == h * 3600000000000),
                     (if fwd then "strictly_later" else "strictly_earlier", decide (0 < delta)),
                     ("within_eight_days", decide (delta < 8 * nsPerDay))]
          | none => "FAIL:decode")
      | .other x => "FAIL:" ++ x
      | _ => "FAIL:decode"
    pure { model := (match m with | .ok x => "ok " ++ showEp x | .err => "err" | .panic => "panic"),
           spec := sp, branch := op ++ ":" ++ e.ts.name ++ (if sval e.dur < 0 then ":before_ref" else "") ++
             (if specWeekday (sval e.dur + refOffsetNs e.ts.name) != specWeekday ((match instOf e with | some i => i | none => 0)) && e.ts != TS.ET && e.ts != TS.TDB then ":tai_day_differs" else "") }
  | "wd_from_u8", [i] => do
    let i ← i.toInt?
    pure { model := "ok " ++ toString (wdFromU8 i), spec := judgeInt impl (i % 7), branch := "wd_from_u8" }
  | "wd_from_i8", [i] => do
    let i ← i.toInt?
    pure { model := "ok " ++ toString (wdFromI8 i), spec := judgeInt impl (i % 7), branch := "wd_from_i8:" ++ (if i < 0 then "neg" else "nonneg") }
  | "wd_add", [a, b] => do
    let a ← a.toInt?; let b ← b.toInt?
    pure { model := "ok " ++ toString (wdAdd a b), spec := judgeInt impl ((a + b) % 7), branch := "wd_add" }
  | "wd_addu", [a, u] => do
    let a ← a.toInt?; let u ← u.toInt?
    pure { model := showResInt (wdAddU8 a u), spec := judgeInt impl ((a + u) % 7), branch := "wd_addu:" ++ (if u ≥ 250 then "u>=250" else if u ≥ 128 then "u>=128" else "small") }
  | "wd_subu", [a, u] => do
    let a ← a.toInt?; let u ← u.toInt?
    pure { model := showResInt (wdSubU8 a u), spec := judgeInt impl ((a - u) % 7), branch := "wd_subu:" ++ (if u ≥ 128 then "u>=128" else "small") }
  | "wd_diff", [a, b] => do
    let a ← a.toInt?; let b ← b.toInt?
    pure { model := "ok " ++ showDur (wdDiff a b), spec := judgeDur impl (((b - a) % 7) * nsPerDay), branch := "wd_diff" }
  -- ---------------------------------------------------------------- C20
  | "from_tow", [w, ns, ts] => do
    let w ← w.toInt?; let ns ← ns.toInt?; let ts ← TS.ofString? ts
    let want := clampD (w * 7 * nsPerDay + ns)
    pure { model := "ok " ++ showEp ⟨fromTimeOfWeek w ns, ts⟩, spec := judgeEpValue impl ts want,
           branch := "from_tow:" ++ satTag (w * 7 * nsPerDay + ns) ++ (if ns ≥ 7 * nsPerDay then ":ns>=week" else "") }
  | "to_tow", [e] => do
    let e ← parseEp? e
    let (mw, mn) := toTimeOfWeek e.dur
    let v := sval e.dur
    let W := 7 * nsPerDay
    let sp := if v < 0 then noPanic impl else match impl with
      | .ok [w, n] => verdict [("week", w == toString (v / W)), ("ns_of_week", n == toString (v % W))]
      | .other x => "FAIL:" ++ x
      | _ => "FAIL:decode"
    pure { model := "ok " ++ toString mw ++ " " ++ toString mn, spec := sp,
           branch := "to_tow:" ++ (if v < 0 then "negative" else if v % W == 0 then "week_start" else if v % W == W - 1 then "week_end" else "mid") }
  | "towrt", [e] => do
    let e ← parseEp? e
    let (mw, mn) := toTimeOfWeek e.dur
    pure { model := "ok " ++ showEp ⟨fromTimeOfWeek mw mn, e.ts⟩, spec := if sval e.dur < 0 then noPanic impl else judgeEpValue impl e.ts (sval e.dur),
           branch := "towrt" }
  | "ns_rt", [g, v] => do
    let v ← v.toInt?
    let ts ← (match g with | "gpst" => some TS.GPST | "qzsst" => some TS.QZSST | "gst" => some TS.GST | "bdt" => some TS.BDT | _ => none)
    let e : Ep := ⟨Dur.fromParts 0 v, ts⟩
    let m := toNanosecondsIn e ts
    -- "round-trip exactly and return an error, not a wrong number, when the count … does not fit in one century"
    let sp := match impl with
      | .ok [r] => verdict [("round_trip", decide (v < NPCs) && r == toString v)]
      | .other "err" => verdict [("error_only_beyond_one_century", decide (v ≥ NPCs))]
      | .other x => "FAIL:" ++ x
      | _ => "FAIL:decode"
    pure { model := (match m with | some r => showResInt r | none => "unmodelled"), spec := sp,
           branch := "ns_rt:" ++ g ++ ":" ++ (if v < NPCs then "fits" else "beyond") }
  | "fmt_octal", [e] => do
    -- `{:o}` prints the GPST nanosecond counter: the number when the GPST count of the instant is in [0, 1 century), and
    -- never a number otherwise (C20: "an error, never a wrong number"; the unchanged code panics there — accepted, the
    -- formatting trait is not among the observables the property names)
    let e ← parseEp? e
    let fits := convFits e TS.GPST
    let sp := if !fits then "na" else match valueIn e TS.GPST, impl with
      | some v, .ok [hex] => verdict [("prints_the_counter", decide (0 ≤ v ∧ v < NPCs) && hex == String.ofList ((toString v).toList.flatMap (fun c => [Char.ofNat (48 + c.toNat / 16), (let d := c.toNat % 16; if d < 10 then Char.ofNat (48 + d) else Char.ofNat (87 + d))])))]
      | some v, .other _ => verdict [("fails_only_if_negative_or_beyond", decide (v < 0 ∨ v ≥ NPCs))]
      | _, _ => "FAIL:decode"
    pure { model := "-", spec := sp, branch := "fmt_octal:" ++ e.ts.name }
  | "to_ns", [g, e] => do
    let e ← parseEp? e
    let ts ← (match g with | "gpst" => some TS.GPST | "qzsst" => some TS.QZSST | "gst" => some TS.GST | "bdt" => some TS.BDT | _ => none)
    let m := toNanosecondsIn e ts
    let fits := convFits e ts
    let sp := if !fits then noPanic impl else match valueIn e ts, impl with
      | some v, .ok [r] => verdict [("count", decide (0 ≤ v ∧ v < NPCs) && r == toString v)]
      | some v, .other "err" => verdict [("error_only_if_negative_or_beyond", decide (v < 0 ∨ v ≥ NPCs))]
      | _, .other x => "FAIL:" ++ x
      | _, _ => "FAIL:decode"
    pure { model := (match m with | some r => showResInt r | none => "unmodelled"), spec := sp,
           branch := "to_ns:" ++ g ++ ":" ++ e.ts.name ++ ":" ++ (match valueIn e ts with | some v => (if v < 0 then "negative" else if v ≥ NPCs then "beyond" else "fits") | none => "?") }
  | _, _ => none

end Hifi.Drive.Epoch
