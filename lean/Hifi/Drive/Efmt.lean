import Hifi.Model.Proto
import Hifi.Model.Efmt
import Hifi.Model.Dynamical
import Hifi.Spec.Efmt
import Hifi.Drive.Calendar
/-
  Driver handlers for the formatting ops (C19) and the format-parser totality stream (C13F):
  model result, spec verdict on the implementation's result (written with Spec/Efmt only), defect
  tags, branch tag.
-/
namespace Hifi.Drive.Efmt
open Hifi Hifi.Proto Hifi.Efmt
open Hifi.Drive.Calendar (parseEpoch? showEpoch hexOfCodes bytesOfHex showResCodes)

/-! ### protocol helpers -/

/-- UTF-8 bytes → code points (the protocol only carries valid UTF-8) -/
def utf8Decode : List Nat → List Nat → Option (List Nat)
  | [], acc => some acc.reverse
  | b :: rest, acc =>
    if b < 128 then utf8Decode rest (b :: acc)
    else if b < 224 then
      match rest with
      | b1 :: r => utf8Decode r (((b % 32) * 64 + b1 % 64) :: acc)
      | _ => none
    else if b < 240 then
      match rest with
      | b1 :: b2 :: r => utf8Decode r (((b % 16) * 4096 + (b1 % 64) * 64 + b2 % 64) :: acc)
      | _ => none
    else
      match rest with
      | b1 :: b2 :: b3 :: r => utf8Decode r (((b % 8) * 262144 + (b1 % 64) * 4096 + (b2 % 64) * 64 + b3 % 64) :: acc)
      | _ => none
termination_by l => l.length

def codesOfHex (s : String) : Option (List Nat) :=
  match bytesOfHex s with
  | some bs => utf8Decode bs []
  | none => none

def showResEp : Res Ep → String
  | .ok e => "ok " ++ showEpoch e.dur e.ts
  | .err => "err"
  | .panic => "panic"

def parseEp? (s : String) : Option Ep := (parseEpoch? s).map (fun p => ⟨p.1, p.2⟩)

/-! ### the oracles, evaluated with hardware doubles where the code uses them -/

/-- `Epoch::weekday()`: conversion to TAI (ET/TDB through the float algorithm), integer day count -/
def hwWeekday (e : Ep) : Int :=
  match Dyn.toTimeScaleF e .TAI with
  | some t => weekdayOfDur t.dur
  | none => 0

def isDigit (c : Nat) : Bool := decide (48 ≤ c ∧ c ≤ 57)
def lower (c : Nat) : Nat := if 65 ≤ c ∧ c ≤ 90 then c + 32 else c

/-- recogniser of `lexical_core::parse::<f64>` (standard format): optional sign; `nan`, `inf`,
    `infinity` in any case; or digits with an optional `.` and at least one digit, then an optional
    exponent `e`/`E` with optional sign and at least one digit; nothing else -/
def lexF64ok (s : List Nat) : Bool :=
  let body := match s with
    | 43 :: r => r
    | 45 :: r => r
    | r => r
  let low := body.map lower
  if low == Cal.strCodes "nan" || low == Cal.strCodes "inf" || low == Cal.strCodes "infinity" then true
  else
    let ip := body.takeWhile isDigit
    let r1 := body.dropWhile isDigit
    let (fp, r2) := match r1 with
      | 46 :: r => (r.takeWhile isDigit, r.dropWhile isDigit)
      | r => ([], r)
    if ip.isEmpty && fp.isEmpty then false
    else match r2 with
      | [] => true
      | c :: r =>
        if c = 101 ∨ c = 69 then
          let r' := match r with
            | 43 :: x => x
            | 45 :: x => x
            | x => x
          !r'.isEmpty && r'.all isDigit
        else false

/-- the value of `%J` is not modelled: results that depend on it are answered `unmodelled` -/
def oracles : Oracles :=
  { weekdayTai := hwWeekday, lexDoy := fun s => if lexF64ok s then some (Dur.ZERO, true, true) else none }

/-! ### defect classes -/

def hasTok (f : Format) (t : Token) : Bool := f.items.any (fun it => it.token == t)

/-! D25: formats of the parse-back clause that `Format::parse` cannot read back.  `backOk` is the
   class that does parse back (a predicate on the format and on "the offset is zero"); `¬ backOk` is
   the recorded class. -/

def isNameTok (t : Token) : Bool := t == .Weekday || t == .WeekdayShort || t == .MonthName || t == .MonthNameShort
def isMonthTok (t : Token) : Bool := t == .Month || t == .MonthName || t == .MonthNameShort

/-- the letters of the texts a name token can print -/
def nameLetters (t : Token) : List Nat :=
  (match t with
   | .Weekday => Gen.EFMT_WEEKDAY_LONG
   | .WeekdayShort => Gen.EFMT_WEEKDAY_SHORT
   | .MonthName => Gen.EFMT_MONTH_LONG
   | .MonthNameShort => Gen.EFMT_MONTH_SHORT
   | _ => []).flatMap Cal.strCodes

/-- the second separator `b` of an item is harmless given the item that follows:
    before a numeric token it must not be numeric (it would be read as a digit); before a name token
    it is swallowed into the name, which only survives `trim` — unless it equals that token's own
    first separator (then it is skipped); before a final `%T` anything goes -/
def sep2Ok (b : Nat) (next : Item) : Bool :=
  if next.token == .Timescale then true
  else if next.token.isNumeric then !isNum b
  else isWs b || next.sep1 == some b

/-- The class of plain full-date formats that parse back (derivation in INTEGRATION.md), item by item.
    `loose` = the NEXT item is the last one and is a name token or `%T`: such a final token is never
    stored by `Format::parse` (the loop breaks before), so whatever precedes it only has to end the
    current token.  `%z` counts as a numeric token (since fix 77ab25e its hours and minutes are read).
    * a numeric token (`%Y %m %d %H %M %S %f %j %z`) that is not last has a first separator, which is not
      numeric (`char::is_numeric`) — or no separator at all when `loose` or when the next token is `%z`
      (its sign ends the digits);
    * a name token (`%A %a %B %b`) that is not last has a first separator, which is not a letter of a
      text the token can print;
    * a second separator satisfies `sep2Ok` w.r.t. the next item (anything when `loose`), and is not `-`
      before `%z` (it would be read as the sign) unless the offset is zero;
    * `%T` only in the last place. -/
def backOkGo (offZero : Bool) : List Item → Bool
  | [] => true
  | [_] => true
  | it :: next :: rest =>
    (if it.token == .Timescale then false
     else if it.token.isNumeric then
       (match it.sep1 with
        | some a => !isNum a
        | none => (rest.isEmpty && !next.token.isNumeric) || next.token == .OffsetHours)
     else (match it.sep1 with | some a => !(nameLetters it.token).contains a | none => false))
    && (match it.sep2 with
        | some b => (rest.isEmpty && !next.token.isNumeric) ||
                    (sep2Ok b next && (next.token != .OffsetHours || b != 45 || offZero))
        | none => true)
    && backOkGo offZero (next :: rest)

/-- … and globally: a trailing month NAME is never stored, so the month must also come from an
    earlier token (or the date from `%j`) -/
def backOk (f : Format) (offZero : Bool) : Bool :=
  backOkGo offZero f.items &&
  (match f.items.getLast? with
   | some l =>
     (if l.token == .MonthName || l.token == .MonthNameShort then
        hasTok f .DayOfYearInteger || f.items.dropLast.any (fun it => isMonthTok it.token)
      else true)
   | none => true)

/-! ### spec side -/

open Hifi.Spec in
def sval (d : Dur) : Int := valP d.c d.ns

def specItems (fmt : List Nat) : Option (List Spec.Efmt.SItem) := Spec.Efmt.readFormat fmt

/-- verdict on a formatter output: `items` the format as the spec reads it, `e` the epoch whose
    fields are printed (already shifted by the offset), `off` the offset in ns -/
def judgeText (items : List Spec.Efmt.SItem) (e : Ep) (off : Int) (impl : Impl) : String :=
  match Spec.Efmt.fieldsOf e.ts.name (sval e.dur) with
  | none => "FAIL:spec_date"
  | some F =>
    match Spec.Efmt.render items F off with
    | none => "na"
    | some want =>
      match impl with
      | .ok [hex] =>
        (match codesOfHex hex with
         | some got =>
           if got == want then "ok"
           else if got.length ≠ want.length then "FAIL:text_length" else "FAIL:text"
         | none => "FAIL:decode")
      | .ok _ => "FAIL:decode"
      | .other w => "FAIL:" ++ w

def noPanic (impl : Impl) : String :=
  match impl with
  | .other "panic" => "FAIL:panic"
  | .other "hang" => "FAIL:hang"
  | .other "abort" => "FAIL:abort"
  | _ => "ok"

def tagsOf (l : List (String × Bool)) : String :=
  match (l.filter (·.2)).map (·.1) with
  | [] => "-"
  | ts => ",".intercalate ts

def shapeTag (f : Format) : String :=
  (if f.needGregorian then "greg" else "plain") ++ ":" ++ toString f.items.length ++ "tok"

def scaleTag (e : Ep) : String := e.ts.name

def resTag {α} : Res α → String
  | .ok _ => "ok" | .err => "err" | .panic => "panic"

/-- constants whose format string is written down in the rustdoc / asserted by the suite -/
def hasDocString (n : String) : Bool :=
  (Gen.EFMT_DOC.any (fun p => p.1 == n)) || (Gen.EFMT_TESTED.any (fun p => p.1 == n))

/-- shared body of `format`, `format_const`, `format_ts` -/
def formatOp (op : String) (f : Format) (items : Option (List Spec.Efmt.SItem)) (e : Ep) (off : Option Dur)
    (impl : Impl) : Ans :=
  let shown : Ep := match off with | some o => e.add o | none => e
  let m := formatterOutput oracles f e off
  let sp := match items with
    | some its => if op == "format_const" || Spec.Efmt.plainFormat its then judgeText its shown (match off with | some o => sval o | none => 0) impl
                  else noPanic impl
    | none => noPanic impl
  { model := if hasTok f .DayOfYear then "unmodelled" else showResCodes m, spec := sp,
    branch := op ++ ":" ++ shapeTag f ++ ":" ++ scaleTag e ++ (if off.isSome then ":tz" else "") ++
              ((hasTok f .Weekday || hasTok f .WeekdayShort) && decide (hwWeekday shown ≠ weekdayOfDate shown) |> fun b => if b then ":wd_edge" else "") }

def backOp (op : String) (f : Format) (items : Option (List Spec.Efmt.SItem)) (e : Ep) (off : Option Dur)
    (impl : Impl) : Ans :=
  let text := formatterOutput oracles f e off
  let m : Res Ep := match text with
    | .ok t => formatParse oracles f t
    | .err => .err
    | .panic => .panic
  -- the quantifier's offsets are whole minutes in -23:59..+23:59 (a shrunk replay once left that set)
  let offInDomain : Bool := match off with
    | some o => decide (sval o % 60000000000 = 0 ∧ -86340000000000 ≤ sval o ∧ sval o ≤ 86340000000000)
    | none => true
  let inDomain := decide (e.ts = TS.UTC) && offInDomain && (match items with | some its => Spec.Efmt.backDomain its | none => false)
  let sp :=
    if inDomain then
      (match impl with
       | .ok [r] => if r == showEpoch e.dur e.ts then "ok" else "FAIL:other_epoch"
       | .ok _ => "FAIL:decode"
       | .other w => "FAIL:" ++ w)
    else noPanic impl
  let offZero : Bool := match off with | some o => sval o == 0 | none => true
  { model := if hasTok f .DayOfYear then "unmodelled" else showResEp m, spec := sp,
    cls := tagsOf [("D25", !backOk f offZero)],
    branch := op ++ ":" ++ (if inDomain then "domain" else "open") ++ ":" ++ (if backOk f offZero then "class_ok" else "class_D25")
              ++ ":" ++ resTag m ++ (if off.isSome then ":tz" else "") }

/-- the totality stream: outcome (and value, when modelled) of a parse -/
def parseOp (op : String) (fr : Res Format) (s : List Nat) (impl : Impl) : Ans :=
  match fr with
  | .ok f =>
    let m := formatParse oracles f s
    -- `%J`: the parsed value is not modelled, so neither is an `ok` result nor the weekday comparison
    let valueOpen : Bool := hasTok f .DayOfYear &&
      (match m with | .ok _ => true | .err => hasTok f .Weekday || hasTok f .WeekdayShort | .panic => false)
    { model := if valueOpen then "unmodelled" else showResEp m, spec := noPanic impl,
      branch := op ++ ":" ++ resTag m ++
                (if s.any (· ≥ 128) then ":nonascii" else "") ++ (if f.items.length ≥ 16 then ":16tok" else "") }
  | .err => { model := "err", spec := noPanic impl, branch := op ++ ":bad_format" }
  | .panic => { model := "panic", spec := noPanic impl, branch := op ++ ":format_panic" }

def handle (op : String) (args : List String) (impl : Impl) : Option Ans :=
  match op, args with
  | "fmt_parse", [h] | "p_format", [h] => do
    let s ← codesOfHex h
    let m := formatFromStr s
    let sp :=
      if op == "p_format" then noPanic impl
      else match specItems s with
        | some its =>
          (match impl with
           | .ok [x] => if codesOfHex x == some (Spec.Efmt.debugText its) then "ok" else "FAIL:items"
           | .ok _ => "FAIL:decode"
           | .other w => "FAIL:" ++ w)
        | none => noPanic impl
    pure { model := (match m with | .ok f => "ok " ++ hexOfCodes f.debug | .err => "err" | .panic => "panic"),
           spec := sp,
           branch := op ++ ":" ++ resTag m ++ (if (specItems s).isSome then ":domain" else ":open") }
  | "const_debug", [n] => do
    let f ← constByName? n
    let sp := if hasDocString n then
        (match Spec.Efmt.documentedItems n, impl with
         | some its, .ok [x] => if codesOfHex x == some (Spec.Efmt.debugText its) then "ok" else "FAIL:const_differs_from_doc"
         | _, _ => "FAIL:decode")
      else noPanic impl
    pure { model := "ok " ++ hexOfCodes f.debug, spec := sp, branch := "const_debug:" ++ n }
  | "format", h :: e :: rest => do
    let s ← codesOfHex h
    let e ← parseEp? e
    let off ← (match rest with | [] => some none | [d] => (parseDur? d).map some | _ => none)
    match formatFromStr s with
    | .ok f => pure (formatOp op f (specItems s) e off impl)
    | .err => pure { model := "err", spec := (if (specItems s).isSome then "FAIL:format_rejected" else noPanic impl), branch := "format:bad_format" }
    | .panic => pure { model := "panic", spec := "FAIL:panic", branch := "format:format_panic" }
  | "format_ts", [h, e, ts] => do
    let s ← codesOfHex h
    let e ← parseEp? e
    let ts ← TS.ofString? ts
    let e2 ← Dyn.toTimeScaleF e ts
    match formatFromStr s with
    | .ok f => pure (formatOp op f (specItems s) e2 none impl)
    | _ => none
  | "format_const", n :: e :: rest => do
    let f ← constByName? n
    let e ← parseEp? e
    let off ← (match rest with | [] => some none | [d] => (parseDur? d).map some | _ => none)
    pure (formatOp op f (Spec.Efmt.documentedItems n) e off impl)
  | "fmt_back", h :: e :: rest => do
    let s ← codesOfHex h
    let e ← parseEp? e
    let off ← (match rest with | [] => some none | [d] => (parseDur? d).map some | _ => none)
    match formatFromStr s with
    | .ok f => pure (backOp op f (specItems s) e off impl)
    | .err => pure { model := "err", spec := (if (specItems s).isSome then "FAIL:format_rejected" else noPanic impl), branch := "fmt_back:bad_format" }
    | .panic => pure { model := "panic", spec := "FAIL:panic", branch := "fmt_back:format_panic" }
  | "fmt_back_const", n :: e :: rest => do
    let f ← constByName? n
    let e ← parseEp? e
    let off ← (match rest with | [] => some none | [d] => (parseDur? d).map some | _ => none)
    pure (backOp op f (Spec.Efmt.documentedItems n) e off impl)
  | "iso_display", [e] => do
    let e ← parseEp? e
    let iso ← constByName? "ISO8601"
    let a := formatterOutput oracles iso e none
    let b := Cal.display e.dur e.ts
    let sp := match impl with
      | .ok [x, y] => if x == y then "ok" else "FAIL:formatter_differs_from_display"
      | .ok _ => "FAIL:decode"
      | .other w => "FAIL:" ++ w
    let zero : Bool := match Cal.computeGregorian e.dur e.ts with | .ok (_, _, _, _, _, _, ns) => ns == 0 | _ => false
    pure { model := (match a, b with
             | .ok x, .ok y => "ok " ++ hexOfCodes x ++ " " ++ hexOfCodes y
             | .panic, _ => "panic" | _, .panic => "panic" | _, _ => "err"),
           spec := sp, cls := if zero then "D22i" else "-",
           branch := "iso_display:" ++ scaleTag e ++ (if zero then ":whole_second" else ":subsecond") }
  | "to_isoformat", [e] => do
    let e ← parseEp? e
    let std ← constByName? "ISO8601_STD"
    let sp := match Spec.Efmt.fieldsOf e.ts.name (sval e.dur) with
      | none => "FAIL:spec_date"
      | some F =>
        match Spec.Efmt.isoformatText F, impl with
        | none, _ => noPanic impl
        | some want, .ok [x] => if codesOfHex x == some want then "ok" else "FAIL:text"
        | some _, .ok _ => "FAIL:decode"
        | some _, .other w => "FAIL:" ++ w
    pure { model := showResCodes (toIsoformat oracles std e), spec := sp, branch := "to_isoformat:" ++ scaleTag e }
  | "p_fmtparse", [h, i] => do
    let s ← codesOfHex h
    let inp ← codesOfHex i
    pure (parseOp op (formatFromStr s) inp impl)
  | "p_fmtstr", [i, h] => do
    let s ← codesOfHex h
    let inp ← codesOfHex i
    pure (parseOp op (formatFromStr s) inp impl)
  | "p_constparse", [n, i] => do
    let f ← constByName? n
    let inp ← codesOfHex i
    pure (parseOp op (.ok f) inp impl)
  | _, _ => none

end Hifi.Drive.Efmt
