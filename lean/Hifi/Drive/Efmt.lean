import Hifi.Model.Proto
import Hifi.Model.Efmt
import Hifi.Model.Dynamical
import Hifi.Spec.Efmt
import Hifi.Drive.Calendar
/-
  Driver handlers for the formatting ops (C19) and the format-parser totality stream (C13F):
  model result, spec verdict on the implementation's result (written with Spec/Efmt only), defect
  tags, branch tag.
-/
namespace Hifi.Drive.Efmt
open Hifi Hifi.Proto Hifi.Efmt
open Hifi.Drive.Calendar (parseEpoch? showEpoch hexOfCodes bytesOfHex showResCodes)

/-! ### protocol helpers -/

/-- UTF-8 bytes → code points (the protocol only carries valid UTF-8) -/
def utf8Decode : List Nat → List Nat → Option (List Nat)
  | [], acc => some acc.reverse
  | b :: rest, acc =>
    if b < 128 then utf8Decode rest (b :: acc)
    else if b < 224 then
      match rest with
      | b1 :: r => utf8Decode r (((b % 32) * 64 + b1 % 64) :: acc)
      | _ => none
    else if b < 240 then
      match rest with
      | b1 :: b2 :: r => utf8Decode r (((b % 16) * 4096 + (b1 % 64) * 64 + b2 % 64) :: acc)
      | _ => none
    else
      match rest with
      | b1 :: b2 :: b3 :: r => utf8Decode r (((b % 8) * 262144 + (b1 % 64) * 4096 + (b2 % 64) * 64 + b3 % 64) :: acc)
      | _ => none
termination_by l => l.length

def codesOfHex (s : String) : Option (List Nat) :=
  match bytesOfHex s with
  | some bs => utf8Decode bs []
  | none => none

def showResEp : Res Ep → String
  | .ok e => "ok " ++ showEpoch e.dur e.ts
  | .err => "err"
  | .panic => "panic"

def parseEp? (s : String) : Option Ep := (parseEpoch? s).map (fun p => ⟨p.1, p.2⟩)

/-! ### the oracles, evaluated with hardware doubles where the code uses them -/

/-- `Epoch::weekday()`: conversion to TAI (ET/TDB through the float algorithm), integer day count -/
def hwWeekday (e : Ep) : Int :=
  match Dyn.toTimeScaleF e .TAI with
  | some t => weekdayOfDur t.dur
  | none => 0

def isDigit (c : Nat) : Bool := decide (48 ≤ c ∧ c ≤ 57)
def lower (c : Nat) : Nat := if 65 ≤ c ∧ c ≤ 90 then c + 32 else c

/-- recogniser of `lexical_core::parse::<f64>` (standard format): optional sign; `nan`, `inf`,
    `infinity` in any case; or digits with an optional `.` and at least one digit, then an optional
    exponent `e`/`E` with optional sign and at least one digit; nothing else -/
def lexF64ok (s : List Nat) : Bool :=
  let body := match s with
    | 43 :: r => r
    | 45 :: r => r
    | r => r
  let low := body.map lower
  if low == Cal.strCodes "nan" || low == Cal.strCodes "inf" || low == Cal.strCodes "infinity" then true
  else
    let ip := body.takeWhile isDigit
    let r1 := body.dropWhile isDigit
    let (fp, r2) := match r1 with
      | 46 :: r => (r.takeWhile isDigit, r.dropWhile isDigit)
      | r => ([], r)
    if ip.isEmpty && fp.isEmpty then false
    else match r2 with
      | [] => true
      | c :: r =>
        if c = 101 ∨ c = 69 then
          let r' := match r with
            | 43 :: x => x
            | 45 :: x => x
            | x => x
          !r'.isEmpty && r'.all isDigit
        else false

/-- the value PARSED for `%J` is not modelled: parse results that depend on it are answered `unmodelled`; the text
    PRINTED for `%J` is chosen by `formatOp` among the numerals of the implementation's text that the spec accepts -/
def oracles : Oracles :=
  { lexDoy := fun s => if lexF64ok s then some (1, Dur.ZERO) else none, doyText := fun _ => [] }

/-! ### defect classes -/

def hasTok (f : Format) (t : Token) : Bool := f.items.any (fun it => it.token == t)

/-! D25: formats of the parse-back clause that `Format::parse` cannot read back.  `backOk` is the
   class that does parse back (a predicate on the format and on "the offset is zero"); `¬ backOk` is
   the recorded class. -/

def isNameTok (t : Token) : Bool := t == .Weekday || t == .WeekdayShort || t == .MonthName || t == .MonthNameShort

/-- the letters of the texts a name token can print -/
def nameLetters (t : Token) : List Nat :=
  (match t with
   | .Weekday => Gen.EFMT_WEEKDAY_LONG
   | .WeekdayShort => Gen.EFMT_WEEKDAY_SHORT
   | .MonthName => Gen.EFMT_MONTH_LONG
   | .MonthNameShort => Gen.EFMT_MONTH_SHORT
   | _ => []).flatMap Cal.strCodes

/-- the second separator `b` of an item is harmless given the item that follows:
    before a numeric token it must not be numeric (it would be read as a digit); before a name token
    it is swallowed into the name, which only survives `trim` — unless it equals that token's own
    first separator (then it is skipped); before the final `%T` it is stripped from the front of the scale
    text, so it must not be the first letter of `UTC` -/
def sep2Ok (b : Nat) (next : Item) : Bool :=
  if next.token == .Timescale then b != 85
  else if next.token.isNumeric then !isNum b
  else isWs b || next.sep1 == some b

/-- The class of plain full-date formats that parse back for UTC epochs (code at 09b7567: a final name or
    `%T` is read, D39; the sign of `%z` needs a digit after it, D40), item by item:
    * a numeric token (`%Y %m %d %H %M %S %f %j %z`) that is not last has a first separator, which is not
      numeric (`char::is_numeric`) — or no separator at all when the next token is a name, `%T` or `%z`
      (the letter / sign ends the digits and is kept for the next field);
    * a name token (`%A %a %B %b`) that is not last has a first separator, which is not a letter of a
      text the token can print;
    * a second separator satisfies `sep2Ok` w.r.t. the next item;
    * `%T` only in the last place. -/
def backOkGo : List Item → Bool
  | [] => true
  | [_] => true
  | it :: next :: rest =>
    (if it.token == .Timescale then false
     else if it.token.isNumeric then
       (match it.sep1 with
        | some a => !isNum a
        | none => !next.token.isNumeric || next.token == .OffsetHours)
     else (match it.sep1 with | some a => !(nameLetters it.token).contains a | none => false))
    && (match it.sep2 with
        | some b => sep2Ok b next
        | none => true)
    && backOkGo (next :: rest)

def backOk (f : Format) (_offZero : Bool) : Bool := backOkGo f.items

/-! ### spec side -/

open Hifi.Spec in
def sval (d : Dur) : Int := valP d.c d.ns

def specItems (fmt : List Nat) : Option (List Spec.Efmt.SItem) := Spec.Efmt.readFormat fmt

/-- the format as the spec reads it when it may also carry `%w`, `%y`, `%J` (the tokens the statement does not name) -/
def specItemsX (fmt : List Nat) : Option (List Spec.Efmt.SItem) := Spec.Efmt.readFormatX fmt

/-- verdict on a formatter output: `items` the format as the spec reads it, `e` the epoch whose
    fields are printed (already shifted by the offset), `off` the offset in ns -/
def judgeText (items : List Spec.Efmt.SItem) (e : Ep) (off : Int) (impl : Impl) : String :=
  match Spec.Efmt.fieldsOf e.ts.name (sval e.dur) with
  | none => "FAIL:spec_date"
  | some F =>
    match Spec.Efmt.render items F off with
    | none => "na"
    | some want =>
      match impl with
      | .ok [hex] =>
        (match codesOfHex hex with
         | some got =>
           if got == want then "ok"
           else if got.length ≠ want.length then "FAIL:text_length" else "FAIL:text"
         | none => "FAIL:decode")
      | .ok _ => "FAIL:decode"
      | .other w => "FAIL:" ++ w

/-- the same verdict for a format that carries `%w`, `%y` or `%J`: the text must have the demanded SHAPE
    (`Spec.Efmt.pieces`: `%w` exact, `%J` a decimal within 2e-12 of the exact day of year, `%y` any integer) -/
def judgeTextX (items : List Spec.Efmt.SItem) (e : Ep) (off : Int) (impl : Impl) : String :=
  match Spec.Efmt.fieldsOf e.ts.name (sval e.dur) with
  | none => "FAIL:spec_date"
  | some F =>
    match Spec.Efmt.pieces items F off with
    | none => "na"
    | some ps =>
      match impl with
      | .ok [hex] =>
        (match codesOfHex hex with
         | some got => if Spec.Efmt.matchGo ps got then "ok" else "FAIL:text"
         | none => "FAIL:decode")
      | .ok _ => "FAIL:decode"
      | .other w => "FAIL:" ++ w

def noPanic (impl : Impl) : String :=
  match impl with
  | .other "panic" => "FAIL:panic"
  | .other "hang" => "FAIL:hang"
  | .other "abort" => "FAIL:abort"
  -- `p_fmtparse`: `Format::parse` and `Epoch::from_str_with_format` answered differently (harness word)
  | .other w => if w.startsWith "entry-points-differ" then "FAIL:entry_points_differ" else "ok"
  | _ => "ok"

def tagsOf (l : List (String × Bool)) : String :=
  match (l.filter (·.2)).map (·.1) with
  | [] => "-"
  | ts => ",".intercalate ts

def shapeTag (f : Format) : String :=
  (if f.needGregorian then "greg" else "plain") ++ ":" ++ toString f.items.length ++ "tok"

def scaleTag (e : Ep) : String := e.ts.name

def resTag {α} : Res α → String
  | .ok _ => "ok" | .err => "err" | .panic => "panic"

/-- constants whose format string is written down in the rustdoc / asserted by the suite -/
def hasDocString (n : String) : Bool :=
  (Gen.EFMT_DOC.any (fun p => p.1 == n)) || (Gen.EFMT_TESTED.any (fun p => p.1 == n))

/-- is `pat` a prefix of `t`? -/
def isPrefix : List Nat → List Nat → Bool
  | [], _ => true
  | _ :: _, [] => false
  | a :: as, b :: bs => a == b && isPrefix as bs

/-- the numerals inside the text `t` that the spec accepts for `%J` (a decimal within 2e-12 of `num/den`); only
    places where the integer part of the exact value (or its neighbours, for a numeral that rounds up) starts -/
def doyCandidates (num den : Int) (t : List Nat) : List (List Nat) :=
  let q := (num / den).toNat
  let ips : List (List Nat) := [q, q + 1, q - 1].map (fun n => (toString n).toList.map Char.toNat)
  ((List.range t.length).flatMap (fun i =>
    let r := t.drop i
    if ips.any (fun ip => isPrefix ip r) then
      (List.range r.length).filterMap (fun k =>
        let c := r.take (k + 1)
        match Spec.Efmt.decimalOf c with
        | some (n, p) => if Spec.Efmt.closeTo n p num den then some c else none
        | none => none)
    else [])).eraseDups

/-- the model's text for a format that prints `%J`: the f64 numeral is an ORACLE of the model (`Oracles.doyText`), so the
    tie is "SOME numeral the spec accepts makes the model's text equal the implementation's": every other token and
    every separator is tied exactly; when no numeral does, the model's text with an empty `%J` is shown (it differs) -/
def modelTextJ (f : Format) (e shown : Ep) (off : Option Dur) (impl : Impl) : Res (List Nat) :=
  let dflt := formatterOutput oracles f e off
  match impl, Spec.Efmt.fieldsOf shown.ts.name (Spec.valP shown.dur.c shown.dur.ns) with
  | .ok [hex], some F =>
    (match codesOfHex hex, Spec.Efmt.tokenPiece 74 F 0 with
     | some got, some (.real num den) =>
       (match (doyCandidates num den got).find? (fun c =>
          match formatterOutput { oracles with doyText := fun _ => c } f e off with
          | .ok t => t == got
          | _ => false) with
        | some c => formatterOutput { oracles with doyText := fun _ => c } f e off
        | none => dflt)
     | _, _ => dflt)
  | _, _ => dflt

/-- shared body of `format`, `format_const`, `format_ts` -/
def formatOp (op : String) (f : Format) (items : Option (List Spec.Efmt.SItem)) (e : Ep) (off : Option Dur)
    (impl : Impl) (itemsX : Option (List Spec.Efmt.SItem) := none) : Ans :=
  let shown : Ep := match off with | some o => e.add o | none => e
  let m := if hasTok f .DayOfYear then modelTextJ f e shown off impl else formatterOutput oracles f e off
  let offNs : Int := match off with | some o => sval o | none => 0
  let sp := match items with
    | some its => if op == "format_const" || Spec.Efmt.plainFormat its then judgeText its shown offNs impl
                  else noPanic impl
    | none =>
      -- a format with `%w`, `%y` or `%J`: judged by shape
      match itemsX with
      | some its => if Spec.Efmt.plainFormat its then judgeTextX its shown offNs impl else noPanic impl
      | none => noPanic impl
  { model := showResCodes m, spec := sp,
    branch := op ++ ":" ++ shapeTag f ++ ":" ++ scaleTag e ++ (if off.isSome then ":tz" else "") ++
              (if items.isNone && itemsX.isSome then ":unnamed" else "") ++
              ((hasTok f .Weekday || hasTok f .WeekdayShort || hasTok f .WeekdayDecimal) && decide (hwWeekday shown ≠ weekdayOfDate shown) |> fun b => if b then ":wd_edge" else "") }

def backOp (op : String) (f : Format) (items : Option (List Spec.Efmt.SItem)) (e : Ep) (off : Option Dur)
    (impl : Impl) : Ans :=
  let text := formatterOutput oracles f e off
  let m : Res Ep := match text with
    | .ok t => formatParse oracles f t
    | .err => .err
    | .panic => .panic
  -- the quantifier's offsets are whole minutes in -23:59..+23:59 (a shrunk replay once left that set)
  let offInDomain : Bool := match off with
    | some o => decide (sval o % 60000000000 = 0 ∧ -86340000000000 ≤ sval o ∧ sval o ≤ 86340000000000)
    | none => true
  -- the text can carry a non-zero offset only through `%z`: without it the printed local time does not determine
  -- the epoch and the clause cannot speak (a constant such as ISO8601 formatted with `with_timezone`)
  let offCarried : Bool := (match off with | some o => sval o == 0 | none => true) ||
    (match items with | some its => its.any (fun it => it.letter == 122) | none => false)
  let full : Bool := offInDomain && offCarried && (match items with | some its => Spec.Efmt.backDomain its | none => false)
  let inDomain := decide (e.ts = TS.UTC) && full
  -- outside the letter of the clause (non-UTC epochs): when the format prints the time scale the text still
  -- determines the epoch, so the result must be the epoch or an error, never another instant
  let hasT : Bool := match items with | some its => its.any (fun it => it.letter == 84) | none => false
  let nearDomain := !inDomain && full && hasT
  let sp :=
    if inDomain then
      (match impl with
       | .ok [r] => if r == showEpoch e.dur e.ts then "ok" else "FAIL:other_epoch"
       | .ok _ => "FAIL:decode"
       | .other w => "FAIL:" ++ w)
    else if nearDomain then
      (match impl with
       | .ok [r] => if r == showEpoch e.dur e.ts then "ok" else "FAIL:other_epoch"
       | .ok _ => "FAIL:decode"
       | .other "err" => "ok"
       | .other w => "FAIL:" ++ w)
    else noPanic impl
  let offZero : Bool := match off with | some o => sval o == 0 | none => true
  let wrong : Bool := match impl with | .ok _ => true | _ => false
  let cls :=
    if nearDomain then
      (if backOk f offZero then "-" else if wrong then "D25w" else "D25")
    else if backOk f offZero then "-"
    else if wrong then "D25w" else "D25"
  { model := if hasTok f .DayOfYear then "unmodelled" else showResEp m, spec := sp, cls := cls,
    branch := op ++ ":" ++ (if inDomain then "domain" else if nearDomain then "near" else "open") ++ ":" ++
              (if backOk f offZero then "class_ok" else "class_D25")
              ++ ":" ++ resTag m ++ (if off.isSome then ":tz" else "") }

/-- Feb 30/31 of a leap year in the text (recorded defect D10 of `is_gregorian_valid`, pinned by the suite) -/
def d10Text (F : Spec.Efmt.TFields) : Bool :=
  match F.y, F.mo, F.d with
  | some y, some m, some d => Cal.d10class y m d
  | _, _, _ => false

/-- recorded finding D25w seen from the parsing side: a DIGIT used as a literal separator next to a numeric field (`%dT9%Y`)
    — the separator-driven tokenizer reads the separator digit into the neighbouring number ("31T9582" is day 31, year
    9582 instead of year 582), so a text whose fields (as the format spells them) must be rejected can be accepted as
    the merged reading -/
def digitSepMerge : List Spec.Efmt.SItem → Bool
  | a :: b :: r =>
    (Spec.Efmt.numericLetter a.letter && (match a.seps.head? with | some c => Spec.Efmt.isDig c | none => false)) ||
    (Spec.Efmt.numericLetter b.letter && (match a.seps.getLast? with | some c => Spec.Efmt.isDig c | none => false)) ||
    digitSepMerge (b :: r)
  | _ => false

/-- the (format, text) stream: outcome (and value, when modelled) of a parse; the spec reads the text with its
    own strict grammar and demands an error for out-of-range fields, a weekday that is not the weekday of the
    date, and the time scale written in the text -/
def parseOp (op : String) (fr : Res Format) (items : Option (List Spec.Efmt.SItem)) (s : List Nat) (impl : Impl) : Ans :=
  match fr with
  | .ok f =>
    let m := formatParse oracles f s
    -- `%J`: the parsed value is not modelled, and everything after the loop depends on it (range, the date it
    -- names, the written month/day/weekday compared with that date, second 60): once the LOOP succeeds the
    -- result is `unmodelled`; a failure of the loop itself (which only needs "the f64 parser accepts") stays tied
    let valueOpen : Bool := hasTok f .DayOfYear &&
      (match f.items with
       | [] => false
       | it :: _ =>
         match parseLoop oracles f (trim s) (byteLen (trim s)) (trim s) 0 (St.init it) with
         | .ok _ => true
         | _ => false)
    let tf : Option Spec.Efmt.TFields := match items with | some its => Spec.Efmt.readText its s | none => none
    let clause : Option String := match tf with | some F => Spec.Efmt.mustRejectText F | none => none
    let implScale : Option String := match impl with
      | .ok [r] => (match r.splitOn ":" with | [_, _, ts] => some ts | _ => none)
      | _ => none
    let sp :=
      match noPanic impl with
      | "ok" =>
        (match clause, impl with
         | some c, .ok _ => "FAIL:accepted_" ++ c
         | _, _ =>
           match tf, implScale with
           | some F, some ts => (match F.scale with
               | some n => if n == ts then "ok" else "FAIL:scale_of_text_ignored"
               | none => "ok")
           | _, _ => "ok")
      | v => v
    let failing := sp.startsWith "FAIL:accepted" || sp == "FAIL:scale_of_text_ignored"
    let cls :=
      if !failing then "-"
      else if (match tf with | some F => d10Text F | none => false) && clause == some "invalid_date" then "D10"
      else if (match items with | some its => digitSepMerge its | none => false) && sp.startsWith "FAIL:accepted" then "D25w"
      else "-"
    { model := if valueOpen then "unmodelled" else showResEp m, spec := sp, cls := cls,
      branch := op ++ ":" ++ resTag m ++
                (match tf, clause with
                 | some _, some c => ":must_reject:" ++ c
                 | some _, none => ":read"
                 | none, _ => "") ++
                (if s.any (· ≥ 128) then ":nonascii" else "") ++ (if f.items.length ≥ 16 then ":16tok" else "") }
  | .err => { model := "err", spec := noPanic impl, branch := op ++ ":bad_format" }
  | .panic => { model := "panic", spec := noPanic impl, branch := op ++ ":format_panic" }

def handle (op : String) (args : List String) (impl : Impl) : Option Ans :=
  match op, args with
  | "fmt_parse", [h] | "p_format", [h] => do
    let s ← codesOfHex h
    let m := formatFromStr s
    let sp :=
      if op == "p_format" then noPanic impl
      else match specItemsX s with
        | some its =>
          (match impl with
           | .ok [x] => if codesOfHex x == some (Spec.Efmt.debugTextX its) then "ok" else "FAIL:items"
           | .ok _ => "FAIL:decode"
           | .other w => "FAIL:" ++ w)
        | none => noPanic impl
    pure { model := (match m with | .ok f => "ok " ++ hexOfCodes f.debug | .err => "err" | .panic => "panic"),
           spec := sp,
           branch := op ++ ":" ++ resTag m ++
             (if (specItems s).isSome then ":domain" else if (specItemsX s).isSome then ":domain:unnamed" else ":open") }
  | "const_debug", [n] => do
    let f ← constByName? n
    -- all nine constants are judged against the string of the documentation: the rustdoc / suite string
    -- where there is one, else the string the constant's doc comment describes (`Spec.Efmt.documented`)
    let sp :=
      (match Spec.Efmt.documentedItems n, impl with
       | some its, .ok [x] => if codesOfHex x == some (Spec.Efmt.debugText its) then "ok" else "FAIL:const_differs_from_doc"
       | _, .other w => "FAIL:" ++ w
       | _, _ => "FAIL:decode")
    pure { model := "ok " ++ hexOfCodes f.debug, spec := sp,
           branch := "const_debug:" ++ n ++ (if hasDocString n then ":doc_string" else ":doc_comment") }
  | "format", h :: e :: rest => do
    let s ← codesOfHex h
    let e ← parseEp? e
    let off ← (match rest with | [] => some none | [d] => (parseDur? d).map some | _ => none)
    match formatFromStr s with
    | .ok f => pure (formatOp op f (specItems s) e off impl (specItemsX s))
    | .err => pure { model := "err", spec := (if (specItemsX s).isSome then "FAIL:format_rejected" else noPanic impl), branch := "format:bad_format" }
    | .panic => pure { model := "panic", spec := "FAIL:panic", branch := "format:format_panic" }
  | "format_ts", [h, e, ts] => do
    let s ← codesOfHex h
    let e ← parseEp? e
    let ts ← TS.ofString? ts
    let e2 ← Dyn.toTimeScaleF e ts
    match formatFromStr s with
    | .ok f => pure (formatOp op f (specItems s) e2 none impl (specItemsX s))
    | _ => none
  | "format_const", n :: e :: rest => do
    let f ← constByName? n
    let e ← parseEp? e
    let off ← (match rest with | [] => some none | [d] => (parseDur? d).map some | _ => none)
    pure (formatOp op f (Spec.Efmt.documentedItems n) e off impl)
  | "fmt_back", h :: e :: rest => do
    let s ← codesOfHex h
    let e ← parseEp? e
    let off ← (match rest with | [] => some none | [d] => (parseDur? d).map some | _ => none)
    match formatFromStr s with
    | .ok f => pure (backOp op f (specItems s) e off impl)
    | .err => pure { model := "err", spec := (if (specItems s).isSome then "FAIL:format_rejected" else noPanic impl), branch := "fmt_back:bad_format" }
    | .panic => pure { model := "panic", spec := "FAIL:panic", branch := "fmt_back:format_panic" }
  | "fmt_back_const", n :: e :: rest => do
    let f ← constByName? n
    let e ← parseEp? e
    let off ← (match rest with | [] => some none | [d] => (parseDur? d).map some | _ => none)
    pure (backOp op f (Spec.Efmt.documentedItems n) e off impl)
  | "iso_display", [e] => do
    let e ← parseEp? e
    let iso ← constByName? "ISO8601"
    let a := formatterOutput oracles iso e none
    let b := Cal.display e.dur e.ts
    let sp := match impl with
      | .ok [x, y] => if x == y then "ok" else "FAIL:formatter_differs_from_display"
      | .ok _ => "FAIL:decode"
      | .other w => "FAIL:" ++ w
    let zero : Bool := match Cal.computeGregorian e.dur e.ts with | .ok (_, _, _, _, _, _, ns) => ns == 0 | _ => false
    pure { model := (match a, b with
             | .ok x, .ok y => "ok " ++ hexOfCodes x ++ " " ++ hexOfCodes y
             | .panic, _ => "panic" | _, .panic => "panic" | _, _ => "err"),
           spec := sp, cls := if zero then "D22i" else "-",
           branch := "iso_display:" ++ scaleTag e ++ (if zero then ":whole_second" else ":subsecond") }
  | "to_isoformat", [e] => do
    let e ← parseEp? e
    let std ← constByName? "ISO8601_STD"
    let sp := match Spec.Efmt.fieldsOf e.ts.name (sval e.dur) with
      | none => "FAIL:spec_date"
      | some F =>
        match Spec.Efmt.isoformatText F, impl with
        | none, _ => noPanic impl
        | some want, .ok [x] => if codesOfHex x == some want then "ok" else "FAIL:text"
        | some _, .ok _ => "FAIL:decode"
        | some _, .other w => "FAIL:" ++ w
    pure { model := showResCodes (toIsoformat oracles std e), spec := sp, branch := "to_isoformat:" ++ scaleTag e }
  | "p_fmtparse", [h, i] => do
    let s ← codesOfHex h
    let inp ← codesOfHex i
    pure (parseOp op (formatFromStr s) (specItems s) inp impl)
  | "p_fmtstr", [i, h] => do
    let s ← codesOfHex h
    let inp ← codesOfHex i
    pure (parseOp op (formatFromStr s) (specItems s) inp impl)
  | "p_constparse", [n, i] => do
    let f ← constByName? n
    let inp ← codesOfHex i
    pure (parseOp op (.ok f) (Spec.Efmt.documentedItems n) inp impl)
  | _, _ => none

end Hifi.Drive.Efmt
