import Hifi.Model.Views
import Hifi.Model.ViewsDyn
import Hifi.Drive.Dynamical
import Hifi.Model.ViewsFloat
import Hifi.Spec.ViewsFloat
/-
  Driver handlers for C17.
-/
namespace Hifi.Drive.Views
open Hifi Hifi.Proto Hifi.Spec Hifi.Drive.Duration Hifi.Drive.Epoch Hifi.Dyn Hifi.Views

def parseF? (h : String) : Option Float :=
  if h.length != 16 then none else
  some (Float.ofBits (UInt64.ofNat (h.toList.foldl (fun acc c => acc * 16 + hexVal c) 0)))

def showF (f : Float) : String :=
  let hex := Nat.toDigits 16 f.toBits.toNat
  String.ofList (List.replicate (16 - hex.length) '0' ++ hex)

/-- exact value of a finite double as (numerator, power-of-two exponent): value = m · 2^e -/
def floatME (f : Float) : Option (Int × Int) :=
  let bits := f.toBits.toNat
  let sign : Int := if bits >>> 63 == 1 then -1 else 1
  let ex := (bits >>> 52) % 2048
  let mant := bits % (1 <<< 52)
  if ex == 2047 then none
  else if ex == 0 then some (sign * mant, -1074)
  else some (sign * (mant + (1 <<< 52)), (ex : Int) - 1075)

/-- ⌊log₂ (n/d)⌋ for positive n, d -/
def log2Ratio (n d : Nat) : Int :=
  let e : Int := (n.log2 : Int) - (d.log2 : Int)
  -- 2^e ≤ n/d < 2^(e+2) roughly: adjust
  let ge (k : Int) : Bool := if k ≥ 0 then n ≥ d * 2 ^ k.toNat else n * 2 ^ (-k).toNat ≥ d
  if ge (e + 1) then e + 1 else if ge e then e else e - 1

/-- |f − num/den| ≤ tolUlps · ulp, where ulp is that of max(|num/den|, |floor/den|) (binary64, 53 bits) -/
def withinUlps (f : Float) (num den : Int) (floorNum : Int) (tolUlps : Nat) : Bool :=
  match floatME f with
  | none => false
  | some (m, e) =>
    let an := num.natAbs; let fl := floorNum.natAbs
    let big := if an ≥ fl then an else fl
    if big == 0 then m == 0 else
    let lg := log2Ratio big den.natAbs          -- ulp = 2^(lg − 52)
    -- |m·2^e − num/den| ≤ tol · 2^(lg−52)   ⇔   |m·2^e·den − num| ≤ tol · 2^(lg−52) · den
    -- scale everything by 2^s with s = max(0, −e, 52 − lg)
    let s : Nat := (max (max (-e) (52 - lg)) 0).toNat
    let lhs : Int := (m * (2 : Int) ^ (s + e).toNat * den - num * (2 : Int) ^ s)
    let rhs : Int := (tolUlps : Int) * (2 : Int) ^ (s + (lg - 52)).toNat * den
    decide (lhs.natAbs ≤ rhs.natAbs)

/-- bit pattern of a hardware double as a SoftF64 value, and back -/
def softOf (f : Float) : F64 := F64.ofBits f.toBits.toNat
def sameBits (f : Float) (x : F64) : Bool := (if f.isNaN then F64.nan else softOf f) == x

def unitNs : String → Option Int
  | "cy" => some 3155760000000000000 | "wk" => some 604800000000000 | "d" => some 86400000000000
  | "h" => some 3600000000000 | "min" => some 60000000000 | "s" => some 1000000000
  | "ms" => some 1000000 | "us" => some 1000 | "ns" => some 1 | _ => none

/-- which duration (as a function of the epoch) and unit a float accessor reports -/
def accfSpec (name : String) : Option (TS × Int × String) :=
  -- (scale in which the elapsed time is taken, constant added in ns, unit)
  let mjd : Int := 15020 * 86400000000000
  let jde : Int := 2415020 * 86400000000000 + 43200000000000
  let j2k : Int := 3155716800 * 1000000000
  let unix : Int := 2208988800 * 1000000000
  match name with
  | "to_mjd_tai_days" => some (TS.TAI, mjd, "d") | "to_mjd_tai_seconds" => some (TS.TAI, mjd, "s")
  | "to_mjd_utc_days" => some (TS.UTC, mjd, "d") | "to_mjd_utc_seconds" => some (TS.UTC, mjd, "s")
  | "to_jde_tai_days" => some (TS.TAI, jde, "d") | "to_jde_tai_seconds" => some (TS.TAI, jde, "s")
  | "to_jde_utc_days" => some (TS.UTC, jde, "d") | "to_jde_utc_seconds" => some (TS.UTC, jde, "s")
  | "to_tt_seconds" => some (TS.TT, 0, "s") | "to_tt_days" => some (TS.TT, 0, "d")
  | "to_tt_centuries_j2k" => some (TS.TT, -j2k, "cy")
  | "to_jde_tt_days" => some (TS.TT, jde, "d") | "to_mjd_tt_days" => some (TS.TT, mjd, "d")
  | "to_unix_seconds" => some (TS.UTC, -unix, "s") | "to_unix_milliseconds" => some (TS.UTC, -unix, "ms")
  | "to_unix_days" => some (TS.UTC, -unix, "d")
  | "to_tai_seconds" => some (TS.TAI, 0, "s") | "to_tai_days" => some (TS.TAI, 0, "d")
  | "to_utc_seconds" => some (TS.UTC, 0, "s") | "to_utc_days" => some (TS.UTC, 0, "d")
  | "to_gpst_seconds" => some (TS.GPST, 0, "s") | "to_gpst_days" => some (TS.GPST, 0, "d")
  | _ => none

/-- the model's duration for a float accessor (same composition of adds as the code) -/
def accfModelDur (name : String) (x : Dur) : Dur :=
  match name with
  | "to_mjd_tai_days" | "to_mjd_tai_seconds" | "to_mjd_utc_days" | "to_mjd_utc_seconds" | "to_mjd_tt_days" => Dur.add x mjdJ1900
  | "to_jde_tai_days" | "to_jde_tai_seconds" => toJdeTai x
  | "to_jde_utc_days" | "to_jde_utc_seconds" | "to_jde_tt_days" => Dur.add x jdeJ1900
  | "to_tt_centuries_j2k" => Dur.sub x etEpoch
  | "to_unix_seconds" | "to_unix_milliseconds" | "to_unix_days" => Dur.sub x unixRef
  | _ => x

def handle (op : String) (args : List String) (impl : Impl) : Option Ans :=
  match op, args with
  | "acc17", [name, e] => do
    let e ← parseEp? e
    let (ts, c) ← (match name with
      | "to_jde_tai_duration" => some (TS.TAI, (2415020 * 86400000000000 + 43200000000000 : Int))
      | "to_jde_utc_duration" => some (TS.UTC, 2415020 * 86400000000000 + 43200000000000)
      | "to_jde_tt_duration" => some (TS.TT, 2415020 * 86400000000000 + 43200000000000)
      | "to_mjd_tt_duration" => some (TS.TT, 15020 * 86400000000000)
      | "to_tt_since_j2k" => some (TS.TT, -(3155716800 * 1000000000))
      | _ => none)
    let m := (e.to ts).map (fun x => match name with
      | "to_jde_tai_duration" => toJdeTai x.dur
      | "to_jde_utc_duration" => toJdeUtc x.dur
      | "to_jde_tt_duration" => toJdeTt x.dur
      | "to_mjd_tt_duration" => toMjdTt x.dur
      | _ => toTtSinceJ2k x.dur)
    let fits := convFits e ts
    let i ← instOf e
    -- exact affine view: result − constant is the value, in `ts`, of the instant of e
    let ins := ts == TS.UTC && e.ts != TS.UTC && inInserted iersTbl i
    let sp := if !fits || ins then noPanic impl else match impl with
      | .ok [r] => (match parseDur? r with
          | some r => verdict [("canonical", scanon r), ("affine_view", denotes iersTbl ts.name (sval r - c) i)]
          | none => "FAIL:decode")
      | .other w => "FAIL:" ++ w
      | _ => "FAIL:decode"
    pure { model := (match m with | some x => "ok " ++ showDur x | none => "unmodelled"), spec := sp, branch := "acc17:" ++ name ++ ":" ++ e.ts.name }
  | "acc17own", [name, e] => do
    -- C17, Julian date in ET / TDB of an epoch HELD in that scale: no conversion is involved, so the duration view is
    -- EXACTLY the epoch's count + J2000 (as a TAI-count constant) + 2415020.5 days, canonical; the days view is that
    -- duration in days (4 ulp, and the proved 8-half-ulp bound)
    let e ← parseEp? e
    if !((name == "to_jde_et" && e.ts == TS.ET) || (name == "to_jde_tdb" && e.ts == TS.TDB)) then none else
    let c : Int := 2415020 * 86400000000000 + 43200000000000 + 3155716800 * 1000000000
    let want := sval e.dur + c
    let sp := if !(inRange want) then noPanic impl else match impl with
      | .ok [d, f] => (match parseDur? d, parseF? f with
          | some d, some f => verdict [("canonical", scanon d), ("exact_affine_view", sval d == want),
                                        ("days_within_4_ulp", withinUlps f want 86400000000000 1000000000 4)]
          | _, _ => "FAIL:decode")
      | .other w => "FAIL:" ++ w
      | _ => "FAIL:decode"
    -- the model answers too (Model/ViewsDyn.toJdeDyn; the days view through the hardware-float to_unit)
    let md := toJdeDyn e.dur
    let m := match toUnitF md "d" with
      | some f => "ok " ++ showDur md ++ " " ++ showF f
      | none => "-"
    pure { model := m, spec := sp, branch := "acc17own:" ++ name ++ (if want % 3155760000000000000 == 0 then ":on_century" else "") }
  | "accf", [name, e] => do
    let e ← parseEp? e
    let (ts, c, u) ← accfSpec name
    let uns ← unitNs u
    let m := (e.to ts).bind (fun x => toUnitF (accfModelDur name x.dur) u)
    let fits := convFits e ts
    let i ← instOf e
    -- spec: |f − (v + c)/unit| ≤ 4 ulp (of the value, or of one second's worth), v any value of e's instant in ts
    let cands : List Int := if ts == TS.UTC then ((0 :: iersTbl.map (·.2)).map (fun l => i - l * 1000000000)).filter (fun v => denotes iersTbl "UTC" v i)
                            else (match scaleOff ts.name with | some o => [i - o] | none => [])
    let ins := ts == TS.UTC && e.ts != TS.UTC && inInserted iersTbl i
    -- SoftF64 evaluation of the same accessor (Model/ViewsFloat.lean, the expression the C17 theorems are
    -- about) must reproduce the hardware-Float evaluation bit for bit
    let soft : Option F64 := do
      let a ← Hifi.ViewsF.Acc.ofString? name
      let x ← e.to ts
      Hifi.ViewsF.accF a x.dur
    let cross : Bool := match m, soft with
      | some x, some y => sameBits x y
      | none, _ => true
      | _, none => false
    -- the proved bound (Props/C17 `float_accessors_accuracy`): finite, exact sign, 8·2^-53·max(|exact|, 1 s)
    let proved (f : Float) : Bool := cands.any (fun v => Hifi.Spec.toUnitOk 8 uns (v + c) (softOf f))
    let sp := if !fits || ins then noPanic impl else match impl with
      | .ok [r] => (match parseF? r with
          | some f => verdict [("within_4_ulp", cands.any (fun v => withinUlps f (v + c) uns 1000000000 4)),
                               ("proved_bound", proved f), ("softf64_equals_hw", cross)]
          | none => "FAIL:decode")
      | .other w => "FAIL:" ++ w
      | _ => "FAIL:decode"
    pure { model := (match m with | some x => "ok " ++ showF x | none => "unmodelled"), spec := sp,
           branch := "accf:" ++ name ++ (if m.isSome then (if cross then ":softf64=hw" else ":softf64!=hw") else "") }
  | "wrap_c", name :: _ | "wrap_a", name :: _ | "wrap_p", name :: _ => do
    -- spec only: a thin public wrapper agrees with the generic call whose meaning the properties state
    -- (epochs: same scale, same elapsed time to 1 ns; doubles: to 2 units in the last place; durations: identical)
    let sp := match impl with
      | .ok ["e", x, y] => (match parseEp? x, parseEp? y with
          | some x, some y => verdict [("scale", x.ts == y.ts), ("canonical", scanon x.dur),
                                        ("same_as_generic_call", decide ((sval x.dur - sval y.dur).natAbs ≤ 1))]
          | _, _ => "FAIL:decode")
      | .ok ["d", x, y] => (match parseDur? x, parseDur? y with
          | some x, some y => verdict [("same_as_generic_call", sval x == sval y)]
          | _, _ => "FAIL:decode")
      | .ok ["t", x, y, z] =>
        -- texts: the scale-fixed format of an epoch is the text of its re-expression in that scale, which is also
        -- what Display prints for the re-expressed epoch
        verdict [("same_as_generic_call", x == y), ("same_as_display_of_the_view", x == z)]
      | .ok ["g", x, y] => (match parseF? x, parseF? y with
          -- a view in any unit against the days view scaled in binary64: 8 units in the last place
          | some x, some y =>
            let bx := x.toBits.toNat; let by' := y.toBits.toNat
            verdict [("same_as_scaled_days_view", (bx == by') || (x == y) || (bx / 2 ^ 63 == by' / 2 ^ 63 && (if bx ≥ by' then bx - by' else by' - bx) ≤ 8))]
          | _, _ => "FAIL:decode")
      | .ok ["f", x, y] => (match parseF? x, parseF? y with
          | some x, some y =>
            let bx := x.toBits.toNat; let by' := y.toBits.toNat
            verdict [("same_as_generic_call", (bx == by') || (x == y) || (bx / 2 ^ 63 == by' / 2 ^ 63 && (if bx ≥ by' then bx - by' else by' - bx) ≤ 2))]
          | _, _ => "FAIL:decode")
      | .other w => "FAIL:" ++ w
      | _ => "FAIL:decode"
    pure { model := "-", spec := sp, branch := op ++ ":" ++ name }
  | "acc_via", [name, _e] => do
    -- metamorphic (spec only): a view of an epoch equals the same view of its re-expression in the view's scale;
    -- durations to 2 ns, doubles to 8 units in the last place (used with ET/TDB epochs)
    let isDur := name.endsWith "_duration" || name == "to_tt_since_j2k"
    let sp := match impl with
      | .ok [x, y] =>
        if isDur then (match parseDur? x, parseDur? y with
          | some x, some y => verdict [("canonical", scanon x), ("same_view_of_reexpressed_epoch", decide ((sval x - sval y).natAbs ≤ 2))]
          | _, _ => "FAIL:decode")
        else (match parseF? x, parseF? y with
          | some x, some y =>
            let bx := x.toBits.toNat; let by' := y.toBits.toNat
            let close := (bx == by') || (x == y) || (bx / 2 ^ 63 == by' / 2 ^ 63 && (if bx ≥ by' then bx - by' else by' - bx) ≤ 8)
            verdict [("finite", x.isFinite), ("same_view_of_reexpressed_epoch", close)]
          | _, _ => "FAIL:decode")
      | .other w => "FAIL:" ++ w
      | _ => "FAIL:decode"
    pure { model := "-", spec := sp, branch := "acc_via:" ++ name }
  | "accf_rel", [name, _e] => do
    -- spec only: the float-valued ET/TDB view is the duration-valued one in the stated unit, to 4 ulp
    let u ← (if name.endsWith "_seconds" then some "s" else if name.endsWith "centuries_since_j2000" then some "cy" else some "d")
    let uns ← unitNs u
    let sp := match impl with
      | .ok [f, d] => (match parseF? f, parseDur? d with
          | some f, some d => verdict [("within_4_ulp", withinUlps f (sval d) uns 1000000000 4),
                                        ("proved_bound", Hifi.Spec.toUnitOk 8 uns (sval d) (softOf f))]
          | _, _ => "FAIL:decode")
      | .other w => "FAIL:" ++ w
      | _ => "FAIL:decode"
    pure { model := "-", spec := sp, branch := "accf_rel:" ++ name }
  | "fmt_ptr", [_e] => do
    -- C17: `{:p}` prints the UNIX seconds view: the numeral read back is the accessor's value (spec only; the accessor is
    -- judged by accf), to 1e-9 s + 1e-15 relative, sign included
    let sp := match impl with
      | .ok [p, x] => (match parseF? p, parseF? x with
          | some p, some x => verdict [("prints_the_unix_seconds", Float.abs (p - x) ≤ 1e-9 + Float.abs x * 1e-15)]
          | _, _ => "FAIL:decode")
      | .other w => "FAIL:" ++ w
      | _ => "FAIL:decode"
    pure { model := "-", spec := sp, branch := "fmt_ptr" }
  | "jdtext", [_form, _ts, x] => do
    -- C17 / C10: the text forms `MJD x SCALE`, `JD x SCALE` build the epoch the direct constructor builds from the same
    -- double, to within the resolution of a double of that magnitude (spec only; the constructor itself is judged by
    -- from_mjd / from_jde)
    let x ← parseF? x
    let tol : Int := (Float.abs x * 2.220446049250313e-16 * 86400000000000.0).toInt64.toInt + 2
    let sp := match impl with
      | .ok [a, b] => (match parseEp? a, parseEp? b with
          | some a, some b => verdict [("scale", a.ts == b.ts), ("text_form_builds_the_constructors_epoch", decide ((sval a.dur - sval b.dur).natAbs ≤ tol.toNat))]
          | _, _ => "FAIL:text_form_rejected_or_undecodable")
      | .other w => "FAIL:" ++ w
      | _ => "FAIL:decode"
    pure { model := "-", spec := sp, branch := "jdtext:" ++ _form }
  | "from_mjd", [ts, x] | "from_jde", [ts, x] => do
    let ts ← TS.ofString? ts; let x ← parseF? x
    let shifted : Float := if op == "from_mjd" then x - 15020.0 else x - 15020.0 - 2400000.5
    let m : Res Ep := match gregorianEpochOffset ts with
      | .ok g => .ok ⟨Dur.sub (unitMulF dayF shifted) g, ts⟩
      | .err => .err | .panic => .panic
    -- spec: the instant denoted to within the resolution of a double of that magnitude:
    -- value in ts (counted from the scale's reference DATE) = (x − 15020[−2400000.5]) days ± (ulp(x) days + 1 ns)
    let sp := match impl, floatME x with
      | .ok [r], some (mx, ex) => (match parseEp? r, (Res.ok (Dur.fromTotal (refOffsetNs ts.name)) : Res Dur) with
          -- (the scale's reference date-time from the SPEC calendar, not from the model's generated constants: audit 3)
          | some r, .ok g =>
            let c : Int := if op == "from_mjd" then 15020 * 86400000000000 else 2415020 * 86400000000000 + 43200000000000
            -- exact wanted ns·2^s: (mx·2^ex days − c ns)
            let s : Nat := (max (-ex) 0).toNat
            let want2 : Int := mx * (2 : Int) ^ (s + ex).toNat * 86400000000000 - c * (2 : Int) ^ s
            let got2 : Int := (sval r.dur + sval g) * (2 : Int) ^ s
            -- one ulp, in days → ns, scaled, of a double of the magnitude involved: max(|x|, the epoch constant
            -- 15020 resp. 2415020.5 that the code subtracts in binary64)
            let exC : Int := if op == "from_mjd" then -39 else -31
            -- (the difference x − constant can be one binade above the larger operand)
            let exU : Int := (if ex ≥ exC then ex else exC) + 1
            -- two roundings: the subtraction and the product with 8.64e13 → 2 ulp
            let ulpNs2 : Int := 2 * (2 : Int) ^ (s + exU).toNat * 86400000000000
            -- SoftF64 evaluation of the constructor (Model/ViewsFloat.lean) against the hardware-Float model
            let softD : Dur := if op == "from_mjd" then Hifi.ViewsF.fromMjdDur g (softOf x) else Hifi.ViewsF.fromJdeDur g (softOf x)
            let cross : Bool := match m with | .ok e => e.dur == softD | _ => true
            verdict [("scale", r.ts == ts), ("canonical", scanon r.dur), ("within_float_resolution", decide ((got2 - want2).natAbs ≤ (ulpNs2 + (2 : Int) ^ s).natAbs)),
                     ("softf64_equals_hw", cross)]
          | _, _ => "FAIL:decode")
      | .other w, _ => "FAIL:" ++ w
      | _, _ => "FAIL:decode"
    pure { model := (match m with | .ok e => "ok " ++ showEp e | .err => "err" | .panic => "panic"), spec := sp, branch := op ++ ":" ++ ts.name }
  | "from_unix_s", [x] | "from_unix_ms", [x] => do
    let x ← parseF? x
    let factor : Float := if op == "from_unix_s" then 1000000000.0 else 1000000.0
    let m : Ep := ⟨Dur.add unixRef (unitMulF factor x), TS.UTC⟩
    let sp := match impl, floatME x with
      | .ok [r], some (mx, ex) => (match parseEp? r with
          | some r =>
            let fns : Int := if op == "from_unix_s" then 1000000000 else 1000000
            let s : Nat := (max (-ex) 0).toNat
            let want2 : Int := mx * (2 : Int) ^ (s + ex).toNat * fns + 2208988800 * 1000000000 * (2 : Int) ^ s
            let got2 : Int := sval r.dur * (2 : Int) ^ s
            let ulpNs2 : Int := (2 : Int) ^ (s + ex).toNat * fns
            let softD : Dur := if op == "from_unix_s" then Hifi.ViewsF.fromUnixSecondsDur (softOf x) else Hifi.ViewsF.fromUnixMillisecondsDur (softOf x)
            verdict [("scale", r.ts == TS.UTC), ("within_float_resolution", decide ((got2 - want2).natAbs ≤ (ulpNs2 + (2 : Int) ^ s).natAbs)),
                     ("softf64_equals_hw", m.dur == softD)]
          | none => "FAIL:decode")
      | .other w, _ => "FAIL:" ++ w
      | _, _ => "FAIL:decode"
    pure { model := "ok " ++ showEp m, spec := sp, branch := op }
  | "from_unix_dur", [d] => do
    let d ← parseDur? d
    pure { model := "ok " ++ showEp ⟨fromUnixDur d, TS.UTC⟩, spec := judgeEpValue impl TS.UTC (clampD (sval d + 2208988800 * 1000000000)), branch := "from_unix_dur" }
  | "view_rt", [kind, x] => do
    let x ← parseF? x
    let m : Option Float := match kind with
      | "mjd_tai" | "mjd_utc" => toUnitF (Dur.add (unitMulF dayF (x - 15020.0)) mjdJ1900) "d"
      | "jde_tai" => toUnitF (toJdeTai (unitMulF dayF (x - 15020.0 - 2400000.5))) "d"
      | "jde_utc" => toUnitF (toJdeUtc (unitMulF dayF (x - 15020.0 - 2400000.5))) "d"
      -- from_jde_tdb / from_jde_et = from_jde_in_time_scale(x, TDB | ET) (elapsed time in the scale itself, counted from
      -- J2000), read back by to_jde_tdb_days / to_jde_et_days = (duration + 2415020.5 d + prime offset).to_unit(Day)
      | "jde_tdb" | "jde_et" =>
        toUnitF (Dur.add (Dur.add (Dur.sub (unitMulF dayF (x - 15020.0 - 2400000.5)) Hifi.Dyn.etPrimeOffset) jdeJ1900) Hifi.Dyn.etPrimeOffset) "d"
      | "unix_s" => toUnitF (toUnixDur (Dur.add unixRef (unitMulF 1000000000.0 x))) "s"
      | "unix_ms" => toUnitF (toUnixDur (Dur.add unixRef (unitMulF 1000000.0 x))) "ms"
      | _ => none
    -- spec: reading the same view back returns the value to float precision: within 4 ulp (of the value,
    -- or of one second's worth) plus the 1 ns truncation
    let uns : Int := match kind with | "unix_s" => 1000000000 | "unix_ms" => 1000000 | _ => 86400000000000
    let sp := match impl, floatME x with
      | .ok [r], some (mx, ex) => (match parseF? r with
          | some f =>
            -- exact x as rational num/den with den = 2^s; allow 4 ulp + 1 ns
            let s : Nat := (max (-ex) 0).toNat
            let num : Int := mx * (2 : Int) ^ (s + ex).toNat
            let den : Int := (2 : Int) ^ s
            -- widen by one ns: compare against x ± 1ns by testing three targets
            let floorN : Int := match kind with
              | "mjd_tai" | "mjd_utc" => 15020 * uns * den
              | "jde_tai" | "jde_utc" | "jde_tdb" | "jde_et" => 2415021 * uns * den
              | _ => den * 1000000000
            let ok := [(-1 : Int), 0, 1].any (fun k => withinUlps f (num * uns + k * den) (den * uns) floorN 5)
            verdict [("read_back_to_float_precision", ok)]
          | none => "FAIL:decode")
      | .other w, _ => "FAIL:" ++ w
      | _, _ => "FAIL:decode"
    pure { model := (match m with | some y => "ok " ++ showF y | none => "unmodelled"), spec := sp, branch := "view_rt:" ++ kind }
  | _, _ => none

end Hifi.Drive.Views
