import Hifi.Model.Proto
import Hifi.Model.DurFloat
import Hifi.Spec.DurFloat
/-
  Driver handlers for property C18 (Duration ↔ float): model result (must equal the
  implementation bit for bit), spec verdict on the implementation's result (Spec/DurFloat.lean),
  defect-class tags, branch tag.
-/
namespace Hifi.Drive.DurFloat
open Hifi Hifi.Proto Hifi.Spec Hifi.DurFloat

def sval (d : Dur) : Int := valP d.c d.ns
def scanon (d : Dur) : Bool := canonP d.c d.ns

/-- tolerances (in half-ulps, see `Spec.closeTo`) the check enforces -/
def K_SECONDS : Nat := 4
def K_UNIT : Nat := 8

def showOutDur : Out Dur → String
  | .ok d => "ok " ++ showDur d
  | .panic => "panic"
  | .hang => "hang"

def fclass : F64 → String
  | .nan => "nan"
  | .inf s => if s then "-inf" else "+inf"
  | .fin s m e =>
    if m = 0 then "zero"
    else (if s then "neg" else "pos") ++
      (if m < F64.P52 then "_subnormal"
       else if e ≥ 0 then "_bigint"
       else if (F64.toRat (.fin s m e)).den = 1 then "_int" else "_frac")

/-- verdict for an op that must return the canonical duration of value `want`
    (`none`: the property leaves the value open — NaN —, only "returns a canonical duration") -/
def judgeDurOpt (impl : Impl) (want : Option Int) : String :=
  match impl with
  | .ok [r] =>
    match parseDur? r with
    | some r =>
      (match want with
       | some w => verdict [("canonical", scanon r), ("value", sval r == w)]
       | none => verdict [("canonical", scanon r)])
    | none => "FAIL:decode"
  | .ok _ => "FAIL:decode"
  | .other w => "FAIL:" ++ w

def implF (impl : Impl) : Option F64 :=
  match impl with
  | .ok [r] => F64.parseHex? r
  | _ => none

def implWord (impl : Impl) : String :=
  match impl with
  | .ok _ => "decode"
  | .other w => w

def satTag (x : Option Int) : String :=
  match x with
  | none => "open"
  | some x => if x == DMIN then "at_min" else if x == DMAX then "at_max" else if x == 0 then "zero"
              else if x < 0 then "neg" else "pos"

/-- branch of `impl Mul<f64> for Unit` taken by the model -/
def umfBranch (factor q : F64) : String :=
  if F64.ge q (F64.div maxF factor) then "bound_max"
  else if F64.le q (F64.div minF factor) then "bound_min"
  else if F64.lt (F64.abs (F64.mul q factor)) i64MaxF then
    (if (F64.toRat (F64.mul q factor)).den = 1 then "i64_whole" else "i64_trunc")
  else "i128"

def unitMul (op u : String) (q : F64) (impl : Impl) : Option Ans := do
  let f ← unitFactorF u; let fs ← unitNs u
  let want := unitTimesF fs q
  pure { model := "ok " ++ showDur (unitMulF64 f q), spec := judgeDurOpt impl want,
         branch := op ++ ":" ++ u ++ ":" ++ umfBranch f q ++ ":" ++ satTag want ++ ":" ++ fclass q }

def tagsOf (l : List (String × Bool)) : String :=
  match (l.filter (·.2)).map (·.1) with
  | [] => "-"
  | ts => ",".intercalate ts

/-- the real product is a whole number of nanoseconds of magnitude below 2^53 -/
def wholeBelow53 (v : Int) (q : Rat) : Bool :=
  let p := (v : Rat) * q
  decide (p.den = 1 ∧ p.num.natAbs < 9007199254740992)

def handle (op : String) (args : List String) (impl : Impl) : Option Ans :=
  match op, args with
  | "unit_mul_f64", [u, q] | "tu_f64", [u, q] => do
    let q ← F64.parseHex? q
    unitMul op u q impl
  | "f64_mul_unit", [q, u] => do
    let q ← F64.parseHex? q
    unitMul op u q impl
  | "from_days", [q] => do let q ← F64.parseHex? q; unitMul op "d" q impl
  | "from_hours", [q] => do let q ← F64.parseHex? q; unitMul op "h" q impl
  | "from_seconds", [q] => do let q ← F64.parseHex? q; unitMul op "s" q impl
  | "from_milliseconds", [q] => do let q ← F64.parseHex? q; unitMul op "ms" q impl
  | "from_microseconds", [q] => do let q ← F64.parseHex? q; unitMul op "us" q impl
  | "from_nanoseconds", [q] => do let q ← F64.parseHex? q; unitMul op "ns" q impl
  | "to_seconds", [d] => do
    let d ← parseDur? d
    let sp := match implF impl with
      | some r => verdict [("finite", r.isFinite), ("close", closeTo K_SECONDS r.toRat ((sval d : Rat) / 1000000000) 1),
                           ("sign", signOk r.toRat (sval d))]
      | none => "FAIL:" ++ implWord impl
    pure { model := "ok " ++ F64.showHex (toSeconds d), spec := sp,
           branch := "to_seconds:" ++ (if d.c == 0 then "c=0" else if d.c < 0 then "c<0" else "c>0") ++
             (if (sval d).natAbs < 1000000000 then ":subsecond" else "") }
  | "to_unit", [d, u] => do
    let d ← parseDur? d; let fs ← unitNs u
    let m ← toUnit d u
    let sp := match implF impl with
      | some r => verdict [("finite", r.isFinite),
                           ("close", closeTo K_UNIT r.toRat ((sval d : Rat) / (fs : Rat)) ((1000000000 : Rat) / (fs : Rat))),
                           ("sign", signOk r.toRat (sval d))]
      | none => "FAIL:" ++ implWord impl
    pure { model := "ok " ++ F64.showHex m, spec := sp,
           branch := "to_unit:" ++ u ++ (if d.c == 0 then ":c=0" else if d.c < 0 then ":c<0" else ":c>0") }
  | "to_seconds2", [a, b] => do
    let a ← parseDur? a; let b ← parseDur? b
    let sp := match impl with
      | .ok [x, y] => (match F64.parseHex? x, F64.parseHex? y with
          | some x, some y =>
            verdict [("monotone", if sval a ≤ sval b then F64.le x y else F64.le y x),
                     ("close_a", toSecondsOk K_SECONDS (sval a) x), ("close_b", toSecondsOk K_SECONDS (sval b) y)]
          | _, _ => "FAIL:decode")
      | .ok _ => "FAIL:decode"
      | .other w => "FAIL:" ++ w
    pure { model := "ok " ++ F64.showHex (toSeconds a) ++ " " ++ F64.showHex (toSeconds b), spec := sp,
           branch := "to_seconds2:" ++ (if sval a == sval b then "same" else if toSeconds a == toSeconds b then "collide" else "distinct") }
  | "to_unit2", [a, b, u] => do
    let a ← parseDur? a; let b ← parseDur? b; let fs ← unitNs u
    let ma ← toUnit a u; let mb ← toUnit b u
    let sp := match impl with
      | .ok [x, y] => (match F64.parseHex? x, F64.parseHex? y with
          | some x, some y =>
            verdict [("monotone", if sval a ≤ sval b then F64.le x y else F64.le y x),
                     ("close_a", toUnitOk K_UNIT fs (sval a) x), ("close_b", toUnitOk K_UNIT fs (sval b) y)]
          | _, _ => "FAIL:decode")
      | .ok _ => "FAIL:decode"
      | .other w => "FAIL:" ++ w
    pure { model := "ok " ++ F64.showHex ma ++ " " ++ F64.showHex mb, spec := sp,
           branch := "to_unit2:" ++ u ++ ":" ++ (if sval a == sval b then "same" else if ma == mb then "collide" else "distinct") }
  | "in_seconds", [u] => do
    let m ← inSeconds u; let fs ← unitNs u
    let sp := match implF impl with
      | some r => verdict [("nearest_double", r == F64.rnd ((fs : Rat) / 1000000000))]
      | none => "FAIL:" ++ implWord impl
    pure { model := "ok " ++ F64.showHex m, spec := sp, branch := "in_seconds:" ++ u }
  | "from_seconds_u", [u] => do
    let m ← fromSecondsU u; let fs ← unitNs u
    let sp := match implF impl with
      | some r => verdict [("finite", r.isFinite), ("close", closeTo 2 r.toRat ((1000000000 : Rat) / (fs : Rat)) 0)]
      | none => "FAIL:" ++ implWord impl
    pure { model := "ok " ++ F64.showHex m, spec := sp, branch := "from_seconds_u:" ++ u }
  | "dmulf", [d, q] | "fmuld", [d, q] => do
    let d ← parseDur? d; let q ← F64.parseHex? q
    let v := sval d
    if v.natAbs > TENKY.natAbs then none else
    -- finite factor: the value clause; NaN / ±inf: only "returns a canonical duration" (no panic, no hang)
    let sp := match impl with
      | .ok [r] => (match parseDur? r with
          | some r => if q.isFinite then verdict [("canonical", scanon r), ("value", durMulOk v q.toRat (sval r)),
                                                   -- "exactly the product whenever that is a whole number of nanoseconds below 2^53"
                                                   ("whole_product_exact", !wholeBelow53 v q.toRat || decide ((sval r : Rat) = (v : Rat) * q.toRat))]
                      else verdict [("canonical", scanon r)]
          | none => "FAIL:decode")
      | .ok _ => "FAIL:decode"
      | .other w => "FAIL:" ++ w
    let tiny := q.isFinite && !q.isZero && decide (absQ q.toRat < F64.toRat epsF)
    let lp := precLoop 64 0 q q
    let ptag := match lp with
      | .ok (p, nv) => "p=" ++ toString p ++ (if !q.isFinite then ":nonfinite" else if tiny then ":tiny"
                         else if nv.isZero then ":zero" else "") ++ (if !brk nv then ":cap" else "")
      | .panic => "panic"
      | .hang => "hang"
    pure { model := showOutDur (durMulAfter d lp), spec := sp,
           -- D42 (recorded): the decimal precision search stops on a ROUNDED integer q·10^p once the exact one needs more
           -- than 53 bits, so a whole-number product can come out one nanosecond low
           cls := tagsOf [("D1", Dur.d1class d && q.isFinite),
                          ("D42", q.isFinite && wholeBelow53 v q.toRat && (match durMulAfter d lp with
                             | .ok r => decide ((sval r : Rat) ≠ (v : Rat) * q.toRat) | _ => false))],
           branch := "dmulf:" ++ ptag ++ ":" ++ (if v == 0 then "d=0" else if v < 0 then "d<0" else "d>0") ++
             (if q.isFinite && decide (absQ ((v : Rat) * q.toRat) > (DMAX : Rat)) then ":sat" else "") }
  | "compose_f64", [sg, a, b, c, d, e, f, g] => do
    let sg ← sg.toInt?
    let a ← F64.parseHex? a; let b ← F64.parseHex? b; let c ← F64.parseHex? c; let d ← F64.parseHex? d
    let e ← F64.parseHex? e; let f ← F64.parseHex? f; let g ← F64.parseHex? g
    let want := composeNs sg a b c d e f g
    pure { model := showResDur (composeF64 sg a b c d e f g), spec := judgeDurOpt impl want,
           branch := "compose_f64:" ++ (if sg < 0 then "neg:" else "pos:") ++ satTag want }
  | _, _ => none

end Hifi.Drive.DurFloat
