import Hifi.Model.Proto
import Hifi.Model.SoftF64
/-
  Driver handlers of the pseudo-property `F64`: the SoftF64 model evaluated on the operands of
  plain hardware f64 operations executed by the harness.  The "implementation" here is the
  hardware/Rust std, the model must reproduce its bit patterns exactly; the spec column only checks
  that the implementation's answer is well formed (the tie IS the statement).
-/
namespace Hifi.Drive.SoftF64
open Hifi Hifi.Proto

def clsTag : F64 → String
  | .nan => "nan"
  | .inf _ => "inf"
  | .fin _ m e => if m = 0 then "zero" else if m < F64.P52 then "subnormal" else if e ≥ 0 then "int" else "normal"

def wellFormedF (impl : Impl) : String :=
  match impl with
  | .ok [r] => match F64.parseHex? r with
    | some _ => "ok"
    | none => "FAIL:decode"
  | .ok _ => "FAIL:decode"
  | .other w => "FAIL:" ++ w

def wellFormedI (impl : Impl) : String :=
  match impl with
  | .ok [r] => match r.toInt? with
    | some _ => "ok"
    | none => "FAIL:decode"
  | .ok _ => "FAIL:decode"
  | .other w => "FAIL:" ++ w

def ansF (op : String) (impl : Impl) (r : F64) (extra : String := "") : Ans :=
  { model := "ok " ++ F64.showHex r, spec := wellFormedF impl, branch := op ++ ":" ++ clsTag r ++ extra }

def ansI (op : String) (impl : Impl) (r : Int) (tag : String) : Ans :=
  { model := "ok " ++ toString r, spec := wellFormedI impl, branch := op ++ ":" ++ tag }

def satTag (lo hi : Int) (x : F64) : String :=
  match x with
  | .nan => "nan"
  | .inf _ => "inf"
  | .fin _ _ _ =>
    let t := F64.truncR (F64.toRat x)
    if t < lo ∨ t > hi then "sat" else if t == lo ∨ t == hi then "edge"
    else if (t : Rat) == F64.toRat x then "exact" else "truncated"

def exactTag (exact : Rat) (r : F64) : String :=
  match r with
  | .fin _ _ _ => if F64.toRat r == exact then ":exact" else ":rounded"
  | _ => ""

def handle (op : String) (args : List String) (impl : Impl) : Option Ans :=
  match op, args with
  | "f_add", [a, b] => do
    let a ← F64.parseHex? a; let b ← F64.parseHex? b
    pure (ansF op impl (F64.add a b) (if a.isFinite && b.isFinite then exactTag (a.toRat + b.toRat) (F64.add a b) else ""))
  | "f_sub", [a, b] => do
    let a ← F64.parseHex? a; let b ← F64.parseHex? b
    pure (ansF op impl (F64.sub a b) (if a.isFinite && b.isFinite then exactTag (a.toRat - b.toRat) (F64.sub a b) else ""))
  | "f_mul", [a, b] => do
    let a ← F64.parseHex? a; let b ← F64.parseHex? b
    pure (ansF op impl (F64.mul a b) (if a.isFinite && b.isFinite then exactTag (a.toRat * b.toRat) (F64.mul a b) else ""))
  | "f_div", [a, b] => do
    let a ← F64.parseHex? a; let b ← F64.parseHex? b
    pure (ansF op impl (F64.div a b)
      (if a.isFinite && b.isFinite && !b.isZero then exactTag (a.toRat / b.toRat) (F64.div a b) else ""))
  | "f_neg", [a] => do let a ← F64.parseHex? a; pure (ansF op impl (F64.neg a))
  | "f_abs", [a] => do let a ← F64.parseHex? a; pure (ansF op impl (F64.abs a))
  | "f_bits", [a] => do let a ← F64.parseHex? a; pure (ansF op impl a)
  | "f_floor", [a] => do let a ← F64.parseHex? a; pure (ansF op impl (F64.floor a) (if a.sign then ":neg" else ":pos"))
  | "f_trunc", [a] => do let a ← F64.parseHex? a; pure (ansF op impl (F64.trunc a) (if a.sign then ":neg" else ":pos"))
  | "f_round", [a] => do let a ← F64.parseHex? a; pure (ansF op impl (F64.round a) (if a.sign then ":neg" else ":pos"))
  | "f_powi", [a, p] => do
    let a ← F64.parseHex? a; let p ← p.toInt?
    pure (ansF op impl (F64.powi a p) (if p < 0 then ":recip" else ""))
  | "f_lt", [a, b] => do
    let a ← F64.parseHex? a; let b ← F64.parseHex? b
    pure (ansI op impl (if F64.lt a b then 1 else 0) (bool01 (F64.lt a b)))
  | "f_le", [a, b] => do
    let a ← F64.parseHex? a; let b ← F64.parseHex? b
    pure (ansI op impl (if F64.le a b then 1 else 0) (bool01 (F64.le a b)))
  | "f_gt", [a, b] => do
    let a ← F64.parseHex? a; let b ← F64.parseHex? b
    pure (ansI op impl (if F64.gt a b then 1 else 0) (bool01 (F64.gt a b)))
  | "f_ge", [a, b] => do
    let a ← F64.parseHex? a; let b ← F64.parseHex? b
    pure (ansI op impl (if F64.ge a b then 1 else 0) (bool01 (F64.ge a b)))
  | "f_eq", [a, b] => do
    let a ← F64.parseHex? a; let b ← F64.parseHex? b
    pure (ansI op impl (if F64.eq a b then 1 else 0) (bool01 (F64.eq a b)))
  | "f_as_i64", [a] => do
    let a ← F64.parseHex? a
    pure (ansI op impl (F64.toI64 a) (satTag (-9223372036854775808) 9223372036854775807 a))
  | "f_as_i128", [a] => do
    let a ← F64.parseHex? a
    pure (ansI op impl (F64.toI128 a)
      (satTag (-170141183460469231731687303715884105728) 170141183460469231731687303715884105727 a))
  | "f_as_u64", [a] => do
    let a ← F64.parseHex? a
    pure (ansI op impl (F64.toU64 a) (satTag 0 18446744073709551615 a))
  | "f_as_i32", [a] => do
    let a ← F64.parseHex? a
    pure (ansI op impl (F64.toI32 a) (satTag (-2147483648) 2147483647 a))
  | "f_as_u8", [a] => do
    let a ← F64.parseHex? a
    pure (ansI op impl (F64.toU8 a) (satTag 0 255 a))
  | "f_as_u16", [a] => do
    let a ← F64.parseHex? a
    pure (ansI op impl (F64.toU16 a) (satTag 0 65535 a))
  | "f_from_i64", [n] | "f_from_u64", [n] | "f_from_i128", [n] | "f_from_i16", [n] => do
    let n ← n.toInt?
    pure (ansF op impl (F64.ofInt n) (exactTag (n : Rat) (F64.ofInt n)))
  | _, _ => none

end Hifi.Drive.SoftF64
