-- Root of the `Hifi` library: every property file (which pulls in model, specs and lemmas).
import Hifi.Props.C01
