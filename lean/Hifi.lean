-- Root of the `Hifi` library: every property file (which pulls in model, specs and lemmas).
import Hifi.Props.C01
import Hifi.Props.C02
import Hifi.Props.C03
import Hifi.Props.C14
import Hifi.Props.C05
import Hifi.Props.C06
