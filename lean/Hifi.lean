-- This module serves as the root of the `Hifi` library.
-- Import modules here that should be built as part of the library.
import Hifi.Basic
