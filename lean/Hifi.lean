-- Root of the `Hifi` library: every property file (which pulls in model, specs and lemmas).
import Hifi.Props.C01
import Hifi.Props.C02
import Hifi.Props.C03
import Hifi.Props.C14
import Hifi.Props.C05
import Hifi.Props.C06
import Hifi.Props.C04
import Hifi.Props.C12
import Hifi.Props.C15
import Hifi.Props.C16
import Hifi.Props.C20
import Hifi.Props.C07
import Hifi.Props.C17
import Hifi.Props.C08
import Hifi.Props.C11
import Hifi.Props.C13Duration
import Hifi.Props.C09
