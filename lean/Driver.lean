import Hifi.Drive.Duration
import Hifi.Drive.Epoch
import Hifi.Drive.Dynamical
import Hifi.Drive.Views
import Hifi.Drive.Calendar
import Hifi.Drive.DurText
import Hifi.Drive.SoftF64
import Hifi.Drive.DurFloat
import Hifi.Drive.EpochText
import Hifi.Drive.Efmt
/-
  `driver`: reads `op arg… => impl-result` lines on stdin, answers one line per input:
  `<model result>\t<spec verdict on the impl result>\t<defect tags>\t<branch tag>`.
-/
open Hifi Hifi.Proto

def answer (line : String) : String :=
  match line.splitOn " => " with
  | [lhs, rhs] =>
    match (lhs.trimAscii.toString.splitOn " ").filter (· ≠ "") with
    | op :: args =>
      let impl := parseImpl rhs
      let r := (Hifi.Drive.Duration.handle op args impl) <|> (Hifi.Drive.Epoch.handleConv op args impl) <|> (Hifi.Drive.Epoch.handleOps op args impl) <|> (Hifi.Drive.Epoch.handleMore op args impl) <|> (Hifi.Drive.Dynamical.handle op args impl) <|> (Hifi.Drive.Views.handle op args impl) <|> (Hifi.Drive.Calendar.handle op args impl) <|> (Hifi.Drive.DurText.handle op args impl) <|> (Hifi.Drive.SoftF64.handle op args impl) <|> (Hifi.Drive.DurFloat.handle op args impl) <|> (Hifi.Drive.EpochText.handle op args impl) <|> (Hifi.Drive.Efmt.handle op args impl)
      match r with
      | some a => a.render
      | none => "bad-op\tna\t-\t-"
    | [] => "bad-op\tna\t-\t-"
  | _ => "bad-line\tna\t-\t-"

partial def loop (h : IO.FS.Stream) (out : IO.FS.Stream) : IO Unit := do
  let line ← h.getLine
  if line.isEmpty then return ()
  out.putStrLn (answer (line.trimAsciiEnd.toString))
  loop h out

def main : IO Unit := do
  let stdin ← IO.getStdin
  let stdout ← IO.getStdout
  loop stdin stdout
