//! Text encodings shared by the generator and the executor.
use hifitime::{Duration, Epoch, TimeScale, Unit, Weekday};

pub fn d2s(d: Duration) -> String {
    let (c, ns) = d.to_parts();
    format!("{}:{}", c, ns)
}

/// Builds a duration from already-canonical parts (the protocol only carries canonical parts).
pub fn s2d(s: &str) -> Duration {
    let mut it = s.split(':');
    let c: i16 = it.next().unwrap().parse().unwrap();
    let ns: u64 = it.next().unwrap().parse().unwrap();
    Duration::from_parts(c, ns)
}

pub const SCALES: [TimeScale; 9] = [
    TimeScale::TAI,
    TimeScale::TT,
    TimeScale::ET,
    TimeScale::TDB,
    TimeScale::UTC,
    TimeScale::GPST,
    TimeScale::GST,
    TimeScale::BDT,
    TimeScale::QZSST,
];

pub fn ts2s(ts: TimeScale) -> &'static str {
    match ts {
        TimeScale::TAI => "TAI",
        TimeScale::TT => "TT",
        TimeScale::ET => "ET",
        TimeScale::TDB => "TDB",
        TimeScale::UTC => "UTC",
        TimeScale::GPST => "GPST",
        TimeScale::GST => "GST",
        TimeScale::BDT => "BDT",
        TimeScale::QZSST => "QZSST",
        _ => "???",
    }
}

pub fn s2ts(s: &str) -> TimeScale {
    match s {
        "TAI" => TimeScale::TAI,
        "TT" => TimeScale::TT,
        "ET" => TimeScale::ET,
        "TDB" => TimeScale::TDB,
        "UTC" => TimeScale::UTC,
        "GPST" => TimeScale::GPST,
        "GST" => TimeScale::GST,
        "BDT" => TimeScale::BDT,
        "QZSST" => TimeScale::QZSST,
        _ => panic!("bad time scale {s}"),
    }
}

pub fn e2s(e: Epoch) -> String {
    let (c, ns) = e.duration.to_parts();
    format!("{}:{}:{}", c, ns, ts2s(e.time_scale))
}

pub fn s2e(s: &str) -> Epoch {
    let mut it = s.split(':');
    let c: i16 = it.next().unwrap().parse().unwrap();
    let ns: u64 = it.next().unwrap().parse().unwrap();
    let ts = s2ts(it.next().unwrap());
    Epoch::from_duration(Duration::from_parts(c, ns), ts)
}

pub const UNITS: [(Unit, &str); 9] = [
    (Unit::Nanosecond, "ns"),
    (Unit::Microsecond, "us"),
    (Unit::Millisecond, "ms"),
    (Unit::Second, "s"),
    (Unit::Minute, "min"),
    (Unit::Hour, "h"),
    (Unit::Day, "d"),
    (Unit::Week, "wk"),
    (Unit::Century, "cy"),
];

pub fn u2s(u: Unit) -> &'static str {
    UNITS.iter().find(|(x, _)| *x == u).unwrap().1
}

pub fn s2u(s: &str) -> Unit {
    UNITS
        .iter()
        .find(|(_, n)| *n == s)
        .unwrap_or_else(|| panic!("bad unit {s}"))
        .0
}

pub fn f2s(x: f64) -> String {
    format!("{:016x}", x.to_bits())
}

pub fn s2f(s: &str) -> f64 {
    f64::from_bits(u64::from_str_radix(s, 16).unwrap())
}

pub fn str2hex(s: &str) -> String {
    if s.is_empty() {
        return "-".to_string();
    }
    let mut o = String::with_capacity(s.len() * 2);
    for b in s.as_bytes() {
        o.push_str(&format!("{:02x}", b));
    }
    o
}

pub fn hex2str(h: &str) -> String {
    if h == "-" {
        return String::new();
    }
    let bytes: Vec<u8> = (0..h.len() / 2)
        .map(|i| u8::from_str_radix(&h[2 * i..2 * i + 2], 16).unwrap())
        .collect();
    String::from_utf8(bytes).expect("protocol strings are valid UTF-8")
}

pub fn wd2i(w: Weekday) -> u8 {
    u8::from(w)
}

pub fn i2wd(i: u8) -> Weekday {
    Weekday::from(i)
}

pub fn b2s(b: bool) -> &'static str {
    if b {
        "1"
    } else {
        "0"
    }
}
