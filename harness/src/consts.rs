//! Dumps constants and tables of the linked hifitime as JSON (input of tools/gen_tables.py).
pub fn dump() {
    use hifitime::*;
    let mut m = serde_json::Map::new();
    macro_rules! put_u {
        ($name:ident) => {
            m.insert(stringify!($name).to_string(), serde_json::json!(($name as u128).to_string()));
        };
    }
    put_u!(NANOSECONDS_PER_MICROSECOND);
    put_u!(NANOSECONDS_PER_MILLISECOND);
    put_u!(NANOSECONDS_PER_SECOND);
    put_u!(NANOSECONDS_PER_MINUTE);
    put_u!(NANOSECONDS_PER_HOUR);
    put_u!(NANOSECONDS_PER_DAY);
    put_u!(NANOSECONDS_PER_CENTURY);
    put_u!(DAYS_PER_CENTURY_U64);
    put_u!(DAYS_PER_WEEK_I64);
    let parts = |d: Duration| {
        let (c, ns) = d.to_parts();
        serde_json::json!([c.to_string(), ns.to_string()])
    };
    m.insert("DURATION_MIN".into(), parts(Duration::MIN));
    m.insert("DURATION_MAX".into(), parts(Duration::MAX));
    m.insert("DURATION_ZERO".into(), parts(Duration::ZERO));
    m.insert("DURATION_EPSILON".into(), parts(Duration::EPSILON));
    m.insert("DURATION_MIN_NEGATIVE".into(), parts(Duration::MIN_NEGATIVE));
    // unit factors as observed through the public API (1 * unit)
    let mut units = serde_json::Map::new();
    for (u, n) in crate::codec::UNITS.iter() {
        units.insert(n.to_string(), serde_json::json!((*u * 1i64).total_nanoseconds().to_string()));
    }
    m.insert("UNIT_NS".into(), serde_json::Value::Object(units));
    // f64 constants of src/lib.rs behind the JD / MJD views (C17), as IEEE-754 bit patterns, and their sum as
    // the code forms it (`MJD_J1900 + MJD_OFFSET`, an f64 addition) — tools/gen_float.py writes Gen/ViewsConsts.lean
    let mut vf = serde_json::Map::new();
    macro_rules! put_fbits {
        ($name:ident) => {
            vf.insert(stringify!($name).to_string(), serde_json::json!(format!("{:016x}", ($name as f64).to_bits())));
        };
    }
    put_fbits!(MJD_J1900);
    put_fbits!(MJD_OFFSET);
    put_fbits!(MJD_J2000);
    put_fbits!(JD_J1900);
    put_fbits!(JD_J2000);
    vf.insert(
        "MJD_J1900_PLUS_MJD_OFFSET".to_string(),
        serde_json::json!(format!("{:016x}", (std::hint::black_box(MJD_J1900) + std::hint::black_box(MJD_OFFSET)).to_bits())),
    );
    m.insert("VIEWS_F64_CONSTS".into(), serde_json::Value::Object(vf));
    crate::props::dump_consts(&mut m);
    println!("{}", serde_json::to_string_pretty(&serde_json::Value::Object(m)).unwrap());
}
