//! SplitMix64: every random choice of a run derives from one seed.
pub struct Rng(pub u64);

impl Rng {
    pub fn new(seed: u64) -> Self {
        // scramble the seed with the SplitMix finaliser: with a linear map, consecutive seeds would give
        // the same stream shifted by one draw (next() adds the same constant)
        let mut z = seed.wrapping_add(0x9E3779B97F4A7C15);
        z = (z ^ (z >> 30)).wrapping_mul(0xBF58476D1CE4E5B9);
        z = (z ^ (z >> 27)).wrapping_mul(0x94D049BB133111EB);
        Rng(z ^ (z >> 31))
    }
    pub fn next(&mut self) -> u64 {
        self.0 = self.0.wrapping_add(0x9E3779B97F4A7C15);
        let mut z = self.0;
        z = (z ^ (z >> 30)).wrapping_mul(0xBF58476D1CE4E5B9);
        z = (z ^ (z >> 27)).wrapping_mul(0x94D049BB133111EB);
        z ^ (z >> 31)
    }
    /// uniform in 0..n (n > 0)
    pub fn below(&mut self, n: u64) -> u64 {
        ((self.next() as u128 * n as u128) >> 64) as u64
    }
    pub fn range_i64(&mut self, lo: i64, hi: i64) -> i64 {
        let span = (hi as i128 - lo as i128 + 1) as u128;
        let r = ((self.next() as u128) << 64 | self.next() as u128) % span;
        (lo as i128 + r as i128) as i64
    }
    pub fn pick<'a, T>(&mut self, xs: &'a [T]) -> &'a T {
        &xs[self.below(xs.len() as u64) as usize]
    }
    pub fn chance(&mut self, num: u64, den: u64) -> bool {
        self.below(den) < num
    }
}
