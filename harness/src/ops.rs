//! Executor: one protocol op = one call into the real hifitime.
pub fn exec(op: &str, args: &[&str]) -> Option<String> {
    crate::props::exec(op, args)
}
