//! A miniature serde data format that is NOT human readable (what postcard, bincode, rmp ... report through
//! `is_human_readable()`): one scalar or one string per value.  Used to round-trip `Duration` and `Epoch` through a
//! format other than serde_json ("deserializing the serialized form returns the identical value" is not a statement about
//! JSON only).  The format itself was written by a seeding agent for its demonstration (seeded change C11-8) and is
//! reused here unchanged.
#![allow(dead_code)]
use core::fmt;
use serde::de::{self, Deserialize, Visitor};
use serde::ser::{self, Impossible, Serialize};

#[derive(Clone, Debug, PartialEq)]
enum Token {
    Bool(bool),
    Signed(i128),
    Unsigned(u128),
    Float(f64),
    Text(String),
    Bytes(Vec<u8>),
    Unit,
}

#[derive(Debug)]
struct FormatError(String);

impl fmt::Display for FormatError {
    fn fmt(&self, f: &mut fmt::Formatter) -> fmt::Result {
        write!(f, "{}", self.0)
    }
}

impl std::error::Error for FormatError {}

impl ser::Error for FormatError {
    fn custom<T: fmt::Display>(msg: T) -> Self {
        Self(msg.to_string())
    }
}

impl de::Error for FormatError {
    fn custom<T: fmt::Display>(msg: T) -> Self {
        Self(msg.to_string())
    }
}

struct BinarySerializer;

macro_rules! scalar {
    ($name:ident, $ty:ty, $variant:ident, $conv:ty) => {
        fn $name(self, v: $ty) -> Result<Token, FormatError> {
            Ok(Token::$variant(v as $conv))
        }
    };
}

fn unsupported<T>() -> Result<T, FormatError> {
    Err(FormatError("compound values are not supported".to_string()))
}

impl ser::Serializer for BinarySerializer {
    type Ok = Token;
    type Error = FormatError;
    type SerializeSeq = Impossible<Token, FormatError>;
    type SerializeTuple = Impossible<Token, FormatError>;
    type SerializeTupleStruct = Impossible<Token, FormatError>;
    type SerializeTupleVariant = Impossible<Token, FormatError>;
    type SerializeMap = Impossible<Token, FormatError>;
    type SerializeStruct = Impossible<Token, FormatError>;
    type SerializeStructVariant = Impossible<Token, FormatError>;

    fn is_human_readable(&self) -> bool {
        false
    }

    scalar!(serialize_i8, i8, Signed, i128);
    scalar!(serialize_i16, i16, Signed, i128);
    scalar!(serialize_i32, i32, Signed, i128);
    scalar!(serialize_i64, i64, Signed, i128);
    scalar!(serialize_i128, i128, Signed, i128);
    scalar!(serialize_u8, u8, Unsigned, u128);
    scalar!(serialize_u16, u16, Unsigned, u128);
    scalar!(serialize_u32, u32, Unsigned, u128);
    scalar!(serialize_u64, u64, Unsigned, u128);
    scalar!(serialize_u128, u128, Unsigned, u128);
    scalar!(serialize_f32, f32, Float, f64);
    scalar!(serialize_f64, f64, Float, f64);

    fn serialize_bool(self, v: bool) -> Result<Token, FormatError> {
        Ok(Token::Bool(v))
    }
    fn serialize_char(self, v: char) -> Result<Token, FormatError> {
        Ok(Token::Text(v.to_string()))
    }
    fn serialize_str(self, v: &str) -> Result<Token, FormatError> {
        Ok(Token::Text(v.to_string()))
    }
    fn serialize_bytes(self, v: &[u8]) -> Result<Token, FormatError> {
        Ok(Token::Bytes(v.to_vec()))
    }
    fn serialize_none(self) -> Result<Token, FormatError> {
        Ok(Token::Unit)
    }
    fn serialize_some<T: ?Sized + Serialize>(self, value: &T) -> Result<Token, FormatError> {
        value.serialize(self)
    }
    fn serialize_unit(self) -> Result<Token, FormatError> {
        Ok(Token::Unit)
    }
    fn serialize_unit_struct(self, _name: &'static str) -> Result<Token, FormatError> {
        Ok(Token::Unit)
    }
    fn serialize_unit_variant(
        self,
        _name: &'static str,
        _index: u32,
        variant: &'static str,
    ) -> Result<Token, FormatError> {
        Ok(Token::Text(variant.to_string()))
    }
    fn serialize_newtype_struct<T: ?Sized + Serialize>(
        self,
        _name: &'static str,
        value: &T,
    ) -> Result<Token, FormatError> {
        value.serialize(self)
    }
    fn serialize_newtype_variant<T: ?Sized + Serialize>(
        self,
        _name: &'static str,
        _index: u32,
        _variant: &'static str,
        _value: &T,
    ) -> Result<Token, FormatError> {
        unsupported()
    }
    fn serialize_seq(self, _len: Option<usize>) -> Result<Self::SerializeSeq, FormatError> {
        unsupported()
    }
    fn serialize_tuple(self, _len: usize) -> Result<Self::SerializeTuple, FormatError> {
        unsupported()
    }
    fn serialize_tuple_struct(
        self,
        _name: &'static str,
        _len: usize,
    ) -> Result<Self::SerializeTupleStruct, FormatError> {
        unsupported()
    }
    fn serialize_tuple_variant(
        self,
        _name: &'static str,
        _index: u32,
        _variant: &'static str,
        _len: usize,
    ) -> Result<Self::SerializeTupleVariant, FormatError> {
        unsupported()
    }
    fn serialize_map(self, _len: Option<usize>) -> Result<Self::SerializeMap, FormatError> {
        unsupported()
    }
    fn serialize_struct(
        self,
        _name: &'static str,
        _len: usize,
    ) -> Result<Self::SerializeStruct, FormatError> {
        unsupported()
    }
    fn serialize_struct_variant(
        self,
        _name: &'static str,
        _index: u32,
        _variant: &'static str,
        _len: usize,
    ) -> Result<Self::SerializeStructVariant, FormatError> {
        unsupported()
    }
}

struct BinaryDeserializer(Token);

impl<'de> de::Deserializer<'de> for BinaryDeserializer {
    type Error = FormatError;

    fn is_human_readable(&self) -> bool {
        false
    }

    fn deserialize_any<V: Visitor<'de>>(self, visitor: V) -> Result<V::Value, FormatError> {
        match self.0 {
            Token::Bool(v) => visitor.visit_bool(v),
            Token::Signed(v) => match i64::try_from(v) {
                Ok(v) => visitor.visit_i64(v),
                Err(_) => visitor.visit_i128(v),
            },
            Token::Unsigned(v) => match u64::try_from(v) {
                Ok(v) => visitor.visit_u64(v),
                Err(_) => visitor.visit_u128(v),
            },
            Token::Float(v) => visitor.visit_f64(v),
            Token::Text(v) => visitor.visit_string(v),
            Token::Bytes(v) => visitor.visit_byte_buf(v),
            Token::Unit => visitor.visit_unit(),
        }
    }

    serde::forward_to_deserialize_any! {
        bool i8 i16 i32 i64 i128 u8 u16 u32 u64 u128 f32 f64 char str string
        bytes byte_buf option unit unit_struct newtype_struct seq tuple
        tuple_struct map struct enum identifier ignored_any
    }
}


/// value -> token -> value through the non-human-readable format; Err(text) if either direction fails
pub fn round_trip<T: Serialize + for<'de> Deserialize<'de>>(v: &T) -> Result<T, String> {
    let token = v.serialize(BinarySerializer).map_err(|e| e.to_string())?;
    T::deserialize(BinaryDeserializer(token)).map_err(|e| e.to_string())
}
