//! Shared input generators (built from the repository's own types around structural boundaries).
use crate::props;
use crate::rng::Rng;
use std::io::Write;

pub const NPC: i128 = hifitime::NANOSECONDS_PER_CENTURY as i128;
pub const DMIN: i128 = -32768 * NPC;
pub const DMAX: i128 = 32768 * NPC;

/// Canonical (centuries, nanoseconds) parts of a total nanosecond count, clamped to the range.
/// Deliberately independent of hifitime's own arithmetic.
pub fn parts_of_total(t: i128) -> (i64, u128) {
    let t = t.clamp(DMIN, DMAX);
    if t == DMAX {
        return (32767, NPC as u128);
    }
    (t.div_euclid(NPC) as i64, t.rem_euclid(NPC) as u128)
}

pub fn dstr(t: i128) -> String {
    let (c, ns) = parts_of_total(t);
    format!("{}:{}", c, ns)
}

const KS: [i128; 21] = [
    -32768, -32767, -32766, -16384, -300, -4, -3, -2, -1, 0, 1, 2, 3, 4, 100, 300, 16384, 32765,
    32766, 32767, 32768,
];

pub fn small_delta(r: &mut Rng) -> i128 {
    match r.below(12) {
        0 => 0,
        1 => 1,
        2 => 2,
        3 => NPC / 2,
        4 => NPC - 1,
        5 => NPC - 2,
        6 => NPC / 4,
        7 => r.below(1000) as i128,
        8 => r.below(86_400_000_000_000) as i128,
        9 => (r.below(36525) as i128) * 86_400_000_000_000,
        10 => 1_000_000_000 * (r.below(100_000) as i128),
        _ => r.below(NPC as u64) as i128,
    }
}

/// A total nanosecond count from the duration lattice of DESIGN §4.2.
pub fn total(r: &mut Rng) -> i128 {
    let sgn: i128 = if r.chance(1, 2) { 1 } else { -1 };
    match r.below(16) {
        0 => DMIN + small_delta(r),
        1 => DMAX - small_delta(r),
        2 => sgn * small_delta(r),
        3 => i64::MAX as i128 + sgn * (r.below(4) as i128),
        4 => i64::MIN as i128 + sgn * (r.below(4) as i128),
        5 | 6 | 7 | 8 => {
            let k = *r.pick(&KS);
            k * NPC + sgn * small_delta(r)
        }
        9 | 10 => {
            let k = r.range_i64(-32768, 32767) as i128;
            k * NPC + sgn * small_delta(r)
        }
        11 => {
            // within +/- 3 centuries, uniform
            r.range_i64(-(NPC as i64) * 2, NPC as i64 * 2) as i128 * 3 / 2
        }
        12 => {
            // "human" magnitudes: up to 10 000 years at ns resolution
            sgn * (r.below(10_000 * 365) as i128 * 86_400_000_000_000
                + r.below(86_400_000_000_000) as i128)
        }
        13 => sgn * (r.below(1_000_000_000_000) as i128),
        _ => {
            let k = r.range_i64(-32768, 32767) as i128;
            k * NPC + r.below(NPC as u64) as i128
        }
    }
    .clamp(DMIN, DMAX)
}

/// A second operand correlated with the first so that sums/differences land on boundaries.
pub fn partner(r: &mut Rng, a: i128) -> i128 {
    let sgn: i128 = if r.chance(1, 2) { 1 } else { -1 };
    let d = match r.below(6) {
        0 => 0,
        1 => 1,
        2 => 2,
        3 => r.below(1000) as i128,
        4 => NPC - 1,
        _ => r.below(NPC as u64) as i128,
    };
    match r.below(12) {
        // the sum (or difference) is the NEGATION of the first operand: `Duration ==` holds between d and -d
        // within a century of zero, so an "unchanged?" test written with `==` misfires there
        11 => (if r.chance(1, 2) { -2 * a } else { 2 * a }) + if r.chance(1, 2) { 0 } else { sgn * d.min(2) },
        10 => {
            // word-size aliases: equal to +/-a (or nearly) once truncated to 64, 63 or 32 bits
            let k = *r.pick(&[-3i128, -2, -1, 1, 2, 3]);
            let w = *r.pick(&[1i128 << 64, 1i128 << 63, 1i128 << 32]);
            let base = if r.chance(1, 2) { a } else { -a };
            base + k * w + if r.chance(1, 2) { 0 } else { sgn * d.min(2) }
        }
        0 => -a + sgn * d,
        1 => a + sgn * d,
        2 => DMAX - a + sgn * d,
        3 => DMIN - a + sgn * d,
        4 => a - DMAX + sgn * d,
        5 => a - DMIN + sgn * d,
        6 => {
            let k = *r.pick(&KS);
            k * NPC - a + sgn * d
        }
        7 => {
            let k = *r.pick(&KS);
            a - k * NPC + sgn * d
        }
        _ => total(r),
    }
    .clamp(DMIN, DMAX)
}

pub fn factor_i64(r: &mut Rng) -> i64 {
    let npc = NPC as i64;
    match r.below(14) {
        0 => 0,
        1 => 1,
        2 => -1,
        3 => *r.pick(&[2i64, -2, 3, -3, 7, -7, 10, -10, 1000, -1000]),
        4 => i64::MAX - r.below(3) as i64,
        5 => i64::MIN + r.below(3) as i64,
        6 => *r.pick(&[npc, -npc, npc + 1, npc - 1, -npc - 1, -npc + 1, 2 * npc, -2 * npc, -2 * npc - 1, 2 * npc + 1]),
        7 | 8 => r.range_i64(-1000, 1000),
        9 => r.range_i64(-1_000_000_000_000, 1_000_000_000_000),
        10 => r.range_i64(-40000, 40000),
        _ => r.next() as i64,
    }
}

pub fn unit_name(r: &mut Rng) -> &'static str {
    crate::codec::UNITS[r.below(9) as usize].1
}

pub fn scale_name(r: &mut Rng) -> &'static str {
    crate::codec::ts2s(crate::codec::SCALES[r.below(9) as usize])
}

/// The seed of the current `hv inputs` run (exhaustive enumerations are sharded by it).
pub static SEED: std::sync::atomic::AtomicU64 = std::sync::atomic::AtomicU64::new(0);

pub fn inputs(prop: &str, seed: u64, n: usize, tier: &str, out: &mut dyn Write) {
    SEED.store(seed, std::sync::atomic::Ordering::Relaxed);
    let mut r = Rng::new(seed ^ props::salt(prop));
    props::inputs(prop, &mut r, n, tier, out);
}
