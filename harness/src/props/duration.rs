//! C01 C02 C03 C14: Duration arithmetic, integer round trips, ordering, floor/ceil/round.
use crate::codec::*;
use crate::gen::*;
use crate::rng::Rng;
use hifitime::{Duration, Unit};
use std::cmp::Ordering;
use std::io::Write;

pub fn inputs_c01(r: &mut Rng, n: usize, _tier: &str, out: &mut dyn Write) {
    // boundary block: the bounds (MAX is the only value with a full century in its nanoseconds field), zero and the
    // century crossings, against whole numbers of centuries and single nanoseconds, both orders, + and -
    // (a seeded change that left MAX - (k centuries, 0 ns) non-canonical was hit by one of 20 000 random cases)
    let mut n = n;
    if n >= 2000 {
        let edge: [i128; 11] = [DMAX, DMAX - 1, DMIN, DMIN + 1, 0, 1, -1, NPC, -NPC, NPC - 1, -NPC + 1];
        let other: [i128; 14] = [NPC, 2 * NPC, 100 * NPC, 32766 * NPC, 32767 * NPC, 32768 * NPC, -NPC, -2 * NPC, -32767 * NPC, -32768 * NPC, 1, -1, NPC - 1, -NPC + 1];
        for a in edge {
            for b in other {
                writeln!(out, "add {} {}", dstr(a), dstr(b)).unwrap();
                writeln!(out, "sub {} {}", dstr(a), dstr(b)).unwrap();
                writeln!(out, "sub {} {}", dstr(b), dstr(a)).unwrap();
                n -= 3;
            }
        }
    }
    // products just INSIDE the bounds: the exact product of Duration x i64 is representable but within a few tens of
    // milliseconds (a relative 2^-51) of MAX or MIN, for small and large factors of either sign -- an estimate of the
    // product in binary64 cannot tell them from an overflow (seeded change C01-8: an f64 early-out `to_seconds() * q >
    // MAX.to_seconds()`, which fires for about one such product in seventy); also sums and differences that close to a bound
    if n >= 2000 {
        for i in 0..700usize {
            let q: i64 = match i % 7 {
                0 => 2 + r.below(9) as i64,
                1 => 2 + r.below(1000) as i64,
                2 => 165,
                3 => 2 + r.below(1_000_000) as i64,
                4 => 1 + r.below(1 << 40) as i64,
                5 => 3,
                _ => 2 + r.below(100_000) as i64,
            } * if i % 3 == 0 { -1 } else { 1 };
            let slack = match i % 4 { 0 => r.below(1_000), 1 => r.below(1_000_000), 2 => r.below(50_000_000), _ => r.below(400) } as i128;
            let target = if i % 2 == 0 { DMAX - slack } else { DMIN + slack };
            let d = target / q as i128; // truncation keeps |d * q| <= |target|: representable
            if d <= -NPC {
                continue; // operands below -1 century are the recorded finding D1: not aimed at here
            }
            writeln!(out, "muli {} {}", dstr(d), q).unwrap();
            if i % 5 == 0 {
                writeln!(out, "imul {} {}", q, dstr(d)).unwrap();
            }
            if i % 10 == 1 {
                let a = target / 2 + r.below(1_000_000) as i128;
                writeln!(out, "add {} {}", dstr(a), dstr(target - a)).unwrap();
                writeln!(out, "sub {} {}", dstr(a), dstr(a - target)).unwrap();
            }
            n = n.saturating_sub(1);
        }
    }
    // boundary block for Mul<i64>: factor pairs whose exact product is 2^63 or 2^64 ns (the i64 / u64 limits inside the
    // implementation), one either side, all sign combinations (a seeded change wrong at exactly +2^63 was hit once)
    if n >= 2000 {
        for a in [0u32, 1, 20, 31, 32, 40, 62, 63] {
            for tgt in [63u32, 64] {
                if a > tgt || tgt - a > 62 {
                    continue;
                }
                for dd in [-1i128, 0, 1] {
                    for (sd, sq) in [(1i128, 1i64), (-1, 1), (1, -1), (-1, -1)] {
                        let d = sd * ((1i128 << a) + dd);
                        let q = sq * (1i64 << (tgt - a));
                        writeln!(out, "muli {} {}", dstr(d), q).unwrap();
                        writeln!(out, "imul {} {}", q, dstr(d)).unwrap();
                        n -= 2;
                    }
                }
            }
        }
    }
    // result-on-a-century block for Mul<i64> / Div<i64>: products and quotients that are an exact whole number of
    // centuries (where the (centuries, nanoseconds) form of the RESULT rolls over), one nanosecond either side, all sign
    // combinations (a seeded change that built negative products by hand left (-k-1, one century) for them)
    if n >= 2000 {
        for u in [86_400_000_000_000i128, 21_600_000_000_000, 3_600_000_000_000, 60_000_000_000, 1_000_000_000, 1_000_000, 1] {
            for m in [1i128, 2, 3, 5] {
                for (sd, sq) in [(1i128, 1i128), (-1, 1), (1, -1), (-1, -1)] {
                    let q = sq * m * (NPC / u);
                    if q.abs() < i64::MAX as i128 {
                        for dd in [-1i128, 0, 1] {
                            writeln!(out, "muli {} {}", dstr(sd * u + dd), q).unwrap();
                            writeln!(out, "imul {} {}", q, dstr(sd * u + dd)).unwrap();
                            n -= 2;
                        }
                    }
                    // quotient: (m centuries x k) / k
                    let k = sq * (2 + (u % 7));
                    writeln!(out, "divi {} {}", dstr(sd * m * NPC * k.abs()), k).unwrap();
                    writeln!(out, "divi {} {}", dstr(sd * m * NPC * k.abs() + sd), k).unwrap();
                    n -= 2;
                }
            }
        }
    }
    for _ in 0..n {
        let a = total(r);
        match r.below(16) {
            0 | 1 | 2 => writeln!(out, "add {} {}", dstr(a), dstr(partner(r, a))).unwrap(),
            3 | 4 | 5 => writeln!(out, "sub {} {}", dstr(a), dstr(partner(r, a))).unwrap(),
            6 => writeln!(out, "neg {}", dstr(a)).unwrap(),
            7 => writeln!(out, "abs {}", dstr(a)).unwrap(),
            8 | 9 => writeln!(out, "muli {} {}", dstr(a), factor_i64(r)).unwrap(),
            10 => writeln!(out, "imul {} {}", factor_i64(r), dstr(a)).unwrap(),
            11 | 12 => {
                let mut q = factor_i64(r);
                if q == 0 {
                    q = 1;
                }
                writeln!(out, "divi {} {}", dstr(a), q).unwrap()
            }
            13 => writeln!(out, "{} {} {}", *r.pick(&["addu", "addassign_u"]), dstr(a), unit_name(r)).unwrap(),
            14 => writeln!(out, "{} {} {}", *r.pick(&["subu", "subassign_u"]), dstr(a), unit_name(r)).unwrap(),
            _ => {
                let op = *r.pick(&["addassign", "subassign"]);
                writeln!(out, "{} {} {}", op, dstr(a), dstr(partner(r, a))).unwrap()
            }
        }
    }
}

fn raw_parts(r: &mut Rng) -> (i64, u64) {
    let c = match r.below(6) {
        0 => *r.pick(&[-32768i64, -32767, -3, -2, -1, 0, 1, 2, 3, 32765, 32766, 32767]),
        _ => r.range_i64(-32768, 32767),
    };
    let npc = NPC as u64;
    let ns = match r.below(8) {
        0 => *r.pick(&[0u64, 1, npc - 1, npc, npc + 1, 2 * npc - 1, 2 * npc, 2 * npc + 1, 5 * npc, 5 * npc + 1, u64::MAX, u64::MAX - 1]),
        1 => r.below(6) * npc + r.below(3),
        2 => r.next(),
        _ => r.below(npc),
    };
    (c, ns)
}

/// Word-size aliases in the QUOTIENT domain: counts whose number of whole units (centuries, days, seconds, ...) is
/// j + m * 2^k for a small j -- a quotient narrowed with `as i64 / as i32 / as i16 / as u8` before its range is tested
/// wraps to the small j there, and a saturating result turns into an ordinary value (seeded change C02-8: the century
/// quotient of `from_total_nanoseconds` cast to i64 before the i16 test, wrong only around +/- m * 2^64 centuries).
fn quotient_alias(r: &mut Rng) -> i128 {
    let unit: i128 = *r.pick(&[NPC, 86_400_000_000_000, 3_600_000_000_000, 60_000_000_000, 1_000_000_000, 1_000_000, 1_000]);
    let k: u32 = *r.pick(&[8u32, 15, 16, 31, 32, 63, 64]);
    let m: i128 = *r.pick(&[1i128, -1, 2, -2, 3]);
    let j: i128 = match r.below(4) {
        0 => 0,
        1 => r.range_i64(-3, 3) as i128,
        2 => r.range_i64(-32768, 32767) as i128,
        _ => *r.pick(&[32767i128, 32768, -32768, -32769]),
    };
    let rem: i128 = match r.below(3) {
        0 => 0,
        1 => r.range_i64(0, 5) as i128,
        _ => (r.next() as i128).rem_euclid(unit),
    };
    m.checked_shl(k)
        .and_then(|q| q.checked_add(j))
        .and_then(|q| q.checked_mul(unit))
        .and_then(|t| t.checked_add(rem))
        .unwrap_or(i128::MAX)
}

fn i128_total(r: &mut Rng) -> i128 {
    match r.below(12) {
        10 | 11 => quotient_alias(r),
        0 => *r.pick(&[i128::MAX, i128::MIN, i128::MAX - 1, i128::MIN + 1, 0, 1, -1]),
        1 => (r.next() as i128) << 64 | r.next() as i128,
        2 => DMAX + r.range_i64(-3, 3) as i128,
        3 => DMIN + r.range_i64(-3, 3) as i128,
        4 => (r.range_i64(-40000, 40000) as i128) * NPC + r.range_i64(-2, 2) as i128,
        _ => total(r),
    }
}

/// compose with every field at the ends of its natural (calendar-like) range and one past it: carries ripple through
/// several fields at once (36524 d 23 h 59 min 60 s is one century)
fn compose_natural_edges(out: &mut dyn Write) {
    for sign in [-1i64, 1] {
        for days in [0u64, 36_524, 36_525] {
            for hours in [0u64, 23, 24] {
                for minutes in [0u64, 59, 60] {
                    for seconds in [0u64, 59, 60] {
                        for ms in [0u64, 999, 1000] {
                            for us in [0u64, 999] {
                                for ns in [0u64, 999, 1000] {
                                    writeln!(out, "compose {} {} {} {} {} {} {} {}", sign, days, hours, minutes, seconds, ms, us, ns).unwrap();
                                }
                            }
                        }
                    }
                }
            }
        }
    }
}

pub fn inputs_c02(r: &mut Rng, n: usize, _tier: &str, out: &mut dyn Write) {
    // boundary block: raw parts at the extreme and central century counts with nanoseconds at every whole number of
    // centuries (0..5, the most a u64 holds) +/- 1 and at the u64 limit (a seeded change that mishandled
    // (i16::MAX, k centuries) exactly was hit by only one of 20 000 random cases)
    let mut n = n;
    if n >= 10_000 {
        compose_natural_edges(out);
        n -= 2916;
    }
    if n >= 1000 {
        let npc = NPC as u64;
        for c in [-32768i64, -32767, -2, -1, 0, 1, 32766, 32767] {
            for k in 0..=5u64 {
                for d in [-1i64, 0, 1] {
                    let ns = (k * npc) as i128 + d as i128;
                    if ns >= 0 && ns <= u64::MAX as i128 {
                        writeln!(out, "from_parts {} {}", c, ns).unwrap();
                        n -= 1;
                    }
                }
            }
            for ns in [u64::MAX, u64::MAX - 1] {
                writeln!(out, "from_parts {} {}", c, ns).unwrap();
                n -= 1;
            }
        }
    }
    for _ in 0..n {
        match r.below(14) {
            0 | 1 => writeln!(out, "from_total {}", i128_total(r)).unwrap(),
            2 | 3 => writeln!(out, "total {}", dstr(total(r))).unwrap(),
            4 | 5 => {
                let (c, ns) = raw_parts(r);
                writeln!(out, "from_parts {} {}", c, ns).unwrap()
            }
            6 => writeln!(out, "from_trunc {}", factor_i64(r)).unwrap(),
            7 => writeln!(out, "try_trunc {}", dstr(total(r))).unwrap(),
            8 => writeln!(out, "trunc {}", dstr(total(r))).unwrap(),
            9 | 10 => {
                let u = unit_name(r);
                let q = match r.below(4) {
                    0 => factor_i64(r),
                    1 => {
                        // near the overflow edge of this unit
                        let f = unit_factor(u);
                        let edge = (i64::MAX as i128 / f) as i64;
                        let s: i64 = if r.chance(1, 2) { 1 } else { -1 };
                        s.saturating_mul(edge.saturating_add(r.range_i64(-2, 2)))
                    }
                    2 => {
                        let f = unit_factor(u);
                        let edge = (DMAX / f).min(i64::MAX as i128) as i64;
                        let s: i64 = if r.chance(1, 2) { 1 } else { -1 };
                        s.saturating_mul(edge.saturating_add(r.range_i64(-2, 2)))
                    }
                    _ => r.range_i64(-100000, 100000),
                };
                // n * Unit::X / Unit::X * n, or the TimeUnits trait on i64 (n.days(), n.hours(), ...)
                writeln!(out, "{} {} {}", if r.chance(1, 3) { "tu_i64" } else { "unit_mul_i64" }, u, q).unwrap()
            }
            11 => {
                let sign = r.range_i64(-2, 2);
                let big = |r: &mut Rng| -> u64 {
                    match r.below(6) {
                        0 => (1u64 << 53) - 1 - r.below(3),
                        1 => r.below(1u64 << 53),
                        2 => 0,
                        _ => r.below(100_000),
                    }
                };
                let mut f: Vec<u64> = (0..7).map(|_| big(r)).collect();
                if r.chance(1, 3) {
                    // one field carries (nearly) the whole representable range, the others are small: the sum lies
                    // anywhere up to the bound, in the last representable century, or just past it
                    const FACT: [i128; 7] = [86_400_000_000_000, 3_600_000_000_000, 60_000_000_000, 1_000_000_000, 1_000_000, 1_000, 1];
                    let j = r.below(7) as usize;
                    let edge = (DMAX / FACT[j]).min(u64::MAX as i128) as u64;
                    let century = (NPC / FACT[j]).min(u64::MAX as i128) as u64;
                    for x in f.iter_mut() {
                        *x = if r.chance(1, 2) { 0 } else { r.below(1000) };
                    }
                    f[j] = match r.below(4) {
                        0 => edge - r.below(century.max(1)),
                        1 => edge.saturating_add(r.below(5)).saturating_sub(2),
                        2 => u64::MAX - r.below(3),
                        _ => r.below(edge),
                    };
                }
                writeln!(
                    out,
                    "compose {} {} {} {} {} {} {} {}",
                    sign, f[0], f[1], f[2], f[3], f[4], f[5], f[6]
                )
                .unwrap()
            }
            12 => {
                let secs = match r.below(4) {
                    0 => r.next(),
                    1 => (DMAX / 1_000_000_000) as u64 + r.below(5) - 2,
                    _ => r.below(400_000_000_000),
                };
                let nanos = match r.below(3) {
                    0 => 999_999_999,
                    1 => 0,
                    _ => r.below(1_000_000_000),
                };
                writeln!(out, "from_std {} {}", secs, nanos).unwrap()
            }
            _ => writeln!(out, "into_std {}", dstr(total(r))).unwrap(),
        }
    }
}

fn unit_factor(u: &str) -> i128 {
    match u {
        "ns" => 1,
        "us" => 1_000,
        "ms" => 1_000_000,
        "s" => 1_000_000_000,
        "min" => 60_000_000_000,
        "h" => 3_600_000_000_000,
        "d" => 86_400_000_000_000,
        "wk" => 604_800_000_000_000,
        "cy" => NPC,
        _ => unreachable!(),
    }
}

pub fn inputs_c03(r: &mut Rng, n: usize, _tier: &str, out: &mut dyn Write) {
    for i in 0..n {
        if i % 10 == 9 {
            // compare-after-arithmetic (seeded change C03-7: `+=` leaving (c, one century of ns), which the field-wise
            // order misreads): every arithmetic entry point, half of the results aimed at a whole number of centuries
            let a = total(r);
            let how = *r.pick(&["add", "sub", "addassign", "subassign", "addu", "subu", "addassign_u", "subassign_u", "neg", "abs", "from_std"]);
            if how == "from_std" {
                // (seeded change C03-9: From<std::time::Duration> building (0, ns) directly for counts that fit a u64: one
                // century and more come back un-normalised) counts from zero to beyond what a u64 of nanoseconds holds
                let v: i128 = match r.below(5) {
                    0 => r.below(NPC as u64) as i128,
                    1 => NPC * (1 + r.below(5) as i128) + r.range_i64(-2, 2) as i128,
                    2 => NPC + r.below((u64::MAX - NPC as u64) as u64) as i128,
                    3 => u64::MAX as i128 + r.range_i64(-2, 2) as i128,
                    _ => r.below(u64::MAX) as i128 * 3,
                };
                writeln!(out, "cmp_via from_std {} -", dstr(v.max(0))).unwrap();
                continue;
            }
            let k = r.range_i64(-3, 3) as i128 + if r.chance(1, 4) { r.range_i64(-32768, 32767) as i128 } else { 0 };
            let dlt = *r.pick(&[0i128, 0, 0, 1, -1]);
            match how {
                "addu" | "subu" | "addassign_u" | "subassign_u" => {
                    let u = unit_name(r);
                    let f = unit_factor(u);
                    let a2 = if r.chance(1, 2) { a } else if how == "addu" || how == "addassign_u" { k * NPC - f + dlt } else { k * NPC + f + dlt };
                    writeln!(out, "cmp_via {} {} {}", how, dstr(a2.clamp(DMIN, DMAX)), u).unwrap();
                }
                "neg" | "abs" => writeln!(out, "cmp_via {} {} -", how, dstr(if r.chance(1, 2) { a } else { k * NPC + dlt }.clamp(DMIN, DMAX))).unwrap(),
                _ => {
                    // b within one century (the usual fast-path guard) or anything; result on k centuries
                    let a2 = if r.chance(1, 2) { a } else { k * NPC + r.below(NPC as u64) as i128 };
                    let b = if r.chance(1, 3) { partner(r, a2) } else if how == "add" || how == "addassign" { k * NPC + NPC - a2.rem_euclid(NPC) + dlt - k * NPC + if r.chance(1, 2) { 0 } else { r.range_i64(-2, 2) as i128 * NPC } } else { a2.rem_euclid(NPC) + dlt + if r.chance(1, 2) { 0 } else { r.range_i64(-2, 2) as i128 * NPC } };
                    writeln!(out, "cmp_via {} {} {}", how, dstr(a2.clamp(DMIN, DMAX)), dstr(b.clamp(DMIN, DMAX))).unwrap();
                }
            }
            continue;
        }
        let a = total(r);
        let b = match r.below(9) {
            0 => a,
            1 => -a,
            2 => a + r.range_i64(-2, 2) as i128,
            3 => -a + r.range_i64(-2, 2) as i128,
            4 => a + NPC * r.range_i64(-1, 1) as i128,
            5 => NPC - a, // the shape of the zero-crossing special case away from zero
            6 => -NPC - a,
            // different counts that coincide once truncated to 64 / 63 / 32 bits
            8 => (if r.chance(1, 2) { a } else { -a }) + (*r.pick(&[-2i128, -1, 1, 2])) * (*r.pick(&[1i128 << 64, 1i128 << 63, 1i128 << 32])),
            _ => partner(r, a),
        }
        .clamp(DMIN, DMAX);
        match r.below(12) {
            0 | 1 | 2 => writeln!(out, "eq {} {}", dstr(a), dstr(b)).unwrap(),
            3 | 4 => writeln!(out, "cmp {} {}", dstr(a), dstr(b)).unwrap(),
            5 => {
                if r.chance(1, 4) {
                    // "negative < zero < positive": is_negative against the signed count
                    writeln!(out, "isneg {}", dstr(*r.pick(&[a, b, -a, 0, 1, -1]))).unwrap();
                    continue;
                }
                let op = *r.pick(&["lt", "le", "gt", "ge", "ne"]);
                writeln!(out, "{} {} {}", op, dstr(a), dstr(b)).unwrap()
            }
            6 => {
                if r.chance(1, 3) {
                    let c = partner(r, b);
                    writeln!(out, "ordfns {} {} {}", dstr(a), dstr(b), dstr(c)).unwrap();
                    continue;
                }
                let op = *r.pick(&["min", "max"]);
                writeln!(out, "{} {} {}", op, dstr(a), dstr(b)).unwrap()
            }
            7 => {
                let u = unit_name(r);
                let a2 = if r.chance(1, 2) {
                    let s: i128 = if r.chance(1, 2) { 1 } else { -1 };
                    // one unit, or a count that coincides with it once truncated to 64 / 63 / 32 bits
                    let alias = if r.chance(1, 4) { (*r.pick(&[-3i128, -2, -1, 1, 2, 3])) * (*r.pick(&[1i128 << 64, 1i128 << 63, 1i128 << 32])) } else { 0 };
                    (s * unit_factor(u) + alias + r.range_i64(-1, 1) as i128).clamp(DMIN, DMAX)
                } else {
                    a
                };
                // ... or a duration of the magnitude of ANOTHER unit (1..999 of it, +/- a little) against this one: every ordered
                // pair of units (seeded change C03-10: a fast path ranking units by their wire code, wrong for durations
                // between 1 us and 1 ms against Unit::Second only)
                let a2 = if r.chance(1, 2) {
                    let u1 = unit_name(r);
                    ((1 + r.below(999) as i128) * unit_factor(u1) / *r.pick(&[1i128, 1, 2, 3]) + r.range_i64(-1, 1) as i128) * if r.chance(1, 5) { -1 } else { 1 }
                } else {
                    a2
                }
                .clamp(DMIN, DMAX);
                let op = *r.pick(&["equ", "cmpu"]);
                writeln!(out, "{} {} {}", op, dstr(a2), u).unwrap()
            }
            8 => {
                let c = partner(r, b);
                writeln!(out, "sort3 {} {} {}", dstr(a), dstr(b), dstr(c)).unwrap()
            }
            _ => {
                // a + b > a  <=>  b > 0 (reported: result of a+b compared with a)
                writeln!(out, "addgt {} {}", dstr(a), dstr(b)).unwrap()
            }
        }
    }
}

pub fn inputs_c14(r: &mut Rng, n: usize, _tier: &str, out: &mut dyn Write) {
    for _ in 0..n {
        let a = total(r);
        let s = match r.below(10) {
            0 => 1,
            1 => -1,
            2 => {
                let u = unit_name(r);
                unit_factor(u) * r.range_i64(-3, 3) as i128
            }
            3 => {
                let u = unit_name(r);
                unit_factor(u) * r.range_i64(1, 90) as i128
            }
            4 => r.range_i64(-1_000_000, 1_000_000) as i128,
            5 => 0,
            6 => total(r),
            7 => a / (r.range_i64(1, 5) as i128) + r.range_i64(-1, 1) as i128,
            _ => {
                let s: i128 = if r.chance(1, 4) { -1 } else { 1 };
                s * (r.below(7 * 86_400_000_000_000) as i128)
            }
        }
        .clamp(DMIN, DMAX);
        // operands that are exact multiples of the step, and one off; exact TIES for round (a = k*s + s/2, even steps,
        // both signs, mostly above -1 century so that they are not all in the recorded class D1)
        let a = if r.chance(1, 5) && s != 0 {
            (a / s * s + r.range_i64(-1, 1) as i128).clamp(DMIN, DMAX)
        } else if r.chance(1, 8) && s != 0 && s % 2 == 0 {
            let k = r.range_i64(-1000, 100000) as i128;
            (k * s.abs() + s.abs() / 2).clamp(-NPC, DMAX)
        } else {
            a
        };
        match r.below(10) {
            7 | 8 | 9 => {
                // the same operations on an EPOCH act on its elapsed time in its own scale, whatever the scale
                // and also before the scale's reference epoch (negative elapsed time); steps of either sign up
                // to centuries
                const ALL9: [&str; 9] = ["TAI", "TT", "UTC", "GPST", "GST", "BDT", "QZSST", "ET", "TDB"];
                let ts = *r.pick(&ALL9);
                let op = *r.pick(&["efloor", "eceil", "eround"]);
                let e = match r.below(3) {
                    0 => a,
                    1 => -a.abs(),
                    _ => (r.range_i64(-3_652_500, 3_652_500) as i128) * 86_400_000_000_000 + r.below(86_400_000_000_000) as i128,
                };
                writeln!(out, "{} {}:{} {}", op, dstr(e), ts, dstr(s)).unwrap()
            }
            0 | 1 => writeln!(out, "floor {} {}", dstr(a), dstr(s)).unwrap(),
            2 | 3 => writeln!(out, "ceil {} {}", dstr(a), dstr(s)).unwrap(),
            4 | 5 => writeln!(out, "round {} {}", dstr(a), dstr(s)).unwrap(),
            _ => {
                // approx: also magnitudes between 1 ns and a few days, where its ms / us / s / min / h arms are taken
                let a = if r.chance(1, 2) {
                    let m: i128 = *r.pick(&[1i128, 1_000, 1_000_000, 1_000_000_000, 60_000_000_000, 3_600_000_000_000, 86_400_000_000_000]);
                    (m * r.range_i64(1, 999) as i128 + r.below(m as u64) as i128) * if r.chance(1, 3) { -1 } else { 1 }
                } else {
                    a
                };
                writeln!(out, "approx {}", dstr(a)).unwrap()
            }
        }
    }
}

fn ord2s(o: Ordering) -> &'static str {
    match o {
        Ordering::Less => "-1",
        Ordering::Equal => "0",
        Ordering::Greater => "1",
    }
}

fn okd(d: Duration) -> Option<String> {
    Some(format!("ok {}", d2s(d)))
}

pub fn exec(op: &str, a: &[&str]) -> Option<String> {
    match op {
        // ---- C01
        "add" => okd(s2d(a[0]) + s2d(a[1])),
        "sub" => okd(s2d(a[0]) - s2d(a[1])),
        "neg" => okd(-s2d(a[0])),
        "abs" => okd(s2d(a[0]).abs()),
        "muli" => okd(s2d(a[0]) * a[1].parse::<i64>().unwrap()),
        "imul" => okd(a[0].parse::<i64>().unwrap() * s2d(a[1])),
        "divi" => okd(s2d(a[0]) / a[1].parse::<i64>().unwrap()),
        "addu" => okd(s2d(a[0]) + s2u(a[1])),
        "subu" => okd(s2d(a[0]) - s2u(a[1])),
        "isneg" => Some(format!("ok {}", s2d(a[0]).is_negative() as u8)),
        "addassign_u" => {
            let mut d = s2d(a[0]);
            d += s2u(a[1]);
            okd(d)
        }
        "subassign_u" => {
            let mut d = s2d(a[0]);
            d -= s2u(a[1]);
            okd(d)
        }
        "addassign" => {
            let mut d = s2d(a[0]);
            d += s2d(a[1]);
            okd(d)
        }
        "subassign" => {
            let mut d = s2d(a[0]);
            d -= s2d(a[1]);
            okd(d)
        }
        // ---- C02
        "from_total" => okd(Duration::from_total_nanoseconds(a[0].parse::<i128>().unwrap())),
        "total" => Some(format!("ok {}", s2d(a[0]).total_nanoseconds())),
        "from_parts" => okd(Duration::from_parts(
            a[0].parse::<i16>().unwrap(),
            a[1].parse::<u64>().unwrap(),
        )),
        "from_trunc" => okd(Duration::from_truncated_nanoseconds(a[0].parse::<i64>().unwrap())),
        "try_trunc" => Some(match s2d(a[0]).try_truncated_nanoseconds() {
            Ok(v) => format!("ok {}", v),
            Err(_) => "err".to_string(),
        }),
        "trunc" => Some(format!("ok {}", s2d(a[0]).truncated_nanoseconds())),
        "unit_mul_i64" => {
            let u: Unit = s2u(a[0]);
            let q = a[1].parse::<i64>().unwrap();
            let d1 = u * q;
            let d2 = q * u;
            // the two operand orders are the same function; report both if they ever differ
            if d1.to_parts() != d2.to_parts() {
                return Some(format!("ok {} {}", d2s(d1), d2s(d2)));
            }
            okd(d1)
        }
        "tu_i64" => {
            use hifitime::TimeUnits;
            let q = a[1].parse::<i64>().unwrap();
            okd(match a[0] {
                "ns" => q.nanoseconds(),
                "us" => q.microseconds(),
                "ms" => q.milliseconds(),
                "s" => q.seconds(),
                "min" => q.minutes(),
                "h" => q.hours(),
                "d" => q.days(),
                "wk" => q.weeks(),
                "cy" => q.centuries(),
                _ => return None,
            })
        }
        "compose" => {
            let sign = a[0].parse::<i8>().unwrap();
            let f: Vec<u64> = a[1..8].iter().map(|s| s.parse::<u64>().unwrap()).collect();
            okd(Duration::compose(sign, f[0], f[1], f[2], f[3], f[4], f[5], f[6]))
        }
        "from_std" => {
            let s = std::time::Duration::new(a[0].parse::<u64>().unwrap(), a[1].parse::<u32>().unwrap());
            okd(Duration::from(s))
        }
        "into_std" => {
            let s: std::time::Duration = s2d(a[0]).into();
            Some(format!("ok {} {}", s.as_secs(), s.subsec_nanos()))
        }
        // ---- C03
        // compare-after-arithmetic: x is the RESULT of an arithmetic entry point (whatever form it was left in); it is
        // compared, both ways, with the freshly constructed duration of the same parts and with its two neighbours
        "cmp_via" => {
            let x0 = s2d(a[1]);
            let x = match a[0] {
                "add" => x0 + s2d(a[2]),
                "sub" => x0 - s2d(a[2]),
                "addassign" => { let mut d = x0; d += s2d(a[2]); d }
                "subassign" => { let mut d = x0; d -= s2d(a[2]); d }
                "addu" => x0 + s2u(a[2]),
                "subu" => x0 - s2u(a[2]),
                "addassign_u" => { let mut d = x0; d += s2u(a[2]); d }
                "subassign_u" => { let mut d = x0; d -= s2u(a[2]); d }
                "neg" => -x0,
                "abs" => x0.abs(),
                // conversion entry points: a[1] is the count to convert (non-negative), through std::time::Duration
                "from_std" => {
                    let t = x0.total_nanoseconds().max(0) as u128;
                    Duration::from(std::time::Duration::new((t / 1_000_000_000) as u64, (t % 1_000_000_000) as u32))
                }
                _ => return None,
            };
            let (c, ns) = x.to_parts();
            let y = Duration::from_parts(c, ns);
            let mut o = format!("ok {}", d2s(x));
            for z in [y, y + Duration::from_parts(0, 1), y - Duration::from_parts(0, 1)] {
                o.push_str(&format!(" {} {} {} {} {}", d2s(z), ord2s(x.cmp(&z)), ord2s(z.cmp(&x)), b2s(x == z), b2s(z == x)));
            }
            Some(o)
        }
        "eq" => Some(format!("ok {}", b2s(s2d(a[0]) == s2d(a[1])))),
        "ne" => Some(format!("ok {}", b2s(s2d(a[0]) != s2d(a[1])))),
        "lt" => Some(format!("ok {}", b2s(s2d(a[0]) < s2d(a[1])))),
        "le" => Some(format!("ok {}", b2s(s2d(a[0]) <= s2d(a[1])))),
        "gt" => Some(format!("ok {}", b2s(s2d(a[0]) > s2d(a[1])))),
        "ge" => Some(format!("ok {}", b2s(s2d(a[0]) >= s2d(a[1])))),
        "cmp" => {
            let (x, y) = (s2d(a[0]), s2d(a[1]));
            let o = x.cmp(&y);
            assert_eq!(Some(o), x.partial_cmp(&y));
            Some(format!("ok {}", ord2s(o)))
        }
        // the std entry points of the order (the `Ord` trait's provided methods, core::cmp, clamp, Iterator::min / max),
        // which the inherent Duration::min / max shadow in method-call syntax
        "ordfns" => {
            let (x, y, z) = (s2d(a[0]), s2d(a[1]), s2d(a[2]));
            let (lo, hi) = if y.cmp(&z) == core::cmp::Ordering::Greater { (z, y) } else { (y, z) };
            Some(format!(
                "ok {} {} {} {} {} {} {}",
                d2s(Ord::min(x, y)),
                d2s(Ord::max(x, y)),
                d2s(core::cmp::min(x, y)),
                d2s(core::cmp::max(x, y)),
                d2s(Ord::clamp(x, lo, hi)),
                d2s([x, y, z].iter().copied().min().unwrap()),
                d2s([x, y, z].iter().copied().max().unwrap())
            ))
        }
        "min" => okd(s2d(a[0]).min(s2d(a[1]))),
        "max" => okd(s2d(a[0]).max(s2d(a[1]))),
        "equ" => Some(format!("ok {}", b2s(s2d(a[0]) == s2u(a[1])))),
        "cmpu" => Some(format!(
            "ok {}",
            ord2s(s2d(a[0]).partial_cmp(&s2u(a[1])).unwrap())
        )),
        "sort3" => {
            let mut v = vec![s2d(a[0]), s2d(a[1]), s2d(a[2])];
            v.sort();
            Some(format!("ok {} {} {}", d2s(v[0]), d2s(v[1]), d2s(v[2])))
        }
        "addgt" => {
            let (x, y) = (s2d(a[0]), s2d(a[1]));
            Some(format!("ok {}", b2s(x + y > x)))
        }
        // ---- C14
        "floor" => okd(s2d(a[0]).floor(s2d(a[1]))),
        "ceil" => okd(s2d(a[0]).ceil(s2d(a[1]))),
        "round" => okd(s2d(a[0]).round(s2d(a[1]))),
        "approx" => okd(s2d(a[0]).approx()),
        _ => None,
    }
}
