//! C11 (Duration decomposition and text form) and the `Duration::from_str` part of C13
//! (parsers are total).  Ops:
//!
//!   decompose D          => ok sign days h min s ms us ns
//!   subdiv D U           => ok D' | err            (err = `None`: Week, Century)
//!   dfmt D               => ok <hex of the Display text>
//!   dparse <hex>         => ok D | err             (Duration::from_str)
//!   drt D                => ok D' | err            (from_str(&format!("{d}")))
//!   djson D              => ok <hex of the JSON text>
//!   djsonparse <hex>     => ok D | err             (serde_json::from_str::<Duration>)
//!   djsonrt D            => ok D' | err            (serialize then deserialize)
//!   ehms E               => ok h min s ms us ns    (Epoch::hours() … nanoseconds())
//!   p_dur <hex>          => ok D | err | panic | hang   (totality stream)
//!   lex_i64 <hex>        => ok n | err             (lexical_core::parse::<i64>, the external contract)
//!   lex_f64 <hex>        => ok <f64 bits> | err    (lexical_core::parse::<f64>)
//!   txt_unit_mul_f64 U <f64> => ok D                   (Unit * f64)
use crate::codec::*;
use crate::rng::Rng;
use hifitime::{Duration, Unit};
use std::io::Write;
use std::str::FromStr;

const DAY: i128 = 86_400_000_000_000;
/// 10 000 Julian years of 365.25 days
pub const LIMIT: i128 = 3_652_500 * DAY;

const FACTORS: [i128; 7] = [
    DAY,
    3_600_000_000_000,
    60_000_000_000,
    1_000_000_000,
    1_000_000,
    1_000,
    1,
];

/// every spelling of the parser's table, with the index of its unit in FACTORS
pub const SPELLINGS: [(&str, usize); 25] = [
    ("d", 0),
    ("days", 0),
    ("day", 0),
    ("h", 1),
    ("hours", 1),
    ("hour", 1),
    ("hr", 1),
    ("min", 2),
    ("mins", 2),
    ("minute", 2),
    ("minutes", 2),
    ("s", 3),
    ("second", 3),
    ("seconds", 3),
    ("sec", 3),
    ("ms", 4),
    ("millisecond", 4),
    ("milliseconds", 4),
    ("μs", 5),
    ("us", 5),
    ("microsecond", 5),
    ("microseconds", 5),
    ("ns", 6),
    ("nanosecond", 6),
    ("nanoseconds", 6),
];

fn dstr11(t: i128) -> String {
    crate::gen::dstr(t.clamp(-LIMIT, LIMIT))
}

/// total nanoseconds within ±10 000 years, concentrated near whole numbers of each unit
pub fn total_c11(r: &mut Rng) -> i128 {
    let sgn: i128 = if r.chance(1, 2) { 1 } else { -1 };
    let near = |r: &mut Rng| -> i128 {
        match r.below(8) {
            0 => 0,
            1 => 1,
            2 => -1,
            3 => 2,
            4 => -2,
            5 => r.range_i64(-5, 5) as i128,
            6 => *r.pick(&[999i128, 1000, 1001, -999, -1000, -1001, 999_999, 1_000_000, 999_999_999]),
            _ => 0,
        }
    };
    let t = match r.below(12) {
        0 => *r.pick(&[0i128, 1, 2, 999, 1000, 1001]),
        1 | 2 | 3 => {
            // k whole units ± a few ns, k small or at the wrap of the next unit
            let u = FACTORS[r.below(7) as usize];
            let k = match r.below(4) {
                0 => r.below(4) as i128,
                1 => *r.pick(&[23i128, 24, 25, 59, 60, 61, 999, 1000, 1001, 365, 366, 36524, 36525, 36526]),
                2 => ((((r.next() as u128) << 64) | r.next() as u128) % ((LIMIT / u) as u128 + 1)) as i128,
                _ => r.below(100_000) as i128,
            };
            k * u + near(r)
        }
        4 => LIMIT - r.below(5) as i128,
        5 => {
            let t = crate::gen::total(r);
            if t.abs() <= LIMIT {
                t.abs()
            } else {
                (t.abs() % LIMIT) as i128
            }
        }
        6 => r.below(3_652_500) as i128 * DAY + r.below(DAY as u64) as i128,
        7 | 8 => {
            // sparse components, each at an interesting digit count
            let maxes: [u64; 7] = [3_652_500, 24, 60, 60, 1000, 1000, 1000];
            let mut t = 0i128;
            for i in 0..7 {
                if r.chance(1, 2) {
                    let v = match r.below(4) {
                        0 => 1,
                        1 => maxes[i] - 1,
                        2 => *r.pick(&[1u64, 2, 9, 10, 11, 99, 100, 101]) % maxes[i],
                        _ => r.below(maxes[i]),
                    };
                    t += v as i128 * FACTORS[i];
                }
            }
            t
        }
        9 => r.below(1_000_000_000_000) as i128,
        10 => {
            // one ns short of / past a whole day count (the float decomposition's weak spot)
            r.below(3_652_500) as i128 * DAY + near(r)
        }
        _ => r.below((LIMIT / 1000) as u64) as i128 * 1000 + r.below(1000) as i128,
    };
    (sgn * t).clamp(-LIMIT, LIMIT)
}

/// the documented text form, written independently of hifitime's Display
pub fn render_total(t: i128) -> String {
    if t == 0 {
        return "0 ns".to_string();
    }
    let mut s = String::new();
    if t < 0 {
        s.push('-');
    }
    let mut rem = t.unsigned_abs();
    let names = ["days", "h", "min", "s", "ms", "μs", "ns"];
    let mut first = true;
    for i in 0..7 {
        let f = FACTORS[i] as u128;
        let v = rem / f;
        rem %= f;
        if v > 0 {
            if !first {
                s.push(' ');
            }
            first = false;
            let name = if i == 0 && v == 1 { "day" } else { names[i] };
            s.push_str(&format!("{} {}", v, name));
        }
    }
    s
}

fn numeral(r: &mut Rng, integer_only: bool) -> String {
    let int = |r: &mut Rng| -> String {
        match r.below(6) {
            0 => "0".to_string(),
            1 => "1".to_string(),
            2 => format!("{}", r.below(10)),
            3 => format!("{}", r.below(1000)),
            4 => format!("{}", r.below(100_000)),
            _ => format!("{:03}", r.below(100)),
        }
    };
    if integer_only {
        return int(r);
    }
    match r.below(10) {
        0 | 1 => int(r),
        2 => "10.598".to_string(),
        3 => format!("{}.{}", int(r), r.below(10)),
        4 => format!("{}.{:03}", int(r), r.below(1000)),
        5 => format!("{}.{:09}", r.below(100), r.below(1_000_000_000)),
        6 => format!("0.{}", r.below(1_000_000)),
        7 => format!("{}e{}", r.below(100), r.below(6)),
        8 => format!("{}.{}e-{}", r.below(100), r.below(100), r.below(6)),
        _ => format!("{}.{}E+{}", r.below(10), r.below(1000), r.below(4)),
    }
}

fn offset_string(r: &mut Rng) -> String {
    let sign = if r.chance(1, 2) { '+' } else { '-' };
    let hh = match r.below(4) {
        0 => r.below(24),
        1 => *r.pick(&[0u64, 1, 12, 14, 23, 24, 36, 99]),
        _ => r.below(100),
    };
    let mm = if r.chance(1, 4) { r.below(100) } else { r.below(60) };
    let ss = if r.chance(1, 4) { r.below(100) } else { r.below(60) };
    match r.below(8) {
        0 | 1 | 2 => format!("{sign}{hh:02}:{mm:02}"),
        3 | 4 => format!("{sign}{hh:02}{mm:02}"),
        5 | 6 => format!("{sign}{hh:02}:{mm:02}:{ss:02}"),
        _ => match r.below(4) {
            0 => format!("{sign}{hh:02}{mm:02}{ss:02}"),
            1 => format!("{sign}{hh:02}"),
            2 => format!("{sign}{hh:02}:"),
            _ => format!("{sign}{hh:02}h{mm:02}"),
        },
    }
}

/// `<numeral> <spelling>` items with distinct units
fn unit_string(r: &mut Rng, integer_only: bool) -> String {
    let k = match r.below(6) {
        0 | 1 | 2 => 1,
        3 | 4 => 2,
        _ => 1 + r.below(7) as usize,
    };
    let mut used = [false; 7];
    let mut items: Vec<String> = vec![];
    for _ in 0..k {
        let (sp, pos) = SPELLINGS[r.below(25) as usize];
        if used[pos] {
            continue;
        }
        used[pos] = true;
        items.push(format!("{} {}", numeral(r, integer_only), sp));
    }
    let mut s = items.join(" ");
    if r.chance(1, 6) {
        s.insert(0, '-');
    }
    s
}

/// an integer numeral whose product with the unit needs more than 53 bits (the class the binary64
/// evaluation got wrong, D34): 17-19 digit ns counts, seconds beyond 4.6e9, days beyond 1e5 …,
/// at i64 / 2^63 / 2^64 / i128 edges, up to the Duration bound and beyond (saturation)
fn wide_integer_item(r: &mut Rng, pos: usize) -> String {
    let f = FACTORS[pos] as u128;
    let dmax: u128 = 32768 * 3_155_760_000_000_000_000u128;
    let two53: u128 = 1 << 53;
    let q: u128 = match r.below(12) {
        // just above the point where n*f leaves 53 bits, odd so that no power of two helps
        0 | 1 => (two53 / f + 1 + r.below(1000) as u128) | 1,
        // anywhere between 2^53 ns and the 10 000-year bound
        2 | 3 | 4 => {
            let lo = two53 / f + 1;
            let hi = (LIMIT as u128) / f;
            (lo + (((r.next() as u128) << 64 | r.next() as u128) % (hi - lo + 1))) | (r.below(2) as u128)
        }
        // anywhere up to the Duration bound
        5 | 6 => (((r.next() as u128) << 64 | r.next() as u128) % (dmax / f + 1)) | 1,
        // around the bound itself (saturation on the far side)
        7 => dmax / f + r.below(5) as u128 - 2,
        // i64 / u64 / 2^63 edges of the numeral itself
        8 => *r.pick(&[i64::MAX as u128 - 1, i64::MAX as u128, 1u128 << 63, (1u128 << 63) + 1, u64::MAX as u128, (u64::MAX as u128) + 1, (1u128 << 64) + 1]),
        // the audit's witnesses and their neighbours
        9 => *r.pick(&[4_611_686_019u128, 9_007_199_254_740_993, 123_456_789_012_345_678, 3_155_760_000_000_000_001, 10_000_000_000_000_000_001, 315_576_000_000_000_000_001]) + r.below(3) as u128,
        // i128 edge of the numeral (then the f64 path, saturated)
        10 => *r.pick(&[i128::MAX as u128 - 1, i128::MAX as u128, (i128::MAX as u128) + 1, (i128::MAX as u128) + 2, u128::MAX]),
        // 17-19 digits
        _ => 10u128.pow(16 + r.below(3) as u32) + r.below(1_000_000_000) as u128 * 7 + 1,
    };
    // leading zeros now and then (an integer all the same)
    let zeros = if r.chance(1, 8) { "00" } else { "" };
    // an explicit '+' on the numeral now and then (the integer parser accepts it; a seeded change that pre-scanned for
    // "optional minus and digits" sent such numerals down the f64 path)
    // ... or an explicit '-' on the numeral itself (a signed component: "1 d -5 ns", and after the text's own
    // leading '-' a doubled sign), which is how the least i128 reaches the integer reader
    let plus = match r.below(12) { 0 | 1 => "+", 2 | 3 => "-", _ => "" };
    let sp: Vec<&str> = SPELLINGS.iter().filter(|(_, p)| *p == pos).map(|(s, _)| *s).collect();
    format!("{plus}{zeros}{q} {}", r.pick(&sp))
}

fn wide_integer_string(r: &mut Rng) -> String {
    let k = match r.below(4) {
        0 | 1 => 1,
        2 => 2,
        _ => 1 + r.below(4) as usize,
    };
    let mut used = [false; 7];
    let mut items: Vec<String> = vec![];
    for i in 0..k {
        let pos = r.below(7) as usize;
        if used[pos] {
            continue;
        }
        used[pos] = true;
        // at least the first item is wide; the others are wide or ordinary integers
        if i == 0 || r.chance(1, 2) {
            items.push(wide_integer_item(r, pos));
        } else {
            let sp: Vec<&str> = SPELLINGS.iter().filter(|(_, p)| *p == pos).map(|(s, _)| *s).collect();
            items.push(format!("{} {}", numeral(r, true), r.pick(&sp)));
        }
    }
    let mut s = items.join(" ");
    if r.chance(1, 2) {
        s.insert(0, '-');
    }
    s
}

const BLANKS: [char; 10] = [' ', ' ', ' ', '\t', '\n', '\r', '\u{a0}', '\u{2003}', '\u{3000}', '\u{85}'];

/// a text of the grammar padded with blanks: white space at either end, runs of spaces between
/// items, between number and unit, around the sign (the parser trims; the value must be that of the
/// unpadded text, or the text is rejected)
fn padded_string(r: &mut Rng) -> String {
    let base = match r.below(6) {
        0 | 1 => render_total(total_c11(r)),
        2 => unit_string(r, true),
        3 => unit_string(r, false),
        4 => wide_integer_string(r),
        _ => offset_string(r),
    };
    let mut cs: Vec<char> = base.chars().collect();
    let k = 1 + r.below(3);
    for _ in 0..k {
        match r.below(6) {
            0 => {
                let m = 1 + r.below(3);
                for _ in 0..m {
                    cs.insert(0, *r.pick(&BLANKS));
                }
            }
            1 => {
                let m = 1 + r.below(3);
                for _ in 0..m {
                    cs.push(*r.pick(&BLANKS));
                }
            }
            2 | 3 => {
                // double an existing space (between items, or between number and unit)
                let spaces: Vec<usize> = cs.iter().enumerate().filter(|(_, c)| **c == ' ').map(|(i, _)| i).collect();
                if !spaces.is_empty() {
                    let i = *r.pick(&spaces);
                    let m = 1 + r.below(2);
                    for _ in 0..m {
                        cs.insert(i, ' ');
                    }
                }
            }
            4 => {
                // after the sign
                if !cs.is_empty() && (cs[0] == '-' || cs[0] == '+') {
                    cs.insert(1, ' ');
                }
            }
            _ => {
                cs.insert(0, ' ');
                cs.push(' ');
            }
        }
    }
    cs.into_iter().collect()
}

/// any canonical duration (the round trip now holds on the whole range)
fn total_any(r: &mut Rng) -> i128 {
    crate::gen::total(r)
}

pub fn inputs_c11(r: &mut Rng, n: usize, _tier: &str, out: &mut dyn Write) {
    // every spelling once with an integer and once with a fractional value, first
    let mut head: Vec<String> = vec![];
    // the witnesses of D34 (integer numerals read through f64)
    for w in ["4611686019 s", "9007199254740993 ns", "123456789012345678 ns", "3155760000000000001 ns",
              "-4611686019 s", "106752 days 1 ns", "2562048 h 1 ns", "10000000000000000001 ns",
              "315576000000000000001 ns", " 5 h ", "5 h  3 min", "- 5 h", "5  h"] {
        head.push(format!("dparse {}", str2hex(w)));
    }
    for (sp, _) in SPELLINGS.iter() {
        head.push(format!("dparse {}", str2hex(&format!("7 {sp}"))));
        head.push(format!("dparse {}", str2hex(&format!("10.598 {sp}"))));
        head.push(format!("dparse {}", str2hex(&format!("-1.5 {sp}"))));
    }
    for (i, l) in head.iter().enumerate() {
        if i >= n {
            return;
        }
        writeln!(out, "{}", l).unwrap();
    }
    for _ in head.len()..n {
        let t = total_c11(r);
        match r.below(26) {
            20 | 21 | 22 => {
                writeln!(out, "dparse {}", str2hex(&wide_integer_string(r))).unwrap();
                continue;
            }
            23 | 24 => {
                writeln!(out, "dparse {}", str2hex(&padded_string(r))).unwrap();
                continue;
            }
            25 => {
                // round trip anywhere in the Duration range
                let t = total_any(r);
                let op = *r.pick(&["drt", "drt", "djsonrt"]);
                if r.chance(1, 3) {
                    writeln!(out, "dparse {}", str2hex(&render_total(t))).unwrap();
                } else {
                    writeln!(out, "{} {}", op, crate::gen::dstr(t)).unwrap();
                }
                continue;
            }
            _ => {}
        }
        match r.below(20) {
            0 | 1 | 2 => writeln!(out, "decompose {}", dstr11(t)).unwrap(),
            3 => writeln!(out, "subdiv {} {}", dstr11(t), crate::gen::unit_name(r)).unwrap(),
            4 | 5 | 6 => writeln!(out, "dfmt {}", dstr11(t)).unwrap(),
            7 | 8 => writeln!(out, "dparse {}", str2hex(&render_total(t))).unwrap(),
            9 | 10 => writeln!(out, "drt {}", dstr11(t)).unwrap(),
            11 => writeln!(out, "djson {}", dstr11(t)).unwrap(),
            12 => writeln!(out, "djsonparse {}", str2hex(&format!("\"{}\"", render_total(t)))).unwrap(),
            13 => writeln!(out, "djsonrt {}", dstr11(t)).unwrap(),
            14 => {
                let e = format!("{}:{}", dstr11(t), crate::gen::scale_name(r));
                writeln!(out, "ehms {}", e).unwrap()
            }
            15 | 16 => writeln!(out, "dparse {}", str2hex(&unit_string(r, false))).unwrap(),
            17 => writeln!(out, "dparse {}", str2hex(&unit_string(r, true))).unwrap(),
            _ => writeln!(out, "dparse {}", str2hex(&offset_string(r))).unwrap(),
        }
    }
}

// ---------------------------------------------------------------------------------------------
// totality stream

const ODD_CHARS: [char; 40] = [
    'é', 'μ', 'µ', '٣', '۵', '５', '𝟗', '²', '½', '\u{a0}', '\u{2003}', '\u{3000}', '\u{85}', '\u{2028}',
    '\u{feff}', '\u{200b}', '\t', '\n', '\r', '\u{b}', '\u{c}', '\0', '\u{7f}', '\u{80}', '\u{7ff}', '\u{800}',
    '\u{ffff}', '\u{10000}', '\u{10ffff}', '−', '＋', '－', '：', 'ｓ', 'ℎ', '𝐝', '€', '\u{1680}', '\u{e9}', 'ß',
];
const ASCII_POOL: &[u8] = b"0123456789 +-.:eEdhmsnuinfaNyor_,/";

fn grammar_valid(r: &mut Rng) -> String {
    match r.below(12) {
        10 => wide_integer_string(r),
        11 => padded_string(r),
        0 | 1 | 2 => render_total(total_c11(r)),
        3 | 4 => unit_string(r, false),
        5 => unit_string(r, true),
        6 | 7 => offset_string(r),
        8 => {
            let t = crate::gen::total(r);
            render_total(t)
        }
        _ => {
            let w = *r.pick(&["nan", "inf", "NaN", "infinity", "-inf", "+inf", "1e400", "1e-400", "-1e30", "1e30", "9223372036854775808", "18446744073709551616", "0x10", "1_000", "١٢٣", "1e", "1.", ".5", "+5", "-5", "--5", "1e+", "00", "-0", "-0.0"]);
            let (sp, _) = SPELLINGS[r.below(25) as usize];
            if r.chance(1, 3) {
                format!("1 h {w} {sp}")
            } else if r.chance(1, 2) {
                format!("-{w} {sp}")
            } else {
                format!("{w} {sp}")
            }
        }
    }
}

fn random_char(r: &mut Rng) -> char {
    match r.below(5) {
        0 | 1 => ASCII_POOL[r.below(ASCII_POOL.len() as u64) as usize] as char,
        2 | 3 => *r.pick(&ODD_CHARS),
        _ => loop {
            let c = match r.below(4) {
                0 => r.below(0x80),
                1 => r.below(0x800),
                2 => r.below(0x10000),
                _ => r.below(0x110000),
            } as u32;
            if let Some(c) = char::from_u32(c) {
                break c;
            }
        },
    }
}

fn mutate(r: &mut Rng, s: &str) -> String {
    let mut cs: Vec<char> = s.chars().collect();
    let k = 1 + r.below(3);
    for _ in 0..k {
        let len = cs.len();
        match r.below(9) {
            0 | 1 if len > 0 => {
                cs.remove(r.below(len as u64) as usize);
            }
            2 | 3 => {
                let c = random_char(r);
                cs.insert(r.below(len as u64 + 1) as usize, c);
            }
            4 | 5 if len > 0 => {
                let i = r.below(len as u64) as usize;
                cs[i] = random_char(r);
            }
            6 if len > 0 => {
                cs.truncate(r.below(len as u64) as usize);
            }
            7 => {
                // whitespace variants around / inside
                let w = *r.pick(&[' ', ' ', '\t', '\n', '\u{a0}', '\u{2003}', '\u{3000}', '\u{85}']);
                let i = match r.below(3) {
                    0 => 0,
                    1 => len,
                    _ => r.below(len as u64 + 1) as usize,
                };
                cs.insert(i, w);
                if r.chance(1, 2) {
                    cs.insert(i, w);
                }
            }
            _ => {
                // long digit run / huge exponent spliced in
                let run: String = match r.below(4) {
                    0 => "9".repeat(1 + r.below(400) as usize),
                    1 => format!("1e{}", r.below(100000)),
                    2 => format!("1e-{}", r.below(100000)),
                    _ => format!("0.{}1", "0".repeat(r.below(400) as usize)),
                };
                let i = r.below(len as u64 + 1) as usize;
                for (j, c) in run.chars().enumerate() {
                    cs.insert(i + j, c);
                }
            }
        }
    }
    cs.into_iter().collect()
}

pub fn inputs_c13d(r: &mut Rng, n: usize, _tier: &str, out: &mut dyn Write) {
    // fixed seeds of the stream: strings that panicked on earlier revisions or sit on a guard
    let fixed = [
        "", " ", "-", "+", "- ", "-a\u{e9}", "-99 \u{3bc}s", "+\u{e9}\u{e9}", "-\u{e9}", "+1\u{e9}", "-1\u{e9}:00",
        "+12", "-12:", "+12:3", "+12:34:5", "+12:34:56", "-123456", "+1234567", "+12345678", "+-1:-2", "+ 1: 2",
        "1", "1 ", "1 h", "1  h", "1 h ", "1 h  ", "h", " h", "1 hx", "1 d 2", "1 d 2 ", "1 \u{3bc}", "1 \u{3bc}s 1",
        "1 \u{ce}", "nan d", "inf d", "-inf d", "1e400 d", "-1e400 ns", "1e30 d -1e30 d", "-1 h -1e30 days",
        "9223372036854775807 ns", "9223372036854775808 ns", "-9223372036854775808 ns", "1e19 ns", "\u{a0}1 h\u{a0}",
        "1\u{a0}h", "1 h\u{2003}2 min", "\u{feff}1 h", "1 h\0", "+00:00", "-00:00", "+99:99:99", "-99:99:99",
    ];
    let mut k = 0;
    for s in fixed.iter() {
        if k >= n {
            return;
        }
        writeln!(out, "p_dur {}", str2hex(s)).unwrap();
        k += 1;
    }
    while k < n {
        let base = grammar_valid(r);
        let s = match r.below(10) {
            0 | 1 => base,
            8 => {
                // purely random short strings
                let len = r.below(12) as usize;
                (0..len).map(|_| random_char(r)).collect()
            }
            9 => {
                // the external number parsers on the mutated numeral alone
                let base_num = if r.chance(1, 4) {
                    r.pick(&["nan", "NaN", "-nan", "inf", "-inf", "+inf", "Infinity", "infinity", "1e400", "-1e400", "1e-400", "4.9e-324", "2.4703282292062328e-324", "1.7976931348623157e308", "1.7976931348623159e308", "9007199254740993", "9007199254740992", "18014398509481985", "0.1", "-0", "-0.0", "+5", "5.", ".5", "5.e1", "9223372036854775807", "9223372036854775808", "-9223372036854775808", "-9223372036854775809", "0000000000000000000000012", "170141183460469231731687303715884105727", "170141183460469231731687303715884105728", "-170141183460469231731687303715884105728", "-170141183460469231731687303715884105729", "+170141183460469231731687303715884105727", "340282366920938463463374607431768211455"]).to_string()
                } else {
                    numeral(r, false)
                };
                let num = if r.chance(1, 3) { base_num } else { mutate(r, &base_num) };
                let op = *r.pick(&["lex_i64", "lex_f64", "lex_f64", "lex_i128"]);
                writeln!(out, "{} {}", op, str2hex(&num)).unwrap();
                k += 1;
                continue;
            }
            _ => mutate(r, &base),
        };
        writeln!(out, "p_dur {}", str2hex(&s)).unwrap();
        k += 1;
    }
}

fn res_d(r: Result<Duration, impl Sized>) -> Option<String> {
    Some(match r {
        Ok(d) => format!("ok {}", d2s(d)),
        Err(_) => "err".to_string(),
    })
}

pub fn exec(op: &str, a: &[&str]) -> Option<String> {
    match op {
        "decompose" => {
            let (sg, d, h, m, s, ms, us, ns) = s2d(a[0]).decompose();
            Some(format!("ok {sg} {d} {h} {m} {s} {ms} {us} {ns}"))
        }
        "subdiv" => Some(match s2d(a[0]).subdivision(s2u(a[1])) {
            Some(d) => format!("ok {}", d2s(d)),
            None => "err".to_string(),
        }),
        "dfmt" => Some(format!("ok {}", str2hex(&format!("{}", s2d(a[0]))))),
        "dparse" | "p_dur" => res_d(Duration::from_str(&hex2str(a[0]))),
        "drt" => res_d(Duration::from_str(&format!("{}", s2d(a[0])))),
        "djson" => Some(match serde_json::to_string(&s2d(a[0])) {
            Ok(s) => format!("ok {}", str2hex(&s)),
            Err(_) => "err".to_string(),
        }),
        // every serde_json entry point (see json_all) must give the same answer
        "djsonparse" => match super::json_all::<Duration>(&hex2str(a[0])) {
            Ok(r) => res_d(r.ok_or(())),
            Err(()) => Some("entry-points-differ".to_string()),
        },
        "djsonrt" => match serde_json::to_string(&s2d(a[0])) {
            Ok(s) => match super::json_all::<Duration>(&s) {
                // ... and so must a data format that is not human readable (crate::binfmt)
                Ok(r) => {
                    if crate::binfmt::round_trip(&s2d(a[0])).ok() != r {
                        return Some("entry-points-differ".to_string());
                    }
                    res_d(r.ok_or(()))
                }
                Err(()) => Some("entry-points-differ".to_string()),
            },
            Err(_) => Some("err".to_string()),
        },
        "ehms" => {
            let e = s2e(a[0]);
            Some(format!(
                "ok {} {} {} {} {} {}",
                e.hours(),
                e.minutes(),
                e.seconds(),
                e.milliseconds(),
                e.microseconds(),
                e.nanoseconds()
            ))
        }
        "lex_i64" => Some(match lexical_core::parse::<i64>(hex2str(a[0]).as_bytes()) {
            Ok(v) => format!("ok {}", v),
            Err(_) => "err".to_string(),
        }),
        "lex_i128" => Some(match lexical_core::parse::<i128>(hex2str(a[0]).as_bytes()) {
            Ok(v) => format!("ok {}", v),
            Err(_) => "err".to_string(),
        }),
        "lex_f64" => Some(match lexical_core::parse::<f64>(hex2str(a[0]).as_bytes()) {
            Ok(v) => format!("ok {}", f2s(v)),
            Err(_) => "err".to_string(),
        }),
        "txt_unit_mul_f64" => {
            let u: Unit = s2u(a[0]);
            Some(format!("ok {}", d2s(u * s2f(a[1]))))
        }
        _ => None,
    }
}

/// the `char::is_whitespace` table of the std actually linked, and the unit factors `Unit * f64` uses
pub fn dump_consts(m: &mut serde_json::Map<String, serde_json::Value>) {
    let ws: Vec<u32> = (0..0x110000u32)
        .filter_map(char::from_u32)
        .filter(|c| c.is_whitespace())
        .map(|c| c as u32)
        .collect();
    m.insert("WHITESPACE".into(), serde_json::json!(ws));
}
