//! F64: validation stream of the Lean `SoftF64` model against the hardware (no hifitime code
//! involved).  Every op is a plain Rust f64 operation on run-time values; results are printed as
//! the 16 hex digits of `to_bits`, all NaNs as the canonical quiet NaN.
use crate::rng::Rng;
use std::io::Write;

pub const QNAN: u64 = 0x7ff8_0000_0000_0000;

/// hex of the bit pattern, every NaN payload printed as the canonical quiet NaN
pub fn fc2s(x: f64) -> String {
    if x.is_nan() {
        format!("{:016x}", QNAN)
    } else {
        format!("{:016x}", x.to_bits())
    }
}

pub fn s2f(s: &str) -> f64 {
    f64::from_bits(u64::from_str_radix(s, 16).unwrap())
}

fn ulps(x: f64, k: i64) -> f64 {
    // move k units in the last place along the bit pattern order (stays on the same side of zero)
    let b = x.to_bits();
    let mag = (b & 0x7fff_ffff_ffff_ffff) as i64;
    let m2 = (mag + k).clamp(0, 0x7ff0_0000_0000_0000);
    f64::from_bits((b & 0x8000_0000_0000_0000) | m2 as u64)
}

fn sgn(x: f64, r: &mut Rng) -> f64 {
    if r.chance(1, 2) {
        -x
    } else {
        x
    }
}

const SPECIALS: [u64; 30] = [
    0x0000_0000_0000_0000, // +0
    0x8000_0000_0000_0000, // -0
    0x7ff0_0000_0000_0000, // +inf
    0xfff0_0000_0000_0000, // -inf
    0x7ff8_0000_0000_0000, // NaN
    0x7fef_ffff_ffff_ffff, // MAX
    0xffef_ffff_ffff_ffff, // MIN
    0x0010_0000_0000_0000, // MIN_POSITIVE
    0x000f_ffff_ffff_ffff, // largest subnormal
    0x0000_0000_0000_0001, // smallest subnormal
    0x8000_0000_0000_0001,
    0x3cb0_0000_0000_0000, // EPSILON
    0x3ca0_0000_0000_0000, // EPSILON / 2
    0x3ff0_0000_0000_0000, // 1
    0xbff0_0000_0000_0000, // -1
    0x3fe0_0000_0000_0000, // 0.5
    0x3fef_ffff_ffff_ffff, // 1 - 2^-53
    0x4330_0000_0000_0000, // 2^52
    0x4340_0000_0000_0000, // 2^53
    0x43e0_0000_0000_0000, // 2^63
    0xc3e0_0000_0000_0000, // -2^63
    0x43f0_0000_0000_0000, // 2^64
    0x47e0_0000_0000_0000, // 2^127
    0xc7e0_0000_0000_0000, // -2^127
    0x41e0_0000_0000_0000, // 2^31
    0xc1e0_0000_0000_0000, // -2^31
    0x4024_0000_0000_0000, // 10
    0x3fb9_9999_9999_999a, // 0.1
    0x3e11_2e0b_e826_d695, // 1e-9
    0x7fe0_0000_0000_0000, // 2^1023
];

/// A double from one of the bit-pattern classes of DESIGN §6 C18.
pub fn f64_class(r: &mut Rng) -> f64 {
    match r.below(16) {
        0 => f64::from_bits(*r.pick(&SPECIALS)),
        1 => ulps(f64::from_bits(*r.pick(&SPECIALS)), r.range_i64(-2, 2)),
        // subnormal
        2 => sgn(f64::from_bits(r.below(1u64 << 52)), r),
        // power of two +/- k ulp
        3 | 4 => {
            let e = r.range_i64(-1074, 1023) as i32;
            let p = 2f64.powi(e);
            sgn(ulps(p, r.range_i64(-2, 2)), r)
        }
        // integer +/- k ulp (integers of every bit length up to 2^64)
        5 | 6 => {
            let bits = r.below(65) as u32;
            let n = if bits == 0 { 0 } else { r.next() >> (64 - bits) };
            sgn(ulps(n as f64, r.range_i64(-1, 1)), r)
        }
        // n / 10^k
        7 | 8 => {
            let n = match r.below(3) {
                0 => r.below(1000),
                1 => r.below(1_000_000_000),
                _ => r.below(1u64 << 53),
            } as f64;
            let k = r.below(26) as i32;
            sgn(n / 10f64.powi(k), r)
        }
        // half-integers and quarter-integers (rounding ties)
        9 => {
            let b = r.below(53) as u32;
            let n = r.below(1u64 << b) as f64;
            sgn(n + *r.pick(&[0.5, 0.25, 0.75, 0.49999999999999994, 0.5000000000000001]), r)
        }
        // huge
        10 => {
            let e = r.range_i64(0x7c0, 0x7fe) as u64;
            f64::from_bits(((r.below(2)) << 63) | (e << 52) | r.below(1u64 << 52))
        }
        // tiny normal
        11 => {
            let e = r.range_i64(0x001, 0x040) as u64;
            f64::from_bits(((r.below(2)) << 63) | (e << 52) | r.below(1u64 << 52))
        }
        // human magnitudes with a random mantissa
        12 | 13 => {
            let e = r.range_i64(0x3ff - 70, 0x3ff + 70) as u64;
            f64::from_bits(((r.below(2)) << 63) | (e << 52) | r.below(1u64 << 52))
        }
        // random bit pattern (NaN payloads included)
        _ => f64::from_bits(r.next()),
    }
}

/// a finite double (same classes, non-finite draws replaced)
pub fn f64_finite(r: &mut Rng) -> f64 {
    loop {
        let x = f64_class(r);
        if x.is_finite() {
            return x;
        }
    }
}

fn exp_of(x: f64) -> i64 {
    ((x.to_bits() >> 52) & 0x7ff) as i64 - 1023
}

/// a second operand correlated with the first (cancellation, overflow/underflow edges)
fn partner(r: &mut Rng, x: f64) -> f64 {
    match r.below(12) {
        0 => x,
        1 => -x,
        2 => ulps(x, r.range_i64(-3, 3)),
        3 => -ulps(x, r.range_i64(-3, 3)),
        // product / quotient lands near the overflow or underflow threshold
        4 | 5 if x.is_finite() && x != 0.0 => {
            let target = *r.pick(&[1023i64, 1024, -1022, -1023, -1074, -1075, -1076, 0, 52, 53]);
            let ex = exp_of(x);
            let ey = if r.chance(1, 2) { target - ex } else { ex - target }.clamp(-1022, 1023);
            let m = if r.chance(1, 4) { 0 } else { r.below(1u64 << 52) };
            f64::from_bits((r.below(2) << 63) | (((ey + 1023) as u64) << 52) | m)
        }
        // same binade, random mantissa (sum carries / difference cancels)
        6 if x.is_finite() => {
            let b = x.to_bits();
            f64::from_bits((b & 0xfff0_0000_0000_0000) ^ (r.below(2) << 63) | r.below(1u64 << 52))
        }
        // half an ulp of x and neighbours (ties of the sum)
        7 if x.is_finite() && x != 0.0 => {
            let h = (ulps(x.abs(), 1) - x.abs()) / 2.0;
            sgn(ulps(h, r.range_i64(-1, 1)), r)
        }
        _ => f64_class(r),
    }
}

fn int_class(r: &mut Rng) -> i128 {
    let s: i128 = if r.chance(1, 2) { 1 } else { -1 };
    match r.below(8) {
        0 => *r.pick(&[0i128, 1, -1, i64::MAX as i128, i64::MIN as i128, u64::MAX as i128, i128::MAX, i128::MIN,
            1 << 53, (1 << 53) + 1, (1 << 53) - 1, (1 << 54) + 2, (1 << 54) + 3, 32767, -32768]),
        1 => s * (r.below(1u64 << 53) as i128),
        2 => s * (((1u128 << (r.below(127) as u32)) as i128) + r.range_i64(-2, 2) as i128),
        3 => s * (r.next() as i128),
        4 => ((r.next() as i128) << 64) | r.next() as i128,
        // 54..64-bit integers whose low bits sit on a rounding tie
        5 => {
            let sh = r.below(11) as u32 + 1;
            let hi = (r.below(1u64 << 53) | (1u64 << 52)) as i128;
            s * ((hi << sh) + (1i128 << (sh - 1)) + r.range_i64(-1, 1) as i128)
        }
        _ => s * (r.below(100_000) as i128),
    }
}

pub fn inputs_f64(r: &mut Rng, n: usize, _tier: &str, out: &mut dyn Write) {
    for _ in 0..n {
        let x = f64_class(r);
        let xs = format!("{:016x}", x.to_bits());
        match r.below(32) {
            0 | 1 | 2 | 3 => writeln!(out, "f_add {} {:016x}", xs, partner(r, x).to_bits()).unwrap(),
            4 | 5 => writeln!(out, "f_sub {} {:016x}", xs, partner(r, x).to_bits()).unwrap(),
            6 | 7 | 8 | 9 => writeln!(out, "f_mul {} {:016x}", xs, partner(r, x).to_bits()).unwrap(),
            10 | 11 | 12 | 13 => writeln!(out, "f_div {} {:016x}", xs, partner(r, x).to_bits()).unwrap(),
            14 => writeln!(out, "f_floor {}", xs).unwrap(),
            15 => writeln!(out, "f_trunc {}", xs).unwrap(),
            16 => writeln!(out, "f_round {}", xs).unwrap(),
            17 => writeln!(out, "{} {}", r.pick(&["f_neg", "f_abs", "f_bits"]), xs).unwrap(),
            18 | 19 => {
                let p = match r.below(4) {
                    0 => r.range_i64(-5, 5),
                    1 => r.range_i64(-40, 40),
                    2 => r.range_i64(-400, 400),
                    _ => *r.pick(&[i32::MAX as i64, i32::MIN as i64, 1023, -1074, 308, -308, 309, -324, 22, 23]),
                };
                let a = match r.below(3) {
                    0 => 10.0,
                    1 => *r.pick(&[2.0, 0.5, -10.0, 0.1, 1.0000000000000002, 0.9999999999999999, -1.0, 3.0, 1e10, 1e-10]),
                    _ => x,
                };
                writeln!(out, "f_powi {:016x} {}", a.to_bits(), p).unwrap()
            }
            20 | 21 => {
                let op = *r.pick(&["f_lt", "f_le", "f_gt", "f_ge", "f_eq"]);
                writeln!(out, "{} {} {:016x}", op, xs, partner(r, x).to_bits()).unwrap()
            }
            22 | 23 | 24 | 25 => {
                let op = *r.pick(&["f_as_i64", "f_as_i128", "f_as_u64", "f_as_i32", "f_as_u8", "f_as_u16", "f_as_i64", "f_as_i128"]);
                writeln!(out, "{} {}", op, xs).unwrap()
            }
            26 | 27 => writeln!(out, "f_from_i64 {}", int_class(r) as i64).unwrap(),
            28 => writeln!(out, "f_from_u64 {}", int_class(r) as u64).unwrap(),
            29 | 30 => writeln!(out, "f_from_i128 {}", int_class(r)).unwrap(),
            _ => writeln!(out, "f_from_i16 {}", int_class(r) as i16).unwrap(),
        }
    }
}

pub fn exec(op: &str, a: &[&str]) -> Option<String> {
    use std::hint::black_box as bb;
    let f = |i: usize| bb(s2f(a[i]));
    let okf = |x: f64| Some(format!("ok {}", fc2s(x)));
    let okb = |b: bool| Some(format!("ok {}", if b { 1 } else { 0 }));
    match op {
        "f_add" => okf(f(0) + f(1)),
        "f_sub" => okf(f(0) - f(1)),
        "f_mul" => okf(f(0) * f(1)),
        "f_div" => okf(f(0) / f(1)),
        "f_neg" => okf(-f(0)),
        "f_abs" => okf(f(0).abs()),
        "f_bits" => okf(f(0)),
        "f_floor" => okf(f(0).floor()),
        "f_trunc" => okf(f(0).trunc()),
        "f_round" => okf(f(0).round()),
        "f_powi" => {
            let p: i32 = a[1].parse().unwrap();
            okf(f(0).powi(bb(p)))
        }
        "f_lt" => okb(f(0) < f(1)),
        "f_le" => okb(f(0) <= f(1)),
        "f_gt" => okb(f(0) > f(1)),
        "f_ge" => okb(f(0) >= f(1)),
        "f_eq" => okb(f(0) == f(1)),
        "f_as_i64" => Some(format!("ok {}", f(0) as i64)),
        "f_as_i128" => Some(format!("ok {}", f(0) as i128)),
        "f_as_u64" => Some(format!("ok {}", f(0) as u64)),
        "f_as_i32" => Some(format!("ok {}", f(0) as i32)),
        "f_as_u8" => Some(format!("ok {}", f(0) as u8)),
        "f_as_u16" => Some(format!("ok {}", f(0) as u16)),
        "f_from_i64" => okf(bb(a[0].parse::<i64>().unwrap()) as f64),
        "f_from_u64" => okf(bb(a[0].parse::<u64>().unwrap()) as f64),
        "f_from_i128" => okf(bb(a[0].parse::<i128>().unwrap()) as f64),
        "f_from_i16" => okf(f64::from(bb(a[0].parse::<i16>().unwrap()))),
        _ => None,
    }
}
