//! C04 C05 C06 C12 C15 C16 C20: epochs, time scales, leap seconds, ordering, series, weekdays, counters.
use crate::codec::*;
use crate::gen::*;
use crate::rng::Rng;
use hifitime::leap_seconds::{LatestLeapSeconds, LeapSecond, LeapSecondsFile};
use hifitime::{Duration, Epoch, TimeScale, TimeSeries, Unit, Weekday};
use std::cmp::Ordering;
use std::io::Write;

const DAY: i128 = 86_400_000_000_000;
const SEC: i128 = 1_000_000_000;

/// UTC-count time stamps (seconds since 1900) of the 28 IERS leap seconds, read from the library.
fn leap_ts() -> Vec<(i128, i128)> {
    LatestLeapSeconds::default()
        .filter(|l| l.announced_by_iers)
        .map(|l| (l.timestamp_tai_s as i128, l.delta_at as i128))
        .collect()
}

const UNIFORM: [&str; 6] = ["TAI", "TT", "GPST", "GST", "BDT", "QZSST"];
const NONDYN: [&str; 7] = ["TAI", "TT", "UTC", "GPST", "GST", "BDT", "QZSST"];

/// offset (ns) of the zero of a scale on the TAI count, as the generator's own arithmetic knows it
/// (only used to aim inputs at interesting instants, never as an oracle)
fn ref_off(ts: &str) -> i128 {
    match ts {
        "GPST" | "QZSST" => 2_524_953_619 * SEC,
        "GST" => 3_144_268_819 * SEC,
        "BDT" => 3_345_062_433 * SEC,
        "ET" | "TDB" => 3_155_716_800 * SEC,
        "TT" => -32_184_000_000,
        _ => 0,
    }
}

fn small_off(r: &mut Rng) -> i128 {
    let s: i128 = if r.chance(1, 2) { 1 } else { -1 };
    s * match r.below(10) {
        0 => 0,
        1 => 1,
        2 => r.below(500) as i128,
        3 => SEC,
        4 => SEC * (r.below(41) as i128),
        5 => SEC * (r.below(41) as i128) + r.below(SEC as u64) as i128,
        6 => DAY * (r.below(8) as i128),
        7 => DAY - 1,
        8 => r.below(DAY as u64) as i128,
        _ => SEC - 1,
    }
}

/// The *threshold lattice* of the epoch code: every word-size limit of a nanosecond or second count (0, +/-2^63, +/-2^64 ns,
/// +/-2^31, +/-2^32 s) shifted by every reference offset of the time scales and by every difference of two of them --
/// the places where a guard, a headroom constant or a fast path written in terms of one scale's count and another scale's
/// reference can sit (seeded change C05-6: a 64-bit fast path guarded by the WRONG scale's offset was wrong only between
/// -2^63 ns + offset(GST) and -2^63 ns + offset(BDT), a window of 6.4 years two centuries before the reference).
/// Returned sorted, each threshold followed (except the last per limit) by the MIDPOINT to the next one, so that a
/// wrong region bounded by two thresholds is hit in its interior as well as at its edges.
pub fn threshold_lattice() -> Vec<i128> {
    let offs: Vec<i128> = ["TAI", "TT", "GPST", "GST", "BDT", "ET"].iter().map(|t| ref_off(t)).collect();
    let mut shifts: Vec<i128> = Vec::new();
    for a in offs.iter() {
        shifts.push(*a);
        shifts.push(-*a);
        for b in offs.iter() {
            shifts.push(*a - *b);
            shifts.push(*a + *b);
            shifts.push(-*a - *b);
        }
    }
    shifts.sort();
    shifts.dedup();
    let mut out = Vec::new();
    for lim in [0i128, 1 << 63, -(1 << 63), 1 << 64, -(1 << 64), (1 << 31) * SEC, -(1 << 31) * SEC, (1 << 32) * SEC, -(1 << 32) * SEC] {
        for (i, sh) in shifts.iter().enumerate() {
            out.push(lim + sh);
            if i + 1 < shifts.len() {
                out.push(lim + (sh + shifts[i + 1]) / 2);
            }
        }
    }
    out
}

/// total ns of an epoch's duration in scale `ts`, aimed at structure
pub fn epoch_total(r: &mut Rng, ts: &str) -> i128 {
    let leaps = leap_ts();
    match r.below(13) {
        12 => {
            let l = threshold_lattice();
            *r.pick(&l) + *r.pick(&[-1i128, 0, 0, 1])
        }
        0 | 1 | 2 => {
            // around a leap second, in this scale's own count
            let (t, d) = *r.pick(&leaps);
            let base = match ts {
                "UTC" => t * SEC,
                _ => (t + d - if r.chance(1, 2) { 1 } else { 0 }) * SEC - ref_off(ts),
            };
            base + small_off(r)
        }
        3 => small_off(r),                    // around the scale's own zero
        4 => -ref_off(ts) + small_off(r),     // around 1900-01-01 TAI
        5 => {
            // around midnight of a random day within +/- 10 000 years
            let d = r.range_i64(-3_652_500, 3_652_500) as i128;
            d * DAY + small_off(r)
        }
        6 => {
            let k = r.range_i64(-100, 100) as i128;
            k * NPC + small_off(r)
        }
        7 => total(r), // anything representable (conversions may saturate: flagged by the driver)
        8 => {
            // 1960..1972 (SOFA entries must not influence conversions)
            (1_893_369_600 + r.below(400_000_000) as i128) * SEC + small_off(r)
        }
        _ => {
            // uniform within +/- 10 000 years at ns resolution
            let d = r.range_i64(-3_652_500, 3_652_500) as i128;
            d * DAY + r.below(DAY as u64) as i128
        }
    }
    .clamp(DMIN, DMAX)
}

pub fn estr(r: &mut Rng, ts: &str) -> String {
    format!("{}:{}", dstr(epoch_total(r, ts)), ts)
}

fn wd(r: &mut Rng) -> u64 {
    r.below(7)
}

/// century indexes across the whole i16 range, dense around the powers of two and the ends (a century count obtained with a
/// rounded reciprocal, a shift or a narrow cast is wrong only there) plus a few random ones
pub fn century_lattice(r: &mut Rng) -> Vec<i128> {
    let mut cs: Vec<i128> = vec![0, 1, -1, 2, -2, 32767, 32766, -32767, -32768];
    for k in 1..=15u32 {
        for j in 0..=3i128 {
            cs.push((1i128 << k) - j);
            cs.push(-((1i128 << k) - j));
        }
    }
    for _ in 0..30 {
        cs.push(r.range_i64(-32768, 32767) as i128);
    }
    cs.retain(|c| *c >= -32768 && *c <= 32767);
    cs.sort();
    cs.dedup();
    cs
}

pub fn inputs_c04(r: &mut Rng, n: usize, _tier: &str, out: &mut dyn Write) {
    // result-in-the-first/last-second-of-a-century block for every stepping entry point, over the century lattice (seeded
    // change C04-8: `Epoch + f64` whole seconds through `floor(total_s * (1 / seconds per century))`, a century early in the
    // first second of the negative centuries just below a power of two, and left un-normalised)
    if n >= 5000 {
        const ALL9: [&str; 9] = ["TAI", "TT", "UTC", "GPST", "GST", "BDT", "QZSST", "ET", "TDB"];
        for (i, c) in century_lattice(r).iter().enumerate() {
            let ts = ALL9[i % 9];
            let s: i128 = *r.pick(&[1i128, 2, 59, 3600, 86400]);
            let sub: i128 = *r.pick(&[0i128, 1, 499_999_999, 999_999_999]);
            for land in [c * NPC + sub, c * NPC - SEC + sub] {
                let e = land - s * SEC;
                if e < DMIN || land > DMAX {
                    continue;
                }
                writeln!(out, "eaddf {}:{} {}", dstr(e), ts, f2s(s as f64)).unwrap();
                writeln!(out, "eaddf {}:{} {}", dstr(land + s * SEC), ts, f2s(-(s as f64))).unwrap();
                match i % 3 {
                    0 => writeln!(out, "eadd {}:{} {}", dstr(e), ts, dstr(s * SEC)).unwrap(),
                    1 => writeln!(out, "eaddassign {}:{} {}", dstr(e), ts, dstr(s * SEC)).unwrap(),
                    _ => writeln!(out, "esub {}:{} {}", dstr(land + s * SEC), ts, dstr(s * SEC)).unwrap(),
                }
            }
        }
    }
    for _ in 0..n {
        // one case in six on an epoch HELD in ET or TDB (every op but the cross-scale difference, which has its own op ediff9)
        let dyn_held = r.chance(1, 6);
        let ts = if dyn_held { *r.pick(&["ET", "TDB"]) } else { *r.pick(&NONDYN) };
        let e = epoch_total(r, ts);
        let d = match r.below(4) {
            0 => total(r),
            1 => small_off(r),
            _ => partner(r, e),
        };
        match r.below(17) {
            14 | 15 => {
                // Epoch - Epoch over ALL nine scales, at least one operand in ET or TDB, within +/- 10 000 years:
                // observed together with the right operand re-expressed in the left operand's scale
                const ALL9: [&str; 9] = ["TAI", "TT", "UTC", "GPST", "GST", "BDT", "QZSST", "ET", "TDB"];
                let dy = *r.pick(&["ET", "TDB"]);
                let other = *r.pick(&ALL9);
                let (ta, tb) = if r.chance(1, 2) { (dy, other) } else { (other, dy) };
                let inst = (r.range_i64(-3_600_000, 3_600_000) as i128) * DAY + small_off(r); // TAI count
                let a = inst - ref_off(ta);
                let b = if r.chance(1, 2) { inst + small_off(r) - ref_off(tb) } else { (r.range_i64(-3_600_000, 3_600_000) as i128) * DAY + r.below(DAY as u64) as i128 - ref_off(tb) };
                writeln!(out, "ediff9 {}:{} {}:{}", dstr(a), ta, dstr(b), tb).unwrap()
            }
            16 => {
                // the algebraic identities in the dynamical scales (same-scale arithmetic on the elapsed time)
                let ts2 = *r.pick(&["ET", "TDB"]);
                let e2 = epoch_total(r, ts2);
                if r.chance(1, 2) {
                    writeln!(out, "eroundtrip {}:{} {}", dstr(e2), ts2, dstr(d)).unwrap()
                } else {
                    let f = if r.chance(1, 2) { e2 + small_off(r) } else { epoch_total(r, ts2) };
                    writeln!(out, "eaddiff {}:{} {}:{}", dstr(e2), ts2, dstr(f), ts2).unwrap()
                }
            }
            0 | 1 => writeln!(out, "eadd {}:{} {}", dstr(e), ts, dstr(d)).unwrap(),
            2 | 3 => writeln!(out, "esub {}:{} {}", dstr(e), ts, dstr(d)).unwrap(),
            4 | 5 if dyn_held => writeln!(out, "eadd {}:{} {}", dstr(e), ts, dstr(d)).unwrap(),
            4 | 5 => {
                // difference of two epochs, possibly in different (non dynamical) scales
                let ts2 = if r.chance(1, 2) { ts } else { *r.pick(&NONDYN) };
                let f = match r.below(5) {
                    0 | 1 => e + small_off(r) + ref_off(ts) - ref_off(ts2),
                    // a difference of a whole number of 2^64 / 2^63 / 2^32 ns (+/- 1)
                    2 => (e + ref_off(ts) - ref_off(ts2) + (*r.pick(&[-2i128, -1, 1, 2])) * (*r.pick(&[1i128 << 64, 1i128 << 63, 1i128 << 32])) + r.range_i64(-1, 1) as i128).clamp(DMIN, DMAX),
                    _ => epoch_total(r, ts2),
                };
                writeln!(out, "ediff {}:{} {}:{}", dstr(e), ts, dstr(f), ts2).unwrap()
            }
            6 => writeln!(out, "eaddu {}:{} {}", dstr(e), ts, unit_name(r)).unwrap(),
            7 => writeln!(out, "esubu {}:{} {}", dstr(e), ts, unit_name(r)).unwrap(),
            8 => {
                // float seconds that are exact integers
                let k: i64 = match r.below(8) {
                    0 => r.range_i64(-100, 100),
                    // anywhere in (and a little beyond) the range of a Duration; a few far beyond i64 nanoseconds
                    7 => match r.below(4) {
                        0 => *r.pick(&[i64::MAX, i64::MIN, 9_223_372_036, 9_223_372_037, -9_223_372_037, 4_611_686_019, 315_576_000_001]),
                        _ => r.range_i64(-104_000_000_000_000, 104_000_000_000_000),
                    },
                    1 => r.range_i64(-4_000_000_000, 4_000_000_000),
                    2 => r.range_i64(-9_007_199, 9_007_199),
                    3 => *r.pick(&[0i64, 1, -1, 86400, -86400, 9_007_199, -9_007_199]),
                    5 | 6 => {
                        // large integers whose product with 1e9 is still exact in binary64: small * 2^a * 5^b
                        let small = r.range_i64(-999, 999);
                        let mut v = small;
                        for _ in 0..r.below(12) { if v.abs() < 30_000_000_000 { v *= *r.pick(&[2i64, 5, 10]); } }
                        v
                    }
                    _ => r.range_i64(-315_576_000_000, 315_576_000_000),
                };
                writeln!(out, "eaddf {}:{} {}", dstr(e), ts, f2s(k as f64)).unwrap()
            }
            9 => {
                let op = *r.pick(&["eaddassign", "esubassign"]);
                writeln!(out, "{} {}:{} {}", op, dstr(e), ts, dstr(d)).unwrap()
            }
            10 => writeln!(out, "eroundtrip {}:{} {}", dstr(e), ts, dstr(d)).unwrap(),
            11 => {
                // e + (f - e) = f, same scale
                let f = if r.chance(1, 2) { e + small_off(r) } else { epoch_total(r, ts) };
                writeln!(out, "eaddiff {}:{} {}:{}", dstr(e), ts, dstr(f), ts).unwrap()
            }
            12 => {
                let op = *r.pick(&["efloor", "eceil", "eround"]);
                let step = match r.below(3) {
                    0 => DAY,
                    1 => 3600 * SEC * r.range_i64(1, 30) as i128,
                    _ => r.below(10 * DAY as u64) as i128 + 1,
                };
                writeln!(out, "{} {}:{} {}", op, dstr(e), ts, dstr(step)).unwrap()
            }
            _ => {
                let ts2 = *r.pick(&["ET", "TDB"]);
                // the time scale never changes, also for the dynamical scales
                writeln!(out, "eadd {}:{} {}", dstr(epoch_total(r, ts2)), ts2, dstr(small_off(r))).unwrap()
            }
        }
    }
}

/// `precise_timescale_conversion` with the zero polynomial, reference epoch in the target's scale, the epoch's scale or a
/// third one, at a gap of nothing, minutes, a day or years (seeded change C07-8: a fast path `reference + (self - reference)`
/// when the reference is already in the target scale, which freezes the ET/TDB periodic term at the reference epoch)
fn precise0_lines(r: &mut Rng, out: &mut dyn Write, srcs: &[&str], tgts: &[&str], k: usize) {
    const ALL9: [&str; 9] = ["TAI", "TT", "UTC", "GPST", "GST", "BDT", "QZSST", "ET", "TDB"];
    for _ in 0..k {
        let a = *r.pick(srcs);
        let b = *r.pick(tgts);
        if a == b {
            continue;
        }
        let inst = (r.range_i64(-36_525, 73_050) as i128) * DAY + r.below(DAY as u64) as i128; // 1800 .. 2100, TAI count
        let e = s2e(&format!("{}:TAI", dstr(inst))).to_time_scale(s2ts(a));
        let gap = (if r.chance(1, 2) { 1 } else { -1 }) * match r.below(5) { 0 => 0, 1 => 120 * SEC + r.below(3_600_000_000_000) as i128, 2 => DAY, 3 => 7 * DAY + r.below(DAY as u64) as i128, _ => 400 * DAY };
        let rs = match r.below(4) { 0 | 1 => b, 2 => a, _ => *r.pick(&ALL9) };
        let refe = s2e(&format!("{}:TAI", dstr(inst + gap))).to_time_scale(s2ts(rs));
        writeln!(out, "precise0 {} {} {} {}", e2s(e), e2s(refe), b, r.below(2)).unwrap();
    }
}

pub fn inputs_c05(r: &mut Rng, n: usize, _tier: &str, out: &mut dyn Write) {
    precise0_lines(r, out, &UNIFORM, &UNIFORM, (n / 100).max(20));
    // symmetry block: for every ordered pair of scales the value whose count in the target scale is the NEGATION of
    // its count in the source scale (v = -(offset difference)/2), +/- 2 ns -- `Duration ==` holds between a duration
    // and its negation within a century of zero, so shortcuts written with `==` misfire exactly there
    for a in UNIFORM {
        for b in UNIFORM {
            if a == b {
                continue;
            }
            let v = -(ref_off(a) - ref_off(b)) / 2;
            for k in -2i128..=2 {
                writeln!(out, "tots {}:{} {}", dstr(v + k), a, b).unwrap();
                writeln!(out, "tsback {}:{} {}", dstr(v + k), a, b).unwrap();
                writeln!(out, "tscomm {}:{} {} {}", dstr(v + k), a, b, dstr(1 + r.below(1000) as i128)).unwrap();
            }
        }
    }
    // result-on-a-century block: the values whose count IN THE TARGET scale is a whole number of centuries (where the
    // (centuries, nanoseconds) form of the result rolls over), +/- 1 ns
    for a in UNIFORM {
        for b in UNIFORM {
            if a == b {
                continue;
            }
            for c in -2i128..=2 {
                for dt in [-1i128, 0, 1] {
                    writeln!(out, "tots {}:{} {}", dstr(c * NPC - (ref_off(a) - ref_off(b)) + dt), a, b).unwrap();
                }
            }
        }
    }
    // threshold lattice: every value of it (+/- 1 ns at the thresholds), converted between 6 random ordered pairs of
    // scales in the quick tier and between all 30 in the thorough tier / extended search
    {
        let mut pairs: Vec<(&str, &str)> = Vec::new();
        for a in UNIFORM {
            for b in UNIFORM {
                if a != b {
                    pairs.push((a, b));
                }
            }
        }
        for (i, v) in threshold_lattice().iter().enumerate() {
            let k0 = r.below(30) as usize;
            let np = if _tier == "thorough" { 30 } else { 6 };
            for j in 0..np {
                let (a, b) = pairs[(k0 + j * 5 + j / 6) % 30];
                let dts: &[i128] = if i % 2 == 0 { &[-1, 0, 1] } else { &[0] };
                for dt in dts {
                    let e = (*v + *dt).clamp(DMIN, DMAX);
                    match (i + j) % 4 {
                        0 | 1 => writeln!(out, "tots {}:{} {}", dstr(e), a, b).unwrap(),
                        2 => writeln!(out, "tsback {}:{} {}", dstr(e), a, b).unwrap(),
                        _ => writeln!(out, "tscomm {}:{} {} {}", dstr(e), a, b, dstr(1 + r.below(1000) as i128)).unwrap(),
                    }
                }
            }
        }
    }
    for k in 0..n {
        if k % 12 == 11 {
            // the thin public wrappers (from_X_seconds/days, to_X_seconds/days, to_tai(unit) ...) against the generic call
            super::wrappers::gen_c05(r, out);
            continue;
        }
        let a = *r.pick(&UNIFORM);
        let b = *r.pick(&UNIFORM);
        let e = epoch_total(r, a);
        match r.below(10) {
            0 | 1 | 2 | 3 => writeln!(out, "tots {}:{} {}", dstr(e), a, b).unwrap(),
            4 => writeln!(out, "tsback {}:{} {}", dstr(e), a, b).unwrap(),
            5 => writeln!(out, "tscomm {}:{} {} {}", dstr(e), a, b, dstr(small_off(r) * (1 + r.below(1000) as i128))).unwrap(),
            6 => {
                let acc = *r.pick(&["to_tai_duration", "to_tt_duration", "to_gpst_duration", "to_gst_duration", "to_bdt_duration", "to_qzsst_duration", "to_duration_since_j1900"]);
                writeln!(out, "acc {} {}:{}", acc, dstr(e), a).unwrap()
            }
            7 => {
                let c = *r.pick(&["from_tai_duration", "from_tt_duration", "from_gpst_duration", "from_gst_duration", "from_bdt_duration", "from_qzsst_duration"]);
                writeln!(out, "from_dur {} {}", c, dstr(e)).unwrap()
            }
            8 if r.chance(1, 2) => writeln!(out, "refepoch {}", a).unwrap(),
            8 => {
                // the nanosecond counters read a conversion too (to_gpst_nanoseconds of an epoch held in BDT is the GPST count
                // of that instant): two seeded changes put a GNSS->GNSS shortcut there and were filed under this property
                let g = *r.pick(&["gpst", "qzsst", "gst", "bdt"]);
                let gts = match g { "gpst" => "GPST", "qzsst" => "QZSST", "gst" => "GST", _ => "BDT" };
                let t = ref_off(gts) - ref_off(a) + match r.below(4) { 0 => small_off(r), 1 => NPC - 1 - r.below(1000) as i128, _ => r.below(NPC as u64) as i128 };
                if r.chance(1, 3) {
                    // ... and the counter constructors (a third seeded change filed here left from_*_nanoseconds un-normalised)
                    let v: u64 = match r.below(4) { 0 => NPC as u64 + r.below(3), 1 => r.next(), 2 => NPC as u64 - 1 - r.below(3), _ => r.below(NPC as u64) };
                    writeln!(out, "ns_rt {} {}", g, v).unwrap();
                    continue;
                }
                writeln!(out, "to_ns {} {}:{}", g, dstr(t), a).unwrap()
            }
            _ => writeln!(out, "to_dur_in {}:{} {}", dstr(e), a, b).unwrap(),
        }
    }
}

pub fn inputs_c06(r: &mut Rng, n: usize, tier: &str, out: &mut dyn Write) {
    let leaps = leap_ts();
    precise0_lines(r, out, &["UTC"], &UNIFORM, (n / 600).max(20));
    precise0_lines(r, out, &UNIFORM, &["UTC"], (n / 600).max(20));
    // the table through the Iterator protocol: after every number of forward steps, each reading method
    for which in ["builtin", "file"] {
        for k in 0..=43usize {
            for m in ["last", "count", "rest", "min", "max"] {
                if k % 3 == 0 || m == "last" {
                    writeln!(out, "lsiter {} {} {} 0", which, k, m).unwrap();
                }
            }
            writeln!(out, "lsiter {} {} nth {}", which, k, (k * 7 + 3) % 45).unwrap();
        }
        writeln!(out, "lsiter {} 0 rev 0", which).unwrap();
        writeln!(out, "lsiter {} 0 index 0", which).unwrap();
    }
    // systematic part: every second in +/- 40 s of each entry, both directions, plus ns edges
    let mut emitted = 0usize;
    let span: i128 = if tier == "thorough" { 40 } else { 40 };
    for (t, d) in leaps.iter() {
        for s in -span..=span {
            for sub in [0i128, 1, SEC - 1, 500_000_000] {
                if emitted >= n / 2 {
                    break;
                }
                let u = (t + s) * SEC + sub;
                writeln!(out, "tots {}:UTC TAI", dstr(u)).unwrap();
                writeln!(out, "utcrt {}:UTC", dstr(u)).unwrap();
                let ta = (t + d + s) * SEC + sub;
                writeln!(out, "tots {}:TAI UTC", dstr(ta)).unwrap();
                emitted += 3;
                if sub == 0 || sub == 500_000_000 {
                    // the duration-valued accessors that cross UTC <-> TAI, on the same instants (seeded change C06-12: a fast
                    // path of to_duration_since_j1900 adding leap_seconds_iers() of the UTC epoch itself, one second early)
                    writeln!(out, "acc to_duration_since_j1900 {}:UTC", dstr(u)).unwrap();
                    writeln!(out, "acc to_tai_duration {}:UTC", dstr(u)).unwrap();
                    writeln!(out, "acc to_utc_duration {}:TAI", dstr(ta)).unwrap();
                    emitted += 3;
                }
            }
        }
    }
    while emitted < n {
        emitted += 1;
        let (t, d) = *r.pick(&leaps);
        match r.below(12) {
            0 | 1 => {
                let u = t * SEC + small_off(r) / if r.chance(1, 2) { 1 } else { 1000 };
                writeln!(out, "tots {}:UTC TAI", dstr(u)).unwrap()
            }
            2 | 3 => {
                let ta = (t + d) * SEC + small_off(r) / if r.chance(1, 2) { 1 } else { 1000 };
                writeln!(out, "tots {}:TAI UTC", dstr(ta)).unwrap()
            }
            4 => writeln!(out, "utcrt {}", estr(r, "UTC")).unwrap(),
            5 => {
                let ts = *r.pick(&NONDYN);
                let b = r.below(2);
                writeln!(out, "leap {} {}", estr(r, ts), b).unwrap()
            }
            6 => {
                let ts = *r.pick(&NONDYN);
                writeln!(out, "leap_iers {}", estr(r, ts)).unwrap()
            }
            7 => {
                let ts = *r.pick(&["TAI", "UTC"]);
                let b = r.below(2);
                let which = *r.pick(&["file", "builtin"]);
                writeln!(out, "leap_with {} {} {}", which, estr(r, ts), b).unwrap()
            }
            8 => {
                // monotonicity probes: two TAI instants, the second later by a small step
                let ta = (t + d) * SEC + small_off(r);
                let step = 1 + r.below(3 * SEC as u64) as i128;
                writeln!(out, "utcmono {}:TAI {}", dstr(ta), dstr(step)).unwrap()
            }
            9 => {
                let u = t * SEC + small_off(r);
                let step = 1 + r.below(3 * SEC as u64) as i128;
                writeln!(out, "taimono {}:UTC {}", dstr(u), dstr(step)).unwrap()
            }
            10 => {
                // a provider loaded from a generated IERS-format file
                let k = 1 + r.below(6) as usize;
                let mut txt = String::from("# generated\n#$ 1\n");
                // time stamps are u64 seconds: also entries around and beyond 2^32 s (NTP era rollover in 2036)
                let mut ts0: u64 = match r.below(4) {
                    0 => 4_294_967_296 - 86_400 * r.below(3),
                    1 => 4_294_967_296 + 86_400 * r.below(100_000),
                    _ => 2_272_060_800 + 86_400 * r.below(1000),
                };
                let mut off: u64 = r.below(20);
                let mut probes = Vec::new();
                // layout variations the IERS format allows ("A blank line should be ignored", comment lines anywhere,
                // any run of blanks/tabs between the columns, an optional trailing comment)
                if r.chance(1, 3) {
                    txt.push('\n');
                }
                for _ in 0..k {
                    match r.below(6) {
                        0 => txt.push('\n'),
                        1 => txt.push_str("#\tcomment 3692217600 37\n"),
                        2 => txt.push_str("\n#h x\n\n"),
                        _ => {}
                    }
                    let sep = *r.pick(&["\t", " ", "  ", "\t\t", " \t "]);
                    let tail = *r.pick(&["\t# x", "", " # 1 Jan 1972", "\t#", " "]);
                    // columns are white-space separated: a data line may be indented, and lines may end in CR LF
                    let lead = *r.pick(&["", "", "", "", " ", "\t", "  ", " \t"]);
                    let eol = *r.pick(&["\n", "\n", "\n", "\n", "\r\n"]);
                    txt.push_str(&format!("{}{}{}{}{}{}", lead, ts0, sep, off, tail, eol));
                    probes.push(ts0);
                    ts0 += 86_400 * (1 + r.below(2000));
                    off += 1;
                }
                match r.below(4) {
                    0 => txt.push('\n'),
                    1 => {
                        txt.pop(); // no final newline
                    }
                    _ => {}
                }
                let p = (*r.pick(&probes) as i128) * SEC + small_off(r);
                writeln!(out, "lsfile_lookup {} {}:TAI", str2hex(&txt), dstr(p)).unwrap()
            }
            _ => {
                let ts = *r.pick(&["TAI", "UTC"]);
                let other = if ts == "TAI" { "UTC" } else { "TAI" };
                writeln!(out, "tots {} {}", estr(r, ts), other).unwrap()
            }
        }
    }
    writeln!(out, "leap_table builtin").unwrap();
    writeln!(out, "leap_table file").unwrap();
}

pub fn inputs_c07(r: &mut Rng, n: usize, tier: &str, out: &mut dyn Write) {
    const DYN: [&str; 2] = ["ET", "TDB"];
    precise0_lines(r, out, &NONDYN, &DYN, (n / 100).max(20));
    precise0_lines(r, out, &DYN, &["TAI", "TT", "UTC", "GPST", "GST", "BDT", "QZSST", "ET", "TDB"], (n / 100).max(20));
    // symmetry block: the one place where the dynamical count d (past J2000) and the TAI count of the same instant
    // (past J2000) are each other's NEGATION, d = +(dyn - TAI)/2 -- Duration's `==` holds between a duration and
    // its negation within a century of zero, so a convergence or fast-path test written with `==` misfires exactly
    // there; every nanosecond of a window around it, in both directions (aimed with the property's closed forms)
    {
        let w: i128 = if tier == "thorough" { 20_000 } else { 300 };
        let j2000 = 3_155_716_800 * SEC;
        for dy in DYN {
            let delta = |t: f64| -> f64 {
                if dy == "ET" {
                    let m = 6.239996 + 1.99096871e-7 * t;
                    32.184 + 1.657e-3 * (m + 1.671e-2 * m.sin()).sin()
                } else {
                    let g = 357.528_f64.to_radians() + 1.990910018065731e-7 * t;
                    32.184 + 0.001658 * (g + 0.0167 * g.sin()).sin()
                }
            };
            let mut d = 16.0_f64;
            for _ in 0..8 {
                d = delta(d) / 2.0;
            }
            let half = (d * 1e9).round() as i128;
            for k in -w..=w {
                let u = *r.pick(&UNIFORM);
                writeln!(out, "dyn_to {}:{} {}", dstr(half + k), dy, u).unwrap();
                writeln!(out, "dyn_to {}:{} {}", dstr(j2000 - ref_off(u) - half + k), u, dy).unwrap();
                if k % 4 == 0 {
                    writeln!(out, "dyn_rt {}:{} {}", dstr(half + k), dy, u).unwrap();
                    writeln!(out, "dyn_rt {}:TAI {}", dstr(j2000 - half + k), dy).unwrap();
                }
            }
        }
    }
    // phase block: the instants at which the periodic term of ET/TDB vanishes (mean anomaly = k*pi) or is extremal
    // ((k + 1/2)*pi), and their neighbourhood out to a quarter of an hour -- where a convergence test, an early exit or a
    // tolerance written in terms of the SIZE of the correction (or of its change) behaves differently (seeded change
    // C07-6: a fixed-point loop on the periodic term that exits on its first pass when |g| < 100 ns)
    {
        let j2000 = 3_155_716_800 * SEC;
        for (i, dy) in DYN.iter().enumerate() {
            let (m0, m1) = if *dy == "ET" { (6.239996_f64, 1.99096871e-7_f64) } else { (357.528_f64.to_radians(), 1.990910018065731e-7_f64) };
            for j in 0..24i64 {
                // k*pi/2 for k spread over +/- 10 000 years (|M1*t| < 62 800 rad), always including the crossings next to J2000
                let k: i64 = if j < 6 { j - 1 } else { r.range_i64(-39_000, 39_000) };
                let t0 = ((k as f64) * std::f64::consts::FRAC_PI_2 - m0) / m1; // seconds past J2000
                for dt in [-900i128, -400, -250, -150, -90, -60, -30, -5, 0, 5, 30, 60, 90, 150, 250, 400, 900] {
                    let t = ((t0 * 1e9) as i128) + dt * SEC + r.below(SEC as u64) as i128;
                    let u = UNIFORM[((j as usize) + i + (dt.unsigned_abs() as usize)) % UNIFORM.len()];
                    writeln!(out, "dyn_to {}:{} {}", dstr(j2000 - ref_off(u) + t), u, dy).unwrap();
                    writeln!(out, "dyn_to {}:{} {}", dstr(t), dy, u).unwrap();
                    if dt % 20 != 0 || dt == 0 {
                        writeln!(out, "dyn_rt {}:{} {}", dstr(j2000 - ref_off(u) + t), u, dy).unwrap();
                        writeln!(out, "dyn_rt {}:{} {}", dstr(t), dy, u).unwrap();
                    }
                }
            }
        }
    }
    // instants INSIDE an inserted leap second (and inside the ten-second step of 1972), held in the uniform scales: they
    // have no UTC count, so a conversion that detours through UTC folds them onto the second before
    {
        const ACC: [&str; 4] = ["to_et_duration", "to_tdb_duration", "to_jde_et_duration", "to_jde_tdb_duration"];
        let mut k = 0usize;
        for (t, d) in leap_ts() {
            for sub in [0i128, 500_000_000, SEC - 1] {
                let u = UNIFORM[k % UNIFORM.len()];
                let dy = DYN[k % 2];
                let tai = (t + d - 1) * SEC + sub; // inside the inserted second
                let es = format!("{}:{}", dstr(tai - ref_off(u)), u);
                writeln!(out, "dyn_acc {} {}", ACC[k % 4], es).unwrap();
                writeln!(out, "dyn_acc {} {}", ACC[(k + 1) % 4], es).unwrap();
                writeln!(out, "dyn_to {} {}", es, dy).unwrap();
                writeln!(out, "dyn_rt {} {}", es, dy).unwrap();
                k += 1;
            }
        }
    }
    for _ in 0..n {
        let u = *r.pick(&UNIFORM);
        let dy = *r.pick(&DYN);
        // within +/- 10 000 years of J2000, expressed in the chosen scale's own count
        let j2000 = 3_155_716_800 * SEC;
        let around = |r: &mut Rng| -> i128 {
            match r.below(6) {
                0 => small_off(r),
                1 => (r.range_i64(-3_652_500, 3_652_500) as i128) * DAY + small_off(r),
                2 => (r.range_i64(-36525, 36525) as i128) * DAY + r.below(DAY as u64) as i128,
                3 => (r.range_i64(-100, 100) as i128) * NPC + small_off(r),
                _ => (r.range_i64(-3_652_500, 3_652_500) as i128) * DAY + r.below(DAY as u64) as i128,
            }
        };
        let t_u = j2000 - ref_off(u) + around(r); // value in uniform scale u
        let t_d = around(r); // value in ET/TDB (past J2000)
        match r.below(10) {
            0 | 1 | 2 => writeln!(out, "dyn_to {}:{} {}", dstr(t_u), u, dy).unwrap(),
            3 | 4 => writeln!(out, "dyn_to {}:{} {}", dstr(t_d), dy, u).unwrap(),
            5 | 6 => writeln!(out, "dyn_rt {}:{} {}", dstr(t_u), u, dy).unwrap(),
            7 => writeln!(out, "dyn_rt {}:{} {}", dstr(t_d), dy, u).unwrap(),
            8 => {
                // order of instants more than 100 ns apart is preserved
                let gap = 101 + match r.below(3) { 0 => 0, 1 => r.below(1000) as i128, _ => r.below(DAY as u64) as i128 };
                if r.chance(1, 2) {
                    writeln!(out, "dyn_mono {}:{} {} {}", dstr(t_u), u, dstr(gap), dy).unwrap()
                } else {
                    writeln!(out, "dyn_mono {}:{} {} {}", dstr(t_d), dy, dstr(gap), u).unwrap()
                }
            }
            _ => {
                let acc = *r.pick(&["to_et_duration", "to_tdb_duration", "to_jde_et_duration", "to_jde_tdb_duration"]);
                if r.chance(1, 3) {
                    // "for every epoch": also epochs HELD in ET or TDB, read through either scale's accessors
                    writeln!(out, "dyn_acc {} {}:{}", acc, dstr(t_d), *r.pick(&DYN)).unwrap()
                } else {
                    writeln!(out, "dyn_acc {} {}:{}", acc, dstr(t_u), u).unwrap()
                }
            }
        }
    }
}

fn f_days(r: &mut Rng) -> f64 {
    // MJD-like day counts within +/- 10 000 years of 1900, various granularities
    let base = 15020.0;
    match r.below(6) {
        0 => base + r.range_i64(-3_652_500, 3_652_500) as f64,
        1 => base + r.range_i64(-3_652_500, 3_652_500) as f64 + 0.5,
        2 => base + (r.range_i64(-3_652_500 * 86400, 3_652_500 * 86400) as f64) / 86400.0,
        3 => *r.pick(&[15020.0, 51544.5, 0.0, 40587.0, 44244.0, 15019.999999, 15020.000001]),
        4 => base + (r.next() as f64 / u64::MAX as f64 - 0.5) * 7_305_000.0,
        _ => base + r.range_i64(-40000, 60000) as f64 + (r.below(86_400_000) as f64) / 86_400_000.0,
    }
}

pub fn inputs_c17(r: &mut Rng, n: usize, _tier: &str, out: &mut dyn Write) {
    const ACCD: [&str; 5] = ["to_jde_tai_duration", "to_jde_utc_duration", "to_jde_tt_duration", "to_mjd_tt_duration", "to_tt_since_j2k"];
    const ACCF: [&str; 22] = ["to_mjd_tai_days", "to_mjd_tai_seconds", "to_mjd_utc_days", "to_mjd_utc_seconds", "to_jde_tai_days",
        "to_jde_tai_seconds", "to_jde_utc_days", "to_jde_utc_seconds", "to_tt_seconds", "to_tt_days", "to_tt_centuries_j2k",
        "to_jde_tt_days", "to_mjd_tt_days", "to_unix_seconds", "to_unix_milliseconds", "to_unix_days", "to_tai_seconds",
        "to_tai_days", "to_utc_seconds", "to_utc_days", "to_gpst_seconds", "to_gpst_days"];
    // boundary block: every UTC-dependent view in the last 37 s before and the first seconds after each
    // leap second, the instant expressed in a rotating scale (a seeded change made the UNIX views one
    // second low in exactly that window and only 13 of 20 000 random cases fell into it)
    let mut n = n;
    if n >= 5000 {
        const UTCV: [&str; 9] = ["to_unix_seconds", "to_unix_milliseconds", "to_unix_days", "to_utc_seconds", "to_utc_days",
            "to_mjd_utc_days", "to_mjd_utc_seconds", "to_jde_utc_days", "to_jde_utc_seconds"];
        let mut k = 0usize;
        for (t, d) in leap_ts() {
            for acc in UTCV {
                for off in [-36i128, -20, -10, -1, 0, 1] {
                    let ts = NONDYN[k % NONDYN.len()];
                    k += 1;
                    // TAI count of the instant `off` seconds from the first instant after the inserted second
                    let tai = (t + d + off) * SEC + r.below(SEC as u64) as i128;
                    let e = if ts == "UTC" { (t + off) * SEC + r.below(SEC as u64) as i128 } else { tai - ref_off(ts) };
                    writeln!(out, "accf {} {}:{}", acc, dstr(e), ts).unwrap();
                    n -= 1;
                }
            }
        }
    }
    // result-on-a-century block: the epochs at which a duration-valued VIEW (not the epoch's own count) is a whole
    // number of centuries, i.e. where the (centuries, nanoseconds) form of the RESULT rolls over, +/- 1 ns; aimed with
    // the library's own view (two steps, because the UTC views move with the leap seconds), judged by the spec
    if n >= 5000 {
        let mut k = 0usize;
        for name in ACCD {
            let sibs: &[&str] = match name {
                "to_jde_tai_duration" => &["to_jde_tai_days", "to_jde_tai_seconds"],
                "to_jde_utc_duration" => &["to_jde_utc_days", "to_jde_utc_seconds"],
                "to_jde_tt_duration" => &["to_jde_tt_days"],
                "to_mjd_tt_duration" => &["to_mjd_tt_days"],
                _ => &["to_tt_centuries_j2k", "to_tt_days", "to_tt_seconds"],
            };
            for c in -3i128..=70 {
                if c > 3 && c < 64 {
                    continue; // JD views: 66 centuries + 4370.5 days at the reference
                }
                let ts = NONDYN[k % NONDYN.len()];
                k += 1;
                let mut e = s2e(&format!("0:0:{}", ts));
                for _ in 0..3 {
                    let got = match acc17_call(name, &e) { Some(d) => d.total_nanoseconds(), None => break };
                    e = e + Duration::from_total_nanoseconds(c * NPC - got);
                }
                let base = e.duration.total_nanoseconds();
                if base.abs() > 3_700_000 * DAY {
                    continue;
                }
                for dt in [-1i128, 0, 1] {
                    let es = format!("{}:{}", dstr(base + dt), ts);
                    writeln!(out, "acc17 {} {}", name, es).unwrap();
                    for sb in sibs {
                        writeln!(out, "accf {} {}", sb, es).unwrap();
                    }
                    n = n.saturating_sub(1 + sibs.len());
                }
            }
        }
    }
    // the ET / TDB Julian-date views on epochs HELD in ET / TDB (exact: no conversion): the result-on-a-century class
    // (JD of J2000 = 67 centuries + 4370 days, so the view is a whole number of centuries at c centuries + 32155 days),
    // whole and half days, day and century edges, anything within +/- 10 000 years (seeded change C17-8: an integer
    // fast path with `>` for `>=` in the century carry, wrong for one nanosecond per century; the metamorphic op acc_via
    // cannot see a defect of the view itself)
    if n >= 5000 {
        for (name, ts) in [("to_jde_et", "ET"), ("to_jde_tdb", "TDB")] {
            for c in -8i128..=8 {
                for dt in [-1i128, 0, 1] {
                    writeln!(out, "acc17own {} {}:{}", name, dstr(c * NPC + 32_155 * DAY + dt), ts).unwrap();
                    writeln!(out, "acc17own {} {}:{}", name, dstr(c * NPC + dt), ts).unwrap();
                    writeln!(out, "acc17own {} {}:{}", name, dstr(c * NPC + NPC / 2 + dt), ts).unwrap();
                }
            }
            for _ in 0..120 {
                let v = match r.below(4) {
                    0 => (r.range_i64(-3_652_500, 3_652_500) as i128) * DAY + small_off(r),
                    1 => (r.range_i64(-7_305_000, 7_305_000) as i128) * (DAY / 2),
                    2 => (r.range_i64(-100, 100) as i128) * NPC + 32_155 * DAY + small_off(r),
                    _ => (r.range_i64(-3_652_500, 3_652_500) as i128) * DAY + r.below(DAY as u64) as i128,
                };
                writeln!(out, "acc17own {} {}:{}", name, dstr(v), ts).unwrap();
            }
        }
        n = n.saturating_sub(2 * (17 * 9 + 120));
    }
    if n >= 5000 {
        super::wrappers::gen_c17_units(out);
        n = n.saturating_sub(864);
    }
    // negation block: the epochs at which a duration-valued view is the exact NEGATION of the epoch's own count (only
    // possible for the views whose origin lies within two centuries of the scale's zero), +/- 1 ns
    if n >= 5000 {
        for name in ["to_mjd_tt_duration", "to_tt_since_j2k"] {
            for ts in NONDYN {
                let mut e = s2e(&format!("0:0:{}", ts));
                for _ in 0..4 {
                    let got = match acc17_call(name, &e) { Some(d) => d.total_nanoseconds(), None => break };
                    let own = e.duration.total_nanoseconds();
                    e = e - Duration::from_total_nanoseconds((got + own) / 2);
                }
                let base = e.duration.total_nanoseconds();
                for dt in [-1i128, 0, 1] {
                    let es = format!("{}:{}", dstr(base + dt), ts);
                    writeln!(out, "acc17 {} {}", name, es).unwrap();
                    writeln!(out, "accf {} {}", if name == "to_mjd_tt_duration" { "to_mjd_tt_days" } else { "to_tt_centuries_j2k" }, es).unwrap();
                    n = n.saturating_sub(2);
                }
            }
        }
    }
    // word-size block: every view at the epochs whose count (from the scale's own zero, from 1900 TAI, from the MJD and
    // UNIX origins) sits on 2^63 / 2^64 ns, 2^31 / 2^32 s or 2^15 / 2^16 days, +/- 1 ns
    if n >= 5000 {
        let mut k = 0usize;
        let mjd0 = -15_020 * DAY; // MJD 0 = 1858-11-17 in the count from 1900
        let unix0 = 25_567 * DAY; // 1970-01-01
        for th in [1i128 << 63, 1i128 << 64, (1i128 << 31) * SEC, (1i128 << 32) * SEC, (1i128 << 15) * DAY, (1i128 << 16) * DAY] {
            for sgn in [1i128, -1] {
                for origin in [0i128, mjd0, unix0, mjd0 - DAY * 2_400_000 - DAY / 2] {
                    for dt in [-1i128, 0, 1] {
                        let ts = NONDYN[k % NONDYN.len()];
                        let inst = origin + sgn * th + dt; // TAI-like count from 1900
                        let e = (inst - if origin == 0 { 0 } else { ref_off(ts) }).clamp(-3_700_000 * DAY, 3_700_000 * DAY);
                        let es = format!("{}:{}", dstr(e), ts);
                        writeln!(out, "acc17 {} {}", ACCD[k % ACCD.len()], es).unwrap();
                        writeln!(out, "accf {} {}", ACCF[k % ACCF.len()], es).unwrap();
                        writeln!(out, "accf {} {}", ACCF[(k * 7 + 3) % ACCF.len()], es).unwrap();
                        k += 1;
                        n = n.saturating_sub(3);
                    }
                }
            }
        }
    }
    for k in 0..n {
        if k % 12 == 11 {
            // from_mjd_X / from_jde_X wrappers and to_mjd_tai(unit) / to_jde_tai(unit) / to_unix(unit) against the named views
            super::wrappers::gen_c17(r, out);
            continue;
        }
        let ts = *r.pick(&NONDYN);
        // within +/- 10 000 years of 1900
        let e = match r.below(3) {
            0 => epoch_total(r, ts),
            _ => (r.range_i64(-3_652_500, 3_652_500) as i128) * DAY + r.below(DAY as u64) as i128 - ref_off(ts),
        }
        .clamp(-3_700_000 * DAY, 3_700_000 * DAY);
        let es = format!("{}:{}", dstr(e), ts);
        match r.below(14) {
            12 => {
                // the same views on ET/TDB epochs (within +/- 10 000 years), through the metamorphic relation
                let dy = *r.pick(&["ET", "TDB"]);
                let v = (r.range_i64(-3_600_000, 3_600_000) as i128) * DAY + small_off(r) + if r.chance(1, 2) { r.below(DAY as u64) as i128 } else { 0 };
                let name = if r.chance(1, 4) { *r.pick(&ACCD) } else { *r.pick(&ACCF) };
                writeln!(out, "acc_via {} {}:{}", name, dstr(v), dy).unwrap()
            }
            13 => {
                // float-valued ET/TDB views of epochs in any of the nine scales
                const ALL9: [&str; 9] = ["TAI", "TT", "UTC", "GPST", "GST", "BDT", "QZSST", "ET", "TDB"];
                const REL: [&str; 8] = ["to_et_seconds", "to_tdb_seconds", "to_jde_et_days", "to_jde_tdb_days", "to_tdb_days_since_j2000",
                    "to_tdb_centuries_since_j2000", "to_et_days_since_j2000", "to_et_centuries_since_j2000"];
                let ts9 = *r.pick(&ALL9);
                let inst = (r.range_i64(-3_600_000, 3_600_000) as i128) * DAY + small_off(r) + if r.chance(1, 2) { r.below(DAY as u64) as i128 } else { 0 };
                writeln!(out, "accf_rel {} {}:{}", *r.pick(&REL), dstr(inst - ref_off(ts9)), ts9).unwrap()
            }
            0 | 1 | 2 => writeln!(out, "acc17 {} {}", *r.pick(&ACCD), es).unwrap(),
            3 | 4 | 5 | 6 => writeln!(out, "accf {} {}", *r.pick(&ACCF), es).unwrap(),
            7 if r.chance(1, 5) => {
                // the UNIX seconds through the formatting trait {:p}, around 1970 (also the second before it) and anywhere
                let v = match r.below(3) { 0 => r.range_i64(-3_000_000_000, 3_000_000_000) as i128, 1 => r.range_i64(-2_000_000_000, 2_000_000_000) as i128 * 1_000_000, _ => r.range_i64(-4_000_000_000, 4_000_000_000) as i128 * SEC + r.below(SEC as u64) as i128 };
                writeln!(out, "fmt_ptr {}:UTC", dstr(2_208_988_800 * SEC + v)).unwrap()
            }
            7 if r.chance(1, 3) => {
                // the same constructors reached through the TEXT forms `MJD x SCALE` / `JD x SCALE` (Epoch::from_str) against
                // the direct constructor: every magnitude, and values around zero incl. (-1, 0) (seeded change C17-10)
                let k = *r.pick(&["TAI", "UTC", "GPST", "QZSST", "GST", "BDT", "TT"]);
                let x = match r.below(4) {
                    0 => -((r.below(1 << 53) as f64) / (1u64 << 53) as f64),
                    1 => (r.range_i64(-2000, 2000) as f64) / *r.pick(&[1000.0, 4.0, 3.0, 7.0]),
                    _ => f_days(r),
                };
                let jd = r.chance(1, 2);
                writeln!(out, "jdtext {} {} {}", if jd { "JD" } else { "MJD" }, k, f2s(if jd && x.abs() > 3.0 { x + 2_400_000.5 } else { x })).unwrap()
            }
            7 => {
                let k = *r.pick(&["TAI", "UTC", "GPST", "QZSST", "GST", "BDT", "TT", "ET", "TDB"]);
                writeln!(out, "from_mjd {} {}", k, f2s(f_days(r))).unwrap()
            }
            8 => {
                let k = *r.pick(&["TAI", "UTC", "GPST", "QZSST", "GST", "BDT", "TT", "ET", "TDB"]);
                writeln!(out, "from_jde {} {}", k, f2s(f_days(r) + 2_400_000.5)).unwrap()
            }
            9 => {
                let x = match r.below(4) {
                    0 => r.range_i64(-4_000_000_000, 4_000_000_000) as f64,
                    1 => r.range_i64(-4_000_000_000_000, 4_000_000_000_000) as f64 / 1000.0,
                    2 => *r.pick(&[0.0, 1.0, -1.0, 63072000.0, 1483228800.0, 1483228799.5]),
                    _ => (r.next() as f64 / u64::MAX as f64 - 0.5) * 6.0e11,
                };
                let op = *r.pick(&["from_unix_s", "from_unix_ms"]);
                writeln!(out, "{} {}", op, f2s(if op == "from_unix_ms" { x * 1000.0 } else { x })).unwrap()
            }
            10 => writeln!(out, "from_unix_dur {}", dstr(e)).unwrap(),
            _ => {
                let kind = *r.pick(&["mjd_tai", "mjd_utc", "jde_tai", "jde_utc", "jde_tdb", "jde_et", "unix_s", "unix_ms"]);
                let x = match kind {
                    "mjd_tai" | "mjd_utc" => f_days(r),
                    "jde_tai" | "jde_utc" | "jde_tdb" | "jde_et" => f_days(r) + 2_400_000.5,
                    "unix_s" => r.range_i64(-4_000_000_000_000, 4_000_000_000_000) as f64 / 1000.0,
                    _ => r.range_i64(-4_000_000_000_000, 4_000_000_000_000) as f64,
                };
                writeln!(out, "view_rt {} {}", kind, f2s(x)).unwrap()
            }
        }
    }
}

pub fn inputs_c12(r: &mut Rng, n: usize, _tier: &str, out: &mut dyn Write) {
    for k in 0..n {
        if k % 25 == 24 {
            // the trait entry points of the order, the three operands in (mostly) different scales and within seconds of
            // each other (seeded change C12-9: an Ord::clamp override comparing the self-duration obtained for one bound with
            // the other bound's duration)
            let (sa, sb, sc) = (*r.pick(&NONDYN), *r.pick(&NONDYN), *r.pick(&NONDYN));
            let sa = if r.chance(1, 2) { "UTC" } else { sa };
            let inst = epoch_total(r, "TAI");
            let near = |r: &mut Rng| -> i128 { match r.below(4) { 0 => 0, 1 => r.range_i64(-2, 2) as i128, 2 => small_off(r), _ => (r.range_i64(-40, 40) as i128) * SEC + r.below(SEC as u64) as i128 } };
            let ea = s2e(&format!("{}:TAI", dstr(inst))).to_time_scale(s2ts(sa));
            let eb = s2e(&format!("{}:TAI", dstr(inst + near(r)))).to_time_scale(s2ts(sb));
            let ec = s2e(&format!("{}:TAI", dstr(inst + near(r)))).to_time_scale(s2ts(sc));
            writeln!(out, "eordfns {} {} {}", e2s(ea), e2s(eb), e2s(ec)).unwrap();
            continue;
        }
        if k % 20 == 19 {
            // compare-after-arithmetic (seeded change C12-7: `epoch += Unit` leaving (c, one century of ns)): the result of
            // every stepping entry point against the freshly built epoch of the same parts, a neighbour, and its re-expression
            if r.chance(1, 6) {
                // constructors from a nanosecond counter of one century and more (seeded changes C05-8 / C12-10 left them
                // un-normalised, which the field-wise == / cmp of epochs misread)
                let how = *r.pick(&["from_ns_gpst", "from_ns_qzsst", "from_ns_gst", "from_ns_bdt"]);
                let v: u64 = match r.below(4) { 0 => NPC as u64 + r.below(3), 1 => r.next().max(NPC as u64), 2 => NPC as u64 - 1 - r.below(3), _ => NPC as u64 + r.below(NPC as u64) };
                writeln!(out, "ecmp_via {} 0:0:TAI {} {} {}", how, v, dstr(*r.pick(&[0i128, 0, 1, -1, 2])), *r.pick(&NONDYN)).unwrap();
                continue;
            }
            let ts = *r.pick(&NONDYN);
            let how = *r.pick(&["add", "sub", "addassign", "subassign", "addu", "subu", "addassign_u", "subassign_u"]);
            let kc = r.range_i64(-3, 3) as i128;
            let dlt = *r.pick(&[0i128, 0, 0, 1, -1]);
            let dz = *r.pick(&[0i128, 0, 1, -1, 2]);
            let other = *r.pick(&NONDYN);
            let plus = how.starts_with("add");
            if how.ends_with('u') {
                let u = *r.pick(&["ns", "us", "ms", "s", "min", "h", "d", "wk", "cy"]);
                let f: i128 = match u { "ns" => 1, "us" => 1_000, "ms" => 1_000_000, "s" => SEC, "min" => 60 * SEC, "h" => 3600 * SEC, "d" => DAY, "wk" => 7 * DAY, _ => NPC };
                let e = if r.chance(1, 3) { epoch_total(r, ts) } else if plus { kc * NPC - f + dlt } else { kc * NPC + f + dlt };
                writeln!(out, "ecmp_via {} {}:{} {} {} {}", how, dstr(e), ts, u, dstr(dz), other).unwrap();
            } else {
                let e = if r.chance(1, 2) { epoch_total(r, ts) } else { kc * NPC + r.below(NPC as u64) as i128 };
                let b = if r.chance(1, 4) { small_off(r) } else if plus { NPC - e.rem_euclid(NPC) + dlt } else { e.rem_euclid(NPC) + dlt } + if r.chance(1, 3) { r.range_i64(-2, 2) as i128 * NPC } else { 0 };
                writeln!(out, "ecmp_via {} {}:{} {} {} {}", how, dstr(e), ts, dstr(b), dstr(dz), other).unwrap();
            }
            continue;
        }
        if k % 40 == 39 {
            // construct-then-compare: an operand built from RAW parts (nanosecond field of up to 5.8 centuries)
            // against the same instant, a neighbour or another instant given canonically in any of the seven scales
            let c = r.range_i64(-50, 50) as i128;
            let ns = match r.below(3) {
                0 => (r.below(NPC as u64)) as i128,
                1 => (1 + r.below(5) as i128) * NPC + r.below(3) as i128,
                _ => (r.next() as i128).min(5 * NPC + NPC / 2),
            };
            let inst = c * NPC + ns;
            let b = *r.pick(&NONDYN);
            let other = inst - ref_off(b) + match r.below(4) { 0 => 0, 1 => r.range_i64(-2, 2) as i128, 2 => small_off(r), _ => (r.range_i64(-36525, 36525) as i128) * DAY };
            writeln!(out, "ecmp_parts {} {} {}:{}", c, ns, dstr(other), b).unwrap();
            continue;
        }
        if k % 8 == 7 {
            // ET/TDB operands: the statement holds for instants more than 100 ns apart.  One operand in ET or
            // TDB, the other in any of the nine scales; the second operand is placed with the library's own
            // conversion (only to AIM the pair: the verdict comes from the closed forms) at a gap of
            // +/-(170 ns .. 2 us), up to a second, up to a day, or unrelated.
            const ALL9: [&str; 9] = ["TAI", "TT", "UTC", "GPST", "GST", "BDT", "QZSST", "ET", "TDB"];
            let dy = *r.pick(&["ET", "TDB"]);
            let other = *r.pick(&ALL9);
            let (sa, sb) = if r.chance(1, 2) { (dy, other) } else { (other, dy) };
            let inst = (r.range_i64(-3_600_000, 3_600_000) as i128) * DAY + small_off(r);
            let av = inst - ref_off(sa);
            let ea = s2e(&format!("{}:{}", dstr(av), sa));
            let sgn: i128 = if r.chance(1, 2) { 1 } else { -1 };
            let gap = sgn * match r.below(5) {
                0 => 170 + r.below(200) as i128,
                1 => 170 + r.below(2000) as i128,
                2 => r.below(SEC as u64) as i128 + 170,
                3 => r.below(DAY as u64) as i128 + 170,
                _ => (r.range_i64(-36525, 36525) as i128) * DAY,
            };
            let eb = ea.to_time_scale(s2ts(sb)) + Duration::from_total_nanoseconds(gap);
            match r.below(4) {
                0 | 1 => writeln!(out, "ecmp_dyn {} {}", e2s(ea), e2s(eb)).unwrap(),
                2 => writeln!(out, "eminmax_dyn {} {}", e2s(ea), e2s(eb)).unwrap(),
                _ => {
                    // a third epoch in any scale, placed relative to the first one
                    let sc = *r.pick(&ALL9);
                    let g2 = (if r.chance(1, 2) { 1 } else { -1 }) * match r.below(3) {
                        0 => 170 + r.below(2000) as i128,
                        1 => r.below(DAY as u64) as i128 + 170,
                        _ => (r.range_i64(0, 36525) as i128) * DAY + 170,
                    };
                    let ec = ea.to_time_scale(s2ts(sc)) + Duration::from_total_nanoseconds(g2);
                    let mut v = [ea, eb, ec];
                    let i = r.below(3) as usize;
                    v.swap(0, i);
                    writeln!(out, "esort_dyn {} {} {}", e2s(v[0]), e2s(v[1]), e2s(v[2])).unwrap()
                }
            }
            continue;
        }
        let a = *r.pick(&NONDYN);
        let b = match r.below(3) {
            0 => a,
            _ => *r.pick(&NONDYN),
        };
        let e = epoch_total(r, a);
        // second operand: same instant, a ns apart, symmetric about the reference, or unrelated
        let shift = ref_off(a) - ref_off(b);
        let f = match r.below(9) {
            0 | 1 => e + shift,
            // instants whose counts coincide once truncated to 64 / 63 / 32 bits
            8 => e + shift + (*r.pick(&[-2i128, -1, 1, 2])) * (*r.pick(&[1i128 << 64, 1i128 << 63, 1i128 << 32])) + r.range_i64(-1, 1) as i128,
            2 => e + shift + r.range_i64(-2, 2) as i128,
            3 if a == b => -e,
            3 => e + shift + SEC * r.range_i64(-40, 40) as i128,
            4 => e + shift + small_off(r),
            5 => -e + small_off(r),
            _ => epoch_total(r, b),
        }
        .clamp(DMIN, DMAX);
        let (mut es, mut fs) = (format!("{}:{}", dstr(e), a), format!("{}:{}", dstr(f), b));
        if r.chance(1, 8) {
            // a leap-free-scale instant INSIDE an inserted second against the UTC counts around it
            let leaps = leap_ts();
            let (t, d) = *r.pick(&leaps);
            let x = match r.below(3) { 0 => 0, 1 => 500_000_000, _ => r.below(SEC as u64) as i128 };
            let i = (t + d - 1) * SEC + x; // TAI instant inside the inserted second
            let sc = *r.pick(&UNIFORM);
            let u = i - d * SEC + SEC * r.range_i64(-1, 1) as i128;
            let (l, rr) = (format!("{}:{}", dstr(i - ref_off(sc)), sc), format!("{}:UTC", dstr(u)));
            if r.chance(1, 2) { es = l; fs = rr; } else { es = rr; fs = l; }
        }
        match r.below(10) {
            0 | 1 | 2 => writeln!(out, "eeq {} {}", es, fs).unwrap(),
            3 | 4 | 5 => writeln!(out, "ecmp {} {}", es, fs).unwrap(),
            6 => {
                let op = *r.pick(&["elt", "ele", "egt", "ege", "ene"]);
                writeln!(out, "{} {} {}", op, es, fs).unwrap()
            }
            7 => {
                let op = *r.pick(&["emin", "emax"]);
                writeln!(out, "{} {} {}", op, es, fs).unwrap()
            }
            8 => {
                let c = *r.pick(&NONDYN);
                let g = (e + ref_off(a) - ref_off(c) + small_off(r)).clamp(DMIN, DMAX);
                writeln!(out, "esort3 {} {} {}:{}", es, fs, dstr(g), c).unwrap()
            }
            _ => {
                // consistency + invariance under conversion of either operand
                let c = *r.pick(&NONDYN);
                writeln!(out, "ecmpconv {} {} {}", es, fs, c).unwrap()
            }
        }
    }
}

pub fn inputs_c15(r: &mut Rng, n: usize, tier: &str, out: &mut dyn Write) {
    let cap: i128 = if tier == "thorough" { 20000 } else { 300 };
    // "millions of items": a few long series per run (count, last item and strict increase are observed)
    if n >= 1000 {
        for j in 0..3 {
            let a = *r.pick(&NONDYN);
            let b = if j == 0 { a } else { *r.pick(&NONDYN) };
            let count: i128 = 1_000_000 + r.below(if j == 2 { 4_000_000 } else { 1_000_000 }) as i128;
            let step: i128 = match j {
                0 => 1,
                1 => SEC + 1,
                _ => r.below(3600 * SEC as u64) as i128 + 1,
            };
            // start a few items before a leap second / century boundary so that the series runs across it
            let (t, _d) = *r.pick(&leap_ts());
            let start = match j {
                0 => t * SEC - 500_000 - ref_off(a),
                1 => NPC * (r.range_i64(-20, 20) as i128) - 1000 * step,
                _ => (r.range_i64(-1_000_000, 1_000_000) as i128) * DAY + r.below(DAY as u64) as i128,
            };
            let span = count * step + *r.pick(&[0i128, 1, -1]);
            writeln!(out, "series_long {} {}:{} {} {} {}", r.below(2), dstr(start), a, dstr(span), b, dstr(step)).unwrap();
        }
    }
    for _ in 0..(n / 200).max(2) {
        // start and end in different scales, one of them ET or TDB: the span is the library's own difference
        // (end - start: the start re-expressed in the end's scale), which the executor reports next to the items
        const ALL9: [&str; 9] = ["TAI", "TT", "UTC", "GPST", "GST", "BDT", "QZSST", "ET", "TDB"];
        let dy = *r.pick(&["ET", "TDB"]);
        let other = loop { let o = *r.pick(&ALL9); if o != dy { break o; } };
        let (a, b) = if r.chance(1, 2) { (dy, other) } else { (other, dy) };
        let d = r.range_i64(-3_652_500, 3_652_500) as i128;
        let start = d * DAY + r.below(DAY as u64) as i128;
        let step = match r.below(6) {
            0 => 1,
            1 => r.below(1000) as i128 + 1,
            2 => SEC,
            3 => DAY,
            4 => r.below(DAY as u64) as i128 + 1,
            _ => SEC * (r.below(86400) as i128 + 1),
        };
        let count = r.below(cap as u64) as i128;
        let span = match r.below(3) {
            0 => count * step,
            1 => count * step + r.below(step as u64) as i128,
            _ => count * step + step / 2,
        }
        .max(0);
        writeln!(out, "series_dyn {} {}:{} {} {} {} {}", r.below(2), dstr(start), a, dstr(span), b, dstr(step), cap + 5).unwrap();
    }
    for _ in 0..(n / 50).max(4) {
        // the Iterator protocol on a short series: after k forward steps (often none: a FRESH series), each method std
        // derives from next() -- or that the type overrides; the index argument of nth / skip / step_by is aimed at the
        // last items of what is left (seeded change C15-7: an O(1) `nth` bounded by `len()`, which is one short for
        // exclusive spans that are not multiples of the step and for inclusive spans that are)
        let a = *r.pick(&NONDYN);
        let b = if r.chance(2, 3) { a } else { *r.pick(&NONDYN) };
        let step = match r.below(4) { 0 => 1, 1 => SEC, 2 => DAY, _ => r.below(DAY as u64) as i128 + 1 };
        let count = r.below(40) as i128;
        let span = count * step + if r.chance(1, 2) { 0 } else { r.below(step as u64) as i128 };
        let start = (r.range_i64(-100_000, 100_000) as i128) * DAY + r.below(DAY as u64) as i128;
        let incl = r.below(2);
        let total = if incl == 1 || span != count * step { count + 1 } else { count };
        let k = if r.chance(1, 2) { 0 } else { r.below(count as u64 + 3) as i128 };
        let left = (total - k).max(0);
        let j = match r.below(5) { 0 => left - 1, 1 => left - 2, 2 => left, 3 => left / 2, _ => r.below(8) as i128 }.max(0);
        let m = *r.pick(&["last", "count", "nth", "nth", "min", "max", "rest", "step_by", "skip_take", "skip_take"]);
        writeln!(out, "tsiter {} {}:{} {} {} {} {} {} {}", incl, dstr(start), a, dstr(span), b, dstr(step), k, m, j).unwrap();
    }
    for _ in 0..(n / 150).max(4) {
        // symmetry class: the series straddles the zero of the start's own count and some item start + k x step is the
        // exact NEGATION of the end's count (start = -(b + k x step), end = +b), or start and end are themselves
        // symmetric (k = 0) -- `Duration ==` holds between d and -d within a century of zero
        let a = *r.pick(&NONDYN);
        let step = match r.below(4) { 0 => 1, 1 => SEC, 2 => 3600 * SEC, _ => r.below(DAY as u64) as i128 + 1 };
        let b = match r.below(3) { 0 => step * (1 + r.below(20) as i128), 1 => 1 + r.below(1000) as i128, _ => 1 + r.below(DAY as u64) as i128 };
        let k = r.below(12) as i128;
        let start = -(b + k * step);
        let span = 2 * b + k * step;
        if span / step < cap {
            writeln!(out, "series {} {}:{} {} {} {} {}", r.below(2), dstr(start), a, dstr(span), a, dstr(step), cap + 5).unwrap();
        }
    }
    for _ in 0..(n / 300).max(2) {
        // word-size class: the offsets k x step cross 2^63 or 2^64 ns (a span of three to six centuries), or the items
        // themselves cross those counts (start near -2^63 / 0 / 2^63 - span)
        let a = *r.pick(&NONDYN);
        let w = *r.pick(&[1i128 << 63, 1i128 << 64]);
        let count = 20 + r.below((cap as u64 - 20).min(280)) as i128;
        let step = w / count + r.range_i64(-3, 3) as i128;
        let span = match r.below(3) { 0 => w + r.range_i64(-2, 2) as i128, 1 => w + step * r.range_i64(1, 10) as i128, _ => w * 5 / 4 };
        let start = match r.below(4) { 0 => 0, 1 => -w, 2 => -w / 2, _ => (r.range_i64(-100_000, 100_000) as i128) * DAY };
        writeln!(out, "series {} {}:{} {} {} {} {}", r.below(2), dstr(start), a, dstr(span), a, dstr(step), cap + 5).unwrap();
    }
    for k in 0..(n / 20).max(1) {
        // every 10th series starts in ET or TDB (end in the same scale: the items are plain arithmetic on the elapsed time)
        let a = if k % 10 == 9 { *r.pick(&["ET", "TDB"]) } else { *r.pick(&NONDYN) };
        let b = if a == "ET" || a == "TDB" || r.chance(2, 3) { a } else { *r.pick(&NONDYN) };
        let start = match r.below(4) {
            0 => epoch_total(r, a),
            _ => {
                // stay within +/- 10 000 years so that items are representable
                let d = r.range_i64(-3_652_500, 3_652_500) as i128;
                d * DAY + r.below(DAY as u64) as i128
            }
        };
        let step = match r.below(8) {
            0 => 1,
            1 => r.below(1000) as i128 + 1,
            2 => SEC,
            3 => DAY,
            4 => NPC,
            5 => r.below(DAY as u64) as i128 + 1,
            6 => SEC * (r.below(86400) as i128 + 1),
            _ => r.below(NPC as u64) as i128 + 1,
        };
        let count = r.below(cap as u64) as i128;
        let span = match r.below(4) {
            0 => count * step,                          // whole multiple
            1 => count * step + r.below(step as u64) as i128, // not a multiple
            2 => count * step - 1,
            _ => count * step + 1,
        }
        .max(0);
        let incl = r.below(2);
        // end = start + span re-expressed in scale b (same instant); the executor builds it by conversion
        writeln!(out, "series {} {}:{} {} {} {} {}", incl, dstr(start), a, dstr(span), b, dstr(step), cap + 5).unwrap();
    }
}

pub fn inputs_c16(r: &mut Rng, n: usize, _tier: &str, out: &mut dyn Write) {
    // phase x midnight block: the days on which the periodic term of ET/TDB is EXTREMAL (mean anomaly (k + 1/2) pi, early
    // April and early October), at the midnights of the dynamical calendar, a few hundred ns to a few us either side --
    // where a shortcut that takes the day from TT (or from the other dynamical scale) unless the instant is "within the
    // amplitude of the term" of midnight is wrong if its amplitude is the other scale's (seeded change C16-8: NAIF_K =
    // 1.657 ms used as the guard band for TDB, whose term is 1.658 ms: wrong for < 1 us, on about eight days a year)
    for (i, dy) in ["ET", "TDB"].iter().enumerate() {
        let (m0, m1) = if *dy == "ET" { (6.239996_f64, 1.99096871e-7_f64) } else { (357.528_f64.to_radians(), 1.990910018065731e-7_f64) };
        for j in 0..12i64 {
            let k: i64 = if j < 4 { 2 * (j - 2) + 1 } else { 2 * r.range_i64(-6000, 6000) + 1 }; // odd multiples of pi/2
            let t0 = ((k as f64) * std::f64::consts::FRAC_PI_2 - m0) / m1; // seconds past J2000 (noon)
            let day0 = ((t0 / 86400.0).round() as i128) * DAY + DAY / 2; // a midnight of the dynamical calendar next to it
            for dd in -4i128..=4 {
                for off in [310i128, 450, 600, 800, 990, 1500, 5000] {
                    for sg in [1i128, -1] {
                        let t = s2e(&format!("{}:{}", dstr(day0 + dd * DAY + sg * off), dy));
                        let src = ["TAI", "TT", "UTC", "GPST", "GST", "BDT", "QZSST", if *dy == "ET" { "TDB" } else { "ET" }][((j as i128 + dd + 4) as usize + off as usize + i) % 8];
                        writeln!(out, "weekday_dyn {} {}", e2s(t.to_time_scale(s2ts(src))), dy).unwrap();
                    }
                }
            }
        }
    }
    // exhaustive small tables first
    for w in 0..7 {
        for i in 0..=255u32 {
            writeln!(out, "wd_addu {} {}", w, i).unwrap();
            writeln!(out, "wd_subu {} {}", w, i).unwrap();
        }
        for v in 0..7 {
            writeln!(out, "wd_add {} {}", w, v).unwrap();
            writeln!(out, "wd_diff {} {}", w, v).unwrap();
        }
    }
    for i in 0..=255u32 {
        writeln!(out, "wd_from_u8 {}", i).unwrap();
        writeln!(out, "wd_from_i8 {}", i as i32 - 128).unwrap();
    }
    // negation block: epochs whose own count is exactly -/+ k/2 days (k = 1..13), so that stepping k days forward (back)
    // lands on the exact NEGATION of the count -- `Duration ==` holds between d and -d within a century of zero; every
    // weekday, every scale, each stepping function
    {
        const ALL9: [&str; 9] = ["TAI", "TT", "UTC", "GPST", "GST", "BDT", "QZSST", "ET", "TDB"];
        let mut c = 0usize;
        for ts in ALL9 {
            for k in 1..=13i128 {
                for sgn in [-1i128, 1] {
                    for w in 0..7 {
                        let es = format!("{}:{}", dstr(sgn * k * DAY / 2), ts);
                        let op = ["next", "prev", "next_midnight", "prev_midnight", "next_noon", "prev_noon"][c % 6];
                        c += 1;
                        writeln!(out, "{} {} {}", if sgn < 0 { "next" } else { "prev" }, es, w).unwrap();
                        writeln!(out, "{} {} {}", op, es, w).unwrap();
                    }
                }
            }
        }
    }
    for _ in 0..n {
        let ts = *r.pick(&NONDYN);
        // day edges: first and last nanoseconds of a day, in TAI or UTC count
        let e = match r.below(4) {
            0 => {
                let d = r.range_i64(-693_960, 2_958_463) as i128; // years 1..9999 approx
                let edge = *r.pick(&[0i128, 1, -1, -50, -100, -238, -239, -500, DAY / 2]);
                d * DAY + edge - ref_off(ts)
            }
            _ => epoch_total(r, ts),
        }
        .clamp(DMIN, DMAX);
        let es = format!("{}:{}", dstr(e), ts);
        match r.below(10) {
            0 if r.chance(1, 2) => {
                // weekday in a DYNAMICAL target scale, or of an epoch held in one, close to the target's midnight:
                // the civil day changes within microseconds (ET and TDB themselves differ by up to ~10 us per
                // quarter century from 2000); aimed with the library's own conversion, judged by the closed forms
                const ALL9: [&str; 9] = ["TAI", "TT", "UTC", "GPST", "GST", "BDT", "QZSST", "ET", "TDB"];
                let dy = *r.pick(&["ET", "TDB"]);
                let other = *r.pick(&ALL9);
                let (src, tgt) = if r.chance(1, 2) { (dy, other) } else { (other, dy) };
                // a midnight of the target calendar (its count runs from the reference date-time: noon for ET/TDB)
                let day = (r.range_i64(-73_000, 73_000) as i128) * DAY + if tgt == "ET" || tgt == "TDB" { DAY / 2 } else { 0 };
                let off = (if r.chance(1, 2) { 1 } else { -1 }) * match r.below(4) {
                    0 => 400 + r.below(20_000) as i128,
                    1 => 400 + r.below(200_000) as i128,
                    2 => r.below(SEC as u64) as i128 + 400,
                    _ => r.below((DAY / 2) as u64) as i128 + 400,
                };
                let t = s2e(&format!("{}:{}", dstr(day + off), tgt));
                writeln!(out, "weekday_dyn {} {}", e2s(t.to_time_scale(s2ts(src))), tgt).unwrap();
            }
            0 if r.chance(1, 2) => {
                // epochs HELD in ET or TDB
                let dy = *r.pick(&["ET", "TDB"]);
                let v = (r.range_i64(-3_600_000, 3_600_000) as i128) * DAY + r.below(DAY as u64) as i128;
                match r.below(3) {
                    0 => writeln!(out, "weekday {}:{}", dstr(v), dy).unwrap(),
                    1 => writeln!(out, "weekday_utc {}:{}", dstr(v), dy).unwrap(),
                    _ => writeln!(out, "weekday_ts {}:{} {}", dstr(v), dy, *r.pick(&NONDYN)).unwrap(),
                }
            }
            0 | 1 | 2 => writeln!(out, "weekday {}", es).unwrap(),
            3 | 4 => writeln!(out, "weekday_utc {}", es).unwrap(),
            5 | 6 => {
                // all nine scales; half of the cases in the first / last 40 s of a day of the scale's own calendar
                const ALL9: [&str; 9] = ["TAI", "TT", "UTC", "GPST", "GST", "BDT", "QZSST", "ET", "TDB"];
                let ts9 = *r.pick(&ALL9);
                let e9 = if r.chance(1, 2) {
                    let d = r.range_i64(-693_960, 2_958_463) as i128;
                    let half = if ts9 == "ET" || ts9 == "TDB" { DAY / 2 } else { 0 };
                    d * DAY + half + r.range_i64(-40, 40) as i128 * SEC + r.below(SEC as u64) as i128 - (ref_off(ts9) / DAY) * DAY
                } else if ts9 == "ET" || ts9 == "TDB" {
                    (r.range_i64(-3_600_000, 3_600_000) as i128) * DAY + r.below(DAY as u64) as i128
                } else {
                    e - ref_off(ts) + ref_off(ts9)
                };
                writeln!(out, "{} {}:{} {}", if r.chance(1, 2) { "next" } else { "prev" }, dstr(e9.clamp(DMIN, DMAX)), ts9, wd(r)).unwrap()
            }
            7 => {
                // all nine scales (ET/TDB count from noon); every other case in the last / first 40 s of a day of the
                // scale's own calendar, where the TAI date and the own date differ
                const ALL9: [&str; 9] = ["TAI", "TT", "UTC", "GPST", "GST", "BDT", "QZSST", "ET", "TDB"];
                let op = *r.pick(&["next_midnight", "next_noon", "prev_midnight", "prev_noon"]);
                let ts9 = *r.pick(&ALL9);
                let e9 = if r.chance(1, 2) {
                    let d = r.range_i64(-693_960, 2_958_463) as i128;
                    let half = if ts9 == "ET" || ts9 == "TDB" { DAY / 2 } else { 0 };
                    d * DAY + half + r.range_i64(-40, 40) as i128 * SEC + r.below(SEC as u64) as i128 - (ref_off(ts9) / DAY) * DAY
                } else if ts9 == "ET" || ts9 == "TDB" {
                    (r.range_i64(-3_600_000, 3_600_000) as i128) * DAY + r.below(DAY as u64) as i128
                } else {
                    e - ref_off(ts) + ref_off(ts9)
                };
                writeln!(out, "{} {}:{} {}", op, dstr(e9.clamp(DMIN, DMAX)), ts9, wd(r)).unwrap()
            }
            // the weekday of the calendar date in ANY of the seven non-dynamical target scales (the GNSS reference
            // days are not Mondays)
            _ => writeln!(out, "weekday_ts {} {}", es, *r.pick(&NONDYN)).unwrap(),
        }
    }
}

pub fn inputs_c20(r: &mut Rng, n: usize, _tier: &str, out: &mut dyn Write) {
    const W: i128 = 7 * DAY;
    const ALL9: [&str; 9] = ["TAI", "TT", "UTC", "GPST", "GST", "BDT", "QZSST", "ET", "TDB"];
    for _ in 0..n {
        // week / time of week are plain arithmetic on the elapsed time: all nine scales
        let ts = *r.pick(&ALL9);
        match r.below(13) {
            10 | 11 | 12 => {
                // (year, day of year) -> epoch -> (year, day of year), years 0001-9999, all nine scales
                let y = match r.below(4) {
                    0 => *r.pick(&[1i64, 4, 100, 400, 1582, 1899, 1900, 1901, 1972, 1980, 1999, 2000, 2006, 2016, 2017, 2100, 9999]),
                    _ => r.range_i64(1, 9999),
                };
                let leap = (y % 4 == 0 && y % 100 != 0) || y % 400 == 0;
                let ndays = if leap { 366 } else { 365 };
                let whole = match r.below(5) {
                    0 => 1,
                    1 => ndays,
                    2 => *r.pick(&[59i64, 60, 61, 365]).min(&ndays),
                    _ => r.range_i64(1, ndays),
                };
                let small_lim = match r.below(3) { 0 => 1_000, 1 => 100_000, _ => 1_000_000_000 };
                let dec = *r.pick(&[10.0, 100.0, 1000.0, 4.0, 8.0]);
                let doy: f64 = match r.below(8) {
                    // the first instants of the day: 1 ns .. 100 us after midnight (a fraction of 1e-14 .. 1e-9 day), and the
                    // other scales of smallness up to a second
                    6 => whole as f64 + (1 + r.below(small_lim)) as f64 / DAY as f64,
                    // times of day written with few decimals of a day (0.1, 0.25, 0.001 ...)
                    7 => whole as f64 + ((r.below(1000) as f64) / dec) % 1.0,
                    0 => whole as f64,
                    1 => whole as f64 + 0.5,
                    2 => whole as f64 + (DAY - 1) as f64 / DAY as f64, // last nanosecond of the day (rounded)
                    3 => whole as f64 + r.below(86_400) as f64 / 86_400.0,
                    // the last / first seconds of the day, as many as the scales differ by (19 s, 33 s, 32.184 s, 10..37 leap
                    // seconds): where a day or year taken on ANOTHER scale's calendar is the neighbouring one (seeded change
                    // C20-8: year() counting days from the prime-epoch offset, a year late in the last 19 / 33 s of a GNSS year)
                    5 => {
                        let k = *r.pick(&[1i64, 5, 10, 18, 19, 20, 32, 33, 34, 36, 37, 38, 51]) as f64 - (r.below(1000) as f64) / 1000.0;
                        if r.chance(2, 3) { whole as f64 + (86_400.0 - k) / 86_400.0 } else { whole as f64 + k / 86_400.0 }
                    }
                    4 => f64::from_bits((whole as f64).to_bits() + r.below(3)),
                    _ => whole as f64 + (r.next() >> 11) as f64 / (1u64 << 53) as f64,
                };
                let ts9 = *r.pick(&ALL9);
                let op = *r.pick(&["from_doy", "doy_rt"]);
                writeln!(out, "{} {} {} {}", op, y, f2s(doy), ts9).unwrap()
            }
            0 | 1 => {
                let week: u64 = match r.below(5) {
                    0 => r.below(5000),
                    1 => u32::MAX as u64 - r.below(3),
                    2 => (DMAX / W) as u64 + r.below(5) - 2,
                    3 => 0,
                    _ => r.below(1 << 32),
                };
                let ns: u64 = match r.below(6) {
                    0 => 0,
                    1 => W as u64 - 1,
                    2 => W as u64,
                    3 => r.next(),
                    _ => r.below(W as u64),
                };
                writeln!(out, "from_tow {} {} {}", week, ns, ts).unwrap()
            }
            2 | 3 => {
                // epochs at or after the reference
                let t = match r.below(4) {
                    0 => r.below(5000) as i128 * W + *r.pick(&[0i128, 1, W - 1, W / 2]),
                    1 => total(r).abs(),
                    _ => epoch_total(r, ts).abs(),
                };
                writeln!(out, "to_tow {}:{}", dstr(t), ts).unwrap()
            }
            4 => {
                let t = r.below(5000) as i128 * W + r.below(W as u64) as i128;
                writeln!(out, "towrt {}:{}", dstr(t), ts).unwrap()
            }
            5 | 6 => {
                let g = *r.pick(&["gpst", "qzsst", "gst", "bdt"]);
                let v: u64 = match r.below(6) {
                    0 => 0,
                    1 => NPC as u64 - 1,
                    2 => NPC as u64,
                    3 => NPC as u64 + 1,
                    4 => r.next(),
                    _ => r.below(NPC as u64),
                };
                writeln!(out, "ns_rt {} {}", g, v).unwrap()
            }
            7 | 8 => {
                let g = *r.pick(&["gpst", "qzsst", "gst", "bdt"]);
                let ts2 = *r.pick(&NONDYN);
                // epochs on both sides of the scale's reference and one century later
                let gts = match g { "gpst" => "GPST", "qzsst" => "QZSST", "gst" => "GST", _ => "BDT" };
                let base = ref_off(gts) - ref_off(ts2);
                let t = base + match r.below(5) {
                    0 => small_off(r),
                    1 => NPC + small_off(r),
                    2 => -(r.below(NPC as u64) as i128),
                    _ => r.below(NPC as u64) as i128,
                };
                if r.chance(1, 4) {
                    // the same counter through the formatting trait {:o} ("Prints the Epoch in GPS")
                    let t = ref_off("GPST") - ref_off(ts2) + match r.below(5) { 0 => small_off(r), 1 => NPC + small_off(r), 2 => -(r.below(NPC as u64) as i128), 3 => NPC + r.below(NPC as u64) as i128, _ => r.below(NPC as u64) as i128 };
                    writeln!(out, "fmt_octal {}:{}", dstr(t), ts2).unwrap();
                    continue;
                }
                writeln!(out, "to_ns {} {}:{}", g, dstr(t), ts2).unwrap()
            }
            _ => {
                let t = epoch_total(r, ts).abs();
                writeln!(out, "towrt {}:{}", dstr(t), ts).unwrap()
            }
        }
    }
}

fn ord2s(o: Ordering) -> &'static str {
    match o {
        Ordering::Less => "-1",
        Ordering::Equal => "0",
        Ordering::Greater => "1",
    }
}

fn oke(e: Epoch) -> Option<String> {
    Some(format!("ok {}", e2s(e)))
}
fn okd(d: Duration) -> Option<String> {
    Some(format!("ok {}", d2s(d)))
}

fn file_provider() -> LeapSecondsFile {
    let repo = std::env::var("HIFI_REPO").unwrap_or_else(|_| "/repo".to_string());
    LeapSecondsFile::from_path(format!("{repo}/data/leap-seconds.list")).expect("data/leap-seconds.list loads")
}

fn opt_f(o: Option<f64>) -> String {
    match o {
        Some(v) => format!("ok {}", f2s(v)),
        None => "ok none".to_string(),
    }
}

fn accf_call(name: &str, e: &Epoch) -> Option<f64> {
    Some(match name {
        "to_mjd_tai_days" => e.to_mjd_tai_days(),
        "to_mjd_tai_seconds" => e.to_mjd_tai_seconds(),
        "to_mjd_utc_days" => e.to_mjd_utc_days(),
        "to_mjd_utc_seconds" => e.to_mjd_utc_seconds(),
        "to_jde_tai_days" => e.to_jde_tai_days(),
        "to_jde_tai_seconds" => e.to_jde_tai_seconds(),
        "to_jde_utc_days" => e.to_jde_utc_days(),
        "to_jde_utc_seconds" => e.to_jde_utc_seconds(),
        "to_tt_seconds" => e.to_tt_seconds(),
        "to_tt_days" => e.to_tt_days(),
        "to_tt_centuries_j2k" => e.to_tt_centuries_j2k(),
        "to_jde_tt_days" => e.to_jde_tt_days(),
        "to_mjd_tt_days" => e.to_mjd_tt_days(),
        "to_unix_seconds" => e.to_unix_seconds(),
        "to_unix_milliseconds" => e.to_unix_milliseconds(),
        "to_unix_days" => e.to_unix_days(),
        "to_tai_seconds" => e.to_tai_seconds(),
        "to_tai_days" => e.to_tai_days(),
        "to_utc_seconds" => e.to_utc_seconds(),
        "to_utc_days" => e.to_utc_days(),
        "to_gpst_seconds" => e.to_gpst_seconds(),
        "to_gpst_days" => e.to_gpst_days(),
        _ => return None,
    })
}

fn acc17_call(name: &str, e: &Epoch) -> Option<Duration> {
    Some(match name {
        "to_jde_tai_duration" => e.to_jde_tai_duration(),
        "to_jde_utc_duration" => e.to_jde_utc_duration(),
        "to_jde_tt_duration" => e.to_jde_tt_duration(),
        "to_mjd_tt_duration" => e.to_mjd_tt_duration(),
        "to_tt_since_j2k" => e.to_tt_since_j2k(),
        _ => return None,
    })
}

fn via_target(name: &str) -> TimeScale {
    if name.contains("_tai") { TimeScale::TAI }
    else if name.contains("_utc") || name.contains("unix") { TimeScale::UTC }
    else if name.contains("_tt") { TimeScale::TT }
    else { TimeScale::GPST }
}

pub fn exec(op: &str, a: &[&str]) -> Option<String> {
    match op {
        // ---- C04
        "eadd" => oke(s2e(a[0]) + s2d(a[1])),
        "esub" => oke(s2e(a[0]) - s2d(a[1])),
        "ediff" => okd(s2e(a[0]) - s2e(a[1])),
        "from_doy" => oke(Epoch::from_day_of_year(a[0].parse().unwrap(), s2f(a[1]), s2ts(a[2]))),
        "doy_rt" => {
            let e = Epoch::from_day_of_year(a[0].parse().unwrap(), s2f(a[1]), s2ts(a[2]));
            let (y, d) = e.year_days_of_year();
            Some(format!("ok {} {}", y, f2s(d)))
        }
        "ediff9" => {
            let (x, y) = (s2e(a[0]), s2e(a[1]));
            Some(format!("ok {} {}", d2s(x - y), e2s(y.to_time_scale(x.time_scale))))
        }
        "eaddu" => oke(s2e(a[0]) + s2u(a[1])),
        "esubu" => oke(s2e(a[0]) - s2u(a[1])),
        "eaddf" => oke(s2e(a[0]) + s2f(a[1])),
        "eaddassign" => {
            let mut e = s2e(a[0]);
            e += s2d(a[1]);
            oke(e)
        }
        "esubassign" => {
            let mut e = s2e(a[0]);
            e -= s2d(a[1]);
            oke(e)
        }
        "eroundtrip" => {
            // (e + d) - e and (e + d) - d
            let (e, d) = (s2e(a[0]), s2d(a[1]));
            let s = e + d;
            Some(format!("ok {} {}", d2s(s - e), e2s(s - d)))
        }
        "eaddiff" => {
            let (e, f) = (s2e(a[0]), s2e(a[1]));
            oke(e + (f - e))
        }
        "efloor" => oke(s2e(a[0]).floor(s2d(a[1]))),
        "eceil" => oke(s2e(a[0]).ceil(s2d(a[1]))),
        "eround" => oke(s2e(a[0]).round(s2d(a[1]))),
        // ---- C05 / C06 / C12 shared
        "tots" => oke(s2e(a[0]).to_time_scale(s2ts(a[1]))),
        "to_dur_in" => okd(s2e(a[0]).to_duration_in_time_scale(s2ts(a[1]))),
        "tsback" => {
            let e = s2e(a[0]);
            oke(e.to_time_scale(s2ts(a[1])).to_time_scale(e.time_scale))
        }
        "tscomm" => {
            // conv(e + d) and conv(e) + d
            let (e, ts, d) = (s2e(a[0]), s2ts(a[1]), s2d(a[2]));
            Some(format!("ok {} {}", e2s((e + d).to_time_scale(ts)), e2s(e.to_time_scale(ts) + d)))
        }
        "acc" => {
            let e = s2e(a[1]);
            okd(match a[0] {
                "to_tai_duration" => e.to_tai_duration(),
                "to_tt_duration" => e.to_tt_duration(),
                "to_gpst_duration" => e.to_gpst_duration(),
                "to_gst_duration" => e.to_gst_duration(),
                "to_bdt_duration" => e.to_bdt_duration(),
                "to_qzsst_duration" => e.to_qzsst_duration(),
                "to_utc_duration" => e.to_utc_duration(),
                "to_duration_since_j1900" => e.to_duration_since_j1900(),
                _ => return None,
            })
        }
        "from_dur" => {
            let d = s2d(a[1]);
            oke(match a[0] {
                "from_tai_duration" => Epoch::from_tai_duration(d),
                "from_tt_duration" => Epoch::from_tt_duration(d),
                "from_gpst_duration" => Epoch::from_gpst_duration(d),
                "from_gst_duration" => Epoch::from_gst_duration(d),
                "from_bdt_duration" => Epoch::from_bdt_duration(d),
                "from_qzsst_duration" => Epoch::from_qzsst_duration(d),
                "from_utc_duration" => Epoch::from_utc_duration(d),
                _ => return None,
            })
        }
        "refepoch" => {
            let ts = s2ts(a[0]);
            let e = ts.reference_epoch();
            Some(format!("ok {} {}", e2s(e), d2s(e.to_tai_duration())))
        }
        // ---- C07
        "dyn_to" => oke(s2e(a[0]).to_time_scale(s2ts(a[1]))),
        "dyn_rt" => {
            let e = s2e(a[0]);
            oke(e.to_time_scale(s2ts(a[1])).to_time_scale(e.time_scale))
        }
        "dyn_mono" => {
            let (e, d, ts) = (s2e(a[0]), s2d(a[1]), s2ts(a[2]));
            Some(format!("ok {} {}", e2s(e.to_time_scale(ts)), e2s((e + d).to_time_scale(ts))))
        }
        "dyn_acc" => {
            let e = s2e(a[1]);
            okd(match a[0] {
                "to_et_duration" => e.to_et_duration(),
                "to_tdb_duration" => e.to_tdb_duration(),
                "to_jde_et_duration" => e.to_jde_et_duration(),
                "to_jde_tdb_duration" => e.to_jde_tdb_duration(),
                _ => return None,
            })
        }
        // ---- C17
        "acc17" => acc17_call(a[0], &s2e(a[1])).and_then(okd),
        // the Julian-date views in ET / TDB of an epoch HELD in that scale (no conversion involved: exact), duration and days
        "acc17own" => {
            let e = s2e(a[1]);
            let (d, f) = match (a[0], e.time_scale) {
                ("to_jde_et", TimeScale::ET) => (e.to_jde_et_duration(), e.to_jde_et_days()),
                ("to_jde_tdb", TimeScale::TDB) => (e.to_jde_tdb_duration(), e.to_jde_tdb_days()),
                _ => return None,
            };
            Some(format!("ok {} {}", d2s(d), f2s(f)))
        }
        // metamorphic: a view of an epoch equals the same view of its re-expression in the view's own scale
        // (used with ET/TDB epochs, whose conversion is C07's business)
        "acc_via" => {
            let e = s2e(a[1]);
            let c = e.to_time_scale(via_target(a[0]));
            if let Some(d) = acc17_call(a[0], &e) {
                Some(format!("ok {} {}", d2s(d), d2s(acc17_call(a[0], &c)?)))
            } else {
                Some(format!("ok {} {}", f2s(accf_call(a[0], &e)?), f2s(accf_call(a[0], &c)?)))
            }
        }
        // the float-valued ET/TDB views against the duration-valued view they are derived from
        "accf_rel" => {
            let e = s2e(a[1]);
            let (f, d) = match a[0] {
                "to_et_seconds" => (e.to_et_seconds(), e.to_et_duration()),
                "to_tdb_seconds" => (e.to_tdb_seconds(), e.to_tdb_duration()),
                "to_jde_et_days" => (e.to_jde_et_days(), e.to_jde_et_duration()),
                "to_jde_tdb_days" => (e.to_jde_tdb_days(), e.to_jde_tdb_duration()),
                "to_tdb_days_since_j2000" => (e.to_tdb_days_since_j2000(), e.to_tdb_duration()),
                "to_tdb_centuries_since_j2000" => (e.to_tdb_centuries_since_j2000(), e.to_tdb_duration()),
                "to_et_days_since_j2000" => (e.to_et_days_since_j2000(), e.to_et_duration()),
                "to_et_centuries_since_j2000" => (e.to_et_centuries_since_j2000(), e.to_et_duration()),
                _ => return None,
            };
            Some(format!("ok {} {}", f2s(f), d2s(d)))
        }
        "accf" => accf_call(a[0], &s2e(a[1])).map(|v| format!("ok {}", f2s(v))),
        // `{:p}` prints the UNIX seconds: (the printed numeral read back as a double | nan, to_unix_seconds())
        "fmt_ptr" => {
            let e = s2e(a[0]);
            let t = format!("{:p}", e);
            Some(format!("ok {} {}", f2s(t.trim().parse::<f64>().unwrap_or(f64::NAN)), f2s(e.to_unix_seconds())))
        }
        "jdtext" => {
            // (Epoch::from_str of the text form | err, the direct constructor on the same double)
            use core::str::FromStr;
            let (x, ts) = (s2f(a[2]), s2ts(a[1]));
            let direct = if a[0] == "JD" { Epoch::from_jde_in_time_scale(x, ts) } else { Epoch::from_mjd_in_time_scale(x, ts) };
            let text = format!("{} {:?} {}", a[0], x, ts2s(ts));
            Some(match Epoch::from_str(&text) {
                Ok(e) => format!("ok {} {}", e2s(e), e2s(direct)),
                Err(_) => format!("ok err {}", e2s(direct)),
            })
        }
        "from_mjd" => oke(Epoch::from_mjd_in_time_scale(s2f(a[1]), s2ts(a[0]))),
        "from_jde" => oke(Epoch::from_jde_in_time_scale(s2f(a[1]), s2ts(a[0]))),
        "from_unix_s" => oke(Epoch::from_unix_seconds(s2f(a[0]))),
        "from_unix_ms" => oke(Epoch::from_unix_milliseconds(s2f(a[0]))),
        "from_unix_dur" => oke(Epoch::from_unix_duration(s2d(a[0]))),
        "view_rt" => {
            let x = s2f(a[1]);
            let y = match a[0] {
                "mjd_tai" => Epoch::from_mjd_tai(x).to_mjd_tai_days(),
                "mjd_utc" => Epoch::from_mjd_utc(x).to_mjd_utc_days(),
                "jde_tai" => Epoch::from_jde_tai(x).to_jde_tai_days(),
                "jde_utc" => Epoch::from_jde_utc(x).to_jde_utc_days(),
                "jde_tdb" => Epoch::from_jde_tdb(x).to_jde_tdb_days(),
                "jde_et" => Epoch::from_jde_et(x).to_jde_et_days(),
                "unix_s" => Epoch::from_unix_seconds(x).to_unix_seconds(),
                "unix_ms" => Epoch::from_unix_milliseconds(x).to_unix_milliseconds(),
                _ => return None,
            };
            Some(format!("ok {}", f2s(y)))
        }
        // ---- C06
        "utcrt" => {
            let e = s2e(a[0]);
            oke(e.to_time_scale(TimeScale::TAI).to_time_scale(TimeScale::UTC))
        }
        "leap" => Some(opt_f(s2e(a[0]).leap_seconds(a[1] == "1"))),
        "leap_iers" => Some(format!("ok {}", s2e(a[0]).leap_seconds_iers())),
        "leap_with" => {
            let e = s2e(a[1]);
            let b = a[2] == "1";
            Some(opt_f(match a[0] {
                "file" => e.leap_seconds_with(b, file_provider()),
                _ => e.leap_seconds_with(b, LatestLeapSeconds::default()),
            }))
        }
        "utcmono" => {
            // TAI t and t + step, both converted to UTC
            let (e, d) = (s2e(a[0]), s2d(a[1]));
            Some(format!(
                "ok {} {}",
                d2s(e.to_time_scale(TimeScale::UTC).duration),
                d2s((e + d).to_time_scale(TimeScale::UTC).duration)
            ))
        }
        "taimono" => {
            let (e, d) = (s2e(a[0]), s2d(a[1]));
            Some(format!(
                "ok {} {}",
                d2s(e.to_time_scale(TimeScale::TAI).duration),
                d2s((e + d).to_time_scale(TimeScale::TAI).duration)
            ))
        }
        "lsfile_lookup" => {
            let txt = hex2str(a[0]);
            let dir = std::env::temp_dir().join(format!("hv-ls-{}", std::process::id()));
            std::fs::create_dir_all(&dir).ok()?;
            let p = dir.join(format!("{:?}.list", std::thread::current().id()));
            std::fs::write(&p, txt).ok()?;
            let prov = LeapSecondsFile::from_path(&p);
            let _ = std::fs::remove_file(&p);
            match prov {
                Err(_) => Some("err".to_string()),
                Ok(prov) => {
                    let entries: Vec<String> = prov
                        .clone()
                        .map(|l| format!("{}/{}/{}", l.timestamp_tai_s as i128, l.delta_at as i128, b2s(l.announced_by_iers)))
                        .collect();
                    let e = s2e(a[1]);
                    Some(format!("ok {} {}", entries.join(","), opt_f(e.leap_seconds_with(true, prov)).replace("ok ", "")))
                }
            }
        }
        "leap_table" => {
            let entries: Vec<String> = match a[0] {
                "file" => file_provider()
                    .map(|l| format!("{}/{}/{}", f2s(l.timestamp_tai_s), f2s(l.delta_at), b2s(l.announced_by_iers)))
                    .collect(),
                _ => LatestLeapSeconds::default()
                    .map(|l| format!("{}/{}/{}", f2s(l.timestamp_tai_s), f2s(l.delta_at), b2s(l.announced_by_iers)))
                    .collect(),
            };
            Some(format!("ok {}", entries.join(",")))
        }
        // "LatestLeapSeconds iteration": the table read through the Iterator protocol after k forward steps
        // (last / count / nth / the rest), and a fresh provider read backwards; next to the full forward listing
        "lsiter" => {
            fn show(l: LeapSecond) -> String {
                format!("{}/{}/{}", f2s(l.timestamp_tai_s), f2s(l.delta_at), b2s(l.announced_by_iers))
            }
            fn run<I: DoubleEndedIterator<Item = LeapSecond> + Clone>(fresh: I, k: usize, method: &str, j: usize) -> String {
                let full: Vec<String> = fresh.clone().map(show).collect();
                let mut it = fresh.clone();
                for _ in 0..k {
                    it.next();
                }
                let got: Vec<String> = match method {
                    "last" => it.last().map(show).into_iter().collect(),
                    "count" => vec![it.count().to_string()],
                    "nth" => it.nth(j).map(show).into_iter().collect(),
                    "rest" => it.map(show).collect(),
                    "min" => it.min_by(|a, b| a.timestamp_tai_s.partial_cmp(&b.timestamp_tai_s).unwrap()).map(show).into_iter().collect(),
                    "max" => it.max_by(|a, b| a.timestamp_tai_s.partial_cmp(&b.timestamp_tai_s).unwrap()).map(show).into_iter().collect(),
                    // a fresh provider read backwards (k ignored)
                    _ => fresh.rev().map(show).collect(),
                };
                format!("ok {} {}", if got.is_empty() { "-".to_string() } else { got.join(",") }, full.join(","))
            }
            let (k, j): (usize, usize) = (a[1].parse().unwrap(), a[3].parse().unwrap());
            if a[2] == "index" {
                // the table read by position (Index<usize>), next to the forward listing
                let (got, full): (Vec<String>, Vec<String>) = match a[0] {
                    "file" => {
                        let p = file_provider();
                        let full: Vec<String> = p.clone().map(show).collect();
                        ((0..full.len()).map(|i| show(p[i])).collect(), full)
                    }
                    _ => {
                        let p = LatestLeapSeconds::default();
                        let full: Vec<String> = p.clone().map(show).collect();
                        ((0..full.len()).map(|i| show(p[i])).collect(), full)
                    }
                };
                return Some(format!("ok {} {}", got.join(","), full.join(",")));
            }
            Some(match a[0] {
                "file" => run(file_provider(), k, a[2], j),
                _ => run(LatestLeapSeconds::default(), k, a[2], j),
            })
        }
        // ---- C12
        "eeq" => Some(format!("ok {}", b2s(s2e(a[0]) == s2e(a[1])))),
        "ene" => Some(format!("ok {}", b2s(s2e(a[0]) != s2e(a[1])))),
        "elt" => Some(format!("ok {}", b2s(s2e(a[0]) < s2e(a[1])))),
        "ele" => Some(format!("ok {}", b2s(s2e(a[0]) <= s2e(a[1])))),
        "egt" => Some(format!("ok {}", b2s(s2e(a[0]) > s2e(a[1])))),
        "ege" => Some(format!("ok {}", b2s(s2e(a[0]) >= s2e(a[1])))),
        "ecmp" => {
            let (x, y) = (s2e(a[0]), s2e(a[1]));
            let o = x.cmp(&y);
            assert_eq!(Some(o), x.partial_cmp(&y));
            Some(format!("ok {}", ord2s(o)))
        }
        // the inherent Epoch::min/max (by reference) and std's Ord::min/max (what `a.min(b)` resolves to)
        "emin" => Some(format!("ok {} {}", e2s(Epoch::min(&s2e(a[0]), s2e(a[1]))), e2s(Ord::min(s2e(a[0]), s2e(a[1]))))),
        "emax" => Some(format!("ok {} {}", e2s(Epoch::max(&s2e(a[0]), s2e(a[1]))), e2s(Ord::max(s2e(a[0]), s2e(a[1]))))),
        "esort3" => {
            let mut v = vec![s2e(a[0]), s2e(a[1]), s2e(a[2])];
            v.sort();
            Some(format!("ok {} {} {}", e2s(v[0]), e2s(v[1]), e2s(v[2])))
        }
        // Epoch::precise_timescale_conversion with the ZERO polynomial (its correction is then exactly zero) against the plain
        // conversion it wraps: (result | err, to_time_scale)
        "fmt_octal" => Some(format!("ok {}", str2hex(&format!("{:o}", s2e(a[0]))))),
        "precise0" => {
            let e = s2e(a[0]);
            let r = s2e(a[1]);
            let ts = s2ts(a[2]);
            let y = e.to_time_scale(ts);
            Some(match e.precise_timescale_conversion(a[3] == "1", r, hifitime::Polynomial::from_constant_offset(Duration::ZERO), ts) {
                Ok(x) => format!("ok {} {}", e2s(x), e2s(y)),
                Err(_) => format!("ok err {}", e2s(y)),
            })
        }
        // the std entry points of the order on epochs (Ord::min / max, core::cmp::min / max, Ord::clamp), which the inherent
        // Epoch::min / max shadow in method-call syntax: (min, max, cmp::min, cmp::max, clamp, lo, hi)
        "eordfns" => {
            let (x, y, z) = (s2e(a[0]), s2e(a[1]), s2e(a[2]));
            let (lo, hi) = if y.cmp(&z) == Ordering::Greater { (z, y) } else { (y, z) };
            Some(format!(
                "ok {} {} {} {} {} {} {}",
                e2s(Ord::min(x, y)), e2s(Ord::max(x, y)), e2s(core::cmp::min(x, y)), e2s(core::cmp::max(x, y)), e2s(x.clamp(lo, hi)), e2s(lo), e2s(hi)
            ))
        }
        "ecmp_via" => {
            // compare-after-arithmetic: x = E <how> B as the entry point leaves it; z = the freshly constructed epoch of the
            // same parts moved by a[3] ns, z2 = z re-expressed in scale a[4]; (x, z, cmp, rcmp, eq, req, z2, cmp, rcmp, eq, req)
            let e0 = s2e(a[1]);
            let x = match a[0] {
                "add" => e0 + s2d(a[2]),
                "sub" => e0 - s2d(a[2]),
                "addassign" => { let mut e = e0; e += s2d(a[2]); e }
                "subassign" => { let mut e = e0; e -= s2d(a[2]); e }
                "addu" => e0 + s2u(a[2]),
                "subu" => e0 - s2u(a[2]),
                "addassign_u" => { let mut e = e0; e += s2u(a[2]); e }
                "subassign_u" => { let mut e = e0; e -= s2u(a[2]); e }
                // constructors from a raw counter (a[2]): the epoch as the constructor leaves it
                "from_ns_gpst" => Epoch::from_gpst_nanoseconds(a[2].parse().unwrap()),
                "from_ns_qzsst" => Epoch::from_qzsst_nanoseconds(a[2].parse().unwrap()),
                "from_ns_gst" => Epoch::from_gst_nanoseconds(a[2].parse().unwrap()),
                "from_ns_bdt" => Epoch::from_bdt_nanoseconds(a[2].parse().unwrap()),
                _ => return None,
            };
            let (c, ns) = x.duration.to_parts();
            let dz = s2d(a[3]);
            let z = Epoch::from_duration(Duration::from_parts(c, ns) + dz, x.time_scale);
            let z2 = z.to_time_scale(s2ts(a[4]));
            let mut o = format!("ok {}", e2s(x));
            for w in [z, z2] {
                o.push_str(&format!(" {} {} {} {} {}", e2s(w), ord2s(x.cmp(&w)), ord2s(w.cmp(&x)), b2s(x == w), b2s(w == x)));
            }
            Some(o)
        }
        "ecmp_parts" => {
            // an epoch built from raw TAI parts against another one: (cmp, eq, reverse cmp, reverse eq)
            let x = Epoch::from_tai_parts(a[0].parse().unwrap(), a[1].parse().unwrap());
            let y = s2e(a[2]);
            Some(format!("ok {} {} {} {}", ord2s(x.cmp(&y)), b2s(x == y), ord2s(y.cmp(&x)), b2s(y == x)))
        }
        "ecmp_dyn" => {
            // (cmp, eq, reverse cmp, reverse eq, <, >)
            let (x, y) = (s2e(a[0]), s2e(a[1]));
            assert_eq!(Some(x.cmp(&y)), x.partial_cmp(&y));
            Some(format!("ok {} {} {} {} {} {}", ord2s(x.cmp(&y)), (x == y) as u8, ord2s(y.cmp(&x)), (y == x) as u8, (x < y) as u8, (x > y) as u8))
        }
        "eminmax_dyn" => {
            // (inherent min, Ord::min, inherent max, Ord::max, <=, >=, !=)
            let (x, y) = (s2e(a[0]), s2e(a[1]));
            Some(format!(
                "ok {} {} {} {} {} {} {}",
                e2s(Epoch::min(&x, y)), e2s(Ord::min(x, y)), e2s(Epoch::max(&x, y)), e2s(Ord::max(x, y)),
                (x <= y) as u8, (x >= y) as u8, (x != y) as u8
            ))
        }
        "esort_dyn" => {
            // (sorted triple, half-open range x..z contains y, inclusive range x..=z contains y)
            let (x, y, z) = (s2e(a[0]), s2e(a[1]), s2e(a[2]));
            let mut v = vec![x, y, z];
            v.sort();
            Some(format!("ok {} {} {} {} {}", e2s(v[0]), e2s(v[1]), e2s(v[2]), ((x..z).contains(&y)) as u8, ((x..=z).contains(&y)) as u8))
        }
        "ecmpconv" => {
            // (cmp, eq, reverse cmp, reverse eq, cmp with left converted, cmp with right converted, range contains)
            let (x, y, ts) = (s2e(a[0]), s2e(a[1]), s2ts(a[2]));
            let xc = x.to_time_scale(ts);
            let yc = y.to_time_scale(ts);
            let one_ns = Duration::from_parts(0, 1);
            Some(format!(
                "ok {} {} {} {} {} {} {}",
                ord2s(x.cmp(&y)),
                b2s(x == y),
                ord2s(y.cmp(&x)),
                b2s(y == x),
                ord2s(xc.cmp(&y)),
                ord2s(x.cmp(&yc)),
                b2s((x..x + one_ns).contains(&y))
            ))
        }
        // ---- C15
        // the series read through the Iterator protocol after k forward steps (the methods std derives from next()):
        // next to the full forward listing (at most 400 items are generated)
        "tsiter" => {
            let incl = a[0] == "1";
            let start = s2e(a[1]);
            let end = (start + s2d(a[2])).to_time_scale(s2ts(a[3]));
            let step = s2d(a[4]);
            let (k, j): (usize, usize) = (a[5].parse().unwrap(), a[7].parse().unwrap());
            let fresh = if incl { TimeSeries::inclusive(start, end, step) } else { TimeSeries::exclusive(start, end, step) };
            let full: Vec<String> = fresh.clone().take(1000).map(e2s).collect();
            let mut it = fresh.clone();
            for _ in 0..k {
                it.next();
            }
            let got: Vec<String> = match a[6] {
                "last" => it.last().map(e2s).into_iter().collect(),
                "count" => vec![it.count().to_string()],
                "nth" => it.nth(j).map(e2s).into_iter().collect(),
                "min" => it.min().map(e2s).into_iter().collect(),
                "max" => it.max().map(e2s).into_iter().collect(),
                "step_by" => it.step_by(j + 1).map(e2s).collect(),
                "skip_take" => it.skip(j).take(3).map(e2s).collect(),
                _ => it.map(e2s).collect(),
            };
            Some(format!("ok {} {}", if got.is_empty() { "-".to_string() } else { got.join(",") }, if full.is_empty() { "-".to_string() } else { full.join(",") }))
        }
        "series_long" => {
            let incl = a[0] == "1";
            let start = s2e(a[1]);
            let end = (start + s2d(a[2])).to_time_scale(s2ts(a[3]));
            let step = s2d(a[4]);
            let it = if incl { TimeSeries::inclusive(start, end, step) } else { TimeSeries::exclusive(start, end, step) };
            let mut count = 0usize;
            let mut last: Option<Epoch> = None;
            let mut ordered = true;
            for e in it {
                if let Some(p) = last {
                    if !(p.duration < e.duration) || e.time_scale != start.time_scale {
                        ordered = false;
                    }
                }
                last = Some(e);
                count += 1;
                if count > 20_000_000 {
                    break;
                }
            }
            Some(format!("ok {} {} {}", count, last.map(e2s).unwrap_or("-".to_string()), b2s(ordered)))
        }
        "series" | "series_dyn" => {
            let incl = a[0] == "1";
            let start = s2e(a[1]);
            let span = s2d(a[2]);
            let end_ts = s2ts(a[3]);
            let step = s2d(a[4]);
            let cap: usize = a[5].parse().unwrap();
            let end = (start + span).to_time_scale(end_ts);
            let ts = if incl {
                TimeSeries::inclusive(start, end, step)
            } else {
                TimeSeries::exclusive(start, end, step)
            };
            let mut count = 0usize;
            let mut sum: u64 = 0;
            let mut first: Vec<String> = Vec::new();
            let mut last: Option<Epoch> = None;
            let mut prev: Option<Epoch> = None;
            let mut ordered = true;
            let mut same_scale = true;
            let mut it = ts;
            for e in &mut it {
                if count >= cap {
                    break; // at most `cap` items are observed (the item just pulled is not)
                }
                count += 1;
                if first.len() < 3 {
                    first.push(e2s(e));
                }
                if let Some(p) = prev {
                    if !(p.duration < e.duration) {
                        ordered = false;
                    }
                }
                if e.time_scale != start.time_scale {
                    same_scale = false;
                }
                prev = Some(e);
                last = Some(e);
                // running checksum over EVERY item (the middle ones are otherwise unobserved): sum of the counts mod 2^64
                let (c, ns) = e.duration.to_parts();
                sum = sum.wrapping_add((c as i128 * 3_155_760_000_000_000_000i128 + ns as i128) as u64);
            }
            // after the end, next() keeps returning None
            let after = if count < cap { b2s(it.next().is_none() && it.next().is_none()) } else { "1" };
            Some(format!(
                "ok {} {} {} {} {} {} {} {}",
                count,
                e2s(end),
                if first.is_empty() { "-".to_string() } else { first.join(",") },
                last.map(e2s).unwrap_or_else(|| "-".to_string()),
                b2s(ordered),
                b2s(same_scale),
                after,
                sum
            ) + &(if op == "series_dyn" { format!(" {}", e2s(start.to_time_scale(end.time_scale))) } else { String::new() }))
        }
        // ---- C16
        "weekday" => Some(format!("ok {}", wd2i(s2e(a[0]).weekday()))),
        "weekday_utc" => Some(format!("ok {}", wd2i(s2e(a[0]).weekday_utc()))),
        "weekday_ts" | "weekday_dyn" => Some(format!("ok {}", wd2i(s2e(a[0]).weekday_in_time_scale(s2ts(a[1]))))),
        "next" => oke(s2e(a[0]).next(i2wd(a[1].parse().unwrap()))),
        "prev" => oke(s2e(a[0]).previous(i2wd(a[1].parse().unwrap()))),
        "next_midnight" => oke(s2e(a[0]).next_weekday_at_midnight(i2wd(a[1].parse().unwrap()))),
        "next_noon" => oke(s2e(a[0]).next_weekday_at_noon(i2wd(a[1].parse().unwrap()))),
        "prev_midnight" => oke(s2e(a[0]).previous_weekday_at_midnight(i2wd(a[1].parse().unwrap()))),
        "prev_noon" => oke(s2e(a[0]).previous_weekday_at_noon(i2wd(a[1].parse().unwrap()))),
        "wd_from_u8" => Some(format!("ok {}", wd2i(Weekday::from(a[0].parse::<u8>().unwrap())))),
        "wd_from_i8" => Some(format!("ok {}", wd2i(Weekday::from(a[0].parse::<i8>().unwrap())))),
        "wd_add" => Some(format!(
            "ok {}",
            wd2i(i2wd(a[0].parse().unwrap()) + i2wd(a[1].parse().unwrap()))
        )),
        "wd_addu" => {
            let mut w = i2wd(a[0].parse().unwrap());
            let r1 = w + a[1].parse::<u8>().unwrap();
            w += a[1].parse::<u8>().unwrap();
            assert_eq!(w, r1);
            Some(format!("ok {}", wd2i(r1)))
        }
        "wd_subu" => {
            let mut w = i2wd(a[0].parse().unwrap());
            let r1 = w - a[1].parse::<u8>().unwrap();
            w -= a[1].parse::<u8>().unwrap();
            assert_eq!(w, r1);
            Some(format!("ok {}", wd2i(r1)))
        }
        "wd_diff" => okd(i2wd(a[0].parse().unwrap()) - i2wd(a[1].parse().unwrap())),
        // ---- C20
        "from_tow" => {
            let (w, ns, ts) = (a[0].parse::<u32>().unwrap(), a[1].parse::<u64>().unwrap(), s2ts(a[2]));
            let e = Epoch::from_time_of_week(w, ns, ts);
            if ts == TimeScale::UTC {
                assert_eq!(e2s(e), e2s(Epoch::from_time_of_week_utc(w, ns)));
            }
            oke(e)
        }
        "to_tow" => {
            let (w, ns) = s2e(a[0]).to_time_of_week();
            Some(format!("ok {} {}", w, ns))
        }
        "towrt" => {
            let e = s2e(a[0]);
            let (w, ns) = e.to_time_of_week();
            oke(Epoch::from_time_of_week(w, ns, e.time_scale))
        }
        "ns_rt" => {
            let v = a[1].parse::<u64>().unwrap();
            let r = match a[0] {
                "gpst" => Epoch::from_gpst_nanoseconds(v).to_gpst_nanoseconds(),
                "qzsst" => Epoch::from_qzsst_nanoseconds(v).to_qzsst_nanoseconds(),
                "gst" => Epoch::from_gst_nanoseconds(v).to_gst_nanoseconds(),
                _ => Epoch::from_bdt_nanoseconds(v).to_bdt_nanoseconds(),
            };
            Some(match r {
                Ok(x) => format!("ok {}", x),
                Err(_) => "err".to_string(),
            })
        }
        "to_ns" => {
            let e = s2e(a[1]);
            let r = match a[0] {
                "gpst" => e.to_gpst_nanoseconds(),
                "qzsst" => e.to_qzsst_nanoseconds(),
                "gst" => e.to_gst_nanoseconds(),
                _ => e.to_bdt_nanoseconds(),
            };
            Some(match r {
                Ok(x) => format!("ok {}", x),
                Err(_) => "err".to_string(),
            })
        }
        _ => None,
    }
}

pub fn dump_consts(m: &mut serde_json::Map<String, serde_json::Value>) {
    use hifitime::*;
    let ls = |l: hifitime::leap_seconds::LeapSecond| {
        serde_json::json!({
            "ts_bits": f2s(l.timestamp_tai_s),
            "ts_is_int": l.timestamp_tai_s.fract() == 0.0,
            "ts": format!("{}", l.timestamp_tai_s as i128),
            "delta_bits": f2s(l.delta_at),
            "delta_is_int": l.delta_at.fract() == 0.0,
            "delta_s": format!("{}", l.delta_at as i128),
            "delta_ns": format!("{}", (l.delta_at * Unit::Second).total_nanoseconds()),
            "ts_ns": format!("{}", (l.timestamp_tai_s * Unit::Second).total_nanoseconds()),
            "iers": l.announced_by_iers,
        })
    };
    let builtin: Vec<serde_json::Value> = LatestLeapSeconds::default().map(ls).collect();
    m.insert("LEAP_BUILTIN".into(), serde_json::Value::Array(builtin));
    let file: Vec<serde_json::Value> = file_provider().map(ls).collect();
    m.insert("LEAP_FILE".into(), serde_json::Value::Array(file));
    let ep = |e: Epoch| {
        let (c, ns) = e.duration.to_parts();
        serde_json::json!([c.to_string(), ns.to_string(), ts2s(e.time_scale)])
    };
    let mut refs = serde_json::Map::new();
    refs.insert("J1900_REF_EPOCH".into(), ep(J1900_REF_EPOCH));
    refs.insert("J2000_REF_EPOCH".into(), ep(J2000_REF_EPOCH));
    refs.insert("GPST_REF_EPOCH".into(), ep(GPST_REF_EPOCH));
    refs.insert("QZSST_REF_EPOCH".into(), ep(QZSST_REF_EPOCH));
    refs.insert("GST_REF_EPOCH".into(), ep(GST_REF_EPOCH));
    refs.insert("BDT_REF_EPOCH".into(), ep(BDT_REF_EPOCH));
    refs.insert("UNIX_REF_EPOCH".into(), ep(UNIX_REF_EPOCH));
    m.insert("REF_EPOCHS".into(), serde_json::Value::Object(refs));
    let mut ints = serde_json::Map::new();
    macro_rules! put_i {
        ($name:ident) => {
            ints.insert(stringify!($name).to_string(), serde_json::json!(($name as i128).to_string()));
        };
    }
    macro_rules! put_f {
        ($name:ident) => {
            assert!(($name as f64).fract() == 0.0);
            ints.insert(stringify!($name).to_string(), serde_json::json!(($name as i128).to_string()));
        };
    }
    put_i!(SECONDS_GPS_TAI_OFFSET_I64);
    put_i!(SECONDS_GST_TAI_OFFSET_I64);
    put_i!(SECONDS_BDT_TAI_OFFSET_I64);
    put_f!(SECONDS_GPS_TAI_OFFSET);
    put_f!(SECONDS_GST_TAI_OFFSET);
    put_f!(SECONDS_BDT_TAI_OFFSET);
    put_i!(ET_EPOCH_S);
    put_i!(SECONDS_PER_DAY_I64);
    put_i!(DAYS_PER_CENTURY_I64);
    put_f!(SECONDS_PER_DAY);
    put_f!(MJD_J1900);
    put_f!(JD_J1900);
    put_f!(JD_J2000);
    m.insert("INT_CONSTS".into(), serde_json::Value::Object(ints));
    let mut fl = serde_json::Map::new();
    fl.insert("NAIF_K".into(), serde_json::json!(f2s(NAIF_K)));
    fl.insert("NAIF_EB".into(), serde_json::json!(f2s(NAIF_EB)));
    fl.insert("NAIF_M0".into(), serde_json::json!(f2s(NAIF_M0)));
    fl.insert("NAIF_M1".into(), serde_json::json!(f2s(NAIF_M1)));
    fl.insert("SECONDS_PER_CENTURY".into(), serde_json::json!(f2s(SECONDS_PER_CENTURY)));
    fl.insert("TAU".into(), serde_json::json!(f2s(core::f64::consts::TAU)));
    m.insert("F64_CONSTS".into(), serde_json::Value::Object(fl));
}
