//! Per-property input generators and op executors.
use crate::rng::Rng;
use std::io::Write;

pub mod calendar;
pub mod duration;
pub mod durfloat;
pub mod durtext;
pub mod efmt;
pub mod epoch;
pub mod epochtext;
pub mod f64ops;
pub mod wrappers;

/// Deserialize JSON `text` through every serde_json entry point — `from_str`, `from_slice` (both can lend the
/// string), `from_reader`, `from_value` and the same string written with `\u` escapes (none of which can) — and
/// answer `Ok(result of from_str)` when all agree, `Err(())` when they differ.
pub fn json_all<T: serde::de::DeserializeOwned + PartialEq>(text: &str) -> Result<Option<T>, ()> {
    let base: Option<T> = serde_json::from_str::<T>(text).ok();
    let mut others: Vec<Option<T>> = vec![
        serde_json::from_slice::<T>(text.as_bytes()).ok(),
        serde_json::from_reader::<_, T>(text.as_bytes()).ok(),
    ];
    if let Ok(v) = serde_json::from_str::<serde_json::Value>(text) {
        if let serde_json::Value::String(inner) = &v {
            // every character that is not an ASCII letter, digit or blank as an escape, and the first one too
            let mut esc = String::from("\"");
            for (i, c) in inner.chars().enumerate() {
                if i > 0 && (c.is_ascii_alphanumeric() || c == ' ') {
                    esc.push(c);
                } else {
                    let mut buf = [0u16; 2];
                    for u in c.encode_utf16(&mut buf) {
                        esc.push_str(&format!("\\u{:04x}", u));
                    }
                }
            }
            esc.push('"');
            others.push(serde_json::from_str::<T>(&esc).ok());
        }
        others.push(serde_json::from_value::<T>(v).ok());
    }
    if others.iter().all(|o| *o == base) {
        Ok(base)
    } else {
        Err(())
    }
}

pub fn salt(prop: &str) -> u64 {
    let mut h: u64 = 0xcbf29ce484222325;
    for b in prop.bytes() {
        h ^= b as u64;
        h = h.wrapping_mul(0x100000001b3);
    }
    h
}

pub fn inputs(prop: &str, r: &mut Rng, n: usize, tier: &str, out: &mut dyn Write) {
    match prop {
        "C01" => duration::inputs_c01(r, n, tier, out),
        "C02" => duration::inputs_c02(r, n, tier, out),
        "C03" => duration::inputs_c03(r, n, tier, out),
        "C14" => duration::inputs_c14(r, n, tier, out),
        "C10" => epochtext::inputs_c10(r, n, tier, out),
        "C13E" => epochtext::inputs_c13e(r, n, tier, out),
        "C13" => {
            // the three parser streams of C13: durations, epochs / enums, format specifications and (format, text) pairs
            let k = n / 10;
            durtext::inputs_c13d(r, 4 * k, tier, out);
            epochtext::inputs_c13e(r, 3 * k, tier, out);
            efmt::inputs_c13f(r, n - 7 * k, tier, out);
        }
        "C19" => efmt::inputs_c19(r, n, tier, out),
        "C13F" => efmt::inputs_c13f(r, n, tier, out),
        "C18" => durfloat::inputs_c18(r, n, tier, out),
        "F64" => f64ops::inputs_f64(r, n, tier, out),
        "C11" => durtext::inputs_c11(r, n, tier, out),
        "C13D" => durtext::inputs_c13d(r, n, tier, out),
        "C08" => calendar::inputs_c08(r, n, tier, out),
        "C09" => calendar::inputs_c09(r, n, tier, out),
        "C04" => epoch::inputs_c04(r, n, tier, out),
        "C05" => epoch::inputs_c05(r, n, tier, out),
        "C06" => epoch::inputs_c06(r, n, tier, out),
        "C12" => epoch::inputs_c12(r, n, tier, out),
        "C07" => epoch::inputs_c07(r, n, tier, out),
        "C17" => epoch::inputs_c17(r, n, tier, out),
        "C15" => epoch::inputs_c15(r, n, tier, out),
        "C16" => epoch::inputs_c16(r, n, tier, out),
        "C20" => epoch::inputs_c20(r, n, tier, out),
        _ => panic!("no generator for {prop}"),
    }
}

pub fn exec(op: &str, args: &[&str]) -> Option<String> {
    if let Some(r) = duration::exec(op, args) {
        return Some(r);
    }
    if let Some(r) = epoch::exec(op, args) {
        return Some(r);
    }
    if let Some(r) = calendar::exec(op, args) {
        return Some(r);
    }
    if let Some(r) = durtext::exec(op, args) {
        return Some(r);
    }
    if let Some(r) = epochtext::exec(op, args) {
        return Some(r);
    }
    if let Some(r) = efmt::exec(op, args) {
        return Some(r);
    }
    if let Some(r) = wrappers::exec(op, args) {
        return Some(r);
    }
    if let Some(r) = f64ops::exec(op, args) {
        return Some(r);
    }
    if let Some(r) = durfloat::exec(op, args) {
        return Some(r);
    }
    None
}

/// Extra constants contributed by the property modules.
pub fn dump_consts(m: &mut serde_json::Map<String, serde_json::Value>) {
    epoch::dump_consts(m);
    calendar::dump_consts(m);
    durtext::dump_consts(m);
    epochtext::dump_consts(m);
    efmt::dump_consts(m);
    durfloat::dump_consts(m);
}
