//! Thin public wrappers (from_X_seconds/days, from_mjd_X, to_X_days, to_X(unit), ...) against the generic call whose
//! meaning the properties state: `wrap <name> <arg>` prints the wrapper's result and the reference result; the
//! driver demands that they agree (the reference calls themselves are covered by the ops of C05/C17).
use crate::codec::*;
use crate::rng::Rng;
use hifitime::{Duration, Epoch, TimeScale, Unit};
use std::io::Write;

const DAY: i128 = 86_400_000_000_000;
const NONDYN: [&str; 7] = ["TAI", "TT", "UTC", "GPST", "GST", "BDT", "QZSST"];

pub const CTORS_SCALE: [&str; 16] = [
    "from_tai_seconds", "from_tai_days", "from_utc_seconds", "from_utc_days", "from_tt_seconds", "from_gpst_seconds", "from_gpst_days",
    "from_qzsst_seconds", "from_qzsst_days", "from_gst_seconds", "from_gst_days", "from_bdt_seconds", "from_bdt_days", "from_et_seconds",
    "from_tdb_seconds", "from_tai_parts",
];
pub const CTORS_VIEW: [&str; 12] = [
    "from_mjd_tai", "from_mjd_utc", "from_mjd_gpst", "from_mjd_qzsst", "from_mjd_gst", "from_mjd_bdt", "from_jde_tai", "from_jde_utc",
    "from_jde_gpst", "from_jde_qzsst", "from_jde_gst", "from_jde_bdt",
];
pub const ACC_SCALE: [&str; 9] = [
    "to_bdt_seconds", "to_bdt_days", "to_gst_seconds", "to_gst_days", "to_qzsst_seconds", "to_qzsst_days", "to_tai_unit", "to_utc_unit", "to_tai_parts",
];
pub const ACC_VIEW: [&str; 9] = [
    "to_mjd_tai_d", "to_mjd_tai_s", "to_mjd_utc_d", "to_mjd_utc_s", "to_jde_tai_d", "to_jde_tai_s", "to_unix_s", "to_unix_ms", "to_unix_d",
];

fn count(r: &mut Rng, days: bool) -> f64 {
    // within +/- 10 000 years, whole numbers, halves and arbitrary fractions
    let d = r.range_i64(-3_600_000, 3_600_000) as f64;
    let x = match r.below(4) {
        0 => d,
        1 => d + 0.5,
        2 => d + r.below(86_400) as f64 / 86_400.0,
        _ => d + (r.next() >> 11) as f64 / (1u64 << 53) as f64,
    };
    if days { x } else { x * 86_400.0 }
}

pub fn gen_c05(r: &mut Rng, out: &mut dyn Write) {
    if r.chance(1, 2) {
        let name = *r.pick(&CTORS_SCALE);
        if name == "from_tai_parts" {
            // raw parts: the nanosecond field may hold up to 5.8 centuries (a u64), the century field any i16
            const NPC: u64 = 3_155_760_000_000_000_000;
            let ns = match r.below(4) {
                0 => r.next() % NPC,
                1 => *r.pick(&[NPC - 1, NPC, NPC + 1, 2 * NPC - 1, 2 * NPC, 2 * NPC + 5, 3 * NPC, 5 * NPC, 5 * NPC + 1, u64::MAX - 1, u64::MAX]),
                2 => (1 + r.below(5)) * NPC + r.below(3),
                _ => r.next(),
            };
            let c = match r.below(4) { 0 => *r.pick(&[i16::MIN as i64, i16::MIN as i64 + 1, -1, 0, 1, i16::MAX as i64 - 5, i16::MAX as i64 - 1, i16::MAX as i64]), _ => r.range_i64(-100, 100) };
            writeln!(out, "wrap_p {} {} {}", name, c, ns).unwrap();
        } else {
            writeln!(out, "wrap_c {} {}", name, f2s(count(r, name.ends_with("_days")))).unwrap();
        }
    } else {
        let name = *r.pick(&ACC_SCALE);
        let ts = *r.pick(&NONDYN);
        let v = (r.range_i64(-3_600_000, 3_600_000) as i128) * DAY + r.below(DAY as u64) as i128;
        let u = *r.pick(&["ns", "us", "ms", "s", "min", "h", "d", "wk", "cy"]);
        writeln!(out, "wrap_a {} {}:{} {}", name, dstr(v), ts, u).unwrap();
    }
}

/// C09: the scale-fixed formats on epochs held in any of the nine scales, half of them aimed so that the view in the
/// format's scale is a WHOLE second (the branch that drops the fraction), found by scanning a few hundred ns around
/// the library's own conversion of a whole-second label (the float conversions rarely round-trip exactly)
pub fn gen_c09(r: &mut Rng, out: &mut dyn Write) {
    const ALL9: [&str; 9] = ["TAI", "TT", "UTC", "GPST", "GST", "BDT", "QZSST", "ET", "TDB"];
    const SEC: i128 = 1_000_000_000;
    let (name, tgt) = *r.pick(&[("fmt_debug", "UTC"), ("fmt_x", "TAI"), ("fmt_X", "TT"), ("fmt_e", "TDB"), ("fmt_E", "ET")]);
    let src = *r.pick(&ALL9);
    let secs = r.range_i64(-3_000_000_000, 6_000_000_000) as i128;
    let frac = if r.chance(1, 2) { 0 } else { r.below(SEC as u64) as i128 };
    let t = s2e(&format!("{}:{}", dstr(secs * SEC + frac), tgt));
    let mut e = t.to_time_scale(s2ts(src));
    if frac == 0 {
        // look for a neighbour whose view in the target scale has no fraction
        let base = e;
        for k in 0..=600i64 {
            let d = if k % 2 == 0 { k / 2 } else { -(k + 1) / 2 };
            let c = base + Duration::from_total_nanoseconds(d as i128);
            if c.to_time_scale(s2ts(tgt)).duration.to_parts().1 % 1_000_000_000 == 0 {
                e = c;
                break;
            }
        }
    }
    writeln!(out, "wrap_a {} {}", name, e2s(e)).unwrap();
    // the Gregorian tuples and text in another scale than the epoch's own
    match r.below(3) {
        0 => writeln!(out, "wrap_a to_greg_tai {}", e2s(e)).unwrap(),
        1 => writeln!(out, "wrap_a to_greg_utc {}", e2s(e)).unwrap(),
        _ => writeln!(out, "wrap_a to_greg_str {} {}", e2s(e), tgt).unwrap(),
    }
}

/// C17: the unit-taking views where the viewed duration is a whole number of centuries plus a whole number of the unit
/// asked for (an interaction between the unit argument and the value), +/- 1 ns
pub fn gen_c17_units(out: &mut dyn Write) {
    const NPC: i128 = 3_155_760_000_000_000_000;
    const DAYN: i128 = 86_400_000_000_000;
    let units: [(&str, i128); 9] = [("ns", 1), ("us", 1_000), ("ms", 1_000_000), ("s", 1_000_000_000), ("min", 60_000_000_000), ("h", 3_600_000_000_000), ("d", DAYN), ("wk", 7 * DAYN), ("cy", NPC)];
    // (op, scale the epoch is held in, the view's origin as a count of that scale, century counts to visit)
    let views: [(&str, &str, i128, [i128; 4]); 4] = [
        ("to_unix_u", "UTC", 25_567 * DAYN, [-2, -1, 1, 2]),
        ("to_mjd_tai_u", "TAI", -15_020 * DAYN, [-1, 1, 2, 3]),
        ("to_mjd_utc_u", "UTC", -15_020 * DAYN, [-1, 1, 2, 3]),
        ("to_jde_tai_u", "TAI", -15_020 * DAYN - 2_400_000 * DAYN - DAYN / 2, [64, 65, 67, 68]),
    ];
    for (op, ts, origin, cs) in views {
        for c in cs {
            for (un, uns) in units {
                for k in [1i128, 3] {
                    for dt in [-1i128, 0, 1] {
                        writeln!(out, "wrap_a {} {}:{} {}", op, dstr(origin + c * NPC + k * uns + dt), ts, un).unwrap();
                    }
                }
            }
        }
    }
}

pub fn gen_c17(r: &mut Rng, out: &mut dyn Write) {
    if r.chance(1, 2) {
        let name = *r.pick(&CTORS_VIEW);
        let x = count(r, true) + if name.starts_with("from_jde") { 2_415_020.5 } else { 15_020.0 };
        writeln!(out, "wrap_c {} {}", name, f2s(x)).unwrap();
    } else {
        let name = *r.pick(&ACC_VIEW);
        let ts = *r.pick(&NONDYN);
        let v = (r.range_i64(-3_600_000, 3_600_000) as i128) * DAY + r.below(DAY as u64) as i128;
        writeln!(out, "wrap_a {} {}:{} -", name, dstr(v), ts).unwrap();
    }
}

fn dstr(v: i128) -> String {
    d2s(Duration::from_total_nanoseconds(v))
}

pub fn exec(op: &str, a: &[&str]) -> Option<String> {
    match op {
        "wrap_p" => {
            let (c, ns): (i16, u64) = (a[1].parse().ok()?, a[2].parse().ok()?);
            Some(format!("ok e {} {}", e2s(Epoch::from_tai_parts(c, ns)), e2s(Epoch::from_tai_duration(Duration::from_parts(c, ns)))))
        }
        "wrap_c" => {
            let x = s2f(a[1]);
            let sec = x * Unit::Second;
            let day = x * Unit::Day;
            let (w, refr) = match a[0] {
                "from_tai_seconds" => (Epoch::from_tai_seconds(x), Epoch::from_tai_duration(sec)),
                "from_tai_days" => (Epoch::from_tai_days(x), Epoch::from_tai_duration(day)),
                "from_utc_seconds" => (Epoch::from_utc_seconds(x), Epoch::from_utc_duration(sec)),
                "from_utc_days" => (Epoch::from_utc_days(x), Epoch::from_utc_duration(day)),
                "from_tt_seconds" => (Epoch::from_tt_seconds(x), Epoch::from_tt_duration(sec)),
                "from_gpst_seconds" => (Epoch::from_gpst_seconds(x), Epoch::from_gpst_duration(sec)),
                "from_gpst_days" => (Epoch::from_gpst_days(x), Epoch::from_gpst_duration(day)),
                "from_qzsst_seconds" => (Epoch::from_qzsst_seconds(x), Epoch::from_qzsst_duration(sec)),
                "from_qzsst_days" => (Epoch::from_qzsst_days(x), Epoch::from_qzsst_duration(day)),
                "from_gst_seconds" => (Epoch::from_gst_seconds(x), Epoch::from_gst_duration(sec)),
                "from_gst_days" => (Epoch::from_gst_days(x), Epoch::from_gst_duration(day)),
                "from_bdt_seconds" => (Epoch::from_bdt_seconds(x), Epoch::from_bdt_duration(sec)),
                "from_bdt_days" => (Epoch::from_bdt_days(x), Epoch::from_bdt_duration(day)),
                "from_et_seconds" => (Epoch::from_et_seconds(x), Epoch::from_duration(sec, TimeScale::ET)),
                "from_tdb_seconds" => (Epoch::from_tdb_seconds(x), Epoch::from_duration(sec, TimeScale::TDB)),
                "from_mjd_tai" => (Epoch::from_mjd_tai(x), Epoch::from_mjd_in_time_scale(x, TimeScale::TAI)),
                "from_mjd_utc" => (Epoch::from_mjd_utc(x), Epoch::from_mjd_in_time_scale(x, TimeScale::UTC)),
                "from_mjd_gpst" => (Epoch::from_mjd_gpst(x), Epoch::from_mjd_in_time_scale(x, TimeScale::GPST)),
                "from_mjd_qzsst" => (Epoch::from_mjd_qzsst(x), Epoch::from_mjd_in_time_scale(x, TimeScale::QZSST)),
                "from_mjd_gst" => (Epoch::from_mjd_gst(x), Epoch::from_mjd_in_time_scale(x, TimeScale::GST)),
                "from_mjd_bdt" => (Epoch::from_mjd_bdt(x), Epoch::from_mjd_in_time_scale(x, TimeScale::BDT)),
                "from_jde_tai" => (Epoch::from_jde_tai(x), Epoch::from_jde_in_time_scale(x, TimeScale::TAI)),
                "from_jde_utc" => (Epoch::from_jde_utc(x), Epoch::from_jde_in_time_scale(x, TimeScale::UTC)),
                "from_jde_gpst" => (Epoch::from_jde_gpst(x), Epoch::from_jde_in_time_scale(x, TimeScale::GPST)),
                "from_jde_qzsst" => (Epoch::from_jde_qzsst(x), Epoch::from_jde_in_time_scale(x, TimeScale::QZSST)),
                "from_jde_gst" => (Epoch::from_jde_gst(x), Epoch::from_jde_in_time_scale(x, TimeScale::GST)),
                "from_jde_bdt" => (Epoch::from_jde_bdt(x), Epoch::from_jde_in_time_scale(x, TimeScale::BDT)),
                _ => return None,
            };
            Some(format!("ok e {} {}", e2s(w), e2s(refr)))
        }
        "wrap_a" => {
            let e = s2e(a[1]);
            let f = |w: f64, r: f64| Some(format!("ok f {} {}", f2s(w), f2s(r)));
            match a[0] {
                "to_bdt_seconds" => f(e.to_bdt_seconds(), e.to_bdt_duration().to_unit(Unit::Second)),
                "to_bdt_days" => f(e.to_bdt_days(), e.to_bdt_duration().to_unit(Unit::Day)),
                "to_gst_seconds" => f(e.to_gst_seconds(), e.to_gst_duration().to_unit(Unit::Second)),
                "to_gst_days" => f(e.to_gst_days(), e.to_gst_duration().to_unit(Unit::Day)),
                "to_qzsst_seconds" => f(e.to_qzsst_seconds(), e.to_qzsst_duration().to_unit(Unit::Second)),
                "to_qzsst_days" => f(e.to_qzsst_days(), e.to_qzsst_duration().to_unit(Unit::Day)),
                "to_tai_unit" => f(e.to_tai(s2u(a[2])), e.to_tai_duration().to_unit(s2u(a[2]))),
                "to_utc_unit" => f(e.to_utc(s2u(a[2])), e.to_utc_duration().to_unit(s2u(a[2]))),
                "to_tai_parts" => {
                    // the pair is printed as observed (not re-normalised through from_parts)
                    let (c, ns) = e.to_tai_parts();
                    Some(format!("ok d {}:{} {}", c, ns, d2s(e.to_tai_duration())))
                }
                // the five scale-fixed formats of an epoch HELD IN ANY SCALE: the text of its re-expression in the
                // format's scale (whose text is C09's subject through fmt_debug / fmt_x / ... on own-scale epochs)
                "fmt_debug" | "fmt_x" | "fmt_X" | "fmt_e" | "fmt_E" => {
                    let (ts, w) = match a[0] {
                        "fmt_debug" => (TimeScale::UTC, format!("{:?}", e)),
                        "fmt_x" => (TimeScale::TAI, format!("{:x}", e)),
                        "fmt_X" => (TimeScale::TT, format!("{:X}", e)),
                        "fmt_e" => (TimeScale::TDB, format!("{:e}", e)),
                        _ => (TimeScale::ET, format!("{:E}", e)),
                    };
                    let c = e.to_time_scale(ts);
                    let r = match a[0] {
                        "fmt_debug" => format!("{:?}", c),
                        "fmt_x" => format!("{:x}", c),
                        "fmt_X" => format!("{:X}", c),
                        "fmt_e" => format!("{:e}", c),
                        _ => format!("{:E}", c),
                    };
                    // ... which is also what Display prints for the re-expressed epoch
                    Some(format!("ok t {} {} {}", crate::codec::str2hex(&w), crate::codec::str2hex(&r), crate::codec::str2hex(&format!("{}", c))))
                }
                // the Gregorian tuples / text in a scale OTHER than the one the epoch is held in
                "to_greg_tai" | "to_greg_utc" => {
                    let ts = if a[0] == "to_greg_tai" { TimeScale::TAI } else { TimeScale::UTC };
                    let c = e.to_time_scale(ts);
                    let (w, r) = if a[0] == "to_greg_tai" { (e.to_gregorian_tai(), c.to_gregorian_tai()) } else { (e.to_gregorian_utc(), c.to_gregorian_utc()) };
                    let (w, r) = (crate::codec::str2hex(&format!("{:?}", w)), crate::codec::str2hex(&format!("{:?}", r)));
                    Some(format!("ok t {} {} {}", w, r, r))
                }
                "to_greg_str" => {
                    let ts = s2ts(a[2]);
                    let c = e.to_time_scale(ts);
                    let r = crate::codec::str2hex(&c.to_gregorian_str(ts));
                    Some(format!("ok t {} {} {}", crate::codec::str2hex(&e.to_gregorian_str(ts)), r, crate::codec::str2hex(&format!("{}", c))))
                }
                // the unit-taking views in ANY unit against the days view scaled in binary64 (kind g: 8 units in the last place)
                "to_unix_u" | "to_mjd_tai_u" | "to_mjd_utc_u" | "to_jde_tai_u" => {
                    let u = s2u(a[2]);
                    let (w, days) = match a[0] {
                        "to_unix_u" => (e.to_unix(u), e.to_unix_days()),
                        "to_mjd_tai_u" => (e.to_mjd_tai(u), e.to_mjd_tai_days()),
                        "to_mjd_utc_u" => (e.to_mjd_utc(u), e.to_mjd_utc_days()),
                        _ => (e.to_jde_tai(u), e.to_jde_tai_days()),
                    };
                    Some(format!("ok g {} {}", f2s(w), f2s(days * (86_400.0 / u.in_seconds()))))
                }
                "to_mjd_tai_d" => f(e.to_mjd_tai(Unit::Day), e.to_mjd_tai_days()),
                "to_mjd_tai_s" => f(e.to_mjd_tai(Unit::Second), e.to_mjd_tai_seconds()),
                "to_mjd_utc_d" => f(e.to_mjd_utc(Unit::Day), e.to_mjd_utc_days()),
                "to_mjd_utc_s" => f(e.to_mjd_utc(Unit::Second), e.to_mjd_utc_seconds()),
                "to_jde_tai_d" => f(e.to_jde_tai(Unit::Day), e.to_jde_tai_days()),
                "to_jde_tai_s" => f(e.to_jde_tai(Unit::Second), e.to_jde_tai_seconds()),
                "to_unix_s" => f(e.to_unix(Unit::Second), e.to_unix_seconds()),
                "to_unix_ms" => f(e.to_unix(Unit::Millisecond), e.to_unix_milliseconds()),
                "to_unix_d" => f(e.to_unix(Unit::Day), e.to_unix_days()),
                _ => None,
            }
        }
        _ => None,
    }
}
